import RV.C03.Tables
set_option linter.unusedVariables false
/-
  C03 — term codecs (executable; core-only imports, linked into drv_c03).

  Writers: per-character maps REGENERATED from rdflib's behaviour on every run (`Tables.lean`, produced by
  `harness/c03.py:TABLES` = harness/c03tables.py, which also checks that the writers are such maps):
    * `ntQuoteEncode`      = `rdflib/plugins/serializers/nt.py:_quote_encode`
    * `quoteEncode`        = `rdflib/term.py:Literal._quote_encode` (short form; long `"""` form = map + quote rules)
  Readers are the LANGUAGE (the W3C grammars), not rdflib's parsers:
    * `decodeShort q`      = STRING_LITERAL_QUOTE / STRING_LITERAL_SINGLE_QUOTE  (N-Triples §7, Turtle §6.5 [22],[23])
    * `decodeLong q`       = STRING_LITERAL_LONG_QUOTE / …_LONG_SINGLE_QUOTE      (Turtle [24],[25])
    * `ECHAR` [159s], `UCHAR` [26]
    * `relex`              = INTEGER [19], DECIMAL [20], DOUBLE [21], BooleanLiteral [133s]
-/
namespace RV.C03

abbrev Str := List Char

def bs : Char := '\\'
def dq : Char := '"'
def sq : Char := '\''
def lf : Char := '\n'
def cr : Char := '\r'

/-! ### Writers: per-character maps regenerated from rdflib's behaviour (Tables.lean)

  `harness/c03tables.py` probes the N-Triples and Turtle writers on every character of a probe alphabet and
  checks (behaviourally, on two-character contexts) that they ARE per-character maps — and that the Turtle long
  form is such a map plus the two context rules for quotes built into `encLong` below.  How the implementation
  computes the map (chained `str.replace`, `str.translate`, …) does not matter. -/

/-- first entry for `c` -/
def lookupEsc : List (Char × Str) → Char → Option Str
  | [], _ => none
  | (k, w) :: rest, c => if k = c then some w else lookupEsc rest c

/-- what the writer puts for character `c`: its table entry, or the character itself -/
def escOf (m : List (Char × Str)) (c : Char) : Str :=
  match lookupEsc m c with
  | some w => w
  | none => [c]

/-- `nt._quote_encode` -/
def ntQuoteEncode (s : Str) : Str :=
  dq :: s.flatMap (escOf Tables.ntMap) ++ [dq]

def esc3 : Str := [bs, dq, bs, dq, bs, dq]

/-- one source character of the long form: a quote stays raw unless it is the last character of the text
    (`"` -> `\"`); anything else goes through the map -/
def pieceL (m : List (Char × Str)) (x : Char) (last : Bool) : Str :=
  if x = dq then (if last then [bs, dq] else [dq]) else escOf m x

/-- the long form between the triple quotes, in one pass: `"""` -> `\"\"\"` (leftmost first), a final raw
    quote escaped, every other character through the map.  (`skip` = characters of a `"""` just written that
    are still to be stepped over; keeps the recursion structural.) -/
def encLongAux (m : List (Char × Str)) : Nat → Str → Str
  | _, [] => []
  | skip + 1, _ :: t => encLongAux m skip t
  | 0, x :: t =>
    match t with
    | y :: z :: _ =>
      if x = dq ∧ y = dq ∧ z = dq then esc3 ++ encLongAux m 2 t else pieceL m x false ++ encLongAux m 0 t
    | _ => pieceL m x t.isEmpty ++ encLongAux m 0 t

def encLong (m : List (Char × Str)) (s : Str) : Str := encLongAux m 0 s

/-- `Literal._quote_encode`: long form when the text contains a newline, else the short form -/
def quoteEncode (s : Str) : Str :=
  if lf ∈ s then [dq, dq, dq] ++ encLong Tables.longMap s ++ [dq, dq, dq]
  else dq :: s.flatMap (escOf Tables.shortMap) ++ [dq]

/-! ### Readers: the W3C string grammars -/

def hexVal (c : Char) : Option Nat :=
  if '0' ≤ c ∧ c ≤ '9' then some (c.toNat - 48)
  else if 'a' ≤ c ∧ c ≤ 'f' then some (c.toNat - 87)
  else if 'A' ≤ c ∧ c ≤ 'F' then some (c.toNat - 55)
  else none

def hexNum : List Char → Option Nat
  | [] => some 0
  | c :: t => do
    let v ← hexVal c
    let r ← hexNum t
    pure (v * 16 ^ t.length + r)

/-- a code point is a Unicode scalar value (lone surrogates are not characters) -/
def ucharOf (n : Nat) : Option Char :=
  if n < 0xD800 ∨ (0xDFFF < n ∧ n < 0x110000) then some (Char.ofNat n) else none

/-- ECHAR ::= '\' [tbnrf"'\] -/
def echar (c : Char) : Option Char :=
  if c = 't' then some '\t'
  else if c = 'b' then some (Char.ofNat 8)
  else if c = 'n' then some '\n'
  else if c = 'r' then some '\r'
  else if c = 'f' then some (Char.ofNat 12)
  else if c = '"' then some '"'
  else if c = '\'' then some '\''
  else if c = '\\' then some '\\'
  else none

def consOpt (c : Char) : Option Str → Option Str
  | some s => some (c :: s)
  | none => none

def appOpt (w : Str) : Option Str → Option Str
  | some s => some (w ++ s)
  | none => none

/-- what follows a backslash: ECHAR or UCHAR ([26] `\\u` HEX{4} | `\\U` HEX{8}); returns the character and the rest -/
def unescape : Str → Option (Char × Str)
  | [] => none
  | e :: r =>
    match echar e with
    | some d => some (d, r)
    | none =>
      if e = 'u' then
        match r with
        | h1 :: h2 :: h3 :: h4 :: r' =>
          match (hexNum [h1, h2, h3, h4]).bind ucharOf with
          | some d => some (d, r')
          | none => none
        | _ => none
      else if e = 'U' then
        match r with
        | h1 :: h2 :: h3 :: h4 :: h5 :: h6 :: h7 :: h8 :: r' =>
          match (hexNum [h1, h2, h3, h4, h5, h6, h7, h8]).bind ucharOf with
          | some d => some (d, r')
          | none => none
        | _ => none
      else none

theorem unescape_lt {r r' : Str} {d : Char} (h : unescape r = some (d, r')) : r'.length < r.length := by
  unfold unescape at h
  split at h
  · simp at h
  · split at h
    · simp at h; obtain ⟨_, rfl⟩ := h; simp
    · split at h
      · split at h
        · split at h
          · simp at h; obtain ⟨_, rfl⟩ := h; simp; omega
          · simp at h
        · simp at h
      · split at h
        · split at h
          · split at h
            · simp at h; obtain ⟨_, rfl⟩ := h; simp; omega
            · simp at h
          · simp at h
        · simp at h

/-- body of STRING_LITERAL_(SINGLE_)QUOTE after the opening quote, up to and including the closing
    quote, which must be the last character: `([^q\\\n\r] | ECHAR | UCHAR)* q` -/
def decShortBody (q : Char) : Str → Option Str
  | [] => none
  | c :: rest =>
    if c = q then (if rest = [] then some [] else none)
    else if c = bs then
      match h : unescape rest with
      | some (d, rest') => consOpt d (decShortBody q rest')
      | none => none
    else if c = lf ∨ c = cr then none
    else consOpt c (decShortBody q rest)
termination_by s => s.length
decreasing_by
  · have := unescape_lt h; simp; omega
  · simp

/-- body of STRING_LITERAL_LONG_(SINGLE_)QUOTE after the opening `qqq`, up to and including the closing
    `qqq`, which must end the text:  `((q | qq)? ([^q\\] | ECHAR | UCHAR))* qqq`.
    One or two quotes must be followed by a non-quote item; three quotes close the literal. -/
def decLongBody (q : Char) : Str → Option Str
  | [] => none
  | c :: rest =>
    if c = q then
      match rest with
      | [] => none
      | c2 :: rest2 =>
        if c2 = q then
          match rest2 with
          | [] => none
          | c3 :: rest3 =>
            if c3 = q then (if rest3 = [] then some [] else none)
            else appOpt [q, q] (decLongBody q (c3 :: rest3))
        else consOpt q (decLongBody q (c2 :: rest2))
    else if c = bs then
      match h : unescape rest with
      | some (d, rest') => consOpt d (decLongBody q rest')
      | none => none
    else consOpt c (decLongBody q rest)
termination_by s => s.length
decreasing_by
  · simp
  · simp
  · have := unescape_lt h; simp; omega
  · simp

/-- N-Triples STRING_LITERAL_QUOTE: the whole text is one double-quoted string -/
def decodeNT (t : Str) : Option Str :=
  match t with
  | c :: rest => if c = dq then decShortBody dq rest else none
  | [] => none

/-- Turtle `String` ([17]): any of the four quotings; the whole text is one string token -/
def decodeTurtle (t : Str) : Option Str :=
  match t with
  | a :: b :: c :: rest =>
    if a = dq ∧ b = dq ∧ c = dq then decLongBody dq rest
    else if a = sq ∧ b = sq ∧ c = sq then decLongBody sq rest
    else if a = dq then decShortBody dq (b :: c :: rest)
    else if a = sq then decShortBody sq (b :: c :: rest)
    else none
  | a :: rest =>
    if a = dq then decShortBody dq rest
    else if a = sq then decShortBody sq rest
    else none
  | [] => none

/-! ### Numeric / boolean shorthand tokens -/

inductive NumKind
  | integer | decimal | double | boolean
  deriving DecidableEq, Repr

def isDigit (c : Char) : Bool := '0' ≤ c && c ≤ '9'
def isSign (c : Char) : Bool := c == '+' || c == '-'

def allDigits : Str → Bool
  | [] => true
  | c :: t => isDigit c && allDigits t

/-- `[0-9]+` -/
def digits1 (s : Str) : Bool := !s.isEmpty && allDigits s

def dropSign : Str → Str
  | c :: t => if isSign c then t else c :: t
  | [] => []

/-- INTEGER ::= [+-]? [0-9]+ -/
def lexInteger (t : Str) : Bool := digits1 (dropSign t)

/-- split at the first occurrence of a character satisfying `p` -/
def splitAt1 (p : Char → Bool) : Str → Option (Str × Str)
  | [] => none
  | c :: t =>
    if p c then some ([], t)
    else match splitAt1 p t with
      | some (a, b) => some (c :: a, b)
      | none => none

/-- DECIMAL ::= [+-]? [0-9]* '.' [0-9]+ -/
def lexDecimal (t : Str) : Bool :=
  match splitAt1 (· == '.') (dropSign t) with
  | some (a, b) => allDigits a && digits1 b
  | none => false

/-- EXPONENT ::= [eE] [+-]? [0-9]+   (given the text after the `e`) -/
def lexExpTail (t : Str) : Bool := digits1 (dropSign t)

/-- mantissa: [0-9]+ '.' [0-9]* | '.' [0-9]+ | [0-9]+ -/
def lexMantissa (m : Str) : Bool :=
  match splitAt1 (· == '.') m with
  | some (a, b) => (digits1 a && allDigits b) || (a.isEmpty && digits1 b)
  | none => digits1 m

/-- DOUBLE ::= [+-]? ([0-9]+ '.' [0-9]* EXPONENT | '.' [0-9]+ EXPONENT | [0-9]+ EXPONENT) -/
def lexDouble (t : Str) : Bool :=
  match splitAt1 (fun c => c == 'e' || c == 'E') (dropSign t) with
  | some (m, e) => lexMantissa m && lexExpTail e
  | none => false

def lexBoolean (t : Str) : Bool := t == "true".toList || t == "false".toList

/-- the token grammar a Turtle reader applies to an unquoted literal token -/
def relex (t : Str) : Option NumKind :=
  if lexBoolean t then some .boolean
  else if lexInteger t then some .integer
  else if lexDecimal t then some .decimal
  else if lexDouble t then some .double
  else none

def tokenOk (k : NumKind) (t : Str) : Bool :=
  match k with
  | .integer => lexInteger t
  | .decimal => lexDecimal t
  | .double => lexDouble t
  | .boolean => lexBoolean t

def toLowerAscii (c : Char) : Char :=
  if 'A' ≤ c ∧ c ≤ 'Z' then Char.ofNat (c.toNat + 32) else c

/-- the unquoted text `Literal._literal_n3(use_plain=True)` produces for integer / decimal / boolean
    (doubles go through CPython's float formatting: an external, supplied by the caller) -/
def plainToken (k : NumKind) (lex : Str) : Option Str :=
  match k with
  | .integer => some lex
  | .decimal =>
    if lex.any (fun c => c == '.' || c == 'e' || c == 'E') then some lex else some (lex ++ ".0".toList)
  | .boolean => some (lex.map toLowerAscii)
  | .double => none

/-- `turtle._literal_label`: the first candidate that is a token of the grammar for the datatype and that a
    reader turns back into the same lexical form (`norm` = lexical form of `Literal(candidate, datatype=dt)`,
    an external supplied as data); `none` = fall back to the quoted typed form. -/
def plainChoice (k : NumKind) (lex : Str) : List (Str × Str) → Option Str
  | [] => none
  | (tok, norm) :: rest => if tokenOk k tok && norm == lex then some tok else plainChoice k lex rest

end RV.C03

namespace RV.C03

/-! ### A numeric / boolean literal as Turtle text, and what a reader makes of it -/

/-- the two spellings `turtle.label` can give a literal of a shorthand datatype -/
inductive LitText
  | shorthand (tok : Str)     -- bare token: 1, 1.5, 1e0, true
  | quoted (body : Str)       -- "…"^^xsd:<k>   (body = the string token)
  deriving DecidableEq, Repr

def hasExp (t : Str) : Bool := t.any (fun c => c == 'e' || c == 'E')

/-- the guarded choice of `turtle._literal_label`: a candidate token only if it is in the grammar of the datatype
    and reads back as the same lexical form; else the quoted typed form.  `toks` are the candidate tokens
    (CPython's formatting, an external), `norm k t` = lexical form of `Literal(t, datatype=k)` (external). -/
def guarded (norm : NumKind → Str → Str) (k : NumKind) (lex : Str) (toks : List Str) : LitText :=
  match plainChoice k lex (toks.map (fun t => (t, norm k t))) with
  | some tok => .shorthand tok
  | none => .quoted (quoteEncode lex)

/-- the one unguarded case left in `_literal_label`: a decimal whose `_literal_n3(use_plain=True)` text (the first
    candidate) contains an exponent is written as that bare text (pinned by rdflib's test_issue1043; C03-K5) -/
def pinnedExp (k : NumKind) (toks : List Str) : Option Str :=
  match k, toks with
  | .decimal, t0 :: _ => if hasExp t0 then some t0 else none
  | _, _ => none

/-- `turtle._literal_label` -/
def writeNum (norm : NumKind → Str → Str) (k : NumKind) (lex : Str) (toks : List Str) : LitText :=
  match pinnedExp k toks with
  | some t0 => .shorthand t0
  | none => guarded norm k lex toks

/-- a Turtle reader: a bare token gets the datatype its grammar names, a quoted one the datatype written
    after `^^`; either way the reader builds `Literal(text, datatype)` (normalising) -/
def readNum (norm : NumKind → Str → Str) (k : NumKind) : LitText → Option (Str × NumKind)
  | .shorthand tok => (relex tok).map (fun k' => (norm k' tok, k'))
  | .quoted body => (decodeTurtle body).map (fun lex => (norm k lex, k))

/-- the pre-fix writer: whatever `_literal_n3(use_plain=True)` printed was used unchecked -/
def writeNumUnguarded (tok : Str) : LitText := .shorthand tok

end RV.C03
