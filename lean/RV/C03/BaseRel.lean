import RV.C03.Codec
/-
  C03 — relativising an IRI against `base` by cutting the base off (rdflib/serializer.py:_strippable_base,
  used by Serializer.relativize and RecursiveSerializer.relativize), at the level of PATH SEGMENTS.

  RFC 3986 §5.2.2 for a reference without scheme and authority whose path does not start with "/":
      T.path = remove_dot_segments(merge(Base.path, R.path)),  merge = Base.path up to its last "/" ++ R.path
      (empty R.path: T.path = Base.path unchanged, T.query = R.query)
  The theorem says when that gives back `base ++ rest` — which is why `_strippable_base` demands a base ending in
  "/" without dot segments and a rest without dot segments.  That the rest PARSES as such a reference (no scheme:
  no ":" before the first "/", not starting with "/" or "//") and the split of the base into
  scheme://authority + path are string-level facts that are not modelled here; they are tied by the round-trip
  oracle (generator: IRIs under the base with colon-bearing and other tricky remainders).
-/
namespace RV.C03

/-- a hierarchical IRI without query and fragment: `pre` = scheme://authority, path = "/" seg₁ "/" seg₂ … -/
structure BaseIri where
  pre : Str
  segs : List Str

/-- a relative-path reference: path segments, then the rest ("" or "?…" or "#…") -/
structure RelRef where
  segs : List Str
  tail : Str

def joinSegs : List Str → Str
  | [] => []
  | [s] => s
  | s :: t => s ++ '/' :: joinSegs t

def renderBase (b : BaseIri) : Str := b.pre ++ '/' :: joinSegs b.segs
def renderRel (r : RelRef) : Str := joinSegs r.segs ++ r.tail

def isDotSeg (s : Str) : Bool := s == ['.'] || s == ['.', '.']

/-- RFC 3986 §5.2.4 on segments; `out` is the output buffer, reversed -/
def removeDots : List Str → List Str → List Str
  | out, [] => out.reverse
  | out, [s] =>
    if s == ['.'] then ([] :: out).reverse
    else if s == ['.', '.'] then ([] :: out.tail).reverse
    else (s :: out).reverse
  | out, s :: rest =>
    if s == ['.'] then removeDots out rest
    else if s == ['.', '.'] then removeDots out.tail rest
    else removeDots (s :: out) rest

/-- RFC 3986 §5.2.2 for such a reference -/
def resolveRel (b : BaseIri) (r : RelRef) : Str :=
  if r.segs = [] ∨ r.segs = [[]] then renderBase b ++ r.tail
  else b.pre ++ '/' :: (joinSegs (removeDots [] (b.segs.dropLast ++ r.segs)) ++ r.tail)

/-- the decision of `_strippable_base`, on segments: the base ends in "/" (its last segment is empty) and has no
    dot segment; the rest has none either -/
def strippableSeg (b : BaseIri) (r : RelRef) : Bool :=
  b.segs.getLast? == some [] && !(b.segs.any isDotSeg) && !(r.segs.any isDotSeg)

end RV.C03
