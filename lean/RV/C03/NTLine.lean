import RV.C03.Codec
/-
  C03 — one N-Triples line.
  Writer: `nt._nt_row` / `_quoteLiteral` with `URIRef.n3` (`<iri>`) and `BNode.n3` (`_:label`).
  Reader: the W3C N-Triples line grammar (triple ::= subject predicate object '.'), restricted to escape-free
  IRIREFs and to blank node labels `[A-Za-z0-9_][A-Za-z0-9_-]*` (a sub-language of BLANK_NODE_LABEL).
-/
namespace RV.C03

inductive NTerm
  | iri (s : Str)
  | bnode (label : Str)
  | lit (lex : Str) (dt : Option Str) (lang : Option Str)
  deriving DecidableEq, Repr

/-- `term.n3()` for IRIs and blank nodes, `_quoteLiteral` for literals (a language tag takes the `@` form,
    else a datatype the `^^<…>` form) -/
def ntTerm : NTerm → Str
  | .iri s => '<' :: (s ++ ['>'])
  | .bnode l => '_' :: ':' :: l
  | .lit lex _ (some lang) => ntQuoteEncode lex ++ '@' :: lang
  | .lit lex (some dt) none => ntQuoteEncode lex ++ ('^' :: '^' :: '<' :: (dt ++ ['>']))
  | .lit lex none none => ntQuoteEncode lex

/-- `"%s %s %s .\n" % (s, p, o)` -/
def ntRow (s p o : NTerm) : Str :=
  ntTerm s ++ ' ' :: (ntTerm p ++ ' ' :: (ntTerm o ++ [' ', '.', '\n']))

/-! ### reader -/

/-- IRIREF body characters: `[^#x00-#x20<>"{}|^`\]` -/
def iriChar (c : Char) : Bool :=
  !(c.toNat ≤ 0x20 || c == '<' || c == '>' || c == '"' || c == '{' || c == '}' || c == '|' || c == '^'
    || c == '`' || c == '\\')

/-- after `<`: the IRI up to `>` and the rest -/
def scanIriBody : Str → Option (Str × Str)
  | [] => none
  | c :: r =>
    if c = '>' then some ([], r)
    else if iriChar c then
      match scanIriBody r with
      | some (a, b) => some (c :: a, b)
      | none => none
    else none

def isAlnum (c : Char) : Bool := ('a' ≤ c && c ≤ 'z') || ('A' ≤ c && c ≤ 'Z') || ('0' ≤ c && c ≤ '9')
def labelStart (c : Char) : Bool := isAlnum c || c == '_'
def labelChar (c : Char) : Bool := isAlnum c || c == '_' || c == '-'
def langChar (c : Char) : Bool := isAlnum c || c == '-'

/-- the longest prefix of characters satisfying `p`, and the rest -/
def spanP (p : Char → Bool) : Str → Str × Str
  | [] => ([], [])
  | c :: r => if p c then ((spanP p r).1.cons c, (spanP p r).2) else ([], c :: r)

/-- after the opening quote of STRING_LITERAL_QUOTE: the decoded content and the text after the closing quote -/
def decShortRest (q : Char) : Str → Option (Str × Str)
  | [] => none
  | c :: rest =>
    if c = q then some ([], rest)
    else if c = bs then
      match h : unescape rest with
      | some (d, rest') =>
        match decShortRest q rest' with
        | some (a, b) => some (d :: a, b)
        | none => none
      | none => none
    else if c = lf ∨ c = cr then none
    else match decShortRest q rest with
      | some (a, b) => some (c :: a, b)
      | none => none
termination_by s => s.length
decreasing_by
  · have := unescape_lt h; simp; omega
  · simp

def skipWs : Str → Str
  | c :: r => if c = ' ' ∨ c = '\t' then skipWs r else c :: r
  | [] => []

/-- LANGTAG body: `[a-zA-Z]+ ('-' [a-zA-Z0-9]+)*` (checked on the scanned run) -/
def langOk (l : Str) : Bool :=
  match l with
  | [] => false
  | c :: _ => (('a' ≤ c && c ≤ 'z') || ('A' ≤ c && c ≤ 'Z')) && l.all langChar && l.getLast? != some '-'

/-- subject / object that is not a literal: IRIREF or BLANK_NODE_LABEL -/
def scanNode : Str → Option (NTerm × Str)
  | '<' :: r =>
    match scanIriBody r with
    | some (i, rest) => some (.iri i, rest)
    | none => none
  | '_' :: ':' :: r =>
    match r with
    | c :: _ => if labelStart c then some (.bnode (spanP labelChar r).1, (spanP labelChar r).2) else none
    | [] => none
  | _ => none

def scanObj : Str → Option (NTerm × Str)
  | '"' :: r =>
    match decShortRest dq r with
    | some (lex, rest) =>
      match rest with
      | '^' :: '^' :: '<' :: r2 =>
        match scanIriBody r2 with
        | some (dt, rest2) => some (.lit lex (some dt) none, rest2)
        | none => none
      | '@' :: r2 =>
        if langOk (spanP langChar r2).1 then some (.lit lex none (some (spanP langChar r2).1), (spanP langChar r2).2)
        else none
      | _ => some (.lit lex none none, rest)
    | none => none
  | t => scanNode t

/-- triple ::= subject predicate object '.' with `[ \t]*` around the terms; the line may end in `\n` -/
def parseLine (t : Str) : Option (NTerm × NTerm × NTerm) :=
  match scanNode (skipWs t) with
  | some (s, r1) =>
    match scanNode (skipWs r1) with
    | some (.iri p, r2) =>
      match scanObj (skipWs r2) with
      | some (o, r3) =>
        match skipWs r3 with
        | '.' :: r4 => if skipWs r4 = [] ∨ skipWs r4 = ['\n'] then some (s, .iri p, o) else none
        | _ => none
      | none => none
    | _ => none
  | none => none

end RV.C03
