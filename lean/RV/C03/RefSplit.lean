import RV.C03.BaseRel
/-
  C03 — character level of base relativisation (executable; linked into drv_c03).

  * `splitRef`  : RFC 3986 §3 / appendix B splitter of a reference into scheme, authority, path, query, fragment, with
                  the MOST LIBERAL scheme detection any of the readers uses: the text before the first of `: / ? #` is
                  a scheme whenever that first delimiter is `:` (rdflib's N3 `join` treats even `:y` and `1a:b` as
                  absolute; `urllib.parse.urlsplit`, used by the RDF/XML and JSON-LD readers, is stricter).  A reference
                  that has no scheme under this detection has none under the stricter ones.
  * `strippable`: `rdflib/serializer.py:_strippable_base`, test by test as the code spells it.
  * `strippableTurtle`: `RecursiveSerializer.relativize`'s extra conjuncts (no `#`, no `/` in the rest).
-/
namespace RV.C03

structure Ref where
  scheme : Option Str
  authority : Option Str
  path : Str
  query : Option Str
  fragment : Option Str
  deriving DecidableEq, Repr

/-- text before the first character satisfying `p`, and the text from that character on -/
def breakAt (p : Char → Bool) : Str → Str × Str
  | [] => ([], [])
  | c :: t => if p c then ([], c :: t) else ((breakAt p t).1.cons c, (breakAt p t).2)

def isDelim (c : Char) : Bool := c == ':' || c == '/' || c == '?' || c == '#'

/-- `scheme ":"` if the first of `: / ? #` is a colon -/
def splitScheme (s : Str) : Option Str × Str :=
  match breakAt isDelim s with
  | (pre, ':' :: rest) => (some pre, rest)
  | _ => (none, s)

def splitRef (s : Str) : Ref :=
  let (scheme, r1) := splitScheme s
  let (r2, fragPart) := breakAt (· == '#') r1
  let (r3, queryPart) := breakAt (· == '?') r2
  let fragment := match fragPart with | _ :: f => some f | [] => none
  let query := match queryPart with | _ :: q => some q | [] => none
  match r3 with
  | '/' :: '/' :: r4 =>
    let (auth, path) := breakAt (· == '/') r4
    ⟨scheme, some auth, path, query, fragment⟩
  | _ => ⟨scheme, none, r3, query, fragment⟩

/-- Python `s.split(c)` -/
def splitOn (c : Char) : Str → List Str
  | [] => [[]]
  | x :: t =>
    if x = c then [] :: splitOn c t
    else match splitOn c t with
      | seg :: segs => (x :: seg) :: segs
      | [] => [[x]]

def startsWith : Str → Str → Bool
  | [], _ => true
  | _ :: _, [] => false
  | a :: p, b :: s => a == b && startsWith p s

def isAlpha (c : Char) : Bool := ('a' ≤ c && c ≤ 'z') || ('A' ≤ c && c ≤ 'Z')
def isSchemeChar (c : Char) : Bool := isAlpha c || ('0' ≤ c && c ≤ '9') || c == '+' || c == '.' || c == '-'

/-- `re.compile(r"[A-Za-z][A-Za-z0-9+.-]*:/").match(base)` -/
def hierarchical (base : Str) : Bool :=
  match base with
  | c :: t =>
    isAlpha c &&
      (match breakAt (fun x => !isSchemeChar x) t with
       | (_, ':' :: '/' :: _) => true
       | _ => false)
  | [] => false

/-- `"//" in s` -/
def hasDoubleSlash : Str → Bool
  | '/' :: '/' :: _ => true
  | _ :: t => hasDoubleSlash t
  | [] => false

/-- the path part of the rest as the code takes it: `rest.split("#", 1)[0].split("?", 1)[0]` -/
def restPath (rest : Str) : Str := (breakAt (· == '?') (breakAt (· == '#') rest).1).1

/-- `_strippable_base(base, uri)` -/
def strippable (base uri : Str) : Bool :=
  if !startsWith base uri || base.contains '#' || base.contains '?' then false
  else
    let rest := uri.drop base.length
    if rest.isEmpty then true
    else if (splitOn '/' base).any isDotSeg then false
    else if !hierarchical base || base.getLast? != some '/' || rest.contains ':' || startsWith ['/'] rest then false
    else if hasDoubleSlash (restPath rest) then false
    else !((splitOn '/' (restPath rest)).any isDotSeg)

/-- `RecursiveSerializer.relativize` (turtle, longturtle, n3): additionally no `#` and no `/` in the rest -/
def strippableTurtle (base uri : Str) : Bool :=
  strippable base uri && !(uri.drop base.length).contains '#' && !(uri.drop base.length).contains '/'

/-- the rest as a relative-path reference of the segment-level model: path segments and the `?…#…` tail -/
def relOf (rest : Str) : RelRef :=
  ⟨splitOn '/' (restPath rest), rest.drop (restPath rest).length⟩

end RV.C03
