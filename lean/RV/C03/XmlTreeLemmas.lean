import RV.C03.XmlTree
/-
  C03 — `rdfxml_tree_roundtrip`: reading the element tree the `xml` serializer model produces gives back exactly the
  triples written, for any resolver `res` that undoes the cutting of references against the base.
-/
namespace RV.C03

theorem mem_firstOcc {l : List NTerm} {x : NTerm} : x ∈ firstOcc l ↔ x ∈ l := by
  induction l with
  | nil => simp [firstOcc]
  | cons a t ih =>
    simp only [firstOcc, List.mem_cons, List.mem_filter, ih, Bool.not_eq_true', beq_eq_false_iff_ne, ne_eq]
    constructor
    · rintro (h | ⟨h, _⟩)
      · exact Or.inl h
      · exact Or.inr h
    · intro h
      by_cases e : x = a
      · exact Or.inl e
      · rcases h with h | h
        · exact absurd h e
        · exact Or.inr ⟨h, e⟩

theorem readSubj_subjAttrs (base : Option Str) (res : Str → Str) (hres : ∀ u, res (cutRef base u) = u)
    (s : NTerm) (hs : isNode s = true) : readSubj res (subjAttrs base s) = some s := by
  cases s with
  | iri u => simp [subjAttrs, readSubj, xlookup, hres]
  | bnode l => simp [subjAttrs, readSubj, xlookup]
  | lit a b c => simp [isNode] at hs

theorem readObj_propEl (base : Option Str) (res : Str → Str) (hres : ∀ u, res (cutRef base u) = u)
    (p : Str) (o : NTerm) : readObj res (propEl base p o) = o := by
  cases o with
  | iri u => simp [propEl, readObj, xlookup, hres]
  | bnode l => simp [propEl, readObj, xlookup]
  | lit lex dt lang =>
    cases dt <;> cases lang <;> simp [propEl, readObj, xlookup, optAttr]

theorem propEl_tag (base : Option Str) (p : Str) (o : NTerm) : (propEl base p o).tag = p := by
  cases o <;> rfl

theorem rdfxml_tree_roundtrip' (base : Option Str) (res : Str → Str) (g : List XTriple)
    (hres : ∀ u, res (cutRef base u) = u) (hwf : ∀ t ∈ g, isNode t.1 = true) :
    ∀ t, t ∈ readTree res (xmlTree base g) ↔ t ∈ g := by
  intro t
  simp only [readTree, xmlTree, List.mem_flatMap, List.mem_map, List.mem_filter, mem_firstOcc]
  constructor
  · rintro ⟨el, ⟨s, ⟨⟨t0, ht0, rfl⟩, hnode⟩, rfl⟩, hmem⟩
    simp only [readSubj_subjAttrs base res hres _ hnode, List.mem_map, List.mem_filter, beq_iff_eq] at hmem
    obtain ⟨pe, ⟨t1, ⟨ht1, he⟩, rfl⟩, rfl⟩ := hmem
    rw [propEl_tag, readObj_propEl base res hres, ← he]
    exact ht1
  · intro ht
    refine ⟨_, ⟨t.1, ⟨⟨t, ht, rfl⟩, hwf t ht⟩, rfl⟩, ?_⟩
    simp only [readSubj_subjAttrs base res hres _ (hwf t ht), List.mem_map, List.mem_filter, beq_iff_eq]
    exact ⟨_, ⟨t, ⟨ht, rfl⟩, rfl⟩, by rw [propEl_tag, readObj_propEl base res hres]⟩

/-- with no base nothing is cut: the identity resolves -/
theorem cutRef_none (u : Str) : cutRef none u = u := rfl

end RV.C03
