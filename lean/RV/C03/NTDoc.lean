import RV.C03.NTLine
/-
  C03 — a whole N-Triples document.
  Writer: `NTSerializer.serialize` — one `_nt_row` per triple.
  Reader: `W3CNTriplesParser.parse` — line by line; a blank node label is looked up in the per-document table
  `_bnode_ids` (`bnode_context`): a label met for the first time gets a FRESH node, later occurrences the same node.
  Fresh nodes are modelled by their creation number (= how many labels were in the table).
-/
namespace RV.C03

/-- a term as the reader builds it: blank nodes are the reader's own -/
inductive RTerm
  | iri (s : Str)
  | bnode (n : Nat)
  | lit (lex : Str) (dt : Option Str) (lang : Option Str)
  deriving DecidableEq, Repr

/-- position of the first occurrence -/
def posOf : List Str → Str → Nat
  | [], _ => 0
  | a :: t, x => if a = x then 0 else posOf t x + 1

/-- `W3CNTriplesParser.nodeid`: look the label up, create the node if it is new.  The table is the list of labels in
    order of creation. -/
def readTerm (tbl : List Str) : NTerm → List Str × RTerm
  | .iri s => (tbl, .iri s)
  | .lit a b c => (tbl, .lit a b c)
  | .bnode l => if tbl.contains l then (tbl, .bnode (posOf tbl l)) else (tbl ++ [l], .bnode tbl.length)

abbrev RTriple := RTerm × RTerm × RTerm

/-- `parse`: every line through `parseLine`, the table threaded through; `none` = a line is rejected -/
def readDoc : List Str → List Str → Option (List Str × List RTriple)
  | tbl, [] => some (tbl, [])
  | tbl, line :: rest =>
    match parseLine line with
    | none => none
    | some (s, p, o) =>
      match readDoc (readTerm (readTerm (readTerm tbl s).1 p).1 o).1 rest with
      | some (fin, ts) =>
        some (fin, ((readTerm tbl s).2, (readTerm (readTerm tbl s).1 p).2,
                    (readTerm (readTerm (readTerm tbl s).1 p).1 o).2) :: ts)
      | none => none

/-- the writer: one row per triple -/
def ntDoc (ts : List (NTerm × NTerm × NTerm)) : List Str := ts.map (fun t => ntRow t.1 t.2.1 t.2.2)

/-- renaming of labels -/
def relabel (ρ : Str → Nat) : NTerm → RTerm
  | .iri s => .iri s
  | .lit a b c => .lit a b c
  | .bnode l => .bnode (ρ l)

def relabelTr (ρ : Str → Nat) (t : NTerm × NTerm × NTerm) : RTriple := (relabel ρ t.1, relabel ρ t.2.1, relabel ρ t.2.2)

/-- split a document text into lines (each keeps its `\n`) -/
def splitLines : Str → Str → List Str
  | acc, [] => if acc.isEmpty then [] else [acc.reverse]
  | acc, c :: r => if c = '\n' then (('\n' :: acc).reverse) :: splitLines [] r else splitLines (c :: acc) r

end RV.C03
