import RV.C03.Struct
/-
  C03 — `isValidList`: what acceptance establishes (a proper, unshared, acyclic collection) and termination.
-/
namespace RV.C03

/-- `ProperChain g ser isHead l cells`: following rdf:rest from `l` visits exactly `cells` (pairwise distinct
    blank nodes, none written yet) and ends in rdf:nil; every cell has exactly one rdf:first, exactly one
    rdf:rest and no other property; every cell except the head is referenced exactly once. -/
inductive ProperChain (g : Graph) (ser : List Term) : Bool → Term → List Term → Prop
  | nil (b : Bool) : ProperChain g ser b rdfNil []
  | cons (isHead : Bool) (c m r : Term) (cs : List Term) :
      isBn c = true → c ∉ ser →
      firstsOf (propsOf g c) = [m] → restsOf (propsOf g c) = [r] → othersOf (propsOf g c) = [] →
      (isHead = false → refCount g c = 1) →
      c ∉ cs →
      ProperChain g ser false r cs → ProperChain g ser isHead c (c :: cs)

theorem cellStep_some {g : Graph} {ser seen : List Term} {l r : Term} (h : cellStep g ser seen l = some r) :
    isBn l = true ∧ l ∉ seen ∧ l ∉ ser ∧ (seen.isEmpty = false → refCount g l = 1) ∧
    ∃ m, firstsOf (propsOf g l) = [m] ∧ restsOf (propsOf g l) = [r] ∧ othersOf (propsOf g l) = [] := by
  unfold cellStep at h
  split at h
  · simp at h
  · next h1 =>
    split at h
    · simp at h
    · next h2 =>
      simp only [Bool.or_eq_true, Bool.not_eq_true', List.contains_eq_mem, decide_eq_true_eq, not_or,
        Bool.not_eq_false] at h1
      split at h
      · next m r' hf hr ho =>
        simp at h; subst h
        refine ⟨h1.1.1, h1.1.2, h1.2, ?_, m, hf, hr, ho⟩
        intro hs
        simp only [hs, Bool.not_false, Bool.true_and, bne_iff_ne, ne_eq, Decidable.not_not] at h2
        exact h2
      · simp at h

theorem isValidList_sound (g : Graph) (ser : List Term) :
    ∀ (f : Nat) (seen : List Term) (l : Term), isValidListAux g ser f seen l = some true →
      ∃ cells, ProperChain g ser seen.isEmpty l cells ∧ (∀ c ∈ cells, c ∉ seen) ∧
        (seen.isEmpty = true → cells ≠ []) := by
  intro f
  induction f with
  | zero => intro seen l h; simp [isValidListAux] at h
  | succ f ih =>
    intro seen l h
    simp only [isValidListAux] at h
    split at h
    · next hl =>
      subst hl
      simp at h
      refine ⟨[], ProperChain.nil _, by simp, ?_⟩
      intro hs
      rw [List.isEmpty_iff] at hs
      subst hs
      simp at h
    · next hl =>
      split at h
      · simp at h
      · next r hc =>
        obtain ⟨hb, hns, hnser, href, m, hf, hr, ho⟩ := cellStep_some hc
        obtain ⟨cells, hch, hdis, _⟩ := ih (l :: seen) r h
        refine ⟨l :: cells, ?_, ?_, by simp⟩
        · refine ProperChain.cons _ l m r cells hb hnser hf hr ho ?_ ?_ (by simpa using hch)
          · intro hs; exact href hs
          · intro hmem; exact (hdis l hmem) (by simp)
        · intro c hcm
          rcases List.mem_cons.mp hcm with rfl | hcm
          · exact hns
          · intro hs; exact (hdis c hcm) (List.mem_cons_of_mem _ hs)

/-! ### termination: the visited set bounds the walk -/

theorem nodup_subset_length {α} [DecidableEq α] : ∀ (l m : List α), l.Nodup → l ⊆ m → l.length ≤ m.length := by
  intro l
  induction l with
  | nil => intro m _ _; simp
  | cons a t ih =>
    intro m hnd hsub
    have ha : a ∈ m := hsub (by simp)
    have hnd' := List.nodup_cons.mp hnd
    have hsub' : t ⊆ m.erase a := by
      intro x hx
      have hxm : x ∈ m := hsub (List.mem_cons_of_mem _ hx)
      have hne : x ≠ a := by rintro rfl; exact hnd'.1 hx
      exact (List.mem_erase_of_ne hne).mpr hxm
    have := ih (m.erase a) hnd'.2 hsub'
    rw [List.length_erase_of_mem ha] at this
    have hpos : 0 < m.length := List.length_pos_of_mem ha
    simp only [List.length_cons]
    omega

theorem mem_propsOf {g : Graph} {s p o : Term} : (p, o) ∈ propsOf g s ↔ (s, p, o) ∈ g := by
  induction g with
  | nil => simp [propsOf]
  | cons t r ih =>
    obtain ⟨s', p', o'⟩ := t
    simp only [propsOf]
    split
    · next h => subst h; simp [ih]
    · next h =>
      simp only [ih, List.mem_cons, Prod.mk.injEq]
      constructor
      · intro hm; exact Or.inr hm
      · rintro (⟨rfl, _, _⟩ | hm)
        · exact absurd rfl h
        · exact hm

theorem rest_mem_of_restsOf {ps : List (Term × Term)} {r : Term} (h : restsOf ps = [r]) : (rdfRest, r) ∈ ps := by
  have : r ∈ restsOf ps := by rw [h]; simp
  simp only [restsOf, List.mem_map, List.mem_filter, beq_iff_eq] at this
  obtain ⟨⟨p, o⟩, ⟨hm, hp⟩, ho⟩ := this
  simp at hp ho; subst hp; subst ho; exact hm

/-- every visited cell is a subject of the graph; visited cells are distinct -/
def SeenInv (g : Graph) (seen : List Term) : Prop :=
  seen.Nodup ∧ seen ⊆ g.map (·.1)

theorem seen_bound {g : Graph} {seen : List Term} (h : SeenInv g seen) : seen.length ≤ g.length := by
  have := nodup_subset_length seen (g.map (·.1)) h.1 h.2
  simpa using this

theorem isValidListAux_fuel (g : Graph) (ser : List Term) :
    ∀ (f : Nat) (seen : List Term) (l : Term), SeenInv g seen → g.length + 2 ≤ f + seen.length →
      isValidListAux g ser f seen l ≠ none := by
  intro f
  induction f with
  | zero =>
    intro seen l hinv hf
    have := seen_bound hinv
    omega
  | succ f ih =>
    intro seen l hinv hf
    simp only [isValidListAux]
    split
    · simp
    · split
      · simp
      · next r hc =>
        obtain ⟨_, hns, _, _, m, _, hr, _⟩ := cellStep_some hc
        apply ih
        · refine ⟨List.nodup_cons.mpr ⟨hns, hinv.1⟩, ?_⟩
          intro x hx
          rcases List.mem_cons.mp hx with rfl | hx
          · have := mem_propsOf.mp (rest_mem_of_restsOf hr)
            exact List.mem_map.mpr ⟨_, this, rfl⟩
          · exact hinv.2 hx
        · simp only [List.length_cons]; omega

end RV.C03
