import RV.C03.BaseRel
namespace RV.C03

theorem removeDots_nodot : ∀ (inp out : List Str), inp.any isDotSeg = false →
    removeDots out inp = out.reverse ++ inp := by
  intro inp
  induction inp with
  | nil => intro out _; simp [removeDots]
  | cons s rest ih =>
    intro out h
    simp only [List.any_cons, Bool.or_eq_false_iff] at h
    have hs := h.1
    simp only [isDotSeg, Bool.or_eq_false_iff] at hs
    match rest, ih, h.2 with
    | [], _, _ => simp [removeDots, hs.1, hs.2]
    | r :: rs, ih, h2 =>
      simp only [removeDots, hs.1, hs.2]
      rw [ih (s :: out) h2]
      simp

theorem joinSegs_append : ∀ (init r : List Str), r ≠ [] → joinSegs (init ++ [[]]) ++ joinSegs r = joinSegs (init ++ r) := by
  intro init
  induction init with
  | nil => intro r _; simp [joinSegs]
  | cons s t ih =>
    intro r hr
    have h1 : t ++ [[]] ≠ [] := by simp
    have h2 : t ++ r ≠ [] := by simp [hr]
    have e1 : joinSegs (s :: (t ++ [[]])) = s ++ '/' :: joinSegs (t ++ [[]]) := by
      match h : t ++ [[]], h1 with
      | x :: xs, _ => rfl
    have e2 : joinSegs (s :: (t ++ r)) = s ++ '/' :: joinSegs (t ++ r) := by
      match h : t ++ r, h2 with
      | x :: xs, _ => rfl
    simp only [List.cons_append]
    rw [e1, e2, List.append_assoc, List.cons_append, ih r hr]

theorem any_dropLast {l : List Str} (h : l.any isDotSeg = false) : l.dropLast.any isDotSeg = false := by
  rw [Bool.eq_false_iff] at h ⊢
  intro hd
  apply h
  obtain ⟨x, hx, hp⟩ := List.any_eq_true.mp hd
  exact List.any_eq_true.mpr ⟨x, List.dropLast_subset l hx, hp⟩

theorem dropLast_getLast : ∀ (l : List Str) (a : Str), l.getLast? = some a → l = l.dropLast ++ [a] := by
  intro l
  induction l with
  | nil => intro a h; simp at h
  | cons x t ih =>
    intro a h
    match t, ih with
    | [], _ => simp at h; simp [h]
    | y :: t', ih =>
      have h' : (y :: t').getLast? = some a := by simpa [List.getLast?_cons_cons] using h
      have := ih a h'
      simp only [List.dropLast_cons₂, List.cons_append]
      rw [← this]

theorem strip_resolves' (b : BaseIri) (r : RelRef) (h : strippableSeg b r = true) :
    resolveRel b r = renderBase b ++ renderRel r := by
  simp only [strippableSeg, Bool.and_eq_true, Bool.not_eq_true', beq_iff_eq] at h
  obtain ⟨⟨hlast, hb⟩, hr⟩ := h
  unfold resolveRel renderRel
  by_cases he : r.segs = [] ∨ r.segs = [[]]
  · rw [if_pos he]
    rcases he with he | he <;> simp [he, joinSegs]
  · rw [if_neg he]
    have hne : r.segs ≠ [] := fun e => he (Or.inl e)
    have hsplit : b.segs = b.segs.dropLast ++ [[]] := dropLast_getLast _ _ hlast
    have hnd : (b.segs.dropLast ++ r.segs).any isDotSeg = false := by
      simp [List.any_append, any_dropLast hb, hr]
    rw [removeDots_nodot _ [] hnd]
    simp only [List.reverse_nil, List.nil_append]
    unfold renderBase
    conv => rhs; rw [hsplit]
    rw [← joinSegs_append _ _ hne]
    simp [List.append_assoc]

end RV.C03
