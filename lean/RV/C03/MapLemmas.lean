import RV.C03.NTLine
import RV.C03.CodecLemmas
/-
  C03 — writers given by a per-character map.

  `mapOK req m` is a DECIDABLE condition on a regenerated table `m` (character ↦ written text): every character of
  `req` (the characters the grammar does not allow raw) has an entry, and every entry is a backslash escape —
  ECHAR or UCHAR — that the W3C grammar decodes back to its character.  It is re-checked by `decide` against the
  table regenerated from rdflib's behaviour on every run.  Under it, the mapped text between quotes is one string
  token that decodes to the original text — whatever the implementation does to compute the map, and also if it
  escapes more characters than it has to (TAB as `\t`, a control character as `\u0001`, …).
-/
namespace RV.C03

def escGood (w : Str) (c : Char) : Bool :=
  match w with
  | b :: r => b == bs && unescape r == some (c, [])
  | [] => false

def mapOK (req : List Char) (m : List (Char × Str)) : Bool :=
  req.all (fun c => (lookupEsc m c).isSome) && m.all (fun kw => escGood kw.2 kw.1)

theorem lookupEsc_mem {m : List (Char × Str)} {c : Char} {w : Str} (h : lookupEsc m c = some w) : (c, w) ∈ m := by
  induction m with
  | nil => simp [lookupEsc] at h
  | cons kw rest ih =>
    obtain ⟨k, v⟩ := kw
    simp only [lookupEsc] at h
    split at h
    · next hk => simp at h; subst hk; subst h; simp
    · exact List.mem_cons_of_mem _ (ih h)

/-- what `mapOK` gives for one character -/
theorem map_char {req : List Char} {m : List (Char × Str)} (h : mapOK req m = true) (x : Char) :
    (∃ r, escOf m x = bs :: r ∧ unescape r = some (x, [])) ∨ (escOf m x = [x] ∧ x ∉ req) := by
  simp only [mapOK, Bool.and_eq_true] at h
  obtain ⟨hreq, hall⟩ := h
  unfold escOf
  cases hl : lookupEsc m x with
  | some w =>
    left
    have hg := List.all_eq_true.mp hall (x, w) (lookupEsc_mem hl)
    simp only [escGood] at hg
    split at hg
    · next b r =>
      simp only [Bool.and_eq_true, beq_iff_eq] at hg
      exact ⟨r, by rw [hg.1], hg.2⟩
    · simp at hg
  | none =>
    right
    refine ⟨rfl, ?_⟩
    intro hm
    have := List.all_eq_true.mp hreq x hm
    rw [hl] at this
    simp at this

theorem unescape_append {r E : Str} {c : Char} (h : unescape r = some (c, [])) : unescape (r ++ E) = some (c, E) := by
  match r, h with
  | e :: r0, h =>
    simp only [unescape] at h
    simp only [List.cons_append, unescape]
    cases he : echar e with
    | some d =>
      rw [he] at h
      simp at h
      obtain ⟨rfl, rfl⟩ := h
      simp
    | none =>
      rw [he] at h
      simp only at h ⊢
      by_cases hu : e = 'u'
      · simp only [hu, if_true] at h ⊢
        split at h
        · next h1 h2 h3 h4 r' =>
          split at h
          · next d hd =>
            simp at h
            obtain ⟨rfl, rfl⟩ := h
            simp [hd]
          · simp at h
        · simp at h
      · simp only [hu, if_false] at h ⊢
        by_cases hU : e = 'U'
        · simp only [hU, if_true] at h ⊢
          split at h
          · next h1 h2 h3 h4 h5 h6 h7 h8 r' =>
            split at h
            · next d hd =>
              simp at h
              obtain ⟨rfl, rfl⟩ := h
              simp [hd]
            · simp at h
          · simp at h
        · simp [hU] at h

/-! ### one escape / one plain character through the three readers -/

theorem decShort_esc (q c : Char) (r E : Str) (h : unescape r = some (c, [])) (hq : bs ≠ q) :
    decShortBody q (bs :: (r ++ E)) = consOpt c (decShortBody q E) := by
  rw [decShortBody]
  simp only [hq, if_false, if_true]
  split
  · next d' r' h' =>
    rw [unescape_append h] at h'
    simp at h'; obtain ⟨rfl, rfl⟩ := h'; rfl
  · next h' => rw [unescape_append h] at h'; simp at h'

theorem decShortRest_esc (q c : Char) (r E : Str) (h : unescape r = some (c, [])) (hq : bs ≠ q) :
    decShortRest q (bs :: (r ++ E)) =
      (match decShortRest q E with | some (a, b) => some (c :: a, b) | none => none) := by
  conv => lhs; rw [decShortRest.eq_def]
  simp only [hq, if_false, if_true]
  split
  · next d' r' h' =>
    rw [unescape_append h] at h'
    simp at h'; obtain ⟨rfl, rfl⟩ := h'; rfl
  · next h' => rw [unescape_append h] at h'; simp at h'

theorem decShortRest_plain (q c : Char) (E : Str) (h1 : c ≠ q) (h2 : c ≠ bs) (h3 : c ≠ lf) (h4 : c ≠ cr) :
    decShortRest q (c :: E) = (match decShortRest q E with | some (a, b) => some (c :: a, b) | none => none) := by
  conv => lhs; rw [decShortRest.eq_def]
  simp only [h1, h2, h3, h4, if_false, false_or]
  rfl

theorem decShortRest_close (q : Char) (E : Str) : decShortRest q (q :: E) = some ([], E) := by
  rw [decShortRest.eq_def]; simp

/-! ### short forms (N-Triples, Turtle `"…"`) -/

theorem mem_req {req : List Char} {x : Char} (h : x ∉ req) (c : Char) (hc : c ∈ req) : x ≠ c := by
  intro e; subst e; exact h hc

/-- whole-token reader (`decodeNT`, `decodeTurtle`); `excl` = characters the text is known not to contain -/
theorem map_body_roundtrip {req : List Char} {m : List (Char × Str)} (h : mapOK req m = true)
    (hdq : dq ∈ req) (hbs : bs ∈ req) (hcr : cr ∈ req) :
    ∀ s : Str, (lf ∈ req ∨ lf ∉ s) → decShortBody dq (s.flatMap (escOf m) ++ [dq]) = some s := by
  intro s
  induction s with
  | nil => intro _; simp [decShort_close]
  | cons x t ih =>
    intro hlf
    have iht := ih (hlf.imp id (fun hn hm => hn (List.mem_cons_of_mem _ hm)))
    rw [List.flatMap_cons, List.append_assoc]
    rcases map_char h x with ⟨r, he, hun⟩ | ⟨he, hx⟩
    · rw [he, List.cons_append, decShort_esc dq x r _ hun (by decide), iht]; rfl
    · have hxlf : x ≠ lf := by
        rcases hlf with hlf | hlf
        · exact mem_req hx lf hlf
        · intro e; exact hlf (by simp [e])
      rw [he]
      simp only [List.cons_append, List.nil_append]
      rw [decShort_plain dq x _ (mem_req hx dq hdq) (mem_req hx bs hbs) hxlf (mem_req hx cr hcr), iht]; rfl

theorem map_rest_roundtrip {req : List Char} {m : List (Char × Str)} (h : mapOK req m = true)
    (hdq : dq ∈ req) (hbs : bs ∈ req) (hlf : lf ∈ req) (hcr : cr ∈ req) (rest : Str) :
    ∀ s : Str, decShortRest dq (s.flatMap (escOf m) ++ dq :: rest) = some (s, rest) := by
  intro s
  induction s with
  | nil => simp [decShortRest_close]
  | cons x t ih =>
    rw [List.flatMap_cons, List.append_assoc]
    rcases map_char h x with ⟨r, he, hun⟩ | ⟨he, hx⟩
    · rw [he, List.cons_append, decShortRest_esc dq x r _ hun (by decide), ih]
    · rw [he]
      simp only [List.cons_append, List.nil_append]
      rw [decShortRest_plain dq x _ (mem_req hx dq hdq) (mem_req hx bs hbs) (mem_req hx lf hlf)
        (mem_req hx cr hcr), ih]

/-- the written text of a character other than the quote never starts with a quote -/
theorem map_head_ne_dq {req : List Char} {m : List (Char × Str)} (h : mapOK req m = true) (hdq : dq ∈ req)
    (x : Char) : ∃ y r, escOf m x = y :: r ∧ y ≠ dq := by
  rcases map_char h x with ⟨r, he, _⟩ | ⟨he, hx⟩
  · exact ⟨bs, r, he, by decide⟩
  · exact ⟨x, [], he, mem_req hx dq hdq⟩

/-! ### the tables of the current implementation -/

theorem ntMap_ok : mapOK [dq, bs, lf, cr] Tables.ntMap = true := by decide
theorem shortMap_ok : mapOK [dq, bs, cr] Tables.shortMap = true := by decide
theorem longMap_ok : mapOK [bs] Tables.longMap = true := by decide

theorem nt_lit_roundtrip' (s : Str) : decodeNT (ntQuoteEncode s) = some s := by
  unfold ntQuoteEncode decodeNT
  simp only [List.cons_append, if_true]
  exact map_body_roundtrip ntMap_ok (by decide) (by decide) (by decide) s (Or.inl (by decide))

theorem decodeTurtle_short (B : Str) (h : ¬ ∃ r, B = dq :: dq :: r) :
    decodeTurtle (dq :: B) = decShortBody dq B := by
  match B with
  | [] => simp [decodeTurtle]
  | [b] => simp [decodeTurtle]
  | b :: c :: r =>
    have this' : ¬ (b = dq ∧ c = dq) := by
      rintro ⟨rfl, rfl⟩; exact h ⟨r, rfl⟩
    simp [decodeTurtle, this', show ¬ (dq = sq) from by decide]

theorem turtle_short_roundtrip (s : Str) (hlf : lf ∉ s) : decodeTurtle (quoteEncode s) = some s := by
  unfold quoteEncode
  simp only [hlf, if_false]
  rw [List.cons_append, decodeTurtle_short]
  · exact map_body_roundtrip shortMap_ok (by decide) (by decide) (by decide) s (Or.inr hlf)
  · rintro ⟨r, hr⟩
    match s with
    | [] => simp at hr
    | x :: t =>
      obtain ⟨y, r', hy, hne⟩ := map_head_ne_dq shortMap_ok (by decide) x
      rw [List.flatMap_cons, hy] at hr
      simp at hr
      exact hne hr.1

end RV.C03
