import RV.C03.ChoiceLemmas
/-
  C03 — the top-level statements the writer model writes are exactly the subjects it did not hide
  (`choice_tops`): the statement list of `choice` and the statement list of `layout g (hiddenIds …)` have the same
  subjects, each once.  Pure bookkeeping on `_serialized`: everything that enters it during a statement is the
  statement's subject or a node hidden during that statement, and nothing hidden was done before the statement began.
-/
namespace RV.C03

structure Post (T : List Term) (σ σ' : WS) : Prop where
  grow : Grow σ σ'
  ser : ∀ x ∈ σ'.1, x ∈ σ.1 ∨ x ∈ σ'.2
  hid : ∀ x ∈ σ'.2, x ∈ σ.2 ∨ (x ∈ σ'.1 ∧ x ∉ T)

theorem Post.refl (T : List Term) (σ : WS) : Post T σ σ :=
  ⟨Grow.refl σ, fun _ h => Or.inl h, fun _ h => Or.inl h⟩

theorem Post.trans {T : List Term} {a b c : WS} (h1 : Post T a b) (h2 : Post T b c) : Post T a c := by
  refine ⟨h1.grow.trans h2.grow, ?_, ?_⟩
  · intro x hx
    rcases h2.ser x hx with h | h
    · rcases h1.ser x h with h' | h'
      · exact Or.inl h'
      · exact Or.inr (h2.grow.2 h')
    · exact Or.inr h
  · intro x hx
    rcases h2.hid x hx with h | h
    · rcases h1.hid x h with h' | h'
      · exact Or.inl h'
      · exact Or.inr ⟨h2.grow.1 h'.1, h'.2⟩
    · exact Or.inr h

def PathPost (T : List Term) (path : WS → Term → WS) : Prop :=
  ∀ (σ : WS) (x : Term), T ⊆ σ.1 → Post T σ (path σ x)

theorem props_fold_post {T : List Term} {path : WS → Term → WS} (hp : PathPost T path) :
    ∀ (ps : List (Term × Term)) (σ : WS), T ⊆ σ.1 → Post T σ (ps.foldl (fun σ po => path σ po.2) σ) := by
  intro ps
  induction ps with
  | nil => intro σ _; exact Post.refl T σ
  | cons po ps ih =>
    intro σ hT
    simp only [List.foldl_cons]
    have h1 := hp σ po.2 hT
    exact h1.trans (ih _ (fun _ hx => h1.grow.1 (hT hx)))

theorem wCell_post {g : Graph} {T : List Term} {path : WS → Term → WS} (hp : PathPost T path) (σ : WS) (c : Term)
    (hT : T ⊆ σ.1) (hc : c ∉ T) : Post T σ (wCell g path σ c) := by
  unfold wCell
  split
  · next m _ _ =>
    have h2 := hp (σ.1, σ.2 ++ [c]) m hT
    have hcin : c ∈ (path (σ.1, σ.2 ++ [c]) m).2 := h2.grow.2 (by simp)
    refine ⟨⟨fun _ hx => List.mem_cons_of_mem _ (h2.grow.1 hx), fun _ hx => h2.grow.2 (List.mem_append_left _ hx)⟩, ?_, ?_⟩
    · intro x hx
      rcases List.mem_cons.mp hx with rfl | hx
      · exact Or.inr hcin
      · exact h2.ser x hx
    · intro x hx
      rcases h2.hid x hx with h | h
      · rcases List.mem_append.mp h with h | h
        · exact Or.inl h
        · simp only [List.mem_singleton] at h; subst h
          exact Or.inr ⟨List.mem_cons_self, hc⟩
      · exact Or.inr ⟨List.mem_cons_of_mem _ h.1, h.2⟩
  · exact Post.refl T σ

theorem cells_fold_post {g : Graph} {T : List Term} {path : WS → Term → WS} (hp : PathPost T path) :
    ∀ (cells : List Term) (σ : WS), T ⊆ σ.1 → (∀ c ∈ cells, c ∉ T) →
      Post T σ (cells.foldl (fun σ c => wCell g path σ c) σ) := by
  intro cells
  induction cells with
  | nil => intro σ _ _; exact Post.refl T σ
  | cons c cs ih =>
    intro σ hT hc
    simp only [List.foldl_cons]
    have h1 := wCell_post (g := g) hp σ c hT (hc c (by simp))
    exact h1.trans (ih _ (fun _ hx => h1.grow.1 (hT hx)) (fun c' hc' => hc c' (List.mem_cons_of_mem _ hc')))

theorem properChain_not_ser {g : Graph} {ser : List Term} {b : Bool} {l : Term} {cells : List Term}
    (h : ProperChain g ser b l cells) : ∀ c ∈ cells, c ∉ ser := by
  induction h with
  | nil _ => intro c hc; simp at hc
  | cons _ c m r cs _ hns _ _ _ _ _ _ ih =>
    intro c' hc'
    rcases List.mem_cons.mp hc' with rfl | hc'
    · exact hns
    · exact ih c' hc'

theorem wPath_post (g : Graph) (T : List Term) : ∀ f : Nat, PathPost T (wPath g f) := by
  intro f
  induction f with
  | zero => intro σ x _; exact Post.refl T σ
  | succ f ih =>
    intro σ x hT
    simp only [wPath]
    split
    · next hin =>
      obtain ⟨_, hns, _⟩ := inlinable_spec hin
      split
      · next hvl =>
        obtain ⟨cells, hch, _, _⟩ := isValidList_sound g σ.1 _ [] x hvl
        have hch' : ProperChain g σ.1 true x cells := by simpa using hch
        rw [listCells_valid hch']
        exact cells_fold_post ih cells σ hT (fun c hc hcT => properChain_not_ser hch' c hc (hT hcT))
      · have h0 : Post T σ (x :: σ.1, σ.2 ++ [x]) := by
          refine ⟨⟨fun _ hx => List.mem_cons_of_mem _ hx, fun _ hx => List.mem_append_left _ hx⟩, ?_, ?_⟩
          · intro y hy
            rcases List.mem_cons.mp hy with rfl | hy
            · exact Or.inr (by simp)
            · exact Or.inl hy
          · intro y hy
            rcases List.mem_append.mp hy with hy | hy
            · exact Or.inl hy
            · simp only [List.mem_singleton] at hy; subst hy
              exact Or.inr ⟨List.mem_cons_self, fun hc => hns (hT hc)⟩
        exact h0.trans (props_fold_post ih (propsOf g x) _ (fun _ hx => List.mem_cons_of_mem _ (hT hx)))
    · exact Post.refl T σ

/-! ### the loop of `serialize` -/

def topsOf (st : TS) : List Term := st.2.map (·.1)

structure OInv (g : Graph) (done : List Term) (st : TS) : Prop where
  hid_ser : st.1.2 ⊆ st.1.1
  tops_ser : topsOf st ⊆ st.1.1
  ser_split : ∀ x ∈ st.1.1, x ∈ topsOf st ∨ x ∈ st.1.2
  disjoint : ∀ x ∈ topsOf st, x ∉ st.1.2
  tops_done : topsOf st ⊆ done
  done_ser : done ⊆ st.1.1
  nodup : (topsOf st).Nodup
  flags : ∀ e ∈ st.2, e.2 = topAnon g e.1

theorem wStatement_oinv {g : Graph} (F : Nat) {done : List Term} {st : TS} (s : Term) (h : OInv g done st) :
    OInv g (done ++ [s]) (wStatement g F st s) := by
  simp only [wStatement]
  split
  · next hc =>
    have hs : s ∈ st.1.1 := by simpa using hc
    refine ⟨h.hid_ser, h.tops_ser, h.ser_split, h.disjoint, fun _ hx => List.mem_append_left _ (h.tops_done hx), ?_,
      h.nodup, h.flags⟩
    intro x hx
    rcases List.mem_append.mp hx with hx | hx
    · exact h.done_ser hx
    · simp only [List.mem_singleton] at hx; subst hx; exact hs
  · next hc =>
    have hs : s ∉ st.1.1 := by simpa using hc
    have hp := props_fold_post (wPath_post g (s :: st.1.1) F) (propsOf g s) (s :: st.1.1, st.1.2) (fun _ hx => hx)
    generalize (propsOf g s).foldl (fun σ po => wPath g F σ po.2) (s :: st.1.1, st.1.2) = σ' at hp
    have htops : topsOf (σ', st.2 ++ [(s, topAnon g s)]) = topsOf st ++ [s] := by simp [topsOf]
    refine ⟨?_, ?_, ?_, ?_, ?_, ?_, ?_, ?_⟩
    · intro x hx
      rcases hp.hid x hx with h1 | h1
      · exact hp.grow.1 (List.mem_cons_of_mem _ (h.hid_ser h1))
      · exact h1.1
    · rw [htops]
      intro x hx
      rcases List.mem_append.mp hx with hx | hx
      · exact hp.grow.1 (List.mem_cons_of_mem _ (h.tops_ser hx))
      · simp only [List.mem_singleton] at hx; subst hx; exact hp.grow.1 List.mem_cons_self
    · rw [htops]
      intro x hx
      rcases hp.ser x hx with h1 | h1
      · rcases List.mem_cons.mp h1 with rfl | h1
        · exact Or.inl (by simp)
        · rcases h.ser_split x h1 with h2 | h2
          · exact Or.inl (List.mem_append_left _ h2)
          · exact Or.inr (hp.grow.2 h2)
      · exact Or.inr h1
    · rw [htops]
      intro x hx hxh
      rcases hp.hid x hxh with h1 | h1
      · rcases List.mem_append.mp hx with hx | hx
        · exact h.disjoint x hx h1
        · simp only [List.mem_singleton] at hx; subst hx; exact hs (h.hid_ser h1)
      · apply h1.2
        rcases List.mem_append.mp hx with hx | hx
        · exact List.mem_cons_of_mem _ (h.tops_ser hx)
        · simp only [List.mem_singleton] at hx; subst hx; exact List.mem_cons_self
    · rw [htops]
      intro x hx
      rcases List.mem_append.mp hx with hx | hx
      · exact List.mem_append_left _ (h.tops_done hx)
      · exact List.mem_append_right _ hx
    · intro x hx
      rcases List.mem_append.mp hx with hx | hx
      · exact hp.grow.1 (List.mem_cons_of_mem _ (h.done_ser hx))
      · simp only [List.mem_singleton] at hx; subst hx; exact hp.grow.1 List.mem_cons_self
    · rw [htops]
      refine List.nodup_append.mpr ⟨h.nodup, by simp, ?_⟩
      intro a ha b hb e
      simp only [List.mem_singleton] at hb; subst hb; subst e
      exact hs (h.tops_ser ha)
    · intro e he
      rcases List.mem_append.mp he with he | he
      · exact h.flags e he
      · simp only [List.mem_singleton] at he; subst he; rfl

theorem choiceOn_oinv (g : Graph) (order : List Term) : OInv g order (choiceOn g order) := by
  unfold choiceOn
  have gen : ∀ (l done : List Term) (st : TS), OInv g done st →
      OInv g (done ++ l) (l.foldl (wStatement g (choiceFuel g)) st) := by
    intro l
    induction l with
    | nil => intro done st h; simpa using h
    | cons s l ih =>
      intro done st h
      have := ih (done ++ [s]) _ (wStatement_oinv (choiceFuel g) s h)
      simpa using this
  have h0 : OInv g [] (([], []), []) :=
    ⟨by simp, by simp [topsOf], by simp, by simp [topsOf], by simp [topsOf], by simp, by simp [topsOf], by simp⟩
  simpa using gen order [] _ h0

/-- a top-level statement is written for `s` iff the loop visits `s` and `s` was not hidden -/
theorem mem_tops_choiceOn (g : Graph) (order : List Term) (s : Term) :
    s ∈ topsOf (choiceOn g order) ↔ s ∈ order ∧ s ∉ (choiceOn g order).1.2 := by
  have h := choiceOn_oinv g order
  constructor
  · intro hs; exact ⟨h.tops_done hs, h.disjoint s hs⟩
  · rintro ⟨ho, hn⟩
    rcases h.ser_split s (h.done_ser ho) with h1 | h1
    · exact h1
    · exact absurd h1 hn

theorem inl_hidden {g : Graph} {T : List Term} {σ : WS} (ho : ∀ t ∈ g, origOnly t.1 ∧ origOnly t.2.2)
    (h : CInv g T σ) {s : Term} (hs : origOnly s) : inl (σ.2.map origId) s = true ↔ s ∈ σ.2 := by
  constructor
  · intro hi
    obtain ⟨n, rfl, hn⟩ := inl_eq hi
    obtain ⟨x, hx, e⟩ := List.mem_map.mp hn
    obtain ⟨hb, _, s', p', hm⟩ := h.loc x hx
    have := bn_orig_eq hb (ho _ hm).2
    rw [e] at this
    rw [← this]; exact hx
  · intro hm
    obtain ⟨hb, _, _⟩ := h.loc s hm
    have e := bn_orig_eq hb hs
    rw [e]
    simp only [inl, List.contains_eq_mem, decide_eq_true_eq]
    exact List.mem_map.mpr ⟨s, hm, rfl⟩

end RV.C03
