import RV.C03.Struct
/-
  C03 — the Turtle / longturtle / N3 writer's CHOICE of what is written without a label
  (rdflib/plugins/serializers/turtle.py, same code in longturtle.py; n3.py inherits it).

  * `orderSubjects`  : `RecursiveSerializer.orderSubjects` — members of rdfs:Class first (sorted), then the other
                       subjects sorted by the tuple (is blank node, `_references`, subject)
  * `inlinable`      : the test at the head of `p_squared` (object position)
  * `wPath`          : `path(node, OBJECT)` = `p_squared` or a label; the state threaded through the recursion is
                       `_serialized` plus the list of nodes that were written WITHOUT a label (oldest first).
                       `[ … ]` branch: `subjectDone`, then `predicateList` → `objectList` → `path` on every object.
                       `( … )` branch (`isValidList`): `doList` — `path(item)` THEN `subjectDone(cell)`, cell by cell.
  * `wStatement`     : one turn of the loop in `serialize`: skip if `isDone`, `statement` = `subjectDone`, then
                       `s_squared` (`[] …` for an unreferenced blank node) or `s_default`, then `predicateList`
  * `choice`         : the whole loop over `orderSubjects()`

  Not modelled here: the order of predicates / objects inside one statement (`sortProperties`: rdf:type and
  rdfs:label first, the rest and the objects sorted by rdflib's term order).  It is the order of the input list
  `g`; every theorem about `choice` holds for EVERY order of `g`.  rdflib's order on terms is the parameter `ord`.
-/
namespace RV.C03

def rdfType : Term := .iri 3
def rdfsClass : Term := .iri 4

/-! ### orderSubjects -/

def insertBy {α} (lt : α → α → Bool) (a : α) : List α → List α
  | [] => [a]
  | b :: t => if lt b a then b :: insertBy lt a t else a :: b :: t

/-- `sorted(…)` / `list.sort()` -/
def isort {α} (lt : α → α → Bool) : List α → List α
  | [] => []
  | a :: t => insertBy lt a (isort lt t)

/-- rdflib orders terms of different kinds by `_ORDERING` (BNode 10 < URIRef 30 < Literal 40) -/
def kindRank : Term → Nat
  | .bn _ => 0
  | .iri _ => 1
  | .lit _ => 2

/-- same kind: by the string.  Strings are not in this model: `ord` gives the position of IRI `n` in string order
    (supplied by the harness); blank nodes are numbered in label order. -/
def termKey (ord : List Nat) : Term → Nat
  | .iri n => ord.getD n n
  | .bn (.orig n) => n
  | .bn (.fresh _) => 0
  | .lit n => n

def termLt (ord : List Nat) (a b : Term) : Bool :=
  decide (kindRank a < kindRank b) || (kindRank a == kindRank b && decide (termKey ord a < termKey ord b))

/-- `(isinstance(subject, BNode), self._references[subject], subject)` compared as Python tuples -/
def recLt (g : Graph) (ord : List Nat) (a b : Term) : Bool :=
  (!isBn a && isBn b) ||
  (isBn a == isBn b &&
    (decide (refCount g a < refCount g b) || (refCount g a == refCount g b && termLt ord a b)))

/-- the keys of `_subjects` -/
def subjectsOf (g : Graph) : List Term := sdedup (g.map (·.1))

/-- `self.store.subjects(RDF.type, RDFS.Class)` -/
def classMembers (g : Graph) : List Term :=
  sdedup ((g.filter (fun t => t.2.1 == rdfType && t.2.2 == rdfsClass)).map (·.1))

def orderSubjects (g : Graph) (ord : List Nat) : List Term :=
  isort (termLt ord) (classMembers g) ++
    isort (recLt g ord) ((subjectsOf g).filter (fun s => !(classMembers g).contains s))

/-! ### the recursive writer: what goes unlabelled -/

/-- (`_serialized`, nodes written without a label in object position — oldest first) -/
abbrev WS := List Term × List Term

/-- head of `p_squared` with `position == OBJECT`: a blank node, not yet serialized, referenced at most once -/
def inlinable (g : Graph) (ser : List Term) (x : Term) : Bool :=
  isBn x && !ser.contains x && decide (refCount g x ≤ 1)

/-- one turn of `doList`'s loop on cell `c`: `item = value(c, rdf:first)`; if there is one, `path(item, OBJECT)` and
    then `subjectDone(c)`.  The cell itself is written without a label (it is a position in `( … )`). -/
def wCell (g : Graph) (path : WS → Term → WS) (σ : WS) (c : Term) : WS :=
  match firstsOf (propsOf g c) with
  | m :: _ => (c :: (path (σ.1, σ.2 ++ [c]) m).1, (path (σ.1, σ.2 ++ [c]) m).2)
  | [] => σ

/-- `path(x, OBJECT)`.  Fuel bounds the nesting depth of the Python recursion (`none`-free: at fuel 0 the node is
    treated as labelled; the driver reports when that happens, see `wDeep`). -/
def wPath (g : Graph) : Nat → WS → Term → WS
  | 0, σ, _ => σ
  | f + 1, σ, x =>
    if inlinable g σ.1 x then
      if isValidList g σ.1 x = some true then
        (listCells g (g.length + 1) x).foldl (fun σ c => wCell g (wPath g f) σ c) σ
      else
        (propsOf g x).foldl (fun σ po => wPath g f σ po.2) (x :: σ.1, σ.2 ++ [x])
    else σ

/-- `s_squared`'s test: an unreferenced blank node is written `[] p o .` -/
def topAnon (g : Graph) (s : Term) : Bool := isBn s && refCount g s == 0

/-- state of the loop in `serialize`: the writer state and the top-level statements written so far
    (subject, written as `[]`?) -/
abbrev TS := WS × List (Term × Bool)

def wStatement (g : Graph) (F : Nat) (st : TS) (s : Term) : TS :=
  if st.1.1.contains s then st
  else ((propsOf g s).foldl (fun σ po => wPath g F σ po.2) (s :: st.1.1, st.1.2), st.2 ++ [(s, topAnon g s)])

/-- nesting can never be deeper than the number of triples (every level is a distinct object of `g`) -/
def choiceFuel (g : Graph) : Nat := g.length + 1

def choiceOn (g : Graph) (order : List Term) : TS :=
  order.foldl (wStatement g (choiceFuel g)) (([], []), [])

/-- what `serialize` does on `g` -/
def choice (g : Graph) (ord : List Nat) : TS := choiceOn g (orderSubjects g ord)

/-- the blank nodes written without a label in object position, as node numbers -/
def hiddenIds (st : TS) : List Nat := st.1.2.map origId

/-- The document rdflib writes, in the `layout` family: the nodes `choice` hid are the inlined ones. -/
def rdflibLayout (g : Graph) (ord : List Nat) : Doc :=
  layout g (hiddenIds (choice g ord)) ((choice g ord).1.2.length + 1)

/-- was the fuel enough?  (same traversal with one unit more gives the same answer) -/
def wDeep (g : Graph) (ord : List Nat) : Bool :=
  (choiceOn g (orderSubjects g ord)).1.2 !=
    ((orderSubjects g ord).foldl (wStatement g (choiceFuel g + 1)) (([], []), [])).1.2

end RV.C03
