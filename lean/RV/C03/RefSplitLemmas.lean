import RV.C03.RefSplit
import RV.C03.BaseRelLemmas
/-
  C03 — what acceptance by `_strippable_base` means at the character level: the rest is a scheme-less,
  authority-less reference with a relative path without dot segments, so (strip_resolves) it resolves to base ++ rest.
-/
namespace RV.C03

theorem breakAt_append (p : Char → Bool) : ∀ s : Str, (breakAt p s).1 ++ (breakAt p s).2 = s := by
  intro s
  induction s with
  | nil => rfl
  | cons c t ih =>
    simp only [breakAt]
    split
    · rfl
    · simp only [List.cons_append]; rw [ih]

theorem breakAt_snd (p : Char → Bool) : ∀ s : Str, (breakAt p s).2 = [] ∨ ∃ d r, (breakAt p s).2 = d :: r ∧ p d = true := by
  intro s
  induction s with
  | nil => left; rfl
  | cons c t ih =>
    simp only [breakAt]
    split
    · next h => right; exact ⟨c, t, rfl, h⟩
    · exact ih

theorem breakAt_snd_mem (p : Char → Bool) (s : Str) (d : Char) (r : Str) (h : (breakAt p s).2 = d :: r) : d ∈ s := by
  have := breakAt_append p s
  rw [h] at this
  rw [← this]; simp

theorem breakAt_head (p : Char → Bool) (s : Str) (c : Char) (r : Str) (h : (breakAt p s).1 = c :: r) :
    ∃ t, s = c :: t := by
  match s with
  | [] => simp [breakAt] at h
  | x :: t =>
    simp only [breakAt] at h
    split at h
    · simp at h
    · simp at h; exact ⟨t, by rw [h.1]⟩

theorem drop_prefix (a b : Str) : (a ++ b).drop a.length = b := by
  induction a with
  | nil => rfl
  | cons x t ih => simpa using ih

theorem joinSegs_cons_ne (s : Str) (t : List Str) (h : t ≠ []) : joinSegs (s :: t) = s ++ '/' :: joinSegs t := by
  match t, h with
  | x :: xs, _ => rfl

theorem splitOn_ne_nil (c : Char) (s : Str) : splitOn c s ≠ [] := by
  match s with
  | [] => simp [splitOn]
  | x :: t =>
    simp only [splitOn]
    split
    · simp
    · split <;> simp

theorem joinSegs_splitOn : ∀ p : Str, joinSegs (splitOn '/' p) = p := by
  intro p
  induction p with
  | nil => rfl
  | cons x t ih =>
    simp only [splitOn]
    split
    · next h => subst h; rw [joinSegs_cons_ne _ _ (splitOn_ne_nil _ _), ih]; rfl
    · split
      · next seg segs hs =>
        rw [hs] at ih
        match segs with
        | [] => simp only [joinSegs] at ih ⊢; rw [ih]
        | y :: ys =>
          rw [joinSegs_cons_ne _ _ (by simp)] at ih ⊢
          simp only [List.cons_append]; rw [ih]
      · next hs => exact absurd hs (splitOn_ne_nil _ _)

theorem contains_false_not_mem {s : Str} {c : Char} (h : s.contains c = false) : c ∉ s := by
  intro hm
  have : s.contains c = true := by simpa using hm
  rw [h] at this; exact absurd this (by simp)

/-- the facts the code's tests establish, unpacked -/
theorem strippable_unpack {base uri : Str} (h : strippable base uri = true) (hne : uri.drop base.length ≠ []) :
    startsWith base uri = true ∧ ((splitOn '/' base).any isDotSeg = false) ∧ hierarchical base = true ∧
    base.getLast? = some '/' ∧ ':' ∉ uri.drop base.length ∧ startsWith ['/'] (uri.drop base.length) = false ∧
    hasDoubleSlash (restPath (uri.drop base.length)) = false ∧
    (splitOn '/' (restPath (uri.drop base.length))).any isDotSeg = false := by
  have hemp : (uri.drop base.length).isEmpty = false := by
    cases he : (uri.drop base.length) with
    | nil => exact absurd he hne
    | cons _ _ => rfl
  simp [strippable, hemp] at h
  obtain ⟨⟨⟨h1, _⟩, _⟩, h2, ⟨⟨⟨h3, h4⟩, h5⟩, h6⟩, h7, h8⟩ := h
  refine ⟨h1, ?_, h3, h4, h5, h6, h7, ?_⟩
  · rw [Bool.eq_false_iff]; intro ha
    obtain ⟨x, hx, hp⟩ := List.any_eq_true.mp ha
    rw [h2 x hx] at hp; exact absurd hp (by simp)
  · rw [Bool.eq_false_iff]; intro ha
    obtain ⟨x, hx, hp⟩ := List.any_eq_true.mp ha
    rw [h8 x hx] at hp; exact absurd hp (by simp)

theorem startsWith_slash_false {s : Str} (h : startsWith ['/'] s = false) : ∀ t, s ≠ '/' :: t := by
  intro t e; subst e; simp [startsWith] at h

/-- T1 — the rest accepted by `_strippable_base` is, as every reader splits it, a reference with no scheme and no
    authority whose path is relative (no leading "/") and has no dot segments; and it is its path followed by its
    `?…#…` tail. -/
theorem strippable_rest_shape' {base uri : Str} (h : strippable base uri = true)
    (hne : uri.drop base.length ≠ []) :
    let rest := uri.drop base.length
    (splitRef rest).scheme = none ∧ (splitRef rest).authority = none ∧ (splitRef rest).path = restPath rest ∧
    startsWith ['/'] (restPath rest) = false ∧ (splitOn '/' (restPath rest)).any isDotSeg = false ∧
    renderRel (relOf rest) = rest := by
  intro rest
  obtain ⟨_, _, _, _, hcolon, hslash, _, hdots⟩ := strippable_unpack h hne
  -- no scheme: the first delimiter, if any, is not a colon
  have hsch : splitScheme rest = (none, rest) := by
    unfold splitScheme
    rcases breakAt_snd isDelim rest with he | ⟨d, r, he, _⟩
    · cases hb : breakAt isDelim rest with
      | mk a b => rw [hb] at he; simp only at he; subst he; rfl
    · cases hb : breakAt isDelim rest with
      | mk a b =>
        rw [hb] at he; simp only at he; subst he
        have hd : d ≠ ':' := by
          intro e; subst e
          exact hcolon (breakAt_snd_mem isDelim rest ':' r (by rw [hb]))
        split
        · next heq => simp at heq; exact absurd heq.2.1 hd
        · rfl
  -- the path does not begin with "/" because the rest does not
  have hpath0 : ∀ t, restPath rest ≠ '/' :: t := by
    intro t e
    unfold restPath at e
    obtain ⟨t1, e1⟩ := breakAt_head _ _ _ _ e
    obtain ⟨t2, e2⟩ := breakAt_head _ _ _ _ e1
    exact startsWith_slash_false hslash t2 e2
  have hps : startsWith ['/'] (restPath rest) = false := by
    cases hp : restPath rest with
    | nil => rfl
    | cons c t =>
      have hc : c ≠ '/' := by intro e; exact hpath0 t (by rw [hp, e])
      simp [startsWith, hc]
      exact fun e => hc e.symm
  have hsplit : splitRef rest = ⟨none, none, restPath rest,
      (match (breakAt (· == '?') (breakAt (· == '#') rest).1).2 with | _ :: q => some q | [] => none),
      (match (breakAt (· == '#') rest).2 with | _ :: f => some f | [] => none)⟩ := by
    unfold splitRef
    rw [hsch]
    simp only
    have : ∀ r4, (breakAt (· == '?') (breakAt (· == '#') rest).1).1 ≠ '/' :: '/' :: r4 := by
      intro r4 e; exact hpath0 _ (by unfold restPath; exact e)
    split
    · next r4 heq => exact absurd heq (this r4)
    · rfl
  refine ⟨by rw [hsplit], by rw [hsplit], by rw [hsplit], hps, hdots, ?_⟩
  unfold renderRel relOf
  simp only [joinSegs_splitOn]
  have e1 := breakAt_append (· == '#') rest
  have e2 := breakAt_append (· == '?') (breakAt (· == '#') rest).1
  have hdec : rest = restPath rest ++ ((breakAt (· == '?') (breakAt (· == '#') rest).1).2 ++ (breakAt (· == '#') rest).2) := by
    unfold restPath
    rw [← List.append_assoc, e2, e1]
  have hdrop : rest.drop (restPath rest).length =
      (breakAt (· == '?') (breakAt (· == '#') rest).1).2 ++ (breakAt (· == '#') rest).2 := by
    conv => lhs; arg 2; rw [hdec]
    exact drop_prefix _ _
  rw [hdrop]
  exact hdec.symm

/-! ### from the string `base` to the segment-level base of `strip_resolves` -/

theorem splitOn_append_sep (c : Char) : ∀ a b : Str, splitOn c (a ++ c :: b) = splitOn c a ++ splitOn c b := by
  intro a
  induction a with
  | nil => intro b; simp [splitOn]
  | cons x t ih =>
    intro b
    simp only [List.cons_append, splitOn]
    split
    · rw [ih]; rfl
    · rw [ih]
      cases hs : splitOn c t with
      | nil => exact absurd hs (splitOn_ne_nil _ _)
      | cons seg segs => rfl

theorem splitOn_nosep (c : Char) : ∀ s : Str, c ∉ s → splitOn c s = [s] := by
  intro s
  induction s with
  | nil => intro _; rfl
  | cons x t ih =>
    intro h
    simp only [List.mem_cons, not_or] at h
    simp only [splitOn, if_neg (Ne.symm h.1), ih h.2]

theorem splitOn_joinSegs : ∀ segs : List Str, segs ≠ [] → (∀ seg ∈ segs, '/' ∉ seg) →
    splitOn '/' (joinSegs segs) = segs := by
  intro segs
  induction segs with
  | nil => intro h; exact absurd rfl h
  | cons s t ih =>
    intro _ hall
    match t, ih with
    | [], _ => simp only [joinSegs]; exact splitOn_nosep _ _ (hall s (by simp))
    | y :: ys, ih =>
      rw [joinSegs_cons_ne _ _ (by simp), splitOn_append_sep, splitOn_nosep _ _ (hall s (by simp)),
        ih (by simp) (fun seg hm => hall seg (List.mem_cons_of_mem _ hm))]
      rfl

theorem splitOn_last (c : Char) : ∀ s : Str, s.getLast? = some c →
    ∃ init, init ≠ [] ∧ splitOn c s = init ++ [[]] := by
  intro s
  induction s with
  | nil => intro h; simp at h
  | cons x t ih =>
    intro h
    match t, ih with
    | [], _ =>
      simp at h; subst h
      exact ⟨[[]], by simp, by simp [splitOn]⟩
    | y :: t', ih =>
      have h' : (y :: t').getLast? = some c := by simpa [List.getLast?_cons_cons] using h
      obtain ⟨init, hne, hs⟩ := ih h'
      simp only [splitOn] at hs ⊢
      split
      · exact ⟨[] :: init, by simp, by rw [hs]; rfl⟩
      · rw [hs]
        match init, hne with
        | seg :: segs, _ => exact ⟨(x :: seg) :: segs, by simp, rfl⟩

theorem getLast?_append_ne {α} : ∀ (a b : List α), b ≠ [] → (a ++ b).getLast? = b.getLast? := by
  intro a
  induction a with
  | nil => intro b _; rfl
  | cons x t ih =>
    intro b hb
    have : t ++ b ≠ [] := by simp [hb]
    match htb : t ++ b, this with
    | y :: ys, _ =>
      simp only [List.cons_append, htb, List.getLast?_cons_cons]
      rw [← htb, ih b hb]

/-- a segment-level base is well-formed: at least one segment, no "/" inside a segment -/
def WfBase (b : BaseIri) : Prop := b.segs ≠ [] ∧ ∀ seg ∈ b.segs, '/' ∉ seg

theorem base_segs_of_string {b : BaseIri} {base : Str} (hw : WfBase b) (hb : renderBase b = base)
    (hlast : base.getLast? = some '/') (hdots : (splitOn '/' base).any isDotSeg = false) :
    b.segs.getLast? = some [] ∧ b.segs.any isDotSeg = false := by
  have hsplit : splitOn '/' base = splitOn '/' b.pre ++ b.segs := by
    rw [← hb]; unfold renderBase
    rw [splitOn_append_sep, splitOn_joinSegs _ hw.1 hw.2]
  constructor
  · obtain ⟨init, _, hs⟩ := splitOn_last '/' base hlast
    have : (splitOn '/' base).getLast? = some [] := by rw [hs]; simp
    rw [hsplit, getLast?_append_ne _ _ hw.1] at this
    exact this
  · rw [hsplit, List.any_append, Bool.or_eq_false_iff] at hdots
    exact hdots.2

theorem startsWith_eq : ∀ (p s : Str), startsWith p s = true → s = p ++ s.drop p.length := by
  intro p
  induction p with
  | nil => intro s _; rfl
  | cons a t ih =>
    intro s h
    match s, h with
    | b :: s', h =>
      simp only [startsWith, Bool.and_eq_true, beq_iff_eq] at h
      obtain ⟨rfl, h2⟩ := h
      simp only [List.length_cons, List.drop_succ_cons, List.cons_append]
      rw [← ih s' h2]

/-- T2 — whenever `_strippable_base` accepts, the reader's resolution (RFC 3986 §5.2.2) of the rest against the base
    is the IRI: for every segment-level reading `b` of the base string (scheme://authority + "/"-separated
    segments), `resolveRel b (relOf rest) = uri`. -/
theorem strippable_resolves' {base uri : Str} (h : strippable base uri = true) (b : BaseIri) (hw : WfBase b)
    (hb : renderBase b = base) : resolveRel b (relOf (uri.drop base.length)) = uri := by
  by_cases hne : uri.drop base.length = []
  · -- the base itself: the empty reference
    have hsw : startsWith base uri = true := by
      unfold strippable at h
      split at h
      · simp at h
      · next h0 => simp at h0; exact h0.1.1
    have hu := startsWith_eq base uri hsw
    rw [hne] at hu ⊢
    simp only [List.append_nil] at hu
    simp [resolveRel, relOf, restPath, breakAt, splitOn, hb, hu]
  · obtain ⟨hsw, hbd, _, hlast, _, _, _, _⟩ := strippable_unpack h hne
    obtain ⟨_, _, _, _, hdots, hrec⟩ := strippable_rest_shape' h hne
    obtain ⟨hl, hd⟩ := base_segs_of_string hw hb hlast hbd
    have hseg : strippableSeg b (relOf (uri.drop base.length)) = true := by
      simp only [strippableSeg, hl, hd, relOf, hdots, Bool.not_false, Bool.and_true, beq_self_eq_true]
    rw [strip_resolves' b _ hseg, hb, hrec]
    exact (startsWith_eq base uri hsw).symm

end RV.C03
