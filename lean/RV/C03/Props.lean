import RV.C03.Model
namespace RV.C03
theorem placeholder : True := trivial
end RV.C03
