import RV.C03.LongLemmas
import RV.C03.NumLemmas
import RV.C03.ListLemmas
import RV.C03.LayoutLemmas
import RV.C03.PreLemmas
import RV.C03.ChoiceLemmas
import RV.C03.ChoiceTops
import RV.C03.NTDocLemmas
import RV.C03.XmlTreeLemmas
import RV.C03.NTLineLemmas
import RV.C03.BaseRelLemmas
import RV.C03.RefSplitLemmas
/-
  C03 — property theorems: "serialise then parse gives back the same RDF graph".

  Layer 1 (this part): term codecs.  Writers = per-character maps regenerated from rdflib's BEHAVIOUR into
  Tables.lean (plus the long form's two context rules for quotes); readers = the W3C grammars.
-/
namespace RV.C03

/-! ### Statements — string literals -/

/-- N-Triples: for EVERY string (any Unicode scalar values, including quotes, backslashes, newlines,
    carriage returns, control characters) the text `nt._quote_encode` writes is one
    STRING_LITERAL_QUOTE token whose value is the string. -/
def Statement_nt_lit_roundtrip : Prop :=
  ∀ s : Str, decodeNT (ntQuoteEncode s) = some s

/-- Turtle / N3 / TriG / longturtle: for EVERY string the text `Literal._quote_encode` writes (short form,
    or long `"""` form when the string contains a newline) is one Turtle `String` token whose value is the
    string — including strings ending in `"` or `\`, containing `"""`, `\r`, and mixes of these. -/
def Statement_turtle_str_roundtrip : Prop :=
  ∀ s : Str, decodeTurtle (quoteEncode s) = some s

/-- A whole N-Triples line: for every subject (IRI / plain blank-node label), predicate IRI and object (IRI, blank
    node, or literal with ANY lexical form and a well-formed datatype IRI or language tag) the line `_nt_row`
    writes is a `triple` of the W3C N-Triples grammar that reads back as the same three terms. -/
def Statement_nt_line_roundtrip : Prop :=
  ∀ (s : NTerm) (p : Str) (o : NTerm), NodeWf s → IriWf p → ObjWf o →
    parseLine (ntRow s (.iri p) o) = some (s, .iri p, o)

/-- ANY writer given by a per-character map: if the regenerated table passes the decidable `mapOK` (the
    characters the grammar forbids raw — `req`, containing `"`, `\`, CR, and LF unless the text has none — have
    entries, and every entry is a backslash escape, ECHAR or UCHAR, of its own character), the mapped text
    between quotes is one STRING_LITERAL_QUOTE that decodes to the text.  `nt_lit_roundtrip` and the short branch
    of `turtle_str_roundtrip` are the instances for the tables of the current implementation (`ntMap_ok`,
    `shortMap_ok`, re-decided on every run). -/
def Statement_map_writer_roundtrip : Prop :=
  ∀ (req : List Char) (m : List (Char × Str)), mapOK req m = true → dq ∈ req → bs ∈ req → cr ∈ req →
    ∀ s : Str, (lf ∈ req ∨ lf ∉ s) → decShortBody dq (s.flatMap (escOf m) ++ [dq]) = some s

/-- … and the long form: the per-character map (backslash must have an entry) plus the two built-in context
    rules for quotes, closed by `"""`, is one STRING_LITERAL_LONG_QUOTE that decodes to the text. -/
def Statement_long_writer_roundtrip : Prop :=
  ∀ (m : List (Char × Str)), mapOK [bs] m = true →
    ∀ s : Str, decLongBody dq (encLong m s ++ [dq, dq, dq]) = some s

/-- `nt_doc_roundtrip`: a whole N-Triples document.  For every list of triples (subjects: IRIs / plain blank-node
    labels, IRI predicates, any object incl. literals with ANY lexical form) the reader — every line through the W3C
    line grammar, blank-node labels through the per-document table that gives a label met for the first time a FRESH
    node and later occurrences the same node — returns exactly the triples written with every label `l` replaced by
    the reader's node `posOf fin l`; all labels of the document are in the final table `fin`, and the replacement is
    injective on it: the parsed graph equals the written one up to a renaming of blank nodes. -/
def Statement_nt_doc_roundtrip : Prop :=
  ∀ ts : List (NTerm × NTerm × NTerm), (∀ t ∈ ts, TripleWf t) →
    ∃ fin, readDoc [] (ntDoc ts) = some (fin, ts.map (relabelTr (posOf fin))) ∧
      (∀ l ∈ docLabels ts, l ∈ fin) ∧
      (∀ a ∈ fin, ∀ b ∈ fin, posOf fin a = posOf fin b → a = b)

/-! ### Statements — numeric / boolean shorthand -/

/-- A bare token the writer may use re-lexes to the literal's datatype (the four token grammars are disjoint). -/
def Statement_shorthand_relex : Prop :=
  ∀ (k : NumKind) (t : Str), tokenOk k t = true → relex t = some k

/-- Whatever CPython's formatting proposes (`toks`, arbitrary) and however the reader normalises (`norm`,
    arbitrary): the text written for a (normalised) literal of a shorthand datatype reads back as the same
    lexical form and datatype.  FALSE for the code as it is in one shape (see `num_text_roundtrip_witness`):
    a decimal whose plain text carries an exponent. -/
def Statement_num_text_roundtrip : Prop :=
  ∀ (norm : NumKind → Str → Str) (k : NumKind) (lex : Str) (toks : List Str),
    norm k lex = lex → readNum norm k (writeNum norm k lex toks) = some (lex, k)

/-- the same for doubles only — DESIGN's `plain_double_relex` at full strength; holds for the repaired writer -/
def Statement_plain_double_relex : Prop :=
  ∀ (norm : NumKind → Str → Str) (lex : Str) (toks : List Str),
    norm .double lex = lex → readNum norm .double (writeNum norm .double lex toks) = some (lex, .double)

/-- integer: the shorthand is the lexical form itself exactly when it is an INTEGER token; otherwise quoted. -/
def Statement_plain_int_relex : Prop :=
  ∀ (norm : NumKind → Str → Str) (lex : Str), norm .integer lex = lex →
    (lexInteger lex = true →
      writeNum norm .integer lex ((plainToken .integer lex).toList) = .shorthand lex) ∧
    (lexInteger lex = false →
      writeNum norm .integer lex ((plainToken .integer lex).toList) = .quoted (quoteEncode lex))

/-- decimal: a DECIMAL token is written as is; a lexical form outside the grammar (e.g. `1`, to which
    `_literal_n3` appends `.0`) is written in the quoted form unless the appended form reads back identically. -/
def Statement_plain_decimal_relex : Prop :=
  ∀ (norm : NumKind → Str → Str) (lex : Str), norm .decimal lex = lex →
    (lexDecimal lex = true →
      writeNum norm .decimal lex ((plainToken .decimal lex).toList) = .shorthand lex) ∧
    (∀ t, plainToken .decimal lex = some t → hasExp t = false → norm .decimal t ≠ lex →
      writeNum norm .decimal lex [t] = .quoted (quoteEncode lex))

/-- boolean: `true` / `false` are written bare; any other lexical form whose lower-cased text does not
    read back identically is quoted. -/
def Statement_plain_bool_relex : Prop :=
  ∀ (norm : NumKind → Str → Str) (lex : Str), norm .boolean lex = lex →
    (lexBoolean lex = true →
      writeNum norm .boolean lex ((plainToken .boolean lex).toList) = .shorthand lex) ∧
    (∀ t, plainToken .boolean lex = some t → (lexBoolean t = false ∨ norm .boolean t ≠ lex) →
      writeNum norm .boolean lex [t] = .quoted (quoteEncode lex))

/-! ### Proofs -/

theorem nt_lit_roundtrip : Statement_nt_lit_roundtrip := nt_lit_roundtrip'

theorem turtle_str_roundtrip : Statement_turtle_str_roundtrip := by
  intro s
  by_cases h : lf ∈ s
  · exact turtle_long_roundtrip s h
  · exact turtle_short_roundtrip s h

theorem map_writer_roundtrip : Statement_map_writer_roundtrip :=
  fun _ _ h hdq hbs hcr s hlf => map_body_roundtrip h hdq hbs hcr s hlf

theorem long_writer_roundtrip : Statement_long_writer_roundtrip := fun _ h s => long_decode h s

/-- non-vacuity: a table that also escapes TAB as `\t` and U+0001 as `\u0001` passes `mapOK`; one that writes a
    newline as `\\n` (escaping the escape) or forgets the quote does not -/
example : mapOK [dq, bs, lf, cr]
    (('\t', ['\\', 't']) :: (Char.ofNat 1, ['\\', 'u', '0', '0', '0', '1']) :: Tables.ntMap) = true := by decide
example : mapOK [dq, bs, lf, cr] [('\\', ['\\', '\\']), ('\n', ['\\', '\\', 'n']), ('"', ['\\', '"']), ('\r', ['\\', 'r'])]
    = false := by decide
example : mapOK [dq, bs, lf, cr] [('\\', ['\\', '\\']), ('\n', ['\\', 'n']), ('\r', ['\\', 'r'])] = false := by decide

theorem nt_line_roundtrip : Statement_nt_line_roundtrip := fun s p o hs hp ho => nt_line_roundtrip' s p o hs hp ho

theorem nt_doc_roundtrip : Statement_nt_doc_roundtrip := by
  intro ts hwf
  obtain ⟨fin, _, hdoc, hlab⟩ := readDoc_ntDoc ts hwf []
  exact ⟨fin, hdoc, hlab, fun a ha b hb h => posOf_inj fin a b ha hb h⟩

/-- non-vacuity: `_:b <p> _:a . _:a <p> _:b . _:c <p> "x" .` — labels get nodes 0, 1, 2 in order of first occurrence -/
example : readDoc [] (ntDoc [(.bnode ['b'], .iri ['p'], .bnode ['a']), (.bnode ['a'], .iri ['p'], .bnode ['b']),
      (.bnode ['c'], .iri ['p'], .lit ['x'] none none)]) =
    some ([['b'], ['a'], ['c']], [(.bnode 0, .iri ['p'], .bnode 1), (.bnode 1, .iri ['p'], .bnode 0),
      (.bnode 2, .iri ['p'], .lit ['x'] none none)]) := by decide +kernel

theorem shorthand_relex : Statement_shorthand_relex := fun _ _ h => tokenOk_relex h

theorem guarded_roundtrip (norm : NumKind → Str → Str) (k : NumKind) (lex : Str) (toks : List Str)
    (hn : norm k lex = lex) : readNum norm k (guarded norm k lex toks) = some (lex, k) := by
  unfold guarded
  split
  · next tok h =>
    obtain ⟨hok, hmem⟩ := plainChoice_sound h
    simp only [readNum, tokenOk_relex hok, Option.map_some]
    obtain ⟨t, _, ht⟩ := List.mem_map.mp hmem
    simp only [Prod.mk.injEq] at ht
    obtain ⟨rfl, hnorm⟩ := ht
    rw [hnorm]
  · simp only [readNum, turtle_str_roundtrip lex, Option.map_some, hn]

/-- everything except the pinned shape (decidable hypothesis) -/
theorem num_text_roundtrip_partial (norm : NumKind → Str → Str) (k : NumKind) (lex : Str) (toks : List Str)
    (hshape : pinnedExp k toks = none) (hn : norm k lex = lex) :
    readNum norm k (writeNum norm k lex toks) = some (lex, k) := by
  unfold writeNum
  rw [hshape]
  exact guarded_roundtrip norm k lex toks hn

/-- finding C03-K5: `Literal(4e-08, datatype=XSD.decimal)` (lexical form `4e-08`) is written as the bare token
    `4e-08`, which a Turtle reader types as xsd:double -/
theorem num_text_roundtrip_witness : ¬ Statement_num_text_roundtrip := by
  intro h
  have := h (fun _ t => t) .decimal ['4', 'e', '-', '0', '8'] [['4', 'e', '-', '0', '8']] rfl
  revert this
  decide

theorem plain_double_relex : Statement_plain_double_relex :=
  fun norm lex toks h => num_text_roundtrip_partial norm .double lex toks rfl h

theorem plain_int_relex : Statement_plain_int_relex := by
  intro norm lex hn
  constructor
  · intro h
    simp [writeNum, pinnedExp, guarded, plainToken, plainChoice, tokenOk, h, hn]
  · intro h
    simp [writeNum, pinnedExp, guarded, plainToken, plainChoice, tokenOk, h]

theorem lexDecimal_has_dot {t : Str} (h : lexDecimal t = true) : t.any (fun c => c == '.' || c == 'e' || c == 'E') = true := by
  unfold lexDecimal at h
  split at h
  · next a b hs =>
    obtain ⟨c, hc, e⟩ := splitAt1_spec hs
    simp at hc; subst hc
    have hm : '.' ∈ t := by
      have : '.' ∈ dropSign t := by rw [e]; simp
      cases t with
      | nil => simp [dropSign] at this
      | cons x r =>
        simp only [dropSign] at this
        split at this
        · exact List.mem_cons_of_mem _ this
        · exact this
    simp only [List.any_eq_true]
    exact ⟨'.', hm, by decide⟩
  · simp at h

theorem lexDecimal_no_exp {t : Str} (h : lexDecimal t = true) : hasExp t = false := by
  unfold lexDecimal at h
  split at h
  · next a b hs =>
    obtain ⟨c, hc, e⟩ := splitAt1_spec hs
    simp at hc; subst hc
    simp only [Bool.and_eq_true] at h
    have ha := allDigits_mem h.1
    have hb := allDigits_mem (digits1_all h.2)
    have hds : ∀ x ∈ dropSign t, (x == 'e' || x == 'E') = false := by
      intro x hx
      rw [e] at hx
      rcases List.mem_append.mp hx with h1 | h1
      · have := ha x h1
        cases hxe : (x == 'e' || x == 'E') with
        | false => rfl
        | true =>
          simp at hxe
          rcases hxe with rfl | rfl <;> exact absurd this (by decide)
      · rcases List.mem_cons.mp h1 with rfl | h2
        · decide
        · have := hb x h2
          cases hxe : (x == 'e' || x == 'E') with
          | false => rfl
          | true =>
            simp at hxe
            rcases hxe with rfl | rfl <;> exact absurd this (by decide)
    unfold hasExp
    cases t with
    | nil => rfl
    | cons x r =>
      simp only [dropSign] at hds
      by_cases hsg : isSign x = true
      · simp only [hsg, if_true] at hds
        have hx : (x == 'e' || x == 'E') = false := by
          simp only [isSign, Bool.or_eq_true, beq_iff_eq] at hsg
          rcases hsg with rfl | rfl <;> decide
        simp only [List.any_cons, hx, Bool.false_or]
        rw [Bool.eq_false_iff]
        intro hany
        obtain ⟨y, hy, hye⟩ := List.any_eq_true.mp hany
        rw [hds y hy] at hye
        exact absurd hye (by simp)
      · simp only [hsg] at hds
        rw [Bool.eq_false_iff]
        intro hany
        obtain ⟨y, hy, hye⟩ := List.any_eq_true.mp hany
        rw [hds y hy] at hye
        exact absurd hye (by simp)
  · simp at h

theorem plain_decimal_relex : Statement_plain_decimal_relex := by
  intro norm lex hn
  constructor
  · intro h
    have hne := lexDecimal_no_exp h
    simp [writeNum, pinnedExp, guarded, plainToken, lexDecimal_has_dot h, plainChoice, tokenOk, h, hn, hne]
  · intro t _ hexp hne
    simp [writeNum, pinnedExp, guarded, plainChoice, hne, hexp]

theorem plain_bool_relex : Statement_plain_bool_relex := by
  intro norm lex hn
  constructor
  · intro h
    have hl : lex.map toLowerAscii = lex := by
      rcases lexBoolean_cases h with rfl | rfl <;> decide
    simp [writeNum, pinnedExp, guarded, plainToken, hl, plainChoice, tokenOk, h, hn]
  · intro t _ hbad
    rcases hbad with hb | hb
    · simp [writeNum, pinnedExp, guarded, plainChoice, tokenOk, hb]
    · simp [writeNum, pinnedExp, guarded, plainChoice, hb]

/-- Regression witness for finding C03-F1 (the pre-fix writer used `"%e"` output unchecked): with the token
    CPython prints for 1.23456789 and the lexical form a reader builds from it, the literal does not read back. -/
theorem unguarded_double_loses :
    readNum (fun _ t => if t = "1.234568e+00".toList then "1.234568".toList else t) .double
      (writeNumUnguarded "1.234568e+00".toList) ≠ some ("1.23456789".toList, .double) := by
  decide

/-- … and the same inputs through the guarded writer do. -/
example :
    readNum (fun _ t => if t = "1.234568e+00".toList then "1.234568".toList else t) .double
      (writeNum (fun _ t => if t = "1.234568e+00".toList then "1.234568".toList else t) .double
        "1.23456789".toList ["1.234568e+00".toList, "1.23456789e0".toList])
      = some ("1.23456789".toList, .double) := by
  decide +kernel

/-! ### Non-vacuity: the theorems speak about the hard cases -/

example : quoteEncode "x\n\\\"".toList = "\"\"\"x\n\\\\\\\"\"\"\"".toList := by decide
example : quoteEncode "a\"\"\"\"\nb\"".toList = "\"\"\"a\\\"\\\"\\\"\"\nb\\\"\"\"\"".toList := by decide
example : ntQuoteEncode "a\n\"\\\r".toList = "\"a\\n\\\"\\\\\\r\"".toList := by decide
example : relex "1e+00".toList = some .double ∧ relex "1.".toList = none ∧ relex "+1".toList = some .integer
    ∧ relex ".5".toList = some .decimal := by decide

/-! ## Layer 2 — structure: collections -/

/-- What acceptance by `isValidList` establishes (the list part of `Pre`): the head starts a chain of pairwise
    distinct blank nodes, none written yet, each with exactly one rdf:first, exactly one rdf:rest and no other
    property, every cell after the head referenced exactly once, ending in rdf:nil. -/
def Statement_isValidList_proper : Prop :=
  ∀ (g : Graph) (ser : List Term) (h : Term), isValidList g ser h = some true →
    ∃ cells, cells ≠ [] ∧ ProperChain g ser true h cells

/-- `isValidList` terminates on every finite graph, cyclic or malformed rdf:rest chains included:
    fuel `|g| + 2` is never exhausted (the visited set grows by a distinct subject of the graph per step). -/
def Statement_isValidList_terminates : Prop :=
  ∀ (g : Graph) (ser : List Term) (h : Term), isValidList g ser h ≠ none

theorem isValidList_proper : Statement_isValidList_proper := by
  intro g ser h hv
  obtain ⟨cells, hc, _, hne⟩ := isValidList_sound g ser _ [] h hv
  exact ⟨cells, hne rfl, by simpa using hc⟩

theorem isValidList_terminates : Statement_isValidList_terminates := by
  intro g ser h
  exact isValidListAux_fuel g ser _ [] h ⟨List.nodup_nil, by simp⟩ (by simp)

/-- the shared-tail graph of finding C03-F2:  `s p (a b c)`, and `t q` pointing at the second cell -/
def sharedTail : Graph :=
  [(.iri 10, .iri 11, .bn (.orig 1)),
   (.bn (.orig 1), rdfFirst, .lit 1), (.bn (.orig 1), rdfRest, .bn (.orig 2)),
   (.bn (.orig 2), rdfFirst, .lit 2), (.bn (.orig 2), rdfRest, .bn (.orig 3)),
   (.bn (.orig 3), rdfFirst, .lit 3), (.bn (.orig 3), rdfRest, rdfNil),
   (.iri 12, .iri 13, .bn (.orig 2))]

/-- a cell with two rdf:first and no rdf:rest (finding C03-F2c) -/
def twoFirsts : Graph :=
  [(.iri 10, .iri 11, .bn (.orig 1)), (.bn (.orig 1), rdfFirst, .lit 1), (.bn (.orig 1), rdfFirst, .lit 2)]

/-- rdf:rest of the second cell points at itself (finding C03-F2b) -/
def cyclicRest : Graph :=
  [(.iri 10, .iri 11, .bn (.orig 1)),
   (.bn (.orig 1), rdfFirst, .lit 1), (.bn (.orig 1), rdfRest, .bn (.orig 2)),
   (.bn (.orig 2), rdfFirst, .lit 2), (.bn (.orig 2), rdfRest, .bn (.orig 2))]

/-- Regression witnesses for DESIGN §7.2 #19: the pre-fix test accepted the shared tail and the two-firsts
    cell; the repaired one rejects both. -/
theorem old_isValidList_accepts_malformed :
    isValidListOld sharedTail 10 (.bn (.orig 1)) = some true ∧ isValidList sharedTail [] (.bn (.orig 1)) = some false ∧
    isValidListOld twoFirsts 10 (.bn (.orig 1)) = some true ∧ isValidList twoFirsts [] (.bn (.orig 1)) = some false := by
  decide

/-- … and never finished on a cyclic rdf:rest that does not pass through the entry cell: whatever the fuel,
    the walk is still going; the repaired one answers `false`. -/
theorem old_isValidList_diverges_on_cycle :
    (∀ fuel, isValidListOldAux cyclicRest fuel (.bn (.orig 2)) = none) ∧
    isValidList cyclicRest [] (.bn (.orig 1)) = some false := by
  constructor
  · intro fuel
    induction fuel with
    | zero => rfl
    | succ f ih =>
      have : isValidListOldAux cyclicRest (f + 1) (.bn (.orig 2)) = isValidListOldAux cyclicRest f (.bn (.orig 2)) := by
        simp [isValidListOldAux, cyclicRest, propsOf, restsOf, rdfNil, rdfFirst, rdfRest]
      rw [this, ih]
  · decide

/-- non-vacuity: a proper three-element list is accepted -/
example : isValidList (sharedTail.take 7) [] (.bn (.orig 1)) = some true := by decide

/-! ## Layer 2 — structure: nested blank nodes -/

/-- `layout_roundtrip` for the family of serializers parameterised by the set `I` of blank nodes written inline
    as `[ … ]` (list cells included: they may be nested like any other node): whenever `Pre` holds — each node of
    `I` referenced exactly once, no cycle of inlined nodes, nesting bound above every rank — the document denotes
    a graph isomorphic to the one written.  Any inlining policy meeting `Pre` is thereby correct. -/
def Statement_layout_roundtrip : Prop :=
  ∀ (g : Graph) (I : List Nat) (F : Nat) (rank : Nat → Nat), Pre g I F rank → Iso g (denote (layout g I F))

/-- A collection `( o₁ … oₙ )` denotes exactly what `[ rdf:first o₁ ; rdf:rest [ … rdf:nil ] ]` denotes (same
    fresh nodes, same triples): a writer may use it wherever the nested spelling has that shape, i.e. for the
    chains `isValidList` accepts (`isValidList_proper`). -/
def Statement_coll_is_sugar : Prop :=
  ∀ (items : List Obj) (π : List Nat), denObj π (.coll items) = denObj π (desugar items)

theorem layout_roundtrip : Statement_layout_roundtrip := fun _ _ _ _ hp => layout_roundtrip' hp

theorem coll_is_sugar : Statement_coll_is_sugar := coll_is_sugar'

/-- The decidable test the correspondence harness runs on the blank nodes rdflib's Turtle writers actually
    left unlabelled (`pre` probe: blank nodes, each referenced at most once, none inside a cycle of unlabelled
    nodes) establishes `Pre` for those of them that are referenced — so the observed inlining choice of the
    implementation is an instance of `layout_roundtrip`. -/
def Statement_preCheck_pre : Prop :=
  ∀ (g : Graph) (I : List Nat), g.Nodup → (∀ t ∈ g, origOnly t.1 ∧ origOnly t.2.2) → (∀ t ∈ g, ∃ k, t.2.1 = .iri k) →
    preCheck g (I.map bnO) = true → (∀ n ∈ I, parentsOf g (bnO n) ≠ []) →
    ∃ F rank, Pre g I F rank ∧ Iso g (denote (layout g I F))

theorem preCheck_pre : Statement_preCheck_pre := by
  intro g I hnd ho hpi hchk href
  have hp := preCheck_pre' hnd ho hpi hchk href
  exact ⟨_, _, hp, layout_roundtrip' hp⟩

/-- non-vacuity: `<10> <11> [ <12> "5" ; <13> [ <12> "6" ] ]` — two nested inlined nodes satisfy `Pre` -/
def nested : Graph :=
  [(.iri 10, .iri 11, bnO 1), (bnO 1, .iri 12, .lit 5), (bnO 1, .iri 13, bnO 2), (bnO 2, .iri 12, .lit 6)]

example : Pre nested [1, 2] 3 id := by
  refine ⟨by decide, by decide, ?_, ?_, ?_, by decide⟩
  · intro t ht
    simp only [nested, List.mem_cons, List.not_mem_nil, or_false] at ht
    rcases ht with rfl | rfl | rfl | rfl <;> exact ⟨_, rfl⟩
  · intro n hn
    simp only [List.mem_cons, List.not_mem_nil, or_false] at hn
    rcases hn with rfl | rfl
    · refine ⟨.iri 10, .iri 11, by decide, ?_⟩
      intro s' p' h
      simp [nested, bnO] at h
      exact h
    · refine ⟨bnO 1, .iri 13, by decide, ?_⟩
      intro s' p' h
      simp [nested, bnO] at h
      exact h
  · intro n hn m hm p h
    simp only [List.mem_cons, List.not_mem_nil, or_false] at hn hm
    rcases hn with rfl | rfl <;> rcases hm with rfl | rfl <;> simp [nested, bnO] at h <;> simp

example : denote (layout nested [1, 2] 3) =
    [(.iri 10, .iri 11, .bn (.fresh [0, 0])), (.bn (.fresh [0, 0]), .iri 12, .lit 5),
     (.bn (.fresh [0, 0]), .iri 13, .bn (.fresh [1, 0, 0])), (.bn (.fresh [1, 0, 0]), .iri 12, .lit 6)] := by
  decide

/-! ## Layer 2 — structure: what rdflib's recursive writer really chooses -/

/-- `rdflib_choice_pre`: for EVERY graph (a duplicate-free list of triples over IRIs, literals and its own blank
    nodes, IRI predicates) and EVERY order in which the loop of `serialize` visits subjects, the blank nodes that the
    model of rdflib's recursive Turtle / longturtle / N3 writer (`choiceOn`: `statement`, `s_squared`, `path`,
    `p_squared` with its `_serialized` / `_references` tests, `isValidList` + `doList`, the `_serialized` state
    threaded through the recursion) leaves unlabelled in object position satisfy `Pre`: each is referenced exactly
    once and no cycle consists of such nodes only.  Holds for every order of predicates and objects inside a
    statement (the order of the list `g`) and for any nesting fuel. -/
def Statement_rdflib_choice_pre : Prop :=
  ∀ (g : Graph) (order : List Term), g.Nodup → (∀ t ∈ g, origOnly t.1 ∧ origOnly t.2.2) →
    (∀ t ∈ g, ∃ k, t.2.1 = .iri k) →
    ∃ rank, Pre g (hiddenIds (choiceOn g order)) ((choiceOn g order).1.2.length + 1) rank

/-- … hence `layout_roundtrip` applies to what rdflib chooses: the document with exactly those nodes inlined
    (`rdflibLayout`, subjects visited in `orderSubjects` order) denotes a graph isomorphic to the one written. -/
def Statement_rdflib_layout_roundtrip : Prop :=
  ∀ (g : Graph) (ord : List Nat), g.Nodup → (∀ t ∈ g, origOnly t.1 ∧ origOnly t.2.2) →
    (∀ t ∈ g, ∃ k, t.2.1 = .iri k) → Iso g (denote (rdflibLayout g ord))

/-- `orderSubjects` lists every subject of the graph exactly once (whatever the term order `ord`): the loop of
    `serialize` visits each subject, none twice. -/
def Statement_orderSubjects_complete : Prop :=
  ∀ (g : Graph) (ord : List Nat), (orderSubjects g ord).Nodup ∧
    ∀ s, s ∈ orderSubjects g ord ↔ ∃ p o, (s, p, o) ∈ g

theorem rdflib_choice_pre : Statement_rdflib_choice_pre := by
  intro g order hnd ho hpi
  exact ⟨_, pre_of_CInv hnd ho hpi (choiceOn_inv hnd order)⟩

theorem rdflib_layout_roundtrip : Statement_rdflib_layout_roundtrip := by
  intro g ord hnd ho hpi
  exact layout_roundtrip' (pre_of_CInv hnd ho hpi (choiceOn_inv hnd (orderSubjects g ord)))

theorem orderSubjects_complete : Statement_orderSubjects_complete :=
  fun g ord => ⟨nodup_orderSubjects g ord, mem_orderSubjects g ord⟩

/-- `choice_tops`: the top-level statements the writer model writes (`statement` calls that were not skipped by
    `isDone`) have pairwise distinct subjects, and these are exactly the subjects of the graph that were not hidden —
    the very statement subjects of `layout g (hiddenIds …)`; a statement starts with `[]` (`s_squared`) exactly when its
    subject is an unreferenced blank node.  So nothing is written twice and no subject is left out. -/
def Statement_choice_tops : Prop :=
  ∀ (g : Graph) (ord : List Nat), g.Nodup → (∀ t ∈ g, origOnly t.1 ∧ origOnly t.2.2) →
    (topsOf (choice g ord)).Nodup ∧
    (∀ s, s ∈ topsOf (choice g ord) ↔ s ∈ topSubjects g (hiddenIds (choice g ord))) ∧
    (∀ e ∈ (choice g ord).2, e.2 = topAnon g e.1)

theorem choice_tops : Statement_choice_tops := by
  intro g ord hnd ho
  have hO := choiceOn_oinv g (orderSubjects g ord)
  have hC := choiceOn_inv hnd (orderSubjects g ord)
  refine ⟨hO.nodup, ?_, hO.flags⟩
  intro s
  show s ∈ topsOf (choiceOn g (orderSubjects g ord)) ↔ _
  rw [mem_tops_choiceOn, mem_orderSubjects, mem_top]
  constructor
  · rintro ⟨⟨p, o, hm⟩, hn⟩
    refine ⟨⟨p, o, hm⟩, ?_⟩
    cases hi : inl (hiddenIds (choice g ord)) s with
    | false => rfl
    | true => exact absurd ((inl_hidden ho hC (ho _ hm).1).mp hi) hn
  · rintro ⟨⟨p, o, hm⟩, hi⟩
    refine ⟨⟨p, o, hm⟩, ?_⟩
    intro hh
    have := (inl_hidden ho hC (ho _ hm).1).mpr hh
    have hi' : inl (hiddenIds (choice g ord)) s = false := hi
    rw [show hiddenIds (choice g ord) = (choiceOn g (orderSubjects g ord)).1.2.map origId from rfl] at hi'
    rw [this] at hi'
    exact absurd hi' (by simp)

/-- non-vacuity.  `nested` (above): both nested nodes are hidden.  `twoCycle`: `_:1 p _:2 . _:2 p _:1` with no
    other entry point — the writer labels the one it starts with and hides the other (no cycle of hidden nodes).
    `sharedTail`: the chain is malformed for `( … )` (second cell referenced twice): cell 1 is hidden as a bracket,
    the shared cell 2 keeps its label — and so does cell 3, although referenced once: its referrer `_:2` is visited
    after it (subjects with fewer references come first), so it was written at top level already.  The proper list
    `( 1 2 3 )`: all three cells hidden.  An unreferenced blank node is written `[] …`. -/
def twoCycle : Graph := [(bnO 1, .iri 11, bnO 2), (bnO 2, .iri 11, bnO 1)]

example : hiddenIds (choice nested []) = [1, 2] := by decide
example : hiddenIds (choice twoCycle []) = [2] ∧ (choice twoCycle []).2 = [(bnO 1, false)] := by decide
example : hiddenIds (choice sharedTail []) = [1] := by decide
example : hiddenIds (choice (sharedTail.take 7) []) = [1, 2, 3] := by decide
example : (choice [(bnO 1, .iri 11, .lit 1), (bnO 2, .iri 11, bnO 2)] []).2 = [(bnO 1, true), (bnO 2, false)] := by decide
example : wDeep nested [] = false ∧ wDeep sharedTail [] = false := by decide

/-! ## RDF/XML, element level (the `xml` serializer) -/

/-- `rdfxml_tree_roundtrip`: for every list of triples with IRI / blank-node subjects, every base (or none) and every
    resolver `res` that undoes `Serializer.relativize` on that base, the element tree the model of `XMLSerializer`
    builds (one rdf:Description per distinct subject with rdf:about / rdf:nodeID; per (predicate, object) one property
    element with rdf:resource / rdf:nodeID, or xml:lang / rdf:datatype and the lexical form as character data), read by
    the RDF/XML node-element / property-element rules, gives back exactly the triples written — same IRIs, same
    literals (lexical form, datatype, language), same blank-node labels; nothing lost, nothing added. -/
def Statement_rdfxml_tree_roundtrip : Prop :=
  ∀ (base : Option Str) (res : Str → Str) (g : List XTriple),
    (∀ u, res (cutRef base u) = u) → (∀ t ∈ g, isNode t.1 = true) →
    ∀ t, t ∈ readTree res (xmlTree base g) ↔ t ∈ g

theorem rdfxml_tree_roundtrip : Statement_rdfxml_tree_roundtrip :=
  fun base res g hres hwf => rdfxml_tree_roundtrip' base res g hres hwf

/-- RFC 3986 reference resolution against the declared xml:base: a reference with a scheme stands for itself, any
    other is merged with the base (§5.2.2) -/
def resRFC (b : BaseIri) (v : Str) : Str :=
  if (splitRef v).scheme.isSome then v else resolveRel b (relOf v)

/-- … and that resolver satisfies the hypothesis of `rdfxml_tree_roundtrip` on absolute IRIs: for every reading `b` of
    the base string, `resRFC b` undoes the cut on every IRI that has a scheme (with `strippable_rest_shape` and
    `strippable_resolves`).  Without a base nothing is cut and the identity does. -/
def Statement_rdfxml_resolver_rfc : Prop :=
  ∀ (base : Str) (b : BaseIri), WfBase b → renderBase b = base →
    ∀ u, (splitRef u).scheme.isSome = true → resRFC b (cutRef (some base) u) = u

theorem rdfxml_resolver_rfc : Statement_rdfxml_resolver_rfc := by
  intro base b hw hb u hu
  simp only [cutRef]
  split
  · next hs =>
    have hnone : (splitRef (u.drop base.length)).scheme = none := by
      by_cases he : u.drop base.length = []
      · rw [he]; decide
      · exact (strippable_rest_shape' hs he).1
    simp only [resRFC, hnone, Option.isSome_none, Bool.false_eq_true, if_false]
    exact strippable_resolves' hs b hw hb
  · simp [resRFC, hu]

/-- `rdfxml_declared_base`: whatever `base=`, the graph's own base and the `xml_base` option are — whenever the writer
    cuts references against a (non-empty) base `b`, the document declares `xml:base = b`: a reader resolves the cut
    references against the very base they were cut against (findings C03-F41 / F42 were violations of exactly this). -/
def Statement_rdfxml_declared_base : Prop :=
  ∀ (baseArg storeBase xmlBaseOpt : Option Str) (b : Str),
    (xmlBases baseArg storeBase xmlBaseOpt).2 = some b → b ≠ [] → (xmlBases baseArg storeBase xmlBaseOpt).1 = some b

theorem rdfxml_declared_base : Statement_rdfxml_declared_base := by
  intro baseArg storeBase xmlBaseOpt b h hne
  have hemp : b.isEmpty = false := by cases b with
    | nil => exact absurd rfl hne
    | cons _ _ => rfl
  cases xmlBaseOpt with
  | none =>
    simp only [xmlBases] at h ⊢
    rw [h]; simp [hemp]
  | some x =>
    have key : ∀ bb : Option Str, (if some x = bb then bb else none) = some b → some x = some b := by
      intro bb hh
      by_cases e : some x = bb
      · rw [if_pos e] at hh; rw [e]; exact hh
      · rw [if_neg e] at hh; exact absurd hh (by simp)
    cases baseArg with
    | some a => simp only [xmlBases] at h ⊢; exact key _ h
    | none => simp only [xmlBases] at h ⊢; exact key _ h

/-- regression witness for C03-F42: the pre-fix head declared the option's xml:base and cut against the other base -/
theorem old_xml_base_mismatch :
    xmlBasesOld (some "http://ex/a/".toList) none (some "http://ex/q".toList) =
      (some "http://ex/q".toList, some "http://ex/a/".toList) ∧
    xmlBases (some "http://ex/a/".toList) none (some "http://ex/q".toList) = (some "http://ex/q".toList, none) := by
  decide

/-- non-vacuity: two subjects, a language literal, a typed literal, a blank node object, a reference cut against the base -/
example : xmlTree (some "http://ex/d/".toList)
    [(.iri "http://ex/d/s".toList, "http://ex/p".toList, .lit "v".toList none (some "en".toList)),
     (.bnode "b".toList, "http://ex/p".toList, .iri "http://ex/d/s".toList),
     (.iri "http://ex/d/s".toList, "http://ex/q".toList, .bnode "b".toList)] =
    [⟨[(.about, "s".toList)], [⟨"http://ex/p".toList, [(.lang, "en".toList)], "v".toList⟩,
                               ⟨"http://ex/q".toList, [(.nodeID, "b".toList)], []⟩]⟩,
     ⟨[(.nodeID, "b".toList)], [⟨"http://ex/p".toList, [(.resource, "s".toList)], []⟩]⟩] := by decide +kernel

/-! ## Layer 3 — HexTuples rows -/

/-- a term as it can occur as an object in an rdflib graph: a literal has a datatype or a language, not both;
    a datatype is not one of the two marker words; a language tag is not empty -/
def HextOk : HTerm → Prop
  | .lit _ (some dt) lang => lang = none ∧ dt ≠ globalId ∧ dt ≠ localId
  | .lit _ none (some l) => l ≠ []
  | _ => True

/-- the row written for an object term reads back as the same term, up to the RDF 1.1 identification of
    simple literals with xsd:string (the only change the property allows for HexTuples) -/
def Statement_hext_row_roundtrip : Prop :=
  ∀ t : HTerm, HextOk t → norm11 (hextParseObj (hextObj t)) = norm11 t

theorem hext_row_roundtrip : Statement_hext_row_roundtrip := by
  intro t ht
  match t, ht with
  | .iri i, _ => simp [hextObj, hextParseObj, norm11]
  | .bnode b, _ =>
    have : localId ≠ globalId := by decide
    simp [hextObj, hextParseObj, norm11, this, stripBn]
  | .lit lex (some dt) lang, ⟨h1, h2, h3⟩ =>
    subst h1
    simp [hextObj, hextParseObj, norm11, h2, h3]
  | .lit lex none (some l), h =>
    have h1 : rdfLangString ≠ globalId := by decide
    have h2 : rdfLangString ≠ localId := by decide
    simp only [HextOk] at h
    simp [hextObj, hextParseObj, norm11, h1, h2, h]
  | .lit lex none none, _ =>
    have h1 : xsdString ≠ globalId := by decide
    have h2 : xsdString ≠ localId := by decide
    simp [hextObj, hextParseObj, norm11, h1, h2]

/-! ## Base relativisation (`_strippable_base`), on path segments -/

/-- Where the decision of `_strippable_base` holds (base ending in "/", no dot segment in the base path nor in the
    rest) the rest, resolved against the base by RFC 3986 §5.2.2, is the IRI again: `base ++ rest`.
    (That the rest parses as a scheme-less, authority-less relative-path reference is not modelled: oracle only.) -/
def Statement_strip_resolves : Prop :=
  ∀ (b : BaseIri) (r : RelRef), strippableSeg b r = true → resolveRel b r = renderBase b ++ renderRel r

theorem strip_resolves : Statement_strip_resolves := strip_resolves'

/-- Both dot-segment conditions are needed (the second one was missing before fix "…below a base with dot
    segments"): `x` against `http://ex/a/./` resolves to `http://ex/a/x`, and `../x` against `http://ex/a/` to
    `http://ex/x` — neither is base ++ rest. -/
theorem strip_needs_nodot :
    resolveRel ⟨"http://ex".toList, ["a".toList, ".".toList, []]⟩ ⟨["x".toList], []⟩
      ≠ renderBase ⟨"http://ex".toList, ["a".toList, ".".toList, []]⟩ ++ renderRel ⟨["x".toList], []⟩ ∧
    resolveRel ⟨"http://ex".toList, ["a".toList, []]⟩ ⟨["..".toList, "x".toList], []⟩
      ≠ renderBase ⟨"http://ex".toList, ["a".toList, []]⟩ ++ renderRel ⟨["..".toList, "x".toList], []⟩ := by
  decide

/-! ## Base relativisation, character level (`_strippable_base` as the code spells it) -/

/-- Whenever the writer's predicate accepts a non-empty rest, every reader splits that rest (RFC 3986 §3, with the
    most liberal scheme detection: the text before the first of `: / ? #` if that delimiter is `:`) into NO scheme,
    NO authority and a RELATIVE path (no leading "/") without dot segments; and the rest is that path followed by
    its `?…#…` tail. -/
def Statement_strippable_rest_shape : Prop :=
  ∀ (base uri : Str), strippable base uri = true → uri.drop base.length ≠ [] →
    (splitRef (uri.drop base.length)).scheme = none ∧ (splitRef (uri.drop base.length)).authority = none ∧
    (splitRef (uri.drop base.length)).path = restPath (uri.drop base.length) ∧
    startsWith ['/'] (restPath (uri.drop base.length)) = false ∧
    (splitOn '/' (restPath (uri.drop base.length))).any isDotSeg = false ∧
    renderRel (relOf (uri.drop base.length)) = uri.drop base.length

/-- … hence (with `strip_resolves`) the reader's resolution of the rest against the base is the IRI itself, for
    every reading of the base string as scheme://authority + "/"-separated segments. -/
def Statement_strippable_resolves : Prop :=
  ∀ (base uri : Str), strippable base uri = true → ∀ b : BaseIri, WfBase b → renderBase b = base →
    resolveRel b (relOf (uri.drop base.length)) = uri

theorem strippable_rest_shape : Statement_strippable_rest_shape := fun _ _ h hne => strippable_rest_shape' h hne

theorem strippable_resolves : Statement_strippable_resolves := fun _ _ h b hw hb => strippable_resolves' h b hw hb

/-- Each test of the predicate on the rest is necessary: a colon in the first segment makes a scheme (`a:b`, and for
    rdflib's N3 reader even `:y`), a leading "//" an authority, a leading "/" an absolute path — and the predicate
    rejects all of them (seeded change C03-2 had weakened the colon test).  The colon test is coarser than RFC 3986
    needs (`q?x=a:b` has no scheme) — deliberately: rdflib's N3 `join` looks for a colon anywhere before a slash. -/
theorem strippable_needs :
    (splitRef "a:b".toList).scheme = some "a".toList ∧ (splitRef ":y".toList).scheme = some [] ∧
    (splitRef "isbn:0451450523".toList).scheme = some "isbn".toList ∧
    (splitRef "//h/x".toList).authority = some "h".toList ∧ (splitRef "//h/x".toList).path = "/x".toList ∧
    (splitRef "/x".toList).authority = none ∧ (splitRef "/x".toList).path = "/x".toList ∧
    (splitRef "q?x=a:b".toList).scheme = none ∧
    strippable "http://ex/d/".toList "http://ex/d/a:b".toList = false ∧
    strippable "http://ex/d/".toList "http://ex/d/:y".toList = false ∧
    strippable "http://ex/d/".toList "http://ex/d/isbn:0451450523".toList = false ∧
    strippable "http://ex/d/".toList "http://ex/d///h/x".toList = false ∧
    strippable "http://ex/d/".toList "http://ex/d//x".toList = false ∧
    strippable "http://ex/d/".toList "http://ex/d/q?x=a:b".toList = false ∧
    strippable "http://ex/d/".toList "http://ex/d/q?x=1#f".toList = true ∧
    strippable "http://ex/d/".toList "http://ex/d/".toList = true ∧
    strippable "http://ex/d".toList "http://ex/dX".toList = false := by
  decide

/-- non-vacuity of `strippable_resolves`: a concrete base reading and an accepted IRI -/
example : WfBase ⟨"http://ex".toList, ["d".toList, []]⟩ ∧ renderBase ⟨"http://ex".toList, ["d".toList, []]⟩ = "http://ex/d/".toList
    ∧ resolveRel ⟨"http://ex".toList, ["d".toList, []]⟩ (relOf ("http://ex/d/q/r?x=1#f".toList.drop 12)) = "http://ex/d/q/r?x=1#f".toList := by
  refine ⟨⟨by decide, by decide⟩, by decide, by decide⟩

end RV.C03
