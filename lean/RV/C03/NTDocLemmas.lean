import RV.C03.NTDoc
import RV.C03.NTLineLemmas
/-
  C03 — `nt_doc_roundtrip`: reading the document the N-Triples writer produces gives the triples written, with
  every blank node label replaced by the reader's node for it; the replacement is injective on the labels of the
  document (the position of the label's first occurrence in the reader's table).
-/
namespace RV.C03

theorem posOf_append_mem {l : List Str} {x : Str} (m : List Str) (h : x ∈ l) : posOf (l ++ m) x = posOf l x := by
  induction l with
  | nil => simp at h
  | cons a t ih =>
    simp only [List.cons_append, posOf]
    split
    · rfl
    · next hne =>
      rcases List.mem_cons.mp h with rfl | h'
      · exact absurd rfl hne
      · rw [ih h']

theorem posOf_append_self {l : List Str} {x : Str} (h : x ∉ l) : posOf (l ++ [x]) x = l.length := by
  induction l with
  | nil => simp [posOf]
  | cons a t ih =>
    simp only [List.mem_cons, not_or] at h
    simp only [List.cons_append, posOf]
    rw [if_neg (fun e => h.1 e.symm), ih h.2]
    simp

theorem posOf_prefix {l fin : List Str} {x : Str} (hp : l <+: fin) (h : x ∈ l) : posOf fin x = posOf l x := by
  obtain ⟨ext, rfl⟩ := hp
  exact posOf_append_mem ext h

theorem posOf_inj : ∀ (l : List Str) (a b : Str), a ∈ l → b ∈ l → posOf l a = posOf l b → a = b := by
  intro l
  induction l with
  | nil => intro a b h; simp at h
  | cons x t ih =>
    intro a b ha hb he
    simp only [posOf] at he
    by_cases h1 : x = a
    · by_cases h2 : x = b
      · exact h1.symm.trans h2
      · rw [if_pos h1, if_neg h2] at he; omega
    · by_cases h2 : x = b
      · rw [if_neg h1, if_pos h2] at he; omega
      · rw [if_neg h1, if_neg h2] at he
        have ha' : a ∈ t := by rcases List.mem_cons.mp ha with e | e; exact absurd e.symm h1; exact e
        have hb' : b ∈ t := by rcases List.mem_cons.mp hb with e | e; exact absurd e.symm h2; exact e
        exact ih a b ha' hb' (by omega)

def labelsOf : NTerm → List Str
  | .bnode l => [l]
  | _ => []

def docLabels (ts : List (NTerm × NTerm × NTerm)) : List Str := ts.flatMap (fun t => labelsOf t.1 ++ labelsOf t.2.2)

theorem readTerm_prefix (tbl : List Str) (t : NTerm) : tbl <+: (readTerm tbl t).1 := by
  cases t with
  | iri s => exact List.prefix_refl _
  | lit a b c => exact List.prefix_refl _
  | bnode l =>
    simp only [readTerm]
    split
    · exact List.prefix_refl _
    · exact List.prefix_append _ _

theorem readTerm_labels (tbl : List Str) (t : NTerm) : ∀ l ∈ labelsOf t, l ∈ (readTerm tbl t).1 := by
  cases t with
  | iri s => intro l h; simp [labelsOf] at h
  | lit a b c => intro l h; simp [labelsOf] at h
  | bnode l =>
    intro l' h
    simp only [labelsOf, List.mem_singleton] at h; subst h
    simp only [readTerm]
    split
    · next hc => simpa using hc
    · simp

theorem readTerm_val (tbl : List Str) (t : NTerm) {fin : List Str} (hp : (readTerm tbl t).1 <+: fin) :
    (readTerm tbl t).2 = relabel (posOf fin) t := by
  cases t with
  | iri s => rfl
  | lit a b c => rfl
  | bnode l =>
    simp only [readTerm] at hp ⊢
    split
    · next hc =>
      rw [if_pos hc] at hp
      have hm : l ∈ tbl := by simpa using hc
      simp only [relabel]
      rw [posOf_prefix hp hm]
    · next hc =>
      rw [if_neg hc] at hp
      have hm : l ∉ tbl := by simpa using hc
      simp only [relabel]
      rw [posOf_prefix hp (by simp), posOf_append_self hm]

/-- what a subject / predicate / object of an rdflib graph looks like on an N-Triples line -/
def TripleWf (t : NTerm × NTerm × NTerm) : Prop :=
  NodeWf t.1 ∧ (∃ p, t.2.1 = .iri p ∧ IriWf p) ∧ ObjWf t.2.2

theorem readDoc_ntDoc : ∀ (ts : List (NTerm × NTerm × NTerm)), (∀ t ∈ ts, TripleWf t) → ∀ tbl : List Str,
    ∃ fin, tbl <+: fin ∧ readDoc tbl (ntDoc ts) = some (fin, ts.map (relabelTr (posOf fin))) ∧
      ∀ l ∈ docLabels ts, l ∈ fin := by
  intro ts
  induction ts with
  | nil => intro _ tbl; exact ⟨tbl, List.prefix_refl _, rfl, by simp [docLabels]⟩
  | cons t ts ih =>
    intro hwf tbl
    obtain ⟨s, p, o⟩ := t
    obtain ⟨hs, ⟨pp, hp, hpp⟩, ho⟩ := hwf (s, p, o) (by simp)
    simp only at hs hp ho
    subst hp
    have hline := nt_line_roundtrip' s pp o hs hpp ho
    obtain ⟨fin, hpre, hdoc, hlab⟩ := ih (fun t ht => hwf t (List.mem_cons_of_mem _ ht))
      (readTerm (readTerm (readTerm tbl s).1 (.iri pp)).1 o).1
    have p1 : tbl <+: (readTerm tbl s).1 := readTerm_prefix tbl s
    have p2 : (readTerm tbl s).1 <+: (readTerm (readTerm tbl s).1 (.iri pp)).1 := readTerm_prefix _ _
    have p3 : (readTerm (readTerm tbl s).1 (.iri pp)).1 <+: (readTerm (readTerm (readTerm tbl s).1 (.iri pp)).1 o).1 :=
      readTerm_prefix _ _
    refine ⟨fin, p1.trans (p2.trans (p3.trans hpre)), ?_, ?_⟩
    · simp only [ntDoc, List.map_cons, readDoc, hline]
      have hdoc' := hdoc
      simp only [ntDoc] at hdoc'
      rw [hdoc']
      simp only [relabelTr]
      rw [readTerm_val tbl s (p2.trans (p3.trans hpre)), readTerm_val _ (.iri pp) (p3.trans hpre), readTerm_val _ o hpre]
    · intro l hl
      simp only [docLabels, List.flatMap_cons, List.mem_append] at hl
      rcases hl with (hl | hl) | hl
      · exact (p2.trans (p3.trans hpre)).subset (readTerm_labels tbl s l hl)
      · exact hpre.subset (readTerm_labels _ o l hl)
      · exact hlab l (by simpa [docLabels] using hl)

end RV.C03
