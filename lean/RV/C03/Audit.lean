import RV.C03.Props
open RV.C03
#print axioms placeholder
