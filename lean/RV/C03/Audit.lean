import RV.C03.Props
open RV.C03
#print axioms nt_lit_roundtrip
#print axioms turtle_str_roundtrip
#print axioms nt_line_roundtrip
#print axioms map_writer_roundtrip
#print axioms long_writer_roundtrip
#print axioms shorthand_relex
#print axioms num_text_roundtrip_partial
#print axioms num_text_roundtrip_witness
#print axioms plain_double_relex
#print axioms plain_int_relex
#print axioms plain_decimal_relex
#print axioms plain_bool_relex
#print axioms unguarded_double_loses
#print axioms isValidList_proper
#print axioms isValidList_terminates
#print axioms old_isValidList_accepts_malformed
#print axioms old_isValidList_diverges_on_cycle
#print axioms layout_roundtrip
#print axioms coll_is_sugar
#print axioms preCheck_pre
#print axioms hext_row_roundtrip
#print axioms strip_resolves
#print axioms strip_needs_nodot
#print axioms strippable_rest_shape
#print axioms strippable_resolves
#print axioms strippable_needs
