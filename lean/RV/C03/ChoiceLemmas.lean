import RV.C03.Choice
import RV.C03.PreLemmas
/-
  C03 — `rdflib_choice_pre`: the set of blank nodes the recursive writer (`choice`) leaves unlabelled in object
  position always satisfies the hypothesis `Pre` of `layout_roundtrip`.

  Invariant of the traversal (`CInv`), relative to a snapshot `T ⊆ _serialized` (the nodes that were done when the
  current top-level statement began, its subject included — none of them can be hidden later):
    * every hidden node is a blank node referenced at most once, and it is referenced;
    * every referrer `s` of a hidden node `x` is either hidden itself and was hidden BEFORE `x` (rank = position of
      the first insertion into the hidden list), or is in `T` and not hidden.
  A node is hidden only while its (unique) referrer is the subject being written, and that subject is hidden already
  or is the top-level subject; so ranks strictly grow along references between hidden nodes: no cycle.
-/
namespace RV.C03

/-! ### rank = position of the first occurrence -/

def rankOf : List Term → Term → Nat
  | [], _ => 0
  | a :: t, x => if a = x then 0 else rankOf t x + 1

theorem rankOf_le (l : List Term) (x : Term) : rankOf l x ≤ l.length := by
  induction l with
  | nil => simp [rankOf]
  | cons a t ih => simp only [rankOf]; split <;> simp <;> omega

theorem rankOf_append_mem {l : List Term} {x : Term} (m : List Term) (h : x ∈ l) :
    rankOf (l ++ m) x = rankOf l x := by
  induction l with
  | nil => simp at h
  | cons a t ih =>
    simp only [List.cons_append, rankOf]
    split
    · rfl
    · next hne =>
      rcases List.mem_cons.mp h with rfl | h'
      · exact absurd rfl hne
      · rw [ih h']

theorem rankOf_append_self {l : List Term} {x : Term} (h : x ∉ l) : rankOf (l ++ [x]) x = l.length := by
  induction l with
  | nil => simp [rankOf]
  | cons a t ih =>
    simp only [List.mem_cons, not_or] at h
    simp only [List.cons_append, rankOf]
    rw [if_neg (fun e => h.1 e.symm), ih h.2]
    simp

theorem rankOf_lt_of_mem {l : List Term} {x : Term} (h : x ∈ l) : rankOf l x < l.length := by
  induction l with
  | nil => simp at h
  | cons a t ih =>
    simp only [rankOf]
    split
    · simp
    · next hne =>
      rcases List.mem_cons.mp h with rfl | h'
      · exact absurd rfl hne
      · have := ih h'; simp; omega

/-! ### a node referenced at most once has one referring triple -/

theorem refCount_zero {g : Graph} {x : Term} (h : refCount g x = 0) : ∀ s p, (s, p, x) ∉ g := by
  induction g with
  | nil => intro s p; simp
  | cons t r ih =>
    obtain ⟨a, b, c⟩ := t
    simp only [refCount] at h
    split at h
    · omega
    · next hne =>
      intro s p hm
      rcases List.mem_cons.mp hm with e | hm
      · simp only [Prod.mk.injEq] at e; exact hne e.2.2.symm
      · exact ih h s p hm

theorem referrer_unique {g : Graph} (hnd : g.Nodup) {x : Term} (h1 : refCount g x ≤ 1) :
    ∀ {s p s' p' : Term}, (s, p, x) ∈ g → (s', p', x) ∈ g → s' = s ∧ p' = p := by
  induction g with
  | nil => intro s p s' p' h; simp at h
  | cons t r ih =>
    obtain ⟨a, b, c⟩ := t
    have hnd' := List.nodup_cons.mp hnd
    intro s p s' p' hm hm'
    simp only [refCount] at h1
    split at h1
    · next hc =>
      have hz : refCount r x = 0 := by omega
      have hno := refCount_zero hz
      rcases List.mem_cons.mp hm with e | hm
      · rcases List.mem_cons.mp hm' with e' | hm'
        · simp only [Prod.mk.injEq] at e e'
          exact ⟨e'.1.trans e.1.symm, e'.2.1.trans e.2.1.symm⟩
        · exact absurd hm' (hno _ _)
      · exact absurd hm (hno _ _)
    · next hc =>
      rcases List.mem_cons.mp hm with e | hm
      · simp only [Prod.mk.injEq] at e; exact absurd e.2.2.symm hc
      · rcases List.mem_cons.mp hm' with e' | hm'
        · simp only [Prod.mk.injEq] at e'; exact absurd e'.2.2.symm hc
        · exact ih hnd'.2 h1 hm hm'

/-! ### the invariant -/

structure CInv (g : Graph) (T : List Term) (σ : WS) : Prop where
  sub : T ⊆ σ.1
  loc : ∀ x ∈ σ.2, isBn x = true ∧ refCount g x ≤ 1 ∧ ∃ s p, (s, p, x) ∈ g
  ord : ∀ x ∈ σ.2, ∀ s p, (s, p, x) ∈ g →
    (s ∈ σ.2 ∧ rankOf σ.2 s < rankOf σ.2 x) ∨ (s ∉ σ.2 ∧ s ∈ T)

theorem CInv_ser_mono {g : Graph} {T ser ser' hid : List Term} (h : CInv g T (ser, hid)) (hs : ser ⊆ ser') :
    CInv g T (ser', hid) :=
  ⟨fun _ hx => hs (h.sub hx), h.loc, h.ord⟩

theorem CInv_T_mono {g : Graph} {T T' : List Term} {σ : WS} (h : CInv g T σ) (hT : T ⊆ T') (hs : T' ⊆ σ.1) :
    CInv g T' σ := by
  refine ⟨hs, h.loc, ?_⟩
  intro x hx s p hm
  rcases h.ord x hx s p hm with h1 | h2
  · exact Or.inl h1
  · exact Or.inr ⟨h2.1, hT h2.2⟩

/-- hiding `y` while its referrer `s` is the subject being written -/
theorem CInv_insert {g : Graph} {T ser ser' hid : List Term} (hnd : g.Nodup) (h : CInv g T (ser, hid))
    (hsub : ser ⊆ ser') {y s p : Term} (hb : isBn y = true) (hr : refCount g y ≤ 1) (hm : (s, p, y) ∈ g)
    (hctx : s ∈ hid ∨ s ∈ T) (hyT : y ∉ T) : CInv g T (ser', hid ++ [y]) := by
  refine ⟨fun _ hx => hsub (h.sub hx), ?_, ?_⟩
  · intro x hx
    rcases List.mem_append.mp hx with hx | hx
    · exact h.loc x hx
    · simp only [List.mem_singleton] at hx; subst hx
      exact ⟨hb, hr, s, p, hm⟩
  · intro x hx s' p' hm'
    by_cases hyh : y ∈ hid
    · -- nothing new
      have hx' : x ∈ hid := by
        rcases List.mem_append.mp hx with hx | hx
        · exact hx
        · simp only [List.mem_singleton] at hx; subst hx; exact hyh
      rcases h.ord x hx' s' p' hm' with ⟨h1, h2⟩ | ⟨h1, h2⟩
      · left
        exact ⟨List.mem_append_left _ h1, by rw [rankOf_append_mem _ h1, rankOf_append_mem _ hx']; exact h2⟩
      · right
        refine ⟨?_, h2⟩
        intro hc
        rcases List.mem_append.mp hc with hc | hc
        · exact h1 hc
        · simp only [List.mem_singleton] at hc; subst hc; exact h1 hyh
    · rcases List.mem_append.mp hx with hx' | hx'
      · rcases h.ord x hx' s' p' hm' with ⟨h1, h2⟩ | ⟨h1, h2⟩
        · left
          exact ⟨List.mem_append_left _ h1, by rw [rankOf_append_mem _ h1, rankOf_append_mem _ hx']; exact h2⟩
        · right
          refine ⟨?_, h2⟩
          intro hc
          rcases List.mem_append.mp hc with hc | hc
          · exact h1 hc
          · simp only [List.mem_singleton] at hc; subst hc; exact hyT h2
      · simp only [List.mem_singleton] at hx'; subst hx'
        obtain ⟨rfl, _⟩ := referrer_unique hnd hr hm hm'
        rcases hctx with hc | hc
        · left
          refine ⟨List.mem_append_left _ hc, ?_⟩
          rw [rankOf_append_mem _ hc, rankOf_append_self hyh]
          exact rankOf_lt_of_mem hc
        · by_cases hsh : s' ∈ hid
          · left
            refine ⟨List.mem_append_left _ hsh, ?_⟩
            rw [rankOf_append_mem _ hsh, rankOf_append_self hyh]
            exact rankOf_lt_of_mem hsh
          · right
            refine ⟨?_, hc⟩
            intro hc'
            rcases List.mem_append.mp hc' with hc' | hc'
            · exact hsh hc'
            · simp only [List.mem_singleton] at hc'; subst hc'; exact hyT hc

/-! ### `listCells` walks the chain `isValidList` accepted -/

theorem properChain_nodup {g : Graph} {ser : List Term} {b : Bool} {l : Term} {cells : List Term}
    (h : ProperChain g ser b l cells) : cells.Nodup := by
  induction h with
  | nil _ => simp
  | cons _ c m r cs _ _ _ _ _ _ hnot _ ih => exact List.nodup_cons.mpr ⟨hnot, ih⟩

theorem first_mem_of_firstsOf {ps : List (Term × Term)} {m : Term} (h : firstsOf ps = [m]) : (rdfFirst, m) ∈ ps := by
  have : m ∈ firstsOf ps := by rw [h]; simp
  simp only [firstsOf, List.mem_map, List.mem_filter, beq_iff_eq] at this
  obtain ⟨⟨p, o⟩, ⟨hm, hp⟩, ho⟩ := this
  simp at hp ho; subst hp; subst ho; exact hm

theorem properChain_subjects {g : Graph} {ser : List Term} {b : Bool} {l : Term} {cells : List Term}
    (h : ProperChain g ser b l cells) : cells ⊆ g.map (·.1) := by
  induction h with
  | nil _ => simp
  | cons _ c m r cs _ _ hf _ _ _ _ _ ih =>
    intro x hx
    rcases List.mem_cons.mp hx with rfl | hx
    · exact List.mem_map.mpr ⟨_, mem_propsOf.mp (first_mem_of_firstsOf hf), rfl⟩
    · exact ih hx

theorem listCells_chain {g : Graph} {ser : List Term} {b : Bool} {l : Term} {cells : List Term}
    (h : ProperChain g ser b l cells) : ∀ n, cells.length ≤ n → listCells g n l = cells := by
  induction h with
  | nil _ => intro n _; cases n <;> simp [listCells]
  | cons _ c m r cs hb _ _ hr _ _ _ _ ih =>
    intro n hn
    cases n with
    | zero => simp at hn
    | succ n =>
      have hne : c ≠ rdfNil := by intro e; subst e; simp [isBn, rdfNil] at hb
      simp only [listCells, if_neg hne, hr]
      rw [ih n (by simpa using hn)]

theorem listCells_valid {g : Graph} {ser : List Term} {x : Term} {cells : List Term}
    (h : ProperChain g ser true x cells) : listCells g (g.length + 1) x = cells := by
  apply listCells_chain h
  have := nodup_subset_length cells (g.map (·.1)) (properChain_nodup h) (properChain_subjects h)
  simp at this; omega

/-! ### the traversal keeps the invariant -/

def Grow (σ σ' : WS) : Prop := σ.1 ⊆ σ'.1 ∧ σ.2 ⊆ σ'.2

theorem Grow.refl (σ : WS) : Grow σ σ := ⟨fun _ h => h, fun _ h => h⟩

theorem Grow.trans {a b c : WS} (h1 : Grow a b) (h2 : Grow b c) : Grow a c :=
  ⟨fun _ h => h2.1 (h1.1 h), fun _ h => h2.2 (h1.2 h)⟩

/-- what one call of `path(x, OBJECT)` from subject `s` guarantees -/
def PathOK (g : Graph) (T : List Term) (path : WS → Term → WS) : Prop :=
  ∀ (σ : WS) (x s p : Term), CInv g T σ → (s, p, x) ∈ g → (s ∈ σ.2 ∨ s ∈ T) →
    CInv g T (path σ x) ∧ Grow σ (path σ x)

theorem props_fold_inv {g : Graph} {T : List Term} {path : WS → Term → WS} (hp : PathOK g T path) (s : Term) :
    ∀ (ps : List (Term × Term)), (∀ po ∈ ps, (s, po.1, po.2) ∈ g) → ∀ σ : WS, CInv g T σ → (s ∈ σ.2 ∨ s ∈ T) →
      CInv g T (ps.foldl (fun σ po => path σ po.2) σ) ∧ Grow σ (ps.foldl (fun σ po => path σ po.2) σ) := by
  intro ps
  induction ps with
  | nil => intro _ σ h _; exact ⟨h, Grow.refl σ⟩
  | cons po ps ih =>
    intro hmem σ h hctx
    simp only [List.foldl_cons]
    obtain ⟨h1, g1⟩ := hp σ po.2 s po.1 h (hmem po (by simp)) hctx
    have hctx' : s ∈ (path σ po.2).2 ∨ s ∈ T := hctx.imp (fun a => g1.2 a) id
    obtain ⟨h2, g2⟩ := ih (fun q hq => hmem q (List.mem_cons_of_mem _ hq)) _ h1 hctx'
    exact ⟨h2, g1.trans g2⟩

theorem properChain_head_ref {g : Graph} {ser : List Term} {r : Term} {cs : List Term}
    (h : ProperChain g ser false r cs) (hne : cs ≠ []) : refCount g r = 1 := by
  cases h with
  | nil _ => exact absurd rfl hne
  | cons _ _ _ _ _ _ _ _ _ _ href _ _ => exact href rfl

theorem cells_fold_inv {g : Graph} {T ser0 : List Term} {path : WS → Term → WS} (hnd : g.Nodup)
    (hp : PathOK g T path) (hT : T ⊆ ser0) {b : Bool} {c : Term} {cells : List Term}
    (hch : ProperChain g ser0 b c cells) :
    ∀ σ : WS, CInv g T σ → (cells ≠ [] → ∃ s p, (s, p, c) ∈ g ∧ (s ∈ σ.2 ∨ s ∈ T)) → (cells ≠ [] → refCount g c ≤ 1) →
      CInv g T (cells.foldl (fun σ c => wCell g path σ c) σ) ∧ Grow σ (cells.foldl (fun σ c => wCell g path σ c) σ) := by
  induction hch with
  | nil _ => intro σ h _ _; exact ⟨h, Grow.refl σ⟩
  | cons _ c m r cs hb hnser hf hr _ _ _ hrest ih =>
    intro σ h hctx href
    obtain ⟨s, p, hm, hs⟩ := hctx (by simp)
    have hrc := href (by simp)
    simp only [List.foldl_cons]
    have hcell : wCell g path σ c = (c :: (path (σ.1, σ.2 ++ [c]) m).1, (path (σ.1, σ.2 ++ [c]) m).2) := by
      simp [wCell, hf]
    rw [hcell]
    have h1 : CInv g T (σ.1, σ.2 ++ [c]) :=
      CInv_insert hnd (ser := σ.1) (hid := σ.2) h (fun _ hx => hx) hb hrc hm hs (fun hc => hnser (hT hc))
    have hmm : (c, rdfFirst, m) ∈ g := mem_propsOf.mp (first_mem_of_firstsOf hf)
    obtain ⟨h2, g2⟩ := hp (σ.1, σ.2 ++ [c]) m c rdfFirst h1 hmm (Or.inl (by simp))
    have h3 : CInv g T (c :: (path (σ.1, σ.2 ++ [c]) m).1, (path (σ.1, σ.2 ++ [c]) m).2) :=
      CInv_ser_mono (ser := (path (σ.1, σ.2 ++ [c]) m).1) h2 (fun _ hx => List.mem_cons_of_mem _ hx)
    have hcin : c ∈ (path (σ.1, σ.2 ++ [c]) m).2 := g2.2 (by simp)
    have hrr : (c, rdfRest, r) ∈ g := mem_propsOf.mp (rest_mem_of_restsOf hr)
    obtain ⟨h4, g4⟩ := ih _ h3 (fun _ => ⟨c, rdfRest, hrr, Or.inl hcin⟩)
      (fun hne => by rw [properChain_head_ref hrest hne]; exact Nat.le_refl 1)
    refine ⟨h4, Grow.trans ?_ g4⟩
    exact ⟨fun _ hx => List.mem_cons_of_mem _ (g2.1 hx), fun _ hx => g2.2 (List.mem_append_left _ hx)⟩

theorem inlinable_spec {g : Graph} {ser : List Term} {x : Term} (h : inlinable g ser x = true) :
    isBn x = true ∧ x ∉ ser ∧ refCount g x ≤ 1 := by
  simp only [inlinable, Bool.and_eq_true, Bool.not_eq_true', decide_eq_true_eq] at h
  refine ⟨h.1.1, ?_, h.2⟩
  intro hc
  have : ser.contains x = true := by simpa using hc
  rw [this] at h
  exact absurd h.1.2 (by simp)

theorem wPath_inv {g : Graph} {T : List Term} (hnd : g.Nodup) : ∀ f : Nat, PathOK g T (wPath g f) := by
  intro f
  induction f with
  | zero => intro σ x s p h _ _; exact ⟨h, Grow.refl σ⟩
  | succ f ih =>
    intro σ x s p h hm hctx
    simp only [wPath]
    split
    · next hin =>
      obtain ⟨hb, hns, hrc⟩ := inlinable_spec hin
      split
      · next hvl =>
        obtain ⟨cells, hch, _, _⟩ := isValidList_sound g σ.1 _ [] x hvl
        have hch' : ProperChain g σ.1 true x cells := by simpa using hch
        rw [listCells_valid hch']
        exact cells_fold_inv hnd ih h.sub hch' σ h (fun _ => ⟨s, p, hm, hctx⟩) (fun _ => hrc)
      · have h0 : CInv g T (x :: σ.1, σ.2 ++ [x]) :=
          CInv_insert hnd (ser := σ.1) (hid := σ.2) h (fun _ hx => List.mem_cons_of_mem _ hx) hb hrc hm hctx
            (fun hc => hns (h.sub hc))
        obtain ⟨h1, g1⟩ := props_fold_inv ih x (propsOf g x) (fun po hpo => mem_propsOf.mp hpo)
          (x :: σ.1, σ.2 ++ [x]) h0 (Or.inl (by simp))
        refine ⟨h1, Grow.trans ?_ g1⟩
        exact ⟨fun _ hx => List.mem_cons_of_mem _ hx, fun _ hx => List.mem_append_left _ hx⟩
    · exact ⟨h, Grow.refl σ⟩

theorem wStatement_inv {g : Graph} (hnd : g.Nodup) (F : Nat) (st : TS) (s : Term)
    (h : CInv g st.1.1 st.1) : CInv g (wStatement g F st s).1.1 (wStatement g F st s).1 := by
  simp only [wStatement]
  split
  · exact h
  · have h0 : CInv g (s :: st.1.1) (s :: st.1.1, st.1.2) := by
      have := CInv_ser_mono (ser := st.1.1) (ser' := s :: st.1.1) (hid := st.1.2) h
        (fun _ hx => List.mem_cons_of_mem _ hx)
      exact CInv_T_mono this (fun _ hx => List.mem_cons_of_mem _ hx) (fun _ hx => hx)
    obtain ⟨h1, g1⟩ := props_fold_inv (wPath_inv hnd F) s (propsOf g s) (fun po hpo => mem_propsOf.mp hpo)
      (s :: st.1.1, st.1.2) h0 (Or.inr (by simp))
    exact CInv_T_mono h1 g1.1 (fun _ hx => hx)

theorem choiceOn_inv {g : Graph} (hnd : g.Nodup) (order : List Term) :
    CInv g (choiceOn g order).1.1 (choiceOn g order).1 := by
  unfold choiceOn
  have gen : ∀ (l : List Term) (st : TS), CInv g st.1.1 st.1 →
      CInv g (l.foldl (wStatement g (choiceFuel g)) st).1.1 (l.foldl (wStatement g (choiceFuel g)) st).1 := by
    intro l
    induction l with
    | nil => intro st h; exact h
    | cons s l ih => intro st h; exact ih _ (wStatement_inv hnd _ st s h)
  exact gen order _ ⟨fun _ hx => hx, by intro x hx; simp at hx, by intro x hx; simp at hx⟩

/-! ### from the invariant to `Pre` -/

theorem bn_orig_eq {x : Term} (hb : isBn x = true) (ho : origOnly x) : x = bnO (origId x) := by
  match x, hb, ho with
  | .bn (.orig n), _, _ => rfl
  | .bn (.fresh _), _, ho => exact absurd ho (by simp [origOnly, origOnlyB])

theorem pre_of_CInv {g : Graph} {T : List Term} {σ : WS} (hnd : g.Nodup)
    (ho : ∀ t ∈ g, origOnly t.1 ∧ origOnly t.2.2) (hpi : ∀ t ∈ g, ∃ k, t.2.1 = .iri k) (h : CInv g T σ) :
    Pre g (σ.2.map origId) (σ.2.length + 1) (fun n => rankOf σ.2 (bnO n)) := by
  have hmem : ∀ n ∈ σ.2.map origId, bnO n ∈ σ.2 := by
    intro n hn
    obtain ⟨x, hx, rfl⟩ := List.mem_map.mp hn
    obtain ⟨hb, _, s, p, hm⟩ := h.loc x hx
    rw [← bn_orig_eq hb (ho _ hm).2]
    exact hx
  refine ⟨hnd, ho, hpi, ?_, ?_, ?_⟩
  · intro n hn
    obtain ⟨_, hrc, s, p, hm⟩ := h.loc _ (hmem n hn)
    exact ⟨s, p, hm, fun s' p' hm' => referrer_unique hnd hrc hm hm'⟩
  · intro n hn m hm p hmm
    rcases h.ord _ (hmem n hn) _ _ hmm with ⟨_, h2⟩ | ⟨h1, _⟩
    · exact h2
    · exact absurd (hmem m hm) h1
  · intro n _
    have := rankOf_le σ.2 (bnO n)
    show rankOf σ.2 (bnO n) < σ.2.length + 1
    omega

/-! ### orderSubjects visits every subject, once -/

theorem mem_insertBy {α} (lt : α → α → Bool) (a x : α) (l : List α) : x ∈ insertBy lt a l ↔ x = a ∨ x ∈ l := by
  induction l with
  | nil => simp [insertBy]
  | cons b t ih =>
    simp only [insertBy]
    split
    · simp only [List.mem_cons, ih]
      constructor
      · rintro (h | h | h)
        · exact Or.inr (Or.inl h)
        · exact Or.inl h
        · exact Or.inr (Or.inr h)
      · rintro (h | h | h)
        · exact Or.inr (Or.inl h)
        · exact Or.inl h
        · exact Or.inr (Or.inr h)
    · simp

theorem mem_isort {α} (lt : α → α → Bool) (x : α) (l : List α) : x ∈ isort lt l ↔ x ∈ l := by
  induction l with
  | nil => simp [isort]
  | cons a t ih => simp [isort, mem_insertBy, ih]

theorem nodup_insertBy {α} (lt : α → α → Bool) (a : α) (l : List α) (ha : a ∉ l) (h : l.Nodup) :
    (insertBy lt a l).Nodup := by
  induction l with
  | nil => simp [insertBy]
  | cons b t ih =>
    have hb := List.nodup_cons.mp h
    simp only [List.mem_cons, not_or] at ha
    simp only [insertBy]
    split
    · refine List.nodup_cons.mpr ⟨?_, ih ha.2 hb.2⟩
      rw [mem_insertBy]
      rintro (e | e)
      · exact ha.1 e.symm
      · exact hb.1 e
    · refine List.nodup_cons.mpr ⟨?_, h⟩
      simp only [List.mem_cons, not_or]
      exact ha

theorem nodup_isort {α} (lt : α → α → Bool) (l : List α) (h : l.Nodup) : (isort lt l).Nodup := by
  induction l with
  | nil => simp [isort]
  | cons a t ih =>
    have ha := List.nodup_cons.mp h
    simp only [isort]
    exact nodup_insertBy lt a _ (by rw [mem_isort]; exact ha.1) (ih ha.2)

theorem classMembers_sub (g : Graph) : ∀ x ∈ classMembers g, x ∈ subjectsOf g := by
  intro x hx
  simp only [classMembers, mem_sdedup, List.mem_map, List.mem_filter] at hx
  obtain ⟨t, ⟨ht, _⟩, rfl⟩ := hx
  simp only [subjectsOf, mem_sdedup, List.mem_map]
  exact ⟨t, ht, rfl⟩

theorem mem_orderSubjects (g : Graph) (ord : List Nat) (s : Term) :
    s ∈ orderSubjects g ord ↔ ∃ p o, (s, p, o) ∈ g := by
  have hs : s ∈ subjectsOf g ↔ ∃ p o, (s, p, o) ∈ g := by
    simp only [subjectsOf, mem_sdedup, List.mem_map, Prod.exists]
    constructor
    · rintro ⟨a, b, c, h, rfl⟩; exact ⟨b, c, h⟩
    · rintro ⟨p, o, h⟩; exact ⟨s, p, o, h, rfl⟩
  rw [← hs]
  simp only [orderSubjects, List.mem_append, mem_isort, List.mem_filter, Bool.not_eq_true',
    List.contains_eq_mem, decide_eq_false_iff_not]
  constructor
  · rintro (h | h)
    · exact classMembers_sub g s h
    · exact h.1
  · intro h
    by_cases hc : s ∈ classMembers g
    · exact Or.inl hc
    · exact Or.inr ⟨h, hc⟩

theorem nodup_orderSubjects (g : Graph) (ord : List Nat) : (orderSubjects g ord).Nodup := by
  simp only [orderSubjects]
  refine List.nodup_append.mpr ⟨nodup_isort _ _ (nodup_sdedup _), nodup_isort _ _ ((nodup_sdedup _).filter _), ?_⟩
  intro a ha b hb e
  subst e
  rw [mem_isort] at ha hb
  simp only [List.mem_filter, Bool.not_eq_true', List.contains_eq_mem, decide_eq_false_iff_not] at hb
  exact hb.2 ha

end RV.C03
