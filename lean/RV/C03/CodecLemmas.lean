import RV.C03.Codec
/-
  C03 — lemmas for the string codecs.
-/
namespace RV.C03

/-! ### decoder steps -/

theorem unescape_echar {e d : Char} (E : Str) (h : echar e = some d) : unescape (e :: E) = some (d, E) := by
  simp [unescape, h]

theorem decShort_close (q : Char) : decShortBody q [q] = some [] := by
  rw [decShortBody]; simp

theorem decShort_echar (q e d : Char) (E : Str) (h : echar e = some d) (hq : bs ≠ q) :
    decShortBody q (bs :: e :: E) = consOpt d (decShortBody q E) := by
  rw [decShortBody]
  simp only [hq, if_false, if_true]
  split
  · next d' r' h' =>
    rw [unescape_echar E h] at h'
    simp at h'; obtain ⟨rfl, rfl⟩ := h'; rfl
  · next h' => rw [unescape_echar E h] at h'; simp at h'

theorem decShort_plain (q c : Char) (E : Str) (h1 : c ≠ q) (h2 : c ≠ bs) (h3 : c ≠ lf) (h4 : c ≠ cr) :
    decShortBody q (c :: E) = consOpt c (decShortBody q E) := by
  rw [decShortBody]
  simp [h1, h2, h3, h4]

/-! ### the replace chains fused into one pass -/

theorem flatMap_flatMap' {α β γ} (l : List α) (f : α → List β) (g : β → List γ) :
    (l.flatMap f).flatMap g = l.flatMap (fun x => (f x).flatMap g) := by
  induction l with
  | nil => rfl
  | cons a t ih => simp [List.flatMap_cons, List.flatMap_append, ih]

/-- per-character escape of `nt._quote_encode` -/
def ntEsc (x : Char) : Str :=
  if x = bs then [bs, bs] else if x = lf then [bs, 'n'] else if x = dq then [bs, dq]
  else if x = cr then [bs, 'r'] else [x]

theorem ntChain_fused (s : Str) : applyChain Tables.ntChain s = s.flatMap ntEsc := by
  simp only [applyChain, Tables.ntChain, List.foldl, replaceStr, replaceChar, flatMap_flatMap']
  congr 1
  funext x
  unfold ntEsc
  by_cases h1 : x = bs
  · subst h1; decide
  by_cases h2 : x = lf
  · subst h2; decide
  by_cases h3 : x = dq
  · subst h3; decide
  by_cases h4 : x = cr
  · subst h4; decide
  have e1 : Char.ofNat 92 = bs := by decide
  have e2 : Char.ofNat 10 = lf := by decide
  have e3 : Char.ofNat 34 = dq := by decide
  have e4 : Char.ofNat 13 = cr := by decide
  simp only [e1, e2, e3, e4, if_neg h1, if_neg h2, if_neg h3, if_neg h4, List.flatMap_cons, List.flatMap_nil,
    List.append_nil]

theorem ntEsc_other {c : Char} (h1 : c ≠ bs) (h2 : c ≠ lf) (h3 : c ≠ dq) (h4 : c ≠ cr) : ntEsc c = [c] := by
  simp [ntEsc, h1, h2, h3, h4]

theorem nt_body_roundtrip (s : Str) : decShortBody dq (s.flatMap ntEsc ++ [dq]) = some s := by
  induction s with
  | nil => simp [decShort_close]
  | cons c t ih =>
    rw [List.flatMap_cons, List.append_assoc]
    by_cases h1 : c = bs
    · subst h1
      rw [show ntEsc bs = [bs, bs] from by decide]
      simp only [List.cons_append, List.nil_append]
      rw [decShort_echar dq bs bs _ (by decide) (by decide), ih]; rfl
    by_cases h2 : c = lf
    · subst h2
      rw [show ntEsc lf = [bs, 'n'] from by decide]
      simp only [List.cons_append, List.nil_append]
      rw [decShort_echar dq 'n' lf _ (by decide) (by decide), ih]; rfl
    by_cases h3 : c = dq
    · subst h3
      rw [show ntEsc dq = [bs, dq] from by decide]
      simp only [List.cons_append, List.nil_append]
      rw [decShort_echar dq dq dq _ (by decide) (by decide), ih]; rfl
    by_cases h4 : c = cr
    · subst h4
      rw [show ntEsc cr = [bs, 'r'] from by decide]
      simp only [List.cons_append, List.nil_append]
      rw [decShort_echar dq 'r' cr _ (by decide) (by decide), ih]; rfl
    rw [ntEsc_other h1 h2 h3 h4]
    simp only [List.cons_append, List.nil_append]
    rw [decShort_plain dq c _ h3 h1 h2 h4, ih]; rfl

theorem nt_lit_roundtrip' (s : Str) : decodeNT (ntQuoteEncode s) = some s := by
  unfold ntQuoteEncode decodeNT
  simp only [List.cons_append, if_true]
  rw [ntChain_fused]
  exact nt_body_roundtrip s

/-! ### Turtle short form -/

theorem flatMap_congr' {α β} (l : List α) (f g : α → List β) (h : ∀ x ∈ l, f x = g x) :
    l.flatMap f = l.flatMap g := by
  induction l with
  | nil => rfl
  | cons a t ih =>
    simp only [List.flatMap_cons]
    rw [h a (by simp), ih (fun x hx => h x (by simp [hx]))]

/-- per-character escape of the short branch of `Literal._quote_encode` (no newline in the text) -/
def tEsc (x : Char) : Str :=
  if x = bs then [bs, bs] else if x = dq then [bs, dq] else if x = cr then [bs, 'r'] else [x]

theorem shortChain_fused (s : Str) (hlf : lf ∉ s) : applyChain Tables.shortChain s = s.flatMap tEsc := by
  simp only [applyChain, Tables.shortChain, List.foldl, replaceStr, replaceChar, flatMap_flatMap']
  apply flatMap_congr'
  intro x hx
  have h2 : x ≠ lf := fun e => hlf (e ▸ hx)
  unfold tEsc
  have e1 : Char.ofNat 92 = bs := by decide
  have e2 : Char.ofNat 10 = lf := by decide
  have e3 : Char.ofNat 34 = dq := by decide
  have e4 : Char.ofNat 13 = cr := by decide
  simp only [e1, e2, e3, e4, if_neg h2, List.flatMap_cons, List.flatMap_nil, List.append_nil]
  by_cases h1 : x = bs
  · subst h1; decide
  by_cases h3 : x = dq
  · subst h3; decide
  by_cases h4 : x = cr
  · subst h4; decide
  simp only [if_neg h1, if_neg h3, if_neg h4, List.flatMap_cons, List.flatMap_nil, List.append_nil]

theorem tEsc_other {c : Char} (h1 : c ≠ bs) (h3 : c ≠ dq) (h4 : c ≠ cr) : tEsc c = [c] := by
  simp [tEsc, h1, h3, h4]

theorem turtle_short_body_roundtrip (s : Str) (hlf : lf ∉ s) :
    decShortBody dq (s.flatMap tEsc ++ [dq]) = some s := by
  induction s with
  | nil => simp [decShort_close]
  | cons c t ih =>
    have h2 : c ≠ lf := fun e => hlf (by simp [e])
    have ih := ih (fun h => hlf (by simp [h]))
    rw [List.flatMap_cons, List.append_assoc]
    by_cases h1 : c = bs
    · subst h1
      rw [show tEsc bs = [bs, bs] from by decide]
      simp only [List.cons_append, List.nil_append]
      rw [decShort_echar dq bs bs _ (by decide) (by decide), ih]; rfl
    by_cases h3 : c = dq
    · subst h3
      rw [show tEsc dq = [bs, dq] from by decide]
      simp only [List.cons_append, List.nil_append]
      rw [decShort_echar dq dq dq _ (by decide) (by decide), ih]; rfl
    by_cases h4 : c = cr
    · subst h4
      rw [show tEsc cr = [bs, 'r'] from by decide]
      simp only [List.cons_append, List.nil_append]
      rw [decShort_echar dq 'r' cr _ (by decide) (by decide), ih]; rfl
    rw [tEsc_other h1 h3 h4]
    simp only [List.cons_append, List.nil_append]
    rw [decShort_plain dq c _ h3 h1 h2 h4, ih]; rfl

end RV.C03
