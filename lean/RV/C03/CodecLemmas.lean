import RV.C03.Codec
/-
  C03 — lemmas for the string codecs.
-/
namespace RV.C03

/-! ### decoder steps -/

theorem unescape_echar {e d : Char} (E : Str) (h : echar e = some d) : unescape (e :: E) = some (d, E) := by
  simp [unescape, h]

theorem decShort_close (q : Char) : decShortBody q [q] = some [] := by
  rw [decShortBody]; simp

theorem decShort_echar (q e d : Char) (E : Str) (h : echar e = some d) (hq : bs ≠ q) :
    decShortBody q (bs :: e :: E) = consOpt d (decShortBody q E) := by
  rw [decShortBody]
  simp only [hq, if_false, if_true]
  split
  · next d' r' h' =>
    rw [unescape_echar E h] at h'
    simp at h'; obtain ⟨rfl, rfl⟩ := h'; rfl
  · next h' => rw [unescape_echar E h] at h'; simp at h'

theorem decShort_plain (q c : Char) (E : Str) (h1 : c ≠ q) (h2 : c ≠ bs) (h3 : c ≠ lf) (h4 : c ≠ cr) :
    decShortBody q (c :: E) = consOpt c (decShortBody q E) := by
  rw [decShortBody]
  simp [h1, h2, h3, h4]

end RV.C03
