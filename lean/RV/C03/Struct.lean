/-
  C03 — structure layer (executable; core-only imports).

  * abstract RDF terms and graphs (lists read as sets)
  * `isValidList`  : model of `TurtleSerializer.isValidList` (as repaired: exactly one rdf:first / rdf:rest and
                     nothing else per cell, cells after the head referenced once, not yet serialized, visited set)
  * `Obj` / `Doc`  : abstract Turtle document — labelled terms, nested `[ … ]`, collections `( … )`
  * `denote`       : its Turtle meaning; anonymous nodes get fresh blank nodes from an explicit supply
                     (the position of the bracket in the document: distinct positions, distinct nodes, and never
                     a node `orig n` of the input)
  * `layout`       : the family of serializers parameterised by the set `I` of blank nodes written inline
-/
namespace RV.C03

inductive BId
  | orig (n : Nat)              -- a blank node of the graph being written (its label survives in the text)
  | fresh (path : List Nat)     -- made by the reader for an anonymous `[ … ]` / `( … )` at that position
  deriving DecidableEq, Repr

inductive Term
  | iri (n : Nat)
  | lit (n : Nat)
  | bn (b : BId)
  deriving DecidableEq, Repr

abbrev Triple := Term × Term × Term
abbrev Graph := List Triple

def rdfFirst : Term := .iri 0
def rdfRest : Term := .iri 1
def rdfNil : Term := .iri 2

/-- `graph.predicate_objects(s)` -/
def propsOf : Graph → Term → List (Term × Term)
  | [], _ => []
  | (s', p, o) :: r, s => if s' = s then (p, o) :: propsOf r s else propsOf r s

/-- `_references[o]`: how many triples have `o` as object -/
def refCount : Graph → Term → Nat
  | [], _ => 0
  | (_, _, o') :: r, o => if o' = o then refCount r o + 1 else refCount r o

def isBn : Term → Bool
  | .bn _ => true
  | _ => false

def firstsOf (ps : List (Term × Term)) : List Term := (ps.filter (fun po => po.1 == rdfFirst)).map (·.2)
def restsOf (ps : List (Term × Term)) : List Term := (ps.filter (fun po => po.1 == rdfRest)).map (·.2)
def othersOf (ps : List (Term × Term)) : List (Term × Term) :=
  ps.filter (fun po => !(po.1 == rdfFirst) && !(po.1 == rdfRest))

/-- One iteration of the `while l_ != RDF.nil` loop of `isValidList`:
    `none` = reject (return False), `some r` = accept the cell and continue with `r`. -/
def cellStep (g : Graph) (ser seen : List Term) (l : Term) : Option Term :=
  if !isBn l || seen.contains l || ser.contains l then none
  else if !seen.isEmpty && refCount g l != 1 then none
  else
    match firstsOf (propsOf g l), restsOf (propsOf g l), othersOf (propsOf g l) with
    | [_], [r], [] => some r
    | _, _, _ => none

/-- `isValidList`; the Python loop has no bound, the model takes fuel: `none` = fuel exhausted.
    `isValidList_terminates`: fuel `|g| + 2` is never exhausted. -/
def isValidListAux (g : Graph) (ser : List Term) : Nat → List Term → Term → Option Bool
  | 0, _, _ => none
  | f + 1, seen, l =>
    if l = rdfNil then some (!seen.isEmpty)
    else match cellStep g ser seen l with
      | none => some false
      | some r => isValidListAux g ser f (l :: seen) r

def isValidList (g : Graph) (ser : List Term) (h : Term) : Option Bool :=
  isValidListAux g ser (g.length + 2) [] h

/-- the cells `doList` walks (given a list accepted by `isValidList`) -/
def listCells (g : Graph) : Nat → Term → List Term
  | 0, _ => []
  | f + 1, l =>
    if l = rdfNil then []
    else match restsOf (propsOf g l) with
      | r :: _ => l :: listCells g f r
      | [] => [l]

/-! ### the pre-fix `isValidList` (kept only for the regression witnesses of finding C03-F2) -/

/-- "every cell has exactly two predicate-objects", `while l_:` walk along `value(l_, RDF.rest)`, no visited set -/
def isValidListOldAux (g : Graph) : Nat → Term → Option Bool
  | 0, _ => none
  | f + 1, l =>
    if l != rdfNil && (propsOf g l).length != 2 then some false
    else match restsOf (propsOf g l) with
      | r :: _ => isValidListOldAux g f r
      | [] => some true

def isValidListOld (g : Graph) (fuel : Nat) (h : Term) : Option Bool :=
  if (firstsOf (propsOf g h)).isEmpty then some false else isValidListOldAux g fuel h

/-! ### which blank nodes may be written without a label: decidable form of `Pre` (inline part) -/

/-- subjects of the triples that have `x` as object, with multiplicity -/
def parentsOf : Graph → Term → List Term
  | [], _ => []
  | (s, _, o) :: r, x => if o = x then s :: parentsOf r x else parentsOf r x

/-- following the unique referrer upwards from `x` leaves the hidden set (or reaches an unreferenced node)
    within `fuel` steps: `x` is not inside a cycle of hidden nodes -/
def reachesRoot (g : Graph) (H : List Term) : Nat → Term → Bool
  | 0, _ => false
  | f + 1, x =>
    match parentsOf g x with
    | [] => true
    | [s] => if H.contains s then reachesRoot g H f s else true
    | _ => false

/-- every hidden (unlabelled) node is a blank node referenced at most once and not in a cycle of hidden nodes -/
def preCheck (g : Graph) (H : List Term) : Bool :=
  H.all (fun x => isBn x && (parentsOf g x).length ≤ 1 && reachesRoot g H (H.length + 1) x)

end RV.C03
