/-
  C03 — structure layer (executable; core-only imports).

  * abstract RDF terms and graphs (lists read as sets)
  * `isValidList`  : model of `TurtleSerializer.isValidList` (as repaired: exactly one rdf:first / rdf:rest and
                     nothing else per cell, cells after the head referenced once, not yet serialized, visited set)
  * `Obj` / `Doc`  : abstract Turtle document — labelled terms, nested `[ … ]`, collections `( … )`
  * `denote`       : its Turtle meaning; anonymous nodes get fresh blank nodes from an explicit supply
                     (the position of the bracket in the document: distinct positions, distinct nodes, and never
                     a node `orig n` of the input)
  * `layout`       : the family of serializers parameterised by the set `I` of blank nodes written inline
-/
namespace RV.C03

inductive BId
  | orig (n : Nat)              -- a blank node of the graph being written (its label survives in the text)
  | fresh (path : List Nat)     -- made by the reader for an anonymous `[ … ]` / `( … )` at that position
  deriving DecidableEq, Repr

inductive Term
  | iri (n : Nat)
  | lit (n : Nat)
  | bn (b : BId)
  deriving DecidableEq, Repr

abbrev Triple := Term × Term × Term
abbrev Graph := List Triple

def rdfFirst : Term := .iri 0
def rdfRest : Term := .iri 1
def rdfNil : Term := .iri 2

/-- `graph.predicate_objects(s)` -/
def propsOf : Graph → Term → List (Term × Term)
  | [], _ => []
  | (s', p, o) :: r, s => if s' = s then (p, o) :: propsOf r s else propsOf r s

/-- `_references[o]`: how many triples have `o` as object -/
def refCount : Graph → Term → Nat
  | [], _ => 0
  | (_, _, o') :: r, o => if o' = o then refCount r o + 1 else refCount r o

def isBn : Term → Bool
  | .bn _ => true
  | _ => false

def firstsOf (ps : List (Term × Term)) : List Term := (ps.filter (fun po => po.1 == rdfFirst)).map (·.2)
def restsOf (ps : List (Term × Term)) : List Term := (ps.filter (fun po => po.1 == rdfRest)).map (·.2)
def othersOf (ps : List (Term × Term)) : List (Term × Term) :=
  ps.filter (fun po => !(po.1 == rdfFirst) && !(po.1 == rdfRest))

/-- One iteration of the `while l_ != RDF.nil` loop of `isValidList`:
    `none` = reject (return False), `some r` = accept the cell and continue with `r`. -/
def cellStep (g : Graph) (ser seen : List Term) (l : Term) : Option Term :=
  if !isBn l || seen.contains l || ser.contains l then none
  else if !seen.isEmpty && refCount g l != 1 then none
  else
    match firstsOf (propsOf g l), restsOf (propsOf g l), othersOf (propsOf g l) with
    | [_], [r], [] => some r
    | _, _, _ => none

/-- `isValidList`; the Python loop has no bound, the model takes fuel: `none` = fuel exhausted.
    `isValidList_terminates`: fuel `|g| + 2` is never exhausted. -/
def isValidListAux (g : Graph) (ser : List Term) : Nat → List Term → Term → Option Bool
  | 0, _, _ => none
  | f + 1, seen, l =>
    if l = rdfNil then some (!seen.isEmpty)
    else match cellStep g ser seen l with
      | none => some false
      | some r => isValidListAux g ser f (l :: seen) r

def isValidList (g : Graph) (ser : List Term) (h : Term) : Option Bool :=
  isValidListAux g ser (g.length + 2) [] h

/-- the cells `doList` walks (given a list accepted by `isValidList`) -/
def listCells (g : Graph) : Nat → Term → List Term
  | 0, _ => []
  | f + 1, l =>
    if l = rdfNil then []
    else match restsOf (propsOf g l) with
      | r :: _ => l :: listCells g f r
      | [] => [l]

/-! ### the pre-fix `isValidList` (kept only for the regression witnesses of finding C03-F2) -/

/-- "every cell has exactly two predicate-objects", `while l_:` walk along `value(l_, RDF.rest)`, no visited set -/
def isValidListOldAux (g : Graph) : Nat → Term → Option Bool
  | 0, _ => none
  | f + 1, l =>
    if l != rdfNil && (propsOf g l).length != 2 then some false
    else match restsOf (propsOf g l) with
      | r :: _ => isValidListOldAux g f r
      | [] => some true

def isValidListOld (g : Graph) (fuel : Nat) (h : Term) : Option Bool :=
  if (firstsOf (propsOf g h)).isEmpty then some false else isValidListOldAux g fuel h

/-! ### which blank nodes may be written without a label: decidable form of `Pre` (inline part) -/

/-- subjects of the triples that have `x` as object, with multiplicity -/
def parentsOf : Graph → Term → List Term
  | [], _ => []
  | (s, _, o) :: r, x => if o = x then s :: parentsOf r x else parentsOf r x

/-- following the unique referrer upwards from `x` leaves the hidden set (or reaches an unreferenced node)
    within `fuel` steps: `x` is not inside a cycle of hidden nodes -/
def reachesRoot (g : Graph) (H : List Term) : Nat → Term → Bool
  | 0, _ => false
  | f + 1, x =>
    match parentsOf g x with
    | [] => true
    | [s] => if H.contains s then reachesRoot g H f s else true
    | _ => false

/-- every hidden (unlabelled) node is a blank node referenced at most once and not in a cycle of hidden nodes -/
def preCheck (g : Graph) (H : List Term) : Bool :=
  H.all (fun x => isBn x && (parentsOf g x).length ≤ 1 && reachesRoot g H (H.length + 1) x)

/-! ### abstract Turtle documents -/

/-- an object (or collection member) of a Turtle statement -/
inductive Obj
  | t (x : Term)                                 -- IRI, literal, labelled blank node `_:b`
  | anon (n : Nat) (ps : List (Term × Obj))      -- `[ p o ; p o … ]`   (`n`: which node of the graph the writer
                                                 --  put here — an annotation for proofs, ignored by `denote`)
  | coll (items : List Obj)                      -- `( o o … )`

/-- a statement: labelled subject and its predicate-object list (`s p o , o ; p o .` flattened to pairs) -/
abbrev Stmt := Term × List (Term × Obj)
abbrev Doc := List Stmt

/- The Turtle meaning.  The reader's supply of fresh blank nodes is explicit: the node for an anonymous
   bracket is named by the bracket's position `path` in the document (statement index last), so two brackets
   never share a node and no bracket gets a node `orig n` of the graph that was written. -/
mutual
/-- term denoted by an object at position `path`, and the triples it contributes -/
def denObj : List Nat → Obj → Term × List Triple
  | _, .t x => (x, [])
  | path, .anon _ ps => (.bn (.fresh path), denProps (.bn (.fresh path)) path 0 ps)
  | path, .coll items => denItems path items
/-- triples of a predicate-object list with subject `subj`; the `i`-th object sits at position `i :: path` -/
def denProps (subj : Term) (path : List Nat) : Nat → List (Term × Obj) → List Triple
  | _, [] => []
  | i, (p, o) :: rest =>
    (subj, p, (denObj (i :: path) o).1) :: ((denObj (i :: path) o).2 ++ denProps subj path (i + 1) rest)
/-- `( o₁ o₂ … )` is `[ rdf:first o₁ ; rdf:rest [ rdf:first o₂ ; rdf:rest … rdf:nil ] ]` (Turtle §2.8) -/
def denItems (path : List Nat) : List Obj → Term × List Triple
  | [] => (rdfNil, [])
  | o :: rest =>
    ((.bn (.fresh path)),
     ((.bn (.fresh path)), rdfFirst, (denObj (0 :: path) o).1) :: ((denObj (0 :: path) o).2 ++
       (((.bn (.fresh path)), rdfRest, (denItems (1 :: path) rest).1) :: ((denItems (1 :: path) rest).2 ++ []))))
end

def denStmts : Nat → Doc → List Triple
  | _, [] => []
  | j, (s, ps) :: rest => denProps s [j] 0 ps ++ denStmts (j + 1) rest

/-- the graph a document denotes -/
def denote (d : Doc) : Graph := denStmts 0 d

/-- the nested-bracket spelling of a collection -/
def desugar : List Obj → Obj
  | [] => .t rdfNil
  | o :: rest => .anon 0 [(rdfFirst, o), (rdfRest, desugar rest)]

/-! ### the family of serializers: which blank nodes are written inline -/

/-- is `x` one of the blank nodes chosen to be written inline as `[ … ]`? -/
def inl (I : List Nat) : Term → Bool
  | .bn (.orig n) => I.contains n
  | _ => false

def origId : Term → Nat
  | .bn (.orig n) => n
  | _ => 0

/-- object position: an inlined node becomes a bracket holding its own predicate-object list, recursively
    (`p_squared` → `predicateList` → `objectList` → `path`); `fuel` bounds the nesting depth -/
def emitObj (g : Graph) (I : List Nat) : Nat → Term → Obj
  | 0, x => .t x
  | f + 1, x =>
    if inl I x then .anon (origId x) ((propsOf g x).map (fun po => (po.1, emitObj g I f po.2)))
    else .t x

def sdedup : List Term → List Term
  | [] => []
  | a :: t => if t.contains a then sdedup t else a :: sdedup t

/-- the subjects written at top level: every subject that is not inlined -/
def topSubjects (g : Graph) (I : List Nat) : List Term :=
  (sdedup (g.map (·.1))).filter (fun s => !inl I s)

/-- `layout g I F`: one statement per top-level subject -/
def layout (g : Graph) (I : List Nat) (F : Nat) : Doc :=
  (topSubjects g I).map (fun s => (s, (propsOf g s).map (fun po => (po.1, emitObj g I F po.2))))

end RV.C03

namespace RV.C03

/-! ### HexTuples rows (rdflib/plugins/serializers/hext.py:_hex_line, parsers/hext.py:_parse_hextuple) -/

abbrev S := List Char

inductive HTerm
  | iri (i : S)
  | bnode (label : S)
  | lit (lex : S) (dt : Option S) (lang : Option S)
  deriving DecidableEq, Repr

def xsdString : S := "http://www.w3.org/2001/XMLSchema#string".toList
def rdfLangString : S := "http://www.w3.org/1999/02/22-rdf-syntax-ns#langString".toList
def globalId : S := "globalId".toList
def localId : S := "localId".toList

/-- (value, datatype, language) columns of a row for an object term; `[]` is the empty JSON string -/
def hextObj : HTerm → S × S × S
  | .iri i => (i, globalId, [])
  | .bnode b => ('_' :: ':' :: b, localId, [])
  | .lit lex (some dt) lang => (lex, dt, lang.getD [])
  | .lit lex none (some l) => (lex, rdfLangString, l)
  | .lit lex none none => (lex, xsdString, [])

/-- `value.replace("_:", "")` on a label written by `hextObj` (labels contain no `_:` themselves) -/
def stripBn : S → S
  | '_' :: ':' :: b => b
  | b => b

/-- the reader: "" in the language column means none -/
def hextParseObj (row : S × S × S) : HTerm :=
  if row.2.1 = globalId then .iri row.1
  else if row.2.1 = localId then .bnode (stripBn row.1)
  else if row.2.2 = [] then .lit row.1 (some row.2.1) none
  else .lit row.1 none (some row.2.2)

/-- RDF 1.1: a simple literal is the xsd:string literal with the same lexical form -/
def norm11 : HTerm → HTerm
  | .lit lex none none => .lit lex (some xsdString) none
  | x => x

end RV.C03
