import RV.C03.NTLine
import RV.C03.CodecLemmas
/-
  C03 — replace chains of one-character patterns, generically.

  `chainOK excl chain` is a DECIDABLE condition on a (pattern, replacement) table: every pattern is one character;
  `"`, `\`, LF and CR are among the patterns; and, for every pattern character `c` not in `excl`, the whole chain
  turns the one-character text `c` into `\e` with `ECHAR e = c`.  It is re-checked by `decide` against the table
  regenerated from rdflib's source on every run.  Under it, the chain applied to any text without characters from
  `excl`, put between quotes, is one STRING_LITERAL_QUOTE that decodes to that text — so a writer that escapes
  more characters (e.g. also TAB) or reorders independent steps still satisfies the theorem, while one that
  double-escapes (`\n` before `\`) or forgets a character does not.
-/
namespace RV.C03

def singleChain (chain : List (Str × Str)) : Bool := chain.all (fun pr => pr.1.length == 1)

def chainPats : List (Str × Str) → List Char
  | [] => []
  | (pat, _) :: rest =>
    match pat with
    | [c] => c :: chainPats rest
    | _ => chainPats rest

def escGood (w : Str) (c : Char) : Bool :=
  match w with
  | [b, e] => b == bs && echar e == some c
  | _ => false

def chainOK (excl : List Char) (chain : List (Str × Str)) : Bool :=
  singleChain chain &&
  [dq, bs, lf, cr].all (fun c => (chainPats chain).contains c) &&
  (chainPats chain).all (fun c => excl.contains c || escGood (applyChain chain [c]) c)

theorem applyChain_cons (pr : Str × Str) (rest : List (Str × Str)) (s : Str) :
    applyChain (pr :: rest) s = applyChain rest (replaceStr pr.1 pr.2 s) := rfl

theorem applyChain_append : ∀ (chain : List (Str × Str)) (a b : Str), singleChain chain = true →
    applyChain chain (a ++ b) = applyChain chain a ++ applyChain chain b := by
  intro chain
  induction chain with
  | nil => intro a b _; rfl
  | cons pr rest ih =>
    intro a b h
    simp only [singleChain, List.all_cons, Bool.and_eq_true, beq_iff_eq] at h
    obtain ⟨pat, rep⟩ := pr
    match pat, h.1 with
    | [c], _ =>
      simp only [applyChain_cons, replaceStr, replaceChar, List.flatMap_append]
      exact ih _ _ (by simpa [singleChain] using h.2)

theorem applyChain_nil : ∀ (chain : List (Str × Str)), singleChain chain = true → applyChain chain [] = [] := by
  intro chain
  induction chain with
  | nil => intro _; rfl
  | cons pr rest ih =>
    intro h
    simp only [singleChain, List.all_cons, Bool.and_eq_true, beq_iff_eq] at h
    obtain ⟨pat, rep⟩ := pr
    match pat, h.1 with
    | [c], _ =>
      simp only [applyChain_cons, replaceStr, replaceChar, List.flatMap_nil]
      exact ih (by simpa [singleChain] using h.2)

theorem applyChain_cons_text (chain : List (Str × Str)) (h : singleChain chain = true) (x : Char) (t : Str) :
    applyChain chain (x :: t) = applyChain chain [x] ++ applyChain chain t := by
  have := applyChain_append chain [x] t h
  simpa using this

theorem applyChain_untouched : ∀ (chain : List (Str × Str)) (x : Char), singleChain chain = true →
    x ∉ chainPats chain → applyChain chain [x] = [x] := by
  intro chain
  induction chain with
  | nil => intro x _ _; rfl
  | cons pr rest ih =>
    intro x h hx
    simp only [singleChain, List.all_cons, Bool.and_eq_true, beq_iff_eq] at h
    obtain ⟨pat, rep⟩ := pr
    match pat, h.1 with
    | [c], _ =>
      simp only [chainPats, List.mem_cons, not_or] at hx
      have : replaceStr [c] rep [x] = [x] := by simp [replaceStr, replaceChar, hx.1]
      rw [applyChain_cons, this]
      exact ih x (by simpa [singleChain] using h.2) hx.2

/-- what `chainOK` gives for one character of the text -/
theorem chain_char {excl : List Char} {chain : List (Str × Str)} (h : chainOK excl chain = true) (x : Char)
    (hx : x ∉ excl) :
    (∃ e, applyChain chain [x] = [bs, e] ∧ echar e = some x) ∨
    (applyChain chain [x] = [x] ∧ x ≠ dq ∧ x ≠ bs ∧ x ≠ lf ∧ x ≠ cr) := by
  simp only [chainOK, Bool.and_eq_true] at h
  obtain ⟨⟨hs, hfour⟩, hall⟩ := h
  by_cases hp : x ∈ chainPats chain
  · left
    have := List.all_eq_true.mp hall x hp
    simp only [Bool.or_eq_true, List.contains_eq_mem, decide_eq_true_eq] at this
    rcases this with hex | hg
    · exact absurd hex hx
    · unfold escGood at hg
      split at hg
      · next b e heq =>
        simp only [Bool.and_eq_true, beq_iff_eq] at hg
        exact ⟨e, by rw [heq, hg.1], hg.2⟩
      · simp at hg
  · right
    refine ⟨applyChain_untouched chain x hs hp, ?_, ?_, ?_, ?_⟩ <;>
    · intro e
      subst e
      simp only [List.all_cons, List.all_nil, Bool.and_true, Bool.and_eq_true, List.contains_eq_mem,
        decide_eq_true_eq] at hfour
      first
        | exact hp hfour.1
        | exact hp hfour.2.1
        | exact hp hfour.2.2.1
        | exact hp hfour.2.2.2

/-- whole-token reader (`decodeNT`, `decodeTurtle`) -/
theorem chain_body_roundtrip {excl : List Char} {chain : List (Str × Str)} (h : chainOK excl chain = true) :
    ∀ s : Str, (∀ c ∈ s, c ∉ excl) → decShortBody dq (applyChain chain s ++ [dq]) = some s := by
  have hs : singleChain chain = true := by
    simp only [chainOK, Bool.and_eq_true] at h; exact h.1.1
  intro s
  induction s with
  | nil => intro _; rw [applyChain_nil chain hs]; simp [decShort_close]
  | cons x t ih =>
    intro hex
    have iht := ih (fun c hc => hex c (List.mem_cons_of_mem _ hc))
    rw [applyChain_cons_text chain hs, List.append_assoc]
    rcases chain_char h x (hex x (by simp)) with ⟨e, he, hech⟩ | ⟨he, h1, h2, h3, h4⟩
    · rw [he]
      simp only [List.cons_append, List.nil_append]
      rw [decShort_echar dq e x _ hech (by decide), iht]; rfl
    · rw [he]
      simp only [List.cons_append, List.nil_append]
      rw [decShort_plain dq x _ h1 h2 h3 h4, iht]; rfl

/-! the same for the reader that returns the rest of the line -/

theorem decShortRest_echar (q e d : Char) (E : Str) (h : echar e = some d) (hq : bs ≠ q) :
    decShortRest q (bs :: e :: E) = (match decShortRest q E with | some (a, b) => some (d :: a, b) | none => none) := by
  conv => lhs; rw [decShortRest.eq_def]
  simp only [hq, if_false, if_true]
  split
  · next d' r' h' =>
    rw [unescape_echar E h] at h'
    simp at h'; obtain ⟨rfl, rfl⟩ := h'; rfl
  · next h' => rw [unescape_echar E h] at h'; simp at h'

theorem decShortRest_plain (q c : Char) (E : Str) (h1 : c ≠ q) (h2 : c ≠ bs) (h3 : c ≠ lf) (h4 : c ≠ cr) :
    decShortRest q (c :: E) = (match decShortRest q E with | some (a, b) => some (c :: a, b) | none => none) := by
  conv => lhs; rw [decShortRest.eq_def]
  simp only [h1, h2, h3, h4, if_false, false_or]
  rfl

theorem decShortRest_close (q : Char) (E : Str) : decShortRest q (q :: E) = some ([], E) := by
  rw [decShortRest.eq_def]; simp

theorem chain_rest_roundtrip {excl : List Char} {chain : List (Str × Str)} (h : chainOK excl chain = true)
    (rest : Str) :
    ∀ s : Str, (∀ c ∈ s, c ∉ excl) → decShortRest dq (applyChain chain s ++ dq :: rest) = some (s, rest) := by
  have hs : singleChain chain = true := by
    simp only [chainOK, Bool.and_eq_true] at h; exact h.1.1
  intro s
  induction s with
  | nil => intro _; rw [applyChain_nil chain hs]; simp [decShortRest_close]
  | cons x t ih =>
    intro hex
    have iht := ih (fun c hc => hex c (List.mem_cons_of_mem _ hc))
    rw [applyChain_cons_text chain hs, List.append_assoc]
    rcases chain_char h x (hex x (by simp)) with ⟨e, he, hech⟩ | ⟨he, h1, h2, h3, h4⟩
    · rw [he]
      simp only [List.cons_append, List.nil_append]
      rw [decShortRest_echar dq e x _ hech (by decide), iht]
    · rw [he]
      simp only [List.cons_append, List.nil_append]
      rw [decShortRest_plain dq x _ h1 h2 h3 h4, iht]

/-- the chain's text of a non-excluded character never starts with a quote -/
theorem chain_head_ne_dq {excl : List Char} {chain : List (Str × Str)} (h : chainOK excl chain = true) (x : Char)
    (hx : x ∉ excl) : ∃ y r, applyChain chain [x] = y :: r ∧ y ≠ dq := by
  rcases chain_char h x hx with ⟨e, he, _⟩ | ⟨he, h1, _⟩
  · exact ⟨bs, [e], he, by decide⟩
  · exact ⟨x, [], he, h1⟩

/-! ### the two tables of the current source -/

theorem ntChain_ok : chainOK [] Tables.ntChain = true := by decide

/-- the short Turtle chain mishandles a newline (`\n` then `\` → `\\n`), which is why the writer uses it only for
    texts without one -/
theorem shortChain_ok : chainOK [lf] Tables.shortChain = true := by decide

theorem nt_lit_roundtrip' (s : Str) : decodeNT (ntQuoteEncode s) = some s := by
  unfold ntQuoteEncode decodeNT
  simp only [List.cons_append, if_true]
  exact chain_body_roundtrip ntChain_ok s (by simp)

theorem decodeTurtle_short (B : Str) (h : ¬ ∃ r, B = dq :: dq :: r) :
    decodeTurtle (dq :: B) = decShortBody dq B := by
  match B with
  | [] => simp [decodeTurtle]
  | [b] => simp [decodeTurtle]
  | b :: c :: r =>
    have this' : ¬ (b = dq ∧ c = dq) := by
      rintro ⟨rfl, rfl⟩; exact h ⟨r, rfl⟩
    simp [decodeTurtle, this', show ¬ (dq = sq) from by decide]

theorem turtle_short_roundtrip (s : Str) (hlf : lf ∉ s) : decodeTurtle (quoteEncode s) = some s := by
  have hex : ∀ c ∈ s, c ∉ [lf] := by
    intro c hc hm
    simp at hm; subst hm; exact hlf hc
  have hs : singleChain Tables.shortChain = true := by decide
  unfold quoteEncode
  simp only [hlf, if_false]
  rw [List.cons_append, decodeTurtle_short]
  · exact chain_body_roundtrip shortChain_ok s hex
  · rintro ⟨r, hr⟩
    match s, hex with
    | [], _ => rw [applyChain_nil _ hs] at hr; simp at hr
    | x :: t, hex =>
      obtain ⟨y, r', hy, hne⟩ := chain_head_ne_dq shortChain_ok x (hex x (by simp))
      rw [applyChain_cons_text _ hs, hy] at hr
      simp at hr
      exact hne hr.1

end RV.C03
