import RV.C03.ChainLemmas
/-
  C03 — the long (`"""`) branch of `Literal._quote_encode`:
  the replace chain + final-quote rule equals a one-pass encoder `encG true true`, which the W3C
  STRING_LITERAL_LONG_QUOTE grammar decodes back.
-/
namespace RV.C03

def esc3 : Str := [bs, dq, bs, dq, bs, dq]

/-- what one source character becomes; `fin` = apply the final-quote rule, `crE` = apply the `\r` step -/
def piece (fin crE : Bool) (x : Char) (last : Bool) : Str :=
  if x = bs then [bs, bs]
  else if x = cr ∧ crE = true then [bs, 'r']
  else if x = dq ∧ last = true ∧ fin = true then [bs, dq]
  else [x]

/-- one-pass form of the long branch -/
def encG (fin crE : Bool) : Str → Str
  | x :: y :: z :: t =>
    if x = dq ∧ y = dq ∧ z = dq then esc3 ++ encG fin crE t
    else piece fin crE x false ++ encG fin crE (y :: z :: t)
  | x :: t => piece fin crE x t.isEmpty ++ encG fin crE t
  | [] => []
termination_by s => s.length

theorem encG_nil (f c : Bool) : encG f c [] = [] := by rw [encG]

theorem encG_triple (f c : Bool) (t : Str) : encG f c (dq :: dq :: dq :: t) = esc3 ++ encG f c t := by
  rw [encG]; simp

theorem encG_step (f c : Bool) (x : Char) (t : Str) (h : ¬ (x = dq ∧ ∃ t', t = dq :: dq :: t')) :
    encG f c (x :: t) = piece f c x t.isEmpty ++ encG f c t := by
  match t with
  | [] => rw [encG]; intro _ _ _ h; cases h
  | [y] => rw [encG]; intro _ _ _ h; cases h
  | y :: z :: t' =>
    rw [encG]
    have : ¬ (x = dq ∧ y = dq ∧ z = dq) := by
      rintro ⟨h1, h2, h3⟩; exact h ⟨h1, t', by rw [h2, h3]⟩
    simp [this]

/-! #### `replace3` -/

theorem replace3_nil (a b c : Char) (w : Str) : replace3 a b c w [] = [] := by
  simp [replace3, replace3Aux]

theorem replace3_triple (a b c : Char) (w t : Str) :
    replace3 a b c w (a :: b :: c :: t) = w ++ replace3 a b c w t := by
  simp [replace3, replace3Aux]

theorem replace3_step (a b c : Char) (w : Str) (x : Char) (t : Str)
    (h : ¬ (x = a ∧ ∃ t', t = b :: c :: t')) :
    replace3 a b c w (x :: t) = x :: replace3 a b c w t := by
  match t with
  | [] => simp [replace3, replace3Aux]
  | [y] => simp [replace3, replace3Aux]
  | y :: z :: t' =>
    have : ¬ (x = a ∧ y = b ∧ z = c) := by
      rintro ⟨h1, h2, h3⟩; exact h ⟨h1, t', by rw [h2, h3]⟩
    simp only [replace3, replace3Aux, this, if_false]

def dbl (x : Char) : Str := if x = bs then [bs, bs] else [x]

theorem dbl_of_ne {x : Char} (h : x ≠ bs) : dbl x = [x] := by simp [dbl, h]

theorem flatMap_dbl_starts2 (t T' : Str) (h : t.flatMap dbl = dq :: dq :: T') : ∃ t', t = dq :: dq :: t' := by
  match t with
  | [] => simp at h
  | y :: t1 =>
    by_cases hy : y = bs
    · subst hy; simp [dbl] at h; exact absurd h.1 (by decide)
    · rw [List.flatMap_cons, dbl_of_ne hy] at h
      simp at h
      obtain ⟨rfl, h⟩ := h
      match t1 with
      | [] => simp at h
      | z :: t2 =>
        by_cases hz : z = bs
        · subst hz; simp [dbl] at h; exact absurd h.1 (by decide)
        · rw [List.flatMap_cons, dbl_of_ne hz] at h
          simp at h
          obtain ⟨rfl, _⟩ := h
          exact ⟨t2, rfl⟩

theorem piece_ff (x : Char) (l : Bool) : piece false false x l = dbl x := by
  unfold piece dbl; simp

theorem replace3_dbl_aux (n : Nat) : ∀ s : Str, s.length ≤ n →
    replace3 dq dq dq esc3 (s.flatMap dbl) = encG false false s := by
  induction n with
  | zero =>
    intro s h
    have : s = [] := List.eq_nil_of_length_eq_zero (by omega)
    subst this; simp [replace3_nil, encG_nil]
  | succ n ih =>
    intro s h
    match s with
    | [] => simp [replace3_nil, encG_nil]
    | x :: t =>
      simp only [List.length_cons] at h
      by_cases htr : x = dq ∧ ∃ t', t = dq :: dq :: t'
      · obtain ⟨rfl, t', rfl⟩ := htr
        have e : (dq :: dq :: dq :: t').flatMap dbl = dq :: dq :: dq :: t'.flatMap dbl := by
          simp [List.flatMap_cons, show dbl dq = [dq] from by decide]
        simp only [List.length_cons] at h
        rw [e, replace3_triple, encG_triple, ih t' (by omega)]
      · rw [encG_step _ _ _ _ htr, piece_ff, List.flatMap_cons]
        have iht := ih t (by omega)
        by_cases hx : x = bs
        · subst hx
          rw [show dbl bs = [bs, bs] from by decide]
          simp only [List.cons_append, List.nil_append]
          rw [replace3_step _ _ _ _ _ _ (by rintro ⟨h1, _⟩; exact absurd h1 (by decide)),
            replace3_step _ _ _ _ _ _ (by rintro ⟨h1, _⟩; exact absurd h1 (by decide)), iht]
        · rw [dbl_of_ne hx]
          simp only [List.cons_append, List.nil_append]
          rw [replace3_step, iht]
          rintro ⟨h1, T', hT⟩
          exact htr ⟨h1, flatMap_dbl_starts2 t T' hT⟩

/-- L1: the `\"\"\"` replacement over the backslash-doubled text, in one pass -/
theorem replace3_dbl (s : Str) : replace3 dq dq dq esc3 (s.flatMap dbl) = encG false false s :=
  replace3_dbl_aux s.length s (Nat.le_refl _)

theorem hasTriple_triple (t : Str) : hasTriple (dq :: dq :: dq :: t) = true := by
  simp [hasTriple]

theorem hasTriple_tail (x : Char) (t : Str) (h : hasTriple (x :: t) = false) : hasTriple t = false := by
  simp only [hasTriple, Bool.or_eq_false_iff] at h
  exact h.2

/-- without a `\"\"\"` in the text the replacement step is skipped; same one-pass form -/
theorem noTriple_dbl (s : Str) (hn : hasTriple s = false) : s.flatMap dbl = encG false false s := by
  induction s with
  | nil => simp [encG_nil]
  | cons x t ih =>
    have htr : ¬ (x = dq ∧ ∃ t', t = dq :: dq :: t') := by
      rintro ⟨rfl, t', rfl⟩
      rw [hasTriple_triple] at hn; exact absurd hn (by simp)
    rw [encG_step _ _ _ _ htr, piece_ff, List.flatMap_cons, ih (hasTriple_tail x t hn)]

/-! #### the final-quote rule -/

/-- the trailing run of backslashes of `P` has even length -/
def evenRun (P : Str) : Prop := leadingBs P.reverse % 2 = 0

theorem evenRun_nil : evenRun [] := by simp [evenRun, leadingBs]

theorem evenRun_bsbs {P : Str} (h : evenRun P) : evenRun (P ++ [bs, bs]) := by
  unfold evenRun at *
  simp [leadingBs]
  omega

theorem evenRun_ne {P : Str} {x : Char} (hx : x ≠ bs) : evenRun (P ++ [x]) := by
  unfold evenRun
  simp [leadingBs, hx]

theorem evenRun_dbl {P : Str} (x : Char) (h : evenRun P) : evenRun (P ++ dbl x) := by
  by_cases hx : x = bs
  · subst hx; rw [show dbl bs = [bs, bs] from by decide]; exact evenRun_bsbs h
  · rw [dbl_of_ne hx]; exact evenRun_ne hx

theorem evenRun_esc3 (P : Str) : evenRun (P ++ esc3) := by
  unfold evenRun esc3
  have : dq ≠ bs := by decide
  simp [leadingBs, this]

theorem fix_esc3 (P : Str) : fixFinalQuote (P ++ esc3) = P ++ esc3 := by
  unfold fixFinalQuote esc3
  have : dq ≠ bs := by decide
  simp [leadingBs, this]

theorem fix_last (P : Str) (x : Char) (hP : evenRun P) :
    fixFinalQuote (P ++ dbl x) = P ++ piece true false x true := by
  by_cases hb : x = bs
  · subst hb
    rw [show dbl bs = [bs, bs] from by decide, show piece true false bs true = [bs, bs] from by decide]
    unfold fixFinalQuote
    simp
    intro h; exact absurd h (by decide)
  · rw [dbl_of_ne hb]
    by_cases hq : x = dq
    · subst hq
      rw [show piece true false dq true = [bs, dq] from by decide]
      unfold fixFinalQuote
      unfold evenRun at hP
      simp [hP]
    · have : piece true false x true = [x] := by simp [piece, hb, hq]
      rw [this]
      unfold fixFinalQuote
      simp [hq]

theorem piece_notlast (f c : Bool) (x : Char) : piece f c x false = piece false c x false := by
  unfold piece; simp

theorem fixFinal_aux (n : Nat) : ∀ (s P : Str), s.length ≤ n → s ≠ [] → evenRun P →
    fixFinalQuote (P ++ encG false false s) = P ++ encG true false s := by
  induction n with
  | zero =>
    intro s P h hs _
    exact absurd (List.eq_nil_of_length_eq_zero (by omega)) hs
  | succ n ih =>
    intro s P h hs hP
    match s with
    | [] => exact absurd rfl hs
    | x :: t =>
      simp only [List.length_cons] at h
      by_cases htr : x = dq ∧ ∃ t', t = dq :: dq :: t'
      · obtain ⟨rfl, t', rfl⟩ := htr
        simp only [List.length_cons] at h
        rw [encG_triple, encG_triple]
        by_cases ht' : t' = []
        · subst ht'; simp only [encG_nil, List.append_nil]; exact fix_esc3 P
        · rw [← List.append_assoc, ← List.append_assoc]
          exact ih t' (P ++ esc3) (by omega) ht' (evenRun_esc3 P)
      · rw [encG_step _ _ _ _ htr, encG_step _ _ _ _ htr]
        by_cases ht : t = []
        · subst ht
          simp only [encG_nil, List.append_nil, List.isEmpty_nil, piece_ff]
          exact fix_last P x hP
        · have he : t.isEmpty = false := by cases t with | nil => exact absurd rfl ht | cons _ _ => rfl
          rw [he, piece_notlast true, piece_ff, ← List.append_assoc, ← List.append_assoc]
          exact ih t (P ++ dbl x) (by omega) ht (evenRun_dbl x hP)

/-- G: the final-quote rule applied to the one-pass text -/
theorem fixFinal_encG (s : Str) (hs : s ≠ []) : fixFinalQuote (encG false false s) = encG true false s := by
  have := fixFinal_aux s.length s [] (Nat.le_refl _) hs evenRun_nil
  simpa using this

/-! #### the `\r` step -/

theorem replaceChar_append (c : Char) (w a b : Str) :
    replaceChar c w (a ++ b) = replaceChar c w a ++ replaceChar c w b := by
  simp [replaceChar, List.flatMap_append]

theorem cr_piece (x : Char) (l : Bool) :
    replaceChar cr [bs, 'r'] (piece true false x l) = piece true true x l := by
  by_cases hb : x = bs
  · subst hb; cases l <;> decide
  by_cases hc : x = cr
  · subst hc; cases l <;> decide
  by_cases hq : x = dq
  · subst hq; cases l <;> decide
  have h1 : piece true false x l = [x] := by simp [piece, hb, hc, hq]
  have h2 : piece true true x l = [x] := by simp [piece, hb, hc, hq]
  rw [h1, h2]; simp [replaceChar, hc]

theorem crStep_aux (n : Nat) : ∀ s : Str, s.length ≤ n →
    replaceChar cr [bs, 'r'] (encG true false s) = encG true true s := by
  induction n with
  | zero =>
    intro s h
    have : s = [] := List.eq_nil_of_length_eq_zero (by omega)
    subst this; simp [encG_nil, replaceChar]
  | succ n ih =>
    intro s h
    match s with
    | [] => simp [encG_nil, replaceChar]
    | x :: t =>
      simp only [List.length_cons] at h
      by_cases htr : x = dq ∧ ∃ t', t = dq :: dq :: t'
      · obtain ⟨rfl, t', rfl⟩ := htr
        simp only [List.length_cons] at h
        rw [encG_triple, encG_triple, replaceChar_append, ih t' (by omega)]
        congr 1
      · rw [encG_step _ _ _ _ htr, encG_step _ _ _ _ htr, replaceChar_append, ih t (by omega), cr_piece]

theorem crStep_encG (s : Str) : replaceChar cr [bs, 'r'] (encG true false s) = encG true true s :=
  crStep_aux s.length s (Nat.le_refl _)

/-! #### decoding the one-pass text with the W3C long-string grammar -/

theorem decLong_close (q : Char) : decLongBody q [q, q, q] = some [] := by
  rw [decLongBody]; simp

theorem decLong_q1 (q c : Char) (E : Str) (h : c ≠ q) :
    decLongBody q (q :: c :: E) = consOpt q (decLongBody q (c :: E)) := by
  conv => lhs; rw [decLongBody.eq_def]
  simp [h]

theorem decLong_q2 (q c : Char) (E : Str) (h : c ≠ q) :
    decLongBody q (q :: q :: c :: E) = appOpt [q, q] (decLongBody q (c :: E)) := by
  conv => lhs; rw [decLongBody.eq_def]
  simp [h]

theorem decLong_echar (q e d : Char) (E : Str) (h : echar e = some d) (hq : bs ≠ q) :
    decLongBody q (bs :: e :: E) = consOpt d (decLongBody q E) := by
  conv => lhs; rw [decLongBody.eq_def]
  simp only [hq, if_false, if_true]
  split
  · next d' r' h' =>
    rw [unescape_echar E h] at h'
    simp at h'; obtain ⟨rfl, rfl⟩ := h'; rfl
  · next h' => rw [unescape_echar E h] at h'; simp at h'

theorem decLong_plain (q c : Char) (E : Str) (h1 : c ≠ q) (h2 : c ≠ bs) :
    decLongBody q (c :: E) = consOpt c (decLongBody q E) := by
  conv => lhs; rw [decLongBody.eq_def]
  simp [h1, h2]

def tq : Str := [dq, dq, dq]

/-- text that does not begin with a quote: what may follow one or two raw quotes -/
def startsNonQuote (E : Str) : Prop := ∃ c E', E = c :: E' ∧ c ≠ dq

theorem piece_tt_ne_head {x : Char} (hx : x ≠ dq) (l : Bool) (T : Str) : startsNonQuote (piece true true x l ++ T) := by
  by_cases hb : x = bs
  · subst hb; exact ⟨bs, bs :: T, by simp [piece], by decide⟩
  by_cases hc : x = cr
  · subst hc; exact ⟨bs, 'r' :: T, by simp [piece, show cr ≠ bs from by decide], by decide⟩
  · exact ⟨x, T, by simp [piece, hb, hc, hx], hx⟩

theorem encG_head_ne {x : Char} (hx : x ≠ dq) (t T : Str) : startsNonQuote (encG true true (x :: t) ++ T) := by
  rw [encG_step _ _ _ _ (by rintro ⟨h, _⟩; exact hx h), List.append_assoc]
  exact piece_tt_ne_head hx _ _

theorem long_decode_aux (n : Nat) : ∀ s : Str, s.length ≤ n →
    decLongBody dq (encG true true s ++ tq) = some s := by
  induction n with
  | zero =>
    intro s h
    have : s = [] := List.eq_nil_of_length_eq_zero (by omega)
    subst this; simp [encG_nil, tq, decLong_close]
  | succ n ih =>
    intro s h
    match s with
    | [] => simp [encG_nil, tq, decLong_close]
    | x :: t =>
      simp only [List.length_cons] at h
      by_cases hq : x = dq
      · subst hq
        match t with
        | [] =>
          -- a final raw quote is escaped
          rw [encG_step _ _ _ _ (by rintro ⟨_, t', h'⟩; cases h'), encG_nil]
          simp only [List.isEmpty_nil, show piece true true dq true = [bs, dq] from by decide,
            List.append_nil, List.cons_append, List.nil_append]
          rw [decLong_echar dq dq dq _ (by decide) (by decide)]
          simp [tq, decLong_close, consOpt]
        | y :: t1 =>
          simp only [List.length_cons] at h
          by_cases hy : y = dq
          · subst hy
            match t1 with
            | [] =>
              -- text ends in two quotes:  `"` then `\"`
              rw [encG_step _ _ _ _ (by rintro ⟨_, t', h'⟩; cases h'),
                encG_step _ _ _ _ (by rintro ⟨_, t', h'⟩; cases h'), encG_nil]
              simp only [List.isEmpty_nil, List.isEmpty_cons, show piece true true dq true = [bs, dq] from by decide,
                show piece true true dq false = [dq] from by decide, List.append_nil, List.cons_append,
                List.nil_append]
              rw [decLong_q1 dq bs _ (by decide), decLong_echar dq dq dq _ (by decide) (by decide)]
              simp [tq, decLong_close, consOpt]
            | z :: t2 =>
              simp only [List.length_cons] at h
              by_cases hz : z = dq
              · subst hz
                rw [encG_triple, List.append_assoc]
                simp only [esc3, List.cons_append, List.nil_append]
                rw [decLong_echar dq dq dq _ (by decide) (by decide),
                  decLong_echar dq dq dq _ (by decide) (by decide),
                  decLong_echar dq dq dq _ (by decide) (by decide), ih t2 (by omega)]
                rfl
              · -- two raw quotes followed by a non-quote item
                have n1 : ¬ (dq = dq ∧ ∃ t', dq :: z :: t2 = dq :: dq :: t') := by
                  rintro ⟨_, t', h'⟩; simp at h'; exact hz h'.1
                have n2 : ¬ (dq = dq ∧ ∃ t', z :: t2 = dq :: dq :: t') := by
                  rintro ⟨_, t', h'⟩; simp at h'; exact hz h'.1
                rw [encG_step _ _ _ _ n1, encG_step _ _ _ _ n2]
                simp only [List.isEmpty_cons, show piece true true dq false = [dq] from by decide,
                  List.cons_append, List.nil_append]
                obtain ⟨c, E', hE, hc⟩ := encG_head_ne hz t2 tq
                rw [hE, decLong_q2 dq c E' hc, ← hE, ih (z :: t2) (by simp; omega)]
                rfl
          · -- one raw quote followed by a non-quote item
            have n1 : ¬ (dq = dq ∧ ∃ t', y :: t1 = dq :: dq :: t') := by
              rintro ⟨_, t', h'⟩; simp at h'; exact hy h'.1
            rw [encG_step _ _ _ _ n1]
            simp only [List.isEmpty_cons, show piece true true dq false = [dq] from by decide,
              List.cons_append, List.nil_append]
            obtain ⟨c, E', hE, hc⟩ := encG_head_ne hy t1 tq
            rw [hE, decLong_q1 dq c E' hc, ← hE, ih (y :: t1) (by simp; omega)]
            rfl
      · have ns : ¬ (x = dq ∧ ∃ t', t = dq :: dq :: t') := by rintro ⟨h', _⟩; exact hq h'
        rw [encG_step _ _ _ _ ns, List.append_assoc]
        have iht := ih t (by omega)
        by_cases hb : x = bs
        · subst hb
          rw [show piece true true bs t.isEmpty = [bs, bs] from by simp [piece]]
          simp only [List.cons_append, List.nil_append]
          rw [decLong_echar dq bs bs _ (by decide) (by decide), iht]; rfl
        by_cases hc : x = cr
        · subst hc
          rw [show piece true true cr t.isEmpty = [bs, 'r'] from by simp [piece, show cr ≠ bs from by decide]]
          simp only [List.cons_append, List.nil_append]
          rw [decLong_echar dq 'r' cr _ (by decide) (by decide), iht]; rfl
        · rw [show piece true true x t.isEmpty = [x] from by simp [piece, hb, hc, hq]]
          simp only [List.cons_append, List.nil_append]
          rw [decLong_plain dq x _ hq hb, iht]; rfl

theorem long_decode (s : Str) : decLongBody dq (encG true true s ++ tq) = some s :=
  long_decode_aux s.length s (Nat.le_refl _)

/-! #### the chain as written in `Literal._quote_encode` -/

theorem long_chain_eq (s : Str) (hs : s ≠ []) :
    replaceStr Tables.longStep3.1 Tables.longStep3.2
      (fixFinalQuote
        (if hasTriple s then replaceStr Tables.longStep2.1 Tables.longStep2.2
            (replaceStr Tables.longStep1.1 Tables.longStep1.2 s)
         else replaceStr Tables.longStep1.1 Tables.longStep1.2 s)) = encG true true s := by
  have e1 : replaceStr Tables.longStep1.1 Tables.longStep1.2 s = s.flatMap dbl := by
    simp only [Tables.longStep1, replaceStr, replaceChar]
    rfl
  have e2 : ∀ l, replaceStr Tables.longStep2.1 Tables.longStep2.2 l = replace3 dq dq dq esc3 l := by
    intro l; simp only [Tables.longStep2, replaceStr]; rfl
  have e3 : ∀ l, replaceStr Tables.longStep3.1 Tables.longStep3.2 l = replaceChar cr [bs, 'r'] l := by
    intro l; simp only [Tables.longStep3, replaceStr]; rfl
  have mid : (if hasTriple s then replaceStr Tables.longStep2.1 Tables.longStep2.2
            (replaceStr Tables.longStep1.1 Tables.longStep1.2 s)
         else replaceStr Tables.longStep1.1 Tables.longStep1.2 s) = encG false false s := by
    rw [e1]
    by_cases ht : hasTriple s = true
    · rw [if_pos ht, e2, replace3_dbl]
    · rw [if_neg ht, noTriple_dbl s (by simpa using ht)]
  rw [mid, e3, fixFinal_encG s hs, crStep_encG]

theorem turtle_long_roundtrip (s : Str) (hlf : lf ∈ s) : decodeTurtle (quoteEncode s) = some s := by
  have hs : s ≠ [] := by intro h; subst h; simp at hlf
  unfold quoteEncode
  simp only [hlf, if_true]
  rw [long_chain_eq s hs]
  unfold decodeTurtle
  simp only [List.cons_append, List.nil_append, and_self, if_true]
  exact long_decode s

end RV.C03
