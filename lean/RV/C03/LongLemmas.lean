import RV.C03.MapLemmas
/-
  C03 — the long (`"""`) form of the Turtle writer: the one-pass writer `encLong m` (per-character map `m` plus
  the two context rules for quotes) is decoded back by the W3C STRING_LITERAL_LONG_QUOTE grammar, for every map
  satisfying the decidable `mapOK [bs] m`.
-/
namespace RV.C03

theorem encLong_nil (m : List (Char × Str)) : encLong m [] = [] := by simp [encLong, encLongAux]

theorem encLong_triple (m : List (Char × Str)) (t : Str) :
    encLong m (dq :: dq :: dq :: t) = esc3 ++ encLong m t := by
  simp [encLong, encLongAux]

theorem encLong_step (m : List (Char × Str)) (x : Char) (t : Str) (h : ¬ (x = dq ∧ ∃ t', t = dq :: dq :: t')) :
    encLong m (x :: t) = pieceL m x t.isEmpty ++ encLong m t := by
  match t with
  | [] => simp [encLong, encLongAux]
  | [y] => simp [encLong, encLongAux]
  | y :: z :: t' =>
    have : ¬ (x = dq ∧ y = dq ∧ z = dq) := by
      rintro ⟨h1, h2, h3⟩; exact h ⟨h1, t', by rw [h2, h3]⟩
    simp only [encLong, encLongAux, this, if_false, List.isEmpty_cons]

/-! #### decoder steps -/

theorem decLong_close (q : Char) : decLongBody q [q, q, q] = some [] := by
  rw [decLongBody]; simp

theorem decLong_q1 (q c : Char) (E : Str) (h : c ≠ q) :
    decLongBody q (q :: c :: E) = consOpt q (decLongBody q (c :: E)) := by
  conv => lhs; rw [decLongBody.eq_def]
  simp [h]

theorem decLong_q2 (q c : Char) (E : Str) (h : c ≠ q) :
    decLongBody q (q :: q :: c :: E) = appOpt [q, q] (decLongBody q (c :: E)) := by
  conv => lhs; rw [decLongBody.eq_def]
  simp [h]

theorem decLong_esc (q c : Char) (r E : Str) (h : unescape r = some (c, [])) (hq : bs ≠ q) :
    decLongBody q (bs :: (r ++ E)) = consOpt c (decLongBody q E) := by
  conv => lhs; rw [decLongBody.eq_def]
  simp only [hq, if_false, if_true]
  split
  · next d' r' h' =>
    rw [unescape_append h] at h'
    simp at h'; obtain ⟨rfl, rfl⟩ := h'; rfl
  · next h' => rw [unescape_append h] at h'; simp at h'

theorem decLong_plain (q c : Char) (E : Str) (h1 : c ≠ q) (h2 : c ≠ bs) :
    decLongBody q (c :: E) = consOpt c (decLongBody q E) := by
  conv => lhs; rw [decLongBody.eq_def]
  simp [h1, h2]

def tq : Str := [dq, dq, dq]

/-- text that does not begin with a quote: what may follow one or two raw quotes -/
def startsNonQuote (E : Str) : Prop := ∃ c E', E = c :: E' ∧ c ≠ dq

theorem unescape_dq : unescape [dq] = some (dq, []) := by decide

theorem pieceL_ne {m : List (Char × Str)} {x : Char} (hx : x ≠ dq) (l : Bool) : pieceL m x l = escOf m x := by
  simp [pieceL, hx]

theorem encLong_head_ne {m : List (Char × Str)} (hm : mapOK [bs] m = true) {x : Char} (hx : x ≠ dq) (t T : Str) :
    startsNonQuote (encLong m (x :: t) ++ T) := by
  rw [encLong_step _ _ _ (by rintro ⟨h, _⟩; exact hx h), pieceL_ne hx, List.append_assoc]
  rcases map_char hm x with ⟨r, he, _⟩ | ⟨he, _⟩
  · exact ⟨bs, r ++ (encLong m t ++ T), by rw [he]; rfl, by decide⟩
  · exact ⟨x, encLong m t ++ T, by rw [he]; rfl, hx⟩

theorem long_decode_aux {m : List (Char × Str)} (hm : mapOK [bs] m = true) (n : Nat) : ∀ s : Str, s.length ≤ n →
    decLongBody dq (encLong m s ++ tq) = some s := by
  induction n with
  | zero =>
    intro s h
    have : s = [] := List.eq_nil_of_length_eq_zero (by omega)
    subst this; simp [encLong_nil, tq, decLong_close]
  | succ n ih =>
    intro s h
    match s with
    | [] => simp [encLong_nil, tq, decLong_close]
    | x :: t =>
      simp only [List.length_cons] at h
      by_cases hq : x = dq
      · subst hq
        match t with
        | [] =>
          -- a final raw quote is escaped
          rw [encLong_step _ _ _ (by rintro ⟨_, t', h'⟩; cases h'), encLong_nil]
          simp only [List.isEmpty_nil, pieceL, if_true, List.append_nil, List.cons_append, List.nil_append]
          have := decLong_esc dq dq [dq] tq unescape_dq (by decide)
          simp only [List.cons_append, List.nil_append] at this
          rw [this]
          simp [tq, decLong_close, consOpt]
        | y :: t1 =>
          simp only [List.length_cons] at h
          by_cases hy : y = dq
          · subst hy
            match t1 with
            | [] =>
              -- text ends in two quotes:  `"` then `\"`
              rw [encLong_step _ _ _ (by rintro ⟨_, t', h'⟩; cases h'),
                encLong_step _ _ _ (by rintro ⟨_, t', h'⟩; cases h'), encLong_nil]
              simp only [List.isEmpty_nil, List.isEmpty_cons, pieceL, if_true, Bool.false_eq_true, if_false,
                List.append_nil, List.cons_append, List.nil_append]
              have := decLong_esc dq dq [dq] tq unescape_dq (by decide)
              simp only [List.cons_append, List.nil_append] at this
              rw [decLong_q1 dq bs _ (by decide), this]
              simp [tq, decLong_close, consOpt]
            | z :: t2 =>
              simp only [List.length_cons] at h
              by_cases hz : z = dq
              · subst hz
                rw [encLong_triple, List.append_assoc]
                have e1 := fun E => decLong_esc dq dq [dq] E unescape_dq (by decide)
                simp only [List.cons_append, List.nil_append] at e1
                simp only [esc3, List.cons_append, List.nil_append]
                rw [e1, e1, e1, ih t2 (by omega)]
                rfl
              · -- two raw quotes followed by a non-quote item
                have n1 : ¬ (dq = dq ∧ ∃ t', dq :: z :: t2 = dq :: dq :: t') := by
                  rintro ⟨_, t', h'⟩; simp at h'; exact hz h'.1
                have n2 : ¬ (dq = dq ∧ ∃ t', z :: t2 = dq :: dq :: t') := by
                  rintro ⟨_, t', h'⟩; simp at h'; exact hz h'.1
                rw [encLong_step _ _ _ n1, encLong_step _ _ _ n2]
                simp only [List.isEmpty_cons, pieceL, if_true, Bool.false_eq_true, if_false, List.cons_append,
                  List.nil_append]
                obtain ⟨c, E', hE, hc⟩ := encLong_head_ne hm hz t2 tq
                rw [hE, decLong_q2 dq c E' hc, ← hE, ih (z :: t2) (by simp; omega)]
                rfl
          · -- one raw quote followed by a non-quote item
            have n1 : ¬ (dq = dq ∧ ∃ t', y :: t1 = dq :: dq :: t') := by
              rintro ⟨_, t', h'⟩; simp at h'; exact hy h'.1
            rw [encLong_step _ _ _ n1]
            simp only [List.isEmpty_cons, pieceL, if_true, Bool.false_eq_true, if_false, List.cons_append,
              List.nil_append]
            obtain ⟨c, E', hE, hc⟩ := encLong_head_ne hm hy t1 tq
            rw [hE, decLong_q1 dq c E' hc, ← hE, ih (y :: t1) (by simp; omega)]
            rfl
      · have ns : ¬ (x = dq ∧ ∃ t', t = dq :: dq :: t') := by rintro ⟨h', _⟩; exact hq h'
        rw [encLong_step _ _ _ ns, pieceL_ne hq, List.append_assoc]
        have iht := ih t (by omega)
        rcases map_char hm x with ⟨r, he, hun⟩ | ⟨he, hx⟩
        · rw [he, List.cons_append, decLong_esc dq x r _ hun (by decide), iht]; rfl
        · have hb : x ≠ bs := mem_req hx bs (by simp)
          rw [he]
          simp only [List.cons_append, List.nil_append]
          rw [decLong_plain dq x _ hq hb, iht]; rfl

theorem long_decode {m : List (Char × Str)} (hm : mapOK [bs] m = true) (s : Str) :
    decLongBody dq (encLong m s ++ tq) = some s :=
  long_decode_aux hm s.length s (Nat.le_refl _)

theorem turtle_long_roundtrip (s : Str) (hlf : lf ∈ s) : decodeTurtle (quoteEncode s) = some s := by
  unfold quoteEncode
  simp only [hlf, if_true]
  unfold decodeTurtle
  simp only [List.cons_append, List.nil_append, and_self, if_true]
  exact long_decode longMap_ok s

end RV.C03
