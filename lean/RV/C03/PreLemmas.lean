import RV.C03.LayoutLemmas
/-
  C03 — the decidable check `preCheck` (run by the correspondence harness on the blank nodes rdflib's Turtle
  writers actually left unlabelled) establishes the hypothesis `Pre` of `layout_roundtrip`.
-/
namespace RV.C03

/-- number of hidden ancestors of `x` (mirrors `reachesRoot`) -/
def depthOf (g : Graph) (H : List Term) : Nat → Term → Nat
  | 0, _ => 0
  | f + 1, x =>
    match parentsOf g x with
    | [s] => if H.contains s then depthOf g H f s + 1 else 0
    | _ => 0

theorem reachesRoot_stable (g : Graph) (H : List Term) :
    ∀ (f : Nat) (x : Term), reachesRoot g H f x = true →
      ∀ k, reachesRoot g H (f + k) x = true ∧ depthOf g H (f + k) x = depthOf g H f x := by
  intro f
  induction f with
  | zero => intro x h; simp [reachesRoot] at h
  | succ f ih =>
    intro x h k
    have e : f + 1 + k = (f + k) + 1 := by omega
    rw [e]
    simp only [reachesRoot, depthOf] at h ⊢
    revert h
    cases parentsOf g x with
    | nil => intro _; simp
    | cons s rest =>
      cases rest with
      | nil =>
        intro h
        by_cases hm : s ∈ H
        · have hc : H.contains s = true := by simpa using hm
          simp only [hc, if_true] at h ⊢
          obtain ⟨h1, h2⟩ := ih s h k
          exact ⟨h1, by rw [h2]⟩
        · simp [hm]
      | cons s2 rest2 => intro h; simp at h

theorem depthOf_le (g : Graph) (H : List Term) : ∀ (f : Nat) (x : Term), depthOf g H f x ≤ f := by
  intro f
  induction f with
  | zero => intro x; simp [depthOf]
  | succ f ih =>
    intro x
    simp only [depthOf]
    cases parentsOf g x with
    | nil => simp
    | cons s rest =>
      cases rest with
      | nil =>
        by_cases hm : s ∈ H
        · have hc : H.contains s = true := by simpa using hm
          simp only [hc, if_true]; have := ih s; omega
        · simp [hm]
      | cons _ _ => simp

/-- the triples that have `x` as object -/
def objTriples : Graph → Term → List Triple
  | [], _ => []
  | t :: r, x => if t.2.2 = x then t :: objTriples r x else objTriples r x

theorem parentsOf_eq (g : Graph) (x : Term) : parentsOf g x = (objTriples g x).map (·.1) := by
  induction g with
  | nil => rfl
  | cons t r ih =>
    obtain ⟨s, p, o⟩ := t
    simp only [parentsOf, objTriples]
    split <;> simp [ih]

theorem mem_objTriples {g : Graph} {x : Term} {t : Triple} : t ∈ objTriples g x ↔ t ∈ g ∧ t.2.2 = x := by
  induction g with
  | nil => simp [objTriples]
  | cons a r ih =>
    simp only [objTriples]
    split
    · next h =>
      simp only [List.mem_cons, ih]
      constructor
      · rintro (rfl | ⟨h1, h2⟩)
        · exact ⟨Or.inl rfl, h⟩
        · exact ⟨Or.inr h1, h2⟩
      · rintro ⟨rfl | h1, h2⟩
        · exact Or.inl rfl
        · exact Or.inr ⟨h1, h2⟩
    · next h =>
      simp only [List.mem_cons, ih]
      constructor
      · rintro ⟨h1, h2⟩; exact ⟨Or.inr h1, h2⟩
      · rintro ⟨rfl | h1, h2⟩
        · exact absurd h2 h
        · exact ⟨h1, h2⟩

/-- a node with exactly one referring triple: the referrer and the predicate are unique -/
theorem single_parent {g : Graph} {x s : Term} (h : parentsOf g x = [s]) :
    ∃ p, (s, p, x) ∈ g ∧ ∀ s' p', (s', p', x) ∈ g → s' = s ∧ p' = p := by
  rw [parentsOf_eq] at h
  match hl : objTriples g x, h with
  | [t0], h =>
    simp at h
    have hm : t0 ∈ objTriples g x := by rw [hl]; simp
    obtain ⟨hg, ho⟩ := mem_objTriples.mp hm
    obtain ⟨s0, p0, o0⟩ := t0
    simp at h ho; subst h; subst ho
    refine ⟨p0, hg, ?_⟩
    intro s' p' hm'
    have : (s', p', o0) ∈ objTriples g o0 := mem_objTriples.mpr ⟨hm', rfl⟩
    rw [hl] at this
    simp at this
    exact ⟨this.1, this.2⟩

theorem mem_parentsOf {g : Graph} {x s p : Term} (h : (s, p, x) ∈ g) : s ∈ parentsOf g x := by
  rw [parentsOf_eq]
  exact List.mem_map.mpr ⟨(s, p, x), mem_objTriples.mpr ⟨h, rfl⟩, rfl⟩

/-- `preCheck` on a hidden set of referenced blank nodes gives `Pre` (with depth as rank) -/
theorem preCheck_pre' {g : Graph} {I : List Nat}
    (hnd : g.Nodup) (ho : ∀ t ∈ g, origOnly t.1 ∧ origOnly t.2.2) (hpi : ∀ t ∈ g, ∃ k, t.2.1 = .iri k)
    (hchk : preCheck g (I.map bnO) = true) (href : ∀ n ∈ I, parentsOf g (bnO n) ≠ []) :
    Pre g I ((I.map bnO).length + 2) (fun n => depthOf g (I.map bnO) ((I.map bnO).length + 1) (bnO n)) := by
  have hall : ∀ n ∈ I, (parentsOf g (bnO n)).length ≤ 1 ∧
      reachesRoot g (I.map bnO) ((I.map bnO).length + 1) (bnO n) = true := by
    intro n hn
    simp only [preCheck, List.all_eq_true, Bool.and_eq_true, decide_eq_true_eq] at hchk
    have := hchk (bnO n) (List.mem_map.mpr ⟨n, hn, rfl⟩)
    exact ⟨this.1.2, this.2⟩
  have hone : ∀ n ∈ I, ∃ s, parentsOf g (bnO n) = [s] := by
    intro n hn
    have h1 := (hall n hn).1
    have h2 := href n hn
    match hp : parentsOf g (bnO n), h1, h2 with
    | [], _, h2 => exact absurd rfl h2
    | [s], _, _ => exact ⟨s, rfl⟩
    | _ :: _ :: _, h1, _ => simp at h1
  refine ⟨hnd, ho, hpi, ?_, ?_, ?_⟩
  · intro n hn
    obtain ⟨s, hs⟩ := hone n hn
    obtain ⟨p, hm, hu⟩ := single_parent hs
    exact ⟨s, p, hm, hu⟩
  · intro n hn m hm p hmem
    obtain ⟨s, hs⟩ := hone n hn
    have : bnO m ∈ parentsOf g (bnO n) := mem_parentsOf hmem
    rw [hs] at this
    simp at this
    subst this
    have hr := (hall n hn).2
    have hc : (I.map bnO).contains (bnO m) = true := by
      simp only [List.contains_eq_mem, decide_eq_true_eq]
      exact List.mem_map.mpr ⟨m, hm, rfl⟩
    simp only [reachesRoot, hs, hc, if_true] at hr
    obtain ⟨_, hd⟩ := reachesRoot_stable g _ _ _ hr 1
    show depthOf g (I.map bnO) ((I.map bnO).length + 1) (bnO m) <
      depthOf g (I.map bnO) ((I.map bnO).length + 1) (bnO n)
    rw [hd]
    conv => rhs; rw [depthOf]
    simp only [hs, hc, if_true]
    omega
  · intro n _
    have := depthOf_le g (I.map bnO) ((I.map bnO).length + 1) (bnO n)
    show depthOf g (I.map bnO) ((I.map bnO).length + 1) (bnO n) < (I.map bnO).length + 2
    omega

end RV.C03
