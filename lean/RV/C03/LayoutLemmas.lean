import RV.C03.ListLemmas
/-
  C03 — layout_roundtrip for the family of serializers parameterised by the set `I` of blank nodes written
  inline: under `Pre`, the document `layout g I F` denotes a graph isomorphic to `g`.
-/
namespace RV.C03

/-! ### renaming, isomorphism, the hypothesis `Pre` -/

def renameT (σ : BId → BId) : Term → Term
  | .bn b => .bn (σ b)
  | x => x

def renameTr (σ : BId → BId) (t : Triple) : Triple := (renameT σ t.1, renameT σ t.2.1, renameT σ t.2.2)

/-- no reader-made (`fresh`) blank node occurs: the graph is one a user hands to the serializer -/
def origOnlyB : Term → Bool
  | .bn (.fresh _) => false
  | _ => true

def origOnly (x : Term) : Prop := origOnlyB x = true

instance (x : Term) : Decidable (origOnly x) := by unfold origOnly; exact inferInstance

/-- `g ≅ h`: equal up to a renaming of blank nodes that is injective on the blank nodes of `g`
    (graphs are lists read as sets; IRIs and literals are fixed) -/
def Iso (g h : Graph) : Prop :=
  ∃ σ : BId → BId, (∀ n m, σ (.orig n) = σ (.orig m) → n = m) ∧
    ∀ t, t ∈ h ↔ ∃ t' ∈ g, t = renameTr σ t'

abbrev bnO (n : Nat) : Term := .bn (.orig n)

/-- The hypothesis of `layout_roundtrip` (inline part): the graph is a set of triples over IRIs, literals and
    its own blank nodes with IRI predicates; every node chosen for inlining is referenced exactly once, and no
    cycle consists of inlined nodes only (`rank` strictly grows from an inlined referrer to the inlined node it
    refers to); the nesting bound `F` exceeds every rank. -/
structure Pre (g : Graph) (I : List Nat) (F : Nat) (rank : Nat → Nat) : Prop where
  nodup : g.Nodup
  orig_only : ∀ t ∈ g, origOnly t.1 ∧ origOnly t.2.2
  pred_iri : ∀ t ∈ g, ∃ k, t.2.1 = .iri k
  ref_once : ∀ n ∈ I, ∃ s p, (s, p, bnO n) ∈ g ∧ ∀ s' p', (s', p', bnO n) ∈ g → s' = s ∧ p' = p
  ranked : ∀ n ∈ I, ∀ m ∈ I, ∀ p, (bnO m, p, bnO n) ∈ g → rank m < rank n
  bounded : ∀ n ∈ I, rank n < F

/-! ### small list facts -/

theorem drop_cons_inv {α} : ∀ (full : List α) (i : Nat) (a : α) (t : List α), full.drop i = a :: t →
    full[i]? = some a ∧ full.drop (i + 1) = t := by
  intro full
  induction full with
  | nil => intro i a t h; simp at h
  | cons x xs ih =>
    intro i a t h
    cases i with
    | zero => simp at h; obtain ⟨rfl, rfl⟩ := h; simp
    | succ k =>
      simp only [List.drop_succ_cons] at h
      obtain ⟨h1, h2⟩ := ih k a t h
      exact ⟨by simpa using h1, by simpa using h2⟩

theorem nodup_index_unique {α} : ∀ (l : List α) (i j : Nat) (a : α), l.Nodup → l[i]? = some a → l[j]? = some a → i = j := by
  intro l
  induction l with
  | nil => intro i j a _ h; simp at h
  | cons x xs ih =>
    intro i j a hnd hi hj
    have hnd' := List.nodup_cons.mp hnd
    cases i with
    | zero =>
      cases j with
      | zero => rfl
      | succ j' =>
        simp at hi hj; subst hi
        exact absurd (List.mem_of_getElem? hj) hnd'.1
    | succ i' =>
      cases j with
      | zero =>
        simp at hi hj; subst hj
        exact absurd (List.mem_of_getElem? hi) hnd'.1
      | succ j' =>
        simp at hi hj
        rw [ih i' j' a hnd'.2 hi hj]

theorem mem_index {α} : ∀ (l : List α) (a : α), a ∈ l → ∃ i : Nat, l[i]? = some a := by
  intro l a h
  obtain ⟨i, hi, rfl⟩ := List.getElem_of_mem h
  exact ⟨i, by simp [hi]⟩

theorem nodup_propsOf {g : Graph} (h : g.Nodup) (s : Term) : (propsOf g s).Nodup := by
  induction g with
  | nil => simp [propsOf]
  | cons t r ih =>
    obtain ⟨s', p, o⟩ := t
    have hnd := List.nodup_cons.mp h
    simp only [propsOf]
    split
    · next e =>
      subst e
      refine List.nodup_cons.mpr ⟨?_, ih hnd.2⟩
      intro hm; exact hnd.1 (mem_propsOf.mp hm)
    · exact ih hnd.2

theorem mem_sdedup {l : List Term} {a : Term} : a ∈ sdedup l ↔ a ∈ l := by
  induction l with
  | nil => simp [sdedup]
  | cons x t ih =>
    simp only [sdedup]
    split
    · next h =>
      simp only [List.contains_eq_mem, decide_eq_true_eq] at h
      rw [ih]; constructor
      · intro h'; exact List.mem_cons_of_mem _ h'
      · intro h'; rcases List.mem_cons.mp h' with rfl | h'
        · exact h
        · exact h'
    · simp [ih]

theorem nodup_sdedup (l : List Term) : (sdedup l).Nodup := by
  induction l with
  | nil => simp [sdedup]
  | cons x t ih =>
    simp only [sdedup]
    split
    · exact ih
    · next h =>
      simp only [List.contains_eq_mem, decide_eq_true_eq] at h
      exact List.nodup_cons.mpr ⟨fun hm => h (mem_sdedup.mp hm), ih⟩

theorem mem_top {g : Graph} {I : List Nat} {s : Term} :
    s ∈ topSubjects g I ↔ (∃ p o, (s, p, o) ∈ g) ∧ inl I s = false := by
  simp only [topSubjects, List.mem_filter, mem_sdedup, List.mem_map, Bool.not_eq_true', Prod.exists]
  constructor
  · rintro ⟨⟨a, b, c, h, rfl⟩, h2⟩; exact ⟨⟨b, c, h⟩, h2⟩
  · rintro ⟨⟨p, o, h⟩, h2⟩; exact ⟨⟨s, p, o, h, rfl⟩, h2⟩

theorem nodup_top (g : Graph) (I : List Nat) : (topSubjects g I).Nodup :=
  (nodup_sdedup _).filter _

/-! ### positions: where each subject is written -/

/-- `At g I top π s`: subject `s` is written at position `π` — a top-level statement (`[j]`), or the bracket
    that is the `i`-th object of the predicate-object list of a subject written at `π` -/
inductive At (g : Graph) (I : List Nat) (top : List Term) : List Nat → Term → Prop
  | top (j : Nat) (s : Term) : top[j]? = some s → At g I top [j] s
  | step (π : List Nat) (s : Term) (i : Nat) (p x : Term) :
      At g I top π s → (propsOf g s)[i]? = some (p, x) → inl I x = true → At g I top (i :: π) x

theorem inl_eq {I : List Nat} {x : Term} (h : inl I x = true) : ∃ n, x = bnO n ∧ n ∈ I := by
  match x, h with
  | .bn (.orig n), h => exact ⟨n, rfl, by simpa [inl] using h⟩

theorem top_not_inl {g : Graph} {I : List Nat} {j : Nat} {s : Term}
    (h : (topSubjects g I)[j]? = some s) : inl I s = false :=
  (mem_top.mp (List.mem_of_getElem? h)).2

theorem At_ne_nil {g I top π s} (h : At g I top π s) : π ≠ [] := by
  cases h <;> simp

/-- a subject is written at one position only -/
theorem At_fun {g : Graph} {I : List Nat} {F : Nat} {rank : Nat → Nat} (hp : Pre g I F rank) :
    ∀ {π π' : List Nat} {x : Term}, At g I (topSubjects g I) π x → At g I (topSubjects g I) π' x → π = π' := by
  intro π π' x h
  induction h generalizing π' with
  | top j s hj =>
    intro h'
    cases h' with
    | top j' _ hj' => rw [nodup_index_unique _ j j' s (nodup_top g I) hj hj']
    | step π₂ s₂ i₂ p₂ _ _ _ hin => rw [top_not_inl hj] at hin; exact absurd hin (by simp)
  | step π₁ s₁ i₁ p₁ x h₁ hi₁ hin₁ ih =>
    intro h'
    cases h' with
    | top j' _ hj' => rw [top_not_inl hj'] at hin₁; exact absurd hin₁ (by simp)
    | step π₂ s₂ i₂ p₂ _ h₂ hi₂ _ =>
      obtain ⟨n, rfl, hn⟩ := inl_eq hin₁
      obtain ⟨s, p, _, huniq⟩ := hp.ref_once n hn
      have m₁ := mem_propsOf.mp (List.mem_of_getElem? hi₁)
      have m₂ := mem_propsOf.mp (List.mem_of_getElem? hi₂)
      obtain ⟨rfl, rfl⟩ := huniq _ _ m₁
      obtain ⟨rfl, rfl⟩ := huniq _ _ m₂
      have := nodup_index_unique _ i₁ i₂ _ (nodup_propsOf hp.nodup _) hi₁ hi₂
      subst this
      rw [ih h₂]

open Classical in
/-- the renaming: an inlined node goes to the reader's node for the bracket that stands for it -/
noncomputable def sigma (g : Graph) (I : List Nat) : BId → BId
  | .orig n =>
    if h : n ∈ I ∧ ∃ π, At g I (topSubjects g I) π (bnO n) then .fresh (Classical.choose h.2) else .orig n
  | .fresh π => .fresh π

theorem sigma_at {g : Graph} {I : List Nat} {F : Nat} {rank : Nat → Nat} (hp : Pre g I F rank)
    {π : List Nat} {n : Nat} (hn : n ∈ I) (h : At g I (topSubjects g I) π (bnO n)) :
    sigma g I (.orig n) = .fresh π := by
  have hex : n ∈ I ∧ ∃ π, At g I (topSubjects g I) π (bnO n) := ⟨hn, π, h⟩
  simp only [sigma, hex, and_self, dif_pos]
  rw [At_fun hp (Classical.choose_spec hex.2) h]

theorem sigma_fix {g : Graph} {I : List Nat} {n : Nat} (hn : n ∉ I) : sigma g I (.orig n) = .orig n := by
  simp [sigma, hn]

theorem renameT_not_inl {g : Graph} {I : List Nat} {x : Term} (ho : origOnly x) (h : inl I x = false) :
    renameT (sigma g I) x = x := by
  match x, ho, h with
  | .iri _, _, _ => rfl
  | .lit _, _, _ => rfl
  | .bn (.fresh _), ho, _ => exact absurd ho (by simp [origOnly, origOnlyB])
  | .bn (.orig n), _, h =>
    have : n ∉ I := by simpa [inl] using h
    simp [renameT, sigma_fix this]

/-- two subjects written at the same position are the same subject -/
theorem At_inj {g : Graph} {I : List Nat} {top : List Term} :
    ∀ {π : List Nat} {x y : Term}, At g I top π x → At g I top π y → x = y := by
  intro π x y h
  induction h generalizing y with
  | top j s hj =>
    intro h'
    cases h' with
    | top _ _ hj' => rw [hj] at hj'; exact Option.some.inj hj'
    | step _ _ _ _ _ h₂ _ _ => exact absurd rfl (At_ne_nil h₂)
  | step π₁ s₁ i₁ p₁ x h₁ hi₁ _ ih =>
    intro h'
    cases h' with
    | top _ _ _ => exact absurd rfl (At_ne_nil h₁)
    | step _ s₂ _ p₂ _ h₂ hi₂ _ =>
      have := ih h₂; subst this
      rw [hi₁] at hi₂
      exact (Prod.mk.inj (Option.some.inj hi₂)).2

theorem sigma_inj {g : Graph} {I : List Nat} {F : Nat} {rank : Nat → Nat} (hp : Pre g I F rank) :
    ∀ n m, sigma g I (.orig n) = sigma g I (.orig m) → n = m := by
  intro n m h
  by_cases hn : n ∈ I ∧ ∃ π, At g I (topSubjects g I) π (bnO n)
  · by_cases hm : m ∈ I ∧ ∃ π, At g I (topSubjects g I) π (bnO m)
    · obtain ⟨hnI, π, hπ⟩ := hn
      obtain ⟨hmI, π', hπ'⟩ := hm
      rw [sigma_at hp hnI hπ, sigma_at hp hmI hπ'] at h
      have : π = π' := by injection h
      subst this
      have := At_inj hπ hπ'
      injection this with this; injection this
    · have e1 : ∃ π, sigma g I (.orig n) = .fresh π := by
        obtain ⟨hnI, π, hπ⟩ := hn; exact ⟨π, sigma_at hp hnI hπ⟩
      obtain ⟨π, e1⟩ := e1
      rw [e1] at h
      simp [sigma, hm] at h
  · by_cases hm : m ∈ I ∧ ∃ π, At g I (topSubjects g I) π (bnO m)
    · obtain ⟨hmI, π, hπ⟩ := hm
      rw [sigma_at hp hmI hπ] at h
      simp [sigma, hn] at h
    · simp [sigma, hn, hm] at h
      exact h

/-! ### what the layout emits, with the original names -/

/-- the triples written by the statement of subject `s` when objects get nesting fuel `f` -/
def emitS (g : Graph) (I : List Nat) : Nat → Term → List Triple
  | 0, s => (propsOf g s).flatMap (fun po => [(s, po.1, po.2)])
  | f + 1, s =>
    (propsOf g s).flatMap (fun po => (s, po.1, po.2) :: (if inl I po.2 then emitS g I f po.2 else []))

def one (g : Graph) (I : List Nat) (f : Nat) (s : Term) (po : Term × Term) : List Triple :=
  match f with
  | 0 => [(s, po.1, po.2)]
  | f' + 1 => (s, po.1, po.2) :: (if inl I po.2 then emitS g I f' po.2 else [])

theorem emitS_eq (g : Graph) (I : List Nat) (f : Nat) (s : Term) :
    emitS g I f s = (propsOf g s).flatMap (one g I f s) := by
  cases f <;> rfl

theorem denProps_nil (S : Term) (π : List Nat) (i : Nat) : denProps S π i [] = [] := by
  rw [denProps]

theorem denProps_cons (S : Term) (π : List Nat) (i : Nat) (p : Term) (o : Obj) (rest : List (Term × Obj)) :
    denProps S π i ((p, o) :: rest) =
      (S, p, (denObj (i :: π) o).1) :: ((denObj (i :: π) o).2 ++ denProps S π (i + 1) rest) := by
  rw [denProps]

theorem denObj_t (π : List Nat) (x : Term) : denObj π (.t x) = (x, []) := by rw [denObj]

theorem denObj_anon (π : List Nat) (n : Nat) (ps : List (Term × Obj)) :
    denObj π (.anon n ps) = (.bn (.fresh π), denProps (.bn (.fresh π)) π 0 ps) := by rw [denObj]

/-- K: the predicate-object list of a subject written at position `π`, as the reader sees it, is the emitted
    triples under the renaming -/
theorem renameTr_iri (σ : BId → BId) (s o : Term) (k : Nat) :
    renameTr σ (s, .iri k, o) = (renameT σ s, .iri k, renameT σ o) := rfl

theorem denProps_emit {g : Graph} {I : List Nat} {F : Nat} {rank : Nat → Nat} (hp : Pre g I F rank) :
    ∀ (f : Nat) (s : Term) (π : List Nat) (S : Term),
      At g I (topSubjects g I) π s → renameT (sigma g I) s = S →
      (∀ n ∈ I, ∀ p, (s, p, bnO n) ∈ g → F ≤ f + rank n) →
      ∀ (ps : List (Term × Term)) (i : Nat), (propsOf g s).drop i = ps →
        denProps S π i (ps.map (fun po => (po.1, emitObj g I f po.2))) =
          (ps.flatMap (one g I f s)).map (renameTr (sigma g I)) := by
  intro f
  induction f with
  | zero =>
    intro s π S hAt hS hfuel ps
    induction ps with
    | nil => intro i _; simp [denProps_nil]
    | cons po ps' ih =>
      intro i hdrop
      obtain ⟨hi, hdrop'⟩ := drop_cons_inv _ _ _ _ hdrop
      obtain ⟨p, o⟩ := po
      have hmem : (s, p, o) ∈ g := mem_propsOf.mp (List.mem_of_getElem? hi)
      have hninl : inl I o = false := by
        cases h : inl I o with
        | false => rfl
        | true =>
          obtain ⟨n, rfl, hn⟩ := inl_eq h
          have h1 := hfuel n hn p hmem
          have h2 := hp.bounded n hn
          omega
      obtain ⟨k, hk⟩ := hp.pred_iri _ hmem
      simp only at hk; subst hk
      have ho : renameT (sigma g I) o = o := renameT_not_inl (hp.orig_only _ hmem).2 hninl
      have e0 : emitObj g I 0 o = .t o := rfl
      have e1 : one g I 0 s (.iri k, o) = [(s, .iri k, o)] := rfl
      rw [List.map_cons, denProps_cons, List.flatMap_cons, ih (i + 1) hdrop']
      simp only [e0, e1, denObj_t, List.nil_append, List.cons_append, List.map_cons, renameTr_iri, hS, ho]
  | succ f ihf =>
    intro s π S hAt hS hfuel ps
    induction ps with
    | nil => intro i _; simp [denProps_nil]
    | cons po ps' ih =>
      intro i hdrop
      obtain ⟨hi, hdrop'⟩ := drop_cons_inv _ _ _ _ hdrop
      obtain ⟨p, o⟩ := po
      have hmem : (s, p, o) ∈ g := mem_propsOf.mp (List.mem_of_getElem? hi)
      obtain ⟨k, hk⟩ := hp.pred_iri _ hmem
      simp only at hk; subst hk
      rw [List.map_cons, denProps_cons, List.flatMap_cons, ih (i + 1) hdrop']
      cases hin : inl I o with
      | false =>
        have ho : renameT (sigma g I) o = o := renameT_not_inl (hp.orig_only _ hmem).2 hin
        have e0 : emitObj g I (f + 1) o = .t o := by simp [emitObj, hin]
        have e1 : one g I (f + 1) s (.iri k, o) = [(s, .iri k, o)] := by simp [one, hin]
        simp only [e0, e1, denObj_t, List.nil_append, List.cons_append, List.map_cons,
          renameTr_iri, hS, ho]
      | true =>
        obtain ⟨n, rfl, hn⟩ := inl_eq hin
        have hAt' : At g I (topSubjects g I) (i :: π) (bnO n) := At.step π s i _ _ hAt hi hin
        have hσ : sigma g I (.orig n) = .fresh (i :: π) := sigma_at hp hn hAt'
        have hfuel' : ∀ n' ∈ I, ∀ p', (bnO n, p', bnO n') ∈ g → F ≤ f + rank n' := by
          intro n' hn' p' hm'
          have h1 := hfuel n hn _ hmem
          have h2 := hp.ranked n' hn' n hn p' hm'
          omega
        have hren : renameT (sigma g I) (bnO n) = .bn (.fresh (i :: π)) := by
          show Term.bn (sigma g I (.orig n)) = _
          rw [hσ]
        have hrec := ihf (bnO n) (i :: π) (.bn (.fresh (i :: π))) hAt' hren hfuel'
          (propsOf g (bnO n)) 0 (by simp)
        have e0 : emitObj g I (f + 1) (bnO n) =
            .anon n ((propsOf g (bnO n)).map (fun po => (po.1, emitObj g I f po.2))) := by
          simp [emitObj, hin, origId, bnO]
        have e1 : one g I (f + 1) s (.iri k, bnO n) = (s, .iri k, bnO n) :: emitS g I f (bnO n) := by
          simp [one, hin]
        rw [e0, e1, denObj_anon, hrec, ← emitS_eq]
        simp only [List.cons_append, List.map_cons, List.map_append, renameTr_iri, hS, hren]

theorem denStmts_layout {g : Graph} {I : List Nat} {F : Nat} {rank : Nat → Nat} (hp : Pre g I F rank) :
    ∀ (tops : List Term) (j : Nat), (topSubjects g I).drop j = tops →
      denStmts j (tops.map (fun s => (s, (propsOf g s).map (fun po => (po.1, emitObj g I F po.2))))) =
        (tops.flatMap (emitS g I F)).map (renameTr (sigma g I)) := by
  intro tops
  induction tops with
  | nil => intro j _; simp [denStmts]
  | cons s tops' ih =>
    intro j hdrop
    obtain ⟨hj, hdrop'⟩ := drop_cons_inv _ _ _ _ hdrop
    have hninl := top_not_inl hj
    obtain ⟨⟨p, o, hmem⟩, _⟩ := mem_top.mp (List.mem_of_getElem? hj)
    have hs : renameT (sigma g I) s = s := renameT_not_inl (hp.orig_only _ hmem).1 hninl
    have hK := denProps_emit hp F s [j] s (At.top j s hj) hs (by intro n _ _ _; omega) (propsOf g s) 0 (by simp)
    simp only [List.map_cons, denStmts, List.flatMap_cons, List.map_append]
    rw [hK, ← emitS_eq, ih (j + 1) hdrop']

/-! ### nothing lost, nothing added -/

theorem emitS_sub {g : Graph} {I : List Nat} : ∀ (f : Nat) (s : Term) (t : Triple), t ∈ emitS g I f s → t ∈ g := by
  intro f
  induction f with
  | zero =>
    intro s t h
    simp only [emitS, List.mem_flatMap, List.mem_singleton] at h
    obtain ⟨po, hpo, rfl⟩ := h
    exact mem_propsOf.mp hpo
  | succ f ih =>
    intro s t h
    simp only [emitS, List.mem_flatMap, List.mem_cons] at h
    obtain ⟨po, hpo, h | h⟩ := h
    · subst h; exact mem_propsOf.mp hpo
    · split at h
      · exact ih _ _ h
      · simp at h

theorem emitS_self {g : Graph} {I : List Nat} (f : Nat) {s p o : Term} (h : (s, p, o) ∈ g) :
    (s, p, o) ∈ emitS g I f s := by
  have hpo := mem_propsOf.mpr h
  cases f with
  | zero => simp only [emitS, List.mem_flatMap, List.mem_singleton]; exact ⟨(p, o), hpo, rfl⟩
  | succ f => simp only [emitS, List.mem_flatMap, List.mem_cons]; exact ⟨(p, o), hpo, Or.inl rfl⟩

theorem emitS_child {g : Graph} {I : List Nat} (f : Nat) {s p x : Term} (h : (s, p, x) ∈ g) (hin : inl I x = true)
    (t : Triple) (ht : t ∈ emitS g I f x) : t ∈ emitS g I (f + 1) s := by
  simp only [emitS, List.mem_flatMap, List.mem_cons]
  exact ⟨(p, x), mem_propsOf.mpr h, Or.inr (by simp [hin, ht])⟩

theorem emitS_mono1 {g : Graph} {I : List Nat} : ∀ (f : Nat) (s : Term) (t : Triple),
    t ∈ emitS g I f s → t ∈ emitS g I (f + 1) s := by
  intro f
  induction f with
  | zero =>
    intro s t h
    simp only [emitS, List.mem_flatMap, List.mem_singleton] at h
    obtain ⟨po, hpo, rfl⟩ := h
    exact emitS_self 1 (mem_propsOf.mp hpo)
  | succ f ih =>
    intro s t h
    simp only [emitS, List.mem_flatMap, List.mem_cons] at h
    obtain ⟨po, hpo, h | h⟩ := h
    · subst h; exact emitS_self _ (mem_propsOf.mp hpo)
    · split at h
      · next hin => exact emitS_child (f + 1) (mem_propsOf.mp hpo) hin t (ih _ _ h)
      · simp at h

theorem emitS_mono {g : Graph} {I : List Nat} {f f' : Nat} (hle : f' ≤ f) (s : Term) (t : Triple)
    (h : t ∈ emitS g I f' s) : t ∈ emitS g I f s := by
  induction hle with
  | refl => exact h
  | step _ ih => exact emitS_mono1 _ _ _ ih

theorem At_emit {g : Graph} {I : List Nat} {π : List Nat} {x : Term}
    (h : At g I (topSubjects g I) π x) :
    ∀ f' f, f' + π.length ≤ f + 1 → ∃ s0 ∈ topSubjects g I, ∀ t, t ∈ emitS g I f' x → t ∈ emitS g I f s0 := by
  induction h with
  | top j s hj =>
    intro f' f hle
    exact ⟨s, List.mem_of_getElem? hj, fun t ht => emitS_mono (by simp at hle; omega) s t ht⟩
  | step π s i p x _ hi hin ih =>
    intro f' f hle
    obtain ⟨s0, hs0, hsub⟩ := ih (f' + 1) f (by simp at hle; omega)
    exact ⟨s0, hs0, fun t ht => hsub t (emitS_child f' (mem_propsOf.mp (List.mem_of_getElem? hi)) hin t ht)⟩

/-- every inlined node is written somewhere, at a nesting depth bounded by its rank -/
theorem At_exists {g : Graph} {I : List Nat} {F : Nat} {rank : Nat → Nat} (hp : Pre g I F rank) :
    ∀ (r : Nat), ∀ n ∈ I, rank n ≤ r → ∃ π, At g I (topSubjects g I) π (bnO n) ∧ π.length ≤ rank n + 2 := by
  intro r
  induction r with
  | zero =>
    intro n hn hr
    obtain ⟨s, p, hmem, _⟩ := hp.ref_once n hn
    obtain ⟨i, hi⟩ := mem_index _ _ (mem_propsOf.mpr hmem)
    have hinn : inl I (bnO n) = true := by simp [inl, hn]
    cases hin : inl I s with
    | true =>
      obtain ⟨m, rfl, hm⟩ := inl_eq hin
      have := hp.ranked n hn m hm p hmem
      omega
    | false =>
      obtain ⟨j, hj⟩ := mem_index _ _ (mem_top.mpr ⟨⟨p, _, hmem⟩, hin⟩)
      exact ⟨[i, j], At.step _ _ _ _ _ (At.top j s hj) hi hinn, by simp⟩
  | succ r ih =>
    intro n hn hr
    obtain ⟨s, p, hmem, _⟩ := hp.ref_once n hn
    obtain ⟨i, hi⟩ := mem_index _ _ (mem_propsOf.mpr hmem)
    have hinn : inl I (bnO n) = true := by simp [inl, hn]
    cases hin : inl I s with
    | true =>
      obtain ⟨m, rfl, hm⟩ := inl_eq hin
      have hlt := hp.ranked n hn m hm p hmem
      obtain ⟨π, hπ, hlen⟩ := ih m hm (by omega)
      exact ⟨i :: π, At.step _ _ _ _ _ hπ hi hinn, by simp; omega⟩
    | false =>
      obtain ⟨j, hj⟩ := mem_index _ _ (mem_top.mpr ⟨⟨p, _, hmem⟩, hin⟩)
      exact ⟨[i, j], At.step _ _ _ _ _ (At.top j s hj) hi hinn, by simp⟩

theorem emit_all_iff {g : Graph} {I : List Nat} {F : Nat} {rank : Nat → Nat} (hp : Pre g I F rank) (t : Triple) :
    t ∈ (topSubjects g I).flatMap (emitS g I F) ↔ t ∈ g := by
  constructor
  · intro h
    obtain ⟨s, _, hs⟩ := List.mem_flatMap.mp h
    exact emitS_sub _ _ _ hs
  · intro h
    obtain ⟨s, p, o⟩ := t
    cases hin : inl I s with
    | false =>
      exact List.mem_flatMap.mpr ⟨s, mem_top.mpr ⟨⟨p, o, h⟩, hin⟩, emitS_self F h⟩
    | true =>
      obtain ⟨n, rfl, hn⟩ := inl_eq hin
      obtain ⟨π, hπ, hlen⟩ := At_exists hp (rank n) n hn (Nat.le_refl _)
      have hb := hp.bounded n hn
      obtain ⟨s0, hs0, hsub⟩ := At_emit hπ 0 F (by omega)
      exact List.mem_flatMap.mpr ⟨s0, hs0, hsub _ (emitS_self 0 h)⟩

theorem layout_roundtrip' {g : Graph} {I : List Nat} {F : Nat} {rank : Nat → Nat} (hp : Pre g I F rank) :
    Iso g (denote (layout g I F)) := by
  refine ⟨sigma g I, sigma_inj hp, ?_⟩
  intro t
  have hden : denote (layout g I F) = ((topSubjects g I).flatMap (emitS g I F)).map (renameTr (sigma g I)) := by
    unfold denote layout
    exact denStmts_layout hp (topSubjects g I) 0 (by simp)
  rw [hden, List.mem_map]
  constructor
  · rintro ⟨t', ht', rfl⟩; exact ⟨t', (emit_all_iff hp t').mp ht', rfl⟩
  · rintro ⟨t', ht', rfl⟩; exact ⟨t', (emit_all_iff hp t').mpr ht', rfl⟩

/-! ### `( … )` is exact sugar for nested brackets -/

theorem denItems_nil (π : List Nat) : denItems π [] = (rdfNil, []) := by rw [denItems]

theorem denItems_cons (π : List Nat) (o : Obj) (rest : List Obj) :
    denItems π (o :: rest) =
      ((.bn (.fresh π)),
       ((.bn (.fresh π)), rdfFirst, (denObj (0 :: π) o).1) :: ((denObj (0 :: π) o).2 ++
         (((.bn (.fresh π)), rdfRest, (denItems (1 :: π) rest).1) :: ((denItems (1 :: π) rest).2 ++ [])))) := by
  rw [denItems]

theorem denObj_coll (π : List Nat) (items : List Obj) : denObj π (.coll items) = denItems π items := by
  rw [denObj]

theorem coll_is_sugar' : ∀ (items : List Obj) (π : List Nat), denObj π (.coll items) = denObj π (desugar items) := by
  intro items
  induction items with
  | nil => intro π; rw [denObj_coll, denItems_nil, desugar, denObj_t]
  | cons o rest ih =>
    intro π
    have ih' := ih (1 :: π)
    rw [denObj_coll] at ih'
    rw [denObj_coll, denItems_cons, desugar, denObj_anon, denProps_cons, denProps_cons, denProps_nil, ih']

end RV.C03
