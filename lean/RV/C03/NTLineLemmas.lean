import RV.C03.MapLemmas
/-
  C03 — a whole N-Triples line written by `_nt_row` parses back to the same triple.
-/
namespace RV.C03

def IriWf (s : Str) : Prop := s.all iriChar = true
def LabelWf (l : Str) : Prop := ∃ c r, l = c :: r ∧ labelStart c = true ∧ r.all labelChar = true
def LangWf (l : Str) : Prop := langOk l = true

/-- subjects (and predicates): IRIs without characters that `URIRef.n3` refuses, plain blank-node labels -/
def NodeWf : NTerm → Prop
  | .iri s => IriWf s
  | .bnode l => LabelWf l
  | .lit _ _ _ => False

/-- objects: additionally literals with any lexical form, a well-formed datatype IRI or language tag, not both -/
def ObjWf : NTerm → Prop
  | .iri s => IriWf s
  | .bnode l => LabelWf l
  | .lit _ (some d) none => IriWf d
  | .lit _ none (some l) => LangWf l
  | .lit _ none none => True
  | .lit _ (some _) (some _) => False

theorem scanIriBody_ok : ∀ (s rest : Str), s.all iriChar = true → scanIriBody (s ++ '>' :: rest) = some (s, rest) := by
  intro s
  induction s with
  | nil => intro rest _; simp [scanIriBody]
  | cons c t ih =>
    intro rest h
    simp only [List.all_cons, Bool.and_eq_true] at h
    have hc : c ≠ '>' := by
      intro e; subst e; exact absurd h.1 (by decide)
    simp only [List.cons_append, scanIriBody, hc, if_false, h.1, if_true, ih rest h.2]

theorem spanP_ok (p : Char → Bool) : ∀ (l : Str) (c : Char) (rest : Str), l.all p = true → p c = false →
    spanP p (l ++ c :: rest) = (l, c :: rest) := by
  intro l
  induction l with
  | nil => intro c rest _ hc; simp [spanP, hc]
  | cons a t ih =>
    intro c rest h hc
    simp only [List.all_cons, Bool.and_eq_true] at h
    simp only [List.cons_append, spanP, h.1, if_true, ih c rest h.2 hc]

theorem scanNode_ok (n : NTerm) (rest : Str) (h : NodeWf n) :
    scanNode (ntTerm n ++ ' ' :: rest) = some (n, ' ' :: rest) := by
  match n, h with
  | .iri s, h =>
    simp only [ntTerm, List.cons_append, List.append_assoc, List.nil_append, scanNode, scanIriBody_ok s _ h]
  | .bnode l, ⟨c, r, hl, hc, hr⟩ =>
    subst hl
    have hall : (c :: r).all labelChar = true := by
      simp only [List.all_cons, Bool.and_eq_true]
      refine ⟨?_, hr⟩
      simp only [labelStart, Bool.or_eq_true] at hc
      simp only [labelChar, Bool.or_eq_true]
      rcases hc with hc | hc
      · exact Or.inl (Or.inl hc)
      · exact Or.inl (Or.inr hc)
    have hsp := spanP_ok labelChar (c :: r) ' ' rest hall (by decide)
    simp only [ntTerm, List.cons_append, scanNode, hc, if_true]
    simp only [List.cons_append] at hsp
    rw [hsp]

/-- the text of a literal: `"` escaped-content `"` then the suffix -/
theorem lit_text (lex suffix : Str) :
    ntQuoteEncode lex ++ suffix = '"' :: (lex.flatMap (escOf Tables.ntMap) ++ dq :: suffix) := by
  unfold ntQuoteEncode
  simp only [List.cons_append, List.append_assoc, List.nil_append]
  rfl

theorem scanObj_lit (lex rest : Str) :
    scanObj ('"' :: (lex.flatMap (escOf Tables.ntMap) ++ dq :: rest)) =
      (match rest with
       | '^' :: '^' :: '<' :: r2 =>
         match scanIriBody r2 with
         | some (dt, rest2) => some (.lit lex (some dt) none, rest2)
         | none => none
       | '@' :: r2 =>
         if langOk (spanP langChar r2).1 then some (.lit lex none (some (spanP langChar r2).1), (spanP langChar r2).2)
         else none
       | _ => some (.lit lex none none, rest)) := by
  simp only [scanObj, map_rest_roundtrip ntMap_ok (by decide) (by decide) (by decide) (by decide) rest lex]
  rfl

theorem scanObj_ok (o : NTerm) (rest : Str) (h : ObjWf o) :
    scanObj (ntTerm o ++ ' ' :: rest) = some (o, ' ' :: rest) := by
  match o, h with
  | .iri s, h =>
    have := scanNode_ok (.iri s) rest h
    simp only [ntTerm, List.cons_append] at this ⊢
    simp only [scanObj]
    exact this
  | .bnode l, h =>
    have := scanNode_ok (.bnode l) rest h
    simp only [ntTerm, List.cons_append] at this ⊢
    simp only [scanObj]
    exact this
  | .lit lex none none, _ =>
    simp only [ntTerm]
    rw [lit_text, scanObj_lit]
    simp
  | .lit lex (some d) none, h =>
    simp only [ObjWf] at h
    simp only [ntTerm, List.append_assoc]
    rw [lit_text, scanObj_lit]
    simp only [List.cons_append, List.append_assoc, List.nil_append, scanIriBody_ok d _ h]
  | .lit lex none (some l), h =>
    simp only [ObjWf] at h
    simp only [ntTerm, List.append_assoc]
    rw [lit_text, scanObj_lit]
    have hall : l.all langChar = true := by
      unfold LangWf langOk at h
      split at h
      · simp at h
      · simp only [Bool.and_eq_true] at h; exact h.1.2
    have hsp := spanP_ok langChar l ' ' rest hall (by decide)
    simp only [List.cons_append, hsp]
    rw [show langOk l = true from h]
    simp

theorem skipWs_space (x : Str) : skipWs (' ' :: x) = skipWs x := by simp [skipWs]

theorem skipWs_nonws (c : Char) (x : Str) (h1 : c ≠ ' ') (h2 : c ≠ '\t') : skipWs (c :: x) = c :: x := by
  simp [skipWs, h1, h2]

/-- every term text starts with `<`, `_` or `"` -/
theorem ntTerm_head (n : NTerm) (tail : Str) : ∃ c x, ntTerm n ++ tail = c :: x ∧ c ≠ ' ' ∧ c ≠ '\t' := by
  match n with
  | .iri s => exact ⟨'<', s ++ ['>'] ++ tail, by simp [ntTerm], by decide, by decide⟩
  | .bnode l => exact ⟨'_', ':' :: l ++ tail, by simp [ntTerm], by decide, by decide⟩
  | .lit lex none none => exact ⟨'"', _, by rw [ntTerm, lit_text], by decide, by decide⟩
  | .lit lex (some d) none =>
    exact ⟨'"', _, by rw [ntTerm, List.append_assoc, lit_text], by decide, by decide⟩
  | .lit lex none (some l) =>
    exact ⟨'"', _, by rw [ntTerm, List.append_assoc, lit_text], by decide, by decide⟩
  | .lit lex (some d) (some l) =>
    exact ⟨'"', _, by rw [ntTerm, List.append_assoc, lit_text], by decide, by decide⟩

theorem skipWs_term (n : NTerm) (tail : Str) : skipWs (ntTerm n ++ tail) = ntTerm n ++ tail := by
  obtain ⟨c, x, e, h1, h2⟩ := ntTerm_head n tail
  rw [e]; exact skipWs_nonws c x h1 h2

theorem nt_line_roundtrip' (s : NTerm) (p : Str) (o : NTerm) (hs : NodeWf s) (hp : IriWf p) (ho : ObjWf o) :
    parseLine (ntRow s (.iri p) o) = some (s, .iri p, o) := by
  unfold parseLine ntRow
  rw [skipWs_term, scanNode_ok s _ hs]
  simp only [skipWs_space]
  rw [skipWs_term, scanNode_ok (.iri p) _ hp]
  simp only [skipWs_space]
  rw [skipWs_term, scanObj_ok o _ ho]
  simp [skipWs]

end RV.C03
