import RV.C03.Codec
/-
  C03 — executable model (re-exports the layers; see Codec.lean, Struct.lean).
-/
