import RV.C03.Codec
import RV.C03.Struct
import RV.C03.Choice
import RV.C03.NTLine
import RV.C03.NTDoc
import RV.C03.RefSplit
import RV.C03.XmlTree
/-
  C03 — executable model (re-exports the layers; see Codec.lean, Struct.lean).
-/
