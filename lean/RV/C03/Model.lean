import RV.C03.Codec
import RV.C03.Struct
/-
  C03 — executable model (re-exports the layers; see Codec.lean, Struct.lean).
-/
