import RV.C03.Codec
import RV.C03.Struct
import RV.C03.NTLine
/-
  C03 — executable model (re-exports the layers; see Codec.lean, Struct.lean).
-/
