import RV.C03.NTLine
import RV.C03.RefSplit
/-
  C03 — RDF/XML, element level: the `xml` serializer (`rdfxml.py:XMLSerializer.serialize / subject / predicate`).

  The document as an XML parser hands it over (expanded element names, decoded attribute values and character
  data — the character/attribute codecs `quoteattr` / `escape` are below this level):
    rdf:RDF
      rdf:Description  rdf:about=IRI-reference | rdf:nodeID=label          one per distinct subject (`__serialized`)
        <predicate>    rdf:resource=IRI-reference | rdf:nodeID=label        one per (predicate, object) of the subject
                       | [xml:lang=tag] [rdf:datatype=IRI] + character data (literal)
  An element name is the predicate IRI (namespace name ++ local name; how it is split is `compute_qname_strict`,
  not modelled).  IRI references are cut short against the base by `Serializer.relativize` (`strippable`, RefSplit.lean).
  Reader: RDF/XML §7.2.11 (nodeElement), §7.2.14–16 (resource / literal / empty property elements) on that shape.
-/
namespace RV.C03

inductive XKey
  | about | nodeID | resource | datatype | lang
  deriving DecidableEq, Repr

/-- a property element: name, attributes, character data -/
structure XProp where
  tag : Str
  attrs : List (XKey × Str)
  text : Str
  deriving DecidableEq, Repr

/-- an `rdf:Description` element -/
structure XSubj where
  attrs : List (XKey × Str)
  props : List XProp
  deriving DecidableEq, Repr

abbrev XDoc := List XSubj

/-- subject, predicate IRI, object -/
abbrev XTriple := NTerm × Str × NTerm

/-- `Serializer.relativize`: `uri.replace(base, "", 1)` when `_strippable_base(base, uri)` (it starts with the base) -/
def cutRef (base : Option Str) (uri : Str) : Str :=
  match base with
  | none => uri
  | some b => if strippable b uri then uri.drop b.length else uri

/-- `XMLSerializer.subject`: the attribute that names the node; nothing is written for any other kind of subject -/
def subjAttrs (base : Option Str) : NTerm → List (XKey × Str)
  | .bnode l => [(.nodeID, l)]
  | .iri u => [(.about, cutRef base u)]
  | .lit _ _ _ => []

def optAttr (k : XKey) : Option Str → List (XKey × Str)
  | some v => [(k, v)]
  | none => []

/-- `XMLSerializer.predicate` -/
def propEl (base : Option Str) (p : Str) : NTerm → XProp
  | .lit lex dt lang => ⟨p, optAttr .lang lang ++ optAttr .datatype dt, lex⟩
  | .bnode l => ⟨p, [(.nodeID, l)], []⟩
  | .iri u => ⟨p, [(.resource, cutRef base u)], []⟩

/-- first occurrences, in order (`if subject not in self.__serialized`) -/
def firstOcc : List NTerm → List NTerm
  | [] => []
  | a :: t => a :: (firstOcc t).filter (fun x => !(x == a))

def isNode : NTerm → Bool
  | .lit _ _ _ => false
  | _ => true

/-- the loop of `serialize`: one element per distinct subject, holding `predicate_objects(subject)` -/
def xmlTree (base : Option Str) (g : List XTriple) : XDoc :=
  ((firstOcc (g.map (·.1))).filter isNode).map (fun s =>
    ⟨subjAttrs base s, (g.filter (fun t => t.1 == s)).map (fun t => propEl base t.2.1 t.2.2)⟩)

/-- The head of `XMLSerializer.serialize` (same in `PrettyXMLSerializer.serialize`): which xml:base the document DECLARES
    and against which base `relativize` CUTS.  `self.base = base if base is not None else self.store.base`; if the
    `xml_base` option is given and differs, `self.base = None`; declared: the option if given, else `self.base` if truthy. -/
def xmlBases (baseArg storeBase xmlBaseOpt : Option Str) : Option Str × Option Str :=
  let b := match baseArg with
    | some x => some x
    | none => storeBase
  let cut := match xmlBaseOpt with
    | some x => if some x = b then b else none
    | none => b
  let declared := match xmlBaseOpt with
    | some x => some x
    | none => match cut with
      | some c => if c.isEmpty then none else some c
      | none => none
  (declared, cut)

/-- before the repairs C03-F41 / F42: `relativize` used `self.base` whatever the option said -/
def xmlBasesOld (baseArg storeBase xmlBaseOpt : Option Str) : Option Str × Option Str :=
  let b := match baseArg with
    | some x => some x
    | none => storeBase
  (match xmlBaseOpt with
    | some x => some x
    | none => match b with
      | some c => if c.isEmpty then none else some c
      | none => none, b)

/-- the whole document: declared xml:base and the rdf:Description elements -/
def xmlDocument (baseArg storeBase xmlBaseOpt : Option Str) (g : List XTriple) : Option Str × XDoc :=
  ((xmlBases baseArg storeBase xmlBaseOpt).1, xmlTree (xmlBases baseArg storeBase xmlBaseOpt).2 g)

/-! ### reader -/

def xlookup (k : XKey) : List (XKey × Str) → Option Str
  | [] => none
  | (k', v) :: r => if k' = k then some v else xlookup k r

/-- nodeElement: rdf:about (resolved against the base by `res`) or rdf:nodeID; neither: a fresh node — `none` here,
    the writer never does that -/
def readSubj (res : Str → Str) (attrs : List (XKey × Str)) : Option NTerm :=
  match xlookup .about attrs with
  | some v => some (.iri (res v))
  | none =>
    match xlookup .nodeID attrs with
    | some l => some (.bnode l)
    | none => none

/-- property element: rdf:resource → IRI, rdf:nodeID → blank node, else a literal of the character data -/
def readObj (res : Str → Str) (p : XProp) : NTerm :=
  match xlookup .resource p.attrs with
  | some v => .iri (res v)
  | none =>
    match xlookup .nodeID p.attrs with
    | some l => .bnode l
    | none => .lit p.text (xlookup .datatype p.attrs) (xlookup .lang p.attrs)

def readTree (res : Str → Str) (d : XDoc) : List XTriple :=
  d.flatMap (fun s =>
    match readSubj res s.attrs with
    | some n => s.props.map (fun p => (n, p.tag, readObj res p))
    | none => [])

end RV.C03
