import RV.C03.Model
import RV.Base.Proto
/-
  C03 driver.  Strings cross the protocol as comma-separated code points (`-` = empty string).
    ntenc S            -> code points of nt._quote_encode(S)            (model of the writer)
    ntdec T            -> some S | none     W3C N-Triples STRING_LITERAL_QUOTE applied to the whole text T
    tenc S             -> code points of Literal._quote_encode(S)       (model of the writer)
    tdec T             -> some S | none     W3C Turtle String (4 quotings) applied to the whole text T
    relex T            -> integer | decimal | double | boolean | none   W3C Turtle token grammar
    ptoken K S         -> some T | none     `_literal_n3(use_plain=True)` text for kind K (none: external float formatting)
    plain K S T1 N1 [T2 N2]  -> plain T | quoted     `_literal_label`'s choice among candidates (token, normalised)
  N-Triples lines; terms as  i:IRI | b:LABEL | l:LEX:DT|*:LANG|*  (code points):
    ntparse LINE       -> ok S P O | none        the W3C line grammar applied to a line rdflib wrote
    ntrow S P O        -> code points of the line the writer model (`_nt_row`) produces
    xmltree BASEARG|* STOREBASE|* XMLBASEOPT|* S P O S P O …  -> `R DECLARED|*` (the xml:base the document declares, `xmlBases`)
                          and the element tree of the `xml` serializer model (`xmlDocument`): blocks joined by ` | `,
                          block = `S ATTRS` then ` P TAG ATTRS TEXT` per property element; ATTRS = `key=cps;…` or `-`
                          (keys about, nodeID, resource, datatype, lang); terms as for ntrow
    ntdoc TEXT         -> ok N S P O S P O … | none   the whole document through the model reader (`readDoc`): line grammar
                          per line, labels through the per-document table; blank nodes come back as b:<creation number>
  Base relativisation (code points):
    strip BASE IRI     -> rel | abs      `_strippable_base` (Serializer.relativize: RDF/XML writers)
    stript BASE IRI    -> rel | abs      `RecursiveSerializer.relativize` (turtle, longturtle, n3)
  Terms of graphs: i<n> (IRI; i0 = rdf:first, i1 = rdf:rest, i2 = rdf:nil), l<n> (literal), b<n> (blank node).
    vl H s p o s p o …       -> true | false | nofuel   `isValidList(H)` on the graph, nothing serialized yet
    pre h1,h2,… s p o …      -> ok | bad                decidable `Pre`: may exactly these blank nodes go unlabelled?
    choice ORD s p o …       -> H <b…> T <tok…> [NOFUEL]  the recursive writer's own choice (`choice`): H = the blank nodes
                                 written without a label (hidden in object position or `[]` subjects), ascending; T = the
                                 top-level statements in the order written: i (an IRI subject), b<n> (labelled), a (`[]`).
                                 i3 = rdf:type, i4 = rdfs:Class; ORD = comma list, ORD[n] = place of IRI n in rdflib's
                                 order on IRIs (`-` = by number); blank nodes are numbered in rdflib's order.
  HexTuples object columns (value, datatype, language); `*` = absent:
    hext i IRI | hext b LABEL | hext l LEX DT|* LANG|*   -> V D L          the row the writer model produces
    hextp V D L        -> i IRI | b LABEL | l LEX DT|* LANG|*   the reader model, normalised by the RDF 1.1
                                                                 identification simple literal = xsd:string
-/
open RV RV.C03 RV.Proto

def cps? (w : String) : Option Str :=
  if w = "-" then some []
  else (w.splitOn ",").mapM (fun x => x.toNat?.map Char.ofNat)

def showCps (s : Str) : String :=
  if s.isEmpty then "-" else ",".intercalate (s.map (fun c => toString c.toNat))

def showOpt : Option Str → String
  | some s => "some " ++ showCps s
  | none => "none"

def kind? (w : String) : Option NumKind :=
  if w = "integer" then some .integer else if w = "decimal" then some .decimal
  else if w = "double" then some .double else if w = "boolean" then some .boolean else none

def showKind : Option NumKind → String
  | some .integer => "integer" | some .decimal => "decimal" | some .double => "double"
  | some .boolean => "boolean" | none => "none"

def pairs? : List String → Option (List (Str × Str))
  | [] => some []
  | a :: b :: rest => do
    let x ← cps? a; let y ← cps? b; let r ← pairs? rest
    pure ((x, y) :: r)
  | _ => none

def term? (w : String) : Option Term :=
  match w.toList with
  | 'i' :: r => (String.ofList r).toNat?.map Term.iri
  | 'l' :: r => (String.ofList r).toNat?.map Term.lit
  | 'b' :: r => (String.ofList r).toNat?.map (fun n => Term.bn (.orig n))
  | _ => none

def triples? : List String → Option Graph
  | [] => some []
  | a :: b :: c :: rest => do
    let x ← term? a; let y ← term? b; let z ← term? c; let r ← triples? rest
    pure ((x, y, z) :: r)
  | _ => none

def terms? (w : String) : Option (List Term) :=
  if w = "-" then some [] else (w.splitOn ",").mapM term?

def optCps? (w : String) : Option (Option Str) :=
  if w = "*" then some none else (cps? w).map some

def showOptCps : Option Str → String
  | some s => showCps s
  | none => "*"

def showHTerm : HTerm → String
  | .iri i => "i " ++ showCps i
  | .bnode b => "b " ++ showCps b
  | .lit lex dt lang => "l " ++ showCps lex ++ " " ++ showOptCps dt ++ " " ++ showOptCps lang

def showRow (r : S × S × S) : String := showCps r.1 ++ " " ++ showCps r.2.1 ++ " " ++ showCps r.2.2

def nterm? (w : String) : Option NTerm :=
  match w.splitOn ":" with
  | ["i", a] => (cps? a).map NTerm.iri
  | ["b", a] => (cps? a).map NTerm.bnode
  | ["l", a, d, l] => do
    let x ← cps? a; let d ← optCps? d; let l ← optCps? l
    pure (NTerm.lit x d l)
  | _ => none

def showNTerm : NTerm → String
  | .iri i => "i:" ++ showCps i
  | .bnode b => "b:" ++ showCps b
  | .lit lex dt lang => "l:" ++ showCps lex ++ ":" ++ showOptCps dt ++ ":" ++ showOptCps lang

def step (s : Unit) : List String → Unit × String
  | ["ntenc", a] => match cps? a with
    | some x => (s, showCps (ntQuoteEncode x)) | none => (s, "bad-op")
  | ["ntdec", a] => match cps? a with
    | some x => (s, showOpt (decodeNT x)) | none => (s, "bad-op")
  | ["tenc", a] => match cps? a with
    | some x => (s, showCps (quoteEncode x)) | none => (s, "bad-op")
  | ["tdec", a] => match cps? a with
    | some x => (s, showOpt (decodeTurtle x)) | none => (s, "bad-op")
  | ["relex", a] => match cps? a with
    | some x => (s, showKind (relex x)) | none => (s, "bad-op")
  | ["ptoken", k, a] => match kind? k, cps? a with
    | some k, some x => (s, showOpt (plainToken k x)) | _, _ => (s, "bad-op")
  | "plain" :: k :: a :: rest => match kind? k, cps? a, pairs? rest with
    | some k, some x, some ps =>
      (s, match pinnedExp k (ps.map (·.1)) with
          | some t => "plain " ++ showCps t
          | none => match plainChoice k x ps with | some t => "plain " ++ showCps t | none => "quoted")
    | _, _, _ => (s, "bad-op")
  | ["strip", b, u] => match cps? b, cps? u with
    | some b, some u => (s, if strippable b u then "rel" else "abs") | _, _ => (s, "bad-op")
  | ["stript", b, u] => match cps? b, cps? u with
    | some b, some u => (s, if strippableTurtle b u then "rel" else "abs") | _, _ => (s, "bad-op")
  | ["ntparse", a] => match cps? a with
    | some x => (s, match parseLine x with
        | some (a, b, c) => "ok " ++ showNTerm a ++ " " ++ showNTerm b ++ " " ++ showNTerm c
        | none => "none")
    | none => (s, "bad-op")
  | ["ntrow", a, b, c] => match nterm? a, nterm? b, nterm? c with
    | some a, some b, some c => (s, showCps (ntRow a b c)) | _, _, _ => (s, "bad-op")
  | ["hext", "i", a] => match cps? a with
    | some x => (s, showRow (hextObj (.iri x))) | none => (s, "bad-op")
  | ["hext", "b", a] => match cps? a with
    | some x => (s, showRow (hextObj (.bnode x))) | none => (s, "bad-op")
  | ["hext", "l", a, d, l] => match cps? a, optCps? d, optCps? l with
    | some x, some d, some l => (s, showRow (hextObj (.lit x d l))) | _, _, _ => (s, "bad-op")
  | ["hextp", v, d, l] => match cps? v, cps? d, cps? l with
    | some v, some d, some l => (s, showHTerm (norm11 (hextParseObj (v, d, l)))) | _, _, _ => (s, "bad-op")
  | "vl" :: h :: rest => match term? h, triples? rest with
    | some h, some g =>
      (s, match isValidList g [] h with | some true => "true" | some false => "false" | none => "nofuel")
    | _, _ => (s, "bad-op")
  | "pre" :: hs :: rest => match terms? hs, triples? rest with
    | some hs, some g => (s, if preCheck g hs then "ok" else "bad")
    | _, _ => (s, "bad-op")
  | _ => (s, "bad-op")

def nats? (w : String) : Option (List Nat) :=
  if w = "-" then some [] else (w.splitOn ",").mapM (·.toNat?)

def insNat (a : Nat) : List Nat → List Nat
  | [] => [a]
  | b :: t => if a < b then a :: b :: t else if a = b then b :: t else b :: insNat a t

def showIds (l : List Nat) : String :=
  if l.isEmpty then "-" else ",".intercalate (l.map (fun n => "b" ++ toString n))

def showTop : Term × Bool → String
  | (_, true) => "a"
  | (.bn (.orig n), false) => "b" ++ toString n
  | (_, false) => "i"

def showChoice (g : Graph) (ord : List Nat) : String :=
  let st := choice g ord
  let anon := (st.2.filter (·.2)).map (fun t => origId t.1)
  let h := (hiddenIds st ++ anon).foldl (fun acc n => insNat n acc) []
  let t := if st.2.isEmpty then "-" else ",".intercalate (st.2.map showTop)
  "H " ++ showIds h ++ " T " ++ t ++ (if wDeep g ord then " NOFUEL" else "")

def stepChoice : List String → Option String
  | o :: rest => match nats? o, triples? rest with
    | some ord, some g => some (showChoice g ord)
    | _, _ => none
  | _ => none

def showRTerm : RTerm → String
  | .iri i => "i:" ++ showCps i
  | .bnode n => "b:" ++ toString n
  | .lit lex dt lang => "l:" ++ showCps lex ++ ":" ++ showOptCps dt ++ ":" ++ showOptCps lang

def showDoc : Option (List Str × List RTriple) → String
  | none => "none"
  | some (_, ts) => "ok " ++ toString ts.length ++
      String.join (ts.map (fun t => " " ++ showRTerm t.1 ++ " " ++ showRTerm t.2.1 ++ " " ++ showRTerm t.2.2))

def showKey : XKey → String
  | .about => "about" | .nodeID => "nodeID" | .resource => "resource" | .datatype => "datatype" | .lang => "lang"

def showAttrs (a : List (XKey × Str)) : String :=
  if a.isEmpty then "-" else ";".intercalate (a.map (fun kv => showKey kv.1 ++ "=" ++ showCps kv.2))

def showXSubj (e : XSubj) : String :=
  "S " ++ showAttrs e.attrs ++
    String.join (e.props.map (fun p => " P " ++ showCps p.tag ++ " " ++ showAttrs p.attrs ++ " " ++ showCps p.text))

def xtriples? : List String → Option (List XTriple)
  | [] => some []
  | a :: b :: c :: rest => do
    let x ← nterm? a; let z ← nterm? c; let r ← xtriples? rest
    match nterm? b with
    | some (.iri p) => pure ((x, p, z) :: r)
    | _ => none
  | _ => none

def step' (s : Unit) : List String → Unit × String
  | "xmltree" :: b :: sb :: xb :: rest => match optCps? b, optCps? sb, optCps? xb, xtriples? rest with
    | some base, some sbase, some xbase, some g =>
      (s, " | ".intercalate (("R " ++ showOptCps (xmlDocument base sbase xbase g).1) ::
            (xmlDocument base sbase xbase g).2.map showXSubj))
    | _, _, _, _ => (s, "bad-op")
  | ["ntdoc", a] => match cps? a with
    | some x => (s, showDoc (readDoc [] (splitLines [] x))) | none => (s, "bad-op")
  | "choice" :: rest => match stepChoice rest with
    | some r => (s, r) | none => (s, "bad-op")
  | l => step s l

def main : IO Unit := RV.Proto.run step' ()
