import RV.C03.Codec
/-
  C03 — numeric / boolean shorthand: the token grammars are pairwise disjoint, so a token that the
  writer checked against the grammar of its datatype is re-lexed to that datatype.
-/
namespace RV.C03

theorem allDigits_mem {s : Str} (h : allDigits s = true) : ∀ c ∈ s, isDigit c = true := by
  induction s with
  | nil => intro c hc; cases hc
  | cons a t ih =>
    simp only [allDigits, Bool.and_eq_true] at h
    intro c hc
    rcases List.mem_cons.mp hc with rfl | hc
    · exact h.1
    · exact ih h.2 c hc

theorem digits1_all {s : Str} (h : digits1 s = true) : allDigits s = true := by
  simp only [digits1, Bool.and_eq_true] at h; exact h.2

theorem splitAt1_spec {p : Char → Bool} {s a b : Str} (h : splitAt1 p s = some (a, b)) :
    ∃ c, p c = true ∧ s = a ++ c :: b := by
  induction s generalizing a b with
  | nil => simp [splitAt1] at h
  | cons x t ih =>
    simp only [splitAt1] at h
    by_cases hx : p x = true
    · simp [hx] at h; obtain ⟨rfl, rfl⟩ := h; exact ⟨x, hx, rfl⟩
    · simp [hx] at h
      split at h
      · next a' b' h' =>
        simp at h; obtain ⟨rfl, rfl⟩ := h
        obtain ⟨c, hc, e⟩ := ih h'
        exact ⟨c, hc, by rw [e]; rfl⟩
      · simp at h

theorem lexBoolean_cases {t : Str} (h : lexBoolean t = true) : t = "true".toList ∨ t = "false".toList := by
  simpa [lexBoolean] using h

theorem not_int_of_bool {t : Str} (h : lexBoolean t = true) : lexInteger t = false := by
  rcases lexBoolean_cases h with rfl | rfl <;> decide

theorem not_dec_of_bool {t : Str} (h : lexBoolean t = true) : lexDecimal t = false := by
  rcases lexBoolean_cases h with rfl | rfl <;> decide

theorem not_dbl_of_bool {t : Str} (h : lexBoolean t = true) : lexDouble t = false := by
  rcases lexBoolean_cases h with rfl | rfl <;> decide

/-- an INTEGER token contains only digits after the sign: no `.`, `e`, `E` -/
theorem int_no_special {t : Str} (h : lexInteger t = true) (c : Char) (hc : c ∈ dropSign t) : isDigit c = true :=
  allDigits_mem (digits1_all h) c hc

theorem not_int_of_dec {t : Str} (h : lexDecimal t = true) : lexInteger t = false := by
  cases hi : lexInteger t with
  | false => rfl
  | true =>
    unfold lexDecimal at h
    split at h
    · next a b hs =>
      obtain ⟨c, hc, e⟩ := splitAt1_spec hs
      have : isDigit c = true := int_no_special hi c (by rw [e]; simp)
      simp at hc; subst hc
      exact absurd this (by decide)
    · simp at h

theorem not_int_of_dbl {t : Str} (h : lexDouble t = true) : lexInteger t = false := by
  cases hi : lexInteger t with
  | false => rfl
  | true =>
    unfold lexDouble at h
    split at h
    · next a b hs =>
      obtain ⟨c, hc, e⟩ := splitAt1_spec hs
      have : isDigit c = true := int_no_special hi c (by rw [e]; simp)
      simp at hc
      rcases hc with rfl | rfl <;> exact absurd this (by decide)
    · simp at h

theorem not_dec_of_dbl {t : Str} (h : lexDouble t = true) : lexDecimal t = false := by
  cases hd : lexDecimal t with
  | false => rfl
  | true =>
    unfold lexDouble at h
    unfold lexDecimal at hd
    split at h
    · next m ex hs =>
      obtain ⟨c, hc, e⟩ := splitAt1_spec hs
      split at hd
      · next a b hs2 =>
        obtain ⟨c2, hc2, e2⟩ := splitAt1_spec hs2
        simp only [Bool.and_eq_true] at hd
        have ha := allDigits_mem hd.1
        have hb := allDigits_mem (digits1_all hd.2)
        -- the exponent mark `c` lies in `a ++ '.' :: b`, whose characters are digits or `.`
        have hmem : c ∈ a ++ c2 :: b := by rw [← e2, e]; simp
        simp at hc2; subst hc2
        rcases List.mem_append.mp hmem with h1 | h1
        · have := ha c h1
          simp at hc; rcases hc with rfl | rfl <;> exact absurd this (by decide)
        · rcases List.mem_cons.mp h1 with h2 | h2
          · simp at hc; rcases hc with rfl | rfl <;> exact absurd h2 (by decide)
          · have := hb c h2
            simp at hc; rcases hc with rfl | rfl <;> exact absurd this (by decide)
      · simp at hd
    · simp at h

/-- the four token grammars are pairwise disjoint: a token accepted for kind `k` is re-lexed as `k` -/
theorem tokenOk_relex {k : NumKind} {t : Str} (h : tokenOk k t = true) : relex t = some k := by
  cases k with
  | boolean =>
    simp only [tokenOk] at h; simp [relex, h]
  | integer =>
    simp only [tokenOk] at h
    have hb : lexBoolean t = false := by
      cases hb : lexBoolean t with
      | false => rfl
      | true => rw [not_int_of_bool hb] at h; exact absurd h (by simp)
    simp [relex, hb, h]
  | decimal =>
    simp only [tokenOk] at h
    have hb : lexBoolean t = false := by
      cases hb : lexBoolean t with
      | false => rfl
      | true => rw [not_dec_of_bool hb] at h; exact absurd h (by simp)
    simp [relex, hb, not_int_of_dec h, h]
  | double =>
    simp only [tokenOk] at h
    have hb : lexBoolean t = false := by
      cases hb : lexBoolean t with
      | false => rfl
      | true => rw [not_dbl_of_bool hb] at h; exact absurd h (by simp)
    simp [relex, hb, not_int_of_dbl h, not_dec_of_dbl h, h]

theorem plainChoice_sound {k : NumKind} {lex tok : Str} {cands : List (Str × Str)}
    (h : plainChoice k lex cands = some tok) : tokenOk k tok = true ∧ (tok, lex) ∈ cands := by
  induction cands with
  | nil => simp [plainChoice] at h
  | cons c rest ih =>
    obtain ⟨t, n⟩ := c
    simp only [plainChoice] at h
    split at h
    · next hc =>
      simp only [Bool.and_eq_true, beq_iff_eq] at hc
      simp at h; subst h
      exact ⟨hc.1, by rw [hc.2]; simp⟩
    · obtain ⟨h1, h2⟩ := ih h
      exact ⟨h1, List.mem_cons_of_mem _ h2⟩

theorem plainChoice_first {k : NumKind} {lex tok norm : Str} (rest : List (Str × Str))
    (h1 : tokenOk k tok = true) (h2 : norm = lex) : plainChoice k lex ((tok, norm) :: rest) = some tok := by
  simp [plainChoice, h1, h2]

theorem plainChoice_none_of_bad {k : NumKind} {lex : Str} {cands : List (Str × Str)}
    (h : ∀ p ∈ cands, tokenOk k p.1 = false ∨ p.2 ≠ lex) : plainChoice k lex cands = none := by
  induction cands with
  | nil => rfl
  | cons c rest ih =>
    obtain ⟨t, n⟩ := c
    simp only [plainChoice]
    have hc := h (t, n) (by simp)
    have : (tokenOk k t && n == lex) = false := by
      rcases hc with hc | hc
      · simp [hc]
      · simp [hc]
    simp only [this]
    exact ih (fun p hp => h p (List.mem_cons_of_mem _ hp))

end RV.C03
