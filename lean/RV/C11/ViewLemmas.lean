import RV.C11.Lemmas
import RV.C11.ApiLemmas
/-
  C11, round h — evaluation over a graph *object* (a view) reads it through `triples` only, and computes the relation of the
  list of triples the view scans.
-/
namespace RV.C11

/-- the view's `triples` is a filter of its own full scan -/
def Coherent (tr : TriplesFn) : Prop :=
  ∀ s p o t, t ∈ tr s p o ↔ t ∈ tr none none none ∧ matchT s p o t = true

theorem matchT_iff (s p o : Option Term) (t : Triple) :
    matchT s p o t = true ↔ (∀ a, s = some a → t.1 = a) ∧ (∀ a, p = some a → t.2.1 = a) ∧ (∀ a, o = some a → t.2.2 = a) := by
  simp only [matchT, Bool.and_eq_true, okPos_iff]

theorem triV_correct {tr : TriplesFn} (h : Coherent tr) (p : Term) :
    Correct (nodes (tr none none none)) (triV tr p) (fun x y => (x, p, y) ∈ tr none none none) := by
  intro s o x y
  simp only [triV, List.mem_map, h s (some p) o, matchT_iff, Restr, Option.some.injEq, forall_eq']
  constructor
  · rintro ⟨⟨a, q, c⟩, ⟨ht, hs, hp, ho⟩, he⟩
    simp only [Prod.mk.injEq] at he
    obtain ⟨rfl, rfl⟩ := he
    simp only at hp
    subst hp
    exact ⟨ht, hs, ho, fun _ _ => triple_nodes ht⟩
  · rintro ⟨ht, hs, ho, _⟩
    exact ⟨(x, p, y), ⟨ht, hs, rfl, ho⟩, rfl⟩

theorem contains_iff {tr : TriplesFn} (h : Coherent tr) (a b c : Term) :
    (tr (some a) (some b) (some c)).isEmpty = false ↔ (a, b, c) ∈ tr none none none := by
  constructor
  · intro he
    cases hl : tr (some a) (some b) (some c) with
    | nil => rw [hl] at he; simp at he
    | cons t ts =>
      have ht : t ∈ tr (some a) (some b) (some c) := hl ▸ List.mem_cons_self ..
      obtain ⟨hm, hk⟩ := (h _ _ _ t).mp ht
      rw [matchT_iff] at hk
      obtain ⟨x, y, z⟩ := t
      obtain ⟨h1, h2, h3⟩ := hk
      have e1 := h1 a rfl; have e2 := h2 b rfl; have e3 := h3 c rfl
      simp only at e1 e2 e3
      subst e1 e2 e3
      exact hm
  · intro hm
    have : (a, b, c) ∈ tr (some a) (some b) (some c) := (h _ _ _ _).mpr ⟨hm, by simp [matchT, okPos]⟩
    cases hl : tr (some a) (some b) (some c) with
    | nil => rw [hl] at this; cases this
    | cons _ _ => rfl

theorem negV_correct {tr : TriplesFn} (h : Coherent tr) (fw bw : List Term) :
    Correct (nodes (tr none none none)) (negEvalV tr fw bw) (negRelImpl (tr none none none) fw bw) := by
  intro s o x y
  simp only [negEvalV, negRelImpl, Restr, List.mem_map, List.mem_filter, Bool.and_eq_true, h s none o, matchT_iff,
    Bool.not_eq_true', decide_eq_false_iff_not, List.any_eq_false, reduceCtorEq, false_imp_iff,
    implies_true, true_and]
  constructor
  · rintro ⟨⟨a, p, c⟩, ⟨⟨ht, hs, ho⟩, hp, hb⟩, he⟩
    simp only [Prod.mk.injEq] at he
    obtain ⟨rfl, rfl⟩ := he
    refine ⟨⟨p, ht, hp, fun q hq hin => ?_⟩, hs, ho, fun _ _ => triple_nodes ht⟩
    have := hb q hq
    rw [(contains_iff h _ _ _).mpr hin] at this
    exact this rfl
  · rintro ⟨⟨p, ht, hp, hb⟩, hs, ho, _⟩
    refine ⟨(x, p, y), ⟨⟨ht, hs, ho⟩, hp, fun q hq => ?_⟩, rfl⟩
    cases he : (tr (some y) (some q) (some x)).isEmpty with
    | true => simp
    | false => exact absurd ((contains_iff h _ _ _).mp he) (hb q hq)

/-! ### the concrete views are coherent, and scan exactly the triples of their members -/

theorem plainView_coherent (g : Graph) : Coherent (plainView g) := by
  intro s p o t
  simp only [plainView, List.mem_filter]
  exact ⟨fun h => ⟨⟨h.1, rfl⟩, h.2⟩, fun h => ⟨h.1.1, h.2⟩⟩

theorem matchT_none (t : Triple) : matchT none none none t = true := rfl

theorem unionView_coherent (ctxs : List Graph) : Coherent (unionView ctxs) := by
  intro s p o t
  simp only [unionView, mem_uniq_nil, List.mem_filter, matchT_none, and_true]

theorem mem_unionView_scan (ctxs : List Graph) (t : Triple) : t ∈ unionView ctxs none none none ↔ ∃ c ∈ ctxs, t ∈ c := by
  simp only [unionView, mem_uniq_nil, List.mem_filter, matchT_none, and_true, List.mem_flatten]

theorem mem_aggScan (s p o : Option Term) : ∀ (ms before : List Graph) (t : Triple),
    t ∈ aggScan s p o before ms ↔ matchT s p o t = true ∧ (∀ g ∈ before, t ∉ g) ∧ ∃ m ∈ ms, t ∈ m
  | [], before, t => by simp [aggScan]
  | m :: ms, before, t => by
    simp only [aggScan, List.mem_append, List.mem_filter, Bool.and_eq_true, Bool.not_eq_true', List.any_eq_false,
      decide_eq_true_eq, mem_aggScan s p o ms (before ++ [m]) t, List.mem_cons]
    constructor
    · rintro (⟨hm, hk, hb⟩ | ⟨hk, hb, m', hm', ht⟩)
      · exact ⟨hk, hb, m, Or.inl rfl, hm⟩
      · exact ⟨hk, fun g hg => hb g (Or.inl hg), m', Or.inr hm', ht⟩
    · rintro ⟨hk, hb, m', hm' | hm', ht⟩
      · subst hm'; exact Or.inl ⟨ht, hk, hb⟩
      · by_cases hin : t ∈ m
        · exact Or.inl ⟨hin, hk, hb⟩
        · refine Or.inr ⟨hk, fun g hg => ?_, m', hm', ht⟩
          rcases hg with hg | hg
          · exact hb g hg
          · rcases hg with hg | hg
            · subst hg; exact hin
            · cases hg

theorem mem_aggView_scan (ms : List Graph) (t : Triple) : t ∈ aggView ms none none none ↔ ∃ m ∈ ms, t ∈ m := by
  simp only [aggView, mem_aggScan, matchT_none, List.not_mem_nil, false_imp_iff, implies_true, true_and]

theorem aggView_coherent (ms : List Graph) : Coherent (aggView ms) := by
  intro s p o t
  rw [mem_aggView_scan]
  simp only [aggView, mem_aggScan, List.not_mem_nil, false_imp_iff, implies_true, true_and]
  exact and_comm

end RV.C11
