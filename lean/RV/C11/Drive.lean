import RV.C11.Model
import RV.C11.N3
import RV.Base.Proto
/-
  C11 driver.  Terms are naturals owned by the harness.
    graph s,p,o s,p,o …        -> ok      (sets the graph the following evals run on)
    eval S O <path>            -> `T|` or `F|` (fuel flag of the outermost MulPath, `T` otherwise)
                                  followed by the yielded pairs `s,o s,o …`, sorted; WITH multiplicity when the
                                  path is a closure (`*`, `+`, `?` outermost, possibly under `^`), as a set otherwise
    evalsyn S O <tree>         -> same, for a path given as rdflib's parse tree; the driver applies `translate`
                                  (the model of translatePath):
                  i N | A K <tree>×K (K ≥ 1, PathAlternative) | S K <tree>×K (K ≥ 1, PathSequence)
                  | E ?|*|+|- <tree> (PathElt) | V <tree> (PathEltOrInverse) | N F B f1 … fF b1 … bB
    n3 <path>                  -> `n3|` + the tokens `Path.n3()` writes for the built path: iN ^ / | ( ) ! ? * +
    readn3 tok…                -> `unreadable`, or the tree the reader builds (same prefix form as evalsyn's input)
                                  ` => ` the path `translate` makes of it (prefix form of `eval`'s input)
    evaln3 S O <path>          -> `unreadable`, or the `eval` answer of translate (read (n3 (build path)))
    evalf S O <path>           -> for a path `m mod X`: the answer of MulPath.eval(…, first=False) (`T|pairs`, a list); else bad-op
    bgp same X <path>          -> `?x path ?x`, X = `*` (unbound) or a term (pre-bound): `T|pairs` as `eval`
    bgp before|after <path>    -> `?s ?pp ?zz . ?s path ?o` / `?s path ?o . ?zz ?pp ?o` (DISTINCT): `T|set of pairs`
    veval KIND S O <path> / m1 / m2 …  -> the `eval` answer of evalPathV over the graph OBJECT of that kind
                                  (KIND = plain: plainView m1; union: unionView [m1, m2, …]; agg: aggView [m1, m2, …]);
                                  each member is a list of triples `s,p,o …`, members separated by `/`
    api S O <path>             -> the Graph API answers for the built path (gContains / gObjects / gSubjects /
                                  gSubjectObjects / g…OfList / gValue…):
                                    S O given:  in|T or in|F
                                    S given:    objs|set|uniq|sorted unique=True list|twice|objects([S,S],unique=True)|value|0/1
                                    O given:    subjs|…   (same with subjects)
                                    none:       so|set of pairs|uniq|sorted unique=True list
        S, O  = a term or `*` (end not given)
        path  = prefix form of the expression the user wrote; the driver applies `build`
                (the constructors' flattening) before evaluating:
                  i N | v <path> | s K <path>×K (K ≥ 1) | a K <path>×K | m ?|*|+ <path>
                  | n F B f1 … fF b1 … bB
-/
open RV RV.C11 RV.Proto

def triple? (w : String) : Option Triple :=
  match w.splitOn "," with
  | [a, b, c] => do
    let a ← a.toNat?; let b ← b.toNat?; let c ← c.toNat?
    pure (a, b, c)
  | _ => none

def triples? : List String → Option Graph
  | [] => some []
  | w :: ws => do
    let t ← triple? w
    let r ← triples? ws
    pure (t :: r)

def nats? : Nat → List String → Option (List Nat × List String)
  | 0, ws => some ([], ws)
  | k + 1, w :: ws => do
    let n ← w.toNat?
    let (r, rest) ← nats? k ws
    pure (n :: r, rest)
  | _ + 1, [] => none

def mod? (w : String) : Option Mod :=
  if w = "?" then some .zeroOrOne else if w = "*" then some .zeroOrMore
  else if w = "+" then some .oneOrMore else none

mutual
def path? : Nat → List String → Option (Path × List String)
  | 0, _ => none
  | fuel + 1, ws =>
    match ws with
    | "i" :: n :: rest => n.toNat?.map (fun n => (Path.iri n, rest))
    | "v" :: rest => do
      let (p, rest) ← path? fuel rest
      pure (.inv p, rest)
    | "s" :: k :: rest => do
      let k ← k.toNat?
      let (ps, rest) ← paths? fuel k rest
      match ps with
      | p :: ps => pure (.seq p ps, rest)
      | [] => none
    | "a" :: k :: rest => do
      let k ← k.toNat?
      let (ps, rest) ← paths? fuel k rest
      pure (.alt ps, rest)
    | "m" :: m :: rest => do
      let m ← mod? m
      let (p, rest) ← path? fuel rest
      pure (.mul p m, rest)
    | "n" :: f :: b :: rest => do
      let f ← f.toNat?; let b ← b.toNat?
      let (fw, rest) ← nats? f rest
      let (bw, rest) ← nats? b rest
      pure (.neg fw bw, rest)
    | _ => none
def paths? : Nat → Nat → List String → Option (List Path × List String)
  | 0, _, _ => none
  | _ + 1, 0, ws => some ([], ws)
  | fuel + 1, k + 1, ws => do
    let (p, rest) ← path? fuel ws
    let (ps, rest) ← paths? fuel k rest
    pure (p :: ps, rest)
end

mutual
def syn? : Nat → List String → Option (Syn × List String)
  | 0, _ => none
  | fuel + 1, ws =>
    match ws with
    | "i" :: n :: rest => n.toNat?.map (fun n => (Syn.iri n, rest))
    | "V" :: rest => do
      let (t, rest) ← syn? fuel rest
      pure (.invS t, rest)
    | "E" :: m :: rest => do
      let (t, rest) ← syn? fuel rest
      if m = "-" then pure (.elt t none, rest)
      else do
        let m ← mod? m
        pure (.elt t (some m), rest)
    | "A" :: k :: rest => do
      let k ← k.toNat?
      let (ts, rest) ← syns? fuel k rest
      match ts with
      | t :: ts => pure (.altS t ts, rest)
      | [] => none
    | "S" :: k :: rest => do
      let k ← k.toNat?
      let (ts, rest) ← syns? fuel k rest
      match ts with
      | t :: ts => pure (.seqS t ts, rest)
      | [] => none
    | "N" :: f :: b :: rest => do
      let f ← f.toNat?; let b ← b.toNat?
      let (fw, rest) ← nats? f rest
      let (bw, rest) ← nats? b rest
      pure (.nps fw bw, rest)
    | _ => none
def syns? : Nat → Nat → List String → Option (List Syn × List String)
  | 0, _, _ => none
  | _ + 1, 0, ws => some ([], ws)
  | fuel + 1, k + 1, ws => do
    let (t, rest) ← syn? fuel ws
    let (ts, rest) ← syns? fuel k rest
    pure (t :: ts, rest)
end

def showPairs (ps : List Pair) : String :=
  " ".intercalate ((sortBy lexLt (ps.map (fun r => [r.1, r.2]))).map showNats)

/-- the observation line for the built / translated path `q` -/
def answer (g : Graph) (q : Path) (s o : Option Nat) : String :=
  let ok := match q with
    | .mul p m => mulOk g p m s o
    | _ => true
  let r := evalPath g q s o
  (if ok then "T|" else "F|") ++ showPairs (if q.isClosure then r else dedupInto [] r)

/-! ### round g: n3 writer / SPARQL path reader -/

def showMod : Mod → String
  | .zeroOrOne => "?" | .zeroOrMore => "*" | .oneOrMore => "+"

def showTok : Tok → String
  | .iri p => "i" ++ toString p
  | .hat => "^" | .slash => "/" | .bar => "|" | .lp => "(" | .rp => ")" | .bang => "!"
  | .mod m => showMod m

def tok? (w : String) : Option Tok :=
  if w = "^" then some .hat else if w = "/" then some .slash else if w = "|" then some .bar
  else if w = "(" then some .lp else if w = ")" then some .rp else if w = "!" then some .bang
  else match mod? w with
    | some m => some (.mod m)
    | none => if w.startsWith "i" then (w.drop 1).toNat?.map Tok.iri else none

def toks? : List String → Option (List Tok)
  | [] => some []
  | w :: ws => do
    let t ← tok? w
    let r ← toks? ws
    pure (t :: r)

mutual
def showSyn : Syn → List String
  | .iri p => ["i", toString p]
  | .altS x xs => ["A", toString (xs.length + 1)] ++ showSyn x ++ showSyns xs
  | .seqS x xs => ["S", toString (xs.length + 1)] ++ showSyn x ++ showSyns xs
  | .elt x none => "E" :: "-" :: showSyn x
  | .elt x (some m) => "E" :: showMod m :: showSyn x
  | .invS x => "V" :: showSyn x
  | .nps fw bw => ["N", toString fw.length, toString bw.length] ++ fw.map toString ++ bw.map toString
def showSyns : List Syn → List String
  | [] => []
  | x :: xs => showSyn x ++ showSyns xs
end

mutual
def showPath : Path → List String
  | .iri p => ["i", toString p]
  | .inv x => "v" :: showPath x
  | .seq a as => ["s", toString (as.length + 1)] ++ showPath a ++ showPaths as
  | .alt as => ["a", toString as.length] ++ showPaths as
  | .mul x m => "m" :: showMod m :: showPath x
  | .neg fw bw => ["n", toString fw.length, toString bw.length] ++ fw.map toString ++ bw.map toString
def showPaths : List Path → List String
  | [] => []
  | x :: xs => showPath x ++ showPaths xs
end

def showTerms (ts : List Term) : String := " ".intercalate ((sortBy lexLt (ts.map (fun t => [t]))).map showNats)

def apiLine (g : Graph) (q : Path) : Option Nat → Option Nat → String
  | some a, some b => "in|" ++ (if gContains g q a b then "T" else "F")
  | some a, none =>
    "objs|" ++ showTerms (uniq [] (gObjects g q (some a) false)) ++ "|uniq|" ++ showTerms (gObjects g q (some a) true) ++
    "|twice|" ++ showTerms (gObjectsOfList g q [a, a] true) ++
    "|value|" ++ (match gValueObj g q a with | some _ => "1" | none => "0")
  | none, some b =>
    "subjs|" ++ showTerms (uniq [] (gSubjects g q (some b) false)) ++ "|uniq|" ++ showTerms (gSubjects g q (some b) true) ++
    "|twice|" ++ showTerms (gSubjectsOfList g q [b, b] true) ++
    "|value|" ++ (match gValueSubj g q b with | some _ => "1" | none => "0")
  | none, none =>
    "so|" ++ showPairs (uniq [] (gSubjectObjects g q false)) ++ "|uniq|" ++ showPairs (gSubjectObjects g q true)

/-- split the words after the path into members at every `/` -/
def members? (ws : List String) : Option (List Graph) :=
  let rec go : List String → List String → List (List String) → List (List String)
    | [], cur, acc => (cur.reverse :: acc).reverse
    | w :: ws, cur, acc => if w = "/" then go ws [] (cur.reverse :: acc) else go ws (w :: cur) acc
  match ws with
  | "/" :: rest => (go rest [] []).mapM triples?
  | [] => some []
  | _ => none

def viewOf (kind : String) (ms : List Graph) : Option TriplesFn :=
  if kind = "plain" then some (plainView (ms.headD [])) else if kind = "union" then some (unionView ms)
  else if kind = "agg" then some (aggView ms) else none

def step (g : Graph) : List String → Graph × String
  | "graph" :: ws =>
    match triples? ws with
    | some g' => (g', "ok")
    | none => (g, "bad-op")
  | "eval" :: s :: o :: ws =>
    match optNat? s, optNat? o, path? (ws.length + 1) ws with
    | some s, some o, some (p, []) => (g, answer g (build p) s o)
    | _, _, _ => (g, "bad-op")
  | "evalsyn" :: s :: o :: ws =>
    match optNat? s, optNat? o, syn? (ws.length + 1) ws with
    | some s, some o, some (t, []) => (g, answer g (translate t) s o)
    | _, _, _ => (g, "bad-op")
  | "evalf" :: s :: o :: ws =>
    match optNat? s, optNat? o, path? (ws.length + 1) ws with
    | some s, some o, some (p, []) =>
      match build p with
      | .mul q m => (g, "T|" ++ showPairs (mulEvalF g (evalPath g q) m false s o))
      | _ => (g, "bad-op")
    | _, _, _ => (g, "bad-op")
  | "bgp" :: "same" :: x :: ws =>
    match optNat? x, path? (ws.length + 1) ws with
    | some x, some (p, []) =>
      let q := build p
      (g, "T|" ++ showPairs (if q.isClosure then bgpSame g q x else dedupInto [] (bgpSame g q x)))
    | _, _ => (g, "bad-op")
  | "bgp" :: "before" :: ws =>
    match path? (ws.length + 1) ws with
    | some (p, []) => (g, "T|" ++ showPairs (dedupInto [] (bgpSubjBefore g (build p))))
    | _ => (g, "bad-op")
  | "bgp" :: "after" :: ws =>
    match path? (ws.length + 1) ws with
    | some (p, []) => (g, "T|" ++ showPairs (dedupInto [] (bgpObjAfter g (build p))))
    | _ => (g, "bad-op")
  | "veval" :: kind :: s :: o :: ws =>
    match optNat? s, optNat? o, path? (ws.length + 1) ws with
    | some s, some o, some (p, rest) =>
      match members? rest with
      | some ms =>
        match viewOf kind ms with
        | some tr =>
          let q := build p
          let r := evalPathV tr q s o
          (g, "T|" ++ showPairs (if q.isClosure then r else dedupInto [] r))
        | none => (g, "bad-op")
      | none => (g, "bad-op")
    | _, _, _ => (g, "bad-op")
  | "api" :: s :: o :: ws =>
    match optNat? s, optNat? o, path? (ws.length + 1) ws with
    | some s, some o, some (p, []) => (g, apiLine g (build p) s o)
    | _, _, _ => (g, "bad-op")
  | "n3" :: ws =>
    match path? (ws.length + 1) ws with
    | some (p, []) => (g, "n3|" ++ " ".intercalate ((n3 (build p)).map showTok))
    | _ => (g, "bad-op")
  | "readn3" :: ws =>
    match toks? ws with
    | some ts =>
      match readPath ts with
      | some t => (g, " ".intercalate (showSyn t) ++ " => " ++ " ".intercalate (showPath (translate t)))
      | none => (g, "unreadable")
    | none => (g, "bad-op")
  | "evaln3" :: s :: o :: ws =>
    match optNat? s, optNat? o, path? (ws.length + 1) ws with
    | some s, some o, some (p, []) =>
      match reparse (build p) with
      | some q => (g, answer g q s o)
      | none => (g, "unreadable")
    | _, _, _ => (g, "bad-op")
  | _ => (g, "bad-op")

def main : IO Unit := RV.Proto.run step ([] : Graph)
