import RV.C11.Model
import RV.Base.Proto
/-
  C11 driver.  Terms are naturals owned by the harness.
    graph s,p,o s,p,o …        -> ok      (sets the graph the following evals run on)
    eval S O <path>            -> `T|` or `F|` (fuel flag of the outermost MulPath, `T` otherwise)
                                  followed by the yielded pairs `s,o s,o …`, sorted, WITH multiplicity
        S, O  = a term or `*` (end not given)
        path  = prefix form of the expression the user wrote; the driver applies `build`
                (the constructors' flattening) before evaluating:
                  i N | v <path> | s K <path>×K (K ≥ 1) | a K <path>×K | m ?|*|+ <path>
                  | n F B f1 … fF b1 … bB
-/
open RV RV.C11 RV.Proto

def triple? (w : String) : Option Triple :=
  match w.splitOn "," with
  | [a, b, c] => do
    let a ← a.toNat?; let b ← b.toNat?; let c ← c.toNat?
    pure (a, b, c)
  | _ => none

def triples? : List String → Option Graph
  | [] => some []
  | w :: ws => do
    let t ← triple? w
    let r ← triples? ws
    pure (t :: r)

def nats? : Nat → List String → Option (List Nat × List String)
  | 0, ws => some ([], ws)
  | k + 1, w :: ws => do
    let n ← w.toNat?
    let (r, rest) ← nats? k ws
    pure (n :: r, rest)
  | _ + 1, [] => none

def mod? (w : String) : Option Mod :=
  if w = "?" then some .zeroOrOne else if w = "*" then some .zeroOrMore
  else if w = "+" then some .oneOrMore else none

mutual
def path? : Nat → List String → Option (Path × List String)
  | 0, _ => none
  | fuel + 1, ws =>
    match ws with
    | "i" :: n :: rest => n.toNat?.map (fun n => (Path.iri n, rest))
    | "v" :: rest => do
      let (p, rest) ← path? fuel rest
      pure (.inv p, rest)
    | "s" :: k :: rest => do
      let k ← k.toNat?
      let (ps, rest) ← paths? fuel k rest
      match ps with
      | p :: ps => pure (.seq p ps, rest)
      | [] => none
    | "a" :: k :: rest => do
      let k ← k.toNat?
      let (ps, rest) ← paths? fuel k rest
      pure (.alt ps, rest)
    | "m" :: m :: rest => do
      let m ← mod? m
      let (p, rest) ← path? fuel rest
      pure (.mul p m, rest)
    | "n" :: f :: b :: rest => do
      let f ← f.toNat?; let b ← b.toNat?
      let (fw, rest) ← nats? f rest
      let (bw, rest) ← nats? b rest
      pure (.neg fw bw, rest)
    | _ => none
def paths? : Nat → Nat → List String → Option (List Path × List String)
  | 0, _, _ => none
  | _ + 1, 0, ws => some ([], ws)
  | fuel + 1, k + 1, ws => do
    let (p, rest) ← path? fuel ws
    let (ps, rest) ← paths? fuel k rest
    pure (p :: ps, rest)
end

def isMul : Path → Bool
  | .mul _ _ => true
  | _ => false

def showPairs (ps : List Pair) : String :=
  " ".intercalate ((sortBy lexLt (ps.map (fun r => [r.1, r.2]))).map showNats)

def step (g : Graph) : List String → Graph × String
  | "graph" :: ws =>
    match triples? ws with
    | some g' => (g', "ok")
    | none => (g, "bad-op")
  | "eval" :: s :: o :: ws =>
    match optNat? s, optNat? o, path? (ws.length + 1) ws with
    | some s, some o, some (p, []) =>
      let q := build p
      let ok := match q with
        | .mul p m => mulOk g p m s o
        | _ => true
      (g, (if ok then "T|" else "F|") ++ showPairs (evalPath g q s o))
    | _, _, _ => (g, "bad-op")
  | _ => (g, "bad-op")

def main : IO Unit := RV.Proto.run step ([] : Graph)
