import RV.C11.N3
/-
  C11, round g — the reader reads back what the writer wrote.

  `lvl p`   what the text `_n3(p)` is in SPARQL's grammar (the writer parenthesises only sequences / alternatives with two
            or more members): a PathPrimary, a PathElt (primary + modifier), `^` PathElt, or not a path at all
            (`bad`: a modifier on a non-primary `p*+`, `(^p)*` written `^p*`, `^^p`, an empty alternative).
  `norm p`  the path object `translatePath` builds from the tree of the text: single-member sequences / alternatives
            vanish, parenthesised groups are spliced by the constructors.
  `good`    for every path that is not `bad`, at each grammar level, the reader consumes exactly the text of the path and
            `translate` of the tree it builds is `norm p` (induction on the path; the fuel `6·|text|` suffices).
-/
namespace RV.C11

inductive Lvl
  | prim | elt | inv | bad
  deriving DecidableEq, Repr

def lvlInv : Lvl → Lvl
  | .prim => .inv
  | .elt => .inv
  | _ => .bad

def lvlMul : Lvl → Lvl
  | .prim => .elt
  | _ => .bad

mutual
def lvl : Path → Lvl
  | .iri _ => .prim
  | .neg _ _ => .prim
  | .inv x => lvlInv (lvl x)
  | .mul x _ => lvlMul (lvl x)
  | .seq a [] => lvl a
  | .seq a (b :: bs) => if lvl a != .bad && (lvl b != .bad && okList bs) then .prim else .bad
  | .alt [] => .bad
  | .alt [a] => lvl a
  | .alt (a :: b :: cs) => if lvl a != .bad && (lvl b != .bad && okList cs) then .prim else .bad
def okList : List Path → Bool
  | [] => true
  | p :: ps => lvl p != .bad && okList ps
end

mutual
def norm : Path → Path
  | .iri p => .iri p
  | .neg fw bw => .neg fw bw
  | .inv x => .inv (norm x)
  | .mul x m => .mul (norm x) m
  | .seq a [] => norm a
  | .seq a (b :: bs) => mkSeq (norm a) (norm b :: normList bs)
  | .alt [] => .alt []
  | .alt [a] => norm a
  | .alt (a :: b :: cs) => mkAlt (norm a :: norm b :: normList cs)
def normList : List Path → List Path
  | [] => []
  | p :: ps => norm p :: normList ps
end

/-! ### the writer, equation by equation -/

theorem wrap_iri (p : Term) : wrap (.iri p) = [.iri p] := by simp [wrap, n3, paren, needsParen]
theorem wrap_inv (x : Path) : wrap (.inv x) = .hat :: wrap x := by simp [wrap, n3, paren, needsParen]
theorem wrap_mul (x : Path) (m : Mod) : wrap (.mul x m) = wrap x ++ [.mod m] := by
  simp [wrap, n3, paren, needsParen]
theorem wrap_neg (fw bw : List Term) : wrap (.neg fw bw) = n3 (.neg fw bw) := by simp [wrap, paren, needsParen]
theorem wrap_seq1 (a : Path) : wrap (.seq a []) = wrap a := by simp [wrap, n3, n3Rest, paren, needsParen]
theorem wrap_alt1 (a : Path) : wrap (.alt [a]) = wrap a := by simp [wrap, n3, n3Rest, paren, needsParen]
theorem n3_seq (a : Path) (as : List Path) : n3 (.seq a as) = wrap a ++ n3Rest .slash as := by simp [wrap, n3]
theorem n3_alt (a : Path) (as : List Path) : n3 (.alt (a :: as)) = wrap a ++ n3Rest .bar as := by simp [wrap, n3]
theorem wrap_seq2 (a b : Path) (bs : List Path) :
    wrap (.seq a (b :: bs)) = .lp :: n3 (.seq a (b :: bs)) ++ [.rp] := by simp [wrap, paren, needsParen]
theorem wrap_alt2 (a b : Path) (cs : List Path) :
    wrap (.alt (a :: b :: cs)) = .lp :: n3 (.alt (a :: b :: cs)) ++ [.rp] := by simp [wrap, paren, needsParen]
theorem n3Rest_cons (sep : Tok) (p : Path) (ps : List Path) :
    n3Rest sep (p :: ps) = sep :: wrap p ++ n3Rest sep ps := by simp [wrap, n3Rest]
theorem n3_of_not_paren {p : Path} (h : needsParen p = false) : n3 p = wrap p := by simp [wrap, paren, h]

/-! ### follow sets -/

def NoMod (ts : List Tok) : Prop := ∀ m r, ts ≠ .mod m :: r
def NoSlash (ts : List Tok) : Prop := ∀ r, ts ≠ .slash :: r
def NoBar (ts : List Tok) : Prop := ∀ r, ts ≠ .bar :: r
def NoHat (ts : List Tok) : Prop := ∀ r, ts ≠ .hat :: r

/-- the parser `P`, with fuel `f`, reads exactly `w` off `w ++ rest`, and the tree translates to `q` -/
def Reads (P : Nat → List Tok → Option (Syn × List Tok)) (f : Nat) (w rest : List Tok) (q : Path) : Prop :=
  ∃ t, P f (w ++ rest) = some (t, rest) ∧ translate t = q

def ReadsL (P : Nat → List Tok → Option (List Syn × List Tok)) (f : Nat) (w rest : List Tok) (qs : List Path) : Prop :=
  ∃ ts, P f (w ++ rest) = some (ts, rest) ∧ translateList ts = qs

theorem Reads.fuel_pos {P : Nat → List Tok → Option (Syn × List Tok)} (h0 : ∀ ts, P 0 ts = none)
    {f : Nat} {w rest : List Tok} {q : Path} (h : Reads P f w rest q) : ∃ f', f = f' + 1 := by
  cases f with
  | zero => obtain ⟨t, h, _⟩ := h; rw [h0] at h; cases h
  | succ f' => exact ⟨f', rfl⟩

theorem pSeqRest_stop (f : Nat) {ts : List Tok} (h : NoSlash ts) : pSeqRest (f + 1) ts = some ([], ts) := by
  cases ts with
  | nil => simp [pSeqRest]
  | cons a r =>
    cases a <;> first | (simp [pSeqRest]; done) | exact absurd rfl (h r)

theorem pAltRest_stop (f : Nat) {ts : List Tok} (h : NoBar ts) : pAltRest (f + 1) ts = some ([], ts) := by
  cases ts with
  | nil => simp [pAltRest]
  | cons a r =>
    cases a <;> first | (simp [pAltRest]; done) | exact absurd rfl (h r)

theorem elt_of_prim {f : Nat} {w rest : List Tok} {q : Path} (h : Reads pPrim f w rest q) (hm : NoMod rest) :
    Reads pElt (f + 1) w rest q := by
  obtain ⟨t, h, ht⟩ := h
  refine ⟨.elt t none, ?_, by rw [translate, ht]⟩
  simp only [pElt, h]
  cases rest with
  | nil => rfl
  | cons a r => cases a <;> first | rfl | exact absurd rfl (hm _ r)

theorem elt_mul {f : Nat} {w rest : List Tok} {q : Path} {m : Mod} (h : Reads pPrim f w (.mod m :: rest) q) :
    Reads pElt (f + 1) (w ++ [.mod m]) rest (.mul q m) := by
  obtain ⟨t, h, ht⟩ := h
  refine ⟨.elt t (some m), ?_, by rw [translate, ht]⟩
  simp only [pElt, List.append_assoc, List.singleton_append, h]

theorem eltInv_of_elt {f : Nat} {w rest : List Tok} {q : Path} (h : Reads pElt f w rest q) (hh : NoHat (w ++ rest)) :
    Reads pEltInv (f + 1) w rest q := by
  obtain ⟨t, h, ht⟩ := h
  refine ⟨t, ?_, ht⟩
  rw [← h]
  generalize w ++ rest = ts at hh
  cases ts with
  | nil => simp [pEltInv]
  | cons a r => cases a <;> first | (simp [pEltInv]; done) | exact absurd rfl (hh r)

theorem eltInv_inv {f : Nat} {w rest : List Tok} {q : Path} (h : Reads pElt f w rest q) :
    Reads pEltInv (f + 1) (.hat :: w) rest (.inv q) := by
  obtain ⟨t, h, ht⟩ := h
  exact ⟨.invS t, by simp only [List.cons_append, pEltInv, h], by rw [translate, ht]⟩

theorem seq_of_eltInv {f : Nat} {w rest : List Tok} {q : Path} (h : Reads pEltInv f w rest q) (hs : NoSlash rest) :
    Reads pSeq (f + 1) w rest q := by
  obtain ⟨f', rfl⟩ := h.fuel_pos (fun ts => by simp [pEltInv])
  obtain ⟨t, h, ht⟩ := h
  refine ⟨.seqS t [], ?_, by simp only [translate, translateList, ht]⟩
  simp only [pSeq, h, pSeqRest_stop f' hs]

theorem alt_of_seq {f : Nat} {w rest : List Tok} {q : Path} (h : Reads pSeq f w rest q) (hs : NoBar rest) :
    Reads pAlt (f + 1) w rest q := by
  obtain ⟨f', rfl⟩ := h.fuel_pos (fun ts => by simp [pSeq])
  obtain ⟨t, h, ht⟩ := h
  refine ⟨.altS t [], ?_, by simp only [translate, translateList, ht]⟩
  simp only [pAlt, h, pAltRest_stop f' hs]

theorem prim_paren {f : Nat} {w rest : List Tok} {q : Path} (h : Reads pAlt f w (.rp :: rest) q) :
    Reads pPrim (f + 1) (.lp :: w ++ [.rp]) rest q := by
  obtain ⟨t, h, ht⟩ := h
  refine ⟨t, ?_, ht⟩
  simp only [List.cons_append, List.append_assoc, List.nil_append, pPrim, h]

theorem prim_iri (f : Nat) (p : Term) (rest : List Tok) : Reads pPrim (f + 1) [.iri p] rest (.iri p) :=
  ⟨.iri p, by simp [pPrim], by rw [translate]⟩

theorem seq_cons {f : Nat} {w r1 rest : List Tok} {q q' : Path} {qs : List Path}
    (h : Reads pEltInv f w (r1 ++ rest) q) (hl : ReadsL pSeqRest f r1 rest (q' :: qs)) :
    Reads pSeq (f + 1) (w ++ r1) rest (mkSeq q (q' :: qs)) := by
  obtain ⟨t, h, ht⟩ := h
  obtain ⟨ts, hl, hts⟩ := hl
  refine ⟨.seqS t ts, ?_, by simp only [translate, hts, ht]⟩
  simp only [pSeq, List.append_assoc, h, hl]

theorem seqRest_cons {f : Nat} {w r1 rest : List Tok} {q : Path} {qs : List Path}
    (h : Reads pEltInv f w (r1 ++ rest) q) (hl : ReadsL pSeqRest f r1 rest qs) :
    ReadsL pSeqRest (f + 1) (.slash :: w ++ r1) rest (q :: qs) := by
  obtain ⟨t, h, ht⟩ := h
  obtain ⟨ts, hl, hts⟩ := hl
  refine ⟨t :: ts, ?_, by simp only [translateList, hts, ht]⟩
  simp only [List.cons_append, pSeqRest, List.append_assoc, h, hl]

theorem alt_cons {f : Nat} {w r1 rest : List Tok} {q q' : Path} {qs : List Path}
    (h : Reads pSeq f w (r1 ++ rest) q) (hl : ReadsL pAltRest f r1 rest (q' :: qs)) :
    Reads pAlt (f + 1) (w ++ r1) rest (mkAlt (q :: q' :: qs)) := by
  obtain ⟨t, h, ht⟩ := h
  obtain ⟨ts, hl, hts⟩ := hl
  refine ⟨.altS t ts, ?_, by simp only [translate, hts, ht]⟩
  simp only [pAlt, List.append_assoc, h, hl]

theorem altRest_cons {f : Nat} {w r1 rest : List Tok} {q : Path} {qs : List Path}
    (h : Reads pSeq f w (r1 ++ rest) q) (hl : ReadsL pAltRest f r1 rest qs) :
    ReadsL pAltRest (f + 1) (.bar :: w ++ r1) rest (q :: qs) := by
  obtain ⟨t, h, ht⟩ := h
  obtain ⟨ts, hl, hts⟩ := hl
  refine ⟨t :: ts, ?_, by simp only [translateList, hts, ht]⟩
  simp only [List.cons_append, pAltRest, List.append_assoc, h, hl]

/-! ### negated property sets -/

theorem pMembers_n3 : ∀ (ms : List (Bool × Term)) (m : Bool × Term) (rest : List Tok),
    pMembers (n3Members (m :: ms) ++ .rp :: rest) = some (m :: ms, rest)
  | [], (false, p), rest => by simp [n3Members, memTok, pMembers]
  | [], (true, p), rest => by simp [n3Members, memTok, pMembers]
  | m' :: ms, (false, p), rest => by
    simp only [n3Members, memTok, Bool.false_eq_true, if_false, List.cons_append, List.nil_append, pMembers,
      pMembers_n3 ms m' rest]
  | m' :: ms, (true, p), rest => by
    simp only [n3Members, memTok, if_true, List.cons_append, List.nil_append, pMembers,
      pMembers_n3 ms m' rest]

theorem filter_const_true {α : Type} : ∀ l : List α, l.filter (fun _ => true) = l
  | [] => rfl
  | x :: xs => by simp

theorem filter_const_false {α : Type} : ∀ l : List α, l.filter (fun _ => false) = []
  | [] => rfl
  | x :: xs => by simp

theorem npsOf_split (fw bw : List Term) :
    npsOf (fw.map (fun p => (false, p)) ++ bw.map (fun p => (true, p))) = .nps fw bw := by
  simp [npsOf, List.filter_append, List.filter_map, Function.comp_def, filter_const_true, filter_const_false]

theorem prim_neg (f : Nat) (fw bw : List Term) (rest : List Tok) :
    Reads pPrim (f + 1) (n3 (.neg fw bw)) rest (.neg fw bw) := by
  refine ⟨.nps fw bw, ?_, by rw [translate]⟩
  simp only [n3, List.cons_append, List.append_assoc, pPrim]
  generalize hms : fw.map (fun p => (false, p)) ++ bw.map (fun p => (true, p)) = ms
  have hsplit := npsOf_split fw bw
  rw [hms] at hsplit
  cases ms with
  | nil =>
    have h1 : fw = [] := by cases fw <;> simp_all
    have h2 : bw = [] := by cases bw <;> simp_all
    subst h1 h2
    simp [n3Members, pNps]
  | cons m ms =>
    have := pMembers_n3 ms m rest
    obtain ⟨b, p⟩ := m
    cases b <;> cases ms <;>
      simp_all [n3Members, memTok, pNps]

/-! ### the induction -/

structure Good (p : Path) : Prop where
  prim : lvl p = .prim → ∀ rest f, 6 * (wrap p).length ≤ f + 4 → Reads pPrim f (wrap p) rest (norm p)
  elt : (lvl p = .prim ∨ lvl p = .elt) → ∀ rest, NoMod rest → ∀ f, 6 * (wrap p).length ≤ f + 3 →
    Reads pElt f (wrap p) rest (norm p)
  inv : lvl p ≠ .bad → ∀ rest, NoMod rest → ∀ f, 6 * (wrap p).length ≤ f + 2 → Reads pEltInv f (wrap p) rest (norm p)
  nohat : (lvl p = .prim ∨ lvl p = .elt) → ∀ rest, NoHat (wrap p ++ rest)
  pos : lvl p ≠ .bad → 1 ≤ (wrap p).length

theorem elt_from_prim {p : Path}
    (hP : ∀ rest f, 6 * (wrap p).length ≤ f + 4 → Reads pPrim f (wrap p) rest (norm p)) (hpos : 1 ≤ (wrap p).length) :
    ∀ rest, NoMod rest → ∀ f, 6 * (wrap p).length ≤ f + 3 → Reads pElt f (wrap p) rest (norm p) := by
  intro rest hm f hf
  obtain ⟨f', rfl⟩ : ∃ f', f = f' + 1 := ⟨f - 1, by omega⟩
  exact elt_of_prim (hP rest f' (by omega)) hm

theorem inv_from_elt {p : Path}
    (hE : ∀ rest, NoMod rest → ∀ f, 6 * (wrap p).length ≤ f + 3 → Reads pElt f (wrap p) rest (norm p))
    (hh : ∀ rest, NoHat (wrap p ++ rest)) (hpos : 1 ≤ (wrap p).length) :
    ∀ rest, NoMod rest → ∀ f, 6 * (wrap p).length ≤ f + 2 → Reads pEltInv f (wrap p) rest (norm p) := by
  intro rest hm f hf
  obtain ⟨f', rfl⟩ : ∃ f', f = f' + 1 := ⟨f - 1, by omega⟩
  exact eltInv_of_elt (hE rest hm f' (by omega)) (hh rest)

/-- a path whose text is a primary -/
theorem good_of_prim {p : Path} (hl : lvl p ≠ .bad → lvl p = .prim)
    (hP : lvl p = .prim → ∀ rest f, 6 * (wrap p).length ≤ f + 4 → Reads pPrim f (wrap p) rest (norm p))
    (hh : lvl p = .prim → ∀ rest, NoHat (wrap p ++ rest)) (hpos : lvl p = .prim → 1 ≤ (wrap p).length) : Good p := by
  have hpe : lvl p = .prim ∨ lvl p = .elt → lvl p = .prim := by
    rintro (h | h)
    · exact h
    · exact hl (by rw [h]; decide)
  exact {
    prim := hP
    elt := fun h => elt_from_prim (hP (hpe h)) (hpos (hpe h))
    inv := fun h => inv_from_elt (elt_from_prim (hP (hl h)) (hpos (hl h))) (hh (hl h)) (hpos (hl h))
    nohat := fun h => hh (hpe h)
    pos := fun h => hpos (hl h) }

theorem good_iri (p : Term) : Good (.iri p) := by
  apply good_of_prim
  · intro _; rw [lvl]
  · intro _ rest f hf
    rw [wrap_iri, norm]
    obtain ⟨f', rfl⟩ : ∃ f', f = f' + 1 := ⟨f - 1, by rw [wrap_iri] at hf; simp at hf; omega⟩
    exact prim_iri f' p rest
  · intro _ rest r; rw [wrap_iri]; simp
  · intro _; rw [wrap_iri]; simp

theorem good_neg (fw bw : List Term) : Good (.neg fw bw) := by
  have hlen : 1 ≤ (wrap (.neg fw bw)).length := by rw [wrap_neg, n3]; simp
  apply good_of_prim
  · intro _; rw [lvl]
  · intro _ rest f hf
    rw [wrap_neg, norm]
    obtain ⟨f', rfl⟩ : ∃ f', f = f' + 1 := ⟨f - 1, by omega⟩
    exact prim_neg f' fw bw rest
  · intro _ rest r; rw [wrap_neg, n3]; simp
  · intro _; exact hlen

theorem lvlInv_cases (l : Lvl) : (lvlInv l ≠ .prim ∧ lvlInv l ≠ .elt) ∧ (lvlInv l ≠ .bad → l = .prim ∨ l = .elt) := by
  cases l <;> simp [lvlInv]

theorem lvlMul_cases (l : Lvl) : lvlMul l ≠ .prim ∧ (lvlMul l ≠ .bad → l = .prim) ∧ lvlMul l ≠ .inv := by
  cases l <;> simp [lvlMul]

theorem good_inv {x : Path} (hx : Good x) : Good (.inv x) := by
  have e : lvl (.inv x) = lvlInv (lvl x) := by rw [lvl]
  have hc := lvlInv_cases (lvl x)
  refine ⟨fun h => absurd (e ▸ h) hc.1.1, ?_, ?_, ?_, ?_⟩
  · rintro (h | h)
    · exact absurd (e ▸ h) hc.1.1
    · exact absurd (e ▸ h) hc.1.2
  · intro h rest hm f hf
    rw [wrap_inv] at hf ⊢
    rw [norm]
    simp only [List.length_cons] at hf
    obtain ⟨f', rfl⟩ : ∃ f', f = f' + 1 := ⟨f - 1, by omega⟩
    exact eltInv_inv (hx.elt (hc.2 (e ▸ h)) rest hm f' (by omega))
  · rintro (h | h)
    · exact absurd (e ▸ h) hc.1.1
    · exact absurd (e ▸ h) hc.1.2
  · intro _; rw [wrap_inv]; simp

theorem good_mul {x : Path} (hx : Good x) (m : Mod) : Good (.mul x m) := by
  have e : lvl (.mul x m) = lvlMul (lvl x) := by rw [lvl]
  have hc := lvlMul_cases (lvl x)
  have hxp : lvl (.mul x m) ≠ .bad → lvl x = .prim := fun h => hc.2.1 (e ▸ h)
  have hE : lvl (.mul x m) ≠ .bad → ∀ rest, NoMod rest → ∀ f, 6 * (wrap (.mul x m)).length ≤ f + 3 →
      Reads pElt f (wrap (.mul x m)) rest (norm (.mul x m)) := by
    intro h rest _ f hf
    rw [wrap_mul] at hf ⊢
    rw [norm]
    simp only [List.length_append, List.length_cons, List.length_nil] at hf
    obtain ⟨f', rfl⟩ : ∃ f', f = f' + 1 := ⟨f - 1, by omega⟩
    exact elt_mul (hx.prim (hxp h) (.mod m :: rest) f' (by omega))
  have hH : lvl (.mul x m) ≠ .bad → ∀ rest, NoHat (wrap (.mul x m) ++ rest) := by
    intro h rest
    rw [wrap_mul, List.append_assoc]
    exact hx.nohat (Or.inl (hxp h)) _
  have hpos : 1 ≤ (wrap (.mul x m)).length := by rw [wrap_mul]; simp
  have hne : lvl (.mul x m) = .prim ∨ lvl (.mul x m) = .elt → lvl (.mul x m) ≠ .bad := by
    rintro (h | h) <;> rw [h] <;> decide
  exact {
    prim := fun h => absurd (e ▸ h) hc.1
    elt := fun h => hE (hne h)
    inv := fun h => inv_from_elt (hE h) (hH h) hpos
    nohat := fun h => hH (hne h)
    pos := fun _ => hpos }

theorem n3Rest_append_cases (sep : Tok) (ps : List Path) (rest : List Tok) :
    n3Rest sep ps ++ rest = rest ∨ ∃ r, n3Rest sep ps ++ rest = sep :: r := by
  cases ps with
  | nil => left; simp [n3Rest]
  | cons p ps => right; rw [n3Rest_cons]; exact ⟨_, rfl⟩

theorem readsL_seq : ∀ ps : List Path, (∀ p ∈ ps, Good p) → okList ps = true → ∀ rest, NoMod rest → NoSlash rest →
    ∀ f, 6 * (n3Rest .slash ps).length + 1 ≤ f → ReadsL pSeqRest f (n3Rest .slash ps) rest (normList ps)
  | [], _, _, rest, _, hs, f, hf => by
    obtain ⟨f', rfl⟩ : ∃ f', f = f' + 1 := ⟨f - 1, by omega⟩
    exact ⟨[], by simp only [n3Rest, List.nil_append, pSeqRest_stop f' hs], by rw [translateList, normList]⟩
  | p :: ps, hg, hok, rest, hm, hs, f, hf => by
    rw [okList, Bool.and_eq_true, bne_iff_ne] at hok
    rw [n3Rest_cons] at hf ⊢
    rw [normList]
    simp only [List.length_cons, List.length_append] at hf
    obtain ⟨f', rfl⟩ : ∃ f', f = f' + 1 := ⟨f - 1, by omega⟩
    have hm' : NoMod (n3Rest .slash ps ++ rest) := by
      rcases n3Rest_append_cases .slash ps rest with e | ⟨r, e⟩ <;> rw [e]
      · exact hm
      · intro m r'; simp
    exact seqRest_cons ((hg p (List.mem_cons_self ..)).inv hok.1 _ hm' f' (by omega))
      (readsL_seq ps (fun q hq => hg q (List.mem_cons_of_mem _ hq)) hok.2 rest hm hs f' (by omega))

theorem readsL_alt : ∀ ps : List Path, (∀ p ∈ ps, Good p) → okList ps = true → ∀ rest, NoMod rest → NoSlash rest →
    NoBar rest → ∀ f, 6 * (n3Rest .bar ps).length + 1 ≤ f → ReadsL pAltRest f (n3Rest .bar ps) rest (normList ps)
  | [], _, _, rest, _, _, hb, f, hf => by
    obtain ⟨f', rfl⟩ : ∃ f', f = f' + 1 := ⟨f - 1, by omega⟩
    exact ⟨[], by simp only [n3Rest, List.nil_append, pAltRest_stop f' hb], by rw [translateList, normList]⟩
  | p :: ps, hg, hok, rest, hm, hs, hb, f, hf => by
    rw [okList, Bool.and_eq_true, bne_iff_ne] at hok
    rw [n3Rest_cons] at hf ⊢
    rw [normList]
    simp only [List.length_cons, List.length_append] at hf
    have hp := hg p (List.mem_cons_self ..)
    have hpos := hp.pos hok.1
    obtain ⟨f', rfl⟩ : ∃ f', f = f' + 2 := ⟨f - 2, by omega⟩
    have hm' : NoMod (n3Rest .bar ps ++ rest) ∧ NoSlash (n3Rest .bar ps ++ rest) := by
      rcases n3Rest_append_cases .bar ps rest with e | ⟨r, e⟩ <;> rw [e]
      · exact ⟨hm, hs⟩
      · exact ⟨fun m r' => by simp, fun r' => by simp⟩
    exact altRest_cons (seq_of_eltInv (hp.inv hok.1 _ hm'.1 f' (by omega)) hm'.2)
      (readsL_alt ps (fun q hq => hg q (List.mem_cons_of_mem _ hq)) hok.2 rest hm hs hb (f' + 1) (by omega))

theorem lvl_seq2 (a b : Path) (bs : List Path) :
    (lvl (.seq a (b :: bs)) ≠ .bad → lvl (.seq a (b :: bs)) = .prim ∧ lvl a ≠ .bad ∧ okList (b :: bs) = true) := by
  rw [lvl, okList]
  split
  · next h =>
    intro _
    simp only [Bool.and_eq_true, bne_iff_ne] at h
    exact ⟨rfl, h.1, by simp only [Bool.and_eq_true, bne_iff_ne]; exact h.2⟩
  · intro h; exact absurd rfl h

theorem lvl_alt2 (a b : Path) (cs : List Path) :
    (lvl (.alt (a :: b :: cs)) ≠ .bad → lvl (.alt (a :: b :: cs)) = .prim ∧ lvl a ≠ .bad ∧ okList (b :: cs) = true) := by
  rw [lvl, okList]
  split
  · next h =>
    intro _
    simp only [Bool.and_eq_true, bne_iff_ne] at h
    exact ⟨rfl, h.1, by simp only [Bool.and_eq_true, bne_iff_ne]; exact h.2⟩
  · intro h; exact absurd rfl h

/-- the inside of a parenthesised sequence, read as a PathAlternative -/
theorem top_seq {a b : Path} {bs : List Path} (ha : Good a) (hbs : ∀ p ∈ b :: bs, Good p) (hl : lvl a ≠ .bad)
    (hok : okList (b :: bs) = true) : ∀ rest, NoMod rest → NoSlash rest → NoBar rest →
    ∀ f, 6 * (n3 (.seq a (b :: bs))).length ≤ f →
      Reads pAlt f (n3 (.seq a (b :: bs))) rest (norm (.seq a (b :: bs))) := by
  intro rest hm hs hb f hf
  have hpos := ha.pos hl
  rw [n3_seq] at hf ⊢
  rw [norm]
  have hlen : 1 ≤ (n3Rest .slash (b :: bs)).length := by rw [n3Rest_cons]; simp
  simp only [List.length_append] at hf
  obtain ⟨f', rfl⟩ : ∃ f', f = f' + 2 := ⟨f - 2, by omega⟩
  have hm' : NoMod (n3Rest .slash (b :: bs) ++ rest) := by
    rw [n3Rest_cons]; intro m r; simp
  have hl' := readsL_seq (b :: bs) hbs hok rest hm hs f' (by omega)
  rw [normList] at hl'
  exact alt_of_seq (seq_cons (ha.inv hl _ hm' f' (by omega)) hl') hb

theorem top_alt {a b : Path} {cs : List Path} (ha : Good a) (hbs : ∀ p ∈ b :: cs, Good p) (hl : lvl a ≠ .bad)
    (hok : okList (b :: cs) = true) : ∀ rest, NoMod rest → NoSlash rest → NoBar rest →
    ∀ f, 6 * (n3 (.alt (a :: b :: cs))).length ≤ f →
      Reads pAlt f (n3 (.alt (a :: b :: cs))) rest (norm (.alt (a :: b :: cs))) := by
  intro rest hm hs hb f hf
  have hpos := ha.pos hl
  rw [n3_alt] at hf ⊢
  rw [norm]
  have hlen : 1 ≤ (n3Rest .bar (b :: cs)).length := by rw [n3Rest_cons]; simp
  simp only [List.length_append] at hf
  obtain ⟨f', rfl⟩ : ∃ f', f = f' + 3 := ⟨f - 3, by omega⟩
  have hm' : NoMod (n3Rest .bar (b :: cs) ++ rest) ∧ NoSlash (n3Rest .bar (b :: cs) ++ rest) := by
    rw [n3Rest_cons]; exact ⟨fun m r => by simp, fun r => by simp⟩
  have hl' := readsL_alt (b :: cs) hbs hok rest hm hs hb (f' + 2) (by omega)
  rw [normList] at hl'
  exact alt_cons (seq_of_eltInv (ha.inv hl _ hm'.1 (f' + 1) (by omega)) hm'.2) hl'

/-- a parenthesised group is a primary -/
theorem good_paren {p : Path} (hw : wrap p = .lp :: n3 p ++ [.rp]) (hl : lvl p ≠ .bad → lvl p = .prim)
    (htop : lvl p ≠ .bad → ∀ rest, NoMod rest → NoSlash rest → NoBar rest → ∀ f, 6 * (n3 p).length ≤ f →
      Reads pAlt f (n3 p) rest (norm p)) : Good p := by
  have hlen : (wrap p).length = (n3 p).length + 2 := by rw [hw]; simp
  apply good_of_prim hl
  · intro h rest f hf
    have hne : lvl p ≠ .bad := by rw [h]; decide
    rw [hw]
    obtain ⟨f', rfl⟩ : ∃ f', f = f' + 1 := ⟨f - 1, by omega⟩
    exact prim_paren (htop hne (.rp :: rest) (fun m r => by simp) (fun r => by simp) (fun r => by simp) f' (by omega))
  · intro _ rest r; rw [hw]; simp
  · intro _; omega

theorem good_seq {a : Path} {as : List Path} (ha : Good a) (has : ∀ p ∈ as, Good p) : Good (.seq a as) := by
  cases as with
  | nil =>
    have e1 : lvl (.seq a []) = lvl a := by rw [lvl]
    have e2 : norm (.seq a []) = norm a := by rw [norm]
    exact ⟨by rw [e1, e2, wrap_seq1]; exact ha.prim, by rw [e1, e2, wrap_seq1]; exact ha.elt,
      by rw [e1, e2, wrap_seq1]; exact ha.inv, by rw [e1, wrap_seq1]; exact ha.nohat, by rw [e1, wrap_seq1]; exact ha.pos⟩
  | cons b bs =>
    apply good_paren (wrap_seq2 a b bs) (fun h => (lvl_seq2 a b bs h).1)
    intro h
    exact top_seq ha has (lvl_seq2 a b bs h).2.1 (lvl_seq2 a b bs h).2.2

theorem good_alt {as : List Path} (has : ∀ p ∈ as, Good p) : Good (.alt as) := by
  match as, has with
  | [], _ =>
    have e : lvl (.alt []) = .bad := by rw [lvl]
    have n1 : lvl (.alt []) ≠ .prim := by rw [e]; decide
    have n2 : ¬ (lvl (.alt []) = .prim ∨ lvl (.alt []) = .elt) := by rw [e]; decide
    exact ⟨fun h => absurd h n1, fun h => absurd h n2, fun h => absurd e h, fun h => absurd h n2, fun h => absurd e h⟩
  | [a], has =>
    have ha := has a (List.mem_cons_self ..)
    have e1 : lvl (.alt [a]) = lvl a := by rw [lvl]
    have e2 : norm (.alt [a]) = norm a := by rw [norm]
    exact ⟨by rw [e1, e2, wrap_alt1]; exact ha.prim, by rw [e1, e2, wrap_alt1]; exact ha.elt,
      by rw [e1, e2, wrap_alt1]; exact ha.inv, by rw [e1, wrap_alt1]; exact ha.nohat, by rw [e1, wrap_alt1]; exact ha.pos⟩
  | a :: b :: cs, has =>
    apply good_paren (wrap_alt2 a b cs) (fun h => (lvl_alt2 a b cs h).1)
    intro h
    exact top_alt (has a (List.mem_cons_self ..)) (fun q hq => has q (List.mem_cons_of_mem _ hq))
      (lvl_alt2 a b cs h).2.1 (lvl_alt2 a b cs h).2.2

mutual
theorem good : ∀ p : Path, Good p
  | .iri p => good_iri p
  | .neg fw bw => good_neg fw bw
  | .inv x => good_inv (good x)
  | .mul x m => good_mul (good x) m
  | .seq a as => good_seq (good a) (goodList as)
  | .alt as => good_alt (goodList as)
theorem goodList : ∀ ps : List Path, ∀ p ∈ ps, Good p
  | [] => by simp
  | p :: ps => by
    intro q hq
    rcases List.mem_cons.mp hq with e | e
    · exact e ▸ good p
    · exact goodList ps q e
end

/-- the whole text of a path, read as a PathAlternative -/
theorem top (p : Path) (hl : lvl p ≠ .bad) : ∀ rest, NoMod rest → NoSlash rest → NoBar rest →
    ∀ f, 6 * (n3 p).length + 2 ≤ f → Reads pAlt f (n3 p) rest (norm p) := by
  intro rest hm hs hb f hf
  have plain : needsParen p = false → Reads pAlt f (n3 p) rest (norm p) := by
    intro hnp
    have hpos := (good p).pos hl
    rw [n3_of_not_paren hnp] at hf ⊢
    obtain ⟨f', rfl⟩ : ∃ f', f = f' + 2 := ⟨f - 2, by omega⟩
    exact alt_of_seq (seq_of_eltInv ((good p).inv hl rest hm f' (by omega)) hs) hb
  match p, hl, hf, plain with
  | .seq a (b :: bs), hl, hf, _ =>
    exact top_seq (good a) (goodList (b :: bs)) (lvl_seq2 a b bs hl).2.1 (lvl_seq2 a b bs hl).2.2 rest hm hs hb f
      (by omega)
  | .alt (a :: b :: cs), hl, hf, _ =>
    exact top_alt (good a) (goodList (b :: cs)) (lvl_alt2 a b cs hl).2.1 (lvl_alt2 a b cs hl).2.2 rest hm hs hb f
      (by omega)
  | .iri _, _, _, plain => exact plain rfl
  | .neg _ _, _, _, plain => exact plain rfl
  | .inv _, _, _, plain => exact plain rfl
  | .mul _ _, _, _, plain => exact plain rfl
  | .seq _ [], _, _, plain => exact plain rfl
  | .alt [], _, _, plain => exact plain rfl
  | .alt [_], _, _, plain => exact plain rfl

/-- **the reader reads what the writer wrote**: for every path whose text is in the grammar (`lvl p ≠ bad`), reading
    `n3 p` succeeds with the fuel `readPath` uses, and `translate` of the tree is `norm p` -/
theorem read_n3 (p : Path) (hl : lvl p ≠ .bad) : ∃ t, readPath (n3 p) = some t ∧ translate t = norm p := by
  obtain ⟨t, h, ht⟩ := top p hl [] (fun m r => by simp) (fun r => by simp) (fun r => by simp)
    (6 * (n3 p).length + 6) (by omega)
  refine ⟨t, ?_, ht⟩
  rw [List.append_nil] at h
  simp only [readPath, h]

end RV.C11
