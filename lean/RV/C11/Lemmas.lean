import RV.C11.Model
import Mathlib.Logic.Relation
/-
  C11 — helper lemmas.

  Part 0: the relational vocabulary of the specification (composition, union, converse,
          closures, negated property set) — used by `rel` in Props.lean.
  Part 1: what it means for an evaluator to be correct for a relation (`Correct`), and the
          "absent terms are isolated" property of path relations (`Iso`).
  Part 2: one lemma per generator of rdflib/paths.py: if the argument evaluators are correct for
          their relations then the combined evaluator is correct for the combined relation.
-/
namespace RV.C11
open Relation

/-! ## Part 0 — relational vocabulary -/

abbrev Rel := Term → Term → Prop

/-- relational composition `R ; S` -/
def comp (R S : Rel) : Rel := fun x y => ∃ m, R x m ∧ S m y

/-- `R ; S₁ ; … ; Sₙ` -/
def compList : Rel → List Rel → Rel
  | R, [] => R
  | R, S :: Ss => comp R (compList S Ss)

/-- union of a list of relations -/
def unionList (Rs : List Rel) : Rel := fun x y => ∃ R ∈ Rs, R x y

/-- `?`, `*`, `+` : reflexive / reflexive-transitive / transitive closure.  The reflexive part is the
    identity on *all* terms; which zero-length pairs are answers is decided by `Restr`. -/
def closure : Mod → Rel → Rel
  | .zeroOrOne, R => fun x y => x = y ∨ R x y
  | .zeroOrMore, R => ReflTransGen R
  | .oneOrMore, R => TransGen R

/-- negated property set (SPARQL 1.1 §18.2.2.2): forward part ∪ converse of the inverse part; the
    forward part is present when there is a plain member or no member at all, the inverse part
    when there is an inverse member. -/
def negRel (g : Graph) (fw bw : List Term) : Rel := fun x y =>
  ((fw ≠ [] ∨ bw = []) ∧ ∃ p, (x, p, y) ∈ g ∧ p ∉ fw) ∨
  (bw ≠ [] ∧ ∃ p, (y, p, x) ∈ g ∧ p ∉ bw)

/-! ## Part 1 — correctness of an evaluator; isolation -/

/-- restriction of a relation to the given ends; when neither end is given the answer ranges
    over the nodes `N` of the graph (SPARQL's ZeroLengthPath with two variables) -/
def Restr (N : List Term) (s o : Option Term) (x y : Term) : Prop :=
  (∀ a, s = some a → x = a) ∧ (∀ b, o = some b → y = b) ∧ (s = none → o = none → x ∈ N ∧ y ∈ N)

/-- evaluator `e` yields exactly the pairs of `R` allowed by the given ends -/
def Correct (N : List Term) (e : Ev) (R : Rel) : Prop :=
  ∀ s o x y, (x, y) ∈ e s o ↔ R x y ∧ Restr N s o x y

/-- a relation only relates a term outside `N` to itself -/
def Iso (N : List Term) (R : Rel) : Prop := ∀ x y, R x y → x = y ∨ (x ∈ N ∧ y ∈ N)

theorem Iso.mem_right {N : List Term} {R : Rel} (h : Iso N R) {x y : Term} (r : R x y) (hx : x ∈ N) :
    y ∈ N := by
  rcases h x y r with e | ⟨_, hy⟩
  · exact e ▸ hx
  · exact hy

theorem Iso.mem_left {N : List Term} {R : Rel} (h : Iso N R) {x y : Term} (r : R x y) (hy : y ∈ N) :
    x ∈ N := by
  rcases h x y r with e | ⟨hx, _⟩
  · exact e ▸ hy
  · exact hx

theorem okPos_iff (b : Option Term) (x : Term) : okPos b x = true ↔ ∀ a, b = some a → x = a := by
  cases b with
  | none => simp [okPos]
  | some y =>
    simp only [okPos, beq_iff_eq, Option.some.injEq]
    constructor
    · intro h a ha; rw [h, ha]
    · intro h; exact h y rfl

/-! ### nodes -/

theorem mem_nodesAux (g : Graph) : ∀ (seen : List Term) (x : Term),
    x ∈ nodesAux seen g ↔ x ∈ seen ∨ ∃ t ∈ g, x = t.1 ∨ x = t.2.2 := by
  induction g with
  | nil => intro seen x; simp [nodesAux]
  | cons t g ih =>
    intro seen x
    simp only [nodesAux, ih, mem_sinsert, List.mem_cons, exists_eq_or_imp]
    grind

theorem mem_nodes {g : Graph} {x : Term} : x ∈ nodes g ↔ ∃ t ∈ g, x = t.1 ∨ x = t.2.2 := by
  simp [nodes, mem_nodesAux]

theorem nodup_nodesAux (g : Graph) : ∀ (seen : List Term), seen.Nodup → (nodesAux seen g).Nodup := by
  induction g with
  | nil => intro seen h; simpa [nodesAux]
  | cons t g ih => intro seen h; exact ih _ (nodup_sinsert (nodup_sinsert h))

theorem nodup_nodes (g : Graph) : (nodes g).Nodup := nodup_nodesAux g [] List.nodup_nil

theorem triple_nodes {g : Graph} {x p y : Term} (h : (x, p, y) ∈ g) : x ∈ nodes g ∧ y ∈ nodes g :=
  ⟨mem_nodes.mpr ⟨_, h, Or.inl rfl⟩, mem_nodes.mpr ⟨_, h, Or.inr rfl⟩⟩

/-! ## Part 2 — the generators -/

/-! ### plain predicate -/

theorem tri_correct (g : Graph) (p : Term) : Correct (nodes g) (tri g p) (fun x y => (x, p, y) ∈ g) := by
  intro s o x y
  simp only [tri, List.mem_map, List.mem_filter, Bool.and_eq_true, okPos_iff, beq_iff_eq, Restr]
  constructor
  · rintro ⟨⟨a, b, c⟩, ⟨ht, hs, hp, ho⟩, he⟩
    simp only [Prod.mk.injEq] at he
    obtain ⟨rfl, rfl⟩ := he
    simp only at hp; subst hp
    exact ⟨ht, hs, ho, fun _ _ => triple_nodes ht⟩
  · rintro ⟨ht, hs, ho, _⟩
    exact ⟨(x, p, y), ⟨ht, hs, rfl, ho⟩, rfl⟩

theorem tri_iso (g : Graph) (p : Term) : Iso (nodes g) (fun x y => (x, p, y) ∈ g) :=
  fun _ _ h => Or.inr (triple_nodes h)

/-! ### InvPath -/

theorem inv_correct {N : List Term} {e : Ev} {R : Rel} (h : Correct N e R) :
    Correct N (invEval e) (fun x y => R y x) := by
  intro s o x y
  simp only [invEval, List.mem_map, Restr]
  constructor
  · rintro ⟨⟨a, b⟩, hm, he⟩
    simp only [Prod.mk.injEq] at he
    obtain ⟨rfl, rfl⟩ := he
    obtain ⟨hr, h1, h2, h3⟩ := (h o s a b).mp hm
    exact ⟨hr, h2, h1, fun hs ho => (h3 ho hs).symm⟩
  · rintro ⟨hr, h1, h2, h3⟩
    exact ⟨(y, x), (h o s y x).mpr ⟨hr, h2, h1, fun ho hs => (h3 hs ho).symm⟩, rfl⟩

theorem inv_iso {N : List Term} {R : Rel} (h : Iso N R) : Iso N (fun x y => R y x) := by
  intro x y r
  rcases h y x r with e | ⟨a, b⟩
  · exact Or.inl e.symm
  · exact Or.inr ⟨b, a⟩

/-- pointwise `Correct` for argument lists -/
inductive CorrectL (N : List Term) : List Ev → List Rel → Prop
  | nil : CorrectL N [] []
  | cons {e : Ev} {R : Rel} {es : List Ev} {Rs : List Rel} :
      Correct N e R → CorrectL N es Rs → CorrectL N (e :: es) (R :: Rs)

/-! ### AlternativePath -/

theorem alt_correct {N : List Term} {es : List Ev} {Rs : List Rel}
    (h : CorrectL N es Rs) : Correct N (altEval es) (unionList Rs) := by
  intro s o x y
  simp only [altEval, List.mem_flatMap, unionList]
  induction h with
  | nil => simp
  | cons he _ ih =>
    simp only [List.mem_cons, exists_eq_or_imp, ih, he s o x y]
    grind

theorem alt_iso {N : List Term} {Rs : List Rel} (h : ∀ R ∈ Rs, Iso N R) : Iso N (unionList Rs) := by
  rintro x y ⟨R, hR, r⟩
  exact h R hR x y r

/-! ### NegatedPath -/

theorem negFixed_correct (g : Graph) (fw bw : List Term) :
    Correct (nodes g) (negEvalFixed g fw bw) (negRel g fw bw) := by
  intro s o x y
  simp only [negEvalFixed, negRel, Restr, List.mem_append]
  have hf : (!fw.isEmpty || bw.isEmpty) = true ↔ (fw ≠ [] ∨ bw = []) := by
    cases fw <;> cases bw <;> simp
  have hb : (!bw.isEmpty) = true ↔ bw ≠ [] := by cases bw <;> simp
  constructor
  · rintro (h | h)
    · split at h
      · next hc =>
        simp only [List.mem_map, List.mem_filter, Bool.and_eq_true, okPos_iff, Bool.not_eq_true',
          decide_eq_false_iff_not] at h
        obtain ⟨⟨a, p, c⟩, ⟨ht, hs, ho, hp⟩, he⟩ := h
        simp only [Prod.mk.injEq] at he
        obtain ⟨rfl, rfl⟩ := he
        exact ⟨Or.inl ⟨hf.mp hc, p, ht, hp⟩, hs, ho, fun _ _ => triple_nodes ht⟩
      · simp at h
    · split at h
      · next hc =>
        simp only [List.mem_map, List.mem_filter, Bool.and_eq_true, okPos_iff, Bool.not_eq_true',
          decide_eq_false_iff_not] at h
        obtain ⟨⟨a, p, c⟩, ⟨ht, ho, hs, hp⟩, he⟩ := h
        simp only [Prod.mk.injEq] at he
        obtain ⟨rfl, rfl⟩ := he
        exact ⟨Or.inr ⟨hb.mp hc, p, ht, hp⟩, hs, ho, fun _ _ => (triple_nodes ht).symm⟩
      · simp at h
  · rintro ⟨(⟨hc, p, ht, hp⟩ | ⟨hc, p, ht, hp⟩), hs, ho, _⟩
    · left
      rw [if_pos (hf.mpr hc)]
      simp only [List.mem_map, List.mem_filter, Bool.and_eq_true, okPos_iff, Bool.not_eq_true',
        decide_eq_false_iff_not]
      exact ⟨(x, p, y), ⟨ht, hs, ho, hp⟩, rfl⟩
    · right
      rw [if_pos (hb.mpr hc)]
      simp only [List.mem_map, List.mem_filter, Bool.and_eq_true, okPos_iff, Bool.not_eq_true',
        decide_eq_false_iff_not]
      exact ⟨(y, p, x), ⟨ht, ho, hs, hp⟩, rfl⟩

theorem neg_iso (g : Graph) (fw bw : List Term) : Iso (nodes g) (negRel g fw bw) := by
  rintro x y (⟨_, p, ht, _⟩ | ⟨_, p, ht, _⟩)
  · exact Or.inr (triple_nodes ht)
  · exact Or.inr (triple_nodes ht).symm

/-! ### composition and closures preserve isolation -/

theorem comp_iso {N : List Term} {R S : Rel} (hR : Iso N R) (hS : Iso N S) : Iso N (comp R S) := by
  rintro x y ⟨m, r, s⟩
  rcases hR x m r with e | ⟨hx, hm⟩
  · subst e; exact hS x y s
  · exact Or.inr ⟨hx, hS.mem_right s hm⟩

theorem compList_iso {N : List Term} : ∀ (Rs : List Rel) (R : Rel), Iso N R → (∀ S ∈ Rs, Iso N S) →
    Iso N (compList R Rs)
  | [], _, hR, _ => hR
  | S :: Ss, _, hR, h =>
    comp_iso hR (compList_iso Ss S (h S (List.mem_cons_self ..)) (fun T hT => h T (List.mem_cons_of_mem _ hT)))

theorem transGen_iso {N : List Term} {R : Rel} (h : Iso N R) : Iso N (TransGen R) := by
  intro x y r
  induction r with
  | single r => exact h _ _ r
  | tail _ r ih =>
    rcases ih with e | ⟨hx, hb⟩
    · subst e; exact h _ _ r
    · exact Or.inr ⟨hx, h.mem_right r hb⟩

theorem closure_iso {N : List Term} {R : Rel} (m : Mod) (h : Iso N R) : Iso N (closure m R) := by
  intro x y r
  cases m with
  | zeroOrOne =>
    rcases r with e | r
    · exact Or.inl e
    · exact h _ _ r
  | zeroOrMore =>
    rcases reflTransGen_iff_eq_or_transGen.mp r with e | r
    · exact Or.inl e.symm
    · exact transGen_iso h _ _ r
  | oneOrMore => exact transGen_iso h _ _ r


/-! ### SequencePath -/

/-- `_eval_seq` is right when the start is given, or when neither end is given.
    (With only the end given it would lose a zero-length match on an absent term: that is why
    `SequencePath.eval` must go backward then.) -/
theorem seqFw_correct {N : List Term} {es : List Ev} {Rs : List Rel} (hL : CorrectL N es Rs) :
    ∀ (e : Ev) (R : Rel), Correct N e R → Iso N R → (∀ S ∈ Rs, Iso N S) →
    ∀ s o, (s ≠ none ∨ o = none) → ∀ x y,
      (x, y) ∈ seqFw e es s o ↔ compList R Rs x y ∧ Restr N s o x y := by
  induction hL with
  | nil => intro e R he _ _ s o _ x y; exact he s o x y
  | @cons e' R' es' Rs' he' _ ih =>
    intro e R he hR hRs s o hso x y
    have hR' : Iso N R' := hRs R' (List.mem_cons_self ..)
    have hRs' : ∀ S ∈ Rs', Iso N S := fun S hS => hRs S (List.mem_cons_of_mem _ hS)
    have hC : Iso N (compList R' Rs') := compList_iso Rs' R' hR' hRs'
    simp only [seqFw, List.mem_flatMap, List.mem_map, compList, comp]
    constructor
    · rintro ⟨⟨x', m⟩, hxm, ⟨r1, y'⟩, hr, heq⟩
      simp only [Prod.mk.injEq] at heq
      obtain ⟨rfl, rfl⟩ := heq
      obtain ⟨r, h1, _, h3⟩ := (he s none x' m).mp hxm
      obtain ⟨c, g1, g2, _⟩ := (ih e' R' he' hR' hRs' (some m) o (Or.inl (by simp)) r1 y').mp hr
      have : r1 = m := g1 m rfl
      subst this
      refine ⟨⟨r1, r, c⟩, h1, g2, fun hs ho => ?_⟩
      obtain ⟨hx, hm⟩ := h3 hs rfl
      exact ⟨hx, hC.mem_right c hm⟩
    · rintro ⟨⟨m, r, c⟩, h1, h2, h3⟩
      refine ⟨(x, m), (he s none x m).mpr ⟨r, h1, by simp, fun hs _ => ?_⟩, (m, y),
        (ih e' R' he' hR' hRs' (some m) o (Or.inl (by simp)) m y).mpr ⟨c, by simp, h2, by simp⟩, rfl⟩
      rcases hso with hso | hso
      · exact absurd hs hso
      · have := (h3 hs hso).1
        exact ⟨this, hR.mem_right r this⟩

/-- composition written from the last step backward: `L` is the last step, `Ls` the earlier ones, reversed -/
def compListRev : Rel → List Rel → Rel
  | L, [] => L
  | L, L' :: Ls => comp (compListRev L' Ls) L

theorem compListRev_iso {N : List Term} : ∀ (Ls : List Rel) (L : Rel), Iso N L → (∀ S ∈ Ls, Iso N S) →
    Iso N (compListRev L Ls)
  | [], _, hL, _ => hL
  | S :: Ss, _, hL, h =>
    comp_iso (compListRev_iso Ss S (h S (List.mem_cons_self ..)) (fun T hT => h T (List.mem_cons_of_mem _ hT))) hL

/-- `_eval_seq_bw` is right when the end is given (it is only called then) -/
theorem seqBwRev_correct {N : List Term} {ls : List Ev} {Ls : List Rel} (hL : CorrectL N ls Ls) :
    ∀ (l : Ev) (L : Rel), Correct N l L → Iso N L → (∀ S ∈ Ls, Iso N S) →
    ∀ s o, (o ≠ none ∨ s = none) → ∀ x y,
      (x, y) ∈ seqBwRev l ls s o ↔ compListRev L Ls x y ∧ Restr N s o x y := by
  induction hL with
  | nil => intro l L hl _ _ s o _ x y; exact hl s o x y
  | @cons l' L' ls' Ls' hl' _ ih =>
    intro l L hl hLi hLs s o hso x y
    have hL' : Iso N L' := hLs L' (List.mem_cons_self ..)
    have hLs' : ∀ S ∈ Ls', Iso N S := fun S hS => hLs S (List.mem_cons_of_mem _ hS)
    have hC : Iso N (compListRev L' Ls') := compListRev_iso Ls' L' hL' hLs'
    simp only [seqBwRev, List.mem_flatMap, List.mem_map, compListRev, comp]
    constructor
    · rintro ⟨⟨m, y'⟩, hmy, ⟨x', r2⟩, hr, heq⟩
      simp only [Prod.mk.injEq] at heq
      obtain ⟨rfl, rfl⟩ := heq
      obtain ⟨r, _, h2, h3⟩ := (hl none o m y').mp hmy
      obtain ⟨c, g1, g2, _⟩ := (ih l' L' hl' hL' hLs' s (some m) (Or.inl (by simp)) x' r2).mp hr
      have : r2 = m := g2 m rfl
      subst this
      refine ⟨⟨r2, c, r⟩, g1, h2, fun hs ho => ?_⟩
      obtain ⟨hm, hy⟩ := h3 rfl ho
      exact ⟨hC.mem_left c hm, hy⟩
    · rintro ⟨⟨m, c, r⟩, h1, h2, h3⟩
      refine ⟨(m, y), (hl none o m y).mpr ⟨r, by simp, h2, fun _ ho => ?_⟩, (x, m),
        (ih l' L' hl' hL' hLs' s (some m) (Or.inl (by simp)) x m).mpr ⟨c, h1, by simp, by simp⟩, rfl⟩
      rcases hso with hso | hso
      · exact absurd ho hso
      · have := (h3 hso ho).2
        exact ⟨hLi.mem_left r this, this⟩

theorem comp_assoc (A B C : Rel) : comp (comp A B) C = comp A (comp B C) := by
  funext x y
  apply propext
  constructor
  · rintro ⟨m, ⟨n, a, b⟩, c⟩; exact ⟨n, a, m, b, c⟩
  · rintro ⟨n, a, m, b, c⟩; exact ⟨m, ⟨n, a, b⟩, c⟩

/-- the steps in `acc` (most recent first) put in front of `X` -/
def compAcc : List Rel → Rel → Rel
  | [], X => X
  | A :: As, X => compAcc As (comp A X)

theorem compAcc_comp : ∀ (As : List Rel) (X Y : Rel), comp (compAcc As X) Y = compAcc As (comp X Y)
  | [], _, _ => rfl
  | A :: As, X, Y => by
    simp only [compAcc]
    rw [compAcc_comp As (comp A X) Y, comp_assoc]

theorem compListRev_eq_compAcc : ∀ (acc : List Rel) (R : Rel), compListRev R acc = compAcc acc R
  | [], _ => rfl
  | A :: As, R => by
    simp only [compListRev, compAcc]
    rw [compListRev_eq_compAcc As A, compAcc_comp]

theorem compListRev_revOnto : ∀ (Rs : List Rel) (R : Rel) (acc : List Rel),
    compListRev (revOnto Rs R acc).1 (revOnto Rs R acc).2 = compAcc acc (compList R Rs)
  | [], R, acc => by simp only [revOnto, compList]; exact compListRev_eq_compAcc acc R
  | R' :: Rs, R, acc => by
    simp only [revOnto, compList]
    rw [compListRev_revOnto Rs R' (R :: acc)]
    rfl

theorem revOnto_correctL {N : List Term} {es : List Ev} {Rs : List Rel} (hL : CorrectL N es Rs) :
    ∀ (e : Ev) (R : Rel) (ae : List Ev) (aR : List Rel), Correct N e R → CorrectL N ae aR →
      Correct N (revOnto es e ae).1 (revOnto Rs R aR).1 ∧ CorrectL N (revOnto es e ae).2 (revOnto Rs R aR).2 := by
  induction hL with
  | nil => intro e R ae aR he ha; exact ⟨he, ha⟩
  | cons he' _ ih => intro e R ae aR he ha; exact ih _ _ _ _ he' (.cons he ha)

theorem revOnto_all {α : Type} (P : α → Prop) : ∀ (xs : List α) (x : α) (acc : List α),
    P x → (∀ a ∈ xs, P a) → (∀ a ∈ acc, P a) →
    P (revOnto xs x acc).1 ∧ ∀ a ∈ (revOnto xs x acc).2, P a
  | [], _, _, hx, _, ha => ⟨hx, ha⟩
  | x' :: xs, x, acc, hx, hxs, ha =>
    revOnto_all P xs x' (x :: acc) (hxs x' (List.mem_cons_self ..))
      (fun a h => hxs a (List.mem_cons_of_mem _ h))
      (fun a h => by rcases List.mem_cons.mp h with rfl | h; exact hx; exact ha a h)

/-- `SequencePath.eval` -/
theorem seq_correct {N : List Term} {e : Ev} {R : Rel} {es : List Ev} {Rs : List Rel}
    (he : Correct N e R) (hL : CorrectL N es Rs) (hR : Iso N R) (hRs : ∀ S ∈ Rs, Iso N S) :
    Correct N (seqEval e es) (compList R Rs) := by
  intro s o x y
  cases s with
  | some a => exact seqFw_correct hL e R he hR hRs (some a) o (Or.inl (by simp)) x y
  | none =>
    cases o with
    | none => exact seqFw_correct hL e R he hR hRs none none (Or.inr rfl) x y
    | some b =>
      simp only [seqEval]
      obtain ⟨h1, h2⟩ := revOnto_correctL hL e R [] [] he .nil
      obtain ⟨i1, i2⟩ := revOnto_all (Iso N) Rs R [] hR hRs (by simp)
      rw [seqBwRev_correct h2 _ _ h1 i1 i2 none (some b) (Or.inl (by simp)) x y,
        compListRev_revOnto Rs R []]
      rfl


/-! ### MulPath: the traversal with a `seen` set computes the transitive closure -/

/-- how many entries of the universe `V` are not yet in `seen` — the termination measure -/
def unseen (V seen : List Term) : Nat := V.countP (fun v => !(decide (v ∈ seen)))

theorem unseen_nil (V : List Term) : unseen V [] = V.length := by
  simp [unseen]

theorem unseen_mono {V seen seen' : List Term} (h : ∀ v, v ∈ seen → v ∈ seen') :
    unseen V seen' ≤ unseen V seen := by
  apply List.countP_mono_left
  intro v _ hv
  simp only [Bool.not_eq_true', decide_eq_false_iff_not] at hv ⊢
  exact fun hc => hv (h v hc)

theorem unseen_insert_lt {V seen : List Term} {x : Term} (hx : x ∈ V) (hn : x ∉ seen) :
    unseen V (sinsert seen x) < unseen V seen := by
  induction V with
  | nil => simp at hx
  | cons v V ih =>
    have hm : unseen V (sinsert seen x) ≤ unseen V seen :=
      unseen_mono (fun w hw => mem_sinsert.mpr (Or.inr hw))
    simp only [unseen, List.countP_cons, mem_sinsert] at ih hm ⊢
    by_cases hvx : v = x
    · subst hvx
      simp only [true_or, decide_true, Bool.not_true, Bool.false_eq_true, if_false,
        hn, decide_false, Bool.not_false, if_true]
      omega
    · have hx' : x ∈ V := by
        rcases List.mem_cons.mp hx with e | e
        · exact absurd e.symm hvx
        · exact e
      have := ih hx'
      by_cases hvs : v ∈ seen
      · simp only [hvs, or_true, decide_true, Bool.not_true, Bool.false_eq_true, if_false]
        omega
      · simp only [hvx, hvs, or_self, decide_false, Bool.not_false, if_true]
        omega

theorem unseen_pos {V seen : List Term} {x : Term} (hx : x ∈ V) (hn : x ∉ seen) : 0 < unseen V seen := by
  have := unseen_insert_lt hx hn
  omega

/-- what one call `_fwd(subj, obj, seen)` achieves -/
structure FwdSpec (R : Rel) (obj : Option Term) (subj : Term) (seen : List Term) (d : Dfs) : Prop where
  mono : ∀ v ∈ seen, v ∈ d.seen
  self : subj ∈ d.seen
  /-- every node visited during this call has all its successors visited and reported -/
  closed : ∀ v ∈ d.seen, v ∉ seen → ∀ w, R v w → w ∈ d.seen ∧ (okPos obj w = true → ∃ x, (x, w) ∈ d.out)
  sound : ∀ x y, (x, y) ∈ d.out → x = subj ∧ okPos obj y = true ∧ TransGen R subj y
  ok : d.ok = true

/-- what the loop over the successors `L` of `subj` achieves -/
structure LoopSpec (R : Rel) (obj : Option Term) (subj : Term) (L : List Pair) (seen : List Term)
    (d : Dfs) : Prop where
  mono : ∀ v ∈ seen, v ∈ d.seen
  succ : ∀ so ∈ L, so.2 ∈ d.seen ∧ (okPos obj so.2 = true → ∃ x, (x, so.2) ∈ d.out)
  closed : ∀ v ∈ d.seen, v ∉ seen → ∀ w, R v w → w ∈ d.seen ∧ (okPos obj w = true → ∃ x, (x, w) ∈ d.out)
  sound : ∀ x y, (x, y) ∈ d.out → x = subj ∧ okPos obj y = true ∧ TransGen R subj y
  ok : d.ok = true

theorem fwdLoop_spec {R : Rel} {obj : Option Term} {V : List Term} {n : Nat}
    {rec : Term → List Term → Dfs} {subj : Term}
    (hrec : ∀ o seen, o ∈ V → o ∉ seen → unseen V seen ≤ n → FwdSpec R obj o seen (rec o seen))
    (hV : ∀ w, R subj w → w ∈ V) :
    ∀ (L : List Pair) (seen : List Term), (∀ so ∈ L, so.1 = subj ∧ R subj so.2) → unseen V seen ≤ n →
      LoopSpec R obj subj L seen (fwdLoop rec true obj L seen) := by
  intro L
  induction L with
  | nil =>
    intro seen _ _
    exact ⟨fun v h => h, by simp, fun v h hn => absurd h hn, by simp [fwdLoop], rfl⟩
  | cons so rest ih =>
    intro seen hL hn
    have hso := hL so (List.mem_cons_self ..)
    have hrest : ∀ so' ∈ rest, so'.1 = subj ∧ R subj so'.2 := fun so' h => hL so' (List.mem_cons_of_mem _ h)
    by_cases hs : so.2 ∈ seen
    · -- already seen: no recursion
      have L2 := ih seen hrest hn
      have hd : fwdLoop rec true obj (so :: rest) seen =
          ⟨(if okPos obj so.2 then [so] else []) ++ (fwdLoop rec true obj rest seen).out,
           (fwdLoop rec true obj rest seen).seen, (fwdLoop rec true obj rest seen).ok⟩ := by
        simp [fwdLoop, hs]
      rw [hd]
      refine ⟨L2.mono, ?_, ?_, ?_, L2.ok⟩
      · intro so' hso'
        rcases List.mem_cons.mp hso' with e | e
        · subst e
          refine ⟨L2.mono _ hs, fun hok => ⟨so'.1, ?_⟩⟩
          simp [hok]
        · obtain ⟨a, b⟩ := L2.succ so' e
          exact ⟨a, fun hok => (b hok).imp fun x hx => List.mem_append_right _ hx⟩
      · intro v hv hvn w r
        obtain ⟨a, b⟩ := L2.closed v hv hvn w r
        exact ⟨a, fun hok => (b hok).imp fun x hx => List.mem_append_right _ hx⟩
      · intro x y hxy
        rcases List.mem_append.mp hxy with h | h
        · split at h
          · next hok =>
            simp only [List.mem_singleton] at h
            subst h
            exact ⟨hso.1, hok, TransGen.single hso.2⟩
          · simp at h
        · exact L2.sound x y h
    · -- new node: recurse, then continue with the enlarged `seen`
      have F1 := hrec so.2 seen (hV _ hso.2) hs hn
      have hn1 : unseen V (rec so.2 seen).seen ≤ n := Nat.le_trans (unseen_mono F1.mono) hn
      have L2 := ih (rec so.2 seen).seen hrest hn1
      have hd : fwdLoop rec true obj (so :: rest) seen =
          ⟨(if okPos obj so.2 then [so] else []) ++
             ((rec so.2 seen).out.map (fun r => (so.1, r.2)) ++ (fwdLoop rec true obj rest (rec so.2 seen).seen).out),
           (fwdLoop rec true obj rest (rec so.2 seen).seen).seen,
           (rec so.2 seen).ok && (fwdLoop rec true obj rest (rec so.2 seen).seen).ok⟩ := by
        simp [fwdLoop, hs]
      rw [hd]
      refine ⟨fun v h => L2.mono _ (F1.mono v h), ?_, ?_, ?_, by simp [F1.ok, L2.ok]⟩
      · intro so' hso'
        rcases List.mem_cons.mp hso' with e | e
        · subst e
          refine ⟨L2.mono _ F1.self, fun hok => ⟨so'.1, ?_⟩⟩
          simp [hok]
        · obtain ⟨a, b⟩ := L2.succ so' e
          exact ⟨a, fun hok => (b hok).imp fun x hx =>
            List.mem_append_right _ (List.mem_append_right _ hx)⟩
      · intro v hv hvn w r
        by_cases hv1 : v ∈ (rec so.2 seen).seen
        · obtain ⟨a, b⟩ := F1.closed v hv1 hvn w r
          refine ⟨L2.mono _ a, fun hok => ?_⟩
          obtain ⟨x, hx⟩ := b hok
          exact ⟨so.1, List.mem_append_right _ (List.mem_append_left _
            (List.mem_map.mpr ⟨(x, w), hx, rfl⟩))⟩
        · obtain ⟨a, b⟩ := L2.closed v hv hv1 w r
          exact ⟨a, fun hok => (b hok).imp fun x hx =>
            List.mem_append_right _ (List.mem_append_right _ hx)⟩
      · intro x y hxy
        rcases List.mem_append.mp hxy with h | h
        · split at h
          · next hok =>
            simp only [List.mem_singleton] at h
            subst h
            exact ⟨hso.1, hok, TransGen.single hso.2⟩
          · simp at h
        · rcases List.mem_append.mp h with h | h
          · obtain ⟨⟨r1, r2⟩, hr, he⟩ := List.mem_map.mp h
            simp only [Prod.mk.injEq] at he
            obtain ⟨rfl, rfl⟩ := he
            obtain ⟨_, hok, ht⟩ := F1.sound r1 r2 hr
            exact ⟨hso.1, hok, TransGen.head hso.2 ht⟩
          · exact L2.sound x y h

theorem fwd_spec {N : List Term} {ev : Ev} {R : Rel} (hev : Correct N ev R) (obj : Option Term)
    {V : List Term} (hV : ∀ v ∈ V, ∀ w, R v w → w ∈ V) :
    ∀ (n : Nat) (subj : Term) (seen : List Term), subj ∈ V → subj ∉ seen → unseen V seen ≤ n →
      FwdSpec R obj subj seen (fwd ev true obj n subj seen) := by
  intro n
  induction n with
  | zero =>
    intro subj seen hs hn h0
    have := unseen_pos hs hn
    omega
  | succ n ih =>
    intro subj seen hs hn hle
    have hlt := unseen_insert_lt hs hn
    have hL : ∀ so ∈ ev (some subj) none, so.1 = subj ∧ R subj so.2 := by
      intro so hso
      obtain ⟨r, h1, _, _⟩ := (hev (some subj) none so.1 so.2).mp hso
      have := h1 subj rfl
      exact ⟨this, this ▸ r⟩
    have LS := fwdLoop_spec (R := R) (obj := obj) (V := V) (n := n) (rec := fwd ev true obj n)
      (subj := subj) ih (hV subj hs) (ev (some subj) none) (sinsert seen subj) hL (by omega)
    show FwdSpec R obj subj seen (fwdLoop (fwd ev true obj n) true obj (ev (some subj) none) (sinsert seen subj))
    refine ⟨fun v h => LS.mono v (mem_sinsert.mpr (Or.inr h)), LS.mono subj (mem_sinsert.mpr (Or.inl rfl)),
      ?_, LS.sound, LS.ok⟩
    intro v hv hvn w r
    by_cases hvs : v = subj
    · subst hvs
      have : (v, w) ∈ ev (some v) none := (hev (some v) none v w).mpr ⟨r, by simp [Restr]⟩
      exact LS.succ (v, w) this
    · exact LS.closed v hv (fun h => by
        rcases mem_sinsert.mp h with e | e
        · exact hvs e
        · exact hvn e) w r


/-- `_fwd(a, obj, set())` with fuel `|N| + 1`: exactly the nodes reachable from `a` in one or more
    steps (that pass the end filter), and the fuel is never exhausted -/
theorem fwd_top {N : List Term} {ev : Ev} {R : Rel} (hev : Correct N ev R) (hR : Iso N R)
    (obj : Option Term) (a : Term) :
    (fwd ev true obj (N.length + 1) a []).ok = true ∧
    ∀ x y, (x, y) ∈ (fwd ev true obj (N.length + 1) a []).out ↔
      x = a ∧ okPos obj y = true ∧ TransGen R a y := by
  have hV : ∀ v ∈ a :: N, ∀ w, R v w → w ∈ a :: N := by
    intro v hv w r
    rcases hR v w r with e | ⟨_, hw⟩
    · exact e ▸ hv
    · exact List.mem_cons_of_mem _ hw
  have S := fwd_spec hev obj hV (N.length + 1) a [] (List.mem_cons_self ..) (by simp)
    (by rw [unseen_nil]; simp)
  refine ⟨S.ok, fun x y => ⟨S.sound x y, ?_⟩⟩
  rintro ⟨rfl, hok, ht⟩
  have reach : ∀ v, ReflTransGen R x v → v ∈ (fwd ev true obj (N.length + 1) x []).seen := by
    intro v hv
    induction hv with
    | refl => exact S.self
    | tail _ r ih => exact (S.closed _ ih (by simp) _ r).1
  obtain ⟨v, hv, r⟩ := TransGen.tail'_iff.mp ht
  obtain ⟨x', hx'⟩ := (S.closed v (reach v hv) (by simp) y r).2 hok
  have := (S.sound x' y hx').1
  exact this ▸ hx'

/-- `?` : one step, no recursion -/
theorem fwdLoop_once (rec : Term → List Term → Dfs) (obj : Option Term) : ∀ (L : List Pair) (seen : List Term),
    (fwdLoop rec false obj L seen).out = L.filter (fun so => okPos obj so.2) ∧
    (fwdLoop rec false obj L seen).ok = true := by
  intro L
  induction L with
  | nil => intro seen; simp [fwdLoop]
  | cons so rest ih =>
    intro seen
    obtain ⟨h1, h2⟩ := ih seen
    by_cases hok : okPos obj so.2 = true <;> simp [fwdLoop, hok, h1, h2]

theorem fwd_once (ev : Ev) (obj : Option Term) (n : Nat) (a : Term) (seen : List Term) :
    (fwd ev false obj (n + 1) a seen).out = (ev (some a) none).filter (fun so => okPos obj so.2) ∧
    (fwd ev false obj (n + 1) a seen).ok = true :=
  fwdLoop_once _ obj _ _

/-! `_bwd` is `_fwd` on the converse evaluator, with the pairs swapped back -/

def Dfs.mirror (d : Dfs) : Dfs := ⟨d.out.map (fun r => (r.2, r.1)), d.seen, d.ok⟩

theorem bwdLoop_mirror {rec rec' : Term → List Term → Dfs} (h : ∀ o seen, rec o seen = (rec' o seen).mirror)
    (more : Bool) : ∀ (L : List Pair) (seen : List Term),
    bwdLoop rec more L seen = (fwdLoop rec' more none (L.map (fun r => (r.2, r.1))) seen).mirror := by
  intro L
  induction L with
  | nil => intro seen; simp [bwdLoop, fwdLoop, Dfs.mirror]
  | cons so rest ih =>
    intro seen
    by_cases hc : (more && !decide (so.1 ∈ seen)) = true
    · simp only [bwdLoop, hc, if_true, List.map_cons, fwdLoop, okPos, h, ih]
      simp [Dfs.mirror, Function.comp_def]
    · simp only [bwdLoop, hc, List.map_cons, fwdLoop, okPos, ih]
      simp [Dfs.mirror]

theorem bwd_mirror (ev : Ev) (more : Bool) : ∀ (n : Nat) (o : Term) (seen : List Term),
    bwd ev more n o seen = (fwd (invEval ev) more none n o seen).mirror := by
  intro n
  induction n with
  | zero => intro o seen; simp [bwd, fwd, Dfs.mirror]
  | succ n ih =>
    intro o seen
    simp only [bwd, fwd]
    exact bwdLoop_mirror ih more _ _

theorem bwd_top {N : List Term} {ev : Ev} {R : Rel} (hev : Correct N ev R) (hR : Iso N R) (b : Term) :
    (bwd ev true (N.length + 1) b []).ok = true ∧
    ∀ x y, (x, y) ∈ (bwd ev true (N.length + 1) b []).out ↔ y = b ∧ TransGen R x b := by
  obtain ⟨h1, h2⟩ := fwd_top (inv_correct hev) (inv_iso hR) none b
  rw [bwd_mirror]
  refine ⟨h1, fun x y => ?_⟩
  simp only [Dfs.mirror, List.mem_map]
  constructor
  · rintro ⟨⟨p, q⟩, hm, he⟩
    simp only [Prod.mk.injEq] at he
    obtain ⟨rfl, rfl⟩ := he
    obtain ⟨e, _, t⟩ := (h2 p q).mp hm
    exact ⟨e, transGen_swap.mp t⟩
  · rintro ⟨rfl, t⟩
    exact ⟨(y, x), (h2 y x).mpr ⟨rfl, rfl, transGen_swap.mpr t⟩, rfl⟩

theorem bwd_once (ev : Ev) (n : Nat) (b : Term) (seen : List Term) :
    (∀ x y, (x, y) ∈ (bwd ev false (n + 1) b seen).out ↔ (x, y) ∈ ev none (some b)) ∧
    (bwd ev false (n + 1) b seen).ok = true := by
  rw [bwd_mirror]
  obtain ⟨h1, h2⟩ := fwd_once (invEval ev) none n b seen
  refine ⟨fun x y => ?_, h2⟩
  simp only [Dfs.mirror, h1, List.mem_map, List.mem_filter, okPos, and_true, invEval]
  constructor
  · rintro ⟨⟨p, q⟩, ⟨⟨u, v⟩, hm, he'⟩, he⟩
    simp only [Prod.mk.injEq] at he he'
    obtain ⟨rfl, rfl⟩ := he
    obtain ⟨rfl, rfl⟩ := he'
    exact hm
  · intro hm
    exact ⟨(y, x), ⟨(x, y), hm, rfl⟩, rfl⟩

/-! both ends free -/

theorem mem_allStarts (ev : Ev) (fuel : Nat) : ∀ (L : List Pair) (seen : List Term) (p : Pair),
    p ∈ (allStarts ev fuel L seen).1 ↔
      ∃ so ∈ L, so.1 ∉ seen ∧ p ∈ (fwd ev true none fuel so.1 []).out := by
  intro L
  induction L with
  | nil => intro seen p; simp [allStarts]
  | cons so rest ih =>
    intro seen p
    by_cases hs : so.1 ∈ seen
    · simp only [allStarts, hs, if_true, ih, List.mem_cons, exists_eq_or_imp, not_true_eq_false,
        false_and, false_or]
    · simp only [allStarts, hs, if_false, List.mem_append, ih, List.mem_cons, exists_eq_or_imp,
        not_false_eq_true, true_and, mem_sinsert, not_or]
      constructor
      · rintro (h | ⟨so', h1, ⟨_, h2⟩, h3⟩)
        · exact Or.inl h
        · exact Or.inr ⟨so', h1, h2, h3⟩
      · rintro (h | ⟨so', h1, h2, h3⟩)
        · exact Or.inl h
        · by_cases e : so'.1 = so.1
          · exact Or.inl (e ▸ h3)
          · exact Or.inr ⟨so', h1, ⟨e, h2⟩, h3⟩

theorem allStarts_ok (ev : Ev) (fuel : Nat) : ∀ (L : List Pair) (seen : List Term),
    (∀ so ∈ L, (fwd ev true none fuel so.1 []).ok = true) → (allStarts ev fuel L seen).2 = true := by
  intro L
  induction L with
  | nil => intro seen _; simp [allStarts]
  | cons so rest ih =>
    intro seen h
    have h1 := h so (List.mem_cons_self ..)
    have h2 := fun s => ih s (fun so' hso' => h so' (List.mem_cons_of_mem _ hso'))
    by_cases hs : so.1 ∈ seen <;> simp [allStarts, hs, h1, h2]

theorem mem_allFwd {g : Graph} {ev : Ev} {R : Rel} (hev : Correct (nodes g) ev R) (hR : Iso (nodes g) R)
    (m : Mod) (x y : Term) :
    (x, y) ∈ (allFwd g ev m ((nodes g).length + 1)).1 ↔
      closure m R x y ∧ x ∈ nodes g ∧ y ∈ nodes g := by
  have hz : (x, y) ∈ (nodes g).map (fun n => (n, n)) ↔ x = y ∧ x ∈ nodes g := by
    simp only [List.mem_map, Prod.mk.injEq]
    constructor
    · rintro ⟨n, hn, rfl, rfl⟩; exact ⟨rfl, hn⟩
    · rintro ⟨rfl, hn⟩; exact ⟨x, hn, rfl, rfl⟩
  have hone : (x, y) ∈ ev none none ↔ R x y ∧ x ∈ nodes g ∧ y ∈ nodes g := by
    rw [hev none none x y]; simp [Restr]
  have hmore : (x, y) ∈ (allStarts ev ((nodes g).length + 1) (ev none none) []).1 ↔
      TransGen R x y ∧ x ∈ nodes g ∧ y ∈ nodes g := by
    rw [mem_allStarts]
    constructor
    · rintro ⟨⟨a, b⟩, hab, _, hm⟩
      obtain ⟨_, _, h3⟩ := ((hev none none a b).mp hab).2
      obtain ⟨ha, _⟩ := h3 rfl rfl
      obtain ⟨rfl, _, t⟩ := ((fwd_top hev hR none a).2 x y).mp hm
      exact ⟨t, ha, (transGen_iso hR).mem_right t ha⟩
    · rintro ⟨t, hx, _⟩
      obtain ⟨b, r, _⟩ := TransGen.head'_iff.mp t
      refine ⟨(x, b), (hev none none x b).mpr ⟨r, by simp [Restr, hx, hR.mem_right r hx]⟩, by simp, ?_⟩
      exact ((fwd_top hev hR none x).2 x y).mpr ⟨rfl, rfl, t⟩
  cases m with
  | zeroOrOne =>
    simp only [allFwd, Mod.zero, Mod.more, if_true, Bool.false_eq_true, if_false, List.mem_append, hz, hone,
      closure]
    constructor
    · rintro (⟨rfl, h⟩ | ⟨r, h⟩)
      · exact ⟨Or.inl rfl, h, h⟩
      · exact ⟨Or.inr r, h⟩
    · rintro ⟨rfl | r, hx, hy⟩
      · exact Or.inl ⟨rfl, hx⟩
      · exact Or.inr ⟨r, hx, hy⟩
  | zeroOrMore =>
    simp only [allFwd, Mod.zero, Mod.more, if_true, List.mem_append, hz, hmore, closure,
      reflTransGen_iff_eq_or_transGen]
    constructor
    · rintro (⟨rfl, h⟩ | ⟨r, h⟩)
      · exact ⟨Or.inl rfl, h, h⟩
      · exact ⟨Or.inr r, h⟩
    · rintro ⟨rfl | r, hx, hy⟩
      · exact Or.inl ⟨rfl, hx⟩
      · exact Or.inr ⟨r, hx, hy⟩
  | oneOrMore =>
    simp only [allFwd, Mod.zero, Mod.more, Bool.false_eq_true, if_false, if_true, List.nil_append, hmore,
      closure]

theorem allFwd_ok {g : Graph} {ev : Ev} {R : Rel} (hev : Correct (nodes g) ev R) (hR : Iso (nodes g) R)
    (m : Mod) : (allFwd g ev m ((nodes g).length + 1)).2 = true := by
  cases hm : m.more
  · simp [allFwd, hm]
  · simp only [allFwd, hm, if_true]
    exact allStarts_ok _ _ _ _ (fun so _ => (fwd_top hev hR none so.1).1)

/-! the `done` filter -/

theorem mem_dedupInto : ∀ (L done : List Pair) (p : Pair), p ∈ dedupInto done L ↔ p ∈ L ∧ p ∉ done := by
  intro L
  induction L with
  | nil => intro done p; simp [dedupInto]
  | cons x xs ih =>
    intro done p
    by_cases hx : x ∈ done
    · simp only [dedupInto, hx, if_true, ih, List.mem_cons]
      constructor
      · rintro ⟨h1, h2⟩; exact ⟨Or.inr h1, h2⟩
      · rintro ⟨h1 | h1, h2⟩
        · exact absurd (h1 ▸ hx) h2
        · exact ⟨h1, h2⟩
    · simp only [dedupInto, hx, if_false, List.mem_cons, ih, not_or]
      constructor
      · rintro (h | ⟨h1, _, h3⟩)
        · exact ⟨Or.inl h, h ▸ hx⟩
        · exact ⟨Or.inr h1, h3⟩
      · rintro ⟨h1 | h1, h2⟩
        · exact Or.inl h1
        · by_cases e : p = x
          · exact Or.inl e
          · exact Or.inr ⟨h1, e, h2⟩

theorem nodup_dedupInto : ∀ (L done : List Pair), (dedupInto done L).Nodup := by
  intro L
  induction L with
  | nil => intro done; simp [dedupInto]
  | cons x xs ih =>
    intro done
    by_cases hx : x ∈ done
    · simp only [dedupInto, hx, if_true]; exact ih done
    · simp only [dedupInto, hx, if_false, List.nodup_cons]
      refine ⟨fun h => ?_, ih _⟩
      exact ((mem_dedupInto xs (x :: done) x).mp h).2 (List.mem_cons_self ..)

theorem nodup_zeroPairs (s o : Option Term) : (zeroPairs s o).Nodup := by
  cases s <;> cases o <;> simp [zeroPairs]
  split <;> simp

theorem mem_zeroPairs (s o : Option Term) (x y : Term) :
    (x, y) ∈ zeroPairs s o ↔
      (s ≠ none ∨ o ≠ none) ∧ x = y ∧ (∀ a, s = some a → x = a) ∧ (∀ b, o = some b → y = b) := by
  cases s with
  | none =>
    cases o with
    | none => simp [zeroPairs]
    | some b =>
      simp only [zeroPairs, List.mem_singleton, Prod.mk.injEq]
      constructor
      · rintro ⟨rfl, rfl⟩; simp
      · rintro ⟨_, rfl, _, h⟩; exact ⟨h b rfl, h b rfl⟩
  | some a =>
    cases o with
    | none =>
      simp only [zeroPairs, List.mem_singleton, Prod.mk.injEq]
      constructor
      · rintro ⟨rfl, rfl⟩; simp
      · rintro ⟨_, rfl, h, _⟩; exact ⟨h a rfl, h a rfl⟩
    | some b =>
      simp only [zeroPairs]
      split
      · next e =>
        subst e
        simp only [List.mem_singleton, Prod.mk.injEq]
        constructor
        · rintro ⟨rfl, rfl⟩; simp
        · rintro ⟨_, rfl, h, _⟩; exact ⟨h a rfl, h a rfl⟩
      · next e =>
        simp only [List.not_mem_nil, false_iff]
        rintro ⟨_, rfl, h1, h2⟩
        exact e ((h1 a rfl).symm.trans (h2 b rfl))

/-- `MulPath.eval` never yields a pair twice — whatever the inner evaluator does -/
theorem mul_nodup (g : Graph) (ev : Ev) (m : Mod) (s o : Option Term) : (mulEval g ev m s o).Nodup := by
  simp only [mulEval]
  rw [List.nodup_append]
  refine ⟨?_, nodup_dedupInto _ _, ?_⟩
  · split
    · exact nodup_zeroPairs s o
    · simp
  · intro a ha b hb e
    subst e
    exact ((mem_dedupInto _ _ a).mp hb).2 ha

/-- the fuel `|nodes g| + 1` is never exhausted -/
theorem mulRun_ok {g : Graph} {ev : Ev} {R : Rel} (hev : Correct (nodes g) ev R) (hR : Iso (nodes g) R)
    (m : Mod) (s o : Option Term) : (mulRun g ev m s o).2 = true := by
  cases s with
  | some a =>
    cases hm : m.more
    · simp only [mulRun, hm]; exact (fwd_once ev o _ a []).2
    · simp only [mulRun, hm]; exact (fwd_top hev hR o a).1
  | none =>
    cases o with
    | some b =>
      cases hm : m.more
      · simp only [mulRun, hm]; exact (bwd_once ev _ b []).2
      · simp only [mulRun, hm]; exact (bwd_top hev hR b).1
    | none => exact allFwd_ok hev hR m

theorem mulRun_some {g : Graph} {ev : Ev} {R : Rel} (hev : Correct (nodes g) ev R) (hR : Iso (nodes g) R)
    (m : Mod) (a : Term) (o : Option Term) (x y : Term) :
    (x, y) ∈ (mulRun g ev m (some a) o).1 ↔
      x = a ∧ (∀ b, o = some b → y = b) ∧ (if m.more = true then TransGen R a y else R a y) := by
  cases hm : m.more
  · simp only [mulRun, hm, (fwd_once ev o _ a []).1, List.mem_filter, hev (some a) none x y, okPos_iff,
      Restr, Bool.false_eq_true, if_false]
    constructor
    · rintro ⟨⟨r, e, _⟩, h⟩
      have := e a rfl
      exact ⟨this, h, this ▸ r⟩
    · rintro ⟨rfl, h, r⟩
      exact ⟨⟨r, by simp⟩, h⟩
  · simp only [mulRun, hm, (fwd_top hev hR o a).2 x y, okPos_iff, if_true]

theorem mulRun_none_some {g : Graph} {ev : Ev} {R : Rel} (hev : Correct (nodes g) ev R)
    (hR : Iso (nodes g) R) (m : Mod) (b : Term) (x y : Term) :
    (x, y) ∈ (mulRun g ev m none (some b)).1 ↔
      y = b ∧ (if m.more = true then TransGen R x b else R x b) := by
  cases hm : m.more
  · simp only [mulRun, hm, (bwd_once ev _ b []).1 x y, hev none (some b) x y, Restr, Bool.false_eq_true,
      if_false]
    constructor
    · rintro ⟨r, _, e, _⟩
      have := e b rfl
      exact ⟨this, this ▸ r⟩
    · rintro ⟨rfl, r⟩
      exact ⟨r, by simp⟩
  · simp only [mulRun, hm, (bwd_top hev hR b).2 x y, if_true]

theorem mulRun_none_none {g : Graph} {ev : Ev} {R : Rel} (hev : Correct (nodes g) ev R)
    (hR : Iso (nodes g) R) (m : Mod) (x y : Term) :
    (x, y) ∈ (mulRun g ev m none none).1 ↔ closure m R x y ∧ x ∈ nodes g ∧ y ∈ nodes g :=
  mem_allFwd hev hR m x y

theorem closure_iff (m : Mod) (R : Rel) (x y : Term) :
    closure m R x y ↔ (m.zero = true ∧ x = y) ∨ (if m.more = true then TransGen R x y else R x y) := by
  cases m with
  | zeroOrOne => simp [closure, Mod.zero, Mod.more]
  | zeroOrMore =>
    simp only [closure, Mod.zero, Mod.more, reflTransGen_iff_eq_or_transGen, true_and, if_true]
    constructor
    · rintro (e | t)
      · exact Or.inl e.symm
      · exact Or.inr t
    · rintro (e | t)
      · exact Or.inl e.symm
      · exact Or.inr t
  | oneOrMore => simp [closure, Mod.zero, Mod.more]

/-- `MulPath.eval` is correct for the closure of the inner relation -/
theorem mul_correct {g : Graph} {ev : Ev} {R : Rel} (hev : Correct (nodes g) ev R) (hR : Iso (nodes g) R)
    (m : Mod) : Correct (nodes g) (mulEval g ev m) (closure m R) := by
  intro s o x y
  have hz : (x, y) ∈ (if m.zero = true then zeroPairs s o else []) ↔
      m.zero = true ∧ (s ≠ none ∨ o ≠ none) ∧ x = y ∧ (∀ a, s = some a → x = a) ∧ (∀ b, o = some b → y = b) := by
    split
    · next h => simp [mem_zeroPairs, h]
    · next h => simp [h]
  simp only [mulEval, List.mem_append, mem_dedupInto, hz]
  cases s with
  | some a =>
    rw [mulRun_some hev hR m a o x y, closure_iff]
    simp only [Restr, Option.some.injEq, forall_eq', reduceCtorEq, false_imp_iff, and_true, ne_eq,
      not_false_eq_true, true_or, true_and]
    constructor
    · rintro (⟨h0, rfl, rfl, h⟩ | ⟨⟨rfl, h, t⟩, _⟩)
      · exact ⟨Or.inl ⟨h0, rfl⟩, rfl, h⟩
      · exact ⟨Or.inr t, rfl, h⟩
    · rintro ⟨(⟨h0, rfl⟩ | t), rfl, h⟩
      · exact Or.inl ⟨h0, rfl, rfl, h⟩
      · by_cases hc : m.zero = true ∧ x = y ∧ x = x ∧ ∀ b, o = some b → y = b
        · exact Or.inl hc
        · exact Or.inr ⟨⟨rfl, h, t⟩, hc⟩
  | none =>
    cases o with
    | some b =>
      rw [mulRun_none_some hev hR m b x y, closure_iff]
      simp only [Restr, Option.some.injEq, forall_eq', reduceCtorEq, false_imp_iff, true_and, ne_eq,
        not_true_eq_false, not_false_eq_true, or_true, and_true, implies_true]
      constructor
      · rintro (⟨h0, rfl, rfl⟩ | ⟨⟨rfl, t⟩, _⟩)
        · exact ⟨Or.inl ⟨h0, rfl⟩, rfl⟩
        · exact ⟨Or.inr t, rfl⟩
      · rintro ⟨(⟨h0, rfl⟩ | t), rfl⟩
        · exact Or.inl ⟨h0, rfl, rfl⟩
        · by_cases hc : m.zero = true ∧ x = y ∧ y = y
          · exact Or.inl hc
          · exact Or.inr ⟨⟨rfl, t⟩, hc⟩
    | none =>
      rw [mulRun_none_none hev hR m x y]
      simp [Restr]


/-- `InvPath.eval` keeps a duplicate-free answer duplicate-free -/
theorem nodup_invEval {e : Ev} {s o : Option Term} (h : (e o s).Nodup) : (invEval e s o).Nodup := by
  simp only [invEval, List.Nodup, List.pairwise_map]
  refine List.Pairwise.imp ?_ h
  rintro ⟨a, b⟩ ⟨c, d⟩ hne e
  simp only [Prod.mk.injEq] at e
  exact hne (by rw [e.1, e.2])

/-! ### relational facts behind the constructors' flattening -/

theorem comp_compList (R Y : Rel) : ∀ Zs : List Rel, comp R (compList Y Zs) = compList (comp R Y) Zs
  | [] => rfl
  | Z :: Zs => by simp only [compList]; rw [comp_assoc]

theorem compList_append : ∀ (Xs : List Rel) (R : Rel) (Zs : List Rel),
    compList R (Xs ++ Zs) = compList (compList R Xs) Zs
  | [], _, _ => rfl
  | X :: Xs, R, Zs => by
    simp only [List.cons_append, compList]
    rw [compList_append Xs X Zs, comp_compList]

theorem unionList_append (As Bs : List Rel) :
    unionList (As ++ Bs) = fun x y => unionList As x y ∨ unionList Bs x y := by
  funext x y
  apply propext
  simp only [unionList, List.mem_append]
  constructor
  · rintro ⟨R, hR | hR, r⟩
    · exact Or.inl ⟨R, hR, r⟩
    · exact Or.inr ⟨R, hR, r⟩
  · rintro (⟨R, hR, r⟩ | ⟨R, hR, r⟩)
    · exact ⟨R, Or.inl hR, r⟩
    · exact ⟨R, Or.inr hR, r⟩

theorem unionList_singleton (R : Rel) : unionList [R] = R := by
  funext x y
  apply propext
  simp [unionList]


/-- `_eval_seq_bw` on the reversed argument list, for a given end -/
theorem seqBw_correct {N : List Term} {e : Ev} {R : Rel} {es : List Ev} {Rs : List Rel}
    (he : Correct N e R) (hL : CorrectL N es Rs) (hR : Iso N R) (hRs : ∀ S ∈ Rs, Iso N S)
    (s o : Option Term) (hso : o ≠ none ∨ s = none) (x y : Term) :
    (x, y) ∈ seqBwRev (revOnto es e []).1 (revOnto es e []).2 s o ↔ compList R Rs x y ∧ Restr N s o x y := by
  obtain ⟨h1, h2⟩ := revOnto_correctL hL e R [] [] he .nil
  obtain ⟨i1, i2⟩ := revOnto_all (Iso N) Rs R [] hR hRs (by simp)
  rw [seqBwRev_correct h2 _ _ h1 i1 i2 s o hso x y, compListRev_revOnto Rs R []]
  rfl

/-! ### NegatedPath as coded -/

/-- the relation `NegatedPath.eval` computes: forward triples whose predicate is not a plain member and
    whose reversal does not occur with an inverse member's predicate -/
def negRelImpl (g : Graph) (fw bw : List Term) : Rel := fun x y =>
  ∃ p, (x, p, y) ∈ g ∧ p ∉ fw ∧ ∀ a ∈ bw, (y, a, x) ∉ g

theorem negImpl_correct (g : Graph) (fw bw : List Term) :
    Correct (nodes g) (negEval g fw bw) (negRelImpl g fw bw) := by
  intro s o x y
  simp only [negEval, negRelImpl, Restr, List.mem_map, List.mem_filter, Bool.and_eq_true, okPos_iff,
    Bool.not_eq_true', decide_eq_false_iff_not, List.any_eq_false, decide_eq_true_eq]
  constructor
  · rintro ⟨⟨a, p, c⟩, ⟨ht, hs, ho, hp, hb⟩, he⟩
    simp only [Prod.mk.injEq] at he
    obtain ⟨rfl, rfl⟩ := he
    exact ⟨⟨p, ht, hp, hb⟩, hs, ho, fun _ _ => triple_nodes ht⟩
  · rintro ⟨⟨p, ht, hp, hb⟩, hs, ho, _⟩
    exact ⟨(x, p, y), ⟨ht, hs, ho, hp, hb⟩, rfl⟩

theorem negImpl_iso (g : Graph) (fw bw : List Term) : Iso (nodes g) (negRelImpl g fw bw) := by
  rintro x y ⟨p, ht, _⟩
  exact Or.inr (triple_nodes ht)

/-- without inverse members the code computes the negated property set of the specification -/
theorem negRelImpl_nil (g : Graph) (fw : List Term) : negRelImpl g fw [] = negRel g fw [] := by
  funext x y
  apply propext
  simp [negRelImpl, negRel]

/-- a predicate that is not a member of the set: one more than the sum of the members -/
def freshPred : List Nat → Nat
  | [] => 0
  | x :: xs => x + freshPred xs + 1

theorem lt_freshPred : ∀ (l : List Nat) (x : Nat), x ∈ l → x < freshPred l
  | y :: ys, x, h => by
    rcases List.mem_cons.mp h with e | e
    · subst e; show x < x + freshPred ys + 1; omega
    · have := lt_freshPred ys x e; show x < y + freshPred ys + 1; omega

theorem freshPred_not_mem (l : List Nat) : freshPred l ∉ l :=
  fun h => Nat.lt_irrefl _ (lt_freshPred l _ h)

/-- a negated property set with an inverse member is answered wrongly on the one-triple graph `0 q 1`, `q` fresh:
    the reversed triple `(1, 0)` is demanded and `NegatedPath.eval` only ever answers forward triples -/
theorem negRelImpl_ne_of_inverse (fw : List Term) (b : Term) (bs : List Term) :
    negRel [(0, freshPred (fw ++ b :: bs), 1)] fw (b :: bs) 1 0 ∧
    ¬ negRelImpl [(0, freshPred (fw ++ b :: bs), 1)] fw (b :: bs) 1 0 := by
  refine ⟨Or.inr ⟨by simp, freshPred (fw ++ b :: bs), by simp, ?_⟩, ?_⟩
  · intro h
    exact freshPred_not_mem (fw ++ b :: bs) (List.mem_append_right _ h)
  · rintro ⟨p, hp, _⟩
    simp at hp

/-! ### `MulPath.eval(…, first=…)` -/

theorem mulEvalF_true (g : Graph) (ev : Ev) (m : Mod) : mulEvalF g ev m true = mulEval g ev m := by
  funext s o
  simp only [mulEvalF, mulEval, Bool.and_true]

/-- with `first=False` and an end given, exactly the pairs reachable in **one or more** steps (`?`: exactly one) are
    yielded; with both ends free nothing changes -/
theorem mulF_false_correct {g : Graph} {ev : Ev} {R : Rel} (hev : Correct (nodes g) ev R) (hR : Iso (nodes g) R)
    (m : Mod) (s o : Option Term) (x y : Term) :
    (x, y) ∈ mulEvalF g ev m false s o ↔
      (if s = none ∧ o = none then closure m R x y else (if m.more = true then TransGen R x y else R x y)) ∧
        Restr (nodes g) s o x y := by
  simp only [mulEvalF, Bool.and_false, Bool.false_eq_true, if_false, List.nil_append, mem_dedupInto, List.not_mem_nil,
    not_false_eq_true, and_true]
  cases s with
  | some a =>
    rw [mulRun_some hev hR m a o x y]
    simp only [reduceCtorEq, false_and, if_false, Restr, Option.some.injEq, forall_eq', false_imp_iff, and_true]
    constructor
    · rintro ⟨rfl, h, t⟩; exact ⟨t, rfl, h⟩
    · rintro ⟨t, rfl, h⟩; exact ⟨rfl, h, t⟩
  | none =>
    cases o with
    | some b =>
      rw [mulRun_none_some hev hR m b x y]
      simp only [reduceCtorEq, and_false, if_false, Restr, Option.some.injEq, forall_eq', false_imp_iff, true_and,
        implies_true, and_true]
      constructor
      · rintro ⟨rfl, t⟩; exact ⟨t, rfl⟩
      · rintro ⟨t, rfl⟩; exact ⟨rfl, t⟩
    | none =>
      rw [mulRun_none_none hev hR m x y]
      simp [Restr]

end RV.C11
