import RV.C11.Lemmas
/-
  C11 — "Property paths denote the relation SPARQL defines, for every binding of the ends."

  Specification (`rel`): SPARQL 1.1 §18.2.2 / §18.4 read as relational algebra over the graph —
  a plain IRI is its set of (subject, object) pairs, `^` is the converse, `/` composition,
  `|` union, `?` `*` `+` the reflexive / reflexive-transitive / transitive closure, `!(…)` the
  negated property set.  The reflexive part of a closure is the identity on all terms, so a
  zero-length match on a *given* term holds whether or not the term occurs in the graph; when
  neither end is given the answers range over the nodes of the graph (ZeroLengthPath with two
  variables).  `evalPath` is the model of rdflib's generators (Model.lean).
-/
namespace RV.C11
open Relation

/-! ### Specification -/

mutual
/-- the relation a path denotes over graph `g` -/
def rel (g : Graph) : Path → Rel
  | .iri p => fun x y => (x, p, y) ∈ g
  | .inv p => fun x y => rel g p y x
  | .seq p ps => compList (rel g p) (relList g ps)
  | .alt ps => unionList (relList g ps)
  | .mul p m => closure m (rel g p)
  | .neg fw bw => negRel g fw bw
def relList (g : Graph) : List Path → List Rel
  | [] => []
  | p :: ps => rel g p :: relList g ps
end

/-- paths whose answers the property demands to be duplicate-free: closures, possibly under `^` -/
def Path.isClosure : Path → Bool
  | .mul _ _ => true
  | .inv p => p.isClosure
  | _ => false

/-! ### Statements -/

/-- For every graph, every path of any nesting depth and each of the four bound/unbound combinations
    of the ends: the pairs produced are exactly the pairs of the denoted relation that agree with
    the given ends (and lie on nodes of the graph when no end is given). -/
def Statement_path_correct : Prop :=
  ∀ (g : Graph) (p : Path) (s o : Option Term) (x y : Term),
    (x, y) ∈ evalPath g p s o ↔
      rel g p x y ∧ (∀ a, s = some a → x = a) ∧ (∀ b, o = some b → y = b) ∧
        (s = none → o = none → x ∈ nodes g ∧ y ∈ nodes g)

/-- Closures contain no duplicates (whatever multiplicities the inner path produces). -/
def Statement_path_nodup : Prop :=
  ∀ (g : Graph) (p : Path) (s o : Option Term), p.isClosure = true → (evalPath g p s o).Nodup

/-- Closures terminate: the recursion of `_fwd` / `_bwd` never needs more than `|nodes g| + 1`
    nested calls, on any graph (cyclic, self-loops) and for any inner path. -/
def Statement_path_terminates : Prop :=
  ∀ (g : Graph) (p : Path) (m : Mod) (s o : Option Term), mulOk g p m s o = true

/-- A zero-length match on a given term holds even if the term does not occur in the graph. -/
def Statement_zero_length_on_given_term : Prop :=
  ∀ (g : Graph) (p : Path) (m : Mod) (a : Term), m.zero = true →
    (a, a) ∈ evalPath g (.mul p m) (some a) none ∧ (a, a) ∈ evalPath g (.mul p m) none (some a) ∧
    (a, a) ∈ evalPath g (.mul p m) (some a) (some a)

/-! ### Proofs (structural induction on the path; the per-generator lemmas are in Lemmas.lean) -/

mutual
theorem rel_iso (g : Graph) : ∀ p : Path, Iso (nodes g) (rel g p)
  | .iri p => by rw [rel]; exact tri_iso g p
  | .inv p => by rw [rel]; exact inv_iso (rel_iso g p)
  | .seq p ps => by rw [rel]; exact compList_iso _ _ (rel_iso g p) (relList_iso g ps)
  | .alt ps => by rw [rel]; exact alt_iso (relList_iso g ps)
  | .mul p m => by rw [rel]; exact closure_iso m (rel_iso g p)
  | .neg fw bw => by rw [rel]; exact neg_iso g fw bw
theorem relList_iso (g : Graph) : ∀ ps : List Path, ∀ S ∈ relList g ps, Iso (nodes g) S
  | [] => by simp [relList]
  | p :: ps => by
    intro S hS
    rw [relList] at hS
    rcases List.mem_cons.mp hS with e | e
    · exact e ▸ rel_iso g p
    · exact relList_iso g ps S e
end

mutual
theorem evalPath_correct (g : Graph) : ∀ p : Path, Correct (nodes g) (evalPath g p) (rel g p)
  | .iri p => by rw [evalPath, rel]; exact tri_correct g p
  | .inv p => by rw [evalPath, rel]; exact inv_correct (evalPath_correct g p)
  | .seq p ps => by
    rw [evalPath, rel]
    exact seq_correct (evalPath_correct g p) (evalList_correct g ps) (rel_iso g p) (relList_iso g ps)
  | .alt ps => by rw [evalPath, rel]; exact alt_correct (evalList_correct g ps)
  | .mul p m => by rw [evalPath, rel]; exact mul_correct (evalPath_correct g p) (rel_iso g p) m
  | .neg fw bw => by rw [evalPath, rel]; exact neg_correct g fw bw
theorem evalList_correct (g : Graph) : ∀ ps : List Path, CorrectL (nodes g) (evalList g ps) (relList g ps)
  | [] => by rw [evalList, relList]; exact .nil
  | p :: ps => by rw [evalList, relList]; exact .cons (evalPath_correct g p) (evalList_correct g ps)
end

theorem path_correct : Statement_path_correct :=
  fun g p s o x y => evalPath_correct g p s o x y

theorem path_nodup_aux (g : Graph) : ∀ (p : Path) (s o : Option Term), p.isClosure = true →
    (evalPath g p s o).Nodup
  | .mul p m, s, o, _ => by rw [evalPath]; exact mul_nodup g _ m s o
  | .inv p, s, o, h => by
    rw [evalPath]
    simp only [Path.isClosure] at h
    exact nodup_invEval (path_nodup_aux g p o s h)
  | .iri _, _, _, h => by simp [Path.isClosure] at h
  | .seq _ _, _, _, h => by simp [Path.isClosure] at h
  | .alt _, _, _, h => by simp [Path.isClosure] at h
  | .neg _ _, _, _, h => by simp [Path.isClosure] at h

theorem path_nodup : Statement_path_nodup := fun g p s o h => path_nodup_aux g p s o h

theorem path_terminates : Statement_path_terminates :=
  fun g p m s o => mulRun_ok (evalPath_correct g p) (rel_iso g p) m s o

theorem zero_length_on_given_term : Statement_zero_length_on_given_term := by
  intro g p m a hz
  have hc : rel g (.mul p m) a a := by
    rw [rel]
    cases m with
    | zeroOrOne => exact Or.inl rfl
    | zeroOrMore => exact ReflTransGen.refl
    | oneOrMore => simp [Mod.zero] at hz
  refine ⟨(path_correct g _ _ _ a a).mpr ⟨hc, ?_⟩, (path_correct g _ _ _ a a).mpr ⟨hc, ?_⟩,
    (path_correct g _ _ _ a a).mpr ⟨hc, ?_⟩⟩ <;> simp

end RV.C11
