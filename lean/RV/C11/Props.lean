import RV.C11.Model
namespace RV.C11
theorem placeholder_c11 : True := trivial
end RV.C11
