import RV.C11.Lemmas
import RV.C11.N3Lemmas
import RV.C11.ApiLemmas
import RV.C11.ViewLemmas
/-
  C11 — "Property paths denote the relation SPARQL defines, for every binding of the ends."

  Specification (`rel`): SPARQL 1.1 §18.2.2 / §18.4 read as relational algebra over the graph —
  a plain IRI is its set of (subject, object) pairs, `^` is the converse, `/` composition,
  `|` union, `?` `*` `+` the reflexive / reflexive-transitive / transitive closure, `!(…)` the
  negated property set.  The reflexive part of a closure is the identity on all terms, so a
  zero-length match on a *given* term holds whether or not the term occurs in the graph; when
  neither end is given the answers range over the nodes of the graph (ZeroLengthPath with two
  variables).  `evalPath` is the model of rdflib's generators (Model.lean).
-/
namespace RV.C11
open Relation

/-! ### Specification -/

mutual
/-- the relation a path denotes over graph `g` -/
def rel (g : Graph) : Path → Rel
  | .iri p => fun x y => (x, p, y) ∈ g
  | .inv p => fun x y => rel g p y x
  | .seq p ps => compList (rel g p) (relList g ps)
  | .alt ps => unionList (relList g ps)
  | .mul p m => closure m (rel g p)
  | .neg fw bw => negRel g fw bw
def relList (g : Graph) : List Path → List Rel
  | [] => []
  | p :: ps => rel g p :: relList g ps
end

mutual
/-- SPARQL 1.1 §18.2.2.3 / §18.4 read off the parser's tree: what a path *written in a query* denotes -/
def den (g : Graph) : Syn → Rel
  | .iri p => fun x y => (x, p, y) ∈ g
  | .altS x xs => unionList (den g x :: denList g xs)
  | .seqS x xs => compList (den g x) (denList g xs)
  | .elt x none => den g x
  | .elt x (some m) => closure m (den g x)
  | .invS x => fun a b => den g x b a
  | .nps fw bw => negRel g fw bw
def denList (g : Graph) : List Syn → List Rel
  | [] => []
  | x :: xs => den g x :: denList g xs
end

/-! ### The relation the code computes, and the shapes on which it is the specified one

`relC` is `rel` with `NegatedPath.eval`'s own relation (`negRelImpl`) for negated property sets.  The two
differ only for a set with an inverse member (`!(^p)`, `!(p|^q)`): known finding C11-F5. -/

mutual
def relC (g : Graph) : Path → Rel
  | .iri p => fun x y => (x, p, y) ∈ g
  | .inv p => fun x y => relC g p y x
  | .seq p ps => compList (relC g p) (relCList g ps)
  | .alt ps => unionList (relCList g ps)
  | .mul p m => closure m (relC g p)
  | .neg fw bw => negRelImpl g fw bw
def relCList (g : Graph) : List Path → List Rel
  | [] => []
  | p :: ps => relC g p :: relCList g ps
end

mutual
/-- no negated property set with an inverse member occurs anywhere in the path -/
def Path.noInvNeg : Path → Bool
  | .iri _ => true
  | .inv p => p.noInvNeg
  | .seq p ps => p.noInvNeg && noInvNegList ps
  | .alt ps => noInvNegList ps
  | .mul p _ => p.noInvNeg
  | .neg _ bw => bw.isEmpty
def noInvNegList : List Path → Bool
  | [] => true
  | p :: ps => p.noInvNeg && noInvNegList ps
end

/-! ### Statements -/

/-- For every graph, every path of any nesting depth and each of the four bound/unbound combinations
    of the ends: the pairs produced are exactly the pairs of the denoted relation that agree with
    the given ends (and lie on nodes of the graph when no end is given). -/
def Statement_path_correct : Prop :=
  ∀ (g : Graph) (p : Path) (s o : Option Term) (x y : Term),
    (x, y) ∈ evalPath g p s o ↔
      rel g p x y ∧ (∀ a, s = some a → x = a) ∧ (∀ b, o = some b → y = b) ∧
        (s = none → o = none → x ∈ nodes g ∧ y ∈ nodes g)

/-- Closures contain no duplicates (whatever multiplicities the inner path produces). -/
def Statement_path_nodup : Prop :=
  ∀ (g : Graph) (p : Path) (s o : Option Term), p.isClosure = true → (evalPath g p s o).Nodup

/-- Closures terminate: the recursion of `_fwd` / `_bwd` never needs more than `|nodes g| + 1`
    nested calls, on any graph (cyclic, self-loops) and for any inner path. -/
def Statement_path_terminates : Prop :=
  ∀ (g : Graph) (p : Path) (m : Mod) (s o : Option Term), mulOk g p m s o = true

/-- A zero-length match on a given term holds even if the term does not occur in the graph. -/
def Statement_zero_length_on_given_term : Prop :=
  ∀ (g : Graph) (p : Path) (m : Mod) (a : Term), m.zero = true →
    (a, a) ∈ evalPath g (.mul p m) (some a) none ∧ (a, a) ∈ evalPath g (.mul p m) none (some a) ∧
    (a, a) ∈ evalPath g (.mul p m) (some a) (some a)

/-- The direction `SequencePath.eval` chooses is semantically irrelevant where both apply: with
    both ends given, forward and backward evaluation produce the same pairs. -/
def Statement_seq_fw_bw_agree : Prop :=
  ∀ (g : Graph) (p : Path) (ps : List Path) (a b x y : Term),
    (x, y) ∈ seqFw (evalPath g p) (evalList g ps) (some a) (some b) ↔
    (x, y) ∈ seqBwRev (revOnto (evalList g ps) (evalPath g p) []).1 (revOnto (evalList g ps) (evalPath g p) []).2
      (some a) (some b)

/-- The splicing done by `SequencePath(...)` / `AlternativePath(...)` (nested arguments of the same
    class are flattened) does not change the denoted relation; so the object the user builds is
    evaluated to the relation of the expression the user wrote. -/
def Statement_build_preserves_rel : Prop :=
  ∀ (g : Graph) (p : Path), rel g (build p) = rel g p

/-- SPARQL route: a path written in a query is translated by `translatePath` to an object whose
    evaluation yields exactly the pairs the query text denotes (for each binding of the ends). -/
def Statement_sparql_path_same : Prop :=
  ∀ (g : Graph) (t : Syn) (s o : Option Term) (x y : Term),
    (x, y) ∈ evalPath g (translate t) s o ↔
      den g t x y ∧ (∀ a, s = some a → x = a) ∧ (∀ b, o = some b → y = b) ∧
        (s = none → o = none → x ∈ nodes g ∧ y ∈ nodes g)

/-! ### Proofs (structural induction on the path; the per-generator lemmas are in Lemmas.lean) -/

mutual
theorem rel_iso (g : Graph) : ∀ p : Path, Iso (nodes g) (rel g p)
  | .iri p => by rw [rel]; exact tri_iso g p
  | .inv p => by rw [rel]; exact inv_iso (rel_iso g p)
  | .seq p ps => by rw [rel]; exact compList_iso _ _ (rel_iso g p) (relList_iso g ps)
  | .alt ps => by rw [rel]; exact alt_iso (relList_iso g ps)
  | .mul p m => by rw [rel]; exact closure_iso m (rel_iso g p)
  | .neg fw bw => by rw [rel]; exact neg_iso g fw bw
theorem relList_iso (g : Graph) : ∀ ps : List Path, ∀ S ∈ relList g ps, Iso (nodes g) S
  | [] => by simp [relList]
  | p :: ps => by
    intro S hS
    rw [relList] at hS
    rcases List.mem_cons.mp hS with e | e
    · exact e ▸ rel_iso g p
    · exact relList_iso g ps S e
end

mutual
theorem relC_iso (g : Graph) : ∀ p : Path, Iso (nodes g) (relC g p)
  | .iri p => by rw [relC]; exact tri_iso g p
  | .inv p => by rw [relC]; exact inv_iso (relC_iso g p)
  | .seq p ps => by rw [relC]; exact compList_iso _ _ (relC_iso g p) (relCList_iso g ps)
  | .alt ps => by rw [relC]; exact alt_iso (relCList_iso g ps)
  | .mul p m => by rw [relC]; exact closure_iso m (relC_iso g p)
  | .neg fw bw => by rw [relC]; exact negImpl_iso g fw bw
theorem relCList_iso (g : Graph) : ∀ ps : List Path, ∀ S ∈ relCList g ps, Iso (nodes g) S
  | [] => by simp [relCList]
  | p :: ps => by
    intro S hS
    rw [relCList] at hS
    rcases List.mem_cons.mp hS with e | e
    · exact e ▸ relC_iso g p
    · exact relCList_iso g ps S e
end

mutual
/-- every evaluator yields exactly the pairs of the relation the code computes — all paths -/
theorem evalPath_computes (g : Graph) : ∀ p : Path, Correct (nodes g) (evalPath g p) (relC g p)
  | .iri p => by rw [evalPath, relC]; exact tri_correct g p
  | .inv p => by rw [evalPath, relC]; exact inv_correct (evalPath_computes g p)
  | .seq p ps => by
    rw [evalPath, relC]
    exact seq_correct (evalPath_computes g p) (evalList_computes g ps) (relC_iso g p) (relCList_iso g ps)
  | .alt ps => by rw [evalPath, relC]; exact alt_correct (evalList_computes g ps)
  | .mul p m => by rw [evalPath, relC]; exact mul_correct (evalPath_computes g p) (relC_iso g p) m
  | .neg fw bw => by rw [evalPath, relC]; exact negImpl_correct g fw bw
theorem evalList_computes (g : Graph) : ∀ ps : List Path, CorrectL (nodes g) (evalList g ps) (relCList g ps)
  | [] => by rw [evalList, relCList]; exact .nil
  | p :: ps => by rw [evalList, relCList]; exact .cons (evalPath_computes g p) (evalList_computes g ps)
end

mutual
/-- without an inverse member in a negated property set, the code's relation is the specified one -/
theorem relC_eq_rel (g : Graph) : ∀ p : Path, p.noInvNeg = true → relC g p = rel g p
  | .iri p, _ => by rw [relC, rel]
  | .inv p, h => by rw [Path.noInvNeg] at h; rw [relC, rel, relC_eq_rel g p h]
  | .seq p ps, h => by
    rw [Path.noInvNeg, Bool.and_eq_true] at h
    rw [relC, rel, relC_eq_rel g p h.1, relCList_eq_relList g ps h.2]
  | .alt ps, h => by rw [Path.noInvNeg] at h; rw [relC, rel, relCList_eq_relList g ps h]
  | .mul p m, h => by rw [Path.noInvNeg] at h; rw [relC, rel, relC_eq_rel g p h]
  | .neg fw bw, h => by
    rw [Path.noInvNeg] at h
    cases bw with
    | nil => rw [relC, rel, negRelImpl_nil]
    | cons _ _ => simp at h
theorem relCList_eq_relList (g : Graph) : ∀ ps : List Path, noInvNegList ps = true → relCList g ps = relList g ps
  | [], _ => by rw [relCList, relList]
  | p :: ps, h => by
    rw [noInvNegList, Bool.and_eq_true] at h
    rw [relCList, relList, relC_eq_rel g p h.1, relCList_eq_relList g ps h.2]
end

/-- `path_correct` for every path without an inverse member in a negated property set (any depth, all
    four bindings) -/
theorem path_correct_partial :
    ∀ (g : Graph) (p : Path), p.noInvNeg = true → ∀ (s o : Option Term) (x y : Term),
      (x, y) ∈ evalPath g p s o ↔
        rel g p x y ∧ (∀ a, s = some a → x = a) ∧ (∀ b, o = some b → y = b) ∧
          (s = none → o = none → x ∈ nodes g ∧ y ∈ nodes g) := by
  intro g p h s o x y
  rw [← relC_eq_rel g p h]
  exact evalPath_computes g p s o x y

/-- The code falsifies the full statement: `?s !(^q) ?o` on the single triple `1 p 2` must answer
    `(2, 1)` (the reversed triple, its predicate is not `q`); `NegatedPath.eval` answers `(1, 2)`. -/
theorem path_correct_witness : ¬ Statement_path_correct := by
  intro h
  have hr : rel [(1, 10, 2)] (.neg [] [11]) 2 1 := by
    rw [rel]
    exact Or.inr ⟨by decide, 10, by decide, by decide⟩
  have := (h [(1, 10, 2)] (.neg [] [11]) none none 2 1).mpr
    ⟨hr, by simp, by simp, fun _ _ => by decide⟩
  revert this
  decide

/-- For all paths: what is yielded is exactly the relation the code computes, restricted to the ends. -/
def Statement_path_computes : Prop :=
  ∀ (g : Graph) (p : Path) (s o : Option Term) (x y : Term),
    (x, y) ∈ evalPath g p s o ↔
      relC g p x y ∧ (∀ a, s = some a → x = a) ∧ (∀ b, o = some b → y = b) ∧
        (s = none → o = none → x ∈ nodes g ∧ y ∈ nodes g)

theorem path_computes : Statement_path_computes :=
  fun g p s o x y => evalPath_computes g p s o x y

theorem path_nodup_aux (g : Graph) : ∀ (p : Path) (s o : Option Term), p.isClosure = true →
    (evalPath g p s o).Nodup
  | .mul p m, s, o, _ => by rw [evalPath]; exact mul_nodup g _ m s o
  | .inv p, s, o, h => by
    rw [evalPath]
    simp only [Path.isClosure] at h
    exact nodup_invEval (path_nodup_aux g p o s h)
  | .iri _, _, _, h => by simp [Path.isClosure] at h
  | .seq _ _, _, _, h => by simp [Path.isClosure] at h
  | .alt _, _, _, h => by simp [Path.isClosure] at h
  | .neg _ _, _, _, h => by simp [Path.isClosure] at h

theorem path_nodup : Statement_path_nodup := fun g p s o h => path_nodup_aux g p s o h

theorem path_terminates : Statement_path_terminates :=
  fun g p m s o => mulRun_ok (evalPath_computes g p) (relC_iso g p) m s o

theorem zero_length_on_given_term : Statement_zero_length_on_given_term := by
  intro g p m a hz
  have hc : relC g (.mul p m) a a := by
    rw [relC]
    cases m with
    | zeroOrOne => exact Or.inl rfl
    | zeroOrMore => exact ReflTransGen.refl
    | oneOrMore => simp [Mod.zero] at hz
  refine ⟨(path_computes g _ _ _ a a).mpr ⟨hc, ?_⟩, (path_computes g _ _ _ a a).mpr ⟨hc, ?_⟩,
    (path_computes g _ _ _ a a).mpr ⟨hc, ?_⟩⟩ <;> simp

theorem seq_fw_bw_agree : Statement_seq_fw_bw_agree := by
  intro g p ps a b x y
  rw [seqFw_correct (evalList_computes g ps) _ _ (evalPath_computes g p) (relC_iso g p) (relCList_iso g ps)
      (some a) (some b) (Or.inl (by simp)) x y,
    seqBw_correct (evalPath_computes g p) (evalList_computes g ps) (relC_iso g p) (relCList_iso g ps)
      (some a) (some b) (Or.inl (by simp)) x y]

/-! #### the constructors' flattening -/


theorem relList_append (g : Graph) : ∀ ps qs : List Path, relList g (ps ++ qs) = relList g ps ++ relList g qs
  | [], qs => by simp [relList]
  | p :: ps, qs => by simp only [List.cons_append, relList, relList_append g ps qs]

/-- the spliced arguments of one `SequencePath` argument compose to that argument's relation -/
theorem rel_seqArgs (g : Graph) (p : Path) :
    ∃ a as, seqArgs p = a :: as ∧ compList (rel g a) (relList g as) = rel g p := by
  cases p with
  | seq q qs => exact ⟨q, qs, rfl, by rw [rel]⟩
  | iri _ => exact ⟨_, [], rfl, rfl⟩
  | inv _ => exact ⟨_, [], rfl, rfl⟩
  | alt _ => exact ⟨_, [], rfl, rfl⟩
  | mul _ _ => exact ⟨_, [], rfl, rfl⟩
  | neg _ _ => exact ⟨_, [], rfl, rfl⟩

theorem compList_flatMap_seqArgs (g : Graph) : ∀ (ps : List Path) (R : Rel),
    compList R (relList g (ps.flatMap seqArgs)) = compList R (relList g ps)
  | [], _ => rfl
  | p :: ps, R => by
    obtain ⟨a, as, h1, h2⟩ := rel_seqArgs g p
    simp only [List.flatMap_cons, h1, List.cons_append, relList, relList_append, compList]
    rw [compList_append, h2, compList_flatMap_seqArgs g ps (rel g p)]

theorem rel_seq (g : Graph) (q : Path) (qs : List Path) :
    rel g (.seq q qs) = compList (rel g q) (relList g qs) := by rw [rel]

theorem rel_mkSeq (g : Graph) (p : Path) (ps : List Path) :
    rel g (mkSeq p ps) = compList (rel g p) (relList g ps) := by
  cases p with
  | seq q qs =>
    simp only [mkSeq]
    rw [rel_seq, relList_append, compList_append, compList_flatMap_seqArgs, rel_seq]
  | iri _ => simp only [mkSeq]; rw [rel_seq, compList_flatMap_seqArgs]
  | inv _ => simp only [mkSeq]; rw [rel_seq, compList_flatMap_seqArgs]
  | alt _ => simp only [mkSeq]; rw [rel_seq, compList_flatMap_seqArgs]
  | mul _ _ => simp only [mkSeq]; rw [rel_seq, compList_flatMap_seqArgs]
  | neg _ _ => simp only [mkSeq]; rw [rel_seq, compList_flatMap_seqArgs]

theorem rel_altArgs (g : Graph) (p : Path) : unionList (relList g (altArgs p)) = rel g p := by
  cases p with
  | alt qs => simp only [altArgs]; rw [rel]
  | iri _ => simp only [altArgs, relList]; exact unionList_singleton _
  | inv _ => simp only [altArgs, relList]; exact unionList_singleton _
  | seq _ _ => simp only [altArgs, relList]; exact unionList_singleton _
  | mul _ _ => simp only [altArgs, relList]; exact unionList_singleton _
  | neg _ _ => simp only [altArgs, relList]; exact unionList_singleton _

theorem unionList_cons (R : Rel) (Rs : List Rel) :
    unionList (R :: Rs) = fun x y => R x y ∨ unionList Rs x y := by
  have := unionList_append [R] Rs
  rw [unionList_singleton] at this
  exact this

theorem unionList_flatMap_altArgs (g : Graph) : ∀ ps : List Path,
    unionList (relList g (ps.flatMap altArgs)) = unionList (relList g ps)
  | [] => rfl
  | p :: ps => by
    simp only [List.flatMap_cons, relList_append, relList]
    rw [unionList_append, unionList_cons, rel_altArgs, unionList_flatMap_altArgs g ps]

mutual
theorem build_rel_aux (g : Graph) : ∀ p : Path, rel g (build p) = rel g p
  | .iri p => by rw [build]
  | .inv p => by rw [build, rel, rel, build_rel_aux g p]
  | .seq p ps => by rw [build, rel_mkSeq, build_rel_aux g p, buildList_rel_aux g ps, rel]
  | .alt ps => by rw [build, mkAlt, rel, unionList_flatMap_altArgs, buildList_rel_aux g ps, rel]
  | .mul p m => by rw [build, rel, rel, build_rel_aux g p]
  | .neg fw bw => by rw [build]
theorem buildList_rel_aux (g : Graph) : ∀ ps : List Path, relList g (buildList ps) = relList g ps
  | [] => by rw [buildList]
  | p :: ps => by rw [buildList, relList, relList, build_rel_aux g p, buildList_rel_aux g ps]
end


theorem build_preserves_rel : Statement_build_preserves_rel := build_rel_aux

/-! #### translatePath -/

theorem rel_mkAlt (g : Graph) (ps : List Path) : rel g (mkAlt ps) = unionList (relList g ps) := by
  rw [mkAlt, rel, unionList_flatMap_altArgs]

mutual
theorem translate_rel (g : Graph) : ∀ s : Syn, rel g (translate s) = den g s
  | .iri p => by rw [translate, den, rel]
  | .altS x xs => by
    have h := translateList_rel g xs
    rw [translate, den]
    cases hxs : translateList xs with
    | nil =>
      rw [hxs, relList] at h
      simp only [translate_rel g x, ← h, unionList_singleton]
    | cons t ts =>
      simp only
      rw [rel_mkAlt, relList, ← hxs, h, translate_rel g x]
  | .seqS x xs => by
    have h := translateList_rel g xs
    rw [translate, den]
    cases hxs : translateList xs with
    | nil =>
      rw [hxs, relList] at h
      simp only [translate_rel g x, ← h, compList]
    | cons t ts =>
      simp only
      rw [rel_mkSeq, ← hxs, h, translate_rel g x]
  | .elt x none => by rw [translate, den, translate_rel g x]
  | .elt x (some m) => by rw [translate, den, rel, translate_rel g x]
  | .invS x => by rw [translate, den, rel, translate_rel g x]
  | .nps fw bw => by rw [translate, den, rel]
theorem translateList_rel (g : Graph) : ∀ xs : List Syn, relList g (translateList xs) = denList g xs
  | [] => by rw [translateList, relList, denList]
  | x :: xs => by rw [translateList, relList, denList, translate_rel g x, translateList_rel g xs]
end

/-- `sparql_path_same` for every query path whose translation has no inverse member in a negated set -/
theorem sparql_path_same_partial :
    ∀ (g : Graph) (t : Syn), (translate t).noInvNeg = true → ∀ (s o : Option Term) (x y : Term),
      (x, y) ∈ evalPath g (translate t) s o ↔
        den g t x y ∧ (∀ a, s = some a → x = a) ∧ (∀ b, o = some b → y = b) ∧
          (s = none → o = none → x ∈ nodes g ∧ y ∈ nodes g) := by
  intro g t h s o x y
  rw [← translate_rel g t]
  exact path_correct_partial g (translate t) h s o x y

/-- the same defect through SPARQL: `SELECT * { ?s !(^q) ?o }` -/
theorem sparql_path_same_witness : ¬ Statement_sparql_path_same := by
  intro h
  have hr : den [(1, 10, 2)] (.nps [] [11]) 2 1 := by
    rw [den]
    exact Or.inr ⟨by decide, 10, by decide, by decide⟩
  have := (h [(1, 10, 2)] (.nps [] [11]) none none 2 1).mpr
    ⟨hr, by simp, by simp, fun _ _ => by decide⟩
  revert this
  decide

/-- What a user gets: the expression `p` is built by the constructors (`build`) and evaluated. -/
def Statement_path_correct_as_built : Prop :=
  ∀ (g : Graph) (p : Path) (s o : Option Term) (x y : Term),
    (x, y) ∈ evalPath g (build p) s o ↔
      rel g p x y ∧ (∀ a, s = some a → x = a) ∧ (∀ b, o = some b → y = b) ∧
        (s = none → o = none → x ∈ nodes g ∧ y ∈ nodes g)

theorem path_correct_as_built_partial :
    ∀ (g : Graph) (p : Path), (build p).noInvNeg = true → ∀ (s o : Option Term) (x y : Term),
      (x, y) ∈ evalPath g (build p) s o ↔
        rel g p x y ∧ (∀ a, s = some a → x = a) ∧ (∀ b, o = some b → y = b) ∧
          (s = none → o = none → x ∈ nodes g ∧ y ∈ nodes g) := by
  intro g p h s o x y
  rw [← build_preserves_rel g p]
  exact path_correct_partial g (build p) h s o x y

theorem path_correct_as_built_witness : ¬ Statement_path_correct_as_built := by
  intro h
  have hr : rel [(1, 10, 2)] (.neg [] [11]) 2 1 := by
    rw [rel]
    exact Or.inr ⟨by decide, 10, by decide, by decide⟩
  have := (h [(1, 10, 2)] (.neg [] [11]) none none 2 1).mpr
    ⟨hr, by simp, by simp, fun _ _ => by decide⟩
  revert this
  decide

/-- The repair of `NegatedPath.eval` kept on branch fix-C11 (`negEvalFixed`) computes the specified
    negated property set — with it `relC = rel` and `path_correct` holds at full strength. -/
theorem neg_repair_correct (g : Graph) (fw bw : List Term) :
    Correct (nodes g) (negEvalFixed g fw bw) (negRel g fw bw) := negFixed_correct g fw bw

/-! ### Known finding C11-F5, characterised: exactly the sets with an inverse member are affected -/

/-- `NegatedPath.eval` computes the specified negated property set on every graph **iff** the set has no inverse
    member: `!(p|…)` and `!()` are right on all graphs, every `!(…|^q|…)` is wrong on some graph. -/
def Statement_neg_affected_iff : Prop :=
  ∀ (fw bw : List Term), (∀ g : Graph, negRelImpl g fw bw = negRel g fw bw) ↔ bw = []

theorem neg_affected_iff : Statement_neg_affected_iff := by
  intro fw bw
  constructor
  · intro h
    cases bw with
    | nil => rfl
    | cons b bs =>
      have hw := negRelImpl_ne_of_inverse fw b bs
      rw [h] at hw
      exact absurd hw.1 hw.2
  · rintro rfl g
    exact negRelImpl_nil g fw

/-- the same in terms of what is yielded: for a set with an inverse member there is a graph (one triple `0 q 1`
    with a predicate `q` outside the set) on which `?s !(…) ?o` must answer `(1, 0)` and `NegatedPath.eval` does not -/
theorem neg_affected_answer (fw : List Term) (b : Term) (bs : List Term) :
    ∃ g : Graph, rel g (.neg fw (b :: bs)) 1 0 ∧ (1, 0) ∉ evalPath g (.neg fw (b :: bs)) none none := by
  refine ⟨[(0, freshPred (fw ++ b :: bs), 1)], ?_, ?_⟩
  · rw [rel]; exact (negRelImpl_ne_of_inverse fw b bs).1
  · intro h
    have := (path_computes _ _ _ _ _ _).mp h
    rw [relC] at this
    exact (negRelImpl_ne_of_inverse fw b bs).2 this.1

example : evalPath [(0, freshPred [10, 11], 1)] (.neg [10] [11]) none none = [(0, 1)] := by decide

/-! ### Round g — the syntax tie: `Path.n3()` text, read back as SPARQL and translated

`n3` (N3.lean) is the writer of rdflib/paths.py, `readPath` a recursive-descent reader of SPARQL 1.1 grammar rules [88]–[96]
producing the parser's tree, `translate` the model of `translatePath`; `reparse p = (readPath (n3 p)).map translate` is the
path object a query gets when the user splices `p.n3()` into its text. -/

/-- the text `n3()` writes for `p` is in SPARQL's grammar: no modifier on anything but a primary (`p*+`, `(^p)*` — which is
    written `^p*`), no `^` on a `^` (`^^p`), no empty alternative; single-member sequences / alternatives are transparent -/
def Path.n3Readable (p : Path) : Bool := lvl p != .bad

/-- Splicing `p.n3()` into a query gives a path that denotes what `p` denotes. -/
def Statement_path_n3_roundtrip : Prop :=
  ∀ p : Path, ∃ q, reparse p = some q ∧ ∀ g : Graph, rel g q = rel g p

mutual
/-- dropping single-member sequences / alternatives and splicing parenthesised groups does not change the relation -/
theorem norm_rel (g : Graph) : ∀ p : Path, rel g (norm p) = rel g p
  | .iri p => by rw [norm]
  | .neg fw bw => by rw [norm]
  | .inv x => by rw [norm, rel, rel, norm_rel g x]
  | .mul x m => by rw [norm, rel, rel, norm_rel g x]
  | .seq a [] => by rw [norm, norm_rel g a, rel, relList, compList]
  | .seq a (b :: bs) => by
    rw [norm, rel_mkSeq, relList, norm_rel g a, norm_rel g b, normList_rel g bs, rel, relList]
  | .alt [] => by rw [norm]
  | .alt [a] => by rw [norm, norm_rel g a, rel, relList, relList, unionList_singleton]
  | .alt (a :: b :: cs) => by
    rw [norm, rel_mkAlt, relList, relList, norm_rel g a, norm_rel g b, normList_rel g cs, rel, relList, relList]
theorem normList_rel (g : Graph) : ∀ ps : List Path, relList g (normList ps) = relList g ps
  | [] => by rw [normList]
  | p :: ps => by rw [normList, relList, relList, norm_rel g p, normList_rel g ps]
end

/-- For every path whose `n3()` text is in the grammar (any depth): the reader accepts the text with the fuel it is
    given, `translatePath` rebuilds exactly `norm p` (the same tree up to single-member wrappers and the constructors'
    splicing), and that path denotes the relation of `p`. -/
theorem path_n3_roundtrip_partial :
    ∀ p : Path, p.n3Readable = true → reparse p = some (norm p) ∧ ∀ g : Graph, rel g (norm p) = rel g p := by
  intro p h
  have hl : lvl p ≠ .bad := by simpa [Path.n3Readable] using h
  obtain ⟨t, h1, h2⟩ := read_n3 p hl
  exact ⟨by rw [reparse, h1, Option.map_some, h2], fun g => norm_rel g p⟩

/-- The code falsifies the full statement: `MulPath(MulPath(p, '*'), '+').n3()` is `<p>*+`, which is not a SPARQL path. -/
theorem path_n3_roundtrip_witness : ¬ Statement_path_n3_roundtrip := by
  intro h
  obtain ⟨q, hq, _⟩ := h (.mul (.mul (.iri 10) .zeroOrMore) .oneOrMore)
  have : (reparse (.mul (.mul (.iri 10) .zeroOrMore) .oneOrMore)).isNone = true := by decide
  rw [hq] at this
  cases this

/-- … and evaluating that query text yields exactly the pairs of the relation `p` denotes (all four bindings), as far as
    `NegatedPath.eval` is right (C11-F5). -/
theorem n3_query_same_partial :
    ∀ (g : Graph) (p : Path), p.n3Readable = true → (norm p).noInvNeg = true → ∀ (s o : Option Term) (x y : Term),
      (∃ q, reparse p = some q ∧ ((x, y) ∈ evalPath g q s o ↔
        rel g p x y ∧ (∀ a, s = some a → x = a) ∧ (∀ b, o = some b → y = b) ∧
          (s = none → o = none → x ∈ nodes g ∧ y ∈ nodes g))) := by
  intro g p h hn s o x y
  refine ⟨norm p, (path_n3_roundtrip_partial p h).1, ?_⟩
  rw [← norm_rel g p]
  exact path_correct_partial g (norm p) hn s o x y

-- `(p/(q|^r))*` is written `( p / ( q | ^ r ) ) *`; `(^p)*` is written `^ p *` and read back as `^(p*)` (same relation);
-- `^^p` and the empty alternative have no readable text
example : n3 (.mul (.seq (.iri 10) [.alt [.iri 11, .inv (.iri 12)]]) .zeroOrMore) =
    [.lp, .iri 10, .slash, .lp, .iri 11, .bar, .hat, .iri 12, .rp, .rp, .mod .zeroOrMore] := by decide
example : Path.n3Readable (.mul (.seq (.iri 10) [.alt [.iri 11, .inv (.iri 12)]]) .zeroOrMore) = true := by decide
example : (reparse (.mul (.inv (.iri 10)) .zeroOrMore)).isSome = true ∧
    Path.n3Readable (.mul (.inv (.iri 10)) .zeroOrMore) = false := by decide
example : (reparse (.inv (.inv (.iri 10)))).isNone = true ∧ (reparse (.seq (.iri 10) [.alt []])).isNone = true := by decide

/-! ### Non-vacuity: cyclic graph (2-cycle, self-loop, 3-cycle), nested closures, all bindings -/

/-- 2-cycle 1⇄2 on p=10, self-loop on 3, 3-cycle 4→5→6→4 on q=11, edge 2 -q-> 4 -/
def exG : Graph := [(1, 10, 2), (2, 10, 1), (3, 10, 3), (4, 11, 5), (5, 11, 6), (6, 11, 4), (2, 11, 4)]
/-- `(p* / (q | ^q))+` -/
def exP : Path := .mul (.seq (.mul (.iri 10) .zeroOrMore) [.alt [.iri 11, .inv (.iri 11)]]) .oneOrMore

example : evalPath exG (.mul (.iri 10) .zeroOrMore) (some 1) none = [(1, 1), (1, 2)] := by decide
example : evalPath exG (.mul (.iri 10) .oneOrMore) (some 3) none = [(3, 3)] := by decide
example : evalPath exG (.mul (.iri 10) .zeroOrMore) (some 9) none = [(9, 9)] := by decide  -- 9 ∉ nodes
example : evalPath exG exP (some 1) none = [(1, 4), (1, 5), (1, 6), (1, 2)] := by decide
example : evalPath exG exP none (some 2) = [(4, 2), (6, 2), (5, 2), (2, 2), (1, 2)] := by decide
example : evalPath exG exP (some 1) (some 6) = [(1, 6)] := by decide
example : (evalPath exG (.mul (.iri 11) .zeroOrMore) none none).length = 15 := by decide
example : evalPath exG (.neg [10] []) none (some 4) = [(6, 4), (2, 4)] := by decide
example : mulOk exG (.iri 11) .oneOrMore (some 4) none = true := by decide
example : build (.seq (.seq (.iri 10) [.iri 11]) [.seq (.iri 10) [.iri 10]]) =
    .seq (.iri 10) [.iri 11, .iri 10, .iri 10] := rfl

-- `(p/^q)*|!(p|^r)` as parsed, and as translated
example : translate (.altS (.seqS (.elt (.altS (.seqS (.elt (.iri 10) none) [.invS (.elt (.iri 11) none)]) []) (some .zeroOrMore)) [])
      [.seqS (.elt (.nps [10] [12]) none) []]) =
    .alt [.mul (.seq (.iri 10) [.inv (.iri 11)]) .zeroOrMore, .neg [10] [12]] := rfl

/-! ### Round g — the Graph API with a path as predicate (`Graph.triples` dispatch, `in`, `objects` / `subjects` /
`subject_objects` with `unique=`, list-valued ends, `Graph.value`) -/

/-- Every entry point answers with exactly the relation the code computes for the path (`relC`; the specified one
    unless C11-F5 applies), whatever `unique` is. -/
def Statement_api_dispatch : Prop :=
  ∀ (g : Graph) (p : Path),
    (∀ a b, gContains g p a b = true ↔ relC g p a b) ∧
    (∀ a u y, y ∈ gObjects g p (some a) u ↔ relC g p a y) ∧
    (∀ b u x, x ∈ gSubjects g p (some b) u ↔ relC g p x b) ∧
    (∀ u x y, (x, y) ∈ gSubjectObjects g p u ↔ relC g p x y ∧ x ∈ nodes g ∧ y ∈ nodes g) ∧
    (∀ ss u y, y ∈ gObjectsOfList g p ss u ↔ ∃ a ∈ ss, relC g p a y) ∧
    (∀ os u x, x ∈ gSubjectsOfList g p os u ↔ ∃ b ∈ os, relC g p x b) ∧
    (∀ a, (gValueObj g p a = none ↔ ∀ y, ¬ relC g p a y) ∧ ∀ y, gValueObj g p a = some y → relC g p a y) ∧
    (∀ b, (gValueSubj g p b = none ↔ ∀ x, ¬ relC g p x b) ∧ ∀ x, gValueSubj g p b = some x → relC g p x b)

/-- `unique=True` answers are duplicate-free for every path (not only closures). -/
def Statement_api_unique_nodup : Prop :=
  ∀ (g : Graph) (p : Path),
    (∀ s, (gObjects g p s true).Nodup) ∧ (∀ o, (gSubjects g p o true).Nodup) ∧ (gSubjectObjects g p true).Nodup

theorem mem_gObjects (g : Graph) (p : Path) (a : Term) (u : Bool) (y : Term) :
    y ∈ gObjects g p (some a) u ↔ relC g p a y := by
  have key : y ∈ (gTriples g p (some a) none).map (·.2) ↔ relC g p a y := by
    simp only [List.mem_map, gTriples]
    constructor
    · rintro ⟨⟨x, y'⟩, h, rfl⟩
      obtain ⟨hr, hs, _⟩ := (path_computes g p _ _ x y').mp h
      exact (hs a rfl) ▸ hr
    · intro hr
      exact ⟨(a, y), (path_computes g p _ _ a y).mpr ⟨hr, by simp, by simp, by simp⟩, rfl⟩
  cases u <;> simp only [gObjects, mem_uniq_nil, key, if_true, Bool.false_eq_true, if_false]

theorem mem_gSubjects (g : Graph) (p : Path) (b : Term) (u : Bool) (x : Term) :
    x ∈ gSubjects g p (some b) u ↔ relC g p x b := by
  have key : x ∈ (gTriples g p none (some b)).map (·.1) ↔ relC g p x b := by
    simp only [List.mem_map, gTriples]
    constructor
    · rintro ⟨⟨x', y⟩, h, rfl⟩
      obtain ⟨hr, _, ho, _⟩ := (path_computes g p _ _ x' y).mp h
      exact (ho b rfl) ▸ hr
    · intro hr
      exact ⟨(x, b), (path_computes g p _ _ x b).mpr ⟨hr, by simp, by simp, by simp⟩, rfl⟩
  cases u <;> simp only [gSubjects, mem_uniq_nil, key, if_true, Bool.false_eq_true, if_false]

theorem api_dispatch : Statement_api_dispatch := by
  intro g p
  refine ⟨?_, mem_gObjects g p, mem_gSubjects g p, ?_, ?_, ?_, ?_, ?_⟩
  · intro a b
    have h := path_computes g p (some a) (some b)
    simp only [gContains, gTriples]
    constructor
    · intro hc
      cases hl : evalPath g p (some a) (some b) with
      | nil => rw [hl] at hc; cases hc
      | cons r rs =>
        obtain ⟨x, y⟩ := r
        obtain ⟨hr, hs, ho, _⟩ := (h x y).mp (hl ▸ List.mem_cons_self ..)
        exact (hs a rfl) ▸ (ho b rfl) ▸ hr
    · intro hr
      have := (h a b).mpr ⟨hr, by simp, by simp, by simp⟩
      cases hl : evalPath g p (some a) (some b) with
      | nil => rw [hl] at this; cases this
      | cons r rs => rfl
  · intro u x y
    have h := path_computes g p none none x y
    cases u <;> simp only [gSubjectObjects, gTriples, mem_uniq_nil, h, if_true, Bool.false_eq_true, if_false] <;> simp
  · intro ss u y
    simp only [gObjectsOfList, List.mem_flatMap, mem_gObjects]
  · intro os u x
    simp only [gSubjectsOfList, List.mem_flatMap, mem_gSubjects]
  · intro a
    refine ⟨?_, fun y h => (mem_gObjects g p a false y).mp (mem_of_head? h)⟩
    rw [gValueObj, head?_eq_none_iff']
    exact forall_congr' fun y => not_congr (mem_gObjects g p a false y)
  · intro b
    refine ⟨?_, fun x h => (mem_gSubjects g p b false x).mp (mem_of_head? h)⟩
    rw [gValueSubj, head?_eq_none_iff']
    exact forall_congr' fun x => not_congr (mem_gSubjects g p b false x)

theorem api_unique_nodup : Statement_api_unique_nodup := by
  intro g p
  refine ⟨fun s => ?_, fun o => ?_, ?_⟩
  · simp only [gObjects, if_true]; exact nodup_uniq _ _
  · simp only [gSubjects, if_true]; exact nodup_uniq _ _
  · simp only [gSubjectObjects, if_true]; exact nodup_uniq _ _

/-- the same against the *specified* relation, for every path without an inverse member in a negated set (C11-F5) -/
theorem api_dispatch_correct_partial (g : Graph) (p : Path) (h : p.noInvNeg = true) :
    (∀ a b, gContains g p a b = true ↔ rel g p a b) ∧
    (∀ a u y, y ∈ gObjects g p (some a) u ↔ rel g p a y) ∧
    (∀ b u x, x ∈ gSubjects g p (some b) u ↔ rel g p x b) ∧
    (∀ u x y, (x, y) ∈ gSubjectObjects g p u ↔ rel g p x y ∧ x ∈ nodes g ∧ y ∈ nodes g) := by
  have := api_dispatch g p
  rw [relC_eq_rel g p h] at this
  exact ⟨this.1, this.2.1, this.2.2.1, this.2.2.2.1⟩

example : gContains exG exP 1 6 = true ∧ gObjects exG (.seq (.iri 10) [.inv (.iri 10)]) (some 1) false = [1] ∧
    gObjects exG (.alt [.iri 10, .inv (.iri 10)]) (some 1) false = [2, 2] ∧
    gObjects exG (.alt [.iri 10, .inv (.iri 10)]) (some 1) true = [2] ∧ gValueObj exG exP 9 = none := by decide

/-! ### Round g — the public `first` flag of `MulPath.eval` -/

/-- `first=True` (the default, what `Graph.triples` uses) is the evaluation above; `first=False` with an end given yields
    exactly the pairs joined by one or more steps (`?`: exactly one step) — the zero-length pair only if a cycle returns —
    still duplicate-free; with both ends free the flag changes nothing. -/
def Statement_mul_first_flag : Prop :=
  ∀ (g : Graph) (p : Path) (m : Mod) (s o : Option Term),
    mulEvalF g (evalPath g p) m true s o = evalPath g (.mul p m) s o ∧
    (mulEvalF g (evalPath g p) m false s o).Nodup ∧
    ∀ x y, (x, y) ∈ mulEvalF g (evalPath g p) m false s o ↔
      (if s = none ∧ o = none then closure m (relC g p) x y
       else (if m.more = true then TransGen (relC g p) x y else relC g p x y)) ∧
      (∀ a, s = some a → x = a) ∧ (∀ b, o = some b → y = b) ∧ (s = none → o = none → x ∈ nodes g ∧ y ∈ nodes g)

theorem mul_first_flag : Statement_mul_first_flag := by
  intro g p m s o
  refine ⟨by rw [mulEvalF_true, evalPath], ?_, fun x y => mulF_false_correct (evalPath_computes g p) (relC_iso g p) m s o x y⟩
  simp only [mulEvalF, Bool.and_false, Bool.false_eq_true, if_false, List.nil_append]
  exact nodup_dedupInto _ _

example : mulEvalF exG (evalPath exG (.iri 10)) .zeroOrMore false (some 1) none = [(1, 2), (1, 1)] ∧
    mulEvalF exG (evalPath exG (.iri 11)) .zeroOrMore false (some 2) none = [(2, 4), (2, 5), (2, 6)] ∧
    mulEvalF exG (evalPath exG (.iri 10)) .zeroOrOne false none (some 9) = [] := by decide

/-! ### Follow-up to round g — binding shapes of a path pattern in a BGP (`?x path ?x`, ends bound by other patterns) -/

/-- `?x path ?x` answers exactly the diagonal of the relation over ALL nodes of the graph (subjects and objects alike, so
    object-only nodes such as literals too); zero-length paths list every node; pre-bound to a term `a` (which may be absent
    from the graph) it answers iff `(a, a)` is in the relation.  A variable bound by another pattern of the BGP restricts
    the answers to that pattern's terms, whichever of the two is evaluated first. -/
def Statement_bgp_binding_shapes : Prop :=
  ∀ (g : Graph) (p : Path),
    (∀ x y, (x, y) ∈ bgpSame g p none ↔ x = y ∧ relC g p x x ∧ x ∈ nodes g) ∧
    (∀ a x y, (x, y) ∈ bgpSame g p (some a) ↔ x = a ∧ y = a ∧ relC g p a a) ∧
    (∀ x y, (x, y) ∈ bgpSubjBefore g p ↔ relC g p x y ∧ ∃ t ∈ g, t.1 = x) ∧
    (∀ x y, (x, y) ∈ bgpObjAfter g p ↔ (relC g p x y ∧ x ∈ nodes g ∧ y ∈ nodes g) ∧ ∃ t ∈ g, t.2.2 = y)

theorem bgp_binding_shapes : Statement_bgp_binding_shapes := by
  intro g p
  refine ⟨?_, ?_, ?_, ?_⟩
  · intro x y
    simp only [bgpSame, List.mem_filter, path_computes g p none none x y, beq_iff_eq]
    constructor
    · rintro ⟨⟨hr, _, _, hn⟩, rfl⟩; exact ⟨rfl, hr, (hn trivial trivial).1⟩
    · rintro ⟨rfl, hr, hn⟩; exact ⟨⟨hr, by simp, by simp, fun _ _ => ⟨hn, hn⟩⟩, rfl⟩
  · intro a x y
    simp only [bgpSame, path_computes g p (some a) (some a) x y]
    constructor
    · rintro ⟨hr, hs, ho, _⟩
      obtain rfl := hs a rfl
      obtain rfl := ho x rfl
      exact ⟨rfl, rfl, hr⟩
    · rintro ⟨rfl, rfl, hr⟩; exact ⟨hr, by simp, by simp, by simp⟩
  · intro x y
    simp only [bgpSubjBefore, List.mem_flatMap]
    constructor
    · rintro ⟨t, ht, h⟩
      obtain ⟨hr, hs, _⟩ := (path_computes g p _ _ x y).mp h
      exact ⟨hr, t, ht, (hs _ rfl).symm⟩
    · rintro ⟨hr, t, ht, rfl⟩
      exact ⟨t, ht, (path_computes g p _ _ _ y).mpr ⟨hr, by simp, by simp, by simp⟩⟩
  · intro x y
    simp only [bgpObjAfter, List.mem_filter, path_computes g p none none x y, List.any_eq_true, beq_iff_eq]
    constructor
    · rintro ⟨⟨hr, _, _, hn⟩, t, ht, e⟩; exact ⟨⟨hr, hn trivial trivial⟩, t, ht, e⟩
    · rintro ⟨⟨hr, hn⟩, t, ht, e⟩; exact ⟨⟨hr, by simp, by simp, fun _ _ => hn⟩, t, ht, e⟩

/-- `?x p* ?x`, `?x p? ?x` list every node of the graph — object-only nodes (literals) included -/
theorem bgp_same_zero_length (g : Graph) (p : Path) (m : Mod) (hz : m.zero = true) (s q o : Term) (h : (s, q, o) ∈ g) :
    (o, o) ∈ bgpSame g (.mul p m) none ∧ (s, s) ∈ bgpSame g (.mul p m) none := by
  have hc : ∀ x, relC g (.mul p m) x x := by
    intro x
    rw [relC]
    cases m with
    | zeroOrOne => exact Or.inl rfl
    | zeroOrMore => exact ReflTransGen.refl
    | oneOrMore => simp [Mod.zero] at hz
  have hn := triple_nodes h
  exact ⟨((bgp_binding_shapes g _).1 o o).mpr ⟨rfl, hc o, hn.2⟩, ((bgp_binding_shapes g _).1 s s).mpr ⟨rfl, hc s, hn.1⟩⟩

-- the object-only literal 7: `?x ^q/q ?x` and `?x q* ?x` on `3 q 7`
example : bgpSame [(3, 11, 7)] (.seq (.inv (.iri 11)) [.iri 11]) none = [(7, 7)] ∧
    bgpSame [(3, 11, 7)] (.mul (.iri 11) .zeroOrMore) none = [(3, 3), (7, 7)] := by decide

/-! ### Round h — paths over graph *objects*: plain Graph / named-graph view, ConjunctiveGraph & Dataset(default_union),
ReadOnlyGraphAggregate.  `evalPathV tr` is the evaluator handed the object's `triples` method `tr` (the only thing paths.py
reads of it); `Coherent tr`: that method is a filter of its own full scan. -/

mutual
theorem evalPathV_computes {tr : TriplesFn} (h : Coherent tr) :
    ∀ p : Path, Correct (nodes (tr none none none)) (evalPathV tr p) (relC (tr none none none) p)
  | .iri p => by rw [evalPathV, relC]; exact triV_correct h p
  | .inv p => by rw [evalPathV, relC]; exact inv_correct (evalPathV_computes h p)
  | .seq p ps => by
    rw [evalPathV, relC]
    exact seq_correct (evalPathV_computes h p) (evalListV_computes h ps) (relC_iso _ p) (relCList_iso _ ps)
  | .alt ps => by rw [evalPathV, relC]; exact alt_correct (evalListV_computes h ps)
  | .mul p m => by rw [evalPathV, relC]; exact mul_correct (evalPathV_computes h p) (relC_iso _ p) m
  | .neg fw bw => by rw [evalPathV, relC]; exact negV_correct h fw bw
theorem evalListV_computes {tr : TriplesFn} (h : Coherent tr) :
    ∀ ps : List Path, CorrectL (nodes (tr none none none)) (evalListV tr ps) (relCList (tr none none none) ps)
  | [] => by rw [evalListV, relCList]; exact .nil
  | p :: ps => by rw [evalListV, relCList]; exact .cons (evalPathV_computes h p) (evalListV_computes h ps)
end

/-- Evaluating a path over a graph object reads it through `triples` only, and yields exactly what evaluation over the
    list of triples the object scans yields (so every theorem above transfers); closures stay duplicate-free.  The three
    kinds of object rdflib has are coherent and scan exactly the triples of their contexts / members. -/
def Statement_view_eval_same : Prop :=
  (∀ (tr : TriplesFn), Coherent tr → ∀ (p : Path) (s o : Option Term),
    (∀ x y, (x, y) ∈ evalPathV tr p s o ↔ (x, y) ∈ evalPath (tr none none none) p s o) ∧
    (p.isClosure = true → (evalPathV tr p s o).Nodup)) ∧
  (∀ g : Graph, Coherent (plainView g) ∧ ∀ t, t ∈ plainView g none none none ↔ t ∈ g) ∧
  (∀ ctxs : List Graph, Coherent (unionView ctxs) ∧ ∀ t, t ∈ unionView ctxs none none none ↔ ∃ c ∈ ctxs, t ∈ c) ∧
  (∀ ms : List Graph, Coherent (aggView ms) ∧ ∀ t, t ∈ aggView ms none none none ↔ ∃ m ∈ ms, t ∈ m)

theorem nodupV_aux (tr : TriplesFn) : ∀ (p : Path) (s o : Option Term), p.isClosure = true → (evalPathV tr p s o).Nodup
  | .mul p m, s, o, _ => by rw [evalPathV]; exact mul_nodup _ _ m s o
  | .inv p, s, o, h => by
    rw [evalPathV]
    simp only [Path.isClosure] at h
    exact nodup_invEval (nodupV_aux tr p o s h)
  | .iri _, _, _, h => by simp [Path.isClosure] at h
  | .seq _ _, _, _, h => by simp [Path.isClosure] at h
  | .alt _, _, _, h => by simp [Path.isClosure] at h
  | .neg _ _, _, _, h => by simp [Path.isClosure] at h

theorem view_eval_same : Statement_view_eval_same := by
  refine ⟨fun tr h p s o => ⟨fun x y => ?_, nodupV_aux tr p s o⟩,
    fun g => ⟨plainView_coherent g, fun t => by simp [plainView, matchT_none]⟩,
    fun ctxs => ⟨unionView_coherent ctxs, mem_unionView_scan ctxs⟩,
    fun ms => ⟨aggView_coherent ms, mem_aggView_scan ms⟩⟩
  rw [evalPathV_computes h p s o x y, evalPath_computes (tr none none none) p s o x y]

-- `p/q` over an aggregate whose members hold one hop each, a shared triple, and the named view that sees one member only
example : evalPathV (aggView [[(1, 10, 2), (5, 10, 5)], [(2, 11, 3), (5, 10, 5)]]) (.seq (.iri 10) [.iri 11]) none none = [(1, 3)] ∧
    evalPathV (unionView [[(1, 10, 2), (5, 10, 5)], [(2, 11, 3), (5, 10, 5)]]) (.mul (.iri 10) .oneOrMore) none none = [(1, 2), (5, 5)] ∧
    evalPathV (plainView [(2, 11, 3), (5, 10, 5)]) (.seq (.iri 10) [.iri 11]) none none = [] := by decide

/-! ### The repaired defects of the pinned code (before the `fix:` commits now on /repo main), kept as
    regression witnesses.  Each definition is the pre-fix generator; each theorem shows on a
    concrete instance that it violates the property. -/

def wG : Graph := [(1, 10, 2), (2, 10, 1)]

/-- pre-fix `MulPath.eval`: the zero-length pair was yielded before the `done` filter existed -/
def mulEvalPrefixDone (g : Graph) (ev : Ev) (m : Mod) : Ev := fun s o =>
  (if m.zero then zeroPairs s o else []) ++ dedupInto [] (mulRun g ev m s o).1

theorem prefix_zero_pair_twice :
    ¬ (mulEvalPrefixDone wG (tri wG 10) .zeroOrMore (some 1) none).Nodup := by decide

/-- Python truthiness of a bound end: a falsy term counts as "not given" -/
def truthy (falsy : Term → Bool) : Option Term → Option Term
  | some t => if falsy t then none else some t
  | none => none

/-- pre-fix `MulPath.eval` (`if subj and obj / elif subj / elif obj`, `if not obj or o == obj`) -/
def mulEvalPrefixTruthy (falsy : Term → Bool) (g : Graph) (ev : Ev) (m : Mod) : Ev := fun s o =>
  (if m.zero then zeroPairs (truthy falsy s) (truthy falsy o) else []) ++
  dedupInto [] (match s, o with
    | some a, o => (fwd ev m.more (truthy falsy o) ((nodes g).length + 1) a []).out
    | none, some b => (bwd ev m.more ((nodes g).length + 1) b []).out
    | none, none => (allFwd g ev m ((nodes g).length + 1)).1)

def wF : Graph := [(1, 10, 0), (1, 10, 2)]

/-- `1 p+ 0` with `0` falsy returned every node reachable from 1; `0 p? 0` had no zero-length match -/
theorem prefix_falsy_end_ignored :
    mulEvalPrefixTruthy (· == 0) wF (tri wF 10) .oneOrMore (some 1) (some 0) = [(1, 0), (1, 2)] ∧
    mulEvalPrefixTruthy (· == 0) wF (tri wF 10) .zeroOrOne (some 0) (some 0) = [] ∧
    evalPath wF (.mul (.iri 10) .oneOrMore) (some 1) (some 0) = [(1, 0)] ∧
    evalPath wF (.mul (.iri 10) .zeroOrOne) (some 0) (some 0) = [(0, 0)] := by decide

/-- pre-fix `_eval_seq_bw`: after the last step it switched to the forward `_eval_seq` with a free start -/
def seqBwRevPrefix : Ev → List Ev → Ev
  | l, [] => fun s o => l s o
  | l, l' :: ls => fun s o =>
    (l none o).flatMap (fun my =>
      (seqFw (revOnto ls l' []).1 (revOnto ls l' []).2 s (some my.1)).map (fun r => (r.1, my.2)))

/-- `?s p*/p*/p* 9` on a graph without 9: the zero-length match on the given end was lost -/
theorem prefix_seq_bw_loses_absent_end :
    seqBwRevPrefix (evalPath wG (.mul (.iri 10) .zeroOrMore))
      [evalPath wG (.mul (.iri 10) .zeroOrMore), evalPath wG (.mul (.iri 10) .zeroOrMore)] none (some 9) = [] ∧
    evalPath wG (.seq (.mul (.iri 10) .zeroOrMore) [.mul (.iri 10) .zeroOrMore, .mul (.iri 10) .zeroOrMore])
      none (some 9) = [(9, 9)] := by decide

/-- pre-fix `ReadOnlyGraphAggregate.triples`: the path was evaluated once per member graph and the
    loop rebound `s`, `o` to the last pair produced -/
def aggPrefix (e : Ev) : Nat → Option Term → Option Term → List Pair
  | 0, _, _ => []
  | k + 1, s, o =>
    e s o ++ (match (e s o).getLast? with
      | some r => aggPrefix e k (some r.1) (some r.2)
      | none => aggPrefix e k s o)

theorem prefix_aggregate_duplicates :
    ¬ (aggPrefix (evalPath wG (.mul (.iri 10) .zeroOrMore)) 2 (some 1) none).Nodup := by decide

end RV.C11
