import RV.Base.SetList
/-
  C11 — model of property-path evaluation in `rdflib/paths.py` as it is on /repo main, as reached through `Graph.triples((s, path, o))`.

  Terms are naturals owned by the harness; a graph is the list of its triples (read as a set);
  an evaluator `Ev` is what `Path.eval(graph, subj, obj)` is for one path: a function from the
  two optional ends to the *list* of `(start, end)` pairs the generator yields (order and
  multiplicity as the generators produce them; order is never observed).

  One Lean function per Python generator:

    tri            Graph.triples((s, iri, o))                 (plain predicate)
    invEval        InvPath.eval
    seqFw          SequencePath.eval._eval_seq
    seqBwRev       SequencePath.eval._eval_seq_bw             (on the reversed argument list:
                                                               `paths[-1]`, `paths[:-1]`)
    seqEval        SequencePath.eval                          (direction choice, `is not None`)
    altEval        AlternativePath.eval
    fwd / fwdLoop  MulPath.eval._fwd                          (explicit `seen`, fuel)
    bwd / bwdLoop  MulPath.eval._bwd                          (only ever called with subj = None,
                                                               so its `subj` filter is vacuous)
    nodes          graph.subject_objects(None) with `seen1`   (zero-length step, both ends free)
    allStarts      MulPath.eval._all_fwd_paths, the `more` loop with its `seen` of start nodes
    zeroPairs      the zero-length step for a given term (holds for a term absent from the graph)
    dedupInto      the `done` set of MulPath.eval
    negEval        NegatedPath.eval (as coded; see known finding C11-F5)   negEvalFixed = its repair
    build          the flattening done by SequencePath.__init__ / AlternativePath.__init__
    translate      rdflib/plugins/sparql/algebra.py translatePath on the parser's tree `Syn`

  Recursion of `_fwd`/`_bwd` is bounded by fuel `|nodes g| + 1`; running out of fuel clears the
  `ok` flag (theorem `path_terminates`: it never happens).
-/
namespace RV.C11

abbrev Term := Nat
abbrev Triple := Term × Term × Term
abbrev Graph := List Triple
abbrev Pair := Term × Term
/-- `Path.eval(graph, subj, obj)` for a fixed path and graph -/
abbrev Ev := Option Term → Option Term → List Pair

inductive Mod
  | zeroOrOne | zeroOrMore | oneOrMore
  deriving DecidableEq, Repr

/-- `MulPath.zero` -/
def Mod.zero : Mod → Bool
  | .oneOrMore => false
  | _ => true
/-- `MulPath.more` -/
def Mod.more : Mod → Bool
  | .zeroOrOne => false
  | _ => true

inductive Path
  | iri (p : Term)
  | inv (p : Path)
  | seq (p : Path) (ps : List Path)      -- SequencePath.args = p :: ps (never empty)
  | alt (ps : List Path)                 -- AlternativePath.args
  | mul (p : Path) (m : Mod)
  | neg (fw bw : List Term)              -- NegatedPath.args: plain IRIs `fw`, `^iri` members `bw`
  deriving Repr

/-- a pattern position: `None` matches everything, a term matches itself (`is None`, not truthiness) -/
def okPos (b : Option Term) (x : Term) : Bool :=
  match b with
  | none => true
  | some y => x == y

/-- `Graph.triples((s, p, o))` for a plain predicate, projected to `(s, o)` as `eval_path` does -/
def tri (g : Graph) (p : Term) : Ev := fun s o =>
  (g.filter (fun t => okPos s t.1 && (t.2.1 == p && okPos o t.2.2))).map (fun t => (t.1, t.2.2))

/-- `InvPath.eval` -/
def invEval (e : Ev) : Ev := fun s o => (e o s).map (fun r => (r.2, r.1))

/-- `_eval_seq(paths, subj, obj)`, `paths = e :: es` -/
def seqFw : Ev → List Ev → Ev
  | e, [] => fun s o => e s o
  | e, e' :: es => fun s o =>
    (e s none).flatMap (fun xm => (seqFw e' es (some xm.2) o).map (fun r => (xm.1, r.2)))

/-- `_eval_seq_bw(paths, subj, obj)`, with `paths` reversed: `l` = `paths[-1]`, `ls` = rest, reversed -/
def seqBwRev : Ev → List Ev → Ev
  | l, [] => fun s o => l s o
  | l, l' :: ls => fun s o =>
    (l none o).flatMap (fun my => (seqBwRev l' ls s (some my.1)).map (fun r => (r.1, my.2)))

/-- reverse of the non-empty list `e :: es` as (last, rest reversed) -/
def revOnto {α : Type} : List α → α → List α → α × List α
  | [], e, acc => (e, acc)
  | e' :: es, e, acc => revOnto es e' (e :: acc)

/-- `SequencePath.eval`: forward if the start is given, else backward if the end is given, else forward -/
def seqEval (e : Ev) (es : List Ev) : Ev := fun s o =>
  match s, o with
  | some _, _ => seqFw e es s o
  | none, some _ => seqBwRev (revOnto es e []).1 (revOnto es e []).2 s o
  | none, none => seqFw e es s o

/-- `AlternativePath.eval` -/
def altEval (es : List Ev) : Ev := fun s o => es.flatMap (fun e => e s o)

/-! ### MulPath -/

structure Dfs where
  out : List Pair
  seen : List Term
  ok : Bool            -- false iff the recursion ran out of fuel somewhere

/-- the `for s, o in eval_path(graph, (subj, self.path, None))` loop of `_fwd`;
    `rec` is the recursive call `_fwd(o, obj, seen)` -/
def fwdLoop (rec : Term → List Term → Dfs) (more : Bool) (obj : Option Term) :
    List Pair → List Term → Dfs
  | [], seen => ⟨[], seen, true⟩
  | so :: rest, seen =>
    let here := if okPos obj so.2 then [so] else []
    if more && !(decide (so.2 ∈ seen)) then
      let r1 := rec so.2 seen
      let r2 := fwdLoop rec more obj rest r1.seen
      ⟨here ++ (r1.out.map (fun r => (so.1, r.2)) ++ r2.out), r2.seen, r1.ok && r2.ok⟩
    else
      let r2 := fwdLoop rec more obj rest seen
      ⟨here ++ r2.out, r2.seen, r2.ok⟩

/-- `_fwd(subj, obj, seen)` -/
def fwd (ev : Ev) (more : Bool) (obj : Option Term) : Nat → Term → List Term → Dfs
  | 0 => fun _ seen => ⟨[], seen, false⟩
  | n + 1 => fun subj seen =>
    fwdLoop (fwd ev more obj n) more obj (ev (some subj) none) (sinsert seen subj)

/-- the loop of `_bwd`; `rec` is `_bwd(None, s, seen)` -/
def bwdLoop (rec : Term → List Term → Dfs) (more : Bool) : List Pair → List Term → Dfs
  | [], seen => ⟨[], seen, true⟩
  | so :: rest, seen =>
    if more && !(decide (so.1 ∈ seen)) then
      let r1 := rec so.1 seen
      let r2 := bwdLoop rec more rest r1.seen
      ⟨so :: (r1.out.map (fun r => (r.1, so.2)) ++ r2.out), r2.seen, r1.ok && r2.ok⟩
    else
      let r2 := bwdLoop rec more rest seen
      ⟨so :: r2.out, r2.seen, r2.ok⟩

/-- `_bwd(None, obj, seen)` -/
def bwd (ev : Ev) (more : Bool) : Nat → Term → List Term → Dfs
  | 0 => fun _ seen => ⟨[], seen, false⟩
  | n + 1 => fun obj seen =>
    bwdLoop (bwd ev more n) more (ev none (some obj)) (sinsert seen obj)

/-- `graph.subject_objects(None)` filtered through `seen1`: every subject and object, once -/
def nodesAux : List Term → Graph → List Term
  | seen, [] => seen
  | seen, t :: g => nodesAux (sinsert (sinsert seen t.1) t.2.2) g

def nodes (g : Graph) : List Term := nodesAux [] g

/-- the `more` loop of `_all_fwd_paths`: one `_fwd(s, None, set())` per distinct start `s` -/
def allStarts (ev : Ev) (fuel : Nat) : List Pair → List Term → List Pair × Bool
  | [], _ => ([], true)
  | so :: rest, seen =>
    if so.1 ∈ seen then allStarts ev fuel rest seen
    else
      let r := fwd ev true none fuel so.1 []
      let r2 := allStarts ev fuel rest (sinsert seen so.1)
      (r.out ++ r2.1, r.ok && r2.2)

/-- `_all_fwd_paths()` -/
def allFwd (g : Graph) (ev : Ev) (m : Mod) (fuel : Nat) : List Pair × Bool :=
  let z := if m.zero then (nodes g).map (fun n => (n, n)) else []
  if m.more then
    let r := allStarts ev fuel (ev none none) []
    (z ++ r.1, r.2)
  else (z ++ ev none none, true)

/-- the zero-length step on the given term(s) -/
def zeroPairs (s o : Option Term) : List Pair :=
  match s, o with
  | some s, some o => if s = o then [(s, o)] else []
  | some s, none => [(s, s)]
  | none, some o => [(o, o)]
  | none, none => []

/-- `for x in …: if x not in done: done.add(x); yield x` -/
def dedupInto : List Pair → List Pair → List Pair
  | _, [] => []
  | done, x :: xs => if x ∈ done then dedupInto done xs else x :: dedupInto (x :: done) xs

/-- the traversal chosen by `MulPath.eval` (`is not None` tests), with the fuel flag -/
def mulRun (g : Graph) (ev : Ev) (m : Mod) (s o : Option Term) : List Pair × Bool :=
  let fuel := (nodes g).length + 1
  match s, o with
  | some s, o => let r := fwd ev m.more o fuel s []; (r.out, r.ok)
  | none, some o => let r := bwd ev m.more fuel o []; (r.out, r.ok)
  | none, none => allFwd g ev m fuel

/-- `MulPath.eval` -/
def mulEval (g : Graph) (ev : Ev) (m : Mod) : Ev := fun s o =>
  let z := if m.zero then zeroPairs s o else []
  z ++ dedupInto z (mulRun g ev m s o).1

/-- `NegatedPath.eval` as it is in the code: every *forward* triple `(s, p, o)` matching the ends is kept
    unless `p` is a plain member or, for some inverse member `^a`, `(o, a, s)` is in the graph.
    (For a set without inverse members this is the SPARQL definition; with an inverse member it is
    not — known finding C11-F5.) -/
def negEval (g : Graph) (fw bw : List Term) : Ev := fun s o =>
  (g.filter (fun t => okPos s t.1 && (okPos o t.2.2 && (!(decide (t.2.1 ∈ fw)) &&
      !(bw.any (fun a => decide ((t.2.2, a, t.1) ∈ g))))))).map (fun t => (t.1, t.2.2))

/-- the repair of `NegatedPath.eval` (branch fix-C11, not merged because it has to correct two lines of
    the module doctest): forward triples whose predicate is not a plain member (present when there is a
    plain member or no member at all) and reversed triples whose predicate is not an inverse member
    (present when there is an inverse member).  Not used by `evalPath`. -/
def negEvalFixed (g : Graph) (fw bw : List Term) : Ev := fun s o =>
  (if !fw.isEmpty || bw.isEmpty then
     (g.filter (fun t => okPos s t.1 && (okPos o t.2.2 && !(decide (t.2.1 ∈ fw))))).map (fun t => (t.1, t.2.2))
   else []) ++
  (if !bw.isEmpty then
     (g.filter (fun t => okPos o t.1 && (okPos s t.2.2 && !(decide (t.2.1 ∈ bw))))).map (fun t => (t.2.2, t.1))
   else [])

mutual
/-- `Graph.triples((s, path, o))` → `path.eval(graph, s, o)` -/
def evalPath (g : Graph) : Path → Ev
  | .iri p => tri g p
  | .inv p => invEval (evalPath g p)
  | .seq p ps => seqEval (evalPath g p) (evalList g ps)
  | .alt ps => altEval (evalList g ps)
  | .mul p m => mulEval g (evalPath g p) m
  | .neg fw bw => negEval g fw bw
def evalList (g : Graph) : List Path → List Ev
  | [] => []
  | p :: ps => evalPath g p :: evalList g ps
end

/-- the fuel flag of the outermost `MulPath` traversal -/
def mulOk (g : Graph) (p : Path) (m : Mod) (s o : Option Term) : Bool :=
  (mulRun g (evalPath g p) m s o).2

/-! ### constructors: SequencePath / AlternativePath splice arguments of their own class -/

def seqArgs : Path → List Path
  | .seq p ps => p :: ps
  | q => [q]

def altArgs : Path → List Path
  | .alt ps => ps
  | q => [q]

/-- `SequencePath(p, *ps)` -/
def mkSeq (p : Path) (ps : List Path) : Path :=
  match p with
  | .seq q qs => .seq q (qs ++ ps.flatMap seqArgs)
  | q => .seq q (ps.flatMap seqArgs)

/-- `AlternativePath(*ps)` -/
def mkAlt (ps : List Path) : Path := .alt (ps.flatMap altArgs)

mutual
/-- the object the constructors build for an expression (bottom-up) -/
def build : Path → Path
  | .iri p => .iri p
  | .inv p => .inv (build p)
  | .seq p ps => mkSeq (build p) (buildList ps)
  | .alt ps => mkAlt (buildList ps)
  | .mul p m => .mul (build p) m
  | .neg fw bw => .neg fw bw
def buildList : List Path → List Path
  | [] => []
  | p :: ps => build p :: buildList ps
end

/-- paths whose answers the property demands to be duplicate-free: closures, possibly under `^` -/
def Path.isClosure : Path → Bool
  | .mul _ _ => true
  | .inv p => p.isClosure
  | _ => false

/-! ### SPARQL front end: the parser's tree and `translatePath` -/

/-- the tree rdflib's parser builds for a path (parser.py: PathAlternative, PathSequence, PathElt,
    PathEltOrInverse, PathNegatedPropertySet with iri / InversePath members); `part` lists are never empty -/
inductive Syn
  | iri (p : Term)
  | altS (x : Syn) (xs : List Syn)
  | seqS (x : Syn) (xs : List Syn)
  | elt (x : Syn) (m : Option Mod)
  | invS (x : Syn)
  | nps (fw bw : List Term)

mutual
/-- `translatePath`, applied bottom-up by `traverse(q.where, visitPost=translatePath)` -/
def translate : Syn → Path
  | .iri p => .iri p
  | .altS x xs =>
    match translateList xs with
    | [] => translate x                          -- `len(p.part) == 1`: the part itself
    | t :: ts => mkAlt (translate x :: t :: ts)  -- `AlternativePath(*p.part)`
  | .seqS x xs =>
    match translateList xs with
    | [] => translate x
    | t :: ts => mkSeq (translate x) (t :: ts)   -- `SequencePath(*p.part)`
  | .elt x none => translate x                   -- `if not p.mod: return p.part`
  | .elt x (some m) => .mul (translate x) m
  | .invS x => .inv (translate x)
  | .nps fw bw => .neg fw bw                     -- `NegatedPath(AlternativePath(*p.part))`
def translateList : List Syn → List Path
  | [] => []
  | x :: xs => translate x :: translateList xs
end

/-! ### round g — the Graph API with a path as predicate (rdflib/graph.py) -/

/-- `for x in …: if x not in seen: yield x; seen.add(x)` — the `unique=True` loops of subjects / objects / subject_objects -/
def uniq {α : Type} [DecidableEq α] : List α → List α → List α
  | _, [] => []
  | seen, x :: xs => if x ∈ seen then uniq seen xs else x :: uniq (x :: seen) xs

/-- `Graph.triples((s, p, o))`, branch `isinstance(p, Path)`: `for _s, _o in p.eval(self, s, o): yield _s, p, _o`
    (the middle component is the path object itself and is dropped here) -/
def gTriples (g : Graph) (p : Path) (s o : Option Term) : List Pair := evalPath g p s o

/-- `Graph.__contains__((s, p, o))`: `for triple in self.triples(triple): return True` / `return False` -/
def gContains (g : Graph) (p : Path) (s o : Term) : Bool :=
  match gTriples g p (some s) (some o) with
  | [] => false
  | _ :: _ => true

/-- `Graph.objects(subject, predicate, unique)` for a single subject (or `None`) -/
def gObjects (g : Graph) (p : Path) (s : Option Term) (unique : Bool) : List Term :=
  if unique then uniq [] ((gTriples g p s none).map (·.2)) else (gTriples g p s none).map (·.2)

/-- `Graph.subjects(predicate, object, unique)` -/
def gSubjects (g : Graph) (p : Path) (o : Option Term) (unique : Bool) : List Term :=
  if unique then uniq [] ((gTriples g p none o).map (·.1)) else (gTriples g p none o).map (·.1)

/-- `Graph.subject_objects(predicate, unique)` -/
def gSubjectObjects (g : Graph) (p : Path) (unique : Bool) : List Pair :=
  if unique then uniq [] (gTriples g p none none) else gTriples g p none none

/-- `Graph.objects([s₁, …], predicate, unique)`: `for subj in subject: for o in self.objects(subj, predicate, unique)` -/
def gObjectsOfList (g : Graph) (p : Path) (ss : List Term) (unique : Bool) : List Term :=
  ss.flatMap (fun s => gObjects g p (some s) unique)

/-- `Graph.subjects(predicate, [o₁, …], unique)` -/
def gSubjectsOfList (g : Graph) (p : Path) (os : List Term) (unique : Bool) : List Term :=
  os.flatMap (fun o => gSubjects g p (some o) unique)

/-- `Graph.value(s, path)` (`any=True`): `next(self.objects(subject, predicate))`, `default` when exhausted -/
def gValueObj (g : Graph) (p : Path) (s : Term) : Option Term := (gObjects g p (some s) false).head?

/-- `Graph.value(None, path, o)` -/
def gValueSubj (g : Graph) (p : Path) (o : Term) : Option Term := (gSubjects g p (some o) false).head?

/-- `MulPath.eval(graph, subj, obj, first)`: the public `first` flag; `first=False` skips the zero-length step on the given
    end(s) (`if self.zero and first:`) — `_all_fwd_paths` still reports every node when both ends are free -/
def mulEvalF (g : Graph) (ev : Ev) (m : Mod) (first : Bool) : Ev := fun s o =>
  let z := if m.zero && first then zeroPairs s o else []
  z ++ dedupInto z (mulRun g ev m s o).1

/-! ### follow-up to round g — the shapes a path triple pattern takes inside `evalBGP` (evaluate.py) -/

/-- `?x path ?x` (the SAME variable at both ends).  Unbound: `ctx.graph.triples((None, path, None))`, `c[s] = ss`, then
    `c[o] = so` raises `AlreadyBound` (→ `continue`) unless `so == ss`.  Pre-bound to `a` (initBindings / VALUES pushed in /
    an earlier pattern): both ends are given. -/
def bgpSame (g : Graph) (p : Path) : Option Term → List Pair
  | none => (evalPath g p none none).filter (fun r => r.1 == r.2)
  | some a => evalPath g p (some a) (some a)

/-- `?s ?pp ?zz . ?s path ?o` with the plain pattern evaluated first: `?s` is bound when `evalBGP` reaches the path -/
def bgpSubjBefore (g : Graph) (p : Path) : List Pair := g.flatMap (fun t => evalPath g p (some t.1) none)

/-- `?s path ?o . ?zz ?pp ?o` with the path evaluated first (both ends free), then `?o` checked by the plain pattern -/
def bgpObjAfter (g : Graph) (p : Path) : List Pair :=
  (evalPath g p none none).filter (fun r => g.any (fun t => t.2.2 == r.2))

/-! ### round h — graph views: what a path evaluation reads of the graph object it is given

`paths.py` touches its `graph` argument in three ways only: `graph.triples((s, p, o))` with a plain pattern (through `eval_path`
for an IRI step, directly in `NegatedPath.eval`), `(o, p, s) in graph` (`NegatedPath.eval`), and `graph.subject_objects(None)`
(`_all_fwd_paths`) — the last two are `triples` again in graph.py.  `TriplesFn` is that method of the graph object. -/

abbrev TriplesFn := Option Term → Option Term → Option Term → List Triple

def matchT (s p o : Option Term) (t : Triple) : Bool := okPos s t.1 && (okPos p t.2.1 && okPos o t.2.2)

/-- `eval_path(graph, (s, iri, o))` -/
def triV (tr : TriplesFn) (p : Term) : Ev := fun s o => (tr s (some p) o).map (fun t => (t.1, t.2.2))

/-- `NegatedPath.eval` on a graph object: `graph.triples((subj, None, obj))`, `(o, a.arg, s) in graph` -/
def negEvalV (tr : TriplesFn) (fw bw : List Term) : Ev := fun s o =>
  ((tr s none o).filter (fun t => !(decide (t.2.1 ∈ fw)) &&
      !(bw.any (fun a => !(tr (some t.2.2) (some a) (some t.1)).isEmpty)))).map (fun t => (t.1, t.2.2))

mutual
/-- `path.eval(view, s, o)`; `_all_fwd_paths` scans `view.subject_objects(None)` = `tr none none none` -/
def evalPathV (tr : TriplesFn) : Path → Ev
  | .iri p => triV tr p
  | .inv p => invEval (evalPathV tr p)
  | .seq p ps => seqEval (evalPathV tr p) (evalListV tr ps)
  | .alt ps => altEval (evalListV tr ps)
  | .mul p m => mulEval (tr none none none) (evalPathV tr p) m
  | .neg fw bw => negEvalV tr fw bw
def evalListV (tr : TriplesFn) : List Path → List Ev
  | [] => []
  | p :: ps => evalPathV tr p :: evalListV tr ps
end

/-- a plain `Graph` (also `ds.graph(n)`: one context of a shared store): the store's scan of that context, filtered -/
def plainView (g : Graph) : TriplesFn := fun s p o => g.filter (matchT s p o)

/-- `ConjunctiveGraph` / `Dataset(default_union=True)` without a context: `store.triples(pattern, context=None)` yields every
    triple of any context once -/
def unionView (ctxs : List Graph) : TriplesFn := fun s p o => uniq [] (ctxs.flatten.filter (matchT s p o))

/-- `ReadOnlyGraphAggregate.triples` (plain pattern): member by member, skipping a triple held by an earlier member -/
def aggScan (s p o : Option Term) : List Graph → List Graph → List Triple
  | _, [] => []
  | before, m :: ms =>
    m.filter (fun t => matchT s p o t && !(before.any (fun g => decide (t ∈ g)))) ++ aggScan s p o (before ++ [m]) ms

def aggView (ms : List Graph) : TriplesFn := fun s p o => aggScan s p o [] ms

end RV.C11
