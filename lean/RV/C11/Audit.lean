import RV.C11.Props
open RV.C11
#print axioms placeholder_c11
