import RV.C11.Props
open RV.C11
#print axioms path_correct_partial
#print axioms path_correct_witness
#print axioms path_computes
#print axioms path_nodup
#print axioms path_terminates
#print axioms zero_length_on_given_term
#print axioms seq_fw_bw_agree
#print axioms build_preserves_rel
#print axioms path_correct_as_built_partial
#print axioms path_correct_as_built_witness
#print axioms sparql_path_same_partial
#print axioms sparql_path_same_witness
#print axioms neg_repair_correct
#print axioms prefix_zero_pair_twice
#print axioms prefix_falsy_end_ignored
#print axioms prefix_seq_bw_loses_absent_end
#print axioms prefix_aggregate_duplicates
#print axioms neg_affected_iff
#print axioms neg_affected_answer
#print axioms path_n3_roundtrip_partial
#print axioms path_n3_roundtrip_witness
#print axioms n3_query_same_partial
#print axioms api_dispatch
#print axioms api_unique_nodup
#print axioms api_dispatch_correct_partial
#print axioms mul_first_flag
