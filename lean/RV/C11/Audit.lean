import RV.C11.Props
open RV.C11
#print axioms path_correct
#print axioms path_nodup
#print axioms path_terminates
#print axioms zero_length_on_given_term
