import RV.C11.Props
open RV.C11
#print axioms path_correct
#print axioms path_nodup
#print axioms path_terminates
#print axioms zero_length_on_given_term
#print axioms seq_fw_bw_agree
#print axioms build_preserves_rel
#print axioms path_correct_as_built
#print axioms sparql_path_same
#print axioms prefix_zero_pair_twice
#print axioms prefix_falsy_end_ignored
#print axioms prefix_seq_bw_loses_absent_end
#print axioms prefix_neg_inverse_wrong
#print axioms prefix_aggregate_duplicates
