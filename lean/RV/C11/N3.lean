import RV.C11.Model
/-
  C11, round g — the *syntax* tie: the text writer `Path.n3()` of rdflib/paths.py and a reader of SPARQL 1.1 path
  syntax (grammar rules [88]–[96], as rdflib/plugins/sparql/parser.py builds its tree).

  Text is a list of tokens (the lexer — `<iri>` / prefixed name → the harness's number, one-character symbols — is
  the harness's; pyparsing's tokenisation stays tied by correspondence only).

    paren, needsParen, wrap   paths.py `_n3(arg)`: parentheses iff `arg` is a Sequence/AlternativePath with more than
                              one member — an InvPath or MulPath operand is *not* parenthesised
    n3, n3Rest                `InvPath.n3`, `SequencePath.n3`, `AlternativePath.n3`, `MulPath.n3`, `NegatedPath.n3`
                              (`"/".join`, `"|".join`, `"!(%s)"`)
    pAlt … pPrim, pNps        recursive-descent reader: PathAlternative, PathSequence, PathEltOrInverse, PathElt,
                              PathPrimary, PathNegatedPropertySet → the parser's tree `Syn`
    readPath                  the reader on a whole text, fuel `6·|text| + 6` (theorem: it suffices)
-/
namespace RV.C11

inductive Tok
  | iri (p : Term) | hat | slash | bar | lp | rp | bang | mod (m : Mod)
  deriving DecidableEq, Repr

/-! ### writer -/

/-- `len(arg.args) > 1` for a Sequence/AlternativePath -/
def needsParen : Path → Bool
  | .seq _ (_ :: _) => true
  | .alt (_ :: _ :: _) => true
  | _ => false

def paren (b : Bool) (ts : List Tok) : List Tok := if b then .lp :: ts ++ [.rp] else ts

/-- one member of a negated property set: `<p>` or `^<p>` -/
def memTok (m : Bool × Term) : List Tok := if m.1 then [.hat, .iri m.2] else [.iri m.2]

/-- `"|".join(members)` -/
def n3Members : List (Bool × Term) → List Tok
  | [] => []
  | [m] => memTok m
  | m :: m' :: ms => memTok m ++ .bar :: n3Members (m' :: ms)

mutual
/-- `path.n3()` -/
def n3 : Path → List Tok
  | .iri p => [.iri p]
  | .inv x => .hat :: paren (needsParen x) (n3 x)
  | .seq a as => paren (needsParen a) (n3 a) ++ n3Rest .slash as
  | .alt [] => []
  | .alt (a :: as) => paren (needsParen a) (n3 a) ++ n3Rest .bar as
  | .mul x m => paren (needsParen x) (n3 x) ++ [.mod m]
  | .neg fw bw => .bang :: .lp :: n3Members (fw.map (fun p => (false, p)) ++ bw.map (fun p => (true, p))) ++ [.rp]
/-- the rest of a `sep.join(_n3(a) for a in args)` after its first member -/
def n3Rest (sep : Tok) : List Path → List Tok
  | [] => []
  | p :: ps => sep :: paren (needsParen p) (n3 p) ++ n3Rest sep ps
end

/-- `_n3(arg)` -/
def wrap (p : Path) : List Tok := paren (needsParen p) (n3 p)

/-! ### reader -/

/-- `PathOneInPropertySet ( '|' PathOneInPropertySet )* ')'` -/
def pMembers : List Tok → Option (List (Bool × Term) × List Tok)
  | .iri p :: .rp :: ts => some ([(false, p)], ts)
  | .iri p :: .bar :: ts =>
    match pMembers ts with
    | some (ms, r) => some ((false, p) :: ms, r)
    | none => none
  | .hat :: .iri p :: .rp :: ts => some ([(true, p)], ts)
  | .hat :: .iri p :: .bar :: ts =>
    match pMembers ts with
    | some (ms, r) => some ((true, p) :: ms, r)
    | none => none
  | _ => none

/-- the tree of a negated property set: plain members and `^iri` members, each in order -/
def npsOf (ms : List (Bool × Term)) : Syn :=
  .nps ((ms.filter (fun m => !m.1)).map (·.2)) ((ms.filter (fun m => m.1)).map (·.2))

/-- `PathNegatedPropertySet` (after the `!`) -/
def pNps : List Tok → Option (Syn × List Tok)
  | .iri p :: ts => some (.nps [p] [], ts)
  | .hat :: .iri p :: ts => some (.nps [] [p], ts)
  | .lp :: .rp :: ts => some (.nps [] [], ts)
  | .lp :: ts =>
    match pMembers ts with
    | some (ms, r) => some (npsOf ms, r)
    | none => none
  | _ => none

mutual
/-- [89] PathAlternative ::= PathSequence ( '|' PathSequence )* -/
def pAlt : Nat → List Tok → Option (Syn × List Tok)
  | 0, _ => none
  | f + 1, ts =>
    match pSeq f ts with
    | none => none
    | some (x, r) =>
      match pAltRest f r with
      | none => none
      | some (xs, r') => some (.altS x xs, r')
def pAltRest : Nat → List Tok → Option (List Syn × List Tok)
  | 0, _ => none
  | f + 1, .bar :: ts =>
    match pSeq f ts with
    | none => none
    | some (x, r) =>
      match pAltRest f r with
      | none => none
      | some (xs, r') => some (x :: xs, r')
  | _ + 1, ts => some ([], ts)
/-- [90] PathSequence ::= PathEltOrInverse ( '/' PathEltOrInverse )* -/
def pSeq : Nat → List Tok → Option (Syn × List Tok)
  | 0, _ => none
  | f + 1, ts =>
    match pEltInv f ts with
    | none => none
    | some (x, r) =>
      match pSeqRest f r with
      | none => none
      | some (xs, r') => some (.seqS x xs, r')
def pSeqRest : Nat → List Tok → Option (List Syn × List Tok)
  | 0, _ => none
  | f + 1, .slash :: ts =>
    match pEltInv f ts with
    | none => none
    | some (x, r) =>
      match pSeqRest f r with
      | none => none
      | some (xs, r') => some (x :: xs, r')
  | _ + 1, ts => some ([], ts)
/-- [92] PathEltOrInverse ::= PathElt | '^' PathElt -/
def pEltInv : Nat → List Tok → Option (Syn × List Tok)
  | 0, _ => none
  | f + 1, .hat :: ts =>
    match pElt f ts with
    | none => none
    | some (x, r) => some (.invS x, r)
  | f + 1, ts => pElt f ts
/-- [91] PathElt ::= PathPrimary PathMod? -/
def pElt : Nat → List Tok → Option (Syn × List Tok)
  | 0, _ => none
  | f + 1, ts =>
    match pPrim f ts with
    | none => none
    | some (x, .mod m :: r) => some (.elt x (some m), r)
    | some (x, r) => some (.elt x none, r)
/-- [94] PathPrimary ::= iri | '!' PathNegatedPropertySet | '(' Path ')' -/
def pPrim : Nat → List Tok → Option (Syn × List Tok)
  | 0, _ => none
  | _ + 1, .iri p :: ts => some (.iri p, ts)
  | _ + 1, .bang :: ts => pNps ts
  | f + 1, .lp :: ts =>
    match pAlt f ts with
    | some (x, .rp :: r) => some (x, r)
    | _ => none
  | _ + 1, _ => none
end

/-- read a whole text as a path; `none` = not a SPARQL path -/
def readPath (ts : List Tok) : Option Syn :=
  match pAlt (6 * ts.length + 6) ts with
  | some (t, []) => some t
  | _ => none

/-- what `g.query("… ?s " + path.n3() + " ?o …")` evaluates: the path object `translatePath` builds from the tree
    rdflib's parser reads off the text `n3()` wrote; `none` = the text is not a SPARQL path -/
def reparse (p : Path) : Option Path := (readPath (n3 p)).map translate

end RV.C11
