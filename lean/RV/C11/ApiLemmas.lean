import RV.C11.Model
/-
  C11, round g — the `unique=True` loop of the Graph API.
-/
namespace RV.C11

theorem mem_uniq {α : Type} [DecidableEq α] : ∀ (L seen : List α) (p : α), p ∈ uniq seen L ↔ p ∈ L ∧ p ∉ seen := by
  intro L
  induction L with
  | nil => intro seen p; simp [uniq]
  | cons x xs ih =>
    intro seen p
    by_cases hx : x ∈ seen
    · simp only [uniq, hx, if_true, ih, List.mem_cons]
      constructor
      · rintro ⟨h1, h2⟩; exact ⟨Or.inr h1, h2⟩
      · rintro ⟨h1 | h1, h2⟩
        · exact absurd (h1 ▸ hx) h2
        · exact ⟨h1, h2⟩
    · simp only [uniq, hx, if_false, List.mem_cons, ih, not_or]
      constructor
      · rintro (h | ⟨h1, _, h3⟩)
        · exact ⟨Or.inl h, h ▸ hx⟩
        · exact ⟨Or.inr h1, h3⟩
      · rintro ⟨h1 | h1, h2⟩
        · exact Or.inl h1
        · by_cases e : p = x
          · exact Or.inl e
          · exact Or.inr ⟨h1, e, h2⟩

theorem nodup_uniq {α : Type} [DecidableEq α] : ∀ (L seen : List α), (uniq seen L).Nodup := by
  intro L
  induction L with
  | nil => intro seen; simp [uniq]
  | cons x xs ih =>
    intro seen
    by_cases hx : x ∈ seen
    · simp only [uniq, hx, if_true]; exact ih seen
    · simp only [uniq, hx, if_false, List.nodup_cons]
      refine ⟨fun h => ?_, ih _⟩
      exact ((mem_uniq xs (x :: seen) x).mp h).2 (List.mem_cons_self ..)

theorem mem_uniq_nil {α : Type} [DecidableEq α] (L : List α) (p : α) : p ∈ uniq [] L ↔ p ∈ L := by
  simp [mem_uniq]

theorem head?_eq_none_iff' {α : Type} (l : List α) : l.head? = none ↔ ∀ x, x ∉ l := by
  cases l with
  | nil => simp
  | cons a as =>
    simp only [List.head?_cons, reduceCtorEq, false_iff]
    exact fun h => h a (List.mem_cons_self ..)

theorem mem_of_head? {α : Type} {l : List α} {x : α} (h : l.head? = some x) : x ∈ l := by
  cases l with
  | nil => simp at h
  | cons a as => simp at h; subst h; exact List.mem_cons_self ..

end RV.C11
