import RV.C05.Props
open RV.C05
#print axioms unescape_escape
#print axioms nt_output_valid
#print axioms nq_output_valid
#print axioms nt_doc_valid
#print axioms unescaped_cr_breaks_the_line
#print axioms unescape_escapeWith
#print axioms pnlocal_roundtrip
#print axioms resolve_relativize
#print axioms escape_table_is_echar
#print axioms utf8_decode_encode
#print axioms utf8_encode_decode
#print axioms input_source_equiv
#print axioms bom_routes_differed_before_F14
#print axioms ntparser_refines_reference
#print axioms nqparser_refines_reference
#print axioms ntparser_lenient_forms
#print axioms ntparser_error_kinds
#print axioms ntparser_doc_refines_reference
#print axioms nqparser_doc_refines_reference
#print axioms nt_write_parse_roundtrip
#print axioms ntparser_doc_lenient
#print axioms ntparser_iriref_token
