import RV.C05.Props
open RV.C05
#print axioms placeholder
