import RV.C05.Model
import RV.C05.Utf8
import RV.C05.NtParser
import RV.Base.Proto
/-
  C05 driver (stateless).  Strings cross the protocol as decimal code points; fields are
  separated by a `|` word; a list of choices is `k1,k2,…` (or `-` for none).

    ntdoc cp…                 -> reject | ok ; S P O ; S P O …        (NT.parseDoc)
    nqdoc cp…                 -> reject | ok ; S P O G ; …            (NQ.parseDoc, G = `-` for the default graph)
    str q long ks | cp…       -> rt=ok|rt=bad cp…     stringToken in the form (q = code point of the delimiter,
                                                       long = 0|1); rt = readStringToken gives the string back
    pnl ks | cp…              -> rt=ok|rt=bad|inexpressible cp…      pnLocalEsc; rt = pnLocalUnesc gives it back
    rel k | base cp… | target cp…  -> rt=ok|rt=bad cp…               showRef (relativize base target k);
                                                       rt = resolving the printed reference gives the target back
    res | base cp… | ref cp…  -> cp…                                  showRef (resolve base ref)
    u8e cp…                   -> b…                                   Utf8.encode (code points → bytes)
    u8d b…                    -> reject | ok cp…                      Utf8.decode (strict)
    route sx r cp…            -> reject | ok cp…                      Utf8.handed: what the reader of syntax sx
                                 (nt|nquads|turtle|trig) receives on route r (str|bytes|file)

    ntpl cp… / nqpl cp…       -> ok - | ok S P O [G] | ParseError | ValueError | OverflowError | KeyError
                                 the MODEL OF RDFLIB'S PARSER on one line (Py.ntParseline / Py.nqParseline);
                                 `ok -` = nothing handed to the sink (empty line / comment)
    ntpd cp… / nqpd cp…       -> ok ; S P O [G] ; … | ParseError | ValueError | OverflowError | KeyError
                                 the model of `parse()` on a whole document (Py.ntParse / Py.nqParse)

  Term syntax in answers: I<cps> B<cps> P<cps> G<cps>|<cps> T<cps>|<cps>, code points comma-separated.
-/
open RV RV.C05 RV.Proto

def cps? : List String → Option Str
  | [] => some []
  | w :: ws => do
    let n ← w.toNat?
    let c ← ofCode n
    let rest ← cps? ws
    pure (c :: rest)

def showCps (s : Str) : String := ",".intercalate (s.map (fun c => toString c.toNat))
def showCpsSp (s : Str) : String := " ".intercalate (s.map (fun c => toString c.toNat))

def showTerm : Term → String
  | .iri i => "I" ++ showCps i
  | .bnode l => "B" ++ showCps l
  | .plain x => "P" ++ showCps x
  | .lang x t => "G" ++ showCps x ++ "|" ++ showCps t
  | .typed x d => "T" ++ showCps x ++ "|" ++ showCps d

def showTriple (t : Triple) : String := showTerm t.1 ++ " " ++ showTerm t.2.1 ++ " " ++ showTerm t.2.2
def showQuad (q : Quad) : String :=
  showTerm q.1 ++ " " ++ showTerm q.2.1 ++ " " ++ showTerm q.2.2.1 ++ " " ++
    (match q.2.2.2 with | some g => showTerm g | none => "-")

def choices? (w : String) : Option (List Nat) :=
  if w = "-" then some [] else (w.splitOn ",").mapM String.toNat?

/-- split a word list at the `|` words -/
def fields : List String → List (List String)
  | [] => [[]]
  | w :: ws =>
    if w = "|" then [] :: fields ws
    else
      match fields ws with
      | [] => [[w]]
      | f :: fs => (w :: f) :: fs

def rt (b : Bool) : String := if b then "rt=ok" else "rt=bad"

def answer : List String → String
  | "ntdoc" :: ws =>
    match cps? ws with
    | none => "bad-op"
    | some doc =>
      match NT.parseDoc doc with
      | none => "reject"
      | some ts => "ok" ++ String.join (ts.map (fun t => " ; " ++ showTriple t))
  | "nqdoc" :: ws =>
    match cps? ws with
    | none => "bad-op"
    | some doc =>
      match NQ.parseDoc doc with
      | none => "reject"
      | some qs => "ok" ++ String.join (qs.map (fun q => " ; " ++ showQuad q))
  | "str" :: q :: long :: ks :: "|" :: ws =>
    match q.toNat?.bind ofCode, long.toNat?, choices? ks, cps? ws with
    | some q, some l, some ks, some s =>
      let f : Form := ⟨q, l != 0⟩
      let tok := stringToken f ks s
      rt (readStringToken f tok == some (s, [])) ++ " " ++ showCpsSp tok
    | _, _, _, _ => "bad-op"
  | "pnl" :: ks :: "|" :: ws =>
    match choices? ks, cps? ws with
    | some ks, some s =>
      if pnExpressible s then
        let e := pnLocalEsc ks s
        rt (pnLocalUnesc e == s) ++ " " ++ showCpsSp e
      else "inexpressible"
    | _, _ => "bad-op"
  | "rel" :: k :: "|" :: ws =>
    match k.toNat?, fields ws with
    | some k, [b, t] =>
      match cps? b, cps? t with
      | some b, some t =>
        let r := showRef (relativize (parseRef b) (parseRef t) k)
        rt (showRef (resolve (parseRef b) (parseRef r)) == t) ++ " " ++ showCpsSp r
      | _, _ => "bad-op"
    | _, _ => "bad-op"
  | "res" :: "|" :: ws =>
    match fields ws with
    | [b, r] =>
      match cps? b, cps? r with
      | some b, some r => showCpsSp (showRef (resolve (parseRef b) (parseRef r)))
      | _, _ => "bad-op"
    | _ => "bad-op"
  | _ => "bad-op"

/-! the model of rdflib's parser -/

def showNatsC (s : List Nat) : String := ",".intercalate (s.map toString)

def showPTerm : Py.PTerm → String
  | .iri i => "I" ++ showNatsC i
  | .bnode l => "B" ++ showNatsC l
  | .lit x none none => "P" ++ showNatsC x
  | .lit x (some t) _ => "G" ++ showNatsC x ++ "|" ++ showNatsC t
  | .lit x none (some d) => "T" ++ showNatsC x ++ "|" ++ showNatsC d

def showPTriple (t : Py.PTriple) : String := showPTerm t.1 ++ " " ++ showPTerm t.2.1 ++ " " ++ showPTerm t.2.2
def showPQuad (q : Py.PQuad) : String :=
  showPTerm q.1 ++ " " ++ showPTerm q.2.1 ++ " " ++ showPTerm q.2.2.1 ++ " " ++
    (match q.2.2.2 with | some g => showPTerm g | none => "-")

def showErr : Py.Err → String
  | .parse => "ParseError" | .value => "ValueError" | .overflow => "OverflowError" | .key => "KeyError"

def answerP : List String → Option String
  | "ntpl" :: ws => (cps? ws).map (fun l =>
      match Py.ntParseline l with
      | .error e => showErr e
      | .ok none => "ok -"
      | .ok (some t) => "ok " ++ showPTriple t)
  | "nqpl" :: ws => (cps? ws).map (fun l =>
      match Py.nqParseline l with
      | .error e => showErr e
      | .ok none => "ok -"
      | .ok (some q) => "ok " ++ showPQuad q)
  | "ntpd" :: ws => (cps? ws).map (fun d =>
      match Py.ntParse d with
      | .error e => showErr e
      | .ok ts => "ok" ++ String.join (ts.map (fun t => " ; " ++ showPTriple t)))
  | "nqpd" :: ws => (cps? ws).map (fun d =>
      match Py.nqParse d with
      | .error e => showErr e
      | .ok qs => "ok" ++ String.join (qs.map (fun q => " ; " ++ showPQuad q)))
  | _ => none

def nats? (ws : List String) : Option (List Nat) := ws.mapM String.toNat?
def showNatsSp (xs : List Nat) : String := " ".intercalate (xs.map toString)
def okNats : Option (List Nat) → String
  | none => "reject"
  | some xs => if xs.isEmpty then "ok" else "ok " ++ showNatsSp xs

def syntax? : String → Option Utf8.Syntax
  | "nt" => some .nt | "nquads" => some .nquads | "turtle" => some .turtle | "trig" => some .trig | _ => none
def route? : String → Option Utf8.Route
  | "str" => some .str | "bytes" => some .bytes | "file" => some .file | _ => none

def answerU : List String → Option String
  | "u8e" :: ws => (nats? ws).map (fun cps => showNatsSp (Utf8.encode cps))
  | "u8d" :: ws => (nats? ws).map (fun bs => okNats (Utf8.decode bs))
  | "route" :: sx :: r :: ws =>
    match syntax? sx, route? r, nats? ws with
    | some sx, some r, some doc => some (okNats (Utf8.handed sx r doc))
    | _, _, _ => none
  | _ => none

def step (s : Unit) (ws : List String) : Unit × String :=
  (s, match answerU ws with
      | some a => a
      | none => match answerP ws with | some a => a | none => answer ws)

def main : IO Unit := RV.Proto.run step ()
