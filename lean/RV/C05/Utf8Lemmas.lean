import RV.C05.Utf8
namespace RV.C05.Utf8

theorem scalar_spec {n : Nat} (h : scalar n = true) : n < 0xD800 ∨ (0xE000 ≤ n ∧ n < 0x110000) := by
  simpa [scalar] using h

theorem scalar_of {n : Nat} (h : n < 0xD800 ∨ (0xE000 ≤ n ∧ n < 0x110000)) : scalar n = true := by
  simpa [scalar] using h

theorem cont_of {b : Nat} (h1 : 0x80 ≤ b) (h2 : b < 0xC0) : cont b = true := by simp [cont, h1, h2]

theorem step_ascii {b : Nat} (bs : List Nat) (h : b < 0x80) :
    decodeS .start (b :: bs) = consOpt b (decodeS .start bs) := by simp [decodeS, h]

theorem step_lead2 {b : Nat} (bs : List Nat) (h1 : 0xC2 ≤ b) (h2 : b < 0xE0) :
    decodeS .start (b :: bs) = decodeS (.more 1 (b - 0xC0) 0x80) bs := by
  have : ¬ b < 0x80 := by omega
  simp [decodeS, this, h1, h2]

theorem step_lead3 {b : Nat} (bs : List Nat) (h1 : 0xE0 ≤ b) (h2 : b < 0xF0) :
    decodeS .start (b :: bs) = decodeS (.more 2 (b - 0xE0) 0x800) bs := by
  have a1 : ¬ b < 0x80 := by omega
  have a2 : ¬ (0xC2 ≤ b ∧ b < 0xE0) := by omega
  simp [decodeS, a1, a2, h1, h2]

theorem step_lead4 {b : Nat} (bs : List Nat) (h1 : 0xF0 ≤ b) (h2 : b < 0xF5) :
    decodeS .start (b :: bs) = decodeS (.more 3 (b - 0xF0) 0x10000) bs := by
  have a1 : ¬ b < 0x80 := by omega
  have a2 : ¬ (0xC2 ≤ b ∧ b < 0xE0) := by omega
  have a3 : ¬ (0xE0 ≤ b ∧ b < 0xF0) := by omega
  simp [decodeS, a1, a2, a3, h1, h2]

theorem step_cont {k acc lo b : Nat} (bs : List Nat) (hc : cont b = true) (hk : 2 ≤ k) :
    decodeS (.more k acc lo) (b :: bs) = decodeS (.more (k - 1) (acc * 64 + (b - 0x80)) lo) bs := by
  have : ¬ k ≤ 1 := by omega
  conv => lhs; rw [decodeS]
  rw [if_pos hc, if_neg this]

theorem step_last {acc lo b v : Nat} (bs : List Nat) (hc : cont b = true) (hv : v = acc * 64 + (b - 0x80))
    (hlo : lo ≤ v) (hs : scalar v = true) :
    decodeS (.more 1 acc lo) (b :: bs) = consOpt v (decodeS .start bs) := by
  rw [hv] at hlo hs
  rw [hv]
  conv => lhs; rw [decodeS]
  rw [if_pos hc, if_pos (Nat.le_refl 1), if_pos ⟨hlo, hs⟩]

theorem decode_encodeCp (n : Nat) (rest : List Nat) (h : scalar n = true) :
    decodeS .start (encodeCp n ++ rest) = consOpt n (decodeS .start rest) := by
  have hs := scalar_spec h
  unfold encodeCp
  split
  · next h1 => exact step_ascii rest h1
  · split
    · next h1 h2 =>
      simp only [List.cons_append, List.nil_append]
      rw [step_lead2 _ (by omega) (by omega)]
      exact step_last rest (cont_of (by omega) (by omega)) (by omega) (by omega) h
    · split
      · next h1 h2 h3 =>
        simp only [List.cons_append, List.nil_append]
        rw [step_lead3 _ (by omega) (by omega), step_cont _ (cont_of (by omega) (by omega)) (by omega)]
        exact step_last rest (cont_of (by omega) (by omega)) (by omega) (by omega) h
      · next h1 h2 h3 =>
        simp only [List.cons_append, List.nil_append]
        rw [step_lead4 _ (by omega) (by omega), step_cont _ (cont_of (by omega) (by omega)) (by omega),
          step_cont _ (cont_of (by omega) (by omega)) (by omega)]
        exact step_last rest (cont_of (by omega) (by omega)) (by omega) (by omega) h

theorem decode_encode : ∀ (cps : List Nat), (∀ c ∈ cps, scalar c = true) → decode (encode cps) = some cps
  | [], _ => by simp [encode, decode, decodeS]
  | c :: cs, h => by
    have ih := decode_encode cs (fun x hx => h x (by simp [hx]))
    unfold decode at ih ⊢
    simp [encode, decode_encodeCp c _ (h c (by simp)), ih, consOpt]

/-! ### the decoder accepts only what `encode` writes -/

theorem cont_spec {b : Nat} (h : cont b = true) : 0x80 ≤ b ∧ b < 0xC0 := by simpa [cont] using h

theorem consOpt_some {c : Nat} {r : Option (List Nat)} {cps : List Nat} (h : consOpt c r = some cps) :
    ∃ cps', cps = c :: cps' ∧ r = some cps' := by
  cases r with
  | none => simp [consOpt] at h
  | some x => simp [consOpt] at h; exact ⟨x, h.symm, rfl⟩

theorem inv_last {acc lo : Nat} {bs cps : List Nat} (h : decodeS (.more 1 acc lo) bs = some cps) :
    ∃ b tail cps', bs = b :: tail ∧ cont b = true ∧ lo ≤ acc * 64 + (b - 0x80) ∧
      scalar (acc * 64 + (b - 0x80)) = true ∧ cps = (acc * 64 + (b - 0x80)) :: cps' ∧
      decodeS .start tail = some cps' := by
  cases bs with
  | nil => simp [decodeS] at h
  | cons b tail =>
    rw [decodeS] at h
    by_cases hc : cont b = true
    · rw [if_pos hc, if_pos (Nat.le_refl 1)] at h
      by_cases hv : lo ≤ acc * 64 + (b - 0x80) ∧ scalar (acc * 64 + (b - 0x80)) = true
      · rw [if_pos hv] at h
        obtain ⟨cps', e1, e2⟩ := consOpt_some h
        exact ⟨b, tail, cps', rfl, hc, hv.1, hv.2, e1, e2⟩
      · rw [if_neg hv] at h; cases h
    · rw [if_neg hc] at h; cases h

theorem inv_cont {k acc lo : Nat} {bs cps : List Nat} (hk : 2 ≤ k) (h : decodeS (.more k acc lo) bs = some cps) :
    ∃ b tail, bs = b :: tail ∧ cont b = true ∧
      decodeS (.more (k - 1) (acc * 64 + (b - 0x80)) lo) tail = some cps := by
  cases bs with
  | nil => simp [decodeS] at h
  | cons b tail =>
    rw [decodeS] at h
    by_cases hc : cont b = true
    · rw [if_pos hc, if_neg (by omega)] at h
      exact ⟨b, tail, rfl, hc, h⟩
    · rw [if_neg hc] at h; cases h

theorem encode_decode_aux : ∀ (n : Nat) (bs cps : List Nat), bs.length ≤ n → decodeS .start bs = some cps →
    encode cps = bs ∧ ∀ c ∈ cps, scalar c = true
  | _, [], cps, _, h => by
    simp [decodeS] at h; subst h; simp [encode]
  | 0, b :: bs, _, hl, _ => by simp at hl
  | n + 1, b :: bs, cps, hl, h => by
    have hl' : bs.length ≤ n := by simpa using hl
    rw [decodeS] at h
    by_cases h1 : b < 0x80
    · rw [if_pos h1] at h
      obtain ⟨cps', e1, e2⟩ := consOpt_some h
      obtain ⟨ih1, ih2⟩ := encode_decode_aux n bs cps' hl' e2
      subst e1
      refine ⟨by simp [encode, encodeCp, h1, ih1], ?_⟩
      intro c hc
      rcases List.mem_cons.mp hc with rfl | hc
      · exact scalar_of (Or.inl (by omega))
      · exact ih2 c hc
    · rw [if_neg h1] at h
      by_cases h2 : 0xC2 ≤ b ∧ b < 0xE0
      · rw [if_pos h2] at h
        obtain ⟨b1, t1, cps', rfl, c1, hlo, hs, e1, e2⟩ := inv_last h
        have hc1 := cont_spec c1
        obtain ⟨ih1, ih2⟩ := encode_decode_aux n t1 cps' (by simp at hl'; omega) e2
        subst e1
        have hv : ¬ ((b - 0xC0) * 64 + (b1 - 0x80) < 0x80) := by omega
        have hv2 : (b - 0xC0) * 64 + (b1 - 0x80) < 0x800 := by omega
        refine ⟨?_, ?_⟩
        · simp only [encode, encodeCp, if_neg hv, if_pos hv2, ih1, List.cons_append, List.nil_append]
          have e0 : 0xC0 + ((b - 0xC0) * 64 + (b1 - 0x80)) / 64 = b := by omega
          have e1 : 0x80 + ((b - 0xC0) * 64 + (b1 - 0x80)) % 64 = b1 := by omega
          rw [e0, e1]
        · intro c hc
          rcases List.mem_cons.mp hc with hc' | hc
          · rw [hc']; exact hs
          · exact ih2 c hc
      · rw [if_neg h2] at h
        by_cases h3 : 0xE0 ≤ b ∧ b < 0xF0
        · rw [if_pos h3] at h
          obtain ⟨b1, t1, rfl, c1, h⟩ := inv_cont (by omega) h
          obtain ⟨b2, t2, cps', rfl, c2, hlo, hs, e1, e2⟩ := inv_last h
          have hc1 := cont_spec c1
          have hc2 := cont_spec c2
          obtain ⟨ih1, ih2⟩ := encode_decode_aux n t2 cps' (by simp at hl'; omega) e2
          subst e1
          have hs' := scalar_spec hs
          have hv1 : ¬ (((b - 0xE0) * 64 + (b1 - 0x80)) * 64 + (b2 - 0x80) < 0x80) := by omega
          have hv2 : ¬ (((b - 0xE0) * 64 + (b1 - 0x80)) * 64 + (b2 - 0x80) < 0x800) := by omega
          have hv3 : ((b - 0xE0) * 64 + (b1 - 0x80)) * 64 + (b2 - 0x80) < 0x10000 := by omega
          refine ⟨?_, ?_⟩
          · simp only [encode, encodeCp, if_neg hv1, if_neg hv2, if_pos hv3, ih1, List.cons_append, List.nil_append]
            have e0 : 0xE0 + (((b - 0xE0) * 64 + (b1 - 0x80)) * 64 + (b2 - 0x80)) / 4096 = b := by omega
            have e1 : 0x80 + (((b - 0xE0) * 64 + (b1 - 0x80)) * 64 + (b2 - 0x80)) / 64 % 64 = b1 := by omega
            have e2' : 0x80 + (((b - 0xE0) * 64 + (b1 - 0x80)) * 64 + (b2 - 0x80)) % 64 = b2 := by omega
            rw [e0, e1, e2']
          · intro c hc
            rcases List.mem_cons.mp hc with hc' | hc
            · rw [hc']; exact hs
            · exact ih2 c hc
        · rw [if_neg h3] at h
          by_cases h4 : 0xF0 ≤ b ∧ b < 0xF5
          · rw [if_pos h4] at h
            obtain ⟨b1, t1, rfl, c1, h⟩ := inv_cont (by omega) h
            obtain ⟨b2, t2, rfl, c2, h⟩ := inv_cont (by omega) h
            obtain ⟨b3, t3, cps', rfl, c3, hlo, hs, e1, e2⟩ := inv_last h
            have hc1 := cont_spec c1
            have hc2 := cont_spec c2
            have hc3 := cont_spec c3
            obtain ⟨ih1, ih2⟩ := encode_decode_aux n t3 cps' (by simp at hl'; omega) e2
            subst e1
            have hs' := scalar_spec hs
            have hv1 : ¬ ((((b - 0xF0) * 64 + (b1 - 0x80)) * 64 + (b2 - 0x80)) * 64 + (b3 - 0x80) < 0x80) := by omega
            have hv2 : ¬ ((((b - 0xF0) * 64 + (b1 - 0x80)) * 64 + (b2 - 0x80)) * 64 + (b3 - 0x80) < 0x800) := by omega
            have hv3 : ¬ ((((b - 0xF0) * 64 + (b1 - 0x80)) * 64 + (b2 - 0x80)) * 64 + (b3 - 0x80) < 0x10000) := by omega
            refine ⟨?_, ?_⟩
            · simp only [encode, encodeCp, if_neg hv1, if_neg hv2, if_neg hv3, ih1, List.cons_append, List.nil_append]
              have e0 : 0xF0 + ((((b - 0xF0) * 64 + (b1 - 0x80)) * 64 + (b2 - 0x80)) * 64 + (b3 - 0x80)) / 262144 = b := by omega
              have e1 : 0x80 + ((((b - 0xF0) * 64 + (b1 - 0x80)) * 64 + (b2 - 0x80)) * 64 + (b3 - 0x80)) / 4096 % 64 = b1 := by omega
              have e2' : 0x80 + ((((b - 0xF0) * 64 + (b1 - 0x80)) * 64 + (b2 - 0x80)) * 64 + (b3 - 0x80)) / 64 % 64 = b2 := by omega
              have e3 : 0x80 + ((((b - 0xF0) * 64 + (b1 - 0x80)) * 64 + (b2 - 0x80)) * 64 + (b3 - 0x80)) % 64 = b3 := by omega
              rw [e0, e1, e2', e3]
            · intro c hc
              rcases List.mem_cons.mp hc with hc' | hc
              · rw [hc']; exact hs
              · exact ih2 c hc
          · rw [if_neg h4] at h; cases h

theorem encode_decode (bs cps : List Nat) (h : decode bs = some cps) :
    encode cps = bs ∧ ∀ c ∈ cps, scalar c = true :=
  encode_decode_aux bs.length bs cps (Nat.le_refl _) h

end RV.C05.Utf8
