/-
  C05 — input source normalisation (rdflib/parser.py create_input_source, StringInputSource,
  FileInputSource; what the parsers do with the stream they get).

  Code points and bytes are naturals.  `encode` is UTF-8 as `str.encode("utf-8")` writes it,
  `decode` is the strict decoder the input sources use (`bytes.decode("utf-8")`,
  `codecs.getreader("utf-8")`, `TextIOWrapper(…, "utf-8")`): it rejects continuation bytes out
  of place, truncated sequences, overlong forms (C0, C1, E0 80–9F, F0 80–8F), surrogates
  (ED A0–BF), values above 10FFFF (F4 90+, F5–FF) and anything ≥ 256.  It keeps a byte order
  mark as U+FEFF (only the "utf-8-sig" codec removes it, and rdflib does not use that).

  Routes (rdflib, after fix C05-F14; `Route.file` stands for file=<binary file>, source=<path>,
  source=BytesIO — a byte stream and no character stream):
    N-Triples / N-Quads  `NTParser.parse` / `NQuadsParser.parse`: the character stream if there
        is one (str: StringIO; bytes: TextIOWrapper utf-8, newline=""), else
        `codecs.getreader("utf-8")` over the byte stream.  Nothing is removed: a leading U+FEFF
        reaches the line reader on every route (and the document is rejected, as by the grammar).
    Turtle / TriG  `TurtleParser.parse` → `SinkParser.loadStream` → `feed`: the character stream if
        there is one, else the bytes, decoded with utf-8 in `feed`; then ONE leading U+FEFF is
        skipped — on every route since C05-F14; before it, only where `feed` itself decoded
        (Route.file), so the same bytes failed as data=bytes and parsed as file=.
  Core-only imports (linked into the driver).
-/
namespace RV.C05.Utf8

/-- Unicode scalar value -/
def scalar (n : Nat) : Bool := decide (n < 0xD800) || (decide (0xE000 ≤ n) && decide (n < 0x110000))

def encodeCp (n : Nat) : List Nat :=
  if n < 0x80 then [n]
  else if n < 0x800 then [0xC0 + n / 64, 0x80 + n % 64]
  else if n < 0x10000 then [0xE0 + n / 4096, 0x80 + n / 64 % 64, 0x80 + n % 64]
  else [0xF0 + n / 262144, 0x80 + n / 4096 % 64, 0x80 + n / 64 % 64, 0x80 + n % 64]

def encode : List Nat → List Nat
  | [] => []
  | c :: cs => encodeCp c ++ encode cs

/-- continuation byte 10xxxxxx -/
def cont (b : Nat) : Bool := decide (0x80 ≤ b) && decide (b < 0xC0)

def consOpt (c : Nat) (r : Option (List Nat)) : Option (List Nat) := r.map (c :: ·)

/-- decoder state: at a character boundary, or inside a sequence with `k` continuation bytes still to come,
    `acc` the value read so far and `lo` the smallest value this sequence length may encode (overlong check) -/
inductive DSt
  | start
  | more (k acc lo : Nat)
  deriving Repr

/-- strict UTF-8 decoder, one byte at a time -/
def decodeS : DSt → List Nat → Option (List Nat)
  | .start, [] => some []
  | .more _ _ _, [] => none                                   -- truncated sequence
  | .start, b :: bs =>
    if b < 0x80 then consOpt b (decodeS .start bs)
    else if 0xC2 ≤ b ∧ b < 0xE0 then decodeS (.more 1 (b - 0xC0) 0x80) bs
    else if 0xE0 ≤ b ∧ b < 0xF0 then decodeS (.more 2 (b - 0xE0) 0x800) bs
    else if 0xF0 ≤ b ∧ b < 0xF5 then decodeS (.more 3 (b - 0xF0) 0x10000) bs
    else none                                                  -- 80–C1 (continuation / overlong lead), F5–FF, ≥ 256
  | .more k acc lo, b :: bs =>
    if cont b then
      if k ≤ 1 then
        if lo ≤ acc * 64 + (b - 0x80) ∧ scalar (acc * 64 + (b - 0x80)) = true then
          consOpt (acc * 64 + (b - 0x80)) (decodeS .start bs)
        else none                                              -- overlong, surrogate, > 10FFFF
      else decodeS (.more (k - 1) (acc * 64 + (b - 0x80)) lo) bs
    else none

def decode (bs : List Nat) : Option (List Nat) := decodeS .start bs

/-! ### routes -/

inductive Route | str | bytes | file
  deriving DecidableEq, Repr

inductive Syntax | nt | nquads | turtle | trig
  deriving DecidableEq, Repr

def bom : Nat := 0xFEFF

/-- `SinkParser.feed`: one leading U+FEFF is skipped -/
def skipBom : List Nat → List Nat
  | c :: cs => if c = bom then cs else c :: cs
  | [] => []

def turtleFamily : Syntax → Bool
  | .turtle => true
  | .trig => true
  | _ => false

/-- The code points handed to the syntax's reader when the document `doc` (code points) arrives on `route`
    (as the str itself, or as its UTF-8 bytes).  `none` = the decoder raised. -/
def handed (sx : Syntax) (route : Route) (doc : List Nat) : Option (List Nat) :=
  let chars : Option (List Nat) :=
    match route with
    | .str => some doc                       -- StringIO(value)
    | .bytes => decode (encode doc)          -- TextIOWrapper(BytesIO(value), "utf-8", newline="")
    | .file => decode (encode doc)           -- codecs.getreader("utf-8") (nt, nquads) / bytes.decode in feed (turtle, trig)
  if turtleFamily sx then chars.map skipBom else chars

/-- the pre-fix Turtle/TriG behaviour (kept to document finding C05-F14): the mark is skipped only where `feed`
    decoded the bytes itself -/
def handedBeforeF14 (sx : Syntax) (route : Route) (doc : List Nat) : Option (List Nat) :=
  match route with
  | .str => some doc
  | .bytes => decode (encode doc)
  | .file => if turtleFamily sx then (decode (encode doc)).map skipBom else decode (encode doc)

end RV.C05.Utf8
