import RV.C05.Lemmas
import RV.C05.NtParser
/-
  C05 round g — the model of rdflib's N-Triples / N-Quads parser (NtParser.lean) refines the strict reader of
  the W3C grammar (Model.lean part A): token by token, each reference reader's success is decomposed into
  "input = consumed ++ rest", and the model's `eat` + `unquote` is shown to consume the same and mean the same.
-/
namespace RV.C05
open Py

instance instDecEqExcept {ε α} [DecidableEq ε] [DecidableEq α] : DecidableEq (Except ε α)
  | .ok a, .ok b => if h : a = b then isTrue (by rw [h]) else isFalse (fun e => by injection e; contradiction)
  | .error a, .error b => if h : a = b then isTrue (by rw [h]) else isFalse (fun e => by injection e; contradiction)
  | .ok _, .error _ => isFalse (fun e => by cases e)
  | .error _, .ok _ => isFalse (fun e => by cases e)

/-! ### small facts -/

theorem ofCode_val {n : Nat} {ch : Char} (h : ofCode n = some ch) : ch.toNat = n ∧ n ≤ 0x10FFFF := by
  unfold ofCode at h
  split at h
  · rename_i hv
    injection h with h
    subst h
    refine ⟨rfl, ?_⟩
    simp only [Nat.isValidChar] at hv
    omega
  · cases h

theorem code_cons (c : Char) (s : Str) : code (c :: s) = c.toNat :: code s := rfl

theorem isHex_uriChar {c : Char} (h : isHex c = true) : uriChar c = true ∧ c ≠ '"' ∧ c ≠ '\\' := by
  simp only [isHex, isDigit, inR, Bool.or_eq_true, Bool.and_eq_true, decide_eq_true_eq] at h
  have h1 : 0x20 < c.toNat := by omega
  refine ⟨?_, ?_, ?_⟩
  · simp only [uriChar, Bool.not_eq_true', Bool.or_eq_false_iff, decide_eq_false_iff_not, beq_eq_false_iff_ne, ne_eq]
    refine ⟨⟨⟨by omega, ?_⟩, ?_⟩, ?_⟩ <;> (intro hc; subst hc; revert h; decide)
  · intro hc; subst hc; revert h; decide
  · intro hc; subst hc; revert h; decide

theorem iriChar_uriChar {c : Char} (h : iriChar c = true) : uriChar c = true := by
  simp only [iriChar, Bool.not_eq_true', Bool.or_eq_false_iff, beq_eq_false_iff_ne, ne_eq,
    decide_eq_false_iff_not] at h
  simp only [uriChar, Bool.not_eq_true', Bool.or_eq_false_iff, decide_eq_false_iff_not, beq_eq_false_iff_ne, ne_eq]
  rcases h with ⟨⟨⟨⟨⟨⟨⟨⟨⟨h1, h2⟩, h3⟩, h4⟩, _⟩, _⟩, _⟩, _⟩, _⟩, _⟩
  exact ⟨⟨⟨h1, h4⟩, h2⟩, h3⟩

theorem echar_class {d e : Char} (h : echar d = some e) :
    escClass d = true ∧ Tables.stringEscapeMap.lookup d = some e ∧ d ≠ '\n' ∧ d ≠ 'u' ∧ d ≠ 'U' := by
  unfold echar at h
  repeat' split at h
  all_goals first
    | (injection h with h; subst h; subst_vars; decide)
    | (cases h)

/-! ### `decodeUnicodeEscape` -/

theorem decodeAux_skip : ∀ (xs ys : Str), decodeAux xs.length (xs ++ ys) = decodeAux 0 ys
  | [], ys => rfl
  | x :: xs, ys => by
    simp only [List.length_cons, List.cons_append, decodeAux]
    exact decodeAux_skip xs ys

theorem decodeAux_plain {c : Char} (s : Str) (h : c ≠ '\\') :
    decodeAux 0 (c :: s) = consOk c.toNat (decodeAux 0 s) := by
  simp [decodeAux, h]

theorem decodeAux_noBackslash : ∀ (s : Str), '\\' ∉ s → decodeAux 0 s = .ok (code s)
  | [], _ => rfl
  | c :: s, h => by
    simp only [List.mem_cons, not_or] at h
    rw [decodeAux_plain s (fun e => h.1 e.symm), decodeAux_noBackslash s h.2]
    rfl

theorem unquote_eq (s : Str) : unquote s = decodeAux 0 s := by
  unfold unquote
  split
  · rfl
  · rename_i h
    rw [decodeAux_noBackslash s (by simpa using h)]

theorem hexN_append : ∀ (n acc : Nat) (hs tl : Str) (v : Nat), hs.length = n → hexN n acc hs = some v →
    hexN n acc (hs ++ tl) = some v
  | 0, acc, hs, tl, v, _, h => by simpa [hexN] using h
  | n + 1, acc, [], tl, v, hl, _ => by simp at hl
  | n + 1, acc, c :: hs, tl, v, hl, h => by
    simp only [hexN, List.cons_append] at h ⊢
    split
    · rename_i hc
      simp only [hc, if_true] at h
      exact hexN_append n _ hs tl v (by simpa using hl) h
    · rename_i hc
      simp [hc] at h

theorem decodeAux_u (hs raw : Str) (v : Nat) (hl : hs.length = 4) (hv : hexN 4 0 hs = some v) :
    decodeAux 0 ('\\' :: 'u' :: (hs ++ raw)) = consOk v (decodeAux 0 raw) := by
  have h1 : hexN 4 0 (hs ++ raw) = some v := hexN_append 4 0 hs raw v hl hv
  have h2 : decodeAux 4 (hs ++ raw) = decodeAux 0 raw := by
    have := decodeAux_skip hs raw
    simpa [hl] using this
  have e1 : escClass 'u' = false := by decide
  simp only [decodeAux, if_true, e1, Bool.false_eq_true, if_false, h1, h2]

theorem decodeAux_U (hs raw : Str) (v : Nat) (hl : hs.length = 8) (hv : hexN 8 0 hs = some v) (hle : v ≤ 0x10FFFF) :
    decodeAux 0 ('\\' :: 'U' :: (hs ++ raw)) = consOk v (decodeAux 0 raw) := by
  have h1 : hexN 8 0 (hs ++ raw) = some v := hexN_append 8 0 hs raw v hl hv
  have h2 : decodeAux 8 (hs ++ raw) = decodeAux 0 raw := by
    have := decodeAux_skip hs raw
    simpa [hl] using this
  have e1 : escClass 'U' = false := by decide
  have e2 : ('U' = 'u') = False := by decide
  simp only [decodeAux, if_true, e1, Bool.false_eq_true, if_false, e2, h1, h2, hle]

theorem decodeAux_echar (d e : Char) (raw : Str) (h : echar d = some e) :
    decodeAux 0 ('\\' :: d :: raw) = consOk e.toNat (decodeAux 0 raw) := by
  obtain ⟨h1, h2, _⟩ := echar_class h
  simp only [decodeAux, if_true, h1, h2]

/-! ### IRIREF -/

theorem readIri_hex : ∀ (k acc : Nat) (cs i rest : Str), readIri (.hex (k + 1) acc) cs = some (i, rest) →
    ∃ hs cs' v ch i', hs.length = k + 1 ∧ hs.all isHex = true ∧ cs = hs ++ cs' ∧ hexN (k + 1) acc hs = some v ∧
      ofCode v = some ch ∧ i = ch :: i' ∧ readIri .norm cs' = some (i', rest)
  | _, _, [], _, _, h => by simp [readIri] at h
  | 0, acc, c :: cs, i, rest, h => by
    simp only [readIri, Nat.zero_add, Nat.le_refl, if_true] at h
    split at h
    · rename_i hc
      split at h
      · rename_i ch hch
        cases hr : readIri .norm cs with
        | none => simp [hr, push] at h
        | some p =>
          obtain ⟨i', r'⟩ := p
          simp only [hr, push_some, Option.some.injEq, Prod.mk.injEq] at h
          exact ⟨[c], cs, _, ch, i', rfl, by simp [hc], rfl, by simp [hexN, hc], hch, h.1.symm, by rw [hr, h.2]⟩
      · cases h
    · cases h
  | k + 1, acc, c :: cs, i, rest, h => by
    simp only [readIri] at h
    split at h
    · rename_i hc
      have hn : ¬ (k + 1 + 1 ≤ 1) := by omega
      simp only [hn, if_false, Nat.add_sub_cancel] at h
      obtain ⟨hs, cs', v, ch, i', hl, hall, hcs, hv, hch, hi, hr⟩ := readIri_hex k _ cs i rest h
      refine ⟨c :: hs, cs', v, ch, i', by simp [hl], by simp [hc, hall], by simp [hcs], ?_, hch, hi, hr⟩
      simp [hexN, hc, hv]
    · cases h

theorem readIri_decomp : ∀ (m : Nat) (cs i rest : Str), cs.length ≤ m → readIri .norm cs = some (i, rest) →
    ∃ raw, cs = raw ++ '>' :: rest ∧ raw.all uriChar = true ∧ decodeAux 0 raw = .ok (code i)
  | _, [], _, _, _, h => by simp [readIri] at h
  | 0, c :: cs, _, _, hm, _ => by simp at hm
  | m + 1, c :: cs, i, rest, hm, h => by
    have hm' : cs.length ≤ m := by simpa using hm
    simp only [readIri] at h
    split at h
    · -- '>'
      simp only [Option.some.injEq, Prod.mk.injEq] at h
      refine ⟨[], ?_, rfl, ?_⟩
      · subst_vars; simp [h.2]
      · rw [← h.1]; rfl
    · split at h
      · -- backslash
        rename_i _ hb
        subst hb
        cases cs with
        | nil => simp [readIri] at h
        | cons d cs2 =>
          simp only [readIri] at h
          split at h
          · rename_i hd
            subst hd
            obtain ⟨hs, cs', v, ch, i', hl, hall, hcs, hv, hch, hi, hr⟩ := readIri_hex 3 0 cs2 i rest h
            have hlen : cs'.length ≤ m := by
              have := hm'
              subst hcs
              simp only [List.length_cons, List.length_append] at this
              omega
            obtain ⟨raw', hraw, hu, hdec⟩ := readIri_decomp m cs' i' rest hlen hr
            obtain ⟨hval, _⟩ := ofCode_val hch
            refine ⟨'\\' :: 'u' :: (hs ++ raw'), ?_, ?_, ?_⟩
            · simp [hcs, hraw]
            · have : hs.all uriChar = true := all_imp (fun c hc => (isHex_uriChar hc).1) hs hall
              have e1 : uriChar '\\' = true := by decide
              have e2 : uriChar 'u' = true := by decide
              simp [e1, e2, this, hu]
            · rw [decodeAux_u hs raw' v hl hv, hdec, hi, code_cons, hval]; rfl
          · split at h
            · rename_i _ hd
              subst hd
              obtain ⟨hs, cs', v, ch, i', hl, hall, hcs, hv, hch, hi, hr⟩ := readIri_hex 7 0 cs2 i rest h
              have hlen : cs'.length ≤ m := by
                have := hm'
                subst hcs
                simp only [List.length_cons, List.length_append] at this
                omega
              obtain ⟨raw', hraw, hu, hdec⟩ := readIri_decomp m cs' i' rest hlen hr
              obtain ⟨hval, hle⟩ := ofCode_val hch
              refine ⟨'\\' :: 'U' :: (hs ++ raw'), ?_, ?_, ?_⟩
              · simp [hcs, hraw]
              · have : hs.all uriChar = true := all_imp (fun c hc => (isHex_uriChar hc).1) hs hall
                have e1 : uriChar '\\' = true := by decide
                have e2 : uriChar 'U' = true := by decide
                simp [e1, e2, this, hu]
              · rw [decodeAux_U hs raw' v hl hv hle, hdec, hi, code_cons, hval]; rfl
            · cases h
      · split at h
        · rename_i hgt hb hc
          cases hr : readIri .norm cs with
          | none => simp [hr, push] at h
          | some p =>
            obtain ⟨i', r'⟩ := p
            simp only [hr, push_some, Option.some.injEq, Prod.mk.injEq] at h
            obtain ⟨raw', hraw, hu, hdec⟩ := readIri_decomp m cs i' r' hm' hr
            refine ⟨c :: raw', ?_, ?_, ?_⟩
            · rw [hraw, h.2]; rfl
            · simp [iriChar_uriChar hc, hu]
            · rw [decodeAux_plain raw' hb, hdec, ← h.1]; rfl
        · cases h

/-! ### STRING_LITERAL_QUOTE -/

theorem readStr_hex (q : Char) (long : Bool) : ∀ (k acc : Nat) (cs i rest : Str),
    readStr q long (.hex (k + 1) acc) cs = some (i, rest) →
    ∃ hs cs' v ch i', hs.length = k + 1 ∧ hs.all isHex = true ∧ cs = hs ++ cs' ∧ hexN (k + 1) acc hs = some v ∧
      ofCode v = some ch ∧ i = ch :: i' ∧ readStr q long .norm cs' = some (i', rest)
  | _, _, [], _, _, h => by simp [readStr] at h
  | 0, acc, c :: cs, i, rest, h => by
    simp only [readStr, Nat.zero_add, Nat.le_refl, if_true] at h
    split at h
    · rename_i hc
      split at h
      · rename_i ch hch
        cases hr : readStr q long .norm cs with
        | none => simp [hr, push] at h
        | some p =>
          obtain ⟨i', r'⟩ := p
          simp only [hr, push_some, Option.some.injEq, Prod.mk.injEq] at h
          exact ⟨[c], cs, _, ch, i', rfl, by simp [hc], rfl, by simp [hexN, hc], hch, h.1.symm, by rw [hr, h.2]⟩
      · cases h
    · cases h
  | k + 1, acc, c :: cs, i, rest, h => by
    simp only [readStr] at h
    split at h
    · rename_i hc
      have hn : ¬ (k + 1 + 1 ≤ 1) := by omega
      simp only [hn, if_false, Nat.add_sub_cancel] at h
      obtain ⟨hs, cs', v, ch, i', hl, hall, hcs, hv, hch, hi, hr⟩ := readStr_hex q long k _ cs i rest h
      refine ⟨c :: hs, cs', v, ch, i', by simp [hl], by simp [hc, hall], by simp [hcs], ?_, hch, hi, hr⟩
      simp [hexN, hc, hv]
    · cases h

theorem litBody_quote (cs : Str) : litBody ('"' :: cs) = some ([], cs) := by
  rw [litBody.eq_def]; simp
theorem litBody_bs (d : Char) (ds : Str) (h : d ≠ '\n') :
    litBody ('\\' :: d :: ds) = (litBody ds).map (fun p => ('\\' :: d :: p.1, p.2)) := by
  rw [litBody.eq_def]
  have e2 : ('\\' = '"') = False := by decide
  simp [e2, h]
theorem litBody_other (c : Char) (cs : Str) (h1 : c ≠ '"') (h2 : c ≠ '\\') :
    litBody (c :: cs) = (litBody cs).map (fun p => (c :: p.1, p.2)) := by
  rw [litBody.eq_def]; simp [h1, h2]

theorem litBody_plain : ∀ (hs cs : Str), (∀ c ∈ hs, c ≠ '"' ∧ c ≠ '\\') →
    litBody (hs ++ cs) = (litBody cs).map (fun p => (hs ++ p.1, p.2))
  | [], cs, _ => by cases h : litBody cs <;> simp [h]
  | c :: hs, cs, h => by
    have hc := h c (by simp)
    have ih := litBody_plain hs cs (fun x hx => h x (by simp [hx]))
    rw [List.cons_append, litBody_other c _ hc.1 hc.2, ih]
    cases litBody cs <;> simp

theorem litBody_hex (hs cs : Str) (h : hs.all isHex = true) :
    litBody (hs ++ cs) = (litBody cs).map (fun p => (hs ++ p.1, p.2)) :=
  litBody_plain hs cs (fun c hc => by
    have := isHex_uriChar (List.all_eq_true.mp h c hc)
    exact ⟨this.2.1, this.2.2⟩)

/-- what the grammar's reader accepts as a string body, the regular expression matches the same way, and
    `unquote` of the raw body is the string read -/
theorem readStr_decomp : ∀ (m : Nat) (cs lex rest : Str), cs.length ≤ m →
    readStr '"' false .norm cs = some (lex, rest) →
    ∃ raw, cs = raw ++ '"' :: rest ∧ litBody cs = some (raw, rest) ∧ decodeAux 0 raw = .ok (code lex)
  | _, [], _, _, _, h => by simp [readStr] at h
  | 0, c :: cs, _, _, hm, _ => by simp at hm
  | m + 1, c :: cs, lex, rest, hm, h => by
    have hm' : cs.length ≤ m := by simpa using hm
    simp only [readStr] at h
    split at h
    · -- closing quote
      rename_i hq
      simp only [Bool.false_eq_true, if_false, Option.some.injEq, Prod.mk.injEq] at h
      refine ⟨[], ?_, ?_, ?_⟩
      · simp [hq, h.2]
      · rw [hq, litBody_quote, h.2]
      · rw [← h.1]; rfl
    · rename_i hq
      split at h
      · -- backslash
        rename_i hb
        subst hb
        cases cs with
        | nil => simp [readStr] at h
        | cons d cs2 =>
          simp only [readStr] at h
          split at h
          · rename_i hd
            subst hd
            obtain ⟨hs, cs', v, ch, i', hl, hall, hcs, hv, hch, hi, hr⟩ := readStr_hex '"' false 3 0 cs2 lex rest h
            have hlen : cs'.length ≤ m := by
              have := hm'
              subst hcs
              simp only [List.length_cons, List.length_append] at this
              omega
            obtain ⟨raw', hraw, hbody, hdec⟩ := readStr_decomp m cs' i' rest hlen hr
            obtain ⟨hval, _⟩ := ofCode_val hch
            refine ⟨'\\' :: 'u' :: (hs ++ raw'), ?_, ?_, ?_⟩
            · simp [hcs, hraw]
            · rw [litBody_bs 'u' _ (by decide), hcs, litBody_hex hs cs' hall, hbody]
              simp
            · rw [decodeAux_u hs raw' v hl hv, hdec, hi, code_cons, hval]; rfl
          · split at h
            · rename_i _ hd
              subst hd
              obtain ⟨hs, cs', v, ch, i', hl, hall, hcs, hv, hch, hi, hr⟩ := readStr_hex '"' false 7 0 cs2 lex rest h
              have hlen : cs'.length ≤ m := by
                have := hm'
                subst hcs
                simp only [List.length_cons, List.length_append] at this
                omega
              obtain ⟨raw', hraw, hbody, hdec⟩ := readStr_decomp m cs' i' rest hlen hr
              obtain ⟨hval, hle⟩ := ofCode_val hch
              refine ⟨'\\' :: 'U' :: (hs ++ raw'), ?_, ?_, ?_⟩
              · simp [hcs, hraw]
              · rw [litBody_bs 'U' _ (by decide), hcs, litBody_hex hs cs' hall, hbody]
                simp
              · rw [decodeAux_U hs raw' v hl hv hle, hdec, hi, code_cons, hval]; rfl
            · split at h
              · rename_i e he
                cases hr : readStr '"' false .norm cs2 with
                | none => simp [hr, push] at h
                | some p =>
                  obtain ⟨i', r'⟩ := p
                  simp only [hr, push_some, Option.some.injEq, Prod.mk.injEq] at h
                  have hlen : cs2.length ≤ m := by
                    have := hm'
                    simp only [List.length_cons] at this
                    omega
                  obtain ⟨raw', hraw, hbody, hdec⟩ := readStr_decomp m cs2 i' r' hlen hr
                  obtain ⟨_, _, hnl, _, _⟩ := echar_class he
                  refine ⟨'\\' :: d :: raw', ?_, ?_, ?_⟩
                  · rw [hraw, h.2]; rfl
                  · rw [litBody_bs d _ hnl, hbody]
                    simp [h.2]
                  · rw [decodeAux_echar d e raw' he, hdec, ← h.1]; rfl
              · cases h
      · rename_i hb
        split at h
        · cases h
        · cases hr : readStr '"' false .norm cs with
          | none => simp [hr, push] at h
          | some p =>
            obtain ⟨i', r'⟩ := p
            simp only [hr, push_some, Option.some.injEq, Prod.mk.injEq] at h
            obtain ⟨raw', hraw, hbody, hdec⟩ := readStr_decomp m cs i' r' hm' hr
            refine ⟨c :: raw', ?_, ?_, ?_⟩
            · rw [hraw, h.2]; rfl
            · rw [litBody_other c _ hq hb, hbody]
              simp [h.2]
            · rw [decodeAux_plain raw' hb, hdec, ← h.1]; rfl

/-! ### tokens made of a character class; what is left is part of the input -/

theorem spanP_split (p : Char → Bool) : ∀ (cs : Str), (spanP p cs).1 ++ (spanP p cs).2 = cs
  | [] => rfl
  | c :: cs => by
    unfold spanP
    split
    · simp [spanP_split p cs]
    · rfl

theorem skipWs_subset : ∀ (cs : Str), skipWs cs ⊆ cs
  | [] => by simp [skipWs]
  | c :: cs => by
    unfold skipWs
    split
    · exact List.subset_cons_of_subset c (skipWs_subset cs)
    · exact List.Subset.refl _

theorem unDot_split (tok r l rest : Str) (h : unDot (tok, r) = (l, rest)) :
    ∃ d, tok = l ++ d.reverse ∧ rest = d ++ r := by
  simp only [unDot, Prod.mk.injEq] at h
  refine ⟨tok.reverse.takeWhile (· == '.'), ?_, h.2.symm⟩
  rw [← h.1, ← List.reverse_append, List.takeWhile_append_dropWhile, List.reverse_reverse]

/-! ### BLANK_NODE_LABEL -/

theorem readLabelTerm_model (cs : Str) (t : Term) (rest : Str) (h : readLabelTerm cs = some (t, rest)) :
    ∃ l, t = .bnode l ∧ matchNodeid ('_' :: ':' :: cs) = some (l, rest) ∧ rest ⊆ cs := by
  unfold readLabelTerm at h
  split at h
  rename_i l r hu
  split at h
  · rename_i hl
    simp only [Option.some.injEq, Prod.mk.injEq] at h
    refine ⟨l, h.1.symm, ?_, ?_⟩
    · -- the label starts the input, and its first character is in [U0-9]
      have hsp := spanP_split labelChar cs
      obtain ⟨d, htok, hrest⟩ := unDot_split (spanP labelChar cs).1 (spanP labelChar cs).2 l r (by rw [← hu])
      cases l with
      | nil => simp [legalLabel] at hl
      | cons c l' =>
        have hfirst : nodeidFirst c = true := by
          simp only [legalLabel, Bool.and_eq_true] at hl
          exact hl.1.1
        have hcs : ∃ x, cs = c :: x := ⟨l' ++ d.reverse ++ (spanP labelChar cs).2, by
          have := hsp
          rw [htok] at this
          exact this.symm.trans (by simp)⟩
        obtain ⟨x, hx⟩ := hcs
        subst hx
        rw [← h.2]
        simp only [matchNodeid, hfirst, if_true, hu]
    · rw [← h.2]
      have hsp := spanP_split labelChar cs
      obtain ⟨d, htok, hrest⟩ := unDot_split (spanP labelChar cs).1 (spanP labelChar cs).2 l r (by rw [← hu])
      intro x hx
      rw [hrest] at hx
      rw [← hsp, htok]
      simp only [List.mem_append, List.mem_reverse] at hx ⊢
      rcases hx with hx | hx
      · exact Or.inl (Or.inr hx)
      · exact Or.inr hx
  · cases h

/-! ### LANGTAG -/

theorem legalLangAux_false_zero {s : Str} (h : legalLangAux false 0 s = true) :
    ∃ d r, s = d :: r ∧ isAlnum d = true := by
  cases s with
  | nil => simp [legalLangAux] at h
  | cons d r =>
    refine ⟨d, r, rfl, ?_⟩
    unfold legalLangAux at h
    split at h
    · simp at h
    · simp only [Bool.false_eq_true, if_false, Bool.and_eq_true] at h
      exact h.1

theorem langScan_eq : ∀ (s : Str) (first : Bool) (n : Nat), legalLangAux first n (spanP langChar s).1 = true →
    langScan first s = spanP langChar s
  | [], _, _, _ => rfl
  | c :: cs, first, n, h => by
    unfold spanP at h ⊢
    by_cases hl : langChar c = true
    · simp only [hl, if_true, List.cons_eq_cons] at h ⊢
      unfold legalLangAux at h
      unfold langScan
      by_cases hc : c = '-'
      · simp only [hc, if_true, Bool.and_eq_true] at h ⊢
        obtain ⟨d, r, hd, hal⟩ := legalLangAux_false_zero h.2
        have ih := langScan_eq cs false 0 h.2
        cases cs with
        | nil => simp [spanP] at hd
        | cons d' cs' =>
          have : d' = d := by
            unfold spanP at hd
            split at hd
            · simp only [List.cons_eq_cons] at hd; exact hd.1
            · simp at hd
          subst this
          simp only [hal, if_true, consFst, ih]
      · simp only [hc, if_false] at h ⊢
        cases first with
        | true =>
          simp only [if_true, Bool.and_eq_true] at h ⊢
          simp only [h.1, if_true, consFst, langScan_eq cs true (n + 1) h.2]
        | false =>
          simp only [Bool.false_eq_true, if_false, Bool.and_eq_true] at h ⊢
          simp only [h.1, if_true, consFst, langScan_eq cs false (n + 1) h.2]
    · have hl' : langChar c = false := by simpa using hl
      simp only [hl', Bool.false_eq_true, if_false] at h ⊢
      unfold langScan
      have hc : c ≠ '-' := by intro e; subst e; revert hl'; decide
      have ha : isAlnum c = false := by
        simp only [langChar, Bool.or_eq_false_iff] at hl'
        exact hl'.1
      have ha' : isAlpha c = false := by
        simp only [isAlnum, Bool.or_eq_false_iff] at ha
        exact ha.1
      cases first <;> simp [hc, ha, ha']

theorem matchLang_eq (r tag r' : Str) (hs : spanP langChar r = (tag, r')) (hl : legalLang tag = true) :
    matchLang r = some (tag, r') := by
  have h1 : legalLangAux true 0 (spanP langChar r).1 = true := by rw [hs]; exact hl
  have h2 := langScan_eq r true 0 h1
  cases r with
  | nil => simp [spanP] at hs; rw [hs.1] at hl; simp [legalLang, legalLangAux] at hl
  | cons c cs =>
    have hc : isAlpha c = true := by
      unfold spanP at h1
      split at h1
      · unfold legalLangAux at h1
        split at h1
        · simp at h1
        · simp only [if_true, Bool.and_eq_true] at h1
          exact h1.1
      · simp [legalLangAux] at h1
    simp only [matchLang, hc, if_true, h2, hs]

/-! ### terms -/

/-- the reference reader's term, as the arguments rdflib's parser hands to `URIRef` / `BNode` / `Literal` -/
def codeTerm : Term → PTerm
  | .iri i => .iri (code i)
  | .bnode l => .bnode (code l)
  | .plain x => .lit (code x) none none
  | .lang x t => .lit (code x) (some (code t)) none
  | .typed x d => .lit (code x) none (some (code d))

theorem hasSchemeAux_colon : ∀ (s : Str), hasSchemeAux s = true → ':' ∈ s
  | [], h => by simp [hasSchemeAux] at h
  | c :: cs, h => by
    unfold hasSchemeAux at h
    split at h
    · rename_i hc; simp [hc]
    · split at h
      · exact List.mem_cons_of_mem _ (hasSchemeAux_colon cs h)
      · cases h

theorem hasScheme_colon {s : Str} (h : hasScheme s = true) : ':' ∈ s := by
  cases s with
  | nil => simp [hasScheme] at h
  | cons c cs =>
    simp only [hasScheme, Bool.and_eq_true] at h
    exact List.mem_cons_of_mem _ (hasSchemeAux_colon cs h.2)

theorem absolute_code {s : Str} (h : hasScheme s = true) : absolute (code s) = .ok (code s) := by
  have : 58 ∈ code s := by
    simp only [code, List.mem_map]
    exact ⟨':', hasScheme_colon h, rfl⟩
  simp [absolute, this]

theorem iri_model (cs i rest : Str) (h : readIri .norm cs = some (i, rest)) (hs : hasScheme i = true) :
    ∃ raw, matchUriref ('<' :: cs) = some (raw, rest) ∧ iriOf raw = .ok (code i) ∧ raw ≠ [] ∧ rest ⊆ cs := by
  obtain ⟨raw, hcs, hall, hdec⟩ := readIri_decomp cs.length cs i rest (Nat.le_refl _) h
  refine ⟨raw, ?_, ?_, ?_, ?_⟩
  · have hsp : spanP uriChar (raw ++ '>' :: rest) = (raw, '>' :: rest) :=
      spanP_append uriChar raw _ hall (fun c r hc => by
        simp only [List.cons.injEq] at hc
        rw [← hc.1]; decide)
    simp only [matchUriref, hcs, hsp]
  · simp only [iriOf, unquote_eq, hdec, absolute_code hs]
  · intro hr
    subst hr
    have : code i = [] := by
      have := hdec
      simp only [decodeAux, Except.ok.injEq] at this
      exact this.symm
    have hi : i = [] := by simpa [code] using this
    subst hi
    simp [hasScheme] at hs
  · rw [hcs]
    intro x hx
    simp [hx]

theorem uriref_lt (cs i rest : Str) (h : readIri .norm cs = some (i, rest)) (hs : hasScheme i = true) :
    uriref ('<' :: cs) = .ok (some (.iri (code i)), rest) := by
  obtain ⟨raw, hm, hi, _, _⟩ := iri_model cs i rest h hs
  simp only [uriref, hm, hi]

theorem uriref_other {c : Char} (x : Str) (h : c ≠ '<') : uriref (c :: x) = .ok (none, c :: x) := by
  unfold uriref
  split
  · rename_i heq
    simp only [List.cons.injEq] at heq
    exact absurd heq.1 h
  · rfl

theorem nodeid_other {c : Char} (x : Str) (h : c ≠ '_') : nodeid (c :: x) = .ok (none, c :: x) := by
  unfold nodeid
  split
  · rename_i heq
    simp only [List.cons.injEq] at heq
    exact absurd heq.1 h
  · rfl

theorem matchUriref_other {c : Char} (x : Str) (h : c ≠ '<') : matchUriref (c :: x) = none := by
  unfold matchUriref
  split
  · rename_i heq
    simp only [List.cons.injEq] at heq
    exact absurd heq.1 h
  · rfl

/-- [6] literal -/
theorem readLiteral_model (cs : Str) (t : Term) (rest : Str) (h : readLiteral cs = some (t, rest)) :
    literal ('"' :: cs) = .ok (some (codeTerm t), rest) ∧ rest ⊆ cs := by
  unfold readLiteral at h
  split at h
  · cases h
  · rename_i lex r0 hstr
    obtain ⟨raw, hcs, hbody, hdec⟩ := readStr_decomp cs.length cs lex r0 (Nat.le_refl _) hstr
    have hsub0 : r0 ⊆ cs := by
      rw [hcs]; intro x hx; simp [hx]
    split at h
    · -- typed
      rename_i r
      split at h
      · rename_i dt r' hiri
        split at h
        · rename_i hsch
          simp only [Option.some.injEq, Prod.mk.injEq] at h
          obtain ⟨rawdt, hm, hi, hne, hsub⟩ := iri_model r dt r' hiri hsch
          refine ⟨?_, ?_⟩
          · cases rawdt with
            | nil => exact absurd rfl hne
            | cons c0 rd =>
              simp only [literal, hbody, litInfo, hm, hi, unquote_eq, hdec, ← h.1, ← h.2, codeTerm, Option.map_none]
          · rw [← h.2]
            intro x hx
            exact hsub0 (by simp [hsub hx])
        · cases h
      · cases h
    · -- language-tagged
      rename_i r
      split at h
      rename_i tag r' hspan
      split at h
      · rename_i hleg
        simp only [Option.some.injEq, Prod.mk.injEq] at h
        have hm := matchLang_eq r tag r' hspan hleg
        refine ⟨?_, ?_⟩
        · simp only [literal, hbody, litInfo, hm, unquote_eq, hdec, ← h.1, ← h.2, codeTerm, Option.map_some]
        · rw [← h.2]
          have hsp := spanP_split langChar r
          rw [hspan] at hsp
          intro x hx
          exact hsub0 (by rw [← hsp]; simp [hx])
      · cases h
    · -- plain
      rename_i hn1 hn2
      simp only [Option.some.injEq, Prod.mk.injEq] at h
      have hinfo : litInfo r0 = (none, none, r0) := by
        unfold litInfo
        split
        · rename_i r; exact absurd rfl (hn2 r)
        · rename_i r
          cases r with
          | nil => simp [matchUriref]
          | cons c x =>
            have hc : c ≠ '<' := by
              intro e; subst e; exact hn1 x rfl
            simp [matchUriref_other x hc]
        · rfl
      refine ⟨?_, by rw [← h.2]; exact hsub0⟩
      simp only [literal, hbody, hinfo, unquote_eq, hdec, ← h.1, ← h.2, codeTerm, Option.map_none]

/-- [3] subject, [4] predicate, [5] object, graphLabel: what the grammar's reader accepts at a position,
    the model of rdflib's `subject()` / `predicate()` / `object()` / context expression reads as the same term -/
theorem readTerm_model (pos : Pos) (cs : Str) (t : Term) (rest : Str) (h : readTerm pos cs = some (t, rest)) :
    rest ⊆ cs ∧
    (pos = .subj → subject cs = .ok (codeTerm t, rest)) ∧
    (pos = .pred → predicate cs = .ok (codeTerm t, rest)) ∧
    (pos = .obj → object cs = .ok (codeTerm t, rest)) ∧
    (pos = .graph → context cs = .ok (some (codeTerm t), rest)) := by
  unfold readTerm at h
  split at h
  · -- IRIREF
    rename_i cs'
    unfold readIriTerm at h
    split at h
    · rename_i i r hiri
      split at h
      · rename_i hsch
        simp only [Option.some.injEq, Prod.mk.injEq] at h
        have hu := uriref_lt cs' i r hiri hsch
        obtain ⟨_, _, _, _, hsub⟩ := iri_model cs' i r hiri hsch
        rw [← h.1, ← h.2]
        refine ⟨fun x hx => by simp [hsub hx], ?_, ?_, ?_, ?_⟩ <;> intro _ <;>
          simp only [subject, predicate, object, context, hu, codeTerm]
      · cases h
    · cases h
  · -- BLANK_NODE_LABEL
    rename_i cs'
    split at h
    · cases h
    · rename_i hpos
      obtain ⟨l, ht, hm, hsub⟩ := readLabelTerm_model cs' t rest h
      have hu : uriref ('_' :: ':' :: cs') = .ok (none, '_' :: ':' :: cs') := uriref_other _ (by decide)
      have hn : nodeid ('_' :: ':' :: cs') = .ok (some (.bnode (code l)), rest) := by
        simp only [nodeid, hm]
      rw [ht]
      refine ⟨fun x hx => by simp [hsub hx], ?_, fun e => absurd e hpos, ?_, ?_⟩ <;> intro _ <;>
        simp only [subject, object, context, hu, hn, codeTerm]
  · -- literal
    rename_i cs'
    split at h
    · rename_i hpos
      obtain ⟨hl, hsub⟩ := readLiteral_model cs' t rest h
      have hu : uriref ('"' :: cs') = .ok (none, '"' :: cs') := uriref_other _ (by decide)
      have hn : nodeid ('"' :: cs') = .ok (none, '"' :: cs') := nodeid_other _ (by decide)
      subst hpos
      exact ⟨fun x hx => by simp [hsub hx], (fun e => by cases e), (fun e => by cases e),
        (fun _ => by simp only [object, hu, hn, hl]), (fun e => by cases e)⟩
    · cases h
  · cases h

/-! ### the end of the statement -/

theorem dropWhile_all (p : Char → Bool) : ∀ (l : Str), (∀ c ∈ l, p c = true) → l.dropWhile p = []
  | [], _ => rfl
  | c :: l, h => by
    simp only [List.dropWhile, h c (by simp)]
    exact dropWhile_all p l (fun x hx => h x (by simp [hx]))

theorem finish_ok {α} (x : α) (r : Str) (h : endOfStatement r = true) (hnl : '\n' ∉ r) :
    finish x r = .ok (some x) := by
  unfold endOfStatement at h
  split at h
  · rename_i r' hs
    have hsub : r' ⊆ r := fun c hc => skipWs_subset r (by rw [hs]; simp [hc])
    unfold lineEnd at h
    split at h
    · rename_i hs2
      simp only [finish, eatTail, hs, hs2]
    · rename_i c r'' hs2
      have hc : c = '#' := by simpa using h
      subst hc
      have hsub2 : r'' ⊆ r' := fun c hc => skipWs_subset r' (by rw [hs2]; simp [hc])
      have hd : r''.dropWhile (fun c => c != '\n') = [] := by
        apply dropWhile_all
        intro c hc
        have : c ≠ '\n' := fun e => hnl (e ▸ hsub (hsub2 hc))
        simpa using this
      simp only [finish, eatTail, hs, hs2, hd]
  · cases h

theorem skipWs_idem : ∀ (cs : Str), skipWs (skipWs cs) = skipWs cs
  | [] => rfl
  | c :: cs => by
    by_cases h : c = ' ' ∨ c = '\t'
    · simp only [skipWs, h, if_true]; exact skipWs_idem cs
    · simp only [skipWs, h, if_false]

theorem finish_skipWs {α} (x : α) (r : Str) : finish x (skipWs r) = finish x r := by
  simp only [finish, eatTail, skipWs_idem]

/-! ### lines -/

def codeTriple (t : Triple) : PTriple := (codeTerm t.1, codeTerm t.2.1, codeTerm t.2.2)
def codeQuad (q : Quad) : PQuad := (codeTerm q.1, codeTerm q.2.1, codeTerm q.2.2.1, q.2.2.2.map codeTerm)

theorem ntParseline_refines (line : Str) (r : Option Triple) (hnl : '\n' ∉ line)
    (h : NT.parseLine line = some r) : ntParseline line = .ok (r.map codeTriple) := by
  unfold NT.parseLine at h
  split at h
  · rename_i hb
    simp only [Option.some.injEq] at h
    subst h
    simp [ntParseline, hb]
  · rename_i hb
    split at h
    · cases h
    · rename_i s r1 h1
      split at h
      · cases h
      · rename_i p r2 h2
        split at h
        · cases h
        · rename_i o r3 h3
          split at h
          · rename_i he
            simp only [Option.some.injEq] at h
            subst h
            obtain ⟨s1, hs, _, _, _⟩ := readTerm_model .subj _ s r1 h1
            obtain ⟨s2, _, hp, _, _⟩ := readTerm_model .pred _ p r2 h2
            obtain ⟨s3, _, _, ho, _⟩ := readTerm_model .obj _ o r3 h3
            have hsub : r3 ⊆ line := fun c hc =>
              skipWs_subset line (s1 (skipWs_subset r1 (s2 (skipWs_subset r2 (s3 hc)))))
            have hf := finish_ok (codeTriple (s, p, o)) r3 he (fun hc => hnl (hsub hc))
            simp only [ntParseline, hb, Bool.false_eq_true, if_false, hs rfl, hp rfl, ho rfl]
            exact hf
          · cases h

theorem context_dot (r : Str) : context ('.' :: r) = .ok (none, '.' :: r) := by
  simp only [context, uriref_other r (show '.' ≠ '<' by decide), nodeid_other r (show '.' ≠ '_' by decide)]

theorem nqParseline_refines (line : Str) (r : Option Quad) (hnl : '\n' ∉ line)
    (h : NQ.parseLine line = some r) : nqParseline line = .ok (r.map codeQuad) := by
  unfold NQ.parseLine at h
  split at h
  · rename_i hb
    simp only [Option.some.injEq] at h
    subst h
    simp [nqParseline, hb]
  · rename_i hb
    split at h
    · cases h
    · rename_i s r1 h1
      split at h
      · cases h
      · rename_i p r2 h2
        split at h
        · cases h
        · rename_i o r3 h3
          obtain ⟨s1, hs, _, _, _⟩ := readTerm_model .subj _ s r1 h1
          obtain ⟨s2, _, hp, _, _⟩ := readTerm_model .pred _ p r2 h2
          obtain ⟨s3, _, _, ho, _⟩ := readTerm_model .obj _ o r3 h3
          have hsub : r3 ⊆ line := fun c hc =>
            skipWs_subset line (s1 (skipWs_subset r1 (s2 (skipWs_subset r2 (s3 hc)))))
          split at h
          · -- no graph label
            rename_i he
            simp only [Option.some.injEq] at h
            subst h
            have hf := finish_ok (codeQuad (s, p, o, none)) r3 he (fun hc => hnl (hsub hc))
            have hdot : ∃ r', skipWs r3 = '.' :: r' := by
              unfold endOfStatement at he
              split at he
              · rename_i r' hr; exact ⟨r', hr⟩
              · cases he
            obtain ⟨r', hr'⟩ := hdot
            simp only [nqParseline, hb, Bool.false_eq_true, if_false, hs rfl, hp rfl, ho rfl, hr', context_dot]
            rw [← hr', finish_skipWs]
            exact hf
          · split at h
            · cases h
            · rename_i g r4 h4
              split at h
              · rename_i he
                simp only [Option.some.injEq] at h
                subst h
                obtain ⟨s4, _, _, _, hg⟩ := readTerm_model .graph _ g r4 h4
                have hsub4 : r4 ⊆ line := fun c hc => hsub (skipWs_subset r3 (s4 hc))
                have hf := finish_ok (codeQuad (s, p, o, some g)) r4 he (fun hc => hnl (hsub4 hc))
                simp only [nqParseline, hb, Bool.false_eq_true, if_false, hs rfl, hp rfl, ho rfl, hg rfl]
                exact hf
              · cases h

/-! ### documents: `readline` / `parse()` against [1] ntriplesDoc, [7] EOL -/

theorem splitLines_pre : ∀ (pre : Str), noEol pre = true → splitLines pre = [pre]
  | [], _ => rfl
  | c :: pre, h => by
    rw [noEol_cons] at h
    simp only [Bool.and_eq_true, Bool.not_eq_true', isEol, Bool.or_eq_false_iff, beq_eq_false_iff_ne, ne_eq] at h
    simp [splitLines, h.1.1, h.1.2, splitLines_pre pre h.2]

theorem splitLines_eol : ∀ (pre : Str) (e : Char) (rest : Str), noEol pre = true → (e = '\n' ∨ e = '\r') →
    splitLines (pre ++ e :: rest) = pre :: splitLines rest
  | [], e, rest, _, he => by simp [splitLines, he]
  | c :: pre, e, rest, h, he => by
    rw [noEol_cons] at h
    simp only [Bool.and_eq_true, Bool.not_eq_true', isEol, Bool.or_eq_false_iff, beq_eq_false_iff_ne, ne_eq] at h
    simp [splitLines, h.1.1, h.1.2, splitLines_eol pre e rest h.2 he]

theorem collect_cons {α} (f : Str → Option (Option α)) (l : Str) (ls : List Str) (ts : List α)
    (h : collect f (l :: ls) = some ts) :
    ∃ r ts', f l = some r ∧ collect f ls = some ts' ∧ ts = r.toList ++ ts' := by
  simp only [collect] at h
  split at h
  · cases h
  · rename_i hf
    exact ⟨none, ts, hf, h, rfl⟩
  · rename_i t hf
    cases hc : collect f ls with
    | none => simp [hc] at h
    | some ts' =>
      simp only [hc, Option.map_some, Option.some.injEq] at h
      exact ⟨some t, ts', hf, rfl, by simp [← h]⟩

theorem parseAll_cons {β} (g : Str → Except Err (Option β)) (l : Str) (ls : List Str) (r : Option β) (us : List β)
    (hg : g l = .ok r) (hp : parseAll g ls = .ok us) : parseAll g (l :: ls) = .ok (r.toList ++ us) := by
  cases r with
  | none => simp [parseAll, hg, hp]
  | some t => simp [parseAll, hg, hp]

theorem noEol_no_lf {s : Str} (h : noEol s = true) : '\n' ∉ s := by
  intro hm
  have := List.all_eq_true.mp h '\n' hm
  revert this; decide

/-- the generic step: a line reader `f` of the grammar, a `parseline` model `g` that refines it on LF-free lines,
    an empty line is skipped by `f`, and a line `f` reads as a statement is not white space only -/
theorem parseAll_refines {α β} (f : Str → Option (Option α)) (g : Str → Except Err (Option β)) (cd : α → β)
    (hfg : ∀ line r, '\n' ∉ line → f line = some r → g line = .ok (r.map cd))
    (hblank : f [] = some none)
    (hspace : ∀ line t, f line = some (some t) → line.all pyIsSpace = false) :
    ∀ (doc cur : Str) (ts : List α), noEol cur = true →
      collect f (splitLines (cur.reverse ++ doc)) = some ts →
      parseAll g (pyLinesAux cur doc) = .ok (ts.map cd)
  | [], cur, ts, hcur, h => by
    have hrev : noEol cur.reverse = true := by simpa [noEol] using hcur
    rw [List.append_nil, splitLines_pre _ hrev] at h
    obtain ⟨r, ts', hf, hc, hts⟩ := collect_cons f _ _ ts h
    simp only [collect, Option.some.injEq] at hc
    subst hc
    have hg := hfg _ r (noEol_no_lf hrev) hf
    simp only [pyLinesAux]
    split
    · rename_i hdrop
      cases r with
      | none => simp [hts, parseAll]
      | some t =>
        exfalso
        simp only [Bool.or_eq_true, List.isEmpty_iff] at hdrop
        rcases hdrop with hd | hd
        · subst hd
          rw [List.reverse_nil, hblank] at hf
          cases hf
        · have := hspace _ t hf
          rw [List.all_reverse, hd] at this
          cases this
    · have := parseAll_cons g cur.reverse [] (r.map cd) [] hg rfl
      rw [this, hts]
      cases r <;> simp
  | c :: cs, cur, ts, hcur, h => by
    have hrev : noEol cur.reverse = true := by simpa [noEol] using hcur
    by_cases hr : c = '\r'
    · subst hr
      rw [splitLines_eol _ _ _ hrev (Or.inr rfl)] at h
      obtain ⟨r, ts', hf, hc, hts⟩ := collect_cons f _ _ ts h
      have hg := hfg _ r (noEol_no_lf hrev) hf
      have ih := parseAll_refines f g cd hfg hblank hspace cs [] ts' rfl (by simpa using hc)
      have hgoal : parseAll g (cur.reverse :: pyLinesAux [] cs) = .ok (ts.map cd) := by
        rw [parseAll_cons g _ _ _ _ hg ih, hts]
        cases r <;> simp
      cases cs with
      | nil => simpa [pyLinesAux] using hgoal
      | cons d cs' =>
        by_cases hd : d = '\n'
        · subst hd
          -- CR LF: one line end for `readline`; for the grammar an empty line in between, which `f` skips
          have e1 : pyLinesAux cur ('\r' :: '\n' :: cs') = cur.reverse :: pyLinesAux [] cs' := by
            have e : ('\n' = '\r') = False := by decide
            simp [pyLinesAux, e]
          have e2 : pyLinesAux [] ('\n' :: cs') = [] :: pyLinesAux [] cs' := by
            have e : ('\n' = '\r') = False := by decide
            simp [pyLinesAux, e]
          have hg0 : g [] = .ok none := hfg [] none (by simp) hblank
          rw [e2] at ih
          have ih' : parseAll g (pyLinesAux [] cs') = .ok (ts'.map cd) := by
            simpa [parseAll, hg0] using ih
          rw [e1, parseAll_cons g _ _ _ _ hg ih', hts]
          cases r <;> simp
        · have e1 : pyLinesAux cur ('\r' :: d :: cs') = cur.reverse :: pyLinesAux [] (d :: cs') := by
            simp only [pyLinesAux, if_true]
            split
            · rename_i heq
              simp only [List.cons.injEq] at heq
              exact absurd heq.1.symm (fun e => hd e.symm)
            · rfl
          rw [e1]; exact hgoal
    · by_cases hn : c = '\n'
      · subst hn
        rw [splitLines_eol _ _ _ hrev (Or.inl rfl)] at h
        obtain ⟨r, ts', hf, hc, hts⟩ := collect_cons f _ _ ts h
        have hg := hfg _ r (noEol_no_lf hrev) hf
        have ih := parseAll_refines f g cd hfg hblank hspace cs [] ts' rfl (by simpa using hc)
        have e : ('\n' = '\r') = False := by decide
        simp only [pyLinesAux, e, if_false, if_true]
        rw [parseAll_cons g _ _ _ _ hg ih, hts]
        cases r <;> simp
      · have hcur' : noEol (c :: cur) = true := by
          rw [noEol_cons, hcur]
          simp [isEol, hr, hn]
        have ih := parseAll_refines f g cd hfg hblank hspace cs (c :: cur) ts hcur' (by simpa using h)
        simpa [pyLinesAux, hr, hn] using ih

theorem readTerm_head (pos : Pos) (cs : Str) (x : Term × Str) (h : readTerm pos cs = some x) :
    ∃ c r, cs = c :: r ∧ pyIsSpace c = false := by
  unfold readTerm at h
  split at h
  · exact ⟨_, _, rfl, by decide⟩
  · exact ⟨_, _, rfl, by decide⟩
  · exact ⟨_, _, rfl, by decide⟩
  · cases h

theorem all_false_of_mem {c : Char} {s : Str} (hm : c ∈ s) (hc : pyIsSpace c = false) : s.all pyIsSpace = false := by
  cases h : s.all pyIsSpace with
  | false => rfl
  | true => rw [List.all_eq_true.mp h c hm] at hc; cases hc

theorem nt_statement_not_space (line : Str) (t : Triple) (h : NT.parseLine line = some (some t)) :
    line.all pyIsSpace = false := by
  unfold NT.parseLine at h
  split at h
  · cases h
  · split at h
    · cases h
    · rename_i s r1 h1
      obtain ⟨c, r, hc, hsp⟩ := readTerm_head _ _ _ h1
      exact all_false_of_mem (skipWs_subset line (by rw [hc]; simp)) hsp

theorem nq_statement_not_space (line : Str) (t : Quad) (h : NQ.parseLine line = some (some t)) :
    line.all pyIsSpace = false := by
  unfold NQ.parseLine at h
  split at h
  · cases h
  · split at h
    · cases h
    · rename_i s r1 h1
      obtain ⟨c, r, hc, hsp⟩ := readTerm_head _ _ _ h1
      exact all_false_of_mem (skipWs_subset line (by rw [hc]; simp)) hsp

theorem ntParse_refines (doc : Str) (ts : List Triple) (h : NT.parseDoc doc = some ts) :
    ntParse doc = .ok (ts.map codeTriple) :=
  parseAll_refines NT.parseLine ntParseline codeTriple ntParseline_refines (by decide) nt_statement_not_space
    doc [] ts rfl (by simpa [NT.parseDoc] using h)

theorem nqParse_refines (doc : Str) (qs : List Quad) (h : NQ.parseDoc doc = some qs) :
    nqParse doc = .ok (qs.map codeQuad) :=
  parseAll_refines NQ.parseLine nqParseline codeQuad nqParseline_refines (by decide) nq_statement_not_space
    doc [] qs rfl (by simpa [NQ.parseDoc] using h)


/-! ### the IRIREF token, exactly -/

theorem spanP_all (p : Char → Bool) : ∀ (cs : Str), (spanP p cs).1.all p = true
  | [] => rfl
  | c :: cs => by
    unfold spanP
    split
    · rename_i h; simp [h, spanP_all p cs]
    · rfl

/-- the IRIREF token of rdflib's parser, exactly: any run of characters other than #x00-#x20 `<` `>` `"` between `<` and the
    next `>` (the grammar's [8] additionally excludes `{ } | ^ backquote` and admits a backslash only as UCHAR) -/
theorem matchUriref_iff (cs u rest : Str) :
    matchUriref ('<' :: cs) = some (u, rest) ↔ (u.all uriChar = true ∧ cs = u ++ '>' :: rest) := by
  constructor
  · intro h
    simp only [matchUriref] at h
    split at h
    · rename_i u' rest' hs
      simp only [Option.some.injEq, Prod.mk.injEq] at h
      have h1 := spanP_all uriChar cs
      have h2 := spanP_split uriChar cs
      rw [hs] at h1 h2
      exact ⟨h.1 ▸ h1, by rw [← h2, h.1, h.2]⟩
    · cases h
  · rintro ⟨hall, hcs⟩
    have hsp : spanP uriChar (u ++ '>' :: rest) = (u, '>' :: rest) :=
      spanP_append uriChar u _ hall (fun c r hc => by
        simp only [List.cons.injEq] at hc
        rw [← hc.1]; decide)
    simp only [matchUriref, hcs, hsp]

end RV.C05
