import RV.C05.Model
/-
  C05 — PN_LOCAL escapes and RFC 3986 reference resolution.
-/
namespace RV.C05

/-! ### PN_LOCAL -/

theorem pnRawOk_backslash (a b : Bool) : pnRawOk a b '\\' = false := by
  cases a <;> cases b <;> decide

theorem not_backslash_of_expressible {first : Bool} {cs : Str} {c : Char}
    (h : (pnEscapable c || pnRawHere first cs c) = true) : c ≠ '\\' := by
  intro e
  subst e
  have h1 : pnEscapable '\\' = false := by decide
  have h2 : pnRawHere first cs '\\' = false := by
    simp [pnRawHere, pnRawOk_backslash]
  simp [h1, h2] at h

theorem pnLocal_roundtrip_aux : ∀ (s : Str) (first : Bool) (ks : List Nat),
    pnExpressibleAux first s = true → pnLocalUnesc (pnLocalAux first ks s) = s
  | [], _, _, _ => by simp [pnLocalAux, pnLocalUnesc]
  | c :: cs, first, ks, h => by
    simp only [pnExpressibleAux, Bool.and_eq_true] at h
    have hc := not_backslash_of_expressible h.1
    have ih := pnLocal_roundtrip_aux cs false ks.tail h.2
    simp only [pnLocalAux]
    split
    · simp [pnLocalUnesc, ih]
    · have e : pnLocalUnesc (c :: pnLocalAux false ks.tail cs) = c :: pnLocalUnesc (pnLocalAux false ks.tail cs) := by
        conv => lhs; unfold pnLocalUnesc
        simp [hc]
      simpa [ih] using e

/-! ### RFC 3986 §5.2 -/

def isDotSeg (s : Str) : Bool := s == dot || s == dotdot
def noDots (p : List Str) : Bool := p.all (fun s => !isDotSeg s)

theorem dotdot_ne_dot : dotdot ≠ dot := by decide
theorem dot_ne_nil : dot ≠ [] := by decide

theorem noDots_cons {s : Str} {p : List Str} (h : noDots (s :: p) = true) :
    s ≠ dot ∧ s ≠ dotdot ∧ noDots p = true := by
  simp only [noDots, List.all_cons, Bool.and_eq_true, isDotSeg, Bool.not_eq_true', Bool.or_eq_false_iff,
    beq_eq_false_iff_ne, ne_eq] at h
  exact ⟨h.1.1, h.1.2, by simpa [noDots, isDotSeg] using h.2⟩

/-- without dot segments nothing is removed -/
theorem rds_noDots : ∀ (p : List Str) (stk : List Str), noDots p = true → p ≠ [] →
    rds stk p = stk.reverse ++ p
  | [], _, _, h => absurd rfl h
  | [s], stk, hd, _ => by
    obtain ⟨h1, h2, _⟩ := noDots_cons hd
    simp [rds, h1, h2]
  | s :: t :: ss, stk, hd, _ => by
    obtain ⟨h1, h2, h3⟩ := noDots_cons hd
    have ih := rds_noDots (t :: ss) (s :: stk) h3 (by simp)
    simp [rds, h1, h2, ih]

theorem rds_append_noDots : ∀ (p q stk : List Str), noDots p = true → q ≠ [] →
    rds stk (p ++ q) = rds (p.reverse ++ stk) q
  | [], q, stk, _, _ => by simp
  | s :: p, q, stk, hd, hq => by
    obtain ⟨h1, h2, h3⟩ := noDots_cons hd
    have ih := rds_append_noDots p q (s :: stk) h3 hq
    cases hpq : p ++ q with
    | nil => simp at hpq; exact absurd hpq.2 hq
    | cons t ss =>
      rw [hpq] at ih
      simp only [List.cons_append, hpq, rds, h1, h2, if_false, ih]
      simp

theorem rds_dot (stk q : List Str) (hq : q ≠ []) : rds stk (dot :: q) = rds stk q := by
  cases q with
  | nil => exact absurd rfl hq
  | cons t ss => simp [rds]

theorem rds_ups : ∀ (m : Nat) (stk q : List Str), q ≠ [] →
    rds stk (List.replicate m dotdot ++ q) = rds (stk.drop m) q
  | 0, stk, q, _ => by simp
  | m + 1, stk, q, hq => by
    have ih := rds_ups m stk.tail q hq
    cases hpq : List.replicate m dotdot ++ q with
    | nil => simp at hpq; exact absurd hpq.2 hq
    | cons t ss =>
      rw [hpq] at ih
      simp only [List.replicate_succ, List.cons_append, hpq, rds, dotdot_ne_dot, if_false, if_true, ih]
      cases stk <;> simp

theorem removeDots_noDots (p : List Str) (h : noDots p = true) : removeDots p = p := by
  cases p with
  | nil => rfl
  | cons s rest =>
    simp only [removeDots]
    split
    · next hc =>
      have hr : rest ≠ [] := by
        intro e; simp [e] at hc
      obtain ⟨_, _, h3⟩ := noDots_cons h
      simp [rds_noDots rest [] h3 hr, hc.1]
    · simp [rds_noDots (s :: rest) [] h (by simp)]

theorem commonLen_le : ∀ (a b : List Str), commonLen a b ≤ a.length ∧ commonLen a b ≤ b.length
  | [], _ => by simp [commonLen]
  | _ :: _, [] => by simp [commonLen]
  | x :: a, y :: b => by
    have := commonLen_le a b
    simp only [commonLen]
    split <;> simp <;> omega

theorem commonLen_take : ∀ (a b : List Str), a.take (commonLen a b) = b.take (commonLen a b)
  | [], _ => by simp [commonLen]
  | _ :: _, [] => by simp [commonLen]
  | x :: a, y :: b => by
    simp only [commonLen]
    split
    · next h => simp [h, commonLen_take a b]
    · simp

theorem commonLen_pos (a b : List Str) (x : Str) : 1 ≤ commonLen (x :: a) (x :: b) := by
  simp [commonLen]

theorem absPath_spec {p : List Str} (h : absPath p = true) : ∃ x xs, p = [] :: x :: xs := by
  cases p with
  | nil => simp [absPath] at h
  | cons a rest =>
    cases rest with
    | nil => simp [absPath] at h
    | cons x xs =>
      simp [absPath] at h
      exact ⟨x, xs, by rw [h]⟩

/-- the path-relative form: climbing out of the base directory and descending again gives the target path -/
theorem path_relative (y b : List Str) (hy : y ≠ []) (hyd : noDots y = true) (hbd : noDots b = true)
    (q : List Str) (hq : q = y.drop (commonLen b y.dropLast)) (pre : Bool) :
    rds [] (b ++ ((if pre then [dot] else []) ++
      (List.replicate (b.length - commonLen b y.dropLast) dotdot ++ q))) = y := by
  have hn := commonLen_le b y.dropLast
  have hlen : y.dropLast.length = y.length - 1 := List.length_dropLast
  have hypos : 0 < y.length := List.length_pos_iff.mpr hy
  have hqne : q ≠ [] := by
    rw [hq]
    intro e
    have : (y.drop (commonLen b y.dropLast)).length = 0 := by rw [e]; rfl
    simp at this
    omega
  have hq2 : noDots q = true := by
    rw [hq]
    simp only [noDots, List.all_eq_true] at hyd ⊢
    intro s hs
    exact hyd s (List.mem_of_mem_drop hs)
  have hne1 : (List.replicate (b.length - commonLen b y.dropLast) dotdot ++ q) ≠ [] := by
    simp [hqne]
  rw [rds_append_noDots b _ [] hbd (by cases pre <;> simp [hne1])]
  have hskip : rds (b.reverse ++ []) ((if pre then [dot] else []) ++
      (List.replicate (b.length - commonLen b y.dropLast) dotdot ++ q)) =
      rds b.reverse (List.replicate (b.length - commonLen b y.dropLast) dotdot ++ q) := by
    cases pre
    · simp
    · simp only [if_true, List.append_nil, List.cons_append, List.nil_append]
      exact rds_dot _ _ hne1
  rw [hskip, rds_ups _ _ _ hqne, rds_noDots q _ hq2 hqne, List.drop_reverse, List.reverse_reverse]
  have e1 : b.length - (b.length - commonLen b y.dropLast) = commonLen b y.dropLast := by omega
  rw [e1, commonLen_take, hq]
  have e3 : List.take (commonLen b y.dropLast) y.dropLast = List.take (commonLen b y.dropLast) y := by
    generalize commonLen b y.dropLast = n at hn
    rw [List.dropLast_eq_take, List.take_take, Nat.min_eq_left (by omega)]
  rw [e3, List.take_append_drop]

def okBase (b : Ref) : Bool := b.scheme.isSome && b.auth.isSome && absPath b.path && noDots b.path
def okTarget (t : Ref) : Bool := t.scheme.isSome && noDots t.path

theorem resolve_abs (base t : Ref) (hs : t.scheme.isSome = true) (hd : noDots t.path = true) :
    resolve base t = t := by
  obtain ⟨ts, ta, tp, tq, tf⟩ := t
  cases ts with
  | none => simp at hs
  | some x => simp [resolve, removeDots_noDots tp hd]

theorem resolve_net (base t : Ref) (a : Str) (ha : t.auth = some a) (hsc : t.scheme = base.scheme)
    (hd : noDots t.path = true) : resolve base { t with scheme := none } = t := by
  obtain ⟨ts, ta, tp, tq, tf⟩ := t
  simp only at ha hsc hd
  subst ha
  simp [resolve, removeDots_noDots tp hd, hsc]

theorem relPath_shape (rel : List Str) :
    let rel' := if (rel.head?.map (fun (s : Str) => s.isEmpty || s.contains ':')).getD true then dot :: rel else rel
    rel' ≠ [[]] ∧ rel'.head? ≠ some [] := by
  intro rel'
  simp only [rel']
  split
  · exact ⟨by simp [dot_ne_nil], by simp [dot_ne_nil]⟩
  · next h =>
    cases rel with
    | nil => simp at h
    | cons s r =>
      simp at h
      have hs : s ≠ [] := by intro e; simp [e] at h
      exact ⟨by intro e; injection e with e1 _; exact hs e1, by simp [hs]⟩

theorem resolve_relativize_thm (base t : Ref) (k : Nat) (hb : okBase base = true) (ht : okTarget t = true) :
    resolve base (relativize base t k) = t := by
  simp only [okBase, okTarget, Bool.and_eq_true] at hb ht
  obtain ⟨⟨⟨hbs, hba⟩, hbp⟩, hbd⟩ := hb
  obtain ⟨hts, htd⟩ := ht
  unfold relativize
  simp only []
  split
  · exact resolve_abs base t hts htd
  · next h1 =>
    simp only [not_or, Bool.not_eq_true', Bool.and_eq_false_iff, decide_eq_false_iff_not, Bool.not_eq_false] at h1
    obtain ⟨_, h1s, h1a⟩ := h1
    have hsame : t.scheme = base.scheme := Classical.not_not.mp h1s.1
    obtain ⟨a, ha⟩ : ∃ a, t.auth = some a := by
      cases hta : t.auth with
      | none => simp [hta] at h1a
      | some a => exact ⟨a, rfl⟩
    split
    · exact resolve_net base t a ha hsame htd
    · next h2 =>
      simp only [not_or, Bool.not_eq_true', Bool.not_eq_false, Bool.and_eq_true, decide_eq_true_eq] at h2
      obtain ⟨_, ⟨_, hauth⟩, htp, _⟩ := h2
      obtain ⟨ts, ta, tp, tq, tf⟩ := t
      obtain ⟨bs, ba, bp, bq, bf⟩ := base
      simp only at hsame hauth htp hbp hbd htd ha hba hbs hts
      subst hsame hauth
      obtain ⟨y0, ys, hy⟩ := absPath_spec htp
      obtain ⟨x0, xs, hx⟩ := absPath_spec hbp
      split
      · -- absolute-path reference
        subst hy
        simp [resolve, removeDots_noDots _ htd]
      · split
        · next h4 =>
          -- same-document reference
          obtain ⟨_, hp, hqq⟩ := h4
          simp only at hp hqq
          subst hp
          cases tq with
          | some q => simp [resolve]
          | none =>
            simp at hqq
            simp [resolve, hqq]
        · -- path-relative reference
          subst hy hx
          have hsh := relPath_shape
            (List.replicate (([] :: x0 :: xs : List Str).dropLast.length -
              commonLen ([] :: x0 :: xs : List Str).dropLast ([] :: y0 :: ys : List Str).dropLast) dotdot ++
              List.drop (commonLen ([] :: x0 :: xs : List Str).dropLast ([] :: y0 :: ys : List Str).dropLast)
                ([] :: y0 :: ys))
          simp only at hsh
          obtain ⟨hne, hhd⟩ := hsh
          have hbd' := (noDots_cons hbd).2.2
          have htd' := (noDots_cons htd).2.2
          have hbdd : noDots (x0 :: xs).dropLast = true := by
            simp only [noDots, List.all_eq_true] at hbd' ⊢
            intro s hs
            exact hbd' s (List.dropLast_subset _ hs)
          have key := path_relative (y0 :: ys) (x0 :: xs).dropLast (by simp) htd' hbdd _ rfl
          simp only [List.dropLast_cons₂, commonLen, if_true, List.length_cons, Nat.add_sub_add_right,
            List.drop_succ_cons] at key hne hhd ⊢
          generalize hR : List.replicate ((x0 :: xs).dropLast.length - commonLen (x0 :: xs).dropLast (y0 :: ys).dropLast) dotdot ++
              List.drop (commonLen (x0 :: xs).dropLast (y0 :: ys).dropLast) (y0 :: ys) = R at key hne hhd ⊢
          generalize hC : (Option.map (fun (s : Str) => List.isEmpty s || List.contains s ':') R.head?).getD true = C at hne hhd ⊢
          have hrel : (if C = true then dot :: R else R) = (if C = true then [dot] else []) ++ R := by
            cases C <;> simp
          have hRne : ((x0 :: xs).dropLast ++ ((if C = true then [dot] else []) ++ R)) ≠ [] := by
            cases C
            · simp only [Bool.false_eq_true, if_false, List.nil_append] at hne ⊢
              intro e
              have := List.append_eq_nil_iff.mp e
              rw [this.2] at hC
              simp at hC
            · simp
          rw [hrel] at hne hhd ⊢
          have hE : ((x0 :: xs).dropLast ++ ((if C = true then [dot] else []) ++ R)).isEmpty = false := by
            cases hh : ((x0 :: xs).dropLast ++ ((if C = true then [dot] else []) ++ R)) with
            | nil => exact absurd hh hRne
            | cons _ _ => rfl
          simp only [resolve, hne, hhd, if_false, mergePaths, List.dropLast_cons₂, List.cons_append, removeDots,
            List.cons.injEq, List.cons_ne_nil, and_false, Bool.not_eq_true', hE, and_self, if_true, key C]

end RV.C05
