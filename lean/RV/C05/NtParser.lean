import RV.C05.Model
import RV.C05.Tables
/-
  C05 Part F — model of rdflib's N-Triples / N-Quads PARSER, as coded
  (rdflib/plugins/parsers/ntriples.py `W3CNTriplesParser`, nquads.py `NQuadsParser.parseline`,
  rdflib/compat.py `decodeUnicodeEscape`).

  The parser keeps the unread rest of the current line in `self.line`; `peek(tok)` looks at its start,
  `eat(regex)` matches a compiled regular expression at its start, raises `ParseError` when it does not
  match and cuts the match off.  Here every `eat` is a function `Str → Option (… × Str)` written from
  the regular expression (each one is deterministic: the alternatives start with different characters and
  the repeated character classes are disjoint from what follows them, except for the blank-node label,
  whose back-tracking is spelled out at `matchNodeid`).

      r_wspace  [ \t]*                                   skipWs (Model.lean)
      r_uriref  <([^\x00-\x20"<>]*)>                      matchUriref
      r_nodeid  _:([U0-9]([PN.]*[PN])?)                   matchNodeid    (U = PN_CHARS_U, PN = PN_CHARS)
      r_literal "([^"\\]*(?:\\.[^"\\]*)*)"(?:@([a-zA-Z]+(?:-[a-zA-Z0-9]+)*)|\^\^<([^\x00-\x20"<>]*)>)?
                                                          litBody, matchLang, matchUriref
      r_tail    [ \t]*\.[ \t]*(#.*)?                      eatTail
      compat._turtle_escape_pattern  \\(?:([tbnrf"'\\])|(u[0-9A-Fa-f]{4}|U[0-9A-Fa-f]{8}))   decodeAux

  Python strings are sequences of code points 0 … 10FFFF *including* the surrogates (`chr(0xD800)` is a
  str): what the parser hands to `URIRef(…)` / `Literal(…)` is therefore a `PyStr = List Nat`; the input
  line is a `Str` (it was decoded from UTF-8, so it holds scalar values only).
  Exceptions are values: `Err.parse` = ParseError, `Err.value` = ValueError (`chr` of a number above
  10FFFF, not caught by `parse()`), `Err.overflow` = OverflowError (`chr` of a number above 7FFFFFFF, the C int), `Err.key` = KeyError (escape class and `_string_escape_map` out of step).
  `validate` is False (module constant): `uriquote` is the identity and `unquote` = `decodeUnicodeEscape`.
  `skolemize` is False (the default); blank nodes are reported by their label (the harness inverts the
  `bnode_context` dictionary the parser fills).
  Core-only imports (linked into the driver).
-/
namespace RV.C05.Py

abbrev PyStr := List Nat

inductive Err | parse | value | overflow | key
  deriving DecidableEq, Repr

/-- what the parser hands on: `URIRef(uri)`, the label of `_:label`, `Literal(lit, lang, dtype)` -/
inductive PTerm
  | iri (i : PyStr)
  | bnode (l : PyStr)
  | lit (lex : PyStr) (lang : Option PyStr) (dt : Option PyStr)
  deriving DecidableEq, Repr

def code (s : Str) : PyStr := s.map Char.toNat

def consOk (n : Nat) : Except Err PyStr → Except Err PyStr
  | .ok s => .ok (n :: s)
  | .error e => .error e

/-! ### compat.decodeUnicodeEscape -/

/-- the class `[tbnrf"'\\]` of `_turtle_escape_pattern` -/
def escClass (d : Char) : Bool :=
  d == 't' || d == 'b' || d == 'n' || d == 'r' || d == 'f' || d == '"' || d == '\'' || d == '\\'

/-- `[0-9A-Fa-f]{n}` at the start of the input, read as `int(…, 16)` (continuing from `acc`) -/
def hexN : Nat → Nat → Str → Option Nat
  | 0, acc, _ => some acc
  | _ + 1, _, [] => none
  | n + 1, acc, c :: cs => if isHex c then hexN n (acc * 16 + hexVal c) cs else none

/-- `_turtle_escape_pattern.sub(_turtle_escape_subber, s)`: one pass from the left; where the pattern
    matches, the match is replaced (`_string_escape_map[c]` or `chr(int(hex, 16))`) and skipped (`skip` = how
    many characters of a match are still to be passed over); where it does not, the character stays.
    A backslash that starts no escape therefore stays (with what follows it). -/
def decodeAux : Nat → Str → Except Err PyStr
  | _, [] => .ok []
  | skip + 1, _ :: cs => decodeAux skip cs
  | 0, c :: cs =>
    if c = '\\' then
      match cs with
      | [] => .ok [92]
      | d :: ds =>
        if escClass d then
          match Tables.stringEscapeMap.lookup d with
          | some e => consOk e.toNat (decodeAux 1 cs)
          | none => .error .key
        else if d = 'u' then
          match hexN 4 0 ds with
          | some v => consOk v (decodeAux 5 cs)
          | none => consOk 92 (decodeAux 0 cs)
        else if d = 'U' then
          match hexN 8 0 ds with
          | some v =>
            if v ≤ 0x10FFFF then consOk v (decodeAux 9 cs)
            else if v ≤ 0x7FFFFFFF then .error .value else .error .overflow
          | none => consOk 92 (decodeAux 0 cs)
        else consOk 92 (decodeAux 0 cs)
    else consOk c.toNat (decodeAux 0 cs)

/-- `unquote` (validate = False) = `decodeUnicodeEscape`: `if "\\" not in escaped: return escaped` first -/
def unquote (s : Str) : Except Err PyStr :=
  if s.contains '\\' then decodeAux 0 s else .ok (code s)

/-! ### the `eat`s -/

/-- `[^\x00-\x20"<>]` -/
def uriChar (c : Char) : Bool := !(decide (c.toNat ≤ 0x20) || c == '"' || c == '<' || c == '>')

/-- `r_uriref.match`: `<([^\x00-\x20"<>]*)>` → (group 1, rest of the line) -/
def matchUriref : Str → Option (Str × Str)
  | '<' :: cs =>
    match spanP uriChar cs with
    | (u, '>' :: rest) => some (u, rest)
    | _ => none
  | _ => none

/-- `_absolute`: `":" in uri` -/
def absolute (u : PyStr) : Except Err PyStr := if u.contains 58 then .ok u else .error .parse

/-- `uriquote(_absolute(unquote(raw)))` -/
def iriOf (raw : Str) : Except Err PyStr :=
  match unquote raw with
  | .ok u => absolute u
  | .error e => .error e

/-- `uriref()`: `if self.peek("<"): uri = self.eat(r_uriref).group(1); …; return URI(uri)`, else `False` -/
def uriref (line : Str) : Except Err (Option PTerm × Str) :=
  match line with
  | '<' :: _ =>
    match matchUriref line with
    | some (raw, rest) =>
      (match iriOf raw with
       | .ok u => .ok (some (.iri u), rest)
       | .error e => .error e)
    | none => .error .parse
  | _ => .ok (none, line)

/-- `[U0-9]` -/
def nodeidFirst (c : Char) : Bool := pnCharsU c || isDigit c

/-- `r_nodeid.match`: `_:([U0-9]([PN.]*[PN])?)`.  After the first character the engine takes the longest run of
    `[PN.]` and gives characters back until the one given up last is a PN_CHARS — i.e. it gives the trailing
    dots back (`unDot`); the first character is in the run and is never a dot. -/
def matchNodeid : Str → Option (Str × Str)
  | '_' :: ':' :: cs =>
    match cs with
    | c :: _ => if nodeidFirst c then some (unDot (spanP labelChar cs)) else none
    | [] => none
  | _ => none

/-- `nodeid()` (skolemize = False): `if self.peek("_"): bnode_id = self.eat(r_nodeid).group(1); …` -/
def nodeid (line : Str) : Except Err (Option PTerm × Str) :=
  match line with
  | '_' :: _ =>
    match matchNodeid line with
    | some (l, rest) => .ok (some (.bnode (code l)), rest)
    | none => .error .parse
  | _ => .ok (none, line)

/-- `[^"\\]*(?:\\.[^"\\]*)*"` (after the opening quote): the raw body and the rest; `.` is not LF -/
def litBody : Str → Option (Str × Str)
  | [] => none
  | c :: cs =>
    if c = '"' then some ([], cs)
    else if c = '\\' then
      match cs with
      | [] => none
      | d :: ds => if d = '\n' then none else (litBody ds).map (fun p => (c :: d :: p.1, p.2))
    else (litBody cs).map (fun p => (c :: p.1, p.2))

def consFst (c : Char) (p : Str × Str) : Str × Str := (c :: p.1, p.2)

/-- greedy `[a-zA-Z]+(?:-[a-zA-Z0-9]+)*` as an automaton: `first` = still in `[a-zA-Z]+`; a `-` is taken only
    when an `[a-zA-Z0-9]` follows it -/
def langScan (first : Bool) : Str → Str × Str
  | [] => ([], [])
  | c :: cs =>
    if c = '-' then
      match cs with
      | [] => ([], c :: cs)
      | d :: _ => if isAlnum d then consFst c (langScan false cs) else ([], c :: cs)
    else if (if first then isAlpha c else isAlnum c) then consFst c (langScan first cs)
    else ([], c :: cs)

/-- group 2 of `r_literal` (after the `@`) -/
def matchLang : Str → Option (Str × Str)
  | [] => none
  | c :: cs => if isAlpha c then some (langScan true (c :: cs)) else none

/-- the optional group `litinfo`: (lang, raw datatype, rest) -/
def litInfo (rest : Str) : Option Str × Option Str × Str :=
  match rest with
  | '@' :: r =>
    (match matchLang r with
     | some (t, r') => (some t, none, r')
     | none => (none, none, rest))
  | '^' :: '^' :: r =>
    (match matchUriref r with
     | some (u, r') => (none, some u, r')
     | none => (none, none, rest))
  | _ => (none, none, rest)

/-- `literal()`: `lit, lang, dtype = self.eat(r_literal).groups()`; `if dtype:` (a non-empty group)
    `dtype = URI(uriquote(_absolute(unquote(dtype))))`; `lit = unquote(lit)`; `Literal(lit, lang, dtype)` -/
def literal (line : Str) : Except Err (Option PTerm × Str) :=
  match line with
  | '"' :: cs =>
    match litBody cs with
    | none => .error .parse
    | some (raw, rest) =>
      match litInfo rest with
      | (lang, dtRaw, rest') =>
        let dt : Except Err (Option PyStr) :=
          match dtRaw with
          | none => .ok none
          | some [] => .ok none
          | some (c :: cs) => (match iriOf (c :: cs) with | .ok u => .ok (some u) | .error e => .error e)
        match dt with
        | .error e => .error e
        | .ok dt =>
          match unquote raw with
          | .error e => .error e
          | .ok lex => .ok (some (.lit lex (lang.map code) dt), rest')
  | _ => .ok (none, line)

/-- `subject()`: `self.uriref() or self.nodeid(…)`, `ParseError` when neither -/
def subject (line : Str) : Except Err (PTerm × Str) :=
  match uriref line with
  | .error e => .error e
  | .ok (some t, r) => .ok (t, r)
  | .ok (none, _) =>
    match nodeid line with
    | .error e => .error e
    | .ok (some t, r) => .ok (t, r)
    | .ok (none, _) => .error .parse

/-- `predicate()`: `self.uriref()`, `ParseError` when not -/
def predicate (line : Str) : Except Err (PTerm × Str) :=
  match uriref line with
  | .error e => .error e
  | .ok (some t, r) => .ok (t, r)
  | .ok (none, _) => .error .parse

/-- `object()`: `self.uriref() or self.nodeid(…) or self.literal()`, `ParseError` when the result `is False` -/
def object (line : Str) : Except Err (PTerm × Str) :=
  match uriref line with
  | .error e => .error e
  | .ok (some t, r) => .ok (t, r)
  | .ok (none, _) =>
    match nodeid line with
    | .error e => .error e
    | .ok (some t, r) => .ok (t, r)
    | .ok (none, _) =>
      match literal line with
      | .error e => .error e
      | .ok (some t, r) => .ok (t, r)
      | .ok (none, _) => .error .parse

/-- nquads.py: `context = self.uriref() or self.nodeid(bnode_context)` (may be `False`) -/
def context (line : Str) : Except Err (Option PTerm × Str) :=
  match uriref line with
  | .error e => .error e
  | .ok (some t, r) => .ok (some t, r)
  | .ok (none, _) => nodeid line

/-- `self.eat(r_tail)`: `[ \t]*\.[ \t]*(#.*)?` (`.` stops at LF) -/
def eatTail (line : Str) : Option Str :=
  match skipWs line with
  | '.' :: r =>
    (match skipWs r with
     | '#' :: r' => some (r'.dropWhile (fun c => c != '\n'))
     | r' => some r')
  | _ => none

/-- the end of both `parseline`s: `self.eat(r_tail)`; `if self.line: raise ParseError("Trailing garbage")` -/
def finish {α} (x : α) (line : Str) : Except Err (Option α) :=
  match eatTail line with
  | none => .error .parse
  | some [] => .ok (some x)
  | some (_ :: _) => .error .parse

abbrev PTriple := PTerm × PTerm × PTerm
abbrev PQuad := PTerm × PTerm × PTerm × Option PTerm

/-- `W3CNTriplesParser.parseline`: `.ok none` = nothing handed to the sink (empty line / comment),
    `.ok (some (s, p, o))` = `self.sink.triple(s, p, o)` -/
def ntParseline (line : Str) : Except Err (Option PTriple) :=
  if isBlank (skipWs line) then .ok none else
  match subject (skipWs line) with
  | .error e => .error e
  | .ok (s, l1) =>
    match predicate (skipWs l1) with
    | .error e => .error e
    | .ok (p, l2) =>
      match object (skipWs l2) with
      | .error e => .error e
      | .ok (o, l3) => finish (s, p, o) l3

/-- `NQuadsParser.parseline`: the triple goes to `get_context(context)` or to the default context -/
def nqParseline (line : Str) : Except Err (Option PQuad) :=
  if isBlank (skipWs line) then .ok none else
  match subject (skipWs line) with
  | .error e => .error e
  | .ok (s, l1) =>
    match predicate (skipWs l1) with
    | .error e => .error e
    | .ok (p, l2) =>
      match object (skipWs l2) with
      | .error e => .error e
      | .ok (o, l3) =>
        match context (skipWs l3) with
        | .error e => .error e
        | .ok (g, l4) => finish (s, p, o, g) l4

/-! ### `readline` / `parse`: the document level

    `readline` cuts the buffered input at `r_line = ([^\r\n]*)(?:\r\n|\r|\n)`; a last line without line end is
    parsed too (`buffer += "\n"`) unless it `isspace()` (then `readline` returns None and parsing ends).
    The 2048-character chunking only shows when CR LF straddles a chunk boundary (one extra empty line — a no-op). -/

/-- `str.isspace()` of a non-empty string, per character (CPython: bidirectional class WS/B/S or category Zs) -/
def pyIsSpace (c : Char) : Bool :=
  inR 9 13 c || inR 28 32 c || c.toNat == 0x85 || c.toNat == 0xA0 || c.toNat == 0x1680 || inR 0x2000 0x200A c
  || c.toNat == 0x2028 || c.toNat == 0x2029 || c.toNat == 0x202F || c.toNat == 0x205F || c.toNat == 0x3000

/-- the lines successive `readline()` calls return.  `cur` = the current line so far, reversed. -/
def pyLinesAux (cur : Str) : Str → List Str
  | [] => if cur.isEmpty || cur.all pyIsSpace then [] else [cur.reverse]
  | c :: cs =>
    if c = '\r' then
      match cs with
      | '\n' :: _ => pyLinesAux cur cs        -- CR LF is one line end: the LF that follows ends the line
      | _ => cur.reverse :: pyLinesAux [] cs
    else if c = '\n' then cur.reverse :: pyLinesAux [] cs
    else pyLinesAux (c :: cur) cs

def pyLines (doc : Str) : List Str := pyLinesAux [] doc

/-- `parse()`: every line through `parseline`; the first exception ends it (what was handed to the sink before stays) -/
def parseAll {α} (f : Str → Except Err (Option α)) : List Str → Except Err (List α)
  | [] => .ok []
  | l :: ls =>
    match f l with
    | .error e => .error e
    | .ok none => parseAll f ls
    | .ok (some t) =>
      match parseAll f ls with
      | .ok ts => .ok (t :: ts)
      | .error e => .error e

def ntParse (doc : Str) : Except Err (List PTriple) := parseAll ntParseline (pyLines doc)
def nqParse (doc : Str) : Except Err (List PQuad) := parseAll nqParseline (pyLines doc)

end RV.C05.Py
