import RV.C05.Lemmas
import RV.C05.StrLemmas
import RV.C05.IriLemmas
import RV.C05.Tables
import RV.C05.Utf8Lemmas
import RV.C05.NtParserLemmas
/-
  C05 — property statements (each first as `def Statement_… : Prop`, at full strength) and theorems.

  "Parsers read every legal spelling of a graph; N-Triples/N-Quads output is valid."

  The Lean artefacts of this property are *reference* ones (DESIGN §1): a strict reader of the
  W3C N-Triples / N-Quads grammar, a model of rdflib's N-Triples / N-Quads writer, and the
  codecs of the independent randomised writer.  What is proved:

  * rdflib's writer (as modelled: `_nt_row`, `_nq_row`, `_quoteLiteral`, `_quote_encode`) only
    produces lines / documents the strict reader accepts, with the same meaning — for every
    string content of every literal;
  * the randomised writer's tokens mean what they are meant to mean under the grammar, for
    every choice stream (four string forms, PN_LOCAL escapes, relative IRI references).
-/
namespace RV.C05

/-! ### rdflib's N-Triples / N-Quads output is valid and means the same graph -/

/-- `_quote_encode` (four chained `str.replace`) then the grammar's STRING_LITERAL_QUOTE reader:
    identity on every string — `unescape (escape s) = s` — whatever follows the closing quote. -/
def Statement_unescape_escape : Prop :=
  ∀ (s rest : Str), ∃ body, quoteEncode s = '"' :: body ∧
    readStr '"' false .norm (body ++ rest) = some (s, rest)

/-- every line `_nt_row` writes for a triple over grammar-legal IRIs, labels and language tags is
    accepted by the strict reader and means that triple -/
def Statement_nt_output_valid : Prop :=
  ∀ (t : Triple), legalTriple t = true → NT.parseLine (ntRow t) = some (some t)

/-- the same for `_nq_row`: the graph label is present iff the quad is not in the default graph -/
def Statement_nq_output_valid : Prop :=
  ∀ (q : Quad), legalQuad q = true → NQ.parseLine (nqRow q) = some (some q)

/-- whole documents: the concatenated rows (each ended by "\n") are split into exactly those lines —
    no literal content can break a line, because LF *and* CR are escaped — and mean the triples
    in order -/
def Statement_nt_doc_valid : Prop :=
  ∀ (ts : List Triple), (∀ t ∈ ts, legalTriple t = true) → NT.parseDoc (ntDoc ts) = some ts

theorem unescape_escape : Statement_unescape_escape := by
  intro s rest
  refine ⟨escBody s ++ ['"'], quoteEncode_eq s, ?_⟩
  have := readStr_escBody s rest
  simpa using this

theorem nt_output_valid : Statement_nt_output_valid := by
  intro t h
  obtain ⟨s, p, o⟩ := t
  exact parseLine_ntRow s p o h

theorem nq_output_valid : Statement_nq_output_valid := by
  intro q h
  obtain ⟨s, p, o, g⟩ := q
  exact parseLine_nqRow s p o g h

theorem nt_doc_valid : Statement_nt_doc_valid := parseDoc_ntDoc

/-- why CR must be escaped: a writer that escaped only `\`, LF and `"` would emit a raw CR, and
    the reader (CR is an EOL) would see two broken lines — the statement fails on this instance -/
def ntRowNoCr (lex : Str) : Str :=
  "<http://a/s> <http://a/p> \"".toList ++
    replaceChar '"' ['\\', '"'] (replaceChar '\n' ['\\', 'n'] (replaceChar '\\' ['\\', '\\'] lex)) ++
    "\" .".toList

theorem unescaped_cr_breaks_the_line : NT.parseDoc (ntRowNoCr ['a', '\r', 'b'] ++ ['\n']) = none := by
  decide

/-! ### tables regenerated from rdflib's source on every run (RV/C05/Tables.lean) -/

/-- `rdflib.compat._string_escape_map` (used by the N-Triples and Turtle escape decoders) is exactly the
    grammar's ECHAR table [153s] -/
def Statement_escape_table_is_echar : Prop :=
  (∀ p ∈ Tables.stringEscapeMap, echar p.1 = some p.2) ∧
  (∀ c ∈ ['t', 'b', 'n', 'r', 'f', '"', '\'', '\\'], (Tables.stringEscapeMap.lookup c) = echar c)

theorem escape_table_is_echar : Statement_escape_table_is_echar := by
  unfold Statement_escape_table_is_echar
  decide

/-! ### the randomised writer's string forms -/

/-- the four quotings of Turtle: `"…"`, `'…'`, `"""…"""`, `'''…'''` -/
def turtleForm (f : Form) : Prop := f.q = '"' ∨ f.q = '\''

/-- for every form, every choice stream and every string: the token the writer produces is read
    back by the grammar's reader as that string, and the reader stops exactly after the token -/
def Statement_unescape_escapeWith : Prop :=
  ∀ (f : Form) (ks : List Nat) (s rest : Str), turtleForm f →
    readStringToken f (stringToken f ks s ++ rest) = some (s, rest)

theorem unescape_escapeWith : Statement_unescape_escapeWith := by
  intro f ks s rest hf
  exact readStringToken_stringToken f hf ks s rest

/-- non-vacuity: a long string whose content has quotes, a backslash and line ends, under a
    non-trivial choice stream, and the token really is what one expects -/
example : stringToken ⟨'"', true⟩ [0, 0, 0, 1, 2, 7] ['a', '"', '"', '\n', 'é', '"'] =
    "\"\"\"a\"\"\\n\\u00e9\\U00000022\"\"\"".toList := by decide

example : readStringToken ⟨'\'', true⟩ ("'''it''s\\''''".toList ++ [' ', '.']) =
    some ("it''s'".toList, [' ', '.']) := by decide

/-! ### PN_LOCAL escapes -/

/-- every expressible local name, under every choice stream, un-escapes to itself -/
def Statement_pnlocal_roundtrip : Prop :=
  ∀ (ks : List Nat) (s : Str), pnExpressible s = true → pnLocalUnesc (pnLocalEsc ks s) = s

theorem pnlocal_roundtrip : Statement_pnlocal_roundtrip := by
  intro ks s h
  exact pnLocal_roundtrip_aux s true ks h

example : pnLocalEsc [0, 1, 0, 0] "a.b~".toList = "a\\.b\\~".toList := by decide
example : pnExpressible "a b".toList = false := by decide

/-! ### relative IRI references (RFC 3986 §5.2) -/

/-- For a base with authority and an absolute path, and a target IRI, both without dot segments:
    whichever relative form the choice `k` selects (absolute, network-path `//…`, absolute-path `/…`,
    path-relative with as many `../` as needed, same-document `?…`/`#…`), resolving it against the
    base gives the target back.  (`okBase`, `okTarget` are decidable; the generator satisfies them.) -/
def Statement_resolve_relativize : Prop :=
  ∀ (base t : Ref) (k : Nat), okBase base = true → okTarget t = true →
    resolve base (relativize base t k) = t

theorem resolve_relativize : Statement_resolve_relativize := resolve_relativize_thm

/-- non-vacuity, at string level (parseRef / showRef are executed, not covered by the theorem) -/
example : okBase (parseRef "http://example.org/base/doc".toList) = true ∧
    okTarget (parseRef "http://example.org/other/x?q#f".toList) = true := by decide

example : showRef (relativize (parseRef "http://example.org/base/sub/doc".toList)
    (parseRef "http://example.org/other/x?q#f".toList) 3) = "../../other/x?q#f".toList := by decide

/-- what the reference says on the witness of finding C05-F8 (rdflib's `join` before the fix gave
    `…/base/?q=1`, `#a:b` unresolved, and kept the dot segments) -/
example : showRef (resolve (parseRef "http://example.org/base/doc?x=1#f".toList) (parseRef "?q=1".toList))
    = "http://example.org/base/doc?q=1".toList := by decide
example : showRef (resolve (parseRef "http://example.org/base/doc?x=1#f".toList) (parseRef "#a:b".toList))
    = "http://example.org/base/doc?x=1#a:b".toList := by decide
example : showRef (resolve (parseRef "http://example.org/base/doc".toList) (parseRef "c/./d/../e".toList))
    = "http://example.org/base/c/e".toList := by decide
example : showRef (resolve (parseRef "http://example.org/base/doc".toList) (parseRef "/../g".toList))
    = "http://example.org/g".toList := by decide

/-! ### input sources: the same characters reach the reader on every route (RV/C05/Utf8.lean) -/

open Utf8 in
/-- UTF-8 as written by `str.encode`, read by the strict decoder the input sources use: identity on scalar values -/
def Statement_utf8_decode_encode : Prop :=
  ∀ (cps : List Nat), (∀ c ∈ cps, Utf8.scalar c = true) → Utf8.decode (Utf8.encode cps) = some cps

/-- the decoder accepts only canonical encodings of scalar values (no overlong forms, no surrogates, nothing above
    10FFFF, no truncated or stray bytes): whatever it accepts is exactly what `encode` writes for the result -/
def Statement_utf8_encode_decode : Prop :=
  ∀ (bs cps : List Nat), Utf8.decode bs = some cps →
    Utf8.encode cps = bs ∧ ∀ c ∈ cps, Utf8.scalar c = true

/-- Whichever way the document is handed over — the str itself, its UTF-8 bytes as data=, or a byte stream
    (file=, path, BytesIO) — the reader of each syntax receives the same code points: the document itself for
    N-Triples / N-Quads (a leading U+FEFF included), the document minus one leading U+FEFF for Turtle / TriG. -/
def Statement_input_source_equiv : Prop :=
  ∀ (sx : Utf8.Syntax) (r : Utf8.Route) (doc : List Nat), (∀ c ∈ doc, Utf8.scalar c = true) →
    Utf8.handed sx r doc = some (if Utf8.turtleFamily sx then Utf8.skipBom doc else doc)

theorem utf8_decode_encode : Statement_utf8_decode_encode := Utf8.decode_encode

theorem utf8_encode_decode : Statement_utf8_encode_decode := Utf8.encode_decode

theorem input_source_equiv : Statement_input_source_equiv := by
  intro sx r doc h
  have hd := Utf8.decode_encode doc h
  cases r <;> cases hsx : Utf8.turtleFamily sx <;> simp [Utf8.handed, hd, hsx]

/-- finding C05-F14: before the fix the same bytes (BOM, then `<`) reached the Turtle reader with the mark when given
    as data=bytes and without it when given as file= -/
theorem bom_routes_differed_before_F14 :
    Utf8.handedBeforeF14 .turtle .bytes [0xFEFF, 0x3C] ≠ Utf8.handedBeforeF14 .turtle .file [0xFEFF, 0x3C] := by
  decide

/-- non-vacuity / boundaries: the encodings of U+007F, U+0080, U+07FF, U+0800, U+FFFF, U+10000, U+10FFFF, and what
    the decoder refuses (overlong C0 80, E0 80 80, surrogate ED A0 80, F4 90 80 80 > 10FFFF, truncation, stray 80) -/
example : Utf8.encode [0x7F, 0x80, 0x7FF, 0x800, 0xFFFF, 0x10000, 0x10FFFF] =
    [0x7F, 0xC2, 0x80, 0xDF, 0xBF, 0xE0, 0xA0, 0x80, 0xEF, 0xBF, 0xBF, 0xF0, 0x90, 0x80, 0x80, 0xF4, 0x8F, 0xBF, 0xBF] := by
  decide
example : [[0xC0, 0x80], [0xE0, 0x80, 0x80], [0xED, 0xA0, 0x80], [0xF4, 0x90, 0x80, 0x80], [0xE2, 0x82], [0x80],
    [0xF0, 0x80, 0x80, 0x80], [0xC1, 0xBF], [0xF5, 0x80, 0x80, 0x80], [256]].all (fun bs => Utf8.decode bs == none) = true := by
  decide
example : Utf8.handed .nt .file [0xFEFF, 0x3C] = some [0xFEFF, 0x3C] ∧
    Utf8.handed .trig .bytes [0xFEFF, 0x3C] = some [0x3C] := by decide

/-! ### round g: rdflib's N-Triples / N-Quads PARSER (RV/C05/NtParser.lean = ntriples.py `W3CNTriplesParser.parseline`,
    `subject` `predicate` `object` `uriref` `nodeid` `literal` `eat` `peek`, the regular expressions `r_wspace r_uriref
    r_nodeid r_literal r_tail`, `unquote`/`uriquote`, compat.py `decodeUnicodeEscape`; nquads.py `parseline`) -/

/-- Every line the strict reader of the W3C N-Triples grammar accepts — as a triple, or as an empty / comment line — the
    model of rdflib's `parseline` reads the same way: same triple (IRIs and strings unescaped to the same code points,
    same blank-node label, same language tag / datatype), nothing raised.  (`'\n' ∉ line`: `readline` never returns a
    line containing LF, and `.` in `r_tail`'s comment does not match one.) -/
def Statement_ntparser_refines_reference : Prop :=
  ∀ (line : Str) (r : Option Triple), '\n' ∉ line → NT.parseLine line = some r →
    Py.ntParseline line = .ok (r.map codeTriple)

/-- the same for N-Quads: graph label read as the same term, absent iff the statement has none -/
def Statement_nqparser_refines_reference : Prop :=
  ∀ (line : Str) (r : Option Quad), '\n' ∉ line → NQ.parseLine line = some r →
    Py.nqParseline line = .ok (r.map codeQuad)

theorem ntparser_refines_reference : Statement_ntparser_refines_reference :=
  fun line r hnl h => ntParseline_refines line r hnl h

theorem nqparser_refines_reference : Statement_nqparser_refines_reference :=
  fun line r hnl h => nqParseline_refines line r hnl h

/-- Whole documents, no side condition: whatever document the strict reader accepts ([1] ntriplesDoc, lines cut at every
    CR / LF [7]), the model of `W3CNTriplesParser.parse` — `readline` cutting at CR LF | CR | LF, parsing a last line without
    line end, dropping one that is white space only, then `parseline` per line — hands the same triples to the sink, in order. -/
def Statement_ntparser_doc_refines_reference : Prop :=
  ∀ (doc : Str) (ts : List Triple), NT.parseDoc doc = some ts → Py.ntParse doc = .ok (ts.map codeTriple)

def Statement_nqparser_doc_refines_reference : Prop :=
  ∀ (doc : Str) (qs : List Quad), NQ.parseDoc doc = some qs → Py.nqParse doc = .ok (qs.map codeQuad)

theorem ntparser_doc_refines_reference : Statement_ntparser_doc_refines_reference := ntParse_refines

theorem nqparser_doc_refines_reference : Statement_nqparser_doc_refines_reference := nqParse_refines

/-- writer and parser of rdflib, both as modelled, composed: the document `_nt_row` writes for any list of legal triples
    (every literal content) is read back by `parse()` as exactly those triples -/
def Statement_nt_write_parse_roundtrip : Prop :=
  ∀ (ts : List Triple), (∀ t ∈ ts, legalTriple t = true) → Py.ntParse (ntDoc ts) = .ok (ts.map codeTriple)

theorem nt_write_parse_roundtrip : Statement_nt_write_parse_roundtrip :=
  fun ts h => ntParse_refines (ntDoc ts) ts (nt_doc_valid ts h)

/-- document-level leniency: a last line without line end that `str.isspace()` (here U+00A0, U+3000) is dropped by
    `readline`; the grammar has no such line.  CR LF, by contrast, is read alike (one line end / an empty line in between). -/
def Statement_ntparser_doc_lenient : Prop :=
  NT.parseDoc ("<a:s> <a:p> <a:o> .\r\n".toList ++ [Char.ofNat 0xA0, Char.ofNat 0x3000]) = none ∧
  Py.ntParse ("<a:s> <a:p> <a:o> .\r\n".toList ++ [Char.ofNat 0xA0, Char.ofNat 0x3000]) =
    .ok [(.iri (Py.code "a:s".toList), .iri (Py.code "a:p".toList), .iri (Py.code "a:o".toList))] ∧
  Py.ntParse ("<a:s> <a:p> <a:o> .\r\n".toList ++ [Char.ofNat 0xA0, '\n']) = .error .parse

theorem ntparser_doc_lenient : Statement_ntparser_doc_lenient :=
  ⟨by decide +kernel, by decide +kernel, by decide +kernel⟩

/-- non-vacuity: one legal line with UCHAR in the IRI, ECHAR + `\u` + `\U` in the string, a language tag with subtags,
    a dotted blank-node label as graph name, no white space where none is needed, and a comment -/
example :
    NQ.parseLine "<http://a/\\u00e9>\t<a:p>\"x\\n\\\"\\u00E9\\U0001F600\"@en-Latn-1 _:b.1.# c".toList =
      some (some (.iri "http://a/é".toList, .iri "a:p".toList, .lang "x\n\"é😀".toList "en-Latn-1".toList,
        some (.bnode "b.1".toList))) ∧
    Py.nqParseline "<http://a/\\u00e9>\t<a:p>\"x\\n\\\"\\u00E9\\U0001F600\"@en-Latn-1 _:b.1.# c".toList =
      .ok (some (.iri (Py.code "http://a/é".toList), .iri (Py.code "a:p".toList),
        .lit (Py.code "x\n\"é😀".toList) (some (Py.code "en-Latn-1".toList)) none,
        some (.bnode (Py.code "b.1".toList)))) := ⟨by decide +kernel, by decide +kernel⟩

/-- What rdflib's parser accepts BEYOND the grammar (the strict reader rejects each of these lines, the model of
    `parseline` — like the code — hands a triple to the sink).  All of it is token-level:
    1 IRIREF may contain `{ } | ^ backquote` raw (the regular expression only excludes #x00-#x20 `< > "`);
    2 ECHAR escapes are decoded inside IRIs too (`\n` gives an IRI containing a line feed);
    3 a backslash that starts no ECHAR / UCHAR stays, with what follows it (`\x`, `\u12`, a last `\` before `>`), in IRIs
      and in strings;
    4 "absolute" means "contains a colon" (`<:a>`), not "starts with a scheme";
    5 `\uD800`: a lone surrogate is accepted (the term then is no RDF term);
    6 the empty datatype `^^<>` is dropped: a plain literal.
    The line structure (white space, final dot, comment), blank-node labels and language tags are exactly the grammar's. -/
def lenientForms : List (String × Py.PTriple) :=
  let s := Py.PTerm.iri (Py.code "a:s".toList)
  let p := Py.PTerm.iri (Py.code "a:p".toList)
  [ ("<a:s> <a:p> <http://a/{b}|^`> .", (s, p, .iri (Py.code "http://a/{b}|^`".toList))),
    ("<a:s> <a:p> <http://a/\\n\\t> .", (s, p, .iri (Py.code "http://a/\n\t".toList))),
    ("<a:s> <a:p> <http://a/\\x\\u12\\> .", (s, p, .iri (Py.code "http://a/\\x\\u12\\".toList))),
    ("<a:s> <a:p> \"\\x\\U0000004\\ \" .", (s, p, .lit (Py.code "\\x\\U0000004\\ ".toList) none none)),
    ("<a:s> <a:p> <:a> .", (s, p, .iri (Py.code ":a".toList))),
    ("<a:s> <a:p> \"\\uD800\" .", (s, p, .lit [0xD800] none none)),
    ("<a:s> <a:p> \"x\"^^<> .", (s, p, .lit (Py.code "x".toList) none none)) ]

/-- class 1 in general: the IRIREF token rdflib's parser eats is exactly a run of characters other than #x00-#x20 `<` `>` `"`
    up to the next `>` — [8] IRIREF without its exclusion of `{ } | ^ backquote` and with the backslash as an ordinary character
    (what `unquote` then makes of it is `Py.decodeAux`) -/
def Statement_ntparser_iriref_token : Prop :=
  ∀ (cs u rest : Str), Py.matchUriref ('<' :: cs) = some (u, rest) ↔ (u.all Py.uriChar = true ∧ cs = u ++ '>' :: rest)

theorem ntparser_iriref_token : Statement_ntparser_iriref_token := matchUriref_iff

def Statement_ntparser_lenient_forms : Prop :=
  ∀ e ∈ lenientForms, NT.parseLine e.1.toList = none ∧ Py.ntParseline e.1.toList = .ok (some e.2)

theorem ntparser_lenient_forms : Statement_ntparser_lenient_forms := by
  intro e he
  have h : (lenientForms.all fun e =>
      decide (NT.parseLine e.1.toList = none) && decide (Py.ntParseline e.1.toList = .ok (some e.2))) = true := by decide +kernel
  simpa using List.all_eq_true.mp h e he

/-- … and what it refuses in another way than by `ParseError`: `chr()` of a `\U` escape above 10FFFF raises ValueError,
    above 7FFFFFFF OverflowError — neither is caught by `parse()`, which wraps only `ParseError` — while a malformed
    line proper raises `ParseError` (here: relative IRI, dangling `@`, a second dot after `_:o.` = label `o` + the final dot) -/
def Statement_ntparser_error_kinds : Prop :=
  Py.ntParseline "<a:s> <a:p> \"\\U00110000\" .".toList = .error .value ∧
  Py.ntParseline "<a:s> <a:p> <http://a/\\UFFFFFFFF> .".toList = .error .overflow ∧
  Py.ntParseline "<a:s> <a:p> <rel> .".toList = .error .parse ∧
  Py.ntParseline "<a:s> <a:p> \"x\"@ .".toList = .error .parse ∧
  Py.ntParseline "<a:s> <a:p> _:o. .".toList = .error .parse ∧
  Py.ntParseline "<a:s> _:p <a:o> .".toList = .error .parse

theorem ntparser_error_kinds : Statement_ntparser_error_kinds :=
  ⟨by decide +kernel, by decide +kernel, by decide +kernel, by decide +kernel, by decide +kernel, by decide +kernel⟩

end RV.C05
