import RV.C05.Lemmas
namespace RV.C05
theorem placeholder : True := trivial
end RV.C05
