/-
  C05 — reference artefacts (DESIGN §1 "two kinds of model": the property itself names
  an external oracle, the W3C grammars).

  Part A  strict reader for RDF 1.1 N-Triples / N-Quads, transcribed production by
          production (numbers in brackets are the production numbers of the W3C
          recommendations "RDF 1.1 N-Triples" §7 and "RDF 1.1 N-Quads" §7).
  Part B  model of rdflib's writer `_nt_row` / `_nq_row` / `_quoteLiteral` /
          `_quote_encode` (rdflib/plugins/serializers/nt.py, nquads.py), as coded.
  Part C  Turtle string forms: the four quotings with a writer driven by an explicit
          choice stream (`escapeWith`) and the grammar's reader (`readStr`).
  Part D  PN_LOCAL escapes (`pnLocalEsc` / `pnLocalUnesc`).
  Part E  RFC 3986 §5.2 reference resolution on parsed references (`resolve`) and a
          choice-driven `relativize`.

  `Str := List Char`.  A Lean `Char` is a Unicode scalar value: lone surrogates are
  outside every quantifier here (they cannot be encoded as UTF-8 either).
  Core-only imports (linked into the driver).
-/
namespace RV.C05

abbrev Str := List Char

/-! ## Character classes -/

def inR (lo hi : Nat) (c : Char) : Bool := decide (lo ≤ c.toNat) && decide (c.toNat ≤ hi)

def isDigit (c : Char) : Bool := inR 48 57 c
def isUpper (c : Char) : Bool := inR 65 90 c
def isLower (c : Char) : Bool := inR 97 122 c
def isAlpha (c : Char) : Bool := isUpper c || isLower c
def isAlnum (c : Char) : Bool := isAlpha c || isDigit c
/-- HEX ::= [0-9] | [A-F] | [a-f] -/
def isHex (c : Char) : Bool := isDigit c || inR 65 70 c || inR 97 102 c

def hexVal (c : Char) : Nat :=
  if isDigit c then c.toNat - 48
  else if inR 65 70 c then c.toNat - 55
  else c.toNat - 87

/-- code point → scalar value; surrogates and > 10FFFF are rejected (never defaulted) -/
def ofCode (n : Nat) : Option Char :=
  if h : n.isValidChar then some (Char.ofNatAux n h) else none

/-- [157s] PN_CHARS_BASE -/
def pnCharsBase (c : Char) : Bool :=
  isAlpha c || inR 0xC0 0xD6 c || inR 0xD8 0xF6 c || inR 0xF8 0x2FF c || inR 0x370 0x37D c
  || inR 0x37F 0x1FFF c || inR 0x200C 0x200D c || inR 0x2070 0x218F c || inR 0x2C00 0x2FEF c
  || inR 0x3001 0xD7FF c || inR 0xF900 0xFDCF c || inR 0xFDF0 0xFFFD c || inR 0x10000 0xEFFFF c

/-- [158s] PN_CHARS_U of N-Triples / N-Quads ::= PN_CHARS_BASE | '_' | ':' -/
def pnCharsU (c : Char) : Bool := pnCharsBase c || c == '_' || c == ':'

/-- [160s] PN_CHARS ::= PN_CHARS_U | '-' | [0-9] | #x00B7 | [#x0300-#x036F] | [#x203F-#x2040] -/
def pnChars (c : Char) : Bool :=
  pnCharsU c || c == '-' || isDigit c || c.toNat == 0xB7 || inR 0x300 0x36F c || inR 0x203F 0x2040 c

/-- a character that may appear raw inside IRIREF: [^#x00-#x20<>"{}|^`\] -/
def iriChar (c : Char) : Bool :=
  !(decide (c.toNat ≤ 0x20) || c == '<' || c == '>' || c == '"' || c == '{' || c == '}'
    || c == '|' || c == '^' || c == '`' || c == '\\')

/-- [153s] ECHAR ::= '\' [tbnrf"'\]  (the character after the backslash ↦ its meaning) -/
def echar (c : Char) : Option Char :=
  if c = 't' then some '\t' else if c = 'b' then some (Char.ofNat 8) else if c = 'n' then some '\n'
  else if c = 'r' then some '\r' else if c = 'f' then some (Char.ofNat 12) else if c = '"' then some '"'
  else if c = '\'' then some '\'' else if c = '\\' then some '\\' else none

/-! ## Part A — the strict reader -/

/-- reader state inside IRIREF / a string: normal, just after `\`, or inside a UCHAR with
    `n` hex digits still to come and `acc` the value read so far -/
inductive St
  | norm
  | esc
  | hex (n : Nat) (acc : Nat)
  deriving Repr

def push (c : Char) (r : Option (Str × Str)) : Option (Str × Str) :=
  r.map (fun p => (c :: p.1, p.2))

/-- [8] IRIREF ::= '<' ([^#x00-#x20<>"{}|^`\] | UCHAR)* '>'   (after the '<').
    Returns the IRI (UCHARs decoded) and the rest of the input. -/
def readIri : St → Str → Option (Str × Str)
  | _, [] => none
  | .norm, c :: cs =>
      if c = '>' then some ([], cs)
      else if c = '\\' then readIri .esc cs
      else if iriChar c then push c (readIri .norm cs)
      else none
  | .esc, c :: cs =>
      if c = 'u' then readIri (.hex 4 0) cs
      else if c = 'U' then readIri (.hex 8 0) cs
      else none
  | .hex n acc, c :: cs =>
      if isHex c then
        if n ≤ 1 then
          match ofCode (acc * 16 + hexVal c) with
          | some ch => push ch (readIri .norm cs)
          | none => none
        else readIri (.hex (n - 1) (acc * 16 + hexVal c)) cs
      else none

/-- String bodies (after the opening delimiter).
    `long = false`: [9]/[22] STRING_LITERAL_QUOTE ::= '"' ([^#x22#x5C#xA#xD] | ECHAR | UCHAR)* '"'
                    [23] STRING_LITERAL_SINGLE_QUOTE (q = `'`)
    `long = true` : [24]/[25] STRING_LITERAL_LONG_(SINGLE_)QUOTE ::=
                    qqq ((q | qq)? ([^q\] | ECHAR | UCHAR))* qqq — the body ends at the first qqq. -/
def readStr (q : Char) (long : Bool) : St → Str → Option (Str × Str)
  | _, [] => none
  | .norm, c :: cs =>
      if c = q then
        if long then
          match cs with
          | c2 :: c3 :: rest =>
              if c2 = q ∧ c3 = q then some ([], rest) else push q (readStr q long .norm cs)
          | _ => none
        else some ([], cs)
      else if c = '\\' then readStr q long .esc cs
      else if !long && (c == '\n' || c == '\r') then none
      else push c (readStr q long .norm cs)
  | .esc, c :: cs =>
      if c = 'u' then readStr q long (.hex 4 0) cs
      else if c = 'U' then readStr q long (.hex 8 0) cs
      else
        match echar c with
        | some e => push e (readStr q long .norm cs)
        | none => none
  | .hex n acc, c :: cs =>
      if isHex c then
        if n ≤ 1 then
          match ofCode (acc * 16 + hexVal c) with
          | some ch => push ch (readStr q long .norm cs)
          | none => none
        else readStr q long (.hex (n - 1) (acc * 16 + hexVal c)) cs
      else none

/-- RFC 3986 scheme: ALPHA *( ALPHA / DIGIT / "+" / "-" / "." ) followed by ':' —
    N-Triples IRIs must be absolute (RDF 1.1 N-Triples §2.2 "Relative IRIs are not permitted"). -/
def schemeChar (c : Char) : Bool := isAlnum c || c == '+' || c == '-' || c == '.'

def hasSchemeAux : Str → Bool
  | [] => false
  | c :: cs => if c = ':' then true else if schemeChar c then hasSchemeAux cs else false

def hasScheme : Str → Bool
  | [] => false
  | c :: cs => isAlpha c && hasSchemeAux cs

/-- [144s] LANGTAG ::= '@' [a-zA-Z]+ ('-' [a-zA-Z0-9]+)*   (validation of the text after '@'):
    `first` = still in the first subtag (letters only), `n` = length of the current subtag -/
def legalLangAux (first : Bool) : Nat → Str → Bool
  | n, [] => decide (0 < n)
  | n, c :: cs =>
      if c = '-' then decide (0 < n) && legalLangAux false 0 cs
      else if first then isAlpha c && legalLangAux true (n + 1) cs
      else isAlnum c && legalLangAux false (n + 1) cs

def legalLang (s : Str) : Bool := legalLangAux true 0 s

def langChar (c : Char) : Bool := isAlnum c || c == '-'

/-- [141s] BLANK_NODE_LABEL ::= '_:' (PN_CHARS_U | [0-9]) ((PN_CHARS | '.')* PN_CHARS)?
    (validation of the text after '_:') -/
def labelChar (c : Char) : Bool := pnChars c || c == '.'

def legalLabel : Str → Bool
  | [] => false
  | c :: cs => (pnCharsU c || isDigit c) && cs.all labelChar && (c :: cs).getLast? != some '.'

/-- longest match of a token made of `p`-characters -/
def spanP (p : Char → Bool) : Str → Str × Str
  | [] => ([], [])
  | c :: cs => if p c then ((spanP p cs).1.cons c, (spanP p cs).2) else ([], c :: cs)

/-- give trailing dots back to the input (a label cannot end in '.') -/
def unDot : Str × Str → Str × Str
  | (tok, rest) =>
    let dots := tok.reverse.takeWhile (· == '.')
    ((tok.reverse.dropWhile (· == '.')).reverse, dots ++ rest)

inductive Term
  | iri (i : Str)
  | bnode (l : Str)
  | plain (lex : Str)                 -- "lex"
  | lang (lex : Str) (tag : Str)      -- "lex"@tag
  | typed (lex : Str) (dt : Str)      -- "lex"^^<dt>
  deriving DecidableEq, Repr

abbrev Triple := Term × Term × Term
/-- graph label: `none` = default graph -/
abbrev Quad := Term × Term × Term × Option Term

def readIriTerm (cs : Str) : Option (Term × Str) :=
  match readIri .norm cs with
  | some (i, rest) => if hasScheme i then some (.iri i, rest) else none
  | none => none

def readLabelTerm (cs : Str) : Option (Term × Str) :=
  match unDot (spanP labelChar cs) with
  | (l, rest) => if legalLabel l then some (.bnode l, rest) else none

/-- [6] literal ::= STRING_LITERAL_QUOTE ('^^' IRIREF | LANGTAG)?   (after the opening '"') -/
def readLiteral (cs : Str) : Option (Term × Str) :=
  match readStr '"' false .norm cs with
  | none => none
  | some (lex, rest) =>
    match rest with
    | '^' :: '^' :: '<' :: r =>
        (match readIri .norm r with
         | some (dt, r') => if hasScheme dt then some (.typed lex dt, r') else none
         | none => none)
    | '@' :: r =>
        (match spanP langChar r with
         | (tag, r') => if legalLang tag then some (.lang lex tag, r') else none)
    | _ => some (.plain lex, rest)

inductive Pos | subj | pred | obj | graph
  deriving DecidableEq

/-- [3] subject ::= IRIREF | BLANK_NODE_LABEL   [4] predicate ::= IRIREF
    [5] object ::= IRIREF | BLANK_NODE_LABEL | literal   N-Quads [6] graphLabel ::= IRIREF | BLANK_NODE_LABEL -/
def readTerm (pos : Pos) : Str → Option (Term × Str)
  | '<' :: cs => readIriTerm cs
  | '_' :: ':' :: cs => if pos = .pred then none else readLabelTerm cs
  | '"' :: cs => if pos = .obj then readLiteral cs else none
  | _ => none

/-- white space between terminals: #x20 | #x9 -/
def skipWs : Str → Str
  | [] => []
  | c :: cs => if c = ' ' ∨ c = '\t' then skipWs cs else c :: cs

/-- after the final '.': optional white space and an optional comment to the end of the line -/
def lineEnd (cs : Str) : Bool :=
  match skipWs cs with
  | [] => true
  | c :: _ => c = '#'

/-- an empty line or a comment line (after leading white space) -/
def isBlank : Str → Bool
  | [] => true
  | c :: _ => c == '#'

/-- the final '.', then optional white space and comment -/
def endOfStatement (r : Str) : Bool :=
  match skipWs r with
  | '.' :: r' => lineEnd r'
  | _ => false

/-- [2] triple ::= subject predicate object '.'   on one line (no EOL inside);
    `some none` = empty / comment line. -/
def NT.parseLine (line : Str) : Option (Option Triple) :=
  if isBlank (skipWs line) then some none else
  match readTerm .subj (skipWs line) with
  | none => none
  | some (s, r1) =>
    match readTerm .pred (skipWs r1) with
    | none => none
    | some (p, r2) =>
      match readTerm .obj (skipWs r2) with
      | none => none
      | some (o, r3) => if endOfStatement r3 then some (some (s, p, o)) else none

/-- N-Quads [2] statement ::= subject predicate object graphLabel? '.' -/
def NQ.parseLine (line : Str) : Option (Option Quad) :=
  if isBlank (skipWs line) then some none else
  match readTerm .subj (skipWs line) with
  | none => none
  | some (s, r1) =>
    match readTerm .pred (skipWs r1) with
    | none => none
    | some (p, r2) =>
      match readTerm .obj (skipWs r2) with
      | none => none
      | some (o, r3) =>
        if endOfStatement r3 then some (some (s, p, o, none)) else
        match readTerm .graph (skipWs r3) with
        | none => none
        | some (g, r4) => if endOfStatement r4 then some (some (s, p, o, some g)) else none

/-- [7] EOL ::= [#xD#xA]+ : cut the document into lines (empty lines are kept, they parse to `none`) -/
def splitLines : Str → List Str
  | [] => [[]]
  | c :: cs =>
    if c = '\n' ∨ c = '\r' then [] :: splitLines cs
    else
      match splitLines cs with
      | [] => [[c]]
      | l :: ls => (c :: l) :: ls

def collect {α} (f : Str → Option (Option α)) : List Str → Option (List α)
  | [] => some []
  | l :: ls =>
    match f l with
    | none => none
    | some none => collect f ls
    | some (some t) => (collect f ls).map (t :: ·)

/-- [1] ntriplesDoc ::= triple? (EOL triple)* EOL? -/
def NT.parseDoc (doc : Str) : Option (List Triple) := collect NT.parseLine (splitLines doc)
def NQ.parseDoc (doc : Str) : Option (List Quad) := collect NQ.parseLine (splitLines doc)

/-! ## Part B — model of rdflib's N-Triples / N-Quads writer -/

/-- Python `s.replace(c, r)` for a one-character `c` -/
def replaceChar (c : Char) (r : Str) : Str → Str
  | [] => []
  | x :: xs => if x = c then r ++ replaceChar c r xs else x :: replaceChar c r xs

/-- `_quote_encode`: `'"%s"' % l.replace("\\","\\\\").replace("\n","\\n").replace('"','\\"').replace("\r","\\r")` -/
def quoteEncode (l : Str) : Str :=
  '"' :: (replaceChar '\r' ['\\', 'r'] (replaceChar '"' ['\\', '"']
          (replaceChar '\n' ['\\', 'n'] (replaceChar '\\' ['\\', '\\'] l)))) ++ ['"']

/-- the same, one character at a time (proved equal in Lemmas) -/
def escChar (c : Char) : Str :=
  if c = '\\' then ['\\', '\\'] else if c = '\n' then ['\\', 'n']
  else if c = '"' then ['\\', '"'] else if c = '\r' then ['\\', 'r'] else [c]

def escBody : Str → Str
  | [] => []
  | c :: cs => escChar c ++ escBody cs

/-- `URIRef.n3()` = `<%s>`, `BNode.n3()` = `_:%s`, `_quoteLiteral` -/
def termN3 : Term → Str
  | .iri i => '<' :: i ++ ['>']
  | .bnode l => '_' :: ':' :: l
  | .plain lex => quoteEncode lex
  | .lang lex tag => quoteEncode lex ++ '@' :: tag
  | .typed lex dt => quoteEncode lex ++ '^' :: '^' :: '<' :: dt ++ ['>']

/-- `_nt_row` without the final "\n": `"%s %s %s ." % …` -/
def ntRow (t : Triple) : Str :=
  termN3 t.1 ++ ' ' :: termN3 t.2.1 ++ ' ' :: termN3 t.2.2 ++ [' ', '.']

/-- `_nq_row` without the final "\n": `"%s %s %s %s ." % (…, graph_name)`, graph_name = "" for the default graph -/
def nqRow (q : Quad) : Str :=
  termN3 q.1 ++ ' ' :: termN3 q.2.1 ++ ' ' :: termN3 q.2.2.1 ++ ' ' ::
    (match q.2.2.2 with | some g => termN3 g | none => []) ++ [' ', '.']

def ntDoc : List Triple → Str
  | [] => []
  | t :: ts => ntRow t ++ '\n' :: ntDoc ts

/-- legality of what the writer is given (the theorem's hypothesis): grammar-legal absolute IRIs,
    labels and language tags; subject/predicate/graph kinds as RDF requires -/
def legalIri (i : Str) : Bool := i.all iriChar && hasScheme i

def legalTerm : Term → Bool
  | .iri i => legalIri i
  | .bnode l => legalLabel l
  | .plain _ => true
  | .lang _ tag => legalLang tag
  | .typed _ dt => legalIri dt

def isIri : Term → Bool | .iri _ => true | _ => false
def isNode : Term → Bool | .iri _ => true | .bnode _ => true | _ => false

def legalTriple (t : Triple) : Bool :=
  isNode t.1 && legalTerm t.1 && isIri t.2.1 && legalTerm t.2.1 && legalTerm t.2.2

def legalQuad (q : Quad) : Bool :=
  legalTriple (q.1, q.2.1, q.2.2.1) &&
    (match q.2.2.2 with | none => true | some g => isNode g && legalTerm g)

/-! ## Part C — Turtle string forms with a choice stream -/

/-- the four quotings: delimiter character and long flag -/
structure Form where
  q : Char
  long : Bool
  deriving Repr

def hexDigit (upper : Bool) (n : Nat) : Char :=
  if n < 10 then Char.ofNat (48 + n) else if upper then Char.ofNat (55 + n) else Char.ofNat (87 + n)

/-- four hex digits of `n` (< 65536), most significant first -/
def hex4 (upper : Bool) (n : Nat) : Str :=
  [hexDigit upper (n / 4096 % 16), hexDigit upper (n / 256 % 16), hexDigit upper (n / 16 % 16),
   hexDigit upper (n % 16)]

/-- eight hex digits of `n` (< 2^32) -/
def hex8 (upper : Bool) (n : Nat) : Str := hex4 upper (n / 65536) ++ hex4 upper (n % 65536)

/-- `\uXXXX` when it fits and `small` is chosen, else `\UXXXXXXXX` -/
def uchar (small upper : Bool) (c : Char) : Str :=
  if small ∧ c.toNat < 0x10000 then '\\' :: 'u' :: hex4 upper c.toNat
  else '\\' :: 'U' :: hex8 upper c.toNat

/-- the ECHAR spelling of a character, if it has one -/
def echarOf (c : Char) : Option Char :=
  if c = '\t' then some 't' else if c = Char.ofNat 8 then some 'b' else if c = '\n' then some 'n'
  else if c = '\r' then some 'r' else if c = Char.ofNat 12 then some 'f' else if c = '"' then some '"'
  else if c = '\'' then some '\'' else if c = '\\' then some '\\' else none

/-- may `c` stand for itself inside form `f`?  (`run` = raw delimiter characters just written,
    `more` = another character follows — a long string may contain q or qq only before a non-q item) -/
def rawOk (f : Form) (run : Nat) (more : Bool) (c : Char) : Bool :=
  if c = '\\' then false
  else if c = f.q then f.long && decide (run < 2) && more
  else if c = '\n' ∨ c = '\r' then f.long
  else true

/-- one character, spelled according to choice `k`:
    0 → raw if legal, 1 → ECHAR if it has one, 2 → \u (or \U), 3 → \U, +4 → upper-case hex.
    An illegal choice falls through to the next legal one. -/
def spellChar (f : Form) (run : Nat) (more : Bool) (k : Nat) (c : Char) : Str × Nat :=
  let upper := decide (k / 4 % 2 = 1)
  let m := k % 4
  if m = 0 ∧ rawOk f run more c then ([c], if c = f.q then run + 1 else 0)
  else if m ≤ 1 then
    match echarOf c with
    | some e => (['\\', e], 0)
    | none => if rawOk f run more c then ([c], if c = f.q then run + 1 else 0) else (uchar true upper c, 0)
  else (uchar (decide (m = 2)) upper c, 0)

/-- the body of a string in form `f`, choices consumed one per character (0 when exhausted) -/
def escapeAux (f : Form) : Nat → List Nat → Str → Str
  | _, _, [] => []
  | run, ks, c :: cs =>
    let k := ks.headD 0
    let r := spellChar f run (!cs.isEmpty) k c
    r.1 ++ escapeAux f r.2 ks.tail cs

def escapeWith (f : Form) (ks : List Nat) (s : Str) : Str := escapeAux f 0 ks s

def closer (f : Form) : Str := if f.long then [f.q, f.q, f.q] else [f.q]

/-- the whole token: opening delimiter, body, closing delimiter -/
def stringToken (f : Form) (ks : List Nat) (s : Str) : Str :=
  closer f ++ escapeWith f ks s ++ closer f

/-- the grammar's reading of a token: strip the opening delimiter, then `readStr` -/
def readStringToken (f : Form) (tok : Str) : Option (Str × Str) :=
  if f.long then
    match tok with
    | a :: b :: c :: rest => if a = f.q ∧ b = f.q ∧ c = f.q then readStr f.q true .norm rest else none
    | _ => none
  else
    match tok with
    | a :: rest => if a = f.q then readStr f.q false .norm rest else none
    | _ => none

/-! ## Part D — PN_LOCAL escapes

    [172s] PN_LOCAL_ESC ::= '\' ('_' | '~' | '.' | '-' | '!' | '$' | '&' | "'" | '(' | ')' | '*' | '+' | ',' | ';' | '=' | '/' | '?' | '#' | '@' | '%')
    The writer works on a local name that is already known to be expressible; every
    character of the escapable set is escaped when the choice says so or when it must be
    (anything of the set other than '_', and '.', '-' in a position where they are legal raw). -/

def pnEscapable (c : Char) : Bool :=
  c == '_' || c == '~' || c == '.' || c == '-' || c == '!' || c == '$' || c == '&' || c == '\''
  || c == '(' || c == ')' || c == '*' || c == '+' || c == ',' || c == ';' || c == '=' || c == '/'
  || c == '?' || c == '#' || c == '@' || c == '%'

/-- may `c` be written raw at this position of a Turtle PN_LOCAL?  (`first`/`last` position flags)
    Turtle [167s] PN_LOCAL ::= (PN_CHARS_U | ':' | [0-9] | PLX) ((PN_CHARS | '.' | ':' | PLX)* (PN_CHARS | ':' | PLX))? -/
def pnRawOk (first last : Bool) (c : Char) : Bool :=
  if first then pnCharsU c || isDigit c
  else if last then pnChars c
  else pnChars c || c == '.'

/-- raw legality at a position, `cs` = the characters that follow: '%' only as [170s] PERCENT ::= '%' HEX HEX -/
def pnRawHere (first : Bool) (cs : Str) (c : Char) : Bool :=
  if c = '%' then
    match cs with
    | a :: b :: _ => isHex a && isHex b
    | _ => false
  else pnRawOk first cs.isEmpty c

def pnLocalAux : Bool → List Nat → Str → Str
  | _, _, [] => []
  | first, ks, c :: cs =>
    let k := ks.headD 0
    let raw := pnRawHere first cs c
    (if pnEscapable c ∧ (k % 2 = 1 ∨ !raw) then ['\\', c] else [c]) ++ pnLocalAux false ks.tail cs

def pnLocalEsc (ks : List Nat) (s : Str) : Str := pnLocalAux true ks s

/-- the reader's side: drop the backslash of every PN_LOCAL_ESC -/
def pnLocalUnesc : Str → Str
  | [] => []
  | c :: cs =>
    if c = '\\' then
      match cs with
      | d :: ds => d :: pnLocalUnesc ds
      | [] => []
    else c :: pnLocalUnesc cs

/-- can the local name be written at all (every character raw-legal or escapable)?
    '%' is always expressible (`\%`). -/
def pnExpressibleAux : Bool → Str → Bool
  | _, [] => true
  | first, c :: cs => (pnEscapable c || pnRawHere first cs c) && pnExpressibleAux false cs

def pnExpressible (s : Str) : Bool := pnExpressibleAux true s

/-! ## Part E — RFC 3986 §5.2 on parsed references

    A reference is kept in the five components of RFC 3986 §3; the path is the list of its
    '/'-separated pieces (`"/a/b"` ↦ `["", "a", "b"]`, `""` ↦ `[""]`, `"/"` ↦ `["", ""]`),
    a bijection between strings and non-empty lists of '/'-free strings. -/

structure Ref where
  scheme : Option Str
  auth : Option Str
  path : List Str
  query : Option Str
  frag : Option Str
  deriving DecidableEq, Repr

def dot : Str := ['.']
def dotdot : Str := ['.', '.']

/-- §5.2.4 remove_dot_segments on the pieces after the leading "" of an absolute path.
    `stk` = output so far, reversed.  A final "." or ".." leaves a trailing "/" (an empty last piece). -/
def rds (stk : List Str) : List Str → List Str
  | [] => stk.reverse
  | [s] =>
    if s = dot then (([] : Str) :: stk).reverse
    else if s = dotdot then (([] : Str) :: stk.tail).reverse
    else (s :: stk).reverse
  | s :: t :: ss =>
    if s = dot then rds stk (t :: ss)
    else if s = dotdot then rds stk.tail (t :: ss)
    else rds (s :: stk) (t :: ss)

/-- remove_dot_segments on a path in list form -/
def removeDots (p : List Str) : List Str :=
  match p with
  | [] => []
  | s :: rest =>
    if s = [] ∧ !rest.isEmpty then [] :: rds [] rest      -- absolute path
    else rds [] (s :: rest)                                 -- relative path (only arises without authority)

/-- §5.2.3 merge -/
def mergePaths (base : Ref) (p : List Str) : List Str :=
  if base.auth.isSome ∧ base.path = [[]] then [] :: p
  else base.path.dropLast ++ p

/-- §5.2.2 transform references (strict) -/
def resolve (base r : Ref) : Ref :=
  match r.scheme with
  | some _ => { r with path := removeDots r.path }
  | none =>
    match r.auth with
    | some _ => { r with scheme := base.scheme, path := removeDots r.path }
    | none =>
      if r.path = [[]] then
        { scheme := base.scheme, auth := base.auth, path := base.path,
          query := (match r.query with | some q => some q | none => base.query), frag := r.frag }
      else if r.path.head? = some [] then
        { scheme := base.scheme, auth := base.auth, path := removeDots r.path, query := r.query, frag := r.frag }
      else
        { scheme := base.scheme, auth := base.auth, path := removeDots (mergePaths base r.path),
          query := r.query, frag := r.frag }

/-- longest common prefix length of two lists -/
def commonLen : List Str → List Str → Nat
  | a :: as, b :: bs => if a = b then commonLen as bs + 1 else 0
  | _, _ => 0

/-- a path that starts with "/" (at least `["", x]`) -/
def absPath (p : List Str) : Bool := p.head? == some [] && decide (2 ≤ p.length)

/-- Choice-driven relative reference for `t` against `base`:
    0 absolute, 1 network-path, 2 absolute-path, 3 path-relative (`../` as needed),
    4 same-document (query/fragment only) — each falls back to an earlier one when not applicable. -/
def relativize (base t : Ref) (k : Nat) : Ref :=
  let sameScheme := decide (t.scheme = base.scheme) && t.scheme.isSome
  let sameAuth := sameScheme && decide (t.auth = base.auth)
  if k = 0 ∨ !sameScheme ∨ t.auth.isNone then t
  else if k = 1 ∨ !sameAuth ∨ !absPath t.path ∨ !absPath base.path then { t with scheme := none }
  else if k = 2 then { t with scheme := none, auth := none }
  else if k ≥ 4 ∧ t.path = base.path ∧ (t.query.isSome ∨ base.query.isNone) then
    { scheme := none, auth := none, path := [[]], query := t.query, frag := t.frag }
  else
    -- path-relative: drop the common directory prefix, climb out of the rest of the base directory
    let bdir := base.path.dropLast
    let n := commonLen bdir t.path.dropLast
    let rel := List.replicate (bdir.length - n) dotdot ++ t.path.drop n
    -- a first piece that is empty or contains ':' would be misread (absolute path / scheme): use "./"
    let rel := if (rel.head?.map (fun (s : Str) => s.isEmpty || s.contains ':')).getD true then dot :: rel else rel
    { scheme := none, auth := none, path := rel, query := t.query, frag := t.frag }

/-! ### String level (executed by the driver, not covered by theorems): RFC 3986 Appendix B split, §5.3 recomposition -/

def splitOnSlash : Str → List Str
  | [] => [[]]
  | c :: cs =>
    if c = '/' then [] :: splitOnSlash cs
    else
      match splitOnSlash cs with
      | [] => [[c]]
      | l :: ls => (c :: l) :: ls

def joinSlash : List Str → Str
  | [] => []
  | [s] => s
  | s :: t :: ss => s ++ '/' :: joinSlash (t :: ss)

/-- `^(([^:/?#]+):)?(//([^/?#]*))?([^?#]*)(\?([^#]*))?(#(.*))?` -/
def parseRef (s : Str) : Ref :=
  let (tok, r) := spanP (fun c => !(c == ':' || c == '/' || c == '?' || c == '#')) s
  let (scheme, r) := match r with
    | ':' :: r' => if tok.isEmpty then (none, s) else (some tok, r')
    | _ => (none, s)
  let (auth, r) := match r with
    | '/' :: '/' :: r' =>
      let (a, r'') := spanP (fun c => !(c == '/' || c == '?' || c == '#')) r'
      (some a, r'')
    | _ => (none, r)
  let (path, r) := spanP (fun c => !(c == '?' || c == '#')) r
  let (query, r) := match r with
    | '?' :: r' => let (q, r'') := spanP (fun c => !(c == '#')) r'; (some q, r'')
    | _ => (none, r)
  let frag := match r with
    | '#' :: r' => some r'
    | _ => none
  { scheme := scheme, auth := auth, path := splitOnSlash path, query := query, frag := frag }

def showRef (r : Ref) : Str :=
  (match r.scheme with | some s => s ++ [':'] | none => []) ++
  (match r.auth with | some a => '/' :: '/' :: a | none => []) ++
  joinSlash r.path ++
  (match r.query with | some q => '?' :: q | none => []) ++
  (match r.frag with | some f => '#' :: f | none => [])

end RV.C05
