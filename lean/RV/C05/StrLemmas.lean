import RV.C05.Lemmas
/-
  C05 — the four Turtle string forms: reading what `escapeWith` wrote gives the string back.
-/
namespace RV.C05

theorem hexDigit_ok : ∀ (u : Bool) (n : Nat), n < 16 →
    hexVal (hexDigit u n) = n ∧ isHex (hexDigit u n) = true := by decide

theorem ofCode_toNat (c : Char) : ofCode c.toNat = some c := by
  unfold ofCode
  have h : c.toNat.isValidChar := c.valid
  simp only [h, dite_true]
  rfl

theorem echar_echarOf {c e : Char} (h : echarOf c = some e) :
    echar e = some c ∧ e ≠ 'u' ∧ e ≠ 'U' := by
  unfold echarOf at h
  repeat' split at h
  all_goals first
    | (injection h with h; subst h; subst_vars; decide)
    | (cases h)

theorem readStr_hex_step (q : Char) (long : Bool) (n acc : Nat) (u : Bool) (d : Nat) (rest : Str)
    (hn : 2 ≤ n) (hd : d < 16) :
    readStr q long (.hex n acc) (hexDigit u d :: rest) = readStr q long (.hex (n - 1) (acc * 16 + d)) rest := by
  have h := hexDigit_ok u d hd
  have hn' : ¬ n ≤ 1 := by omega
  simp [readStr, h.1, h.2, hn']

theorem readStr_hex_last (q : Char) (long : Bool) (acc : Nat) (u : Bool) (d : Nat) (rest : Str) (hd : d < 16) :
    readStr q long (.hex 1 acc) (hexDigit u d :: rest) =
      (match ofCode (acc * 16 + d) with
       | some ch => push ch (readStr q long .norm rest)
       | none => none) := by
  have h := hexDigit_ok u d hd
  simp only [readStr, h.1, h.2, if_true, Nat.le_refl]
  cases ofCode (acc * 16 + d) <;> rfl

theorem readStr_hex4_more (q : Char) (long : Bool) (k acc m : Nat) (u : Bool) (rest : Str)
    (hk : 1 ≤ k) (hm : m < 65536) :
    readStr q long (.hex (k + 4) acc) (hex4 u m ++ rest) =
      readStr q long (.hex k (acc * 65536 + m)) rest := by
  simp only [hex4, List.cons_append, List.nil_append]
  rw [readStr_hex_step _ _ _ _ _ _ _ (by omega) (by omega)]
  rw [readStr_hex_step _ _ _ _ _ _ _ (by omega) (by omega)]
  rw [readStr_hex_step _ _ _ _ _ _ _ (by omega) (by omega)]
  rw [readStr_hex_step _ _ _ _ _ _ _ (by omega) (by omega)]
  have e1 : k + 4 - 1 - 1 - 1 - 1 = k := by omega
  have e2 : (((acc * 16 + m / 4096 % 16) * 16 + m / 256 % 16) * 16 + m / 16 % 16) * 16 + m % 16
      = acc * 65536 + m := by omega
  rw [e1, e2]

theorem readStr_hex4_last (q : Char) (long : Bool) (acc m : Nat) (u : Bool) (rest : Str) (hm : m < 65536) :
    readStr q long (.hex 4 acc) (hex4 u m ++ rest) =
      (match ofCode (acc * 65536 + m) with
       | some ch => push ch (readStr q long .norm rest)
       | none => none) := by
  simp only [hex4, List.cons_append, List.nil_append]
  rw [readStr_hex_step _ _ _ _ _ _ _ (by omega) (by omega)]
  rw [readStr_hex_step _ _ _ _ _ _ _ (by omega) (by omega)]
  rw [readStr_hex_step _ _ _ _ _ _ _ (by omega) (by omega)]
  have e1 : 4 - 1 - 1 - 1 = 1 := by omega
  rw [e1, readStr_hex_last _ _ _ _ _ _ (by omega)]
  have e2 : (((acc * 16 + m / 4096 % 16) * 16 + m / 256 % 16) * 16 + m / 16 % 16) * 16 + m % 16
      = acc * 65536 + m := by omega
  rw [e2]

/-- a UCHAR written by `uchar` reads back as the character -/
theorem readStr_uchar (q : Char) (long : Bool) (small u : Bool) (c : Char) (rest : Str) :
    readStr q long .esc ((uchar small u c).tail ++ rest) = push c (readStr q long .norm rest) := by
  have hv : c.toNat < 0x110000 := by
    have h : c.toNat.isValidChar := c.valid
    unfold Nat.isValidChar at h
    omega
  unfold uchar
  split
  · next h =>
    simp only [List.tail_cons, List.cons_append]
    have : readStr q long .esc ('u' :: (hex4 u c.toNat ++ rest)) = readStr q long (.hex 4 0) (hex4 u c.toNat ++ rest) := by
      simp [readStr]
    rw [this, readStr_hex4_last _ _ _ _ _ _ h.2]
    simp [ofCode_toNat]
  · simp only [List.tail_cons, List.cons_append, hex8, List.append_assoc]
    have : readStr q long .esc ('U' :: (hex4 u (c.toNat / 65536) ++ (hex4 u (c.toNat % 65536) ++ rest))) =
        readStr q long (.hex (4 + 4) 0) (hex4 u (c.toNat / 65536) ++ (hex4 u (c.toNat % 65536) ++ rest)) := by
      simp [readStr]
    rw [this, readStr_hex4_more _ _ 4 _ _ _ _ (by omega) (by omega)]
    rw [readStr_hex4_last _ _ _ _ _ _ (by omega)]
    have e : (0 * 65536 + c.toNat / 65536) * 65536 + c.toNat % 65536 = c.toNat := by omega
    rw [e]
    simp [ofCode_toNat]

/-! ### one spelled character -/

inductive Spelled (f : Form) (run : Nat) (more : Bool) (c : Char) : Str × Nat → Prop
  | raw (h : rawOk f run more c = true) : Spelled f run more c ([c], if c = f.q then run + 1 else 0)
  | ech (e : Char) (h : echarOf c = some e) : Spelled f run more c (['\\', e], 0)
  | uch (small upper : Bool) : Spelled f run more c (uchar small upper c, 0)

theorem spellChar_spelled (f : Form) (run : Nat) (more : Bool) (k : Nat) (c : Char) :
    Spelled f run more c (spellChar f run more k c) := by
  unfold spellChar
  simp only
  split
  · next h => exact .raw h.2
  · split
    · split
      · next e he => exact .ech e he
      · split
        · next h => exact .raw h
        · exact .uch _ _
    · exact .uch _ _

theorem uchar_eq (small upper : Bool) (c : Char) :
    uchar small upper c = '\\' :: (uchar small upper c).tail := by
  unfold uchar; split <;> rfl

theorem q_facts {q : Char} (hq : q = '"' ∨ q = '\'') : q ≠ '\\' ∧ q ≠ '\n' ∧ q ≠ '\r' := by
  rcases hq with h | h <;> subst h <;> decide

/-- reading one spelled item that is not a raw delimiter -/
theorem readStr_item (f : Form) (hq : f.q = '"' ∨ f.q = '\'') (run : Nat) (more : Bool) (c : Char)
    (r : Str × Nat) (hs : Spelled f run more c r) (hnq : ¬ (r.1 = [c] ∧ c = f.q)) (X : Str) :
    readStr f.q f.long .norm (r.1 ++ X) = push c (readStr f.q f.long .norm X) := by
  have hqf := q_facts hq
  cases hs with
  | raw h =>
    have hc : c ≠ f.q := fun e => hnq ⟨rfl, e⟩
    unfold rawOk at h
    by_cases hb : c = '\\'
    · simp [hb] at h
    · simp only [hb, if_false, hc] at h
      by_cases he : c = '\n' ∨ c = '\r'
      · simp only [he, if_true] at h
        simp [readStr, hc, hb, h]
      · simp only [he, if_false] at h
        have he' : (c == '\n' || c == '\r') = false := by
          simp only [not_or] at he
          simp [he.1, he.2]
        simp [readStr, hc, hb, he']
  | ech e h =>
    have he := echar_echarOf h
    simp [readStr, hqf.1.symm, he.1, he.2.1, he.2.2]
  | uch small upper =>
    rw [uchar_eq]
    have : readStr f.q f.long .norm (('\\' :: (uchar small upper c).tail) ++ X) =
        readStr f.q f.long .esc ((uchar small upper c).tail ++ X) := by
      simp [readStr, hqf.1.symm]
    rw [this, readStr_uchar]

/-! ### raw delimiters inside long strings: the look-ahead never sees the closing qqq too early -/

theorem escapeAux_cons (f : Form) (run : Nat) (ks : List Nat) (c : Char) (cs : Str) :
    escapeAux f run ks (c :: cs) =
      (spellChar f run (!cs.isEmpty) (ks.headD 0) c).1 ++
        escapeAux f (spellChar f run (!cs.isEmpty) (ks.headD 0) c).2 ks.tail cs := by
  simp [escapeAux]

theorem spelled_head (f : Form) (hq : f.q = '"' ∨ f.q = '\'') (run : Nat) (more : Bool) (c : Char)
    (r : Str × Nat) (hs : Spelled f run more c r) :
    ∃ a t, r.1 = a :: t ∧ (a = f.q → (r.1 = [c] ∧ c = f.q ∧ rawOk f run more c = true ∧ r.2 = run + 1)) := by
  have hqf := q_facts hq
  cases hs with
  | raw h =>
    refine ⟨c, [], rfl, ?_⟩
    intro e
    exact ⟨rfl, e, h, by simp [e]⟩
  | ech e h => exact ⟨'\\', [e], rfl, fun e' => absurd e'.symm hqf.1⟩
  | uch small upper =>
    refine ⟨'\\', (uchar small upper c).tail, uchar_eq small upper c, fun e' => absurd e'.symm hqf.1⟩

/-- with two raw delimiters just written the next character is not a raw delimiter -/
theorem head_run2 (f : Form) (hq : f.q = '"' ∨ f.q = '\'') (ks : List Nat) (s Y : Str) (hs : s ≠ []) :
    ∃ a t, escapeAux f 2 ks s ++ Y = a :: t ∧ a ≠ f.q := by
  cases s with
  | nil => exact absurd rfl hs
  | cons c cs =>
    rw [escapeAux_cons]
    obtain ⟨a, t, e, ha⟩ := spelled_head f hq 2 (!cs.isEmpty) c _ (spellChar_spelled f 2 (!cs.isEmpty) (ks.headD 0) c)
    refine ⟨a, t ++ (escapeAux f (spellChar f 2 (!cs.isEmpty) (ks.headD 0) c).2 ks.tail cs ++ Y),
      by rw [e, List.append_assoc, List.cons_append], ?_⟩
    intro eq
    have := (ha eq).2.2.1
    have hc := (ha eq).2.1
    simp [rawOk, hc, (q_facts hq).1] at this

theorem lookahead (f : Form) (hq : f.q = '"' ∨ f.q = '\'') (r : Nat) (hr1 : 1 ≤ r) (hr2 : r ≤ 2)
    (ks : List Nat) (s : Str) (y : Char) (Y : Str) (hs : s ≠ []) :
    ∃ a b t, escapeAux f r ks s ++ y :: Y = a :: b :: t ∧ ¬ (a = f.q ∧ b = f.q) := by
  cases s with
  | nil => exact absurd rfl hs
  | cons c cs =>
    rw [escapeAux_cons]
    obtain ⟨a, t, e, ha⟩ := spelled_head f hq r (!cs.isEmpty) c _ (spellChar_spelled f r (!cs.isEmpty) (ks.headD 0) c)
    by_cases haq : a = f.q
    · -- a raw delimiter: then r = 1, more characters follow, and the next one is written with run = 2
      obtain ⟨h1, hc, hraw, hrun⟩ := ha haq
      have hmore : cs ≠ [] := by
        intro e0
        simp [rawOk, hc, (q_facts hq).1, e0] at hraw
      have hr : r = 1 := by
        have : r < 2 := by
          simp [rawOk, hc, (q_facts hq).1] at hraw
          exact hraw.1.2
        omega
      rw [h1, hrun, hr]
      obtain ⟨b, t', eb, hb⟩ := head_run2 f hq ks.tail cs (y :: Y) hmore
      refine ⟨c, b, t', by rw [List.append_assoc, eb]; rfl, fun h => hb h.2⟩
    · rw [e]
      have : ∃ b t', t ++ (escapeAux f (spellChar f r (!cs.isEmpty) (ks.headD 0) c).2 ks.tail cs ++ y :: Y) = b :: t' := by
        cases hh : t ++ (escapeAux f (spellChar f r (!cs.isEmpty) (ks.headD 0) c).2 ks.tail cs ++ y :: Y) with
        | nil => simp at hh
        | cons b t' => exact ⟨b, t', rfl⟩
      obtain ⟨b, t', eb⟩ := this
      refine ⟨a, b, t', by rw [List.append_assoc, List.cons_append, eb], fun h => haq h.1⟩

/-! ### the body and the whole token -/

theorem closer_cons (f : Form) : ∃ Y, closer f = f.q :: Y := by
  unfold closer; split <;> exact ⟨_, rfl⟩

theorem readStr_closer (f : Form) (rest : Str) :
    readStr f.q f.long .norm (closer f ++ rest) = some ([], rest) := by
  unfold closer
  cases h : f.long <;> simp [readStr]

theorem readStr_escapeAux (f : Form) (hq : f.q = '"' ∨ f.q = '\'') (rest : Str) :
    ∀ (s : Str) (run : Nat) (ks : List Nat), run ≤ 2 →
      readStr f.q f.long .norm (escapeAux f run ks s ++ (closer f ++ rest)) = some (s, rest)
  | [], run, ks, _ => by
    simp only [escapeAux, List.nil_append]
    exact readStr_closer f rest
  | c :: cs, run, ks, hrun => by
    rw [escapeAux_cons]
    have hsp := spellChar_spelled f run (!cs.isEmpty) (ks.headD 0) c
    generalize hr : spellChar f run (!cs.isEmpty) (ks.headD 0) c = r at hsp
    by_cases hraw : r.1 = [c] ∧ c = f.q
    · -- a raw delimiter inside a long string
      obtain ⟨a, t, e, ha⟩ := spelled_head f hq run (!cs.isEmpty) c r hsp
      have hac : a = f.q := by
        rw [hraw.1] at e
        injection e with e1 _
        rw [← e1]; exact hraw.2
      obtain ⟨h1, hc, hrawok, hrun'⟩ := ha hac
      have hqf := q_facts hq
      have hlong : f.long = true ∧ run < 2 ∧ cs ≠ [] := by
        simp [rawOk, hc, hqf.1] at hrawok
        exact ⟨hrawok.1.1, hrawok.1.2, by intro e0; simp [e0] at hrawok⟩
      obtain ⟨Y, hY⟩ := closer_cons f
      have hY' : closer f ++ rest = f.q :: (Y ++ rest) := by rw [hY]; rfl
      obtain ⟨x, y, t', hxy, hn⟩ := lookahead f hq (run + 1) (by omega) (by omega) ks.tail cs f.q (Y ++ rest) hlong.2.2
      have ih := readStr_escapeAux f hq rest cs (run + 1) ks.tail (by omega)
      rw [h1, hrun', List.append_assoc, hY'] at *
      rw [List.cons_append, List.nil_append, hc]
      rw [hY'] at ih
      rw [hxy] at ih ⊢
      have : readStr f.q f.long .norm (f.q :: x :: y :: t') = push f.q (readStr f.q f.long .norm (x :: y :: t')) := by
        simp [readStr, hlong.1, hn]
      rw [this, ih]
      simp [hc]
    · have ih := readStr_escapeAux f hq rest cs r.2 ks.tail (by
        cases hsp with
        | raw h =>
          show (if c = f.q then run + 1 else 0) ≤ 2
          split
          · next hcq => exact absurd ⟨rfl, hcq⟩ hraw
          · omega
        | ech e h => omega
        | uch small upper => omega)
      rw [List.append_assoc, readStr_item f hq run (!cs.isEmpty) c r hsp hraw, ih]
      rfl

/-- **every choice stream, every string, every one of the four forms**: the grammar reads the token back -/
theorem readStringToken_stringToken (f : Form) (hq : f.q = '"' ∨ f.q = '\'') (ks : List Nat) (s rest : Str) :
    readStringToken f (stringToken f ks s ++ rest) = some (s, rest) := by
  have h := readStr_escapeAux f hq rest s 0 ks (by omega)
  unfold readStringToken stringToken escapeWith
  cases hl : f.long
  · simp [closer, hl] at h ⊢
    exact h
  · simp [closer, hl] at h ⊢
    exact h

end RV.C05
