import RV.C05.Model
/-
  C05 — helper lemmas for Props.lean.
-/
namespace RV.C05

/-! ### character facts -/

theorem iriChar_ne {c : Char} (h : iriChar c = true) : c ≠ '>' ∧ c ≠ '\\' := by
  simp only [iriChar, Bool.not_eq_true', Bool.or_eq_false_iff, beq_eq_false_iff_ne, ne_eq] at h
  rcases h with ⟨⟨⟨⟨⟨⟨⟨⟨⟨_, _⟩, h3⟩, _⟩, _⟩, _⟩, _⟩, _⟩, _⟩, h10⟩
  exact ⟨h3, h10⟩

/-! ### `push` -/

@[simp] theorem push_some (c : Char) (s r : Str) : push c (some (s, r)) = some (c :: s, r) := rfl

/-! ### IRIREF -/

theorem readIri_raw : ∀ (i rest : Str), i.all iriChar = true →
    readIri .norm (i ++ '>' :: rest) = some (i, rest)
  | [], rest, _ => by simp [readIri]
  | c :: cs, rest, h => by
    simp only [List.all_cons, Bool.and_eq_true] at h
    have hc := iriChar_ne h.1
    simp [readIri, hc.1, hc.2, h.1, readIri_raw cs rest h.2]

/-! ### `_quote_encode` -/

theorem replaceChar_cons_ne {c x : Char} {r xs : Str} (h : x ≠ c) :
    replaceChar c r (x :: xs) = x :: replaceChar c r xs := by simp [replaceChar, h]

theorem replaceChar_cons_eq {c : Char} {r xs : Str} :
    replaceChar c r (c :: xs) = r ++ replaceChar c r xs := by simp [replaceChar]

/-- the four chained `str.replace` calls are a character-by-character substitution -/
theorem replaces_eq_escBody : ∀ (l : Str),
    replaceChar '\r' ['\\', 'r'] (replaceChar '"' ['\\', '"']
      (replaceChar '\n' ['\\', 'n'] (replaceChar '\\' ['\\', '\\'] l))) = escBody l
  | [] => by simp [replaceChar, escBody]
  | c :: cs => by
    have ih := replaces_eq_escBody cs
    by_cases h1 : c = '\\'
    · subst h1
      simp [replaceChar, escBody, escChar] at ih ⊢
      exact ih
    · by_cases h2 : c = '\n'
      · subst h2
        simp [replaceChar, escBody, escChar] at ih ⊢
        exact ih
      · by_cases h3 : c = '"'
        · subst h3
          simp [replaceChar, escBody, escChar] at ih ⊢
          exact ih
        · by_cases h4 : c = '\r'
          · subst h4
            simp [replaceChar, escBody, escChar] at ih ⊢
            exact ih
          · simp [replaceChar, escBody, escChar, h1, h2, h3, h4] at ih ⊢
            exact ih

theorem quoteEncode_eq (l : Str) : quoteEncode l = '"' :: (escBody l ++ ['"']) := by
  simp [quoteEncode, replaces_eq_escBody]

/-- reading what `_quote_encode` wrote gives the string back, whatever follows the closing quote -/
theorem readStr_escBody : ∀ (s rest : Str),
    readStr '"' false .norm (escBody s ++ '"' :: rest) = some (s, rest)
  | [], rest => by simp [escBody, readStr]
  | c :: cs, rest => by
    have ih := readStr_escBody cs rest
    by_cases h1 : c = '\\'
    · subst h1; simp [escBody, escChar, readStr, echar, ih]
    · by_cases h2 : c = '\n'
      · subst h2; simp [escBody, escChar, readStr, echar, ih]
      · by_cases h3 : c = '"'
        · subst h3; simp [escBody, escChar, readStr, echar, ih]
        · by_cases h4 : c = '\r'
          · subst h4; simp [escBody, escChar, readStr, echar, ih]
          · simp [escBody, escChar, readStr, h1, h2, h3, h4, ih]

/-! ### tokens made of a character class -/

theorem spanP_append (p : Char → Bool) : ∀ (l rest : Str), l.all p = true →
    (∀ c r, rest = c :: r → p c = false) → spanP p (l ++ rest) = (l, rest)
  | [], rest, _, h => by
    cases rest with
    | nil => simp [spanP]
    | cons c r => simp [spanP, h c r rfl]
  | c :: cs, rest, hl, h => by
    simp only [List.all_cons, Bool.and_eq_true] at hl
    simp [spanP, hl.1, spanP_append p cs rest hl.2 h]

theorem unDot_id (l rest : Str) (h : l.getLast? ≠ some '.') : unDot (l, rest) = (l, rest) := by
  unfold unDot
  rw [← List.head?_reverse] at h
  cases hr : l.reverse with
  | nil =>
    have : l = [] := by simpa using hr
    simp [this]
  | cons x xs =>
    rw [hr] at h
    have hx : x ≠ '.' := by simpa using h
    have hl : l = (x :: xs).reverse := by rw [← hr]; simp
    have hb : (x == '.') = false := by simpa using hx
    simp only [hr, List.takeWhile, List.dropWhile, hb]
    simp [hl]

theorem labelChar_of_first {c : Char} (h : (pnCharsU c || isDigit c) = true) : labelChar c = true := by
  simp only [labelChar, pnChars, Bool.or_eq_true] at h ⊢
  rcases h with h | h
  · exact Or.inl (Or.inl (Or.inl (Or.inl (Or.inl (Or.inl h)))))
  · exact Or.inl (Or.inl (Or.inl (Or.inl (Or.inr h))))

theorem legalLabel_spec {l : Str} (h : legalLabel l = true) :
    l.all labelChar = true ∧ l.getLast? ≠ some '.' ∧ l ≠ [] := by
  cases l with
  | nil => simp [legalLabel] at h
  | cons c cs =>
    simp only [legalLabel, Bool.and_eq_true, bne_iff_ne, ne_eq] at h
    refine ⟨?_, h.2, by simp⟩
    simp only [List.all_cons, Bool.and_eq_true]
    exact ⟨labelChar_of_first h.1.1, h.1.2⟩

theorem langChar_of_legalAux : ∀ (first : Bool) (n : Nat) (s : Str),
    legalLangAux first n s = true → s.all langChar = true
  | _, _, [], _ => by simp
  | first, n, c :: cs, h => by
    unfold legalLangAux at h
    simp only [List.all_cons, Bool.and_eq_true]
    by_cases hc : c = '-'
    · subst hc
      simp only [if_true, Bool.and_eq_true] at h
      exact ⟨by simp [langChar], langChar_of_legalAux false 0 cs h.2⟩
    · simp only [hc, if_false] at h
      cases first with
      | true =>
        simp only [if_true, Bool.and_eq_true] at h
        exact ⟨by simp [langChar, isAlnum, h.1], langChar_of_legalAux true (n + 1) cs h.2⟩
      | false =>
        simp only [Bool.false_eq_true, if_false, Bool.and_eq_true] at h
        exact ⟨by simp [langChar, h.1], langChar_of_legalAux false (n + 1) cs h.2⟩

theorem langChar_of_legal {s : Str} (h : legalLang s = true) : s.all langChar = true :=
  langChar_of_legalAux true 0 s h

/-! ### terms as `_nt_row` writes them -/

def posOk (pos : Pos) (t : Term) : Bool :=
  match pos with
  | .subj => isNode t
  | .pred => isIri t
  | .obj => true
  | .graph => isNode t

theorem labelChar_space : labelChar ' ' = false := by decide
theorem langChar_space : langChar ' ' = false := by decide

theorem readIriTerm_raw (i r : Str) (h : legalIri i = true) :
    readIriTerm (i ++ '>' :: r) = some (.iri i, r) := by
  simp only [legalIri, Bool.and_eq_true] at h
  simp [readIriTerm, readIri_raw i r h.1, h.2]

theorem readLabelTerm_raw (l r : Str) (h : legalLabel l = true) :
    readLabelTerm (l ++ ' ' :: r) = some (.bnode l, ' ' :: r) := by
  have hs := legalLabel_spec h
  have h1 : spanP labelChar (l ++ ' ' :: r) = (l, ' ' :: r) :=
    spanP_append labelChar l (' ' :: r) hs.1 (by intro c r' e; cases e; exact labelChar_space)
  simp [readLabelTerm, h1, unDot_id l (' ' :: r) hs.2.1, h]

theorem readTerm_termN3 (pos : Pos) (t : Term) (r : Str) (hl : legalTerm t = true)
    (hp : posOk pos t = true) :
    readTerm pos (termN3 t ++ ' ' :: r) = some (t, ' ' :: r) := by
  cases t with
  | iri i =>
    have := readIriTerm_raw i (' ' :: r) hl
    simpa [termN3, readTerm] using this
  | bnode l =>
    have hpp : pos ≠ .pred := by
      intro e; subst e; simp [posOk, isIri] at hp
    have := readLabelTerm_raw l r hl
    simpa [termN3, readTerm, hpp] using this
  | plain lex =>
    have hpo : pos = .obj := by
      cases pos <;> simp [posOk, isNode, isIri] at hp ⊢
    subst hpo
    simp [termN3, quoteEncode_eq, readTerm, readLiteral, readStr_escBody]
  | lang lex tag =>
    have hpo : pos = .obj := by
      cases pos <;> simp [posOk, isNode, isIri] at hp ⊢
    subst hpo
    have hl' : legalLang tag = true := hl
    have h1 : spanP langChar (tag ++ ' ' :: r) = (tag, ' ' :: r) :=
      spanP_append langChar tag (' ' :: r) (langChar_of_legal hl')
        (by intro c r' e; cases e; exact langChar_space)
    simp [termN3, quoteEncode_eq, readTerm, readLiteral, readStr_escBody, h1, hl']
  | typed lex dt =>
    have hpo : pos = .obj := by
      cases pos <;> simp [posOk, isNode, isIri] at hp ⊢
    subst hpo
    have hl' : legalIri dt = true := hl
    simp only [legalIri, Bool.and_eq_true] at hl'
    simp [termN3, quoteEncode_eq, readTerm, readLiteral, readStr_escBody, readIri_raw dt (' ' :: r) hl'.1, hl'.2]

/-! ### whole lines -/

theorem skipWs_termN3 (t : Term) (x : Str) : skipWs (termN3 t ++ x) = termN3 t ++ x := by
  cases t <;> simp [termN3, skipWs, quoteEncode_eq]

theorem isBlank_termN3 (t : Term) (x : Str) : isBlank (termN3 t ++ x) = false := by
  cases t <;> simp [termN3, isBlank, quoteEncode_eq]

theorem skipWs_space (x : Str) : skipWs (' ' :: x) = skipWs x := by simp [skipWs]

theorem endOfStatement_dot : endOfStatement [' ', '.'] = true := by
  simp [endOfStatement, skipWs, lineEnd]

theorem endOfStatement_dot2 : endOfStatement [' ', ' ', '.'] = true := by
  simp [endOfStatement, skipWs, lineEnd]

theorem endOfStatement_term (t : Term) (x : Str) : endOfStatement (' ' :: (termN3 t ++ x)) = false := by
  cases t <;> simp [endOfStatement, skipWs, termN3, quoteEncode_eq]

theorem parseLine_ntRow (s p o : Term) (h : legalTriple (s, p, o) = true) :
    NT.parseLine (ntRow (s, p, o)) = some (some (s, p, o)) := by
  simp only [legalTriple, Bool.and_eq_true] at h
  obtain ⟨⟨⟨⟨hs1, hs2⟩, hp1⟩, hp2⟩, ho⟩ := h
  have e : ntRow (s, p, o) = termN3 s ++ ' ' :: (termN3 p ++ ' ' :: (termN3 o ++ ' ' :: ['.'])) := by
    simp [ntRow]
  rw [e]
  unfold NT.parseLine
  rw [skipWs_termN3, isBlank_termN3]
  rw [readTerm_termN3 .subj s _ hs2 (by simpa [posOk] using hs1)]
  simp only [skipWs_space, skipWs_termN3]
  rw [readTerm_termN3 .pred p _ hp2 (by simpa [posOk] using hp1)]
  simp only [skipWs_space, skipWs_termN3]
  rw [readTerm_termN3 .obj o _ ho (by simp [posOk])]
  simp [endOfStatement_dot]

theorem parseLine_nqRow (s p o : Term) (g : Option Term) (h : legalQuad (s, p, o, g) = true) :
    NQ.parseLine (nqRow (s, p, o, g)) = some (some (s, p, o, g)) := by
  simp only [legalQuad, legalTriple, Bool.and_eq_true] at h
  obtain ⟨⟨⟨⟨⟨hs1, hs2⟩, hp1⟩, hp2⟩, ho⟩, hg⟩ := h
  cases g with
  | none =>
    have e : nqRow (s, p, o, none) =
        termN3 s ++ ' ' :: (termN3 p ++ ' ' :: (termN3 o ++ ' ' :: [' ', '.'])) := by
      simp [nqRow]
    rw [e]
    unfold NQ.parseLine
    rw [skipWs_termN3, isBlank_termN3]
    rw [readTerm_termN3 .subj s _ hs2 (by simpa [posOk] using hs1)]
    simp only [skipWs_space, skipWs_termN3]
    rw [readTerm_termN3 .pred p _ hp2 (by simpa [posOk] using hp1)]
    simp only [skipWs_space, skipWs_termN3]
    rw [readTerm_termN3 .obj o _ ho (by simp [posOk])]
    simp [endOfStatement_dot2]
  | some g =>
    simp only [Bool.and_eq_true] at hg
    have e : nqRow (s, p, o, some g) =
        termN3 s ++ ' ' :: (termN3 p ++ ' ' :: (termN3 o ++ ' ' :: (termN3 g ++ ' ' :: ['.']))) := by
      simp [nqRow]
    rw [e]
    unfold NQ.parseLine
    rw [skipWs_termN3, isBlank_termN3]
    rw [readTerm_termN3 .subj s _ hs2 (by simpa [posOk] using hs1)]
    simp only [skipWs_space, skipWs_termN3]
    rw [readTerm_termN3 .pred p _ hp2 (by simpa [posOk] using hp1)]
    simp only [skipWs_space, skipWs_termN3]
    rw [readTerm_termN3 .obj o _ ho (by simp [posOk])]
    simp only [endOfStatement_term, skipWs_space, skipWs_termN3]
    rw [readTerm_termN3 .graph g _ hg.2 (by simpa [posOk] using hg.1)]
    simp [endOfStatement_dot]

/-! ### whole documents -/

def isEol (c : Char) : Bool := c == '\n' || c == '\r'
def noEol (s : Str) : Bool := s.all (fun c => !isEol c)

theorem noEol_append (a b : Str) : noEol (a ++ b) = (noEol a && noEol b) := by simp [noEol]
theorem noEol_cons (c : Char) (a : Str) : noEol (c :: a) = (!isEol c && noEol a) := by simp [noEol]

theorem all_imp {p q : Char → Bool} (hpq : ∀ c, p c = true → q c = true) :
    ∀ (s : Str), s.all p = true → s.all q = true
  | [], _ => by simp
  | c :: cs, h => by
    simp only [List.all_cons, Bool.and_eq_true] at h ⊢
    exact ⟨hpq c h.1, all_imp hpq cs h.2⟩

theorem iriChar_noEol (c : Char) (h : iriChar c = true) : (!isEol c) = true := by
  by_cases h1 : c = '\n'
  · subst h1; exact absurd h (by decide)
  · by_cases h2 : c = '\r'
    · subst h2; exact absurd h (by decide)
    · simp [isEol, h1, h2]

theorem labelChar_noEol (c : Char) (h : labelChar c = true) : (!isEol c) = true := by
  by_cases h1 : c = '\n'
  · subst h1; exact absurd h (by decide)
  · by_cases h2 : c = '\r'
    · subst h2; exact absurd h (by decide)
    · simp [isEol, h1, h2]

theorem langChar_noEol (c : Char) (h : langChar c = true) : (!isEol c) = true := by
  by_cases h1 : c = '\n'
  · subst h1; exact absurd h (by decide)
  · by_cases h2 : c = '\r'
    · subst h2; exact absurd h (by decide)
    · simp [isEol, h1, h2]

/-- `_quote_encode` leaves no raw line end in the output — this is why it must escape both LF and CR -/
theorem noEol_escBody : ∀ (s : Str), noEol (escBody s) = true
  | [] => by simp [escBody, noEol]
  | c :: cs => by
    have ih := noEol_escBody cs
    by_cases h1 : c = '\\'
    · subst h1; simp [escBody, escChar, noEol_cons, isEol, ih]
    · by_cases h2 : c = '\n'
      · subst h2; simp [escBody, escChar, noEol_cons, isEol, ih]
      · by_cases h3 : c = '"'
        · subst h3; simp [escBody, escChar, noEol_cons, isEol, ih]
        · by_cases h4 : c = '\r'
          · subst h4; simp [escBody, escChar, noEol_cons, isEol, ih]
          · simp [escBody, escChar, h1, h2, h3, h4, noEol_cons, isEol, ih]

theorem noEol_termN3 (t : Term) (h : legalTerm t = true) : noEol (termN3 t) = true := by
  cases t with
  | iri i =>
    have h' : legalIri i = true := h
    simp only [legalIri, Bool.and_eq_true] at h'
    have := all_imp iriChar_noEol i h'.1
    simp [termN3, noEol_cons, noEol_append, isEol]; simpa [noEol] using this
  | bnode l =>
    have := all_imp labelChar_noEol l (legalLabel_spec h).1
    simp [termN3, noEol_cons, isEol]; simpa [noEol] using this
  | plain lex =>
    simp [termN3, quoteEncode_eq, noEol_cons, noEol_append, isEol, noEol_escBody]; simp [noEol]
  | lang lex tag =>
    have h' : legalLang tag = true := h
    have := all_imp langChar_noEol tag (langChar_of_legal h')
    simp [termN3, quoteEncode_eq, noEol_cons, noEol_append, isEol, noEol_escBody]; simpa [noEol] using this
  | typed lex dt =>
    have h' : legalIri dt = true := h
    simp only [legalIri, Bool.and_eq_true] at h'
    have := all_imp iriChar_noEol dt h'.1
    simp [termN3, quoteEncode_eq, noEol_cons, noEol_append, isEol, noEol_escBody]; simpa [noEol] using this

theorem splitLines_row : ∀ (l rest : Str), noEol l = true →
    splitLines (l ++ '\n' :: rest) = l :: splitLines rest
  | [], rest, _ => by simp [splitLines]
  | c :: cs, rest, h => by
    rw [noEol_cons, Bool.and_eq_true] at h
    have hc : ¬ (c = '\n' ∨ c = '\r') := by
      have := h.1; simp [isEol] at this; exact fun e => e.elim this.1 this.2
    have ih := splitLines_row cs rest h.2
    simp only [List.cons_append, splitLines, hc, if_false, ih]

theorem noEol_ntRow (s p o : Term) (h : legalTriple (s, p, o) = true) : noEol (ntRow (s, p, o)) = true := by
  simp only [legalTriple, Bool.and_eq_true] at h
  obtain ⟨⟨⟨⟨_, hs2⟩, _⟩, hp2⟩, ho⟩ := h
  simp [ntRow, noEol_append, noEol_cons, isEol, noEol_termN3 s hs2, noEol_termN3 p hp2, noEol_termN3 o ho]
  simp [noEol]

theorem parseDoc_ntDoc : ∀ (ts : List Triple), (∀ t ∈ ts, legalTriple t = true) →
    NT.parseDoc (ntDoc ts) = some ts
  | [], _ => by simp [NT.parseDoc, ntDoc, splitLines, collect, NT.parseLine, skipWs, isBlank]
  | (s, p, o) :: ts, h => by
    have ht : legalTriple (s, p, o) = true := h _ (by simp)
    have ih := parseDoc_ntDoc ts (fun t m => h t (by simp [m]))
    unfold NT.parseDoc at ih ⊢
    simp only [ntDoc]
    rw [splitLines_row _ _ (noEol_ntRow s p o ht)]
    simp [collect, parseLine_ntRow s p o ht, ih]

end RV.C05
