import RV.C05.Model
namespace RV.C05
end RV.C05
