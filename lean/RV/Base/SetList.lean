/-
  Finite sets as lists (Python `set` / `dict` keys).  Structurally recursive
  helpers with membership spec lemmas; `Nodup` is kept as a separate theorem,
  never a subtype (DESIGN §3).  Core-only imports: the driver links against this.
-/
namespace RV

variable {α : Type} [DecidableEq α]

/-- `set.add` -/
def sinsert (l : List α) (x : α) : List α :=
  if x ∈ l then l else l ++ [x]

/-- `set.discard` -/
def sremove : List α → α → List α
  | [], _ => []
  | y :: ys, x => if y = x then sremove ys x else y :: sremove ys x

@[simp] theorem mem_sinsert {l : List α} {x y : α} :
    y ∈ sinsert l x ↔ y = x ∨ y ∈ l := by
  unfold sinsert
  split
  · constructor
    · intro h; exact Or.inr h
    · rintro (h | h)
      · subst h; assumption
      · exact h
  · simp [List.mem_append, or_comm]

@[simp] theorem mem_sremove {l : List α} {x y : α} :
    y ∈ sremove l x ↔ y ≠ x ∧ y ∈ l := by
  induction l with
  | nil => simp [sremove]
  | cons z zs ih =>
    unfold sremove
    split
    · next h => subst h; simp [ih]; intro h1 h2; exact absurd h2 h1
    · next h =>
      simp [ih]
      constructor
      · rintro (h1 | ⟨h1, h2⟩)
        · subst h1; exact ⟨h, Or.inl rfl⟩
        · exact ⟨h1, Or.inr h2⟩
      · rintro ⟨h1, h2 | h2⟩
        · exact Or.inl h2
        · exact Or.inr ⟨h1, h2⟩

theorem nodup_sinsert {l : List α} {x : α} (h : l.Nodup) : (sinsert l x).Nodup := by
  unfold sinsert
  split
  · exact h
  · next hx =>
    rw [List.nodup_append]
    refine ⟨h, by simp, ?_⟩
    intro a ha b hb
    simp at hb; subst hb
    intro e; subst e; exact hx ha

theorem nodup_sremove {l : List α} {x : α} (h : l.Nodup) : (sremove l x).Nodup := by
  induction l with
  | nil => simp [sremove]
  | cons z zs ih =>
    unfold sremove
    rw [List.nodup_cons] at h
    split
    · exact ih h.2
    · rw [List.nodup_cons]
      refine ⟨?_, ih h.2⟩
      intro hm
      exact h.1 (mem_sremove.mp hm).2

omit [DecidableEq α] in
/-- set equality as mutual inclusion (Python `set.__eq__`) -/
def SetEq (a b : List α) : Prop := ∀ x, x ∈ a ↔ x ∈ b

omit [DecidableEq α] in
theorem SetEq.refl (a : List α) : SetEq a a := fun _ => Iff.rfl
omit [DecidableEq α] in
theorem SetEq.symm {a b : List α} (h : SetEq a b) : SetEq b a := fun x => (h x).symm
omit [DecidableEq α] in
theorem SetEq.trans {a b c : List α} (h : SetEq a b) (h' : SetEq b c) : SetEq a c :=
  fun x => (h x).trans (h' x)

end RV
