/-
  Line protocol shared by all model drivers (DESIGN §2.2): one space-separated
  operation per input line, exactly one output line per input line.
  Unknown or ill-formed operations answer `bad-op` (never defaulted).
-/
namespace RV.Proto

def words (line : String) : List String :=
  (line.splitOn " ").filter (· ≠ "")

/-- `*` is the wildcard; anything else must be a natural number. -/
def optNat? (w : String) : Option (Option Nat) :=
  if w = "*" then some none else w.toNat?.map some

def showNats (xs : List Nat) : String := ",".intercalate (xs.map toString)

/-- insertion sort on strings: canonical order for set-valued outputs -/
def insertStr (x : String) : List String → List String
  | [] => [x]
  | y :: ys => if x ≤ y then x :: y :: ys else y :: insertStr x ys
def sortStrs (xs : List String) : List String := xs.foldr insertStr []

def insertBy {α} (lt : α → α → Bool) (x : α) : List α → List α
  | [] => [x]
  | y :: ys => if lt y x then y :: insertBy lt x ys else x :: y :: ys
def sortBy {α} (lt : α → α → Bool) (xs : List α) : List α := xs.foldr (insertBy lt) []

def lexLt : List Nat → List Nat → Bool
  | [], [] => false
  | [], _ :: _ => true
  | _ :: _, [] => false
  | a :: as, b :: bs => a < b || (a == b && lexLt as bs)

partial def loop {σ : Type} (step : σ → List String → σ × String) (h : IO.FS.Stream)
    (out : IO.FS.Stream) (s : σ) : IO Unit := do
  let line ← h.getLine
  if line.isEmpty then
    out.flush
    return ()
  let l := (line.dropRightWhile (fun c => c = '\n' || c = '\r'))
  let (s', o) := step s (words l)
  out.putStrLn o
  loop step h out s'

def run {σ : Type} (step : σ → List String → σ × String) (init : σ) : IO Unit := do
  loop step (← IO.getStdin) (← IO.getStdout) init

end RV.Proto
