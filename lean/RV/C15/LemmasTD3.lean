import RV.C15.LemmasTD
import RV.C15.LemmasInit2
/-
  Helper lemmas for C15, round g, part 3: initBindings against a VALUES row for the evaluator as it runs, through
  OPTIONAL and UNION:   SELECT pv { B0 . tail* } ,  tail = OPTIONAL { B [FILTER e] }  |  { B1 } UNION { B2 }.
-/
namespace RV.C15

open List

variable {n : Nat}

/-! ### `κ ⊆ x` -/

def Sup (κ x : Row n) : Prop := ∀ v t, κ v = some t → x v = some t

def supB (κ x : Row n) : Bool :=
  (List.finRange n).all fun v => match κ v with
    | none => true
    | some t => x v == some t

theorem supB_iff (κ x : Row n) : supB κ x = true ↔ Sup κ x := by
  simp only [supB, List.all_eq_true, List.mem_finRange, true_imp_iff, Sup]
  constructor
  · intro h v t hv
    have := h v
    simpa only [hv, beq_iff_eq] using this
  · intro h v
    cases hv : κ v with
    | none => rfl
    | some t => simpa only [beq_iff_eq] using h v t hv

def BindsDom (κ x : Row n) : Prop := ∀ v, κ v ≠ none → x v ≠ none

theorem Sup.refl (x : Row n) : Sup x x := fun _ _ h => h
theorem Sup.trans {a b c : Row n} (h1 : Sup a b) (h2 : Sup b c) : Sup a c := fun v t h => h2 v t (h1 v t h)
theorem Sup.empty (x : Row n) : Sup Row.empty x := fun v t h => by simp [Row.empty] at h

theorem Sup.merge_left {κ x : Row n} (h : Sup κ x) : merge κ x = x := by
  funext v
  simp only [merge]
  cases hv : κ v with
  | none => rfl
  | some t => exact (h v t hv).symm

theorem Sup.merge_right {κ x : Row n} (h : Sup κ x) : merge x κ = x := by
  funext v
  simp only [merge]
  cases hx : x v with
  | some t => rfl
  | none =>
    cases hv : κ v with
    | none => rfl
    | some t => rw [h v t hv] at hx; cases hx

theorem Sup.merge (x y : Row n) : Sup x (merge x y) := fun v t h => by simp [RV.C15.merge, h]

theorem Sup.binds {κ x : Row n} (h : Sup κ x) : BindsDom κ x := fun v hv => by
  cases hk : κ v with
  | none => exact absurd hk hv
  | some t => rw [h v t hk]; simp

theorem BindsDom.mono {κ x y : Row n} (h : BindsDom κ x) (hxy : Sup x y) : BindsDom κ y := fun v hv => by
  cases hx : x v with
  | none => exact absurd hx (h v hv)
  | some t => rw [hxy v t hx]; simp

/-- a row that binds all of `dom κ` but disagrees with `κ`: so does every extension of it -/
theorem not_sup_mono {κ x y : Row n} (hb : BindsDom κ x) (hn : ¬ Sup κ x) (hxy : Sup x y) : ¬ Sup κ y := by
  intro hy
  apply hn
  intro v t hv
  cases hx : x v with
  | none => exact absurd hx (hb v (by simp [hv]))
  | some t' =>
    have h1 := hxy v t' hx
    have h2 := hy v t hv
    rw [h1] at h2
    exact h2

theorem sup_remember {κ x : Row n} (av : List (Fin n)) (h : Sup κ x) (hv : ∀ v, κ v ≠ none → v ∈ av) :
    Sup κ (remember av x) := by
  intro v t hk
  have : av.contains v = true := List.contains_iff_mem.mpr (hv v (by simp [hk]))
  simp only [remember, project, this, if_true]
  exact h v t hk

theorem forget_self (κ : Row n) (exc : List (Fin n)) (y : Row n) : forget κ κ exc y = y := by
  funext v
  simp only [forget]
  cases κ v <;> simp

theorem joinWith_of_binds {κ x : Row n} (hb : BindsDom κ x) :
    joinWith κ x = if supB κ x then some x else none := by
  by_cases hs : Sup κ x
  · have hc : compat x κ = true := by
      rw [compat_iff]; intro v a b ha hb'
      rw [hs v b hb'] at ha; exact (Option.some.inj ha).symm
    simp [joinWith, hc, (supB_iff κ x).mpr hs, hs.merge_right]
  · have hc : compat x κ = false := by
      rw [Bool.eq_false_iff]
      intro hc
      rw [compat_iff] at hc
      apply hs
      intro v t hv
      cases hx : x v with
      | none => exact absurd hx (hb v (by simp [hv]))
      | some t' => rw [hc v t' t hx hv]
    have : supB κ x = false := by
      rw [Bool.eq_false_iff]; intro h; exact hs ((supB_iff κ x).mp h)
    simp [joinWith, hc, this]

theorem filterMap_joinWith_eq_filter (κ : Row n) : ∀ (A : List (Row n)), (∀ x ∈ A, BindsDom κ x) →
    A.filterMap (joinWith κ) = A.filter (supB κ)
  | [], _ => rfl
  | x :: A, h => by
    have ih := filterMap_joinWith_eq_filter κ A fun y hy => h y (List.mem_cons_of_mem _ hy)
    rw [List.filterMap_cons, joinWith_of_binds (h x List.mem_cons_self), List.filter_cons]
    cases supB κ x <;> simp [ih]

/-! ### solutions of `evalBGP` extend the seed and bind every variable of the pattern -/

theorem ext_mono {μ c : Row n} {t : TP n} {tr : Triple} (h : ext μ t tr = some c) : Sup μ c := by
  simp only [ext] at h
  cases h1 : unif t.1 tr.1 μ with
  | none => simp [h1] at h
  | some c1 =>
    simp only [h1, Option.bind_some] at h
    cases h2 : unif t.2.1 tr.2.1 c1 with
    | none => simp [h2] at h
    | some c2 =>
      simp only [h2, Option.bind_some] at h
      exact fun v x hv => unif_mono h v x (unif_mono h2 v x (unif_mono h1 v x hv))

theorem unif_binds {pt : PT n} {val : Term} {μ c : Row n} (h : unif pt val μ = some c) :
    ∀ v ∈ ptVars pt, c v ≠ none := by
  intro v hv
  cases pt with
  | const k => simp [ptVars] at hv
  | var w =>
    simp only [ptVars, List.mem_singleton] at hv
    subst hv
    simp only [unif] at h
    split at h
    · cases h; simp [Row.set]
    · next x hx =>
      split at h
      · cases h; simp [hx]
      · cases h

theorem ext_binds {μ c : Row n} {t : TP n} {tr : Triple} (h : ext μ t tr = some c) :
    ∀ v ∈ tpVars t, c v ≠ none := by
  simp only [ext] at h
  cases h1 : unif t.1 tr.1 μ with
  | none => simp [h1] at h
  | some c1 =>
    simp only [h1, Option.bind_some] at h
    cases h2 : unif t.2.1 tr.2.1 c1 with
    | none => simp [h2] at h
    | some c2 =>
      simp only [h2, Option.bind_some] at h
      intro v hv
      simp only [tpVars, List.mem_append] at hv
      have m3 : Sup c2 c := fun v x hv => unif_mono h v x hv
      have m2 : Sup c1 c2 := fun v x hv => unif_mono h2 v x hv
      rcases hv with (hv | hv) | hv
      · exact (Sup.binds (m2.trans m3)) v (unif_binds h1 v hv)
      · exact (Sup.binds m3) v (unif_binds h2 v hv)
      · exact unif_binds h v hv

theorem evalBGP_graph_sup (g : List Triple) (ts : List (TP n)) :
    ∀ (μ ν : Row n), ν ∈ evalBGP (graphStore g) μ ts → Sup μ ν := by
  induction ts with
  | nil =>
    intro μ ν h
    simp only [evalBGP, List.mem_singleton] at h
    subst h; exact Sup.refl _
  | cons t rest ih =>
    intro μ ν h
    rw [evalBGP_graph_cons'] at h
    simp only [List.mem_flatMap, Option.mem_toList] at h
    obtain ⟨tr, _, c, hc, hν⟩ := h
    exact (ext_mono hc).trans (ih c ν hν)

theorem evalBGP_graph_binds (g : List Triple) (ts : List (TP n)) :
    ∀ (μ ν : Row n), ν ∈ evalBGP (graphStore g) μ ts → ∀ v ∈ bgpVars ts, ν v ≠ none := by
  induction ts with
  | nil => intro μ ν _ v hv; simp [bgpVars] at hv
  | cons t rest ih =>
    intro μ ν h v hv
    rw [evalBGP_graph_cons'] at h
    simp only [List.mem_flatMap, Option.mem_toList] at h
    obtain ⟨tr, _, c, hc, hν⟩ := h
    simp only [bgpVars, List.flatMap_cons, List.mem_append] at hv
    rcases hv with hv | hv
    · exact (Sup.binds (evalBGP_graph_sup g rest c ν hν)) v (ext_binds hc v hv)
    · exact ih c ν hν v hv

/-! ### the generic step: a tail that works row by row -/

theorem flatMap_filter_sup (κ : Row n) (F : Row n → List (Row n)) (hext : ∀ x y, y ∈ F x → Sup x y) :
    ∀ (A : List (Row n)), (∀ x ∈ A, BindsDom κ x) →
      (A.flatMap F).filter (supB κ) = (A.filter (supB κ)).flatMap F
  | [], _ => rfl
  | x :: A, h => by
    have ih := flatMap_filter_sup κ F hext A fun y hy => h y (List.mem_cons_of_mem _ hy)
    rw [List.flatMap_cons, List.filter_append, ih, List.filter_cons]
    by_cases hs : Sup κ x
    · have : (F x).filter (supB κ) = F x := by
        rw [List.filter_eq_self]
        intro y hy
        exact (supB_iff κ y).mpr (hs.trans (hext x y hy))
      simp [(supB_iff κ x).mpr hs, this]
    · have hsb : supB κ x = false := by
        rw [Bool.eq_false_iff]; intro h'; exact hs ((supB_iff κ x).mp h')
      have : (F x).filter (supB κ) = [] := by
        rw [List.filter_eq_nil_iff]
        intro y hy h'
        exact not_sup_mono (h x List.mem_cons_self) hs (hext x y hy) ((supB_iff κ y).mp h')
      simp [hsb, this]

theorem flatMap_congr_mem {α β : Type} : ∀ (l : List α) (f g : α → List β), (∀ x ∈ l, f x = g x) →
    l.flatMap f = l.flatMap g
  | [], _, _, _ => rfl
  | a :: l, f, g, h => by
    rw [List.flatMap_cons, List.flatMap_cons, h a List.mem_cons_self,
      flatMap_congr_mem l f g fun x hx => h x (List.mem_cons_of_mem _ hx)]

theorem seed_flatMap (κ : Row n) {A Aκ : List (Row n)} {F1 F2 : Row n → List (Row n)}
    (hA : Aκ.Perm (A.filter (supB κ))) (hb : ∀ x ∈ A, BindsDom κ x)
    (hF : ∀ x, Sup κ x → F1 x = F2 x) (hext : ∀ x y, y ∈ F2 x → Sup x y) :
    (Aκ.flatMap F1).Perm ((A.flatMap F2).filter (supB κ)) ∧ ∀ y ∈ A.flatMap F2, BindsDom κ y := by
  refine ⟨?_, ?_⟩
  · rw [flatMap_filter_sup κ F2 hext A hb]
    refine (hA.flatMap_right F1).trans (List.Perm.of_eq ?_)
    apply flatMap_congr_mem
    intro x hx
    exact hF x ((supB_iff κ x).mp (List.mem_filter.mp hx).2)
  · intro y hy
    obtain ⟨x, hx, hyx⟩ := List.mem_flatMap.mp hy
    exact (hb x hx).mono (hext x y hyx)

theorem any_congr_mem {α : Type} : ∀ (l : List α) (p q : α → Bool), (∀ x ∈ l, p x = q x) → l.any p = l.any q
  | [], _, _, _ => rfl
  | a :: l, p, q, h => by
    rw [List.any_cons, List.any_cons, h a List.mem_cons_self,
      any_congr_mem l p q fun x hx => h x (List.mem_cons_of_mem _ hx)]

/-! ### the two kinds of tail -/

theorem ebvOpt_sup (e : Option (Ex n)) {κ y : Row n} (h : Sup κ y) : ebvOpt e κ y = ebvOpt e Row.empty y := by
  cases e with
  | none => rfl
  | some e => simp only [ebvOpt, ebv, exprView, h.merge_right, merge_empty_right]

/-- OPTIONAL { B [FILTER e] } after a part whose `_vars` cover `dom κ`: on a row that contains `κ` the body of
    `evalLeftJoin` does the same with `initBindings = κ` pushed as `ctx` and with no initBindings at all -/
theorem ljRow_seed (g : List Triple) (κ : Row n) (own av : List (Fin n)) (e : Option (Ex n)) (ts : List (TP n))
    (hav : ∀ v, κ v ≠ none → v ∈ av) (x : Row n) (hx : Sup κ x) :
    ljRow κ κ own av e (fun ν => evalBGP (graphStore g) ν (dynOrder ν ts)) x =
      ljRow Row.empty Row.empty own av e (fun ν => evalBGP (graphStore g) ν (dynOrder ν ts)) x := by
  unfold ljRow
  have hr := sup_remember av hx hav
  simp only [thaw, hx.merge_left, hr.merge_left, merge_empty_left]
  have h1 : ((evalBGP (graphStore g) x (dynOrder x ts)).filter fun y => ebvOpt e κ (forget κ κ own y)) =
      ((evalBGP (graphStore g) x (dynOrder x ts)).filter fun y => ebvOpt e Row.empty (forget Row.empty Row.empty own y)) := by
    apply List.filter_congr
    intro y hy
    rw [forget_self, forget_self]
    exact ebvOpt_sup e (hx.trans (evalBGP_graph_sup g _ x y hy))
  have h2 : ((evalBGP (graphStore g) (remember av x) (dynOrder (remember av x) ts)).any fun y => ebvOpt e κ y) =
      ((evalBGP (graphStore g) (remember av x) (dynOrder (remember av x) ts)).any fun y => ebvOpt e Row.empty y) := by
    apply any_congr_mem
    intro y hy
    exact ebvOpt_sup e (hr.trans (evalBGP_graph_sup g _ _ y hy))
  rw [h1, h2]

theorem ljRow_ext (init μ : Row n) (own av : List (Fin n)) (e : Option (Ex n)) (B : Row n → List (Row n))
    (x y : Row n) (h : y ∈ ljRow init μ own av e B x) : Sup x y := by
  unfold ljRow at h
  split at h
  · split at h
    · cases h
    · simp only [List.mem_singleton] at h; subst h; exact Sup.refl _
  · obtain ⟨y', _, e'⟩ := List.mem_map.mp h
    subst e'
    exact Sup.merge x y'

/-- the claim carried along the tails -/
structure SeedClaim (ds : DSet) (g : Store) (κ : Row n) (G : P n) : Prop where
  seed : (evalTD ds κ G g κ).Perm ((evalTD ds Row.empty G g Row.empty).filter (supB κ))
  binds : ∀ x ∈ evalTD ds Row.empty G g Row.empty, BindsDom κ x
  vars : ∀ v, κ v ≠ none → v ∈ G.vars

theorem SeedClaim.bgp (ds : DSet) (gl : List Triple) (κ : Row n) (ts : List (TP n))
    (h : ∀ v, κ v ≠ none → v ∈ bgpVars ts) : SeedClaim ds (graphStore gl) κ (.bgp ts) := by
  have hb : ∀ x ∈ evalBGP (graphStore gl) Row.empty (dynOrder Row.empty ts), BindsDom κ x := by
    intro x hx v hv
    have hp : v ∈ bgpVars (dynOrder Row.empty ts) :=
      (((dynOrder_perm Row.empty ts).symm).flatMap_right tpVars).mem_iff.mp (h v hv)
    exact evalBGP_graph_binds gl _ _ x hx v hp
  refine ⟨?_, hb, h⟩
  simp only [evalTD]
  rw [evalBGP_seed_graph, ← filterMap_joinWith_eq_filter κ _ hb]
  exact (evalBGP_graph_perm gl ((dynOrder_perm κ ts).trans (dynOrder_perm Row.empty ts).symm) Row.empty).filterMap _

theorem SeedClaim.opt {ds : DSet} {gl : List Triple} {κ : Row n} {G : P n} (c : SeedClaim ds (graphStore gl) κ G)
    (ts : List (TP n)) (e : Option (Ex n)) : SeedClaim ds (graphStore gl) κ (.leftJoin G (.bgp ts) e) := by
  have key := seed_flatMap κ c.seed c.binds
    (F1 := ljRow κ κ (G.vars ++ (P.bgp ts).vars) G.vars e (fun ν => evalTD ds κ (.bgp ts) (graphStore gl) ν))
    (F2 := ljRow Row.empty Row.empty (G.vars ++ (P.bgp ts).vars) G.vars e
      (fun ν => evalTD ds Row.empty (.bgp ts) (graphStore gl) ν))
    (fun x hx => by simp only [evalTD]; exact ljRow_seed gl κ _ _ e ts c.vars x hx)
    (fun x y hy => ljRow_ext _ _ _ _ _ _ x y hy)
  exact ⟨by rw [evalTD_leftJoin, evalTD_leftJoin]; exact key.1, by rw [evalTD_leftJoin]; exact key.2,
    fun v hv => List.mem_append_left _ (c.vars v hv)⟩

theorem SeedClaim.uni {ds : DSet} {gl : List Triple} {κ : Row n} {G : P n} (c : SeedClaim ds (graphStore gl) κ G)
    (hl : G.noJoin = true) (ts1 ts2 : List (TP n)) :
    SeedClaim ds (graphStore gl) κ (.join G (.union (.bgp ts1) (.bgp ts2))) := by
  have key := seed_flatMap κ c.seed c.binds
    (F1 := fun x => (evalTD ds κ (.union (.bgp ts1) (.bgp ts2)) (graphStore gl) (thaw κ x)).map fun y => merge x y)
    (F2 := fun x => (evalTD ds Row.empty (.union (.bgp ts1) (.bgp ts2)) (graphStore gl) (thaw Row.empty x)).map
      fun y => merge x y)
    (fun x hx => by simp only [evalTD, thaw, hx.merge_left, merge_empty_left])
    (fun x y hy => by
      obtain ⟨y', _, e'⟩ := List.mem_map.mp hy
      subst e'; exact Sup.merge x y')
  have hlazy : (G.noJoin && (P.union (.bgp ts1) (.bgp ts2)).noJoin) = true := by simp [P.noJoin, hl]
  refine ⟨?_, ?_, fun v hv => List.mem_append_left _ (c.vars v hv)⟩
  · have e1 : evalTD ds κ (.join G (.union (.bgp ts1) (.bgp ts2))) (graphStore gl) κ =
        (evalTD ds κ G (graphStore gl) κ).flatMap fun x =>
          (evalTD ds κ (.union (.bgp ts1) (.bgp ts2)) (graphStore gl) (thaw κ x)).map fun y => merge x y := by
      rw [evalTD, if_pos hlazy]
    have e2 : evalTD ds Row.empty (.join G (.union (.bgp ts1) (.bgp ts2))) (graphStore gl) Row.empty =
        (evalTD ds Row.empty G (graphStore gl) Row.empty).flatMap fun x =>
          (evalTD ds Row.empty (.union (.bgp ts1) (.bgp ts2)) (graphStore gl) (thaw Row.empty x)).map
            fun y => merge x y := by
      rw [evalTD, if_pos hlazy]
    rw [e1, e2]; exact key.1
  · have e2 : evalTD ds Row.empty (.join G (.union (.bgp ts1) (.bgp ts2))) (graphStore gl) Row.empty =
        (evalTD ds Row.empty G (graphStore gl) Row.empty).flatMap fun x =>
          (evalTD ds Row.empty (.union (.bgp ts1) (.bgp ts2)) (graphStore gl) (thaw Row.empty x)).map
            fun y => merge x y := by
      rw [evalTD, if_pos hlazy]
    rw [e2]; exact key.2

/-! ### the query shape and the two ways of asking -/

inductive Tail (n : Nat)
  | opt (ts : List (TP n)) (e : Option (Ex n))      -- OPTIONAL { ts [FILTER e] }
  | uni (ts1 ts2 : List (TP n))                     -- { ts1 } UNION { ts2 }

/-- `translateGroupGraphPattern`: left-deep -/
def Tail.apply (G : P n) : Tail n → P n
  | .opt ts e => .leftJoin G (.bgp ts) e
  | .uni a b => .join G (.union (.bgp a) (.bgp b))

def buildT (ts0 : List (TP n)) (tails : List (Tail n)) : P n := tails.foldl Tail.apply (.bgp ts0)

/-- every join of the tree is evaluated lazily: at most one UNION tail (a later one joins a part that already
    contains a join, and is evaluated by `_join`) -/
def tailsLazy : Bool → List (Tail n) → Bool
  | _, [] => true
  | nj, .opt _ _ :: r => tailsLazy nj r
  | nj, .uni _ _ :: r => nj && tailsLazy false r

theorem SeedClaim.tails {ds : DSet} {gl : List Triple} {κ : Row n} :
    ∀ (tails : List (Tail n)) (G : P n), SeedClaim ds (graphStore gl) κ G → tailsLazy G.noJoin tails = true →
      SeedClaim ds (graphStore gl) κ (tails.foldl Tail.apply G)
  | [], _, c, _ => c
  | .opt ts e :: r, G, c, h => by
    simp only [List.foldl_cons, Tail.apply]
    refine SeedClaim.tails r _ (c.opt ts e) ?_
    simpa only [tailsLazy, P.noJoin, Bool.and_true] using h
  | .uni a b :: r, G, c, h => by
    simp only [tailsLazy, Bool.and_eq_true] at h
    simp only [List.foldl_cons, Tail.apply]
    exact SeedClaim.tails r _ (c.uni h.1 a b) (by simpa only [P.noJoin] using h.2)

/-- the VALUES row joined at the end of the group, no initBindings -/
theorem values_join_eq_filter (ds : DSet) (g : Store) (κ : Row n) (G : P n)
    (hb : ∀ x ∈ evalTD ds Row.empty G g Row.empty, BindsDom κ x) :
    evalTD ds Row.empty (.join G (.values [κ])) g Row.empty = (evalTD ds Row.empty G g Row.empty).filter (supB κ) := by
  have hrow : ∀ x, BindsDom κ x →
      ((if compat κ x then some (merge x κ) else none : Option (Row n)) = if supB κ x then some x else none) := by
    intro x hx
    have := joinWith_of_binds hx
    simp only [joinWith] at this
    rw [compat_comm κ x]; exact this
  simp only [evalTD, P.noJoin, Bool.and_true]
  split
  · -- lazy: each solution pushed into the VALUES block
    generalize hA : evalTD ds Row.empty G g Row.empty = A at hb
    clear hA
    induction A with
    | nil => rfl
    | cons x A ih =>
      have hx := hb x List.mem_cons_self
      rw [List.flatMap_cons, ih fun y hy => hb y (List.mem_cons_of_mem _ hy), List.filter_cons]
      simp only [thaw, merge_empty_left, List.filterMap_cons, List.filterMap_nil, hrow x hx]
      cases hs : supB κ x with
      | false => simp
      | true =>
        have : merge x x = x := by
          funext v; simp only [merge]; cases x v <;> rfl
        simp [this]
  · -- not lazy: `_join` with the one-row bag
    have hv : (List.filterMap (fun r => if compat r Row.empty then some (merge Row.empty r) else none) [κ]) = [κ] := by
      simp [compat_comm κ Row.empty, compat_empty_left, merge_empty_left]
    rw [hv, joinBag_singleton]
    exact filterMap_joinWith_eq_filter κ _ hb


/-! ### a UNION tail joined by `_join` (the part before it already contains a join) -/

theorem pair_joinWith {κ a : Row n} (ha : Sup κ a) (u : Row n) :
    ((joinWith κ u).bind fun u' => if compat a u' then some (merge a u') else none) =
      (if compat a u then some (merge a u) else none) := by
  by_cases hc : compat a u = true
  · have hcu : compat u κ = true := by
      rw [compat_iff] at hc ⊢
      intro v s t hu hk
      exact (hc v t s (ha v t hk) hu).symm
    have hc2 : compat a (merge u κ) = true := by
      rw [compat_iff] at hc ⊢
      intro v s t hav hm
      simp only [merge] at hm
      cases hu : u v with
      | some x =>
        simp only [hu, Option.some.injEq] at hm
        subst hm
        exact hc v s _ hav hu
      | none =>
        rw [hu] at hm
        have := ha v t hm
        rw [hav] at this; exact Option.some.inj this
    have hm : merge a (merge u κ) = merge a u := by
      funext v
      simp only [merge]
      cases hav : a v with
      | some x => rfl
      | none =>
        cases hu : u v with
        | some y => rfl
        | none =>
          cases hk : κ v with
          | none => rfl
          | some t => rw [ha v t hk] at hav; cases hav
    simp [joinWith, hcu, hc, hc2, hm]
  · have hcf : compat a u = false := by simpa using hc
    simp only [hcf, Bool.false_eq_true, if_false]
    by_cases hcu : compat u κ = true
    · have hc2 : compat a (merge u κ) = false := by
        rw [Bool.eq_false_iff]
        intro h2
        apply hc
        rw [compat_iff] at h2 ⊢
        intro v s t hav hu
        exact h2 v s t hav (by simp [merge, hu])
      simp [joinWith, hcu, hc2]
    · have : compat u κ = false := by simpa using hcu
      simp [joinWith, this]

theorem joinBag_seed (κ : Row n) {A Aκ U Uκ : List (Row n)} (hA : Aκ.Perm (A.filter (supB κ)))
    (hb : ∀ x ∈ A, BindsDom κ x) (hU : Uκ.Perm (U.filterMap (joinWith κ))) :
    (joinBag Aκ Uκ).Perm ((joinBag A U).filter (supB κ)) ∧ ∀ y ∈ joinBag A U, BindsDom κ y := by
  have key := seed_flatMap κ hA hb
    (F1 := fun a => (U.filterMap (joinWith κ)).filterMap fun b => if compat a b then some (merge a b) else none)
    (F2 := fun a => U.filterMap fun b => if compat a b then some (merge a b) else none)
    (fun a ha => by
      simp only [List.filterMap_filterMap]
      congr 1
      funext u
      exact pair_joinWith ha u)
    (fun a y hy => by
      obtain ⟨b, _, hb'⟩ := List.mem_filterMap.mp hy
      split at hb'
      · cases hb'; exact Sup.merge a b
      · cases hb')
  refine ⟨?_, key.2⟩
  refine (joinBag_perm (List.Perm.refl Aκ) hU).trans ?_
  exact key.1

theorem SeedClaim.uniStrict {ds : DSet} {gl : List Triple} {κ : Row n} {G : P n} (c : SeedClaim ds (graphStore gl) κ G)
    (hl : G.noJoin = false) (ts1 ts2 : List (TP n)) :
    SeedClaim ds (graphStore gl) κ (.join G (.union (.bgp ts1) (.bgp ts2))) := by
  have hU : (evalTD ds κ (.union (.bgp ts1) (.bgp ts2)) (graphStore gl) κ).Perm
      ((evalTD ds Row.empty (.union (.bgp ts1) (.bgp ts2)) (graphStore gl) Row.empty).filterMap (joinWith κ)) := by
    simp only [evalTD, List.filterMap_append]
    have one : ∀ ts : List (TP n), (evalBGP (graphStore gl) κ (dynOrder κ ts)).Perm
        ((evalBGP (graphStore gl) Row.empty (dynOrder Row.empty ts)).filterMap (joinWith κ)) := by
      intro ts
      rw [evalBGP_seed_graph]
      exact (evalBGP_graph_perm gl ((dynOrder_perm κ ts).trans (dynOrder_perm Row.empty ts).symm) Row.empty).filterMap _
    exact (one ts1).append (one ts2)
  have key := joinBag_seed κ c.seed c.binds hU
  have hnl : (G.noJoin && (P.union (.bgp ts1) (.bgp ts2)).noJoin) = false := by simp [hl]
  have e1 : ∀ init μ, evalTD ds init (.join G (.union (.bgp ts1) (.bgp ts2))) (graphStore gl) μ =
      joinBag (evalTD ds init G (graphStore gl) μ) (evalTD ds init (.union (.bgp ts1) (.bgp ts2)) (graphStore gl) μ) := by
    intro init μ
    rw [evalTD, if_neg (by rw [hnl]; simp)]
  refine ⟨by rw [e1, e1]; exact key.1, by rw [e1]; exact key.2, fun v hv => List.mem_append_left _ (c.vars v hv)⟩

theorem SeedClaim.allTails {ds : DSet} {gl : List Triple} {κ : Row n} :
    ∀ (tails : List (Tail n)) (G : P n), SeedClaim ds (graphStore gl) κ G →
      SeedClaim ds (graphStore gl) κ (tails.foldl Tail.apply G)
  | [], _, c => c
  | .opt ts e :: r, G, c => by
    simp only [List.foldl_cons, Tail.apply]
    exact SeedClaim.allTails r _ (c.opt ts e)
  | .uni a b :: r, G, c => by
    simp only [List.foldl_cons, Tail.apply]
    cases hl : G.noJoin with
    | true => exact SeedClaim.allTails r _ (c.uni hl a b)
    | false => exact SeedClaim.allTails r _ (c.uniStrict hl a b)

end RV.C15
