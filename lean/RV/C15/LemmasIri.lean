import RV.C15.ModelIri
/-
  Helper lemmas for C15, round h: BASE-relative resolution (`urljoin` as CPython codes it) on the shape the
  spelling rewrites use — a base whose path is a directory, a reference that is one plain segment.
-/
namespace RV.C15.Iri

open List

set_option linter.unusedSimpArgs false

/-- a path segment that `urljoin` leaves alone: not empty, not a dot segment, no "/" inside -/
structure PlainSeg (s : S) : Prop where
  ne : s ≠ []
  nd : s ≠ dot
  ndd : s ≠ dotdot
  ns : cSlash ∉ s

theorem splitSlash_plain {s : S} (h : cSlash ∉ s) : splitSlash s = [s] := by
  induction s with
  | nil => rfl
  | cons c cs ih =>
    have hc : c ≠ cSlash := fun e => h (by simp [e])
    have hcs : cSlash ∉ cs := fun m => h (List.mem_cons_of_mem _ m)
    simp [splitSlash, hc, ih hcs]

theorem splitSlash_append {s : S} (h : cSlash ∉ s) (t : S) :
    splitSlash (s ++ cSlash :: t) = s :: splitSlash t := by
  induction s with
  | nil => simp [splitSlash]
  | cons c cs ih =>
    have hc : c ≠ cSlash := fun e => h (by simp [e])
    have hcs : cSlash ∉ cs := fun m => h (List.mem_cons_of_mem _ m)
    simp [splitSlash, hc, ih hcs]

/-- `split` undoes `join` on "/"-free segments -/
theorem splitSlash_joinSlash : ∀ (l : List S), l ≠ [] → (∀ s ∈ l, cSlash ∉ s) → splitSlash (joinSlash l) = l
  | [], h, _ => absurd rfl h
  | [s], _, hs => by simpa [joinSlash] using splitSlash_plain (hs s (by simp))
  | s :: t :: ss, _, hs => by
    simp only [joinSlash]
    rw [splitSlash_append (hs s (by simp)), splitSlash_joinSlash (t :: ss) (by simp) fun x hx => hs x (by simp [hx])]

theorem joinSlash_snoc (loc : S) : ∀ (l : List S), joinSlash (l ++ [[]]) ++ loc = joinSlash (l ++ [loc])
  | [] => by simp [joinSlash]
  | [s] => by simp [joinSlash]
  | s :: t :: ss => by
    have ih := joinSlash_snoc loc (t :: ss)
    simp only [List.cons_append] at ih ⊢
    cases hss : ss ++ [[]] with
    | nil => simp at hss
    | cons a as =>
      cases hss' : ss ++ [loc] with
      | nil => simp at hss'
      | cons a' as' =>
        simp only [hss, hss'] at ih
        simp only [joinSlash, List.append_assoc, List.cons_append] at ih ⊢
        rw [ih]

/-- no dot segment: the `for seg in segments` loop copies the list -/
theorem resolveSegs_noDots : ∀ (l stk : List S), (∀ s ∈ l, s ≠ dot ∧ s ≠ dotdot) →
    resolveSegs stk l = stk.reverse ++ l
  | [], stk, _ => by simp [resolveSegs]
  | s :: rest, stk, h => by
    have hs := h s (by simp)
    simp only [resolveSegs, hs.1, hs.2, if_false]
    rw [resolveSegs_noDots rest (s :: stk) fun x hx => h x (by simp [hx])]
    simp

theorem filter_nonempty_plain : ∀ (dirs : List S), (∀ d ∈ dirs, PlainSeg d) →
    (dirs ++ [[]]).filter (fun s => !s.isEmpty) = dirs
  | [], _ => by simp
  | d :: ds, h => by
    have hd := (h d (by simp)).ne
    have : d.isEmpty = false := by cases d with
      | nil => exact absurd rfl hd
      | cons _ _ => rfl
    simp only [List.cons_append, List.filter_cons, this, Bool.not_false, if_true]
    rw [filter_nonempty_plain ds fun x hx => h x (by simp [hx])]

theorem head_joinSlash_ne (dirs : List S) (x : S) (hd : ∀ d ∈ dirs, PlainSeg d) (hx : cSlash ∉ x) :
    (joinSlash (dirs ++ [x])).head? ≠ some cSlash := by
  cases dirs with
  | nil =>
    simp only [List.nil_append, joinSlash]
    cases x with
    | nil => simp
    | cons c cs =>
      simp only [List.head?_cons, ne_eq, Option.some.injEq]
      intro e; exact hx (by simp [e])
  | cons d ds =>
    have pd := hd d (by simp)
    cases d with
    | nil => exact absurd rfl pd.ne
    | cons c cs =>
      have hc : c ≠ cSlash := fun e => pd.ns (by simp [e])
      cases hds : ds ++ [x] with
      | nil => simp at hds
      | cons a as =>
        simp only [List.cons_append, hds, joinSlash, List.head?_cons, ne_eq, Option.some.injEq]
        exact hc

/-- appending to a path that starts with "/" (and not with "//") appends to the recomposed IRI -/
theorem unparse_path_append (scheme netloc X loc : S) (h1 : X.head? ≠ some cSlash) (h2 : (X ++ loc).head? ≠ some cSlash) :
    unparse ⟨scheme, netloc, cSlash :: (X ++ loc), [], [], []⟩ =
      unparse ⟨scheme, netloc, cSlash :: X, [], [], []⟩ ++ loc := by
  have t1 : ((cSlash :: X).take 2 != [cSlash, cSlash]) = true := by
    cases X with
    | nil => decide
    | cons x xs =>
      simp only [List.head?_cons, ne_eq, Option.some.injEq] at h1
      simp [h1]
  have t2 : ((cSlash :: (X ++ loc)).take 2 != [cSlash, cSlash]) = true := by
    cases hxl : X ++ loc with
    | nil => decide
    | cons x xs =>
      rw [hxl] at h2
      simp only [List.head?_cons, ne_eq, Option.some.injEq] at h2
      simp [h2]
  simp only [unparse, List.isEmpty_nil, if_true, t1, t2, List.head?_cons, List.isEmpty_cons, Bool.not_false,
    Bool.true_and, bne_self_eq_false, Bool.and_false, if_false, Bool.and_true]
  split <;> split <;> simp

/-- every scheme `urljoin` resolves against has an authority part -/
theorem usesRelative_sub_usesNetloc : usesRelative.all (fun s => usesNetloc.contains s) = true := by decide

theorem joinParts_plain (scheme netloc : S) (dirs : List S) (loc : S) (hs : usesRelative.contains scheme = true)
    (hd : ∀ d ∈ dirs, PlainSeg d) (hl : PlainSeg loc) :
    joinParts ⟨scheme, netloc, joinSlash ([] :: dirs ++ [[]]), [], [], []⟩ ⟨scheme, [], loc, [], [], []⟩ =
      some (unparse ⟨scheme, netloc, joinSlash ([] :: dirs ++ [[]]), [], [], []⟩ ++ loc) := by
  have hn : usesNetloc.contains scheme = true := by
    have := List.all_eq_true.mp usesRelative_sub_usesNetloc scheme (List.contains_iff_mem.mp hs)
    exact this
  have hsl : ∀ s ∈ ([] : S) :: dirs ++ [[]], cSlash ∉ s := by
    intro s hs'
    simp only [List.cons_append, List.mem_cons, List.mem_append, List.mem_singleton, List.not_mem_nil, or_false] at hs'
    rcases hs' with e | e | e
    · subst e; simp
    · exact (hd s e).ns
    · subst e; simp
  have hsplit := splitSlash_joinSlash (([] : S) :: dirs ++ [[]]) (by simp) hsl
  have hlocne : loc.isEmpty = false := by
    cases loc with
    | nil => exact absurd rfl hl.ne
    | cons _ _ => rfl
  have hhead : (loc.head? == some cSlash) = false := by
    cases loc with
    | nil => rfl
    | cons c cs =>
      have : c ≠ cSlash := fun e => hl.ns (by simp [e])
      simp [this]
  have hlast : (([] : S) :: dirs ++ [[]]).getLastD [] = [] := by
    rw [show (([] : S) :: dirs ++ [[]]) = (([] : S) :: dirs) ++ [[]] by simp, List.getLastD_concat]
  have hseg : dropEmptyMiddle (([] : S) :: dirs ++ [[]] ++ [loc]) = [] :: dirs ++ [loc] := by
    have e : ([] : S) :: dirs ++ [[]] ++ [loc] = [] :: ((dirs ++ [[]]) ++ [loc]) := by simp
    rw [e]
    cases hdl : (dirs ++ [[]]) ++ [loc] with
    | nil => simp at hdl
    | cons b rest =>
      simp only [dropEmptyMiddle]
      rw [← hdl, List.dropLast_concat, filter_nonempty_plain dirs hd]
      simp
  have hres : resolveSegs [] (([] : S) :: dirs ++ [loc]) = [] :: dirs ++ [loc] := by
    rw [resolveSegs_noDots]
    · simp
    · intro s hs'
      simp only [List.cons_append, List.mem_cons, List.mem_append, List.mem_singleton, List.not_mem_nil, or_false] at hs'
      rcases hs' with e | e | e
      · subst e; exact ⟨by decide, by decide⟩
      · exact ⟨(hd s e).nd, (hd s e).ndd⟩
      · subst e; exact ⟨hl.nd, hl.ndd⟩
  have hlast2 : (([] : S) :: dirs ++ [loc]).getLastD [] = loc := by
    rw [show (([] : S) :: dirs ++ [loc]) = (([] : S) :: dirs) ++ [loc] by simp, List.getLastD_concat]
  have hj : ∀ x : S, joinSlash (([] : S) :: dirs ++ [x]) = cSlash :: joinSlash (dirs ++ [x]) := by
    intro x
    cases hdx : dirs ++ [x] with
    | nil => simp at hdx
    | cons a as => simp [joinSlash, hdx]
  simp only [joinParts, bne_self_eq_false, hs, Bool.not_true, Bool.or_self, Bool.false_eq_true, if_false, hn,
    List.isEmpty_nil, Bool.not_true, Bool.and_false, hlocne, Bool.false_and, hsplit, hlast, hhead, splitSlash_plain hl.ns, hseg, hres, hlast2,
    hl.nd, hl.ndd, or_self, bne_self_eq_false]
  simp only [decide_false, Bool.false_eq_true, if_false, if_true, hj loc, hj [], List.isEmpty_cons]
  rw [← joinSlash_snoc loc dirs]
  congr 1
  refine unparse_path_append scheme netloc _ loc (head_joinSlash_ne dirs [] hd (by simp)) ?_
  rw [joinSlash_snoc loc dirs]
  exact head_joinSlash_ne dirs loc hd hl.ns

theorem absolutize_colon (base iri : S) (h : iri.contains cColon = true) : absolutize base iri = iri := by
  unfold absolutize
  rw [if_pos h]

theorem absolutize_nobase (iri : S) : absolutize [] iri = iri := by
  unfold absolutize
  split
  · rfl
  · simp [uriRefBase, urljoin]

end RV.C15.Iri
