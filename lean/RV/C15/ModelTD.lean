import RV.C15.Model
/-
  C15, round g — the evaluator as rdflib really runs it: TOP-DOWN, one `evalPart(ctx, part)` per algebra node,
  the bindings made so far pushed into the operand evaluated next.

  rdflib/plugins/sparql/evaluate.py
    evalPart (dispatch; BGP branch: dynamic sort)                 → `evalTD`
    evalJoin / evalLazyJoin (`join.lazy`, `ctx.thaw(a)`, `b.merge(a)`) → `.join` case
    evalLeftJoin (filter on `b.forget(ctx, _except=own_vars)`; the "no match even without prior bindings"
                  re-check under `a.remember(p1._vars)`)           → `.leftJoin` case
    evalUnion, evalMinus (`ctx.clean()`, `remember(_vars)`, compatible / disjointDomain)
    evalFilter (`c.forget(ctx, _except=part._vars)`), evalExtend, evalGraph, evalValues, evalProject
  rdflib/plugins/sparql/algebra.py
    _addVars (`_vars`: what a part MAY bind; expr of Filter/Extend/LeftJoin and the right side of MINUS left out;
              nothing for a VALUES block)                           → `P.vars`
    analyse (`lazy` = no Join / Slice / Distinct below either operand) → `P.noJoin`
    simplify (BGP branch: `reorderTriples`)                           → `P.reorder`
  rdflib/plugins/sparql/sparql.py
    QueryContext.clone / thaw / clean (initBindings re-seeded, and they win), FrozenBindings.forget / remember /
    __getitem__ (falls back to `ctx.initBindings`)                    → `thaw`, `forget`, `remember`, `exprView`
-/
namespace RV.C15

/-- a dataset: the default graph, and the named graphs as `ctx.dataset.contexts()` lists them (without the default
    context) -/
structure DSet where
  dflt : Store
  named : List (Term × Store)

/-- `ctx.dataset.get_context(name)` for a name that is a graph of the dataset; `none` = not a graph of it -/
def lookupGraph : List (Term × Store) → Term → Option Store
  | [], _ => none
  | (k, s) :: rest, nm => if k = nm then some s else lookupGraph rest nm

/-- the translated algebra (`CompValue` tree) of a group graph pattern -/
inductive P (n : Nat)
  | bgp (ts : List (TP n))
  | join (a b : P n)
  | leftJoin (a b : P n) (e : Option (Ex n))      -- `none` = TrueFilter
  | union (a b : P n)
  | minus (a b : P n)
  | filter (e : Ex n) (p : P n)
  | extend (p : P n) (v : Fin n) (e : PT n)       -- BIND(e AS ?v), e a variable or a constant
  | graph (t : PT n) (p : P n)
  | values (rows : List (Row n))                  -- ToMultiSet(values(res)); `none` = UNDEF
  | sub (pv : List (Fin n)) (p : P n)             -- ToMultiSet(Project(p, PV)): a sub-SELECT without modifiers

/-- `_addVars`: the variables a part may bind -/
def P.vars {n : Nat} : P n → List (Fin n)
  | .bgp ts => bgpVars ts
  | .join a b => a.vars ++ b.vars
  | .leftJoin a b _ => a.vars ++ b.vars
  | .union a b => a.vars ++ b.vars
  | .minus a _ => a.vars
  | .filter _ p => p.vars
  | .extend p v _ => p.vars ++ [v]
  | .graph t p => ptVars t ++ p.vars
  | .values _ => []
  | .sub pv p => p.vars ++ pv                    -- everything below, the un-projected variables included (C04-K1)

/-- `analyse`: can this part be the operand of a lazy join? (no Join below it) -/
def P.noJoin {n : Nat} : P n → Bool
  | .bgp _ => true
  | .join _ _ => false
  | .leftJoin a b _ => a.noJoin && b.noJoin
  | .union a b => a.noJoin && b.noJoin
  | .minus a b => a.noJoin && b.noJoin
  | .filter _ p => p.noJoin
  | .extend p _ _ => p.noJoin
  | .graph _ p => p.noJoin
  | .values _ => true
  | .sub _ p => p.noJoin

/-- `ctx.thaw(a)` = `clone(a)`: `Bindings(d=a)`, then `bindings.update(initBindings)` — initBindings win -/
def thaw {n : Nat} (init a : Row n) : Row n := merge init a

/-- `FrozenBindings.forget(before, _except)`: keep an item when its variable is in `_except`, is an initBindings
    variable, or was unbound in the context `before` -/
def forget {n : Nat} (init before : Row n) (exc : List (Fin n)) (b : Row n) : Row n :=
  fun v => if exc.contains v || (init v).isSome || (before v).isNone then b v else none

/-- `FrozenBindings.remember(these)` -/
def remember {n : Nat} (these : List (Fin n)) (b : Row n) : Row n := project these b

/-- what an expression reads through `FrozenBindings.__getitem__`: the items of the solution, then
    `ctx.initBindings` -/
def exprView {n : Nat} (init b : Row n) : Row n := merge b init

/-- `_ebv(expr, row)`: an error is false -/
def ebv {n : Nat} (e : Ex n) (init b : Row n) : Bool := e.eval (exprView init b) == some true

def ebvOpt {n : Nat} (e : Option (Ex n)) (init b : Row n) : Bool :=
  match e with
  | none => true
  | some e => ebv e init b

/-- `FrozenDict.disjointDomain` -/
def disjointDom {n : Nat} (a b : Row n) : Bool :=
  (List.finRange n).all fun v => !((a v).isSome && (b v).isSome)

/-- the join of a GRAPH ?g solution with `{?g: name}` (`_join(…, [{part.term: graph.identifier}])`); the term is a
    variable here, a constant would be compatible with anything -/
def withGraphName {n : Nat} (t : PT n) (nm : Term) (x : Row n) : Option (Row n) :=
  match t with
  | .const _ => some x
  | .var v =>
    match x v with
    | none => some (x.set v nm)
    | some y => if y = nm then some x else none

/-- `evalPart(ctx, part)`; `g` = `ctx.graph`, `μ` = `ctx.bindings` (initBindings included), `init` = `ctx.initBindings` -/
def evalTD {n : Nat} (ds : DSet) (init : Row n) : P n → Store → Row n → List (Row n)
  | .bgp ts, g, μ => evalBGP g μ (dynOrder μ ts)
  | .join a b, g, μ =>
    if a.noJoin && b.noJoin then
      -- evalLazyJoin: `for a in evalPart(ctx, p1): c = ctx.thaw(a); for b in evalPart(c, p2): yield b.merge(a)`
      (evalTD ds init a g μ).flatMap fun x => (evalTD ds init b g (thaw init x)).map fun y => merge x y
    else
      joinBag (evalTD ds init a g μ) (evalTD ds init b g μ)
  | .leftJoin a b e, g, μ =>
    (evalTD ds init a g μ).flatMap fun x =>
      let ms := (evalTD ds init b g (thaw init x)).filter fun y => ebvOpt e init (forget init μ (a.vars ++ b.vars) y)
      if ms.isEmpty then
        -- "check that we would have had no OPTIONAL matches even without prior bindings"
        if (evalTD ds init b g (thaw init (remember a.vars x))).any fun y => ebvOpt e init y then [] else [x]
      else ms.map fun y => merge x y
  | .union a b, g, μ => evalTD ds init a g μ ++ evalTD ds init b g μ
  | .minus a b, g, μ =>
    -- right side in `ctx.clean()` (bindings = initBindings only); both sides compared on their own `_vars`
    (evalTD ds init a g μ).filter fun x =>
      ((evalTD ds init b g init).map (remember b.vars)).all fun y =>
        !(compat (remember a.vars x) y) || disjointDom (remember a.vars x) y
  | .filter e p, g, μ => (evalTD ds init p g μ).filter fun c => ebv e init (forget init μ p.vars c)
  | .extend p v e, g, μ =>
    (evalTD ds init p g μ).filterMap fun c =>
      match (exprView init (forget init μ (p.vars ++ [v]) c)).look e with
      | none => some c                                   -- NotBoundError: `yield c`
      | some t =>
        match exprView init c v with                     -- `extend.var in c and c[extend.var] != e`
        | none => some (c.set v t)
        | some t' => if t' = t then some (c.set v t) else none
  | .graph t p, _, μ =>
    match μ.look t with
    | none =>
      ds.named.flatMap fun x => (evalTD ds init p x.2 μ).filterMap (withGraphName t x.1)
    | some nm =>
      match lookupGraph ds.named nm with
      | none => []
      | some gs => evalTD ds init p gs μ
  | .values rows, _, μ =>
    -- `c = ctx.push(); c[k] = v` for every non-UNDEF item (AlreadyBound → next row); `yield c.solution()`
    rows.filterMap fun r => if compat r μ then some (merge μ r) else none
  | .sub pv p, g, μ =>
    -- evalMultiset: `_join(evalPart(ctx.clean(), part.p), [ctx.solution()])`, part.p = Project: the sub-select runs in
    -- a context that holds the initBindings only, its rows are projected, then joined with the current bindings
    joinBag ((evalTD ds init p g init).map (project pv)) [μ]

/-- `simplify` at translation time: the triple list of every BGP goes through `reorderTriples` -/
def P.reorder {n : Nat} (isLit : Term → Bool) (tle : TP n → TP n → Bool) : P n → P n
  | .bgp ts => .bgp (reorderTriples isLit tle ts)
  | .join a b => .join (a.reorder isLit tle) (b.reorder isLit tle)
  | .leftJoin a b e => .leftJoin (a.reorder isLit tle) (b.reorder isLit tle) e
  | .union a b => .union (a.reorder isLit tle) (b.reorder isLit tle)
  | .minus a b => .minus (a.reorder isLit tle) (b.reorder isLit tle)
  | .filter e p => .filter e (p.reorder isLit tle)
  | .extend p v e => .extend (p.reorder isLit tle) v e
  | .graph t p => .graph t (p.reorder isLit tle)
  | .values rows => .values rows
  | .sub pv p => .sub pv (p.reorder isLit tle)

/-- `Graph.query(SELECT pv { P }, initBindings=init)`: `QueryContext(graph, initBindings=init)` (bindings = init),
    `evalPart` of the group, `evalProject` -/
def evalSelectTD {n : Nat} (ds : DSet) (init : Row n) (pv : List (Fin n)) (q : P n) : List (Row n) :=
  (evalTD ds init q ds.dflt init).map (project pv)

end RV.C15
