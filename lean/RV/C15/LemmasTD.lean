import RV.C15.ModelTD
import RV.C15.LemmasAlg
/-
  Helper lemmas for C15, round g: the top-down evaluator `evalTD` (ModelTD.lean).
  Part 1: permuting the triple patterns of any BGP anywhere in the tree leaves the bag alone (through lazy and
  non-lazy joins, OPTIONAL with its re-check, MINUS, FILTER, BIND, GRAPH, UNION).
-/
namespace RV.C15

open List

variable {n : Nat}

/-! ### the `_vars` annotations are used as sets -/

def VEq (a b : List (Fin n)) : Prop := ∀ v, v ∈ a ↔ v ∈ b

theorem VEq.refl (a : List (Fin n)) : VEq a a := fun _ => Iff.rfl

theorem VEq.append {a a' b b' : List (Fin n)} (h1 : VEq a a') (h2 : VEq b b') : VEq (a ++ b) (a' ++ b') := by
  intro v; simp only [List.mem_append, h1 v, h2 v]

theorem VEq.contains {a b : List (Fin n)} (h : VEq a b) (v : Fin n) : a.contains v = b.contains v := by
  rw [Bool.eq_iff_iff, List.contains_iff_mem, List.contains_iff_mem]; exact h v

theorem forget_congr (init μ : Row n) {a b : List (Fin n)} (h : VEq a b) : forget init μ a = forget init μ b := by
  funext y v; simp only [forget, h.contains v]

theorem remember_congr {a b : List (Fin n)} (h : VEq a b) : (remember a : Row n → Row n) = remember b := by
  funext y v; simp only [remember, project, h.contains v]

/-- BGP permutations anywhere in the tree (everything else as it is) -/
inductive RwB : P n → P n → Prop
  | refl (q : P n) : RwB q q
  | trans {a b c : P n} : RwB a b → RwB b c → RwB a c
  | bgp {ts ts' : List (TP n)} : ts.Perm ts' → RwB (.bgp ts) (.bgp ts')
  | join {a a' b b' : P n} : RwB a a' → RwB b b' → RwB (.join a b) (.join a' b')
  | leftJoin (e : Option (Ex n)) {a a' b b' : P n} : RwB a a' → RwB b b' → RwB (.leftJoin a b e) (.leftJoin a' b' e)
  | union {a a' b b' : P n} : RwB a a' → RwB b b' → RwB (.union a b) (.union a' b')
  | minus {a a' b b' : P n} : RwB a a' → RwB b b' → RwB (.minus a b) (.minus a' b')
  | filter (e : Ex n) {p p' : P n} : RwB p p' → RwB (.filter e p) (.filter e p')
  | extend (v : Fin n) (e : PT n) {p p' : P n} : RwB p p' → RwB (.extend p v e) (.extend p' v e)
  | graph (t : PT n) {p p' : P n} : RwB p p' → RwB (.graph t p) (.graph t p')
  | sub (pv : List (Fin n)) {p p' : P n} : RwB p p' → RwB (.sub pv p) (.sub pv p')

theorem RwB.vars {q q' : P n} (h : RwB q q') : VEq q.vars q'.vars := by
  induction h with
  | refl q => exact VEq.refl _
  | trans _ _ ih1 ih2 => exact fun v => (ih1 v).trans (ih2 v)
  | bgp hp => exact fun v => (hp.flatMap_right tpVars).mem_iff
  | join _ _ ih1 ih2 => exact ih1.append ih2
  | leftJoin e _ _ ih1 ih2 => exact ih1.append ih2
  | union _ _ ih1 ih2 => exact ih1.append ih2
  | minus _ _ ih1 _ => exact ih1
  | filter e _ ih => exact ih
  | extend v e _ ih => exact ih.append (VEq.refl _)
  | graph t _ ih => exact (VEq.refl _).append ih
  | sub pv _ ih => exact ih.append (VEq.refl _)

theorem RwB.noJoin {q q' : P n} (h : RwB q q') : q.noJoin = q'.noJoin := by
  induction h with
  | refl q => rfl
  | trans _ _ ih1 ih2 => exact ih1.trans ih2
  | bgp hp => rfl
  | join _ _ _ _ => rfl
  | leftJoin e _ _ ih1 ih2 => simp only [P.noJoin, ih1, ih2]
  | union _ _ ih1 ih2 => simp only [P.noJoin, ih1, ih2]
  | minus _ _ ih1 ih2 => simp only [P.noJoin, ih1, ih2]
  | filter e _ ih => simpa only [P.noJoin] using ih
  | extend v e _ ih => simpa only [P.noJoin] using ih
  | graph t _ ih => simpa only [P.noJoin] using ih
  | sub pv _ ih => simpa only [P.noJoin] using ih

/-! ### one row of `evalLeftJoin`, over an arbitrary evaluator of the right operand -/

/-- the body of `for a in evalPart(ctx, join.p1)` in `evalLeftJoin` -/
def ljRow (init μ : Row n) (own av : List (Fin n)) (e : Option (Ex n)) (B : Row n → List (Row n)) (x : Row n) :
    List (Row n) :=
  if ((B (thaw init x)).filter fun y => ebvOpt e init (forget init μ own y)).isEmpty then
    if (B (thaw init (remember av x))).any fun y => ebvOpt e init y then [] else [x]
  else ((B (thaw init x)).filter fun y => ebvOpt e init (forget init μ own y)).map fun y => merge x y

theorem evalTD_leftJoin (ds : DSet) (init : Row n) (a b : P n) (e : Option (Ex n)) (g : Store) (μ : Row n) :
    evalTD ds init (.leftJoin a b e) g μ =
      (evalTD ds init a g μ).flatMap
        (ljRow init μ (a.vars ++ b.vars) a.vars e (fun ν => evalTD ds init b g ν)) := rfl

theorem ljRow_perm (init μ : Row n) (own av : List (Fin n)) (e : Option (Ex n)) {B B' : Row n → List (Row n)}
    (h : ∀ ν, (B ν).Perm (B' ν)) (x : Row n) : (ljRow init μ own av e B x).Perm (ljRow init μ own av e B' x) := by
  have h1 := (h (thaw init x)).filter fun y => ebvOpt e init (forget init μ own y)
  have h2 : ((B (thaw init (remember av x))).any fun y => ebvOpt e init y) =
      ((B' (thaw init (remember av x))).any fun y => ebvOpt e init y) := (h _).any_eq
  unfold ljRow
  rw [h1.isEmpty_eq, h2]
  split
  · exact List.Perm.refl _
  · exact h1.map _

theorem ljRow_congr_vars (init μ : Row n) {own own' av av' : List (Fin n)} (h1 : VEq own own') (h2 : VEq av av')
    (e : Option (Ex n)) : ljRow init μ own av e = ljRow init μ own' av' e := by
  funext B x
  unfold ljRow
  rw [forget_congr init μ h1, remember_congr h2]

/-! ### the stores an evaluation can reach -/

/-- a store that answers `triples(pattern)` like some list of triples -/
def GoodStore (g : Store) : Prop := ∃ l, GraphLike g l

def DSet.Good (ds : DSet) : Prop := ∀ x ∈ ds.named, GoodStore x.2

theorem lookupGraph_mem : ∀ (l : List (Term × Store)) (nm : Term) (gs : Store),
    lookupGraph l nm = some gs → ∃ x ∈ l, x.2 = gs
  | [], _, _, h => by simp [lookupGraph] at h
  | (k, s) :: rest, nm, gs, h => by
    simp only [lookupGraph] at h
    split at h
    · exact ⟨(k, s), List.mem_cons_self, Option.some.inj h⟩
    · obtain ⟨x, hx, e⟩ := lookupGraph_mem rest nm gs h
      exact ⟨x, List.mem_cons_of_mem _ hx, e⟩

theorem evalTD_rwB (ds : DSet) (hds : ds.Good) (init : Row n) {q q' : P n} (h : RwB q q') :
    ∀ (g : Store) (μ : Row n), GoodStore g → (evalTD ds init q g μ).Perm (evalTD ds init q' g μ) := by
  induction h with
  | refl q => exact fun _ _ _ => List.Perm.refl _
  | trans _ _ ih1 ih2 => exact fun g μ hg => (ih1 g μ hg).trans (ih2 g μ hg)
  | bgp hp =>
    intro g μ hg
    obtain ⟨l, hl⟩ := hg
    exact evalBGP_graphLike_perm hl ((dynOrder_perm μ _).trans (hp.trans (dynOrder_perm μ _).symm)) μ
  | @join a a' b b' ha hb iha ihb =>
    intro g μ hg
    simp only [evalTD, ← ha.noJoin, ← hb.noJoin]
    split
    · exact ((iha g μ hg).flatMap_right _).trans
        (perm_flatMap_congr fun x _ => (ihb g (thaw init x) hg).map _)
    · exact joinBag_perm (iha g μ hg) (ihb g μ hg)
  | @leftJoin e a a' b b' ha hb iha ihb =>
    intro g μ hg
    rw [evalTD_leftJoin, evalTD_leftJoin, ← ljRow_congr_vars init μ (ha.vars.append hb.vars) ha.vars]
    exact ((iha g μ hg).flatMap_right _).trans
      (perm_flatMap_congr fun x _ => ljRow_perm init μ _ _ e (fun ν => ihb g ν hg) x)
  | union _ _ iha ihb => exact fun g μ hg => (iha g μ hg).append (ihb g μ hg)
  | @minus a a' b b' ha hb iha ihb =>
    intro g μ hg
    simp only [evalTD, ← remember_congr ha.vars, ← remember_congr hb.vars]
    have hp : (fun x : Row n => ((evalTD ds init b g init).map (remember b.vars)).all fun y =>
          !(compat (remember a.vars x) y) || disjointDom (remember a.vars x) y) =
        (fun x : Row n => ((evalTD ds init b' g init).map (remember b.vars)).all fun y =>
          !(compat (remember a.vars x) y) || disjointDom (remember a.vars x) y) := by
      funext x
      exact ((ihb g init hg).map _).all_eq
    rw [← hp]
    exact (iha g μ hg).filter _
  | @filter e p p' hp ih =>
    intro g μ hg
    simp only [evalTD, ← forget_congr init μ hp.vars]
    exact (ih g μ hg).filter _
  | @extend v e p p' hp ih =>
    intro g μ hg
    simp only [evalTD, ← forget_congr init μ (hp.vars.append (VEq.refl [v]))]
    exact (ih g μ hg).filterMap _
  | @graph t p p' hp ih =>
    intro g μ hg
    cases hl : μ.look t with
    | none =>
      simp only [evalTD, hl]
      exact perm_flatMap_congr fun x hx => (ih x.2 μ (hds x hx)).filterMap _
    | some nm =>
      simp only [evalTD, hl]
      cases hlk : lookupGraph ds.named nm with
      | none => exact List.Perm.refl _
      | some gs =>
        obtain ⟨x, hx, e⟩ := lookupGraph_mem _ _ _ hlk
        exact ih gs μ (e ▸ hds x hx)
  | @sub pv p p' hp ih =>
    intro g μ hg
    simp only [evalTD]
    exact joinBag_perm ((ih g init hg).map _) (List.Perm.refl _)

/-- `simplify`'s re-ordering of every BGP is such a rewrite -/
theorem RwB.reorder (isLit : Term → Bool) (tle : TP n → TP n → Bool) (q : P n) : RwB q (q.reorder isLit tle) := by
  induction q with
  | bgp ts => exact .bgp (reorderTriples_perm isLit tle ts).symm
  | join a b iha ihb => exact .join iha ihb
  | leftJoin a b e iha ihb => exact .leftJoin e iha ihb
  | union a b iha ihb => exact .union iha ihb
  | minus a b iha ihb => exact .minus iha ihb
  | filter e p ih => exact .filter e ih
  | extend p v e ih => exact .extend v e ih
  | graph t p ih => exact .graph t ih
  | values rows => exact .refl _
  | sub pv p ih => exact .sub pv ih


/-! ### the evaluator reaches its stores through `triples` only -/

/-- two stores that answer every pattern with the same bag -/
def StoreEq (g g' : Store) : Prop := ∀ pat, (g pat).Perm (g' pat)

/-- the same named graphs, each answering alike -/
inductive NamedEq : List (Term × Store) → List (Term × Store) → Prop
  | nil : NamedEq [] []
  | cons {k : Term} {s s' : Store} {l l' : List (Term × Store)} :
      StoreEq s s' → NamedEq l l' → NamedEq ((k, s) :: l) ((k, s') :: l')

def DSet.Equiv (ds ds' : DSet) : Prop := StoreEq ds.dflt ds'.dflt ∧ NamedEq ds.named ds'.named

theorem namedEq_flatMap_perm {γ : Type} {f f' : Term × Store → List γ}
    (h : ∀ k s s', StoreEq s s' → (f (k, s)).Perm (f' (k, s'))) : ∀ {l l' : List (Term × Store)}, NamedEq l l' →
      (l.flatMap f).Perm (l'.flatMap f')
  | _, _, .nil => List.Perm.refl _
  | _, _, .cons hs hr => by
    rw [List.flatMap_cons, List.flatMap_cons]
    exact (h _ _ _ hs).append (namedEq_flatMap_perm h hr)

theorem lookupGraph_namedEq (nm : Term) : ∀ {l l' : List (Term × Store)}, NamedEq l l' →
      (lookupGraph l nm = none ∧ lookupGraph l' nm = none) ∨
      ∃ gs gs', lookupGraph l nm = some gs ∧ lookupGraph l' nm = some gs' ∧ StoreEq gs gs'
  | _, _, .nil => Or.inl ⟨rfl, rfl⟩
  | _, _, @NamedEq.cons k s s' _ _ hs hr => by
    simp only [lookupGraph]
    by_cases e : k = nm
    · simp only [e, if_true]
      exact Or.inr ⟨s, s', rfl, rfl, hs⟩
    · simp only [e, if_false]
      exact lookupGraph_namedEq nm hr

theorem evalTD_store_congr {ds ds' : DSet} (hds : ds.Equiv ds') (init : Row n) (q : P n) :
    ∀ (g g' : Store) (μ : Row n), StoreEq g g' → (evalTD ds init q g μ).Perm (evalTD ds' init q g' μ) := by
  induction q with
  | bgp ts => exact fun g g' μ hg => evalBGP_store_congr hg _ μ
  | join a b iha ihb =>
    intro g g' μ hg
    simp only [evalTD]
    split
    · exact ((iha g g' μ hg).flatMap_right _).trans
        (perm_flatMap_congr fun x _ => (ihb g g' (thaw init x) hg).map _)
    · exact joinBag_perm (iha g g' μ hg) (ihb g g' μ hg)
  | leftJoin a b e iha ihb =>
    intro g g' μ hg
    rw [evalTD_leftJoin, evalTD_leftJoin]
    exact ((iha g g' μ hg).flatMap_right _).trans
      (perm_flatMap_congr fun x _ => ljRow_perm init μ _ _ e (fun ν => ihb g g' ν hg) x)
  | union a b iha ihb => exact fun g g' μ hg => (iha g g' μ hg).append (ihb g g' μ hg)
  | minus a b iha ihb =>
    intro g g' μ hg
    simp only [evalTD]
    have hp : (fun x : Row n => ((evalTD ds init b g init).map (remember b.vars)).all fun y =>
          !(compat (remember a.vars x) y) || disjointDom (remember a.vars x) y) =
        (fun x : Row n => ((evalTD ds' init b g' init).map (remember b.vars)).all fun y =>
          !(compat (remember a.vars x) y) || disjointDom (remember a.vars x) y) := by
      funext x
      exact ((ihb g g' init hg).map _).all_eq
    rw [← hp]
    exact (iha g g' μ hg).filter _
  | filter e p ih => exact fun g g' μ hg => by simp only [evalTD]; exact (ih g g' μ hg).filter _
  | extend p v e ih => exact fun g g' μ hg => by simp only [evalTD]; exact (ih g g' μ hg).filterMap _
  | graph t p ih =>
    intro g g' μ hg
    cases hl : μ.look t with
    | none =>
      simp only [evalTD, hl]
      exact namedEq_flatMap_perm (fun k s s' hs => (ih s s' μ hs).filterMap _) hds.2
    | some nm =>
      simp only [evalTD, hl]
      rcases lookupGraph_namedEq nm hds.2 with ⟨h1, h2⟩ | ⟨gs, gs', h1, h2, h3⟩
      · rw [h1, h2]
      · rw [h1, h2]; exact ih gs gs' μ h3
  | values rows => exact fun _ _ _ _ => List.Perm.refl _
  | sub pv p ih =>
    intro g g' μ hg
    simp only [evalTD]
    exact joinBag_perm ((ih g g' init hg).map _) (List.Perm.refl _)

end RV.C15
