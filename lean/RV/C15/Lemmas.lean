import RV.C15.Model
/-
  Helper lemmas for C15, part 1: bags (lists modulo `List.Perm`), the unification view of
  `bindTriple`, commutation of two pattern matches, and the two re-orderings are permutations.
-/
namespace RV.C15

open List

/-! ### bags -/

theorem flatMap_const_nil {α β : Type} (l : List α) : (l.flatMap fun _ => ([] : List β)) = [] := by
  induction l with
  | nil => rfl
  | cons a l ih => simp [List.flatMap_cons, ih]

theorem perm_flatMap_congr {α β : Type} {l : List α} {f g : α → List β}
    (h : ∀ a ∈ l, (f a).Perm (g a)) : (l.flatMap f).Perm (l.flatMap g) := by
  induction l with
  | nil => simp
  | cons a l ih =>
    simp only [List.flatMap_cons]
    exact (h a (by simp)).append (ih fun b hb => h b (by simp [hb]))

theorem flatMap_append_perm' {α β : Type} (l : List α) (f g : α → List β) :
    (l.flatMap fun x => f x ++ g x).Perm (l.flatMap f ++ l.flatMap g) := by
  induction l with
  | nil => simp
  | cons a l ih =>
    simp only [List.flatMap_cons]
    -- (f a ++ g a) ++ R  ~  (f a ++ F) ++ (g a ++ G)   with R ~ F ++ G
    have h1 : ((f a ++ g a) ++ (l.flatMap fun x => f x ++ g x)).Perm
        ((f a ++ g a) ++ (l.flatMap f ++ l.flatMap g)) := ih.append_left _
    refine h1.trans ?_
    -- rearrange
    have : (f a ++ g a ++ (l.flatMap f ++ l.flatMap g)) = f a ++ (g a ++ l.flatMap f) ++ l.flatMap g := by
      simp [List.append_assoc]
    rw [this]
    have h2 : (g a ++ l.flatMap f).Perm (l.flatMap f ++ g a) := List.perm_append_comm
    have h3 : (f a ++ (g a ++ l.flatMap f) ++ l.flatMap g).Perm (f a ++ (l.flatMap f ++ g a) ++ l.flatMap g) :=
      ((h2.append_left (f a)).append_right _)
    refine h3.trans ?_
    simp [List.append_assoc]

/-- iterating over two lists in either nesting order gives the same bag -/
theorem flatMap_swap {α β γ : Type} (l1 : List α) (l2 : List β) (F : α → β → List γ) :
    (l1.flatMap fun a => l2.flatMap fun b => F a b).Perm (l2.flatMap fun b => l1.flatMap fun a => F a b) := by
  induction l1 with
  | nil => simp [flatMap_const_nil]
  | cons a l1 ih =>
    simp only [List.flatMap_cons]
    have h := flatMap_append_perm' l2 (fun b => F a b) (fun b => l1.flatMap fun a => F a b)
    exact (ih.append_left _).trans h.symm

theorem filterMap_eq_flatMap {α β : Type} (f : α → Option β) (l : List α) :
    l.filterMap f = l.flatMap fun x => (f x).toList := by
  induction l with
  | nil => rfl
  | cons a l ih =>
    simp only [List.filterMap_cons, List.flatMap_cons, ih]
    cases f a <;> simp

/-! ### rows -/

variable {n : Nat}

@[simp] theorem Row.set_same (μ : Row n) (v : Fin n) (t : Term) : (μ.set v t) v = some t := by
  simp [Row.set]

theorem Row.set_other (μ : Row n) {v w : Fin n} (t : Term) (h : w ≠ v) : (μ.set v t) w = μ w := by
  simp [Row.set, h]

theorem Row.set_comm (μ : Row n) {v w : Fin n} (t u : Term) (h : v ≠ w) :
    (μ.set v t).set w u = (μ.set w u).set v t := by
  funext x
  simp only [Row.set]
  by_cases h1 : x = w
  · subst h1
    have : ¬ x = v := fun e => h e.symm
    simp [this]
  · by_cases h2 : x = v
    · subst h2; simp [h1]
    · simp [h1, h2]

theorem Row.set_idem (μ : Row n) {v : Fin n} {t : Term} (h : μ v = some t) : μ.set v t = μ := by
  funext x
  simp only [Row.set]
  by_cases h1 : x = v
  · subst h1; simp [h]
  · simp [h1]

/-! ### the unification view of one pattern match -/

/-- make position `pt` equal to `val`, extending the mapping if `pt` is an unbound variable -/
def unif (pt : PT n) (val : Term) (μ : Row n) : Option (Row n) :=
  match pt with
  | .const c => if c = val then some μ else none
  | .var v =>
    match μ v with
    | none => some (μ.set v val)
    | some x => if x = val then some μ else none

/-- extend `μ` so that pattern `t` becomes triple `tr` -/
def ext (μ : Row n) (t : TP n) (tr : Triple) : Option (Row n) :=
  (unif t.1 tr.1 μ).bind fun c1 => (unif t.2.1 tr.2.1 c1).bind fun c2 => unif t.2.2 tr.2.2 c2

theorem matchPos_look_const (c x : Term) : matchPos (some c) x = (x == c) := rfl

/-- `assign` after the store has matched the looked-up position is `unif` -/
theorem assign_eq_unif (μ0 c : Row n) (pt : PT n) (val : Term)
    (hm : matchPos (μ0.look pt) val = true)
    (hmono : ∀ v x, μ0 v = some x → c v = some x) :
    assign (μ0.look pt) pt val c = unif pt val c := by
  cases pt with
  | const k =>
    simp only [Row.look, matchPos, beq_iff_eq] at hm
    simp [assign, unif, Row.look, hm]
  | var v =>
    simp only [Row.look] at hm ⊢
    cases h0 : μ0 v with
    | none => rfl
    | some x =>
      simp only [h0, matchPos, beq_iff_eq] at hm
      have hc := hmono v x h0
      simp [assign, unif, hc, hm]

theorem unif_mono {pt : PT n} {val : Term} {μ c : Row n} (h : unif pt val μ = some c) :
    ∀ v x, μ v = some x → c v = some x := by
  intro v x hv
  cases pt with
  | const k =>
    simp only [unif] at h
    split at h
    · cases h; exact hv
    · cases h
  | var w =>
    simp only [unif] at h
    split at h
    · next hw =>
      cases h
      by_cases e : v = w
      · subst e; rw [hw] at hv; cases hv
      · rw [Row.set_other _ _ e]; exact hv
    · split at h
      · cases h; exact hv
      · cases h

/-- when `unif` fails on a position the store was asked about, the position did not match -/
theorem unif_none_of_not_match (μ : Row n) (pt : PT n) (val : Term)
    (hm : matchPos (μ.look pt) val = false) : unif pt val μ = none := by
  cases pt with
  | const k =>
    simp only [Row.look, matchPos] at hm
    have : ¬ k = val := by intro e; subst e; simp at hm
    simp [unif, this]
  | var v =>
    simp only [Row.look] at hm
    cases h0 : μ v with
    | none => simp [h0, matchPos] at hm
    | some x =>
      simp only [h0, matchPos] at hm
      have : ¬ x = val := by intro e; subst e; simp at hm
      simp [unif, h0, this]

/-- a later position's original look-up matches whenever the extended one succeeds …
    stated the way `bindTriple_eq_ext` needs it: if the original look-up does not match, then
    unification under any extension fails too -/
theorem unif_none_of_not_match_mono (μ0 c : Row n) (pt : PT n) (val : Term)
    (hmono : ∀ v x, μ0 v = some x → c v = some x)
    (hm : matchPos (μ0.look pt) val = false) : unif pt val c = none := by
  cases pt with
  | const k =>
    simp only [Row.look, matchPos] at hm
    have : ¬ k = val := by intro e; subst e; simp at hm
    simp [unif, this]
  | var v =>
    simp only [Row.look] at hm
    cases h0 : μ0 v with
    | none => simp [h0, matchPos] at hm
    | some x =>
      simp only [h0, matchPos] at hm
      have : ¬ x = val := by intro e; subst e; simp at hm
      simp [unif, hmono v x h0, this]

/-- On a triple the store returned for `instPat μ t`, the loop body of `evalBGP` is `ext`. -/
theorem bindTriple_eq_ext (μ : Row n) (t : TP n) (tr : Triple)
    (hm : (instPat μ t).matches tr = true) : bindTriple μ t tr = ext μ t tr := by
  obtain ⟨s, p, o⟩ := t
  obtain ⟨ss, sp, so⟩ := tr
  simp only [instPat, Pat.matches, Bool.and_eq_true] at hm
  obtain ⟨⟨h1, h2⟩, h3⟩ := hm
  simp only [bindTriple, ext]
  rw [assign_eq_unif μ μ s ss h1 (fun _ _ h => h)]
  cases hu1 : unif s ss μ with
  | none => rfl
  | some c1 =>
    simp only [Option.bind_some]
    have m1 := unif_mono hu1
    rw [assign_eq_unif μ c1 p sp h2 m1]
    cases hu2 : unif p sp c1 with
    | none => rfl
    | some c2 =>
      simp only [Option.bind_some]
      have m2 := unif_mono hu2
      exact assign_eq_unif μ c2 o so h3 (fun v x h => m2 v x (m1 v x h))

/-- … and on a triple that does not match `instPat μ t`, `ext` fails. -/
theorem ext_none_of_not_match (μ : Row n) (t : TP n) (tr : Triple)
    (hm : (instPat μ t).matches tr = false) : ext μ t tr = none := by
  obtain ⟨s, p, o⟩ := t
  obtain ⟨ss, sp, so⟩ := tr
  simp only [instPat, Pat.matches] at hm
  simp only [ext]
  cases h1 : matchPos (μ.look s) ss with
  | false => simp [unif_none_of_not_match μ s ss h1]
  | true =>
    cases hu1 : unif s ss μ with
    | none => rfl
    | some c1 =>
      simp only [Option.bind_some]
      have m1 := unif_mono hu1
      cases h2 : matchPos (μ.look p) sp with
      | false => simp [unif_none_of_not_match_mono μ c1 p sp m1 h2]
      | true =>
        cases hu2 : unif p sp c1 with
        | none => rfl
        | some c2 =>
          simp only [Option.bind_some]
          have m2 := unif_mono hu2
          have h3 : matchPos (μ.look o) so = false := by simpa [h1, h2] using hm
          exact unif_none_of_not_match_mono μ c2 o so (fun v x h => m2 v x (m1 v x h)) h3

/-- one step of `evalBGP` over a graph held as a list: every triple of the graph, extended -/
def stepRows (g : List Triple) (μ : Row n) (t : TP n) : List (Row n) :=
  g.flatMap fun tr => (ext μ t tr).toList

theorem step_filter_eq (g : List Triple) (μ : Row n) (t : TP n) (k : Row n → List (Row n)) :
    ((g.filter (instPat μ t).matches).flatMap fun tr =>
        match bindTriple μ t tr with
        | none => []
        | some c => k c) = g.flatMap fun tr => (ext μ t tr).toList.flatMap k := by
  induction g with
  | nil => rfl
  | cons tr g ih =>
    simp only [List.filter_cons, List.flatMap_cons]
    cases hm : (instPat μ t).matches tr with
    | true =>
      simp only [if_true, List.flatMap_cons, ih, bindTriple_eq_ext μ t tr hm]
      cases ext μ t tr <;> simp
    | false =>
      simp only [Bool.false_eq_true, if_false, ih, ext_none_of_not_match μ t tr hm]
      simp

theorem evalBGP_graph_cons (g : List Triple) (μ : Row n) (t : TP n) (rest : List (TP n)) :
    evalBGP (graphStore g) μ (t :: rest) = (stepRows g μ t).flatMap fun c => evalBGP (graphStore g) c rest := by
  simp only [stepRows, List.flatMap_assoc]
  exact step_filter_eq g μ t fun c => evalBGP (graphStore g) c rest

/-! ### two pattern matches commute -/

/-- Kleisli arrows on `Option` that commute -/
def KComm {α : Type} (f g : α → Option α) : Prop := ∀ x, (f x).bind g = (g x).bind f

theorem KComm.symm {α : Type} {f g : α → Option α} (h : KComm f g) : KComm g f := fun x => (h x).symm

theorem KComm.comp_right {α : Type} {f g h : α → Option α} (h1 : KComm f g) (h2 : KComm f h) :
    KComm f (fun x => (g x).bind h) := by
  intro x
  -- (f x).bind (g >=> h) = ((f x).bind g).bind h = ((g x).bind f).bind h = (g x).bind (f >=> h) = (g x).bind (h >=> f)
  calc (f x).bind (fun y => (g y).bind h)
      = ((f x).bind g).bind h := by cases f x <;> simp
    _ = ((g x).bind f).bind h := by rw [h1 x]
    _ = (g x).bind (fun y => (f y).bind h) := by cases g x <;> simp
    _ = (g x).bind (fun y => (h y).bind f) := by
        cases g x with
        | none => rfl
        | some y => simp [h2 y]
    _ = ((g x).bind h).bind f := by cases g x <;> simp

theorem KComm.comp_left {α : Type} {f g h : α → Option α} (h1 : KComm f h) (h2 : KComm g h) :
    KComm (fun x => (f x).bind g) h := (KComm.comp_right h1.symm h2.symm).symm

theorem unif_const (c val : Term) (μ : Row n) :
    unif (.const c) val μ = if c = val then some μ else none := rfl

theorem unif_var_none {μ : Row n} {v : Fin n} (val : Term) (h : μ v = none) :
    unif (.var v) val μ = some (μ.set v val) := by simp [unif, h]

theorem unif_var_some {μ : Row n} {v : Fin n} {x : Term} (val : Term) (h : μ v = some x) :
    unif (.var v) val μ = if x = val then some μ else none := by simp [unif, h]

theorem unif_comm (a b : PT n) (x y : Term) : KComm (unif a x) (unif b y) := by
  intro μ
  cases a with
  | const c =>
    cases b with
    | const d =>
      by_cases h1 : c = x <;> by_cases h2 : d = y <;> simp [unif_const, h1, h2]
    | var w =>
      cases hw : μ w with
      | none =>
        by_cases h1 : c = x <;> simp [unif_const, unif_var_none _ hw, h1]
      | some z =>
        by_cases h1 : c = x <;> by_cases h2 : z = y <;> simp [unif_const, unif_var_some _ hw, h1, h2]
  | var v =>
    cases b with
    | const d =>
      cases hv : μ v with
      | none =>
        by_cases h2 : d = y <;> simp [unif_const, unif_var_none _ hv, h2]
      | some z =>
        by_cases h2 : d = y <;> by_cases h1 : z = x <;> simp [unif_const, unif_var_some _ hv, h1, h2]
    | var w =>
      by_cases e : v = w
      · subst e
        cases hv : μ v with
        | none =>
          have sx : (μ.set v x) v = some x := Row.set_same μ v x
          have sy : (μ.set v y) v = some y := Row.set_same μ v y
          by_cases h : x = y
          · subst h; simp [unif_var_none _ hv, unif_var_some _ sx]
          · have h' : ¬ y = x := fun e => h e.symm
            simp [unif_var_none _ hv, unif_var_some _ sx, unif_var_some _ sy, h, h']
        | some z =>
          rw [unif_var_some x hv, unif_var_some y hv]
          by_cases h1 : z = x
          · by_cases h2 : z = y
            · rw [if_pos h1, if_pos h2]
              simp only [Option.bind_some]
              rw [unif_var_some y hv, unif_var_some x hv, if_pos h1, if_pos h2]
            · rw [if_pos h1, if_neg h2]
              simp only [Option.bind_some, Option.bind_none]
              rw [unif_var_some y hv, if_neg h2]
          · by_cases h2 : z = y
            · rw [if_neg h1, if_pos h2]
              simp only [Option.bind_some, Option.bind_none]
              rw [unif_var_some x hv, if_neg h1]
            · rw [if_neg h1, if_neg h2]
              rfl
      · have e' : w ≠ v := fun h => e h.symm
        cases hv : μ v with
        | none =>
          cases hw : μ w with
          | none =>
            have s1 : (μ.set v x) w = none := by rw [Row.set_other _ _ e']; exact hw
            have s2 : (μ.set w y) v = none := by rw [Row.set_other _ _ e]; exact hv
            simp [unif_var_none _ hv, unif_var_none _ hw, unif_var_none _ s1, unif_var_none _ s2,
              Row.set_comm μ x y e]
          | some z =>
            have s1 : (μ.set v x) w = some z := by rw [Row.set_other _ _ e']; exact hw
            by_cases h2 : z = y
            · simp [unif_var_none _ hv, unif_var_some _ hw, unif_var_some _ s1, h2]
            · simp [unif_var_none _ hv, unif_var_some _ hw, unif_var_some _ s1, h2]
        | some z =>
          cases hw : μ w with
          | none =>
            have s2 : (μ.set w y) v = some z := by rw [Row.set_other _ _ e]; exact hv
            by_cases h1 : z = x
            · simp [unif_var_some _ hv, unif_var_none _ hw, unif_var_some _ s2, h1]
            · simp [unif_var_some _ hv, unif_var_none _ hw, unif_var_some _ s2, h1]
          | some z' =>
            by_cases h1 : z = x <;> by_cases h2 : z' = y <;>
              simp [unif_var_some _ hv, unif_var_some _ hw, h1, h2]

theorem ext_comm (t1 t2 : TP n) (tr1 tr2 : Triple) :
    KComm (fun μ => ext μ t1 tr1) (fun μ => ext μ t2 tr2) := by
  unfold ext
  have u := fun (a b : PT n) (x y : Term) => unif_comm a b x y
  refine KComm.comp_left ?_ (KComm.comp_left ?_ ?_) <;>
    exact KComm.comp_right (u _ _ _ _) (KComm.comp_right (u _ _ _ _) (u _ _ _ _))

theorem toList_bind_flatMap {α β : Type} (o : Option α) (f : α → Option β) :
    (o.bind f).toList = o.toList.flatMap fun x => (f x).toList := by
  cases o <;> simp

/-- matching `t1` then `t2` gives the same bag as matching `t2` then `t1` -/
theorem stepRows_comm (g : List Triple) (μ : Row n) (t1 t2 : TP n) :
    ((stepRows g μ t1).flatMap fun c => stepRows g c t2).Perm
      ((stepRows g μ t2).flatMap fun c => stepRows g c t1) := by
  have key : ∀ (ta tb : TP n),
      ((stepRows g μ ta).flatMap fun c => stepRows g c tb) =
        g.flatMap fun tra => g.flatMap fun trb => ((ext μ ta tra).bind fun c => ext c tb trb).toList := by
    intro ta tb
    simp only [stepRows, List.flatMap_assoc]
    congr 1
    funext tra
    cases ext μ ta tra with
    | none => simp [flatMap_const_nil]
    | some c => simp
  rw [key t1 t2, key t2 t1]
  refine (flatMap_swap g g _).trans ?_
  refine perm_flatMap_congr fun tr2 _ => perm_flatMap_congr fun tr1 _ => ?_
  rw [ext_comm t1 t2 tr1 tr2 μ]

theorem evalBGP_graph_swap (g : List Triple) (μ : Row n) (t1 t2 : TP n) (rest : List (TP n)) :
    (evalBGP (graphStore g) μ (t1 :: t2 :: rest)).Perm (evalBGP (graphStore g) μ (t2 :: t1 :: rest)) := by
  have e : ∀ (ta tb : TP n), evalBGP (graphStore g) μ (ta :: tb :: rest) =
      ((stepRows g μ ta).flatMap fun c => stepRows g c tb).flatMap fun c => evalBGP (graphStore g) c rest := by
    intro ta tb
    rw [evalBGP_graph_cons, List.flatMap_assoc]
    congr 1
    funext c
    rw [evalBGP_graph_cons]
  rw [e t1 t2, e t2 t1]
  exact (stepRows_comm g μ t1 t2).flatMap_right _

/-- any two orders of the same patterns give the same bag (graph held as a list, duplicates allowed) -/
theorem evalBGP_graph_perm (g : List Triple) {ts ts' : List (TP n)} (h : ts.Perm ts') :
    ∀ μ : Row n, (evalBGP (graphStore g) μ ts).Perm (evalBGP (graphStore g) μ ts') := by
  induction h with
  | nil => intro μ; exact List.Perm.refl _
  | cons t _ ih =>
    intro μ
    rw [evalBGP_graph_cons, evalBGP_graph_cons]
    exact perm_flatMap_congr fun c _ => ih c
  | swap t1 t2 l => intro μ; exact evalBGP_graph_swap g μ t2 t1 l
  | trans _ _ ih1 ih2 => intro μ; exact (ih1 μ).trans (ih2 μ)

/-! ### stores that agree pattern by pattern -/

theorem evalBGP_store_congr {st1 st2 : Store} (h : ∀ pat, (st1 pat).Perm (st2 pat)) (ts : List (TP n)) :
    ∀ μ : Row n, (evalBGP st1 μ ts).Perm (evalBGP st2 μ ts) := by
  induction ts with
  | nil => intro μ; exact List.Perm.refl _
  | cons t rest ih =>
    intro μ
    simp only [evalBGP]
    refine ((h (instPat μ t)).flatMap_right _).trans ?_
    refine perm_flatMap_congr fun tr _ => ?_
    cases bindTriple μ t tr with
    | none => exact List.Perm.refl _
    | some c => exact ih c

/-- a store that answers every pattern like the graph `g` (a list of triples) does -/
def GraphLike (st : Store) (g : List Triple) : Prop := ∀ pat, (st pat).Perm (g.filter pat.matches)

theorem graphLike_graphStore (g : List Triple) : GraphLike (graphStore g) g := fun _ => List.Perm.refl _

theorem evalBGP_graphLike_perm {st : Store} {g : List Triple} (hg : GraphLike st g)
    {ts ts' : List (TP n)} (h : ts.Perm ts') (μ : Row n) :
    (evalBGP st μ ts).Perm (evalBGP st μ ts') :=
  ((evalBGP_store_congr (st2 := graphStore g) hg ts μ).trans (evalBGP_graph_perm g h μ)).trans
    (evalBGP_store_congr (st1 := graphStore g) (fun pat => (hg pat).symm) ts' μ)

theorem mem_filter_matches_top (g : List Triple) (t : Triple) :
    t ∈ g.filter (Pat.matches (none, none, none)) ↔ t ∈ g := by
  simp [Pat.matches, matchPos]

theorem exactlyOnce_graphLike {st : Store} {d : List Triple} (h : ExactlyOnce st d) :
    GraphLike st (st (none, none, none)) := by
  intro pat
  have hn := (h pat).1
  have htop := h (none, none, none)
  refine (List.perm_ext_iff_of_nodup hn (htop.1.filter _)).2 fun t => ?_
  rw [(h pat).2 t, List.mem_filter, htop.2 t]
  simp [Pat.matches, matchPos]

/-! ### the two re-orderings are permutations -/

theorem insertBy_perm {α : Type} (le : α → α → Bool) (x : α) (l : List α) : (insertBy le x l).Perm (x :: l) := by
  induction l with
  | nil => exact List.Perm.refl _
  | cons y ys ih =>
    simp only [insertBy]
    split
    · exact List.Perm.refl _
    · exact (ih.cons y).trans (List.Perm.swap x y ys)

theorem sortBy_perm {α : Type} (le : α → α → Bool) (l : List α) : (sortBy le l).Perm l := by
  induction l with
  | nil => exact List.Perm.refl _
  | cons x xs ih =>
    simp only [sortBy, List.foldr_cons]
    exact (insertBy_perm le x _).trans (ih.cons x)

theorem dynOrder_perm (μ : Row n) (ts : List (TP n)) : (dynOrder μ ts).Perm ts := sortBy_perm _ ts

theorem map_snd_deco {α β : Type} (f : α → β) (l : List α) :
    (l.map fun t => (f t, t)).map (fun x => x.2) = l := by
  induction l with
  | nil => rfl
  | cons a l ih => simp [ih]

theorem reorderLoop_perm (isLit : Term → Bool) (tle : TP n → TP n → Bool) (count : Fin n → Nat) :
    ∀ (fuel : Nat) (known : List (Fin n)) (l : List (TP n)),
      (reorderLoop isLit tle count fuel known l).Perm l := by
  intro fuel
  induction fuel with
  | zero => intro known l; exact List.Perm.refl _
  | succ fuel ih =>
    intro known l
    simp only [reorderLoop]
    have hs := sortBy_perm (decoLe tle) (l.map fun t => (knownKey isLit known count t, t))
    split
    · next heq =>
      rw [heq] at hs
      have : l.map (fun t => (knownKey isLit known count t, t)) = [] := hs.symm.eq_nil
      simp at this
      subst this
      exact List.Perm.refl _
    · next k h tl heq =>
      rw [heq] at hs
      have hm := hs.map (fun x => x.2)
      rw [map_snd_deco] at hm
      simp only [List.map_cons] at hm
      exact ((ih _ _).cons h).trans hm

theorem reorderTriples_perm (isLit : Term → Bool) (tle : TP n → TP n → Bool) (ts : List (TP n)) :
    (reorderTriples isLit tle ts).Perm ts := reorderLoop_perm isLit tle _ _ _ _

end RV.C15
