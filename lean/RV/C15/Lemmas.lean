import RV.C15.Model
namespace RV.C15
end RV.C15
