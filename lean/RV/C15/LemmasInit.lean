import RV.C15.LemmasAlg
/-
  Helper lemmas for C15, part 4: seeding the bindings (initBindings) against joining a VALUES row.
  The core is the push-down property of `evalBGP`:
      evalBGP g (μ ⊔ κ) ts  =  (evalBGP g μ ts).filterMap (joinWith κ)
-/
namespace RV.C15

open List

variable {n : Nat}

/-! ### pointwise view of compatibility and merge -/

def okPair (x y : Option Term) : Bool :=
  match x, y with
  | some a, some b => a == b
  | _, _ => true

theorem compat_iff_ok (a b : Row n) : compat a b = true ↔ ∀ v, okPair (a v) (b v) = true := by
  simp only [compat, List.all_eq_true, List.mem_finRange, true_imp_iff]
  constructor <;> intro h v <;> have := h v <;> revert this <;> cases a v <;> cases b v <;> simp [okPair]

theorem merge_apply (a b : Row n) (v : Fin n) : merge a b v = (a v).or (b v) := by
  simp only [merge]; cases a v <;> rfl

theorem okPair_three (x y z : Option Term) :
    (okPair y z && okPair x (y.or z)) = (okPair x y && okPair (x.or y) z) := by
  cases x <;> cases y <;> cases z <;> simp [okPair]
  rename_i p q r
  rw [Bool.eq_iff_iff]
  simp only [Bool.and_eq_true, beq_iff_eq]
  constructor
  · rintro ⟨h1, h2⟩; subst h1; subst h2; exact ⟨rfl, rfl⟩
  · rintro ⟨h1, h2⟩; subst h1; subst h2; exact ⟨rfl, rfl⟩

theorem or_assoc' (x y z : Option Term) : x.or (y.or z) = (x.or y).or z := by
  cases x <;> cases y <;> rfl

theorem merge_assoc (a b c : Row n) : merge a (merge b c) = merge (merge a b) c := by
  funext v
  simp only [merge_apply, or_assoc']

theorem compat_three (s a κ : Row n) :
    (compat a κ && compat s (merge a κ)) = (compat s a && compat (merge s a) κ) := by
  rw [Bool.eq_iff_iff]
  simp only [Bool.and_eq_true, compat_iff_ok, merge_apply]
  constructor
  · rintro ⟨h1, h2⟩
    have h : ∀ v, (okPair (s v) (a v) && okPair ((s v).or (a v)) (κ v)) = true := by
      intro v; rw [← okPair_three, h1 v, h2 v]; rfl
    exact ⟨fun v => ((Bool.and_eq_true _ _).mp (h v)).1, fun v => ((Bool.and_eq_true _ _).mp (h v)).2⟩
  · rintro ⟨h1, h2⟩
    have h : ∀ v, (okPair (a v) (κ v) && okPair (s v) ((a v).or (κ v))) = true := by
      intro v; rw [okPair_three, h1 v, h2 v]; rfl
    exact ⟨fun v => ((Bool.and_eq_true _ _).mp (h v)).1, fun v => ((Bool.and_eq_true _ _).mp (h v)).2⟩

/-! ### joining with a fixed row commutes with one pattern match -/

/-- `_join(…, [κ])` on one solution -/
def joinWith (κ ν : Row n) : Option (Row n) := if compat ν κ then some (merge ν κ) else none

theorem compat_set_iff {μ κ : Row n} {v : Fin n} (val : Term) (hv : μ v = none) :
    compat (μ.set v val) κ = true ↔ (compat μ κ = true ∧ okPair (some val) (κ v) = true) := by
  simp only [compat_iff_ok]
  constructor
  · intro h
    refine ⟨fun w => ?_, ?_⟩
    · by_cases e : w = v
      · subst e; simp [hv, okPair]
      · have := h w; rwa [Row.set_other _ _ e] at this
    · have := h v; rwa [Row.set_same] at this
  · rintro ⟨h1, h2⟩ w
    by_cases e : w = v
    · subst e; rwa [Row.set_same]
    · rw [Row.set_other _ _ e]; exact h1 w

theorem merge_set_none {μ κ : Row n} {v : Fin n} (val : Term) (hk : κ v = none) :
    merge (μ.set v val) κ = (merge μ κ).set v val := by
  funext w
  by_cases e : w = v
  · subst e; simp [merge, Row.set]
  · simp [merge, Row.set, e]

theorem merge_set_same {μ κ : Row n} {v : Fin n} {val : Term} (hv : μ v = none) (hk : κ v = some val) :
    merge (μ.set v val) κ = merge μ κ := by
  funext w
  by_cases e : w = v
  · subst e; simp [merge, Row.set, hv, hk]
  · simp [merge, Row.set, e]

theorem joinWith_unif_comm (κ : Row n) (pt : PT n) (val : Term) : KComm (joinWith κ) (unif pt val) := by
  intro μ
  cases pt with
  | const c =>
    by_cases h : c = val
    · cases hj : joinWith κ μ <;> simp [unif_const, h, hj]
    · cases hj : joinWith κ μ <;> simp [unif_const, h]
  | var v =>
    cases hc : compat μ κ with
    | false =>
      have hj : joinWith κ μ = none := by simp [joinWith, hc]
      rw [hj, Option.bind_none]
      cases hv : μ v with
      | some x =>
        rw [unif_var_some val hv]
        by_cases h : x = val <;> simp [h, hj]
      | none =>
        rw [unif_var_none val hv, Option.bind_some]
        have : compat (μ.set v val) κ = false := by
          cases h : compat (μ.set v val) κ with
          | false => rfl
          | true => rw [compat_set_iff val hv] at h; rw [h.1] at hc; cases hc
        simp [joinWith, this]
    | true =>
      have hj : joinWith κ μ = some (merge μ κ) := by simp [joinWith, hc]
      rw [hj, Option.bind_some]
      cases hv : μ v with
      | some x =>
        have hm : merge μ κ v = some x := by simp [merge, hv]
        rw [unif_var_some val hv, unif_var_some val hm]
        by_cases h : x = val <;> simp [h, hj]
      | none =>
        rw [unif_var_none val hv, Option.bind_some]
        cases hk : κ v with
        | none =>
          have hm : merge μ κ v = none := by simp [merge, hv, hk]
          have hcs : compat (μ.set v val) κ = true := by
            rw [compat_set_iff val hv]; exact ⟨hc, by simp [hk, okPair]⟩
          rw [unif_var_none val hm]
          simp [joinWith, hcs, merge_set_none val hk]
        | some k =>
          have hm : merge μ κ v = some k := by simp [merge, hv, hk]
          rw [unif_var_some val hm]
          by_cases h : k = val
          · subst h
            have hcs : compat (μ.set v k) κ = true := by
              rw [compat_set_iff k hv]; exact ⟨hc, by simp [hk, okPair]⟩
            simp [joinWith, hcs, merge_set_same hv hk]
          · have hcs : compat (μ.set v val) κ = false := by
              cases h' : compat (μ.set v val) κ with
              | false => rfl
              | true =>
                rw [compat_set_iff val hv] at h'
                have := h'.2
                simp only [hk, okPair, beq_iff_eq] at this
                exact absurd this.symm h
            simp [joinWith, hcs, h]

theorem joinWith_ext_comm (κ : Row n) (t : TP n) (tr : Triple) :
    KComm (joinWith κ) (fun μ => ext μ t tr) := by
  unfold ext
  exact KComm.comp_right (joinWith_unif_comm κ _ _)
    (KComm.comp_right (joinWith_unif_comm κ _ _) (joinWith_unif_comm κ _ _))

/-! ### push-down through `evalBGP` -/

theorem option_flatMap_swap {α β γ : Type} (o : Option α) (g : List β) (F : α → β → List γ) :
    (o.toList.flatMap fun c => g.flatMap fun tr => F c tr) = g.flatMap fun tr => o.toList.flatMap fun c => F c tr := by
  cases o with
  | none => simp [flatMap_const_nil]
  | some c => simp

theorem filterMap_flatMap' {α β γ : Type} (l : List α) (f : α → List β) (h : β → Option γ) :
    (l.flatMap f).filterMap h = l.flatMap fun x => (f x).filterMap h := by
  induction l with
  | nil => rfl
  | cons a l ih => simp [List.flatMap_cons, List.filterMap_append, ih]

theorem evalBGP_graph_cons' (g : List Triple) (μ : Row n) (t : TP n) (rest : List (TP n)) :
    evalBGP (graphStore g) μ (t :: rest) =
      g.flatMap fun tr => (ext μ t tr).toList.flatMap fun c => evalBGP (graphStore g) c rest := by
  rw [evalBGP_graph_cons, stepRows, List.flatMap_assoc]

/-- joining with `κ` before or after evaluating a BGP gives the same list of solutions -/
theorem evalBGP_pushdown_graph (g : List Triple) (κ : Row n) (ts : List (TP n)) :
    ∀ μ : Row n, ((joinWith κ μ).toList.flatMap fun c => evalBGP (graphStore g) c ts) =
      (evalBGP (graphStore g) μ ts).filterMap (joinWith κ) := by
  induction ts with
  | nil =>
    intro μ
    simp only [evalBGP, List.filterMap_cons, List.filterMap_nil]
    cases joinWith κ μ <;> simp
  | cons t rest ih =>
    intro μ
    simp only [evalBGP_graph_cons']
    rw [option_flatMap_swap, filterMap_flatMap']
    congr 1
    funext tr
    have hk := joinWith_ext_comm κ t tr μ
    calc ((joinWith κ μ).toList.flatMap fun c => (ext c t tr).toList.flatMap fun c' => evalBGP (graphStore g) c' rest)
        = (((joinWith κ μ).bind fun c => ext c t tr).toList.flatMap fun c' => evalBGP (graphStore g) c' rest) := by
          rw [toList_bind_flatMap, List.flatMap_assoc]
      _ = (((ext μ t tr).bind (joinWith κ)).toList.flatMap fun c' => evalBGP (graphStore g) c' rest) := by rw [hk]
      _ = ((ext μ t tr).toList.flatMap fun c => (joinWith κ c).toList.flatMap fun c' => evalBGP (graphStore g) c' rest) := by
          rw [toList_bind_flatMap, List.flatMap_assoc]
      _ = ((ext μ t tr).toList.flatMap fun c => (evalBGP (graphStore g) c rest).filterMap (joinWith κ)) := by
          congr 1; funext c; exact ih c
      _ = ((ext μ t tr).toList.flatMap fun c => evalBGP (graphStore g) c rest).filterMap (joinWith κ) := by
          rw [filterMap_flatMap']

theorem joinWith_empty (κ : Row n) : joinWith κ Row.empty = some κ := by
  simp [joinWith, compat_empty_left, merge_empty_left]

/-- seeding the bindings with `κ` = evaluating unseeded, then joining with `κ` -/
theorem evalBGP_seed_graph (g : List Triple) (κ : Row n) (ts : List (TP n)) :
    evalBGP (graphStore g) κ ts = (evalBGP (graphStore g) Row.empty ts).filterMap (joinWith κ) := by
  have := evalBGP_pushdown_graph g κ ts Row.empty
  rw [joinWith_empty] at this
  simpa using this

/-! ### which variables a solution binds -/

theorem unif_support {pt : PT n} {val : Term} {μ c : Row n} (h : unif pt val μ = some c) :
    ∀ v, c v ≠ none → μ v ≠ none ∨ v ∈ ptVars pt := by
  intro v hv
  cases pt with
  | const k =>
    rw [unif_const] at h
    split at h
    · cases h; exact Or.inl hv
    · cases h
  | var w =>
    cases hw : μ w with
    | none =>
      rw [unif_var_none val hw] at h
      cases h
      by_cases e : v = w
      · right; simp [ptVars, e]
      · left; rwa [Row.set_other _ _ e] at hv
    | some x =>
      rw [unif_var_some val hw] at h
      split at h
      · cases h; exact Or.inl hv
      · cases h

theorem ext_support {μ c : Row n} {t : TP n} {tr : Triple} (h : ext μ t tr = some c) :
    ∀ v, c v ≠ none → μ v ≠ none ∨ v ∈ tpVars t := by
  intro v hv
  simp only [ext] at h
  cases h1 : unif t.1 tr.1 μ with
  | none => simp [h1] at h
  | some c1 =>
    simp only [h1, Option.bind_some] at h
    cases h2 : unif t.2.1 tr.2.1 c1 with
    | none => simp [h2] at h
    | some c2 =>
      simp only [h2, Option.bind_some] at h
      rcases unif_support h v hv with h3 | h3
      · rcases unif_support h2 v h3 with h4 | h4
        · rcases unif_support h1 v h4 with h5 | h5
          · exact Or.inl h5
          · right; simp [tpVars, h5]
        · right; simp [tpVars, h4]
      · right; simp [tpVars, h3]

theorem evalBGP_graph_support (g : List Triple) (ts : List (TP n)) :
    ∀ (μ ν : Row n), ν ∈ evalBGP (graphStore g) μ ts → ∀ v, ν v ≠ none → μ v ≠ none ∨ v ∈ bgpVars ts := by
  induction ts with
  | nil =>
    intro μ ν h v hv
    simp only [evalBGP, List.mem_singleton] at h
    subst h; exact Or.inl hv
  | cons t rest ih =>
    intro μ ν h v hv
    rw [evalBGP_graph_cons'] at h
    simp only [List.mem_flatMap, Option.mem_toList] at h
    obtain ⟨tr, _, c, hc, hν⟩ := h
    rcases ih c ν hν v hv with h1 | h1
    · rcases ext_support hc v h1 with h2 | h2
      · exact Or.inl h2
      · right; simp [bgpVars, h2]
    · right
      simp only [bgpVars, List.flatMap_cons, List.mem_append]
      exact Or.inr h1

/-! ### projection -/

theorem project_append_of_subset (vs ws : List (Fin n)) (h : ∀ v ∈ ws, v ∈ vs) (μ : Row n) :
    project (vs ++ ws) μ = project vs μ := by
  funext v
  simp only [project, List.contains_eq_mem, List.mem_append]
  by_cases hv : v ∈ vs
  · simp [hv]
  · have : v ∉ ws := fun hw => hv (h v hw)
    simp [hv, this]

theorem mem_domOf (μ : Row n) (v : Fin n) : v ∈ domOf μ ↔ μ v ≠ none := by
  simp only [domOf, List.mem_filter, List.mem_finRange, true_and, ne_eq]
  cases μ v <;> simp

/-- a row whose variables are all outside `pv` disappears under `project pv` -/
theorem project_merge_disjoint (pv : List (Fin n)) (ν κ : Row n) (h : ∀ v, κ v ≠ none → v ∉ pv) :
    project pv (merge ν κ) = project pv ν := by
  funext v
  simp only [project, List.contains_eq_mem]
  by_cases hv : v ∈ pv
  · simp only [hv, decide_true, if_true, merge]
    cases hν : ν v with
    | some x => rfl
    | none =>
      cases hκ : κ v with
      | none => rfl
      | some k => exact absurd hv (h v (by simp [hκ]))
  · simp [hv]

theorem compat_of_disjoint (ν κ : Row n) (h : ∀ v, ν v ≠ none → κ v = none) : compat ν κ = true := by
  rw [compat_iff_ok]
  intro v
  cases hν : ν v with
  | none => simp [okPair]
  | some x => simp [h v (by simp [hν]), okPair]

end RV.C15
