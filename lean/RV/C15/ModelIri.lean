/-
  C15, round h — BASE-relative IRI resolution as rdflib codes it.

  rdflib/plugins/sparql/sparql.py  Prologue.absolutize:  `URIRef(iri, base=self.base)` when ":" is not in the IRI
  rdflib/term.py                   URIRef.__new__:       `urljoin(base, value, allow_fragments=1)`, then the
                                                         trailing "#" (which urljoin drops) is put back
  urllib.parse (CPython 3.12)      urljoin, urlparse / urlsplit / _splitparams, urlunparse / urlunsplit,
                                   uses_relative / uses_netloc / uses_params        → `urljoin`, `urlparse`, `unparse`

  Strings are lists of code points.  Not modelled (excluded from the generated inputs): leading control characters /
  blanks and embedded tab / CR / LF (urlsplit strips them), '[' ']' in the authority (ValueError), non-ASCII authority.
  Core imports only: linked into the driver.
-/
namespace RV.C15.Iri

abbrev S := List Nat

def cColon : Nat := 58
def cSlash : Nat := 47
def cQuest : Nat := 63
def cHash : Nat := 35
def cSemi : Nat := 59
def dot : S := [46]
def dotdot : S := [46, 46]

def isAlphaN (c : Nat) : Bool := (decide (65 ≤ c) && decide (c ≤ 90)) || (decide (97 ≤ c) && decide (c ≤ 122))
def isSchemeChar (c : Nat) : Bool :=
  isAlphaN c || (decide (48 ≤ c) && decide (c ≤ 57)) || c == 43 || c == 45 || c == 46
def lowerN (c : Nat) : Nat := if decide (65 ≤ c) && decide (c ≤ 90) then c + 32 else c

def ofStr (s : String) : S := s.toList.map Char.toNat

/-- urllib.parse.uses_relative / uses_netloc / uses_params (checked against the interpreter's lists on every run) -/
def usesRelative : List S := ["", "ftp", "http", "gopher", "nntp", "imap", "wais", "file", "https", "shttp", "mms",
  "prospero", "rtsp", "rtsps", "rtspu", "sftp", "svn", "svn+ssh", "ws", "wss"].map ofStr
def usesNetloc : List S := ["", "ftp", "http", "gopher", "nntp", "telnet", "imap", "wais", "file", "mms", "https",
  "shttp", "snews", "prospero", "rtsp", "rtsps", "rtspu", "rsync", "svn", "svn+ssh", "sftp", "nfs", "git", "git+ssh",
  "ws", "wss", "itms-services"].map ofStr
def usesParams : List S := ["", "ftp", "hdl", "prospero", "http", "imap", "https", "shttp", "rtsp", "rtsps", "rtspu",
  "sip", "sips", "mms", "sftp", "tel"].map ofStr

/-- longest prefix whose elements satisfy `p`, and the rest -/
def spanN (p : Nat → Bool) : S → S × S
  | [] => ([], [])
  | c :: cs => if p c then ((spanN p cs).1.cons c, (spanN p cs).2) else ([], c :: cs)

/-- `s.split(d, 1)` when `d in s` -/
def cut (d : Nat) (s : S) : Option (S × S) :=
  match spanN (· != d) s with
  | (a, _ :: b) => some (a, b)
  | (_, []) => none

/-- `s.split('/')` -/
def splitSlash : S → List S
  | [] => [[]]
  | c :: cs =>
    if c = cSlash then [] :: splitSlash cs
    else
      match splitSlash cs with
      | [] => [[c]]
      | l :: ls => (c :: l) :: ls

/-- `'/'.join(l)` -/
def joinSlash : List S → S
  | [] => []
  | [s] => s
  | s :: t :: ss => s ++ cSlash :: joinSlash (t :: ss)

/-- the 6-tuple of `urlparse` ('' = `[]`) -/
structure Parts where
  scheme : S
  netloc : S
  path : S
  params : S
  query : S
  frag : S
  deriving DecidableEq, Repr

/-- `_splitparams` -/
def splitParams (url : S) : S × S :=
  let segs := splitSlash url
  match segs.reverse with
  | [] => (url, [])
  | last :: revInit =>
    match cut cSemi last with
    | none => if revInit.isEmpty then (url, []) else (url, [])
    | some (a, b) => (joinSlash (revInit.reverse ++ [a]), b)

/-- `urlparse(url, scheme=dflt)` (urlsplit, then the params of the last segment for the schemes that have them) -/
def urlparse (url dflt : S) : Parts :=
  let (tok, r) := spanN (· != cColon) url
  let (scheme, url) := match r with
    | _ :: r' =>
      if !tok.isEmpty && isAlphaN (tok.headD 0) && tok.all isSchemeChar then (tok.map lowerN, r') else (dflt, url)
    | [] => (dflt, url)
  let (netloc, url) := match url with
    | 47 :: 47 :: r' => spanN (fun c => !(c == cSlash || c == cQuest || c == cHash)) r'
    | _ => ([], url)
  let (url, frag) := match cut cHash url with
    | some (a, b) => (a, b)
    | none => (url, [])
  let (url, query) := match cut cQuest url with
    | some (a, b) => (a, b)
    | none => (url, [])
  let (path, params) := if usesParams.contains scheme && url.contains cSemi then splitParams url else (url, [])
  { scheme := scheme, netloc := netloc, path := path, params := params, query := query, frag := frag }

/-- `urlunparse` → `urlunsplit` -/
def unparse (p : Parts) : S :=
  let url := if p.params.isEmpty then p.path else p.path ++ cSemi :: p.params
  let url :=
    if !p.netloc.isEmpty || (!p.scheme.isEmpty && usesNetloc.contains p.scheme && url.take 2 != [cSlash, cSlash]) then
      [cSlash, cSlash] ++ p.netloc ++ (if !url.isEmpty && url.head? != some cSlash then cSlash :: url else url)
    else url
  let url := if p.scheme.isEmpty then url else p.scheme ++ cColon :: url
  let url := if p.query.isEmpty then url else url ++ cQuest :: p.query
  if p.frag.isEmpty then url else url ++ cHash :: p.frag

/-- `segments[1:-1] = filter(None, segments[1:-1])` -/
def dropEmptyMiddle : List S → List S
  | [] => []
  | [a] => [a]
  | a :: b :: rest => a :: ((b :: rest).dropLast.filter (fun s => !s.isEmpty)) ++ [(b :: rest).getLastD []]

/-- the `for seg in segments` loop; `stk` = `resolved_path`, reversed -/
def resolveSegs (stk : List S) : List S → List S
  | [] => stk.reverse
  | seg :: rest =>
    if seg = dotdot then resolveSegs stk.tail rest          -- pop(); IndexError ignored
    else if seg = dot then resolveSegs stk rest
    else resolveSegs (seg :: stk) rest

/-- `urljoin` after its two `urlparse` calls -/
def joinParts (b r : Parts) : Option S :=
  -- `none` = "return url" (the reference as given)
  if r.scheme != b.scheme || !(usesRelative.contains r.scheme) then none
  else
    let early : Option S :=
      if usesNetloc.contains r.scheme && !r.netloc.isEmpty then some (unparse r) else none
    match early with
    | some u => some u
    | none =>
      let netloc := if usesNetloc.contains r.scheme then b.netloc else r.netloc
      if r.path.isEmpty && r.params.isEmpty then
        some (unparse { scheme := r.scheme, netloc := netloc, path := b.path, params := b.params,
                        query := (if r.query.isEmpty then b.query else r.query), frag := r.frag })
      else
        let baseParts := splitSlash b.path
        let baseParts := if baseParts.getLastD [] != [] then baseParts.dropLast else baseParts
        let segments :=
          if r.path.head? == some cSlash then splitSlash r.path
          else dropEmptyMiddle (baseParts ++ splitSlash r.path)
        let resolved := resolveSegs [] segments
        let resolved := if segments.getLastD [] = dot || segments.getLastD [] = dotdot then resolved ++ [[]] else resolved
        let path := joinSlash resolved
        some (unparse { scheme := r.scheme, netloc := netloc, path := (if path.isEmpty then [cSlash] else path),
                        params := r.params, query := r.query, frag := r.frag })

/-- `urllib.parse.urljoin(base, url)` -/
def urljoin (base url : S) : S :=
  if base.isEmpty then url
  else if url.isEmpty then base
  else
    let b := urlparse base []
    match joinParts b (urlparse url b.scheme) with
    | some u => u
    | none => url

/-- `URIRef(value, base=base)`: urljoin, and a trailing "#" of the reference is kept -/
def uriRefBase (base value : S) : S :=
  let v := urljoin base value
  if value.getLast? == some cHash && v.getLast? != some cHash then v ++ [cHash] else v

/-- `Prologue.absolutize` on an IRI reference: only a reference without ":" is resolved -/
def absolutize (base iri : S) : S :=
  if iri.contains cColon then iri else uriRefBase base iri

end RV.C15.Iri
