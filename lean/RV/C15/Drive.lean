import RV.C15.Model
import RV.C15.ModelTD
import RV.Base.Proto
/-
  C15 driver.  Terms are naturals owned by the harness; variables are `?k` with k < n.

    reset n lo hi                 -> ok     n variables; terms lo..hi are literals (for reorderTriples' key)
    t A|B s p o m1,m2,…           -> ok     a triple of data set A or B; members of the aggregate holding it
    bgp s p o s p o …             -> ok     the current basic graph pattern
    init v t                      -> ok     initBindings {?v: t}
    noinit                        -> ok     no initBindings
    abs b1,b2,… r1,r2,…           -> iri …  `Prologue.absolutize` of the reference r under BASE b (code points, `-` = empty)
    store mem|simple|aud|agg      -> ok     which store model answers `triples`
    eval given                    -> rows … evalBGP in the written order
    eval perm i,j,…               -> rows … evalBGP in that order
    eval plan                     -> rows … reorderTriples, the dynamic sort, evalBGP
    q <prefix tokens>             -> ok     prepare a fragment query:  bgp k s p o … | join Q Q | union Q Q
                                            | filter E Q | proj k v… Q ;  E = same T T | bound ?v | not E | and E E | or E E
    use A|B                       -> ok
    run                           -> rows … one evaluation of the prepared tree (its state is kept)
    sel k tp… (nosub | sub j v… k' tp…) (nofilt | filt E) (star | proj j v…)   -> ok   a `SelQ`
    evalinit                      -> rows … `evalInit` with the current initBindings
    evalvalues                    -> rows … `evalValues`: the same bindings as a VALUES row
    state                         -> clean | dirty
    quad s p o g                  -> ok     a quad of the data set of the top-down evaluator (g = 0: default graph)
    p <prefix tokens>             -> ok     an algebra tree:  bgp k s p o … | join P P | union P P | minus P P
                                            | ljoin (none | e E) P P | filter E P | extend ?v T P | graph T P
                                            | values k (n tokens per row, `-` = UNDEF)… | sub k v… P
    evaltd k v…                   -> rows … `evalSelectTD`: reorderTriples on every BGP, then the top-down evaluator
                                            with the current initBindings, projected on the k variables
  Rows: one `t0,t1,…` per solution (`-` = unbound), sorted, separated by blanks.
-/
open RV RV.C15 RV.Proto

structure St where
  n : Nat
  litLo : Nat
  litHi : Nat
  dataA : List (Triple × List Nat)
  dataB : List (Triple × List Nat)
  useB : Bool
  store : Nat
  bgp : List (TP n)
  init : Row n
  tree : Option (QS n)
  sel : Option (SelQ n)
  quads : List (Triple × Nat)
  ptree : Option (P n)

def St.fresh (n lo hi : Nat) : St :=
  { n := n, litLo := lo, litHi := hi, dataA := [], dataB := [], useB := false, store := 0, bgp := [],
    init := Row.empty, tree := none, sel := none, quads := [], ptree := none }

def pt? (n : Nat) (w : String) : Option (PT n) :=
  if w.startsWith "?" then
    match (w.drop 1).toNat? with
    | some k => if h : k < n then some (.var ⟨k, h⟩) else none
    | none => none
  else w.toNat?.map .const

def var? (n : Nat) (w : String) : Option (Fin n) :=
  match w.toNat? with
  | some k => if h : k < n then some ⟨k, h⟩ else none
  | none => none

def tps? (n : Nat) : List String → Option (List (TP n))
  | [] => some []
  | a :: b :: c :: rest => do
    let s ← pt? n a; let p ← pt? n b; let o ← pt? n c
    let r ← tps? n rest
    pure ((s, p, o) :: r)
  | _ => none

def nats? (w : String) : Option (List Nat) :=
  if w = "-" then some [] else (w.splitOn ",").mapM (·.toNat?)

def showRow {n : Nat} (μ : Row n) : String :=
  ",".intercalate ((List.finRange n).map fun v => match μ v with | some t => toString t | none => "-")

def showRows {n : Nat} (rs : List (Row n)) : String :=
  "rows " ++ " ".intercalate (sortStrs (rs.map showRow))

def St.data (s : St) : List (Triple × List Nat) := if s.useB then s.dataB else s.dataA

def revIdx (d : List Triple) : List Triple := d.reverse

/-- the store models over the current data (indexes deliberately hold the triples in different orders) -/
def St.storeFn (s : St) : Store :=
  let d := s.data.map (·.1)
  let mem : Mem := { all := d, spo := d.reverse, pos := d, osp := d.reverse }
  match s.store with
  | 0 => mem.triples
  | 1 => ({ spo := d, pos := d.reverse, osp := d } : SMem).triples
  | 2 => audTriples mem.triples
  | _ =>
    let k := (s.data.map fun x => x.2.foldl max 0).foldl max 0 + 1
    let members : List Store := (List.range k).map fun i =>
      graphStore ((s.data.filter fun x => x.2.contains i).map (·.1))
    aggTriples members

def permute {α : Type} (l : List α) (idx : List Nat) : Option (List α) := idx.mapM fun i => l[i]?

mutual
def parseE (n : Nat) : Nat → List String → Option (Ex n × List String)
  | 0, _ => none
  | fuel + 1, toks =>
    match toks with
    | "same" :: a :: b :: rest => do
      let x ← pt? n a; let y ← pt? n b
      pure (.same x y, rest)
    | "bound" :: a :: rest =>
      match pt? n a with
      | some (.var v) => some (.bound v, rest)
      | _ => none
    | "not" :: rest => do
      let (e, r) ← parseE n fuel rest
      pure (.not e, r)
    | "and" :: rest => do
      let (a, r1) ← parseE n fuel rest
      let (b, r2) ← parseE n fuel r1
      pure (.and a b, r2)
    | "or" :: rest => do
      let (a, r1) ← parseE n fuel rest
      let (b, r2) ← parseE n fuel r1
      pure (.or a b, r2)
    | _ => none
end

def takeTPs (n : Nat) : Nat → List String → Option (List (TP n) × List String)
  | 0, rest => some ([], rest)
  | k + 1, a :: b :: c :: rest => do
    let s ← pt? n a; let p ← pt? n b; let o ← pt? n c
    let (ts, r) ← takeTPs n k rest
    pure ((s, p, o) :: ts, r)
  | _, _ => none

def takeVars (n : Nat) : Nat → List String → Option (List (Fin n) × List String)
  | 0, rest => some ([], rest)
  | k + 1, a :: rest => do
    let v ← var? n a
    let (vs, r) ← takeVars n k rest
    pure (v :: vs, r)
  | _, _ => none

def parseQ (n : Nat) : Nat → List String → Option (Q n × List String)
  | 0, _ => none
  | fuel + 1, toks =>
    match toks with
    | "bgp" :: k :: rest => do
      let k ← k.toNat?
      let (ts, r) ← takeTPs n k rest
      pure (.bgp ts, r)
    | "join" :: rest => do
      let (a, r1) ← parseQ n fuel rest
      let (b, r2) ← parseQ n fuel r1
      pure (.join a b, r2)
    | "union" :: rest => do
      let (a, r1) ← parseQ n fuel rest
      let (b, r2) ← parseQ n fuel r1
      pure (.union a b, r2)
    | "filter" :: rest => do
      let (e, r1) ← parseE n (rest.length + 1) rest
      let (q, r2) ← parseQ n fuel r1
      pure (.filter e q, r2)
    | "proj" :: k :: rest => do
      let k ← k.toNat?
      let (vs, r1) ← takeVars n k rest
      let (q, r2) ← parseQ n fuel r1
      pure (.proj vs q, r2)
    | _ => none

def takeRow (n : Nat) (toks : List String) : Option (Row n × List String) :=
  if toks.length < n then none else
    let ws := toks.take n
    match ws.mapM (fun w => if w = "-" then some (none : Option Term) else w.toNat?.map some) with
    | some vals => some ((fun v => (vals[v.val]?).getD none), toks.drop n)
    | none => none

def takeRows (n : Nat) : Nat → List String → Option (List (Row n) × List String)
  | 0, rest => some ([], rest)
  | k + 1, toks => do
    let (r, rest) ← takeRow n toks
    let (rs, rest') ← takeRows n k rest
    pure (r :: rs, rest')

def parseP (n : Nat) : Nat → List String → Option (P n × List String)
  | 0, _ => none
  | fuel + 1, toks =>
    match toks with
    | "bgp" :: k :: rest => do
      let k ← k.toNat?
      let (ts, r) ← takeTPs n k rest
      pure (.bgp ts, r)
    | "join" :: rest => do
      let (a, r1) ← parseP n fuel rest
      let (b, r2) ← parseP n fuel r1
      pure (.join a b, r2)
    | "union" :: rest => do
      let (a, r1) ← parseP n fuel rest
      let (b, r2) ← parseP n fuel r1
      pure (.union a b, r2)
    | "minus" :: rest => do
      let (a, r1) ← parseP n fuel rest
      let (b, r2) ← parseP n fuel r1
      pure (.minus a b, r2)
    | "ljoin" :: "none" :: rest => do
      let (a, r1) ← parseP n fuel rest
      let (b, r2) ← parseP n fuel r1
      pure (.leftJoin a b none, r2)
    | "ljoin" :: "e" :: rest => do
      let (e, r0) ← parseE n (rest.length + 1) rest
      let (a, r1) ← parseP n fuel r0
      let (b, r2) ← parseP n fuel r1
      pure (.leftJoin a b (some e), r2)
    | "filter" :: rest => do
      let (e, r1) ← parseE n (rest.length + 1) rest
      let (q, r2) ← parseP n fuel r1
      pure (.filter e q, r2)
    | "extend" :: v :: t :: rest =>
      match pt? n v, pt? n t with
      | some (.var v), some t => do
        let (q, r) ← parseP n fuel rest
        pure (.extend q v t, r)
      | _, _ => none
    | "graph" :: t :: rest => do
      let t ← pt? n t
      let (q, r) ← parseP n fuel rest
      pure (.graph t q, r)
    | "values" :: k :: rest => do
      let k ← k.toNat?
      let (rows, r) ← takeRows n k rest
      pure (.values rows, r)
    | "sub" :: k :: rest => do
      let k ← k.toNat?
      let (vs, r1) ← takeVars n k rest
      let (q, r2) ← parseP n fuel r1
      pure (.sub vs q, r2)
    | _ => none

/-- the data set of the top-down evaluator: the default graph (g = 0) and one named graph per other g, in the order
    of first appearance -/
def St.dset (s : St) : DSet :=
  let names := (s.quads.map (·.2)).eraseDups.filter (· != 0)
  { dflt := graphStore ((s.quads.filter (·.2 == 0)).map (·.1)),
    named := names.map fun nm => (nm, graphStore ((s.quads.filter (·.2 == nm)).map (·.1))) }

def parseSel (n : Nat) (toks : List String) : Option (SelQ n) := do
  match toks with
  | k :: rest =>
    let k ← k.toNat?
    let (ts, r1) ← takeTPs n k rest
    let (sub, r2) ← (match r1 with
      | "nosub" :: r => some (none, r)
      | "sub" :: j :: r => do
        let j ← j.toNat?
        let (pv, ra) ← takeVars n j r
        match ra with
        | k' :: rb => do
          let k' ← k'.toNat?
          let (ts', rc) ← takeTPs n k' rb
          pure (some (pv, ts'), rc)
        | [] => none
      | _ => none : Option (Option (List (Fin n) × List (TP n)) × List String))
    let (filt, r3) ← (match r2 with
      | "nofilt" :: r => some (none, r)
      | "filt" :: r => do
        let (e, rr) ← parseE n (r.length + 1) r
        pure (some e, rr)
      | _ => none : Option (Option (Ex n) × List String))
    match r3 with
    | ["star"] => pure { ts := ts, sub := sub, filt := filt, proj := none }
    | "proj" :: j :: r => do
      let j ← j.toNat?
      let (pv, rr) ← takeVars n j r
      if rr.isEmpty then pure { ts := ts, sub := sub, filt := filt, proj := some pv } else none
    | _ => none
  | [] => none

def step (s : St) : List String → St × String
  | ["reset", n, lo, hi] =>
    match n.toNat?, lo.toNat?, hi.toNat? with
    | some n, some lo, some hi => (St.fresh n lo hi, "ok")
    | _, _, _ => (s, "bad-op")
  | ["t", ds, a, b, c, ms] =>
    match a.toNat?, b.toNat?, c.toNat?, nats? ms with
    | some a, some b, some c, some ms =>
      if ds = "A" then ({ s with dataA := s.dataA ++ [((a, b, c), ms)] }, "ok")
      else if ds = "B" then ({ s with dataB := s.dataB ++ [((a, b, c), ms)] }, "ok")
      else (s, "bad-op")
    | _, _, _, _ => (s, "bad-op")
  | "bgp" :: toks =>
    match tps? s.n toks with
    | some ts => ({ s with bgp := ts }, "ok")
    | none => (s, "bad-op")
  | ["init", v, t] =>
    match var? s.n v, t.toNat? with
    | some v, some t => ({ s with init := s.init.set v t }, "ok")
    | _, _ => (s, "bad-op")
  | ["abs", b, r] =>
    match nats? b, nats? r with
    | some b, some r =>
      let out := Iri.absolutize b r
      (s, "iri " ++ (if out.isEmpty then "-" else ",".intercalate (out.map toString)))
    | _, _ => (s, "bad-op")
  | ["noinit"] => ({ s with init := Row.empty }, "ok")
  | ["store", w] =>
    if w = "mem" then ({ s with store := 0 }, "ok")
    else if w = "simple" then ({ s with store := 1 }, "ok")
    else if w = "aud" then ({ s with store := 2 }, "ok")
    else if w = "agg" then ({ s with store := 3 }, "ok")
    else (s, "bad-op")
  | ["eval", "given"] => (s, showRows (evalBGP s.storeFn s.init s.bgp))
  | ["eval", "perm", idx] =>
    match (nats? idx).bind (permute s.bgp) with
    | some ts => if ts.length = s.bgp.length then (s, showRows (evalBGP s.storeFn s.init ts)) else (s, "bad-op")
    | none => (s, "bad-op")
  | ["eval", "plan"] =>
    (s, showRows (evalPartBGP (fun t => s.litLo ≤ t && t ≤ s.litHi) (fun _ _ => true) s.storeFn s.init s.bgp))
  | "q" :: toks =>
    match parseQ s.n (toks.length + 1) toks with
    | some (q, []) => ({ s with tree := some (QS.ofQ q) }, "ok")
    | _ => (s, "bad-op")
  | ["use", w] =>
    if w = "A" then ({ s with useB := false }, "ok")
    else if w = "B" then ({ s with useB := true }, "ok")
    else (s, "bad-op")
  | ["run"] =>
    match s.tree with
    | some t =>
      let r := t.run (graphStore (s.data.map (·.1)))
      ({ s with tree := some r.2 }, showRows r.1)
    | none => (s, "bad-op")
  | "sel" :: toks =>
    match parseSel s.n toks with
    | some q => ({ s with sel := some q }, "ok")
    | none => (s, "bad-op")
  | ["evalinit"] =>
    match s.sel with
    | some q => (s, showRows (evalInit s.storeFn s.init q))
    | none => (s, "bad-op")
  | ["evalvalues"] =>
    match s.sel with
    | some q => (s, showRows (evalValues s.storeFn s.init q))
    | none => (s, "bad-op")
  | ["quad", a, b, c, g] =>
    match a.toNat?, b.toNat?, c.toNat?, g.toNat? with
    | some a, some b, some c, some g => ({ s with quads := s.quads ++ [((a, b, c), g)] }, "ok")
    | _, _, _, _ => (s, "bad-op")
  | "p" :: toks =>
    match parseP s.n (toks.length + 1) toks with
    | some (q, []) => ({ s with ptree := some q }, "ok")
    | _ => (s, "bad-op")
  | "evaltd" :: k :: vs =>
    match s.ptree, k.toNat? with
    | some q, some k =>
      match takeVars s.n k vs with
      | some (pv, []) =>
        (s, showRows (evalSelectTD s.dset s.init pv
          (q.reorder (fun t => s.litLo ≤ t && t ≤ s.litHi) (fun _ _ => true))))
      | _ => (s, "bad-op")
    | _, _ => (s, "bad-op")
  | ["state"] =>
    match s.tree with
    | some t => (s, if t.clean then "clean" else "dirty")
    | none => (s, "bad-op")
  | _ => (s, "bad-op")

def main : IO Unit := RV.Proto.run step (St.fresh 0 0 0)
