import RV.C15.Lemmas
import RV.C15.LemmasStore
import RV.C15.LemmasAlg
import RV.C15.LemmasInit2
import RV.C15.LemmasTD2
import RV.C15.LemmasTD3
import RV.C15.LemmasIri
/-
  C15 — property theorems (statements first, as `def Statement_… : Prop`, then the proofs).

  "Query answers do not depend on how the query is written, prepared or stored."

  Bags of solution mappings are lists modulo `List.Perm`; a mapping over the `n` variables of a
  query is a function `Fin n → Option Term`.
-/
namespace RV.C15

/-! ## 1. the order of the triple patterns of a basic graph pattern -/

/-- Central theorem. `evalBGP` (rdflib's algorithm: one pattern at a time, under the bindings made so
    far) gives the same bag whatever order the patterns are taken in — for every store whose
    `triples(pattern)` returns each matching triple once, every seed `μ` (initBindings, bindings pushed
    in by an enclosing join), every list of patterns. -/
def Statement_reorder_irrelevant : Prop :=
  ∀ (n : Nat) (st : Store) (d : List Triple) (μ : Row n) (ts ts' : List (TP n)),
    ExactlyOnce st d → ts.Perm ts' → (evalBGP st μ ts).Perm (evalBGP st μ ts')

/-- The same over a graph given as a list in which a triple may occur several times. -/
def Statement_reorder_irrelevant_bag : Prop :=
  ∀ (n : Nat) (g : List Triple) (μ : Row n) (ts ts' : List (TP n)),
    ts.Perm ts' → (evalBGP (graphStore g) μ ts).Perm (evalBGP (graphStore g) μ ts')

/-- `reorderTriples` (static, at translation) and the sort in `evalPart` (dynamic) only permute. -/
def Statement_reorderings_are_permutations : Prop :=
  ∀ (n : Nat) (isLit : Term → Bool) (tle : TP n → TP n → Bool) (μ : Row n) (ts : List (TP n)),
    (reorderTriples isLit tle ts).Perm ts ∧ (dynOrder μ ts).Perm ts

/-- What rdflib really runs (both re-orderings, then `evalBGP`) equals `evalBGP` in any order of
    the patterns as written, whatever the (abstract) tie-break order of terms is. -/
def Statement_plan_order_irrelevant : Prop :=
  ∀ (n : Nat) (isLit : Term → Bool) (tle : TP n → TP n → Bool) (st : Store) (d : List Triple) (μ : Row n)
    (ts ts' : List (TP n)),
    ExactlyOnce st d → ts.Perm ts' → (evalPartBGP isLit tle st μ ts).Perm (evalBGP st μ ts')

theorem reorder_irrelevant : Statement_reorder_irrelevant :=
  fun _ _ _ μ _ _ h hp => evalBGP_graphLike_perm (exactlyOnce_graphLike h) hp μ

theorem reorder_irrelevant_bag : Statement_reorder_irrelevant_bag :=
  fun _ g μ _ _ hp => evalBGP_graph_perm g hp μ

theorem reorderings_are_permutations : Statement_reorderings_are_permutations :=
  fun _ isLit tle μ ts => ⟨reorderTriples_perm isLit tle ts, dynOrder_perm μ ts⟩

theorem plan_order_irrelevant : Statement_plan_order_irrelevant :=
  fun _ isLit tle _ _ μ ts _ h hp =>
    evalBGP_graphLike_perm (exactlyOnce_graphLike h)
      (((dynOrder_perm μ _).trans (reorderTriples_perm isLit tle ts)).trans hp) μ

/-! ## 2. the algebra: join, union, rewrites anywhere in the tree, renaming, prefixes -/

def Statement_join_comm : Prop :=
  ∀ (n : Nat) (A B : List (Row n)), (joinBag A B).Perm (joinBag B A)

def Statement_join_assoc : Prop :=
  ∀ (n : Nat) (A B C : List (Row n)), joinBag (joinBag A B) C = joinBag A (joinBag B C)

def Statement_union_comm : Prop :=
  ∀ (n : Nat) (st : Store) (a b : Q n), ((Q.union a b).eval st).Perm ((Q.union b a).eval st)

/-- Every chain of the rewrites {permute a BGP, swap the operands of a join, swap the operands of a
    union}, applied anywhere in the tree of a query of the fragment, leaves the bag of answers alone. -/
def Statement_model_rewrite_invariant : Prop :=
  ∀ (n : Nat) (st : Store) (d : List Triple) (q q' : Q n),
    ExactlyOnce st d → Rw q q' → (q.eval st).Perm (q'.eval st)

/-- Consistent renaming of variables (any injective `ρ`, also onto a larger variable set): the
    answers of the renamed query are the renamed answers — as lists, not only as bags. -/
def Statement_rename_equivariant : Prop :=
  ∀ (n m : Nat) (ρ : Ren n m) (st : Store) (q : Q n), (ρ.q q).eval st = (q.eval st).map ρ.push

theorem join_comm : Statement_join_comm := fun _ A B => joinBag_comm A B
theorem join_assoc : Statement_join_assoc := fun _ A B C => joinBag_assoc A B C
theorem union_comm : Statement_union_comm := fun _ _ _ _ => List.perm_append_comm
theorem model_rewrite_invariant : Statement_model_rewrite_invariant :=
  fun _ _ _ _ _ h hr => Rw.eval_perm (exactlyOnce_graphLike h) hr
theorem rename_equivariant : Statement_rename_equivariant := fun _ _ ρ st q => ρ.eval_q st q

/-- a query as written: terms are spelled (full IRI, prefixed name, relative reference) -/
abbrev STP := STerm × STerm × STerm

/-- translation of one spelled position: resolve it, then intern the IRI as a term (`intern` is
    whatever maps an IRI to the term the store holds); an unknown prefix is an error -/
def resolvePos (pr : Prologue) (intern : List Nat → Term) {n : Nat} : Sum (Fin n) STerm → Option (PT n)
  | .inl v => some (.var v)
  | .inr s => (resolve1 pr s).map fun iri => .const (intern iri)

def resolveTP (pr : Prologue) (intern : List Nat → Term) {n : Nat}
    (t : Sum (Fin n) STerm × Sum (Fin n) STerm × Sum (Fin n) STerm) : Option (TP n) := do
  let s ← resolvePos pr intern t.1
  let p ← resolvePos pr intern t.2.1
  let o ← resolvePos pr intern t.2.2
  pure (s, p, o)

/-- evaluation of a spelled BGP: translation (PName resolution) first, evaluation afterwards -/
def evalSpelled (pr : Prologue) (intern : List Nat → Term) {n : Nat} (st : Store)
    (ts : List (Sum (Fin n) STerm × Sum (Fin n) STerm × Sum (Fin n) STerm)) : Option (List (Row n)) :=
  (ts.mapM (resolveTP pr intern)).map fun ts' => evalBGP st Row.empty ts'

/-- Spelling is gone before evaluation starts: two texts whose terms resolve alike (under their own
    prologues) are evaluated alike; a prefixed name means namespace ++ local part whatever other
    prefixes are declared (also several prefixes for one namespace), and equals the full IRI. -/
def Statement_prefix_irrelevant : Prop :=
  (∀ (pr1 pr2 : Prologue) (intern : List Nat → Term) (n : Nat) (st : Store)
      (ts1 ts2 : List (Sum (Fin n) STerm × Sum (Fin n) STerm × Sum (Fin n) STerm)),
      ts1.mapM (resolveTP pr1 intern) = ts2.mapM (resolveTP pr2 intern) →
      evalSpelled pr1 intern st ts1 = evalSpelled pr2 intern st ts2) ∧
  (∀ (pr : Prologue) (p p' : Nat) (ns ns' loc : List Nat), p ≠ p' →
      resolve1 ((pr.bind p ns).bind p' ns') (.pname p loc) = some (ns ++ loc) ∧
      resolve1 ((pr.bind p ns).bind p' ns') (.pname p loc) = resolve1 pr (.full (ns ++ loc)))

theorem prefix_irrelevant : Statement_prefix_irrelevant := by
  refine ⟨fun pr1 pr2 intern n st ts1 ts2 h => by simp [evalSpelled, h], fun pr p p' ns ns' loc hne => ?_⟩
  have hne' : ¬ p' = p := fun e => hne e.symm
  simp [resolve1, Prologue.bind, lookupPrefix, hne']

/-- `SPARQLProcessor.query(text, initNs)` — the string path of `Graph.query`: every call parses and
    translates the text against the prologue of *that* call (its `initNs`, i.e. the graph's bindings unless
    given, then the text's own declarations) and evaluates; the processor keeps nothing from one call to the
    next (there is no translation cache in the code, so the model has no state to thread). -/
def runTexts (intern : List Nat → Term) {n : Nat} :
    List (Prologue × Store × List (Sum (Fin n) STerm × Sum (Fin n) STerm × Sum (Fin n) STerm)) →
      List (Option (List (Row n)))
  | [] => []
  | (pr, st, ts) :: rest => evalSpelled pr intern st ts :: runTexts intern rest

/-- A sequence of string queries, the same text or not, under the same or different prefix bindings, on the
    same or different graphs: each call answers as it would alone; and one prefixed name evaluated under two
    prologues that give its prefix different namespaces denotes the respective namespace ++ local part each
    time, whatever came before. -/
def Statement_string_query_stateless : Prop :=
  (∀ (intern : List Nat → Term) (n : Nat)
      (calls : List (Prologue × Store × List (Sum (Fin n) STerm × Sum (Fin n) STerm × Sum (Fin n) STerm))),
      runTexts intern calls = calls.map fun c => evalSpelled c.1 intern c.2.1 c.2.2) ∧
  (∀ (pr : Prologue) (p : Nat) (ns1 ns2 loc : List Nat),
      resolve1 (pr.bind p ns1) (.pname p loc) = some (ns1 ++ loc) ∧
      resolve1 (pr.bind p ns2) (.pname p loc) = some (ns2 ++ loc) ∧
      resolve1 ((pr.bind p ns1).bind p ns2) (.pname p loc) = some (ns2 ++ loc))

theorem string_query_stateless : Statement_string_query_stateless := by
  refine ⟨fun intern n calls => ?_, fun pr p ns1 ns2 loc => by simp [resolve1, Prologue.bind, lookupPrefix]⟩
  induction calls with
  | nil => rfl
  | cons c rest ih =>
    obtain ⟨pr, st, ts⟩ := c
    simp [runTexts, ih]

/-! ## 3. initBindings against a VALUES row -/

/-- For the fragment `SELECT pv|* { BGP . { SELECT pv' { BGP' } } FILTER e }` (sub-select and filter
    optional), evaluated as rdflib does it (lazy join pushing into the sub-select's isolated context,
    initBindings re-seeded there): initBindings for variables that the outermost basic graph pattern
    binds and no sub-query reuses (`Outermost`) = a VALUES row for them in the group. -/
def Statement_initbindings_values : Prop :=
  ∀ (n : Nat) (st : Store) (d : List Triple) (init : Row n) (q : SelQ n),
    ExactlyOnce st d → Outermost init q → (evalInit st init q).Perm (evalValues st init q)

/-- The core of it, for every seed and every BGP (no side condition): seeding = evaluating unseeded
    and joining every solution with the seed. -/
def Statement_bgp_seed_is_join : Prop :=
  ∀ (n : Nat) (st : Store) (d : List Triple) (κ : Row n) (ts : List (TP n)),
    ExactlyOnce st d → (evalBGP st κ ts).Perm (joinBag (evalBGP st Row.empty ts) [κ])

theorem initbindings_values : Statement_initbindings_values := by
  intro n st d init q h ho
  have hg := exactlyOnce_graphLike h
  refine (evalInit_store_congr (st2 := graphStore _) hg init q).trans ?_
  rw [evalInit_eq_evalValues_graph _ init q ho]
  exact evalValues_store_congr (st1 := graphStore _) (fun pat => (hg pat).symm) init q

theorem bgp_seed_is_join : Statement_bgp_seed_is_join := by
  intro n st d κ ts h
  have hg := exactlyOnce_graphLike h
  refine (evalBGP_store_congr (st2 := graphStore _) hg ts κ).trans ?_
  rw [evalBGP_seed_graph, ← joinBag_singleton]
  exact joinBag_perm (evalBGP_store_congr (st1 := graphStore _) (fun pat => (hg pat).symm) ts Row.empty)
    (List.Perm.refl _)

/-- rows as lists, for the concrete instances below -/
def showRows {n : Nat} (rs : List (Row n)) : List (List (Option Term)) := rs.map fun μ => (List.finRange n).map μ

/-- The side conditions are needed (on the model, as on the code):
    (a) a sub-query that reuses the variable — initBindings reach inside it, the VALUES row does not;
    (b) a variable the outermost BGP does not bind — `SELECT *` shows it only in the VALUES form. -/
theorem initbindings_values_needs_no_subquery_reuse :
    let g : List Triple := [(1, 2, 3), (4, 2, 3)]
    let q : SelQ 2 := { ts := [(.var 0, .const 2, .var 1)], sub := some ([1], [(.var 0, .const 2, .var 1)]),
                        filt := none, proj := none }
    let init : Row 2 := Row.empty.set 0 1
    showRows (evalInit (graphStore g) init q) ≠ showRows (evalValues (graphStore g) init q) := by
  decide

theorem initbindings_values_needs_outermost_binding :
    let g : List Triple := [(1, 2, 1)]
    let q : SelQ 2 := { ts := [(.var 0, .const 2, .var 0)], sub := none, filt := none, proj := none }
    let init : Row 2 := Row.empty.set 1 5
    showRows (evalInit (graphStore g) init q) ≠ showRows (evalValues (graphStore g) init q) := by
  decide

/-! ## 4. prepared queries -/

/-- `Expr.eval` leaves every `ctx` field of the tree it visited at `None` — whatever they held
    before (the `finally` clause) — and its value does not depend on what they held. -/
def Statement_expr_eval_clears : Prop :=
  ∀ (n : Nat) (e : ExS n) (c : Row n), (e.eval c).2 = ExS.ofEx e.erase ∧ (e.eval c).1 = e.erase.eval c

/-- One evaluation of a prepared query: the tree afterwards is the tree before — every `ctx` field `None`, and the
    triple lists of its BGPs in the order they had (the per-evaluation sort of `evalPart` works on a copy) — and the
    answers are those of the algebra (which has no state), as a bag. -/
def Statement_prepared_stateless : Prop :=
  ∀ (n : Nat) (q : QS n) (st : Store) (d : List Triple), q.clean = true → ExactlyOnce st d →
    (q.run st).2 = q ∧ (q.run st).1.Perm (q.erase.eval st)

/-- Evaluating one prepared object any number of times, on the same or on other data: each run
    answers as a freshly translated tree does on that data. -/
def Statement_prepared_repeat : Prop :=
  ∀ (n : Nat) (q : Q n) (sts : List Store),
    (runMany (QS.ofQ q) sts).1 = sts.map (fun st => ((QS.ofQ q).run st).1) ∧ (runMany (QS.ofQ q) sts).2 = QS.ofQ q

/-- Any schedule of `Expr.eval` calls on the expression nodes of a prepared tree (rows of several
    evaluations interleaved, result generators abandoned half-way): the nodes end as they began. -/
def Statement_prepared_any_schedule : Prop :=
  ∀ (n : Nat) (es : List (ExS n)) (calls : List (Nat × Row n)),
    (∀ e ∈ es, e.clean = true) → (runCalls es calls).2 = es

/-- The whole prepared object — `prologue.base` included — is the same after an evaluation, whatever `base=`
    keyword the evaluation was given, and the keyword of one evaluation has no influence on the next. -/
def Statement_prepared_base_unchanged : Prop :=
  ∀ (n : Nat) (p : PQ n) (st st' : Store) (b b' : Option (List Nat)), p.tree.clean = true →
    (p.run st b).2 = p ∧ ((p.run st b).2.run st' b').1 = (p.run st' b').1

theorem prepared_base_unchanged : Statement_prepared_base_unchanged := fun _ p st st' b b' h => by
  have e : (p.run st b).2 = p := by
    cases p with
    | mk base tree => simp [PQ.run, QS.run_snd st tree h]
  exact ⟨e, by rw [e]⟩

theorem expr_eval_clears : Statement_expr_eval_clears := fun _ e c => ⟨e.eval_snd c, e.eval_fst c⟩

theorem prepared_stateless : Statement_prepared_stateless := fun _ q st _ h hd =>
  ⟨QS.run_snd st q h, QS.run_fst_perm (exactlyOnce_graphLike hd) q h⟩

theorem prepared_repeat : Statement_prepared_repeat := fun _ q sts => by
  have hc := QS.clean_ofQ q
  rw [runMany_spec _ hc]
  exact ⟨rfl, rfl⟩

theorem prepared_any_schedule : Statement_prepared_any_schedule := fun _ es calls h => runCalls_state es h calls

/-! ## 5. the store behind the graph -/

/-- The evaluator reaches a store only through `triples`: two stores that each return every matching
    triple exactly once, over the same set of triples, give the same bag — for a BGP under any seed and
    for every query of the fragment. -/
def Statement_store_irrelevant : Prop :=
  ∀ (n : Nat) (st1 st2 : Store) (d1 d2 : List Triple), ExactlyOnce st1 d1 → ExactlyOnce st2 d2 → SetEq d1 d2 →
    (∀ (μ : Row n) (ts : List (TP n)), (evalBGP st1 μ ts).Perm (evalBGP st2 μ ts)) ∧
    (∀ q : Q n, (q.eval st1).Perm (q.eval st2))

/-- The store models meet that hypothesis: `Memory` and `SimpleMemory` when their indexes hold the same
    set (C01), the auditable wrapper because it passes `triples` through, the read-only aggregate over
    the union of its members — overlapping members included, because a triple of an earlier member is
    skipped. -/
def Statement_stores_exactly_once : Prop :=
  (∀ (m : Mem) (d : List Triple), m.Holds d → ExactlyOnce m.triples d) ∧
  (∀ (m : SMem) (d : List Triple), m.Holds d → ExactlyOnce m.triples d) ∧
  (∀ (st : Store) (d : List Triple), ExactlyOnce st d → ExactlyOnce (audTriples st) d) ∧
  (∀ (ms : List (Store × List Triple)) (d : List Triple), (∀ x ∈ ms, ExactlyOnce x.1 x.2) →
      (∀ t, t ∈ d ↔ ∃ x ∈ ms, t ∈ x.2) → ExactlyOnce (aggTriples (ms.map (·.1))) d)

theorem store_irrelevant : Statement_store_irrelevant := fun _ _ _ _ _ h1 h2 e =>
  ⟨fun μ ts => evalBGP_store_congr (exactlyOnce_perm h1 h2 e) ts μ,
   fun q => Q.eval_store_congr (exactlyOnce_perm h1 h2 e) q⟩

theorem stores_exactly_once : Statement_stores_exactly_once :=
  ⟨fun _ _ h => Mem.exactlyOnce h, fun _ _ h => SMem.exactlyOnce h, fun _ _ h => aud_exactlyOnce h,
   fun ms d h hd => agg_exactlyOnce ms h d hd⟩

/-- Without the skip (the code before the repair) an overlapping split answers a triple twice. -/
theorem aggregate_without_skip_duplicates :
    let g1 : List Triple := [(1, 2, 3)]
    let g2 : List Triple := [(1, 2, 3), (4, 2, 3)]
    (graphStore g1 (none, none, none) ++ graphStore g2 (none, none, none)).length = 3 ∧
    (aggTriples [graphStore g1, graphStore g2] (none, none, none)).length = 2 := by
  decide

/-! ## 6. the evaluator as rdflib runs it (top-down, bindings pushed into the operand evaluated next):
       BGP order and variable names through OPTIONAL, MINUS, GRAPH, VALUES, BIND, FILTER, lazy and non-lazy joins -/

/-- every graph an evaluation can reach answers `triples(pattern)` with each matching triple once -/
def DSet.AllExactlyOnce (ds : DSet) : Prop :=
  (∃ d, ExactlyOnce ds.dflt d) ∧ ∀ x ∈ ds.named, ∃ d, ExactlyOnce x.2 d

/-- Permuting the triple patterns of any BGPs anywhere in the algebra tree — under OPTIONAL (left or right side),
    MINUS (either side), GRAPH, BIND, FILTER, UNION, lazy or non-lazy joins — leaves the bag of `evalPart` alone, in
    every context (current graph `g`, pushed bindings `μ`, initBindings `init`), hence for the SELECT query. -/
def Statement_td_bgp_reorder : Prop :=
  ∀ (n : Nat) (ds : DSet) (init : Row n) (q q' : P n), ds.AllExactlyOnce → RwB q q' →
    (∀ (g : Store) (μ : Row n), (∃ d, ExactlyOnce g d) → (evalTD ds init q g μ).Perm (evalTD ds init q' g μ)) ∧
    (∀ pv, (evalSelectTD ds init pv q).Perm (evalSelectTD ds init pv q'))

/-- What rdflib runs — `reorderTriples` on every BGP at translation, the dynamic sort at each `evalPart` — equals
    the query with its BGPs in any written order, whatever the (abstract) tie-break order of terms. -/
def Statement_td_plan_order_irrelevant : Prop :=
  ∀ (n : Nat) (isLit : Term → Bool) (tle : TP n → TP n → Bool) (ds : DSet) (init : Row n) (pv : List (Fin n))
    (q q' : P n), ds.AllExactlyOnce → RwB q q' →
    (evalSelectTD ds init pv (q.reorder isLit tle)).Perm (evalSelectTD ds init pv q')

/-- Consistent renaming of the variables (any injective `ρ`; the query, its projection, the initBindings and the
    pushed bindings renamed together): the answers are the renamed answers, as lists — through every operator. -/
def Statement_td_rename_equivariant : Prop :=
  ∀ (n m : Nat) (ρ : Ren n m) (ds : DSet) (init : Row n) (q : P n),
    (∀ (g : Store) (μ : Row n), evalTD ds (ρ.push init) (ρ.p q) g (ρ.push μ) = (evalTD ds init q g μ).map ρ.push) ∧
    (∀ pv, evalSelectTD ds (ρ.push init) (pv.map ρ.f) (ρ.p q) = (evalSelectTD ds init pv q).map ρ.push)

def Statement_td_union_swap : Prop :=
  ∀ (n : Nat) (ds : DSet) (init : Row n) (a b : P n) (g : Store) (μ : Row n),
    (evalTD ds init (.union a b) g μ).Perm (evalTD ds init (.union b a) g μ)

/-- Swapping the operands of a join — at full strength, for the evaluator as it runs.  FALSE for rdflib (known
    findings C15-K3 / K7 / K8: `_vars` is an upper bound used as if exact): see `td_join_swap_witness`; what holds is
    `td_join_swap_partial` (joins that are not evaluated lazily) and, on the bottom-up algebra, `model_rewrite_invariant`. -/
def Statement_td_join_swap : Prop :=
  ∀ (n : Nat) (ds : DSet) (init : Row n) (a b : P n) (g : Store) (μ : Row n),
    (evalTD ds init (.join a b) g μ).Perm (evalTD ds init (.join b a) g μ)

/-- the same graph names, and under each name two stores that answer exactly once over the same set of triples -/
inductive SameData : List (Term × Store) → List (Term × Store) → Prop
  | nil : SameData [] []
  | cons {k : Term} {s s' : Store} {l l' : List (Term × Store)} :
      (∃ d d', ExactlyOnce s d ∧ ExactlyOnce s' d' ∧ SetEq d d') → SameData l l' →
      SameData ((k, s) :: l) ((k, s') :: l')

/-- The evaluator as it runs reaches its stores only through `triples`: the same data (default graph and named
    graphs) behind other stores gives the same bag — through every operator, GRAPH included. -/
def Statement_td_store_irrelevant : Prop :=
  ∀ (n : Nat) (ds ds' : DSet) (init : Row n) (pv : List (Fin n)) (q : P n),
    (∃ d d', ExactlyOnce ds.dflt d ∧ ExactlyOnce ds'.dflt d' ∧ SetEq d d') → SameData ds.named ds'.named →
    (evalSelectTD ds init pv q).Perm (evalSelectTD ds' init pv q)

theorem td_store_irrelevant : Statement_td_store_irrelevant := by
  intro n ds ds' init pv q hd hn
  have hgen : ∀ {l l' : List (Term × Store)}, SameData l l' → NamedEq l l' := by
    intro l l' h
    induction h with
    | nil => exact .nil
    | cons h _ ih =>
      obtain ⟨d, d', h1, h2, e⟩ := h
      exact .cons (exactlyOnce_perm h1 h2 e) ih
  have hne : NamedEq ds.named ds'.named := hgen hn
  obtain ⟨d, d', h1, h2, e⟩ := hd
  have hdf : StoreEq ds.dflt ds'.dflt := exactlyOnce_perm h1 h2 e
  exact (evalTD_store_congr ⟨hdf, hne⟩ init q ds.dflt ds'.dflt init hdf).map _

theorem td_bgp_reorder : Statement_td_bgp_reorder := by
  intro n ds init q q' hds h
  have hgood : ds.Good := fun x hx => by
    obtain ⟨d, hd⟩ := hds.2 x hx
    exact ⟨_, exactlyOnce_graphLike hd⟩
  refine ⟨fun g μ hg => ?_, fun pv => ?_⟩
  · obtain ⟨d, hd⟩ := hg
    exact evalTD_rwB ds hgood init h g μ ⟨_, exactlyOnce_graphLike hd⟩
  · obtain ⟨d, hd⟩ := hds.1
    exact (evalTD_rwB ds hgood init h ds.dflt init ⟨_, exactlyOnce_graphLike hd⟩).map _

theorem td_plan_order_irrelevant : Statement_td_plan_order_irrelevant := fun n isLit tle ds init pv q _ hds h =>
  ((td_bgp_reorder n ds init _ _ hds (RwB.reorder isLit tle q)).2 pv).symm.trans
    ((td_bgp_reorder n ds init _ _ hds h).2 pv)

theorem td_rename_equivariant : Statement_td_rename_equivariant := by
  intro n m ρ ds init q
  refine ⟨ρ.evalTD_push ds init q, fun pv => ?_⟩
  have h := ρ.evalTD_push ds init q ds.dflt init
  simp only [evalSelectTD, h, List.map_map]
  congr 1
  funext μ
  exact ρ.project_push pv μ

theorem td_union_swap : Statement_td_union_swap := fun _ _ _ _ _ _ _ => List.perm_append_comm

/-- a join that is not evaluated lazily (an operand contains a join) is `_join` of the two bags: commutative -/
theorem td_join_swap_partial :
    ∀ (n : Nat) (ds : DSet) (init : Row n) (a b : P n) (g : Store) (μ : Row n), (a.noJoin && b.noJoin) = false →
      (evalTD ds init (.join a b) g μ).Perm (evalTD ds init (.join b a) g μ) := by
  intro n ds init a b g μ h
  have h' : (b.noJoin && a.noJoin) = false := by rw [Bool.and_comm]; exact h
  simp only [evalTD, h, h']
  exact joinBag_comm _ _

/-- `{ ?x p ?y } { OPTIONAL { ?x q ?z } FILTER(bound(?x)) }` over one `p` triple: the lazy join pushes `?x` into the
    right group, whose filter keeps it (it is in `_vars` of the OPTIONAL, which did not match): 1 solution; with the
    operands swapped the group is evaluated first, `?x` is unbound: 0 solutions. -/
theorem td_join_swap_witness : ¬ Statement_td_join_swap := by
  intro h
  have := (h 3 { dflt := graphStore [(1, 10, 2)], named := [] } Row.empty
    (.bgp [(.var 0, .const 10, .var 1)])
    (.filter (.bound 0) (.leftJoin (.bgp []) (.bgp [(.var 0, .const 11, .var 2)]) none))
    (graphStore [(1, 10, 2)]) Row.empty).length_eq
  revert this
  decide

/-! ## 7. initBindings against a VALUES row, for the evaluator as it runs, through OPTIONAL and UNION -/

/-- `Graph.query("SELECT pv { B0 tail* }", initBindings=κ)`, tails = `OPTIONAL { B [FILTER e] }` | `{B1} UNION {B2}`,
    over a graph given as a list of triples -/
def evalInitT {n : Nat} (g : List Triple) (κ : Row n) (pv : List (Fin n)) (ts0 : List (TP n)) (tails : List (Tail n)) :
    List (Row n) :=
  evalSelectTD { dflt := graphStore g, named := [] } κ pv (buildT ts0 tails)

/-- the same query with `VALUES (dom κ) { (κ) }` at the end of its group, no initBindings -/
def evalValuesT {n : Nat} (g : List Triple) (κ : Row n) (pv : List (Fin n)) (ts0 : List (TP n)) (tails : List (Tail n)) :
    List (Row n) :=
  evalSelectTD { dflt := graphStore g, named := [] } Row.empty pv (.join (buildT ts0 tails) (.values [κ]))

/-- initBindings for variables the outermost BGP binds = a VALUES row for them, with any number of OPTIONAL (with or
    without a filter of their own) and UNION elements after the outermost BGP — evaluated as rdflib evaluates
    (bindings pushed into the OPTIONAL parts and UNION branches, the OPTIONAL re-check, `forget`, `thaw`). -/
def Statement_initbindings_values_td : Prop :=
  ∀ (n : Nat) (g : List Triple) (κ : Row n) (pv : List (Fin n)) (ts0 : List (TP n)) (tails : List (Tail n)),
    (∀ v, κ v ≠ none → v ∈ bgpVars ts0) → (evalInitT g κ pv ts0 tails).Perm (evalValuesT g κ pv ts0 tails)

theorem initbindings_values_td : Statement_initbindings_values_td := by
  intro n g κ pv ts0 tails h
  have c := SeedClaim.allTails (ds := { dflt := graphStore g, named := [] }) tails (.bgp ts0)
    (SeedClaim.bgp _ g κ ts0 h)
  simp only [evalInitT, evalValuesT, evalSelectTD, buildT]
  rw [values_join_eq_filter _ _ κ _ c.binds]
  exact c.seed.map _

/-- the first version of the proof: every join of the tree evaluated lazily (`tailsLazy`: any number of OPTIONAL
    tails, at most one UNION tail); superseded by `initbindings_values_td`, which also covers UNION tails joined by
    `_join` (`SeedClaim.uniStrict`) -/
theorem initbindings_values_td_partial :
    ∀ (n : Nat) (g : List Triple) (κ : Row n) (pv : List (Fin n)) (ts0 : List (TP n)) (tails : List (Tail n)),
      tailsLazy true tails = true → (∀ v, κ v ≠ none → v ∈ bgpVars ts0) →
      (evalInitT g κ pv ts0 tails).Perm (evalValuesT g κ pv ts0 tails) := by
  intro n g κ pv ts0 tails hl h
  have c := SeedClaim.tails (ds := { dflt := graphStore g, named := [] }) tails (.bgp ts0)
    (SeedClaim.bgp _ g κ ts0 h) hl
  simp only [evalInitT, evalValuesT, evalSelectTD, buildT]
  rw [values_join_eq_filter _ _ κ _ c.binds]
  exact c.seed.map _

/-- the side condition is needed on the evaluator as it runs, too: `{ ?x p ?y OPTIONAL { ?x q ?z } }` with
    initBindings for `?z` (which the outermost BGP does not bind): the value restricts the OPTIONAL part and the
    solution survives without it; the VALUES row, joined afterwards, removes the solution whose `?z` differs -/
theorem initbindings_values_td_needs_outermost_binding :
    let g : List Triple := [(1, 10, 2), (1, 11, 3)]
    let κ : Row 3 := Row.empty.set 2 4
    let tails : List (Tail 3) := [.opt [(.var 0, .const 11, .var 2)] none]
    showRows (evalInitT g κ [0, 1, 2] [(.var 0, .const 10, .var 1)] tails) ≠
      showRows (evalValuesT g κ [0, 1, 2] [(.var 0, .const 10, .var 1)] tails) := by
  decide

/-! ## 8. BASE-relative spelling, resolved as rdflib resolves it (`URIRef(iri, base=…)` → CPython's `urljoin`) -/

/-- (a) Under a BASE whose path is a directory (`scheme://authority/d1/…/dk/`, plain segments, no query or fragment; any
    scheme `urljoin` resolves against) a reference that is one plain segment denotes BASE ++ reference: the IRI that
    the full spelling denotes and that the prefixed name `p:loc` denotes when `p` is bound to the BASE string — stated on
    the parsed components (`joinParts` = `urljoin` after its two `urlparse` calls; the parser is tied to the
    implementation by the `iri` stream).  (b) A reference that contains ":" is never resolved: it is its own full
    spelling whatever the BASE.  (c) Without a BASE nothing is resolved. -/
def Statement_base_relative_spelling : Prop :=
  (∀ (scheme netloc : Iri.S) (dirs : List Iri.S) (loc : Iri.S), Iri.usesRelative.contains scheme = true →
      (∀ d ∈ dirs, Iri.PlainSeg d) → Iri.PlainSeg loc →
      Iri.joinParts ⟨scheme, netloc, Iri.joinSlash ([] :: dirs ++ [[]]), [], [], []⟩ ⟨scheme, [], loc, [], [], []⟩ =
        some (Iri.unparse ⟨scheme, netloc, Iri.joinSlash ([] :: dirs ++ [[]]), [], [], []⟩ ++ loc)) ∧
  (∀ (pr : Prologue) (iri : List Nat), iri.contains Iri.cColon = true →
      resolve1 pr (.rel iri) = resolve1 pr (.full iri)) ∧
  (∀ (pfx : List (Nat × List Nat)) (iri : List Nat), resolve1 { base := [], prefixes := pfx } (.rel iri) = some iri)

theorem base_relative_spelling : Statement_base_relative_spelling :=
  ⟨fun scheme netloc dirs loc hs hd hl => Iri.joinParts_plain scheme netloc dirs loc hs hd hl,
   fun pr iri h => by simp only [resolve1, Iri.absolutize_colon pr.base iri h],
   fun pfx iri => by simp only [resolve1, Iri.absolutize_nobase]⟩

/-- the string-level pipeline on concrete instances (`ws://e/n/` is BASE): a plain reference is appended, dot segments
    are removed, an empty middle segment of the merged path is dropped (CPython, not RFC 3986), a trailing "#" that
    `urljoin` loses is put back by `URIRef.__new__`, a reference with ":" is left alone, an unknown scheme resolves
    nothing -/
theorem absolutize_instances :
    let base : List Nat := [119, 115, 58, 47, 47, 101, 47, 110, 47]
    Iri.absolutize base [97] = base ++ [97] ∧
    Iri.absolutize base [46, 46, 47, 98] = [119, 115, 58, 47, 47, 101, 47, 98] ∧
    Iri.absolutize base [97, 47, 47, 98] = base ++ [97, 47, 98] ∧
    Iri.absolutize base [97, 35] = base ++ [97, 35] ∧
    Iri.absolutize base [97, 58, 98] = [97, 58, 98] ∧
    Iri.absolutize [120, 121, 58, 47, 47, 101, 47, 110, 47] [97] = [97] := by
  decide

/-! ## non-vacuity: the hypotheses are met by concrete, non-trivial instances -/

example : ExactlyOnce (graphStore [(1, 2, 3), (4, 2, 3), (3, 2, 1)]) [(1, 2, 3), (4, 2, 3), (3, 2, 1)] :=
  graphStore_exactlyOnce (by decide)

example : ({ all := [(1, 2, 3), (4, 2, 3)], spo := [(4, 2, 3), (1, 2, 3)], pos := [(1, 2, 3), (4, 2, 3)],
             osp := [(4, 2, 3), (1, 2, 3)] } : Mem).Holds [(1, 2, 3), (4, 2, 3)] :=
  ⟨by decide, List.Perm.refl _, List.Perm.swap _ _ _, List.Perm.refl _, List.Perm.swap _ _ _⟩

/-- a two-pattern BGP with two answers, evaluated in both orders -/
example :
    showRows (evalBGP (graphStore [(1, 2, 3), (4, 2, 3), (3, 5, 1)]) (Row.empty : Row 3)
      [(.var 0, .const 2, .var 1), (.var 1, .const 5, .var 2)]) = [[some 1, some 3, some 1], [some 4, some 3, some 1]] ∧
    showRows (evalBGP (graphStore [(1, 2, 3), (4, 2, 3), (3, 5, 1)]) (Row.empty : Row 3)
      [(.var 1, .const 5, .var 2), (.var 0, .const 2, .var 1)]) = [[some 1, some 3, some 1], [some 4, some 3, some 1]] := by
  decide

/-- a renaming that is not the identity: swap the two variables -/
def swap2 : Ren 2 2 where
  f := fun v => if v = 0 then 1 else 0
  inv := fun w => some (if w = 0 then 1 else 0)
  left := by decide
  right := by decide

example :
    showRows ((Q.bgp [(.var 0, .const 2, .var 1)] : Q 2).eval (graphStore [(1, 2, 3)])) = [[some 1, some 3]] ∧
    showRows ((swap2.q (.bgp [(.var 0, .const 2, .var 1)])).eval (graphStore [(1, 2, 3)])) = [[some 3, some 1]] := by
  decide

/-- an initBindings instance that satisfies `Outermost` and restricts the answer -/
example :
    let q : SelQ 2 := { ts := [(.var 0, .const 2, .var 1)], sub := none, filt := none, proj := none }
    let init : Row 2 := Row.empty.set 0 1
    Outermost init q ∧
      showRows (evalInit (graphStore [(1, 2, 3), (4, 2, 3)]) init q) = [[some 1, some 3]] := by
  refine ⟨⟨?_, trivial⟩, by decide⟩
  intro v hv
  have : v = 0 := by
    revert hv; revert v; decide
  subst this
  decide

/-- the dynamic sort really reorders (so a sort done in place on the prepared tree would change its state) -/
example :
    dynOrder (Row.empty : Row 2) [(.var 0, .const 2, .var 1), (.const 1, .const 2, .var 1)] =
      [(.const 1, .const 2, .var 1), (.var 0, .const 2, .var 1)] := by
  decide

/-- a prepared filter query evaluated on two data sets in turn: clean before, clean after -/
example :
    let q : Q 2 := .filter (.not (.same (.var 0) (.const 4))) (.bgp [(.var 0, .const 2, .var 1)])
    let r := runMany (QS.ofQ q) [graphStore [(1, 2, 3), (4, 2, 3)], graphStore [(4, 2, 3)], graphStore [(1, 2, 3), (4, 2, 3)]]
    r.1.map showRows = [[[some 1, some 3]], [], [[some 1, some 3]]] ∧ r.2.clean = true := by
  decide

/-- a data set with a named graph meets `AllExactlyOnce`; an OPTIONAL + MINUS + GRAPH query over it has answers, and
    the same answers with the patterns of its BGP swapped -/
example :
    let ds : DSet := { dflt := graphStore [(1, 10, 2), (3, 10, 2), (3, 11, 4)], named := [(7, graphStore [(1, 10, 2)])] }
    let q : P 3 := .minus (.leftJoin (.bgp [(.var 0, .const 10, .var 1), (.var 0, .const 10, .const 2)])
                              (.bgp [(.var 0, .const 11, .var 2)]) none)
                          (.graph (.const 7) (.bgp [(.var 0, .const 10, .var 1)]))
    let q' : P 3 := .minus (.leftJoin (.bgp [(.var 0, .const 10, .const 2), (.var 0, .const 10, .var 1)])
                              (.bgp [(.var 0, .const 11, .var 2)]) none)
                          (.graph (.const 7) (.bgp [(.var 0, .const 10, .var 1)]))
    ds.AllExactlyOnce ∧ RwB q q' ∧
      showRows (evalSelectTD ds Row.empty [0, 1, 2] q) = [[some 3, some 2, some 4]] ∧
      showRows (evalSelectTD ds Row.empty [0, 1, 2] q') = [[some 3, some 2, some 4]] := by
  refine ⟨⟨⟨_, graphStore_exactlyOnce (by decide)⟩, ?_⟩, ?_, by decide, by decide⟩
  · intro x hx
    simp only [List.mem_singleton] at hx
    subst hx
    exact ⟨_, graphStore_exactlyOnce (by decide)⟩
  · exact .minus (.leftJoin none (.bgp (List.Perm.swap _ _ _)) (.refl _)) (.refl _)

/-- an initBindings instance through OPTIONAL and UNION that meets the side condition and restricts the answer -/
example :
    let g : List Triple := [(1, 10, 2), (3, 10, 2), (1, 11, 5), (2, 12, 6)]
    let κ : Row 4 := Row.empty.set 0 1
    let tails : List (Tail 4) := [.opt [(.var 0, .const 11, .var 2)] (some (.bound 2)),
                                  .uni [(.var 1, .const 12, .var 3)] [(.var 1, .const 13, .var 3)]]
    (∀ v, κ v ≠ none → v ∈ bgpVars [((.var 0, .const 10, .var 1) : TP 4)]) ∧ tailsLazy true tails = true ∧
      showRows (evalInitT g κ [0, 1, 2, 3] [(.var 0, .const 10, .var 1)] tails) = [[some 1, some 2, some 5, some 6]] ∧
      showRows (evalValuesT g κ [0, 1, 2, 3] [(.var 0, .const 10, .var 1)] tails) = [[some 1, some 2, some 5, some 6]] := by
  decide

/-- a sub-SELECT under a lazy join: its un-projected variable `?1` is not correlated with the outer `?1` (the
    sub-select runs in a cleaned context), its projected `?0` is joined; same answers with the outer BGP permuted -/
example :
    let ds : DSet := { dflt := graphStore [(1, 10, 2), (3, 10, 4), (1, 11, 5)], named := [] }
    let q : P 2 := .join (.bgp [(.var 0, .const 10, .var 1), (.var 0, .const 10, .var 1)])
                         (.sub [0] (.bgp [(.var 0, .const 11, .var 1)]))
    RwB q (.join (.bgp [(.var 0, .const 10, .var 1), (.var 0, .const 10, .var 1)]) (.sub [0] (.bgp [(.var 0, .const 11, .var 1)]))) ∧
      showRows (evalSelectTD ds Row.empty [0, 1] q) = [[some 1, some 2]] := by
  exact ⟨.refl _, by decide⟩

end RV.C15
