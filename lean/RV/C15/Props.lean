import RV.C15.Lemmas
namespace RV.C15
theorem placeholder_true : True := trivial
end RV.C15
