import RV.C15.LemmasInit
/-
  Helper lemmas for C15, part 5: `Graph.query(q, initBindings=κ)` against the same query with
  `VALUES κ` in its group, for the fragment `SelQ` (outermost BGP, optional sub-select, filter, projection).
-/
namespace RV.C15

open List

variable {n : Nat}

/-- the side condition of the property: the initBindings are for variables that the outermost basic
    graph pattern binds, and no sub-query reuses them -/
def Outermost (init : Row n) (q : SelQ n) : Prop :=
  (∀ v, init v ≠ none → v ∈ bgpVars q.ts) ∧
  (match q.sub with
   | none => True
   | some (pv, ts') => ∀ v, init v ≠ none → v ∉ pv ∧ v ∉ bgpVars ts')

theorem filterMap_eq_map_of_forall {α β : Type} (l : List α) (f : α → Option β) (g : α → β)
    (h : ∀ x ∈ l, f x = some (g x)) : l.filterMap f = l.map g := by
  induction l with
  | nil => rfl
  | cons a l ih =>
    rw [List.filterMap_cons, h a (by simp)]
    simp only [List.map_cons]
    rw [ih fun x hx => h x (by simp [hx])]

theorem map_congr_mem {α β : Type} (l : List α) (f g : α → β) (h : ∀ x ∈ l, f x = g x) : l.map f = l.map g := by
  induction l with
  | nil => rfl
  | cons a l ih =>
    simp only [List.map_cons]
    rw [h a (by simp), ih fun x hx => h x (by simp [hx])]

/-- the sub-select does not notice initBindings for variables it does not mention -/
theorem subRows_seed (g : List Triple) (κ : Row n) (sub : Option (List (Fin n) × List (TP n)))
    (h : match sub with
      | none => True
      | some (pv, ts') => ∀ v, κ v ≠ none → v ∉ pv ∧ v ∉ bgpVars ts') :
    subRows (graphStore g) κ sub = subRows (graphStore g) Row.empty sub := by
  cases sub with
  | none => rfl
  | some x =>
    obtain ⟨pv, ts'⟩ := x
    simp only [subRows]
    rw [evalBGP_seed_graph g κ ts']
    have hsupp := evalBGP_graph_support g ts' Row.empty
    have hjw : ∀ ν ∈ evalBGP (graphStore g) Row.empty ts', joinWith κ ν = some (merge ν κ) := by
      intro ν hν
      have : compat ν κ = true := by
        apply compat_of_disjoint
        intro v hv
        rcases hsupp ν hν v hv with h1 | h1
        · simp [Row.empty] at h1
        · cases hk : κ v with
          | none => rfl
          | some k => exact absurd h1 (h v (by simp [hk])).2
      simp [joinWith, this]
    rw [filterMap_eq_map_of_forall _ _ _ hjw, List.map_map]
    apply map_congr_mem
    intro ν _
    exact project_merge_disjoint pv ν κ fun v hv => (h v hv).1

/-- one sub-select row against one BGP solution -/
def pairRow (a s : Row n) : Option (Row n) := if compat s a then some (merge s a) else none

theorem pairRow_push (κ a s : Row n) :
    (if compat a κ then pairRow (merge a κ) s else none) = (pairRow a s).bind (joinWith κ) := by
  have h3 := compat_three s a κ
  simp only [pairRow]
  cases h1 : compat a κ with
  | false =>
    rw [h1, Bool.false_and] at h3
    cases h2 : compat s a with
    | false => simp
    | true =>
      rw [h2, Bool.true_and] at h3
      simp [joinWith, ← h3]
  | true =>
    rw [h1, Bool.true_and] at h3
    cases h2 : compat s a with
    | false =>
      rw [h2, Bool.false_and] at h3
      simp [h3]
    | true =>
      rw [h2, Bool.true_and] at h3
      simp only [if_true, Option.bind_some, h3, merge_assoc, joinWith]

theorem groupRows_eq (st : Store) (init : Row n) (q : SelQ n) :
    groupRows st init q = (evalBGP st init q.ts).flatMap fun a => (subRows st init q.sub).filterMap (pairRow a) := rfl

theorem joinBag_singleton (X : List (Row n)) (κ : Row n) : joinBag X [κ] = X.filterMap (joinWith κ) := by
  simp only [joinBag, filterMap_eq_flatMap, List.flatMap_cons, List.flatMap_nil, List.append_nil, joinWith]

/-- seeding the group with `κ` = evaluating it unseeded and joining each solution with `κ` -/
theorem groupRows_seed (g : List Triple) (κ : Row n) (q : SelQ n) (h : Outermost κ q) :
    groupRows (graphStore g) κ q = joinBag (groupRows (graphStore g) Row.empty q) [κ] := by
  rw [joinBag_singleton, groupRows_eq, groupRows_eq, subRows_seed g κ q.sub h.2, evalBGP_seed_graph g κ q.ts,
    filterMap_flatMap', filterMap_eq_flatMap, List.flatMap_assoc]
  congr 1
  funext a
  simp only [List.filterMap_filterMap]
  cases hc : compat a κ with
  | false =>
    have : joinWith κ a = none := by simp [joinWith, hc]
    rw [this]
    simp only [Option.toList_none, List.flatMap_nil]
    symm
    rw [List.filterMap_eq_nil_iff]
    intro s _
    have := pairRow_push κ a s
    rw [hc] at this
    simpa using this.symm
  | true =>
    have : joinWith κ a = some (merge a κ) := by simp [joinWith, hc]
    rw [this]
    simp only [Option.toList_some, List.flatMap_cons, List.flatMap_nil, List.append_nil]
    congr 1
    funext s
    have := pairRow_push κ a s
    rw [hc] at this
    simpa using this

theorem finish_star (q : SelQ n) (κ : Row n) (h : ∀ v, κ v ≠ none → v ∈ bgpVars q.ts) (rows : List (Row n)) :
    finish q (starVars q ++ domOf κ) rows = finish q (starVars q) rows := by
  simp only [finish]
  cases q.proj with
  | some pv => rfl
  | none =>
    simp only [Option.getD_none]
    apply map_congr_mem
    intro μ _
    apply project_append_of_subset
    intro v hv
    rw [mem_domOf] at hv
    simp only [starVars, List.mem_append]
    exact Or.inl (Or.inl (h v hv))

theorem evalInit_eq_evalValues_graph (g : List Triple) (κ : Row n) (q : SelQ n) (h : Outermost κ q) :
    evalInit (graphStore g) κ q = evalValues (graphStore g) κ q := by
  simp only [evalInit, evalValues]
  rw [finish_star q κ h.1, groupRows_seed g κ q h]

/-! ### the same through any store that answers like the graph -/

theorem subRows_store_congr {st1 st2 : Store} (h : ∀ pat, (st1 pat).Perm (st2 pat)) (init : Row n)
    (sub : Option (List (Fin n) × List (TP n))) : (subRows st1 init sub).Perm (subRows st2 init sub) := by
  cases sub with
  | none => exact List.Perm.refl _
  | some x => exact (evalBGP_store_congr h x.2 init).map _

theorem groupRows_store_congr {st1 st2 : Store} (h : ∀ pat, (st1 pat).Perm (st2 pat)) (init : Row n) (q : SelQ n) :
    (groupRows st1 init q).Perm (groupRows st2 init q) := by
  rw [groupRows_eq, groupRows_eq]
  refine ((evalBGP_store_congr h q.ts init).flatMap_right _).trans ?_
  exact perm_flatMap_congr fun a _ => (subRows_store_congr h init q.sub).filterMap _

theorem finish_perm (q : SelQ n) (star : List (Fin n)) {r1 r2 : List (Row n)} (h : r1.Perm r2) :
    (finish q star r1).Perm (finish q star r2) := by
  simp only [finish]
  cases q.filt with
  | none => exact h.map _
  | some e => exact (h.filter _).map _

theorem evalInit_store_congr {st1 st2 : Store} (h : ∀ pat, (st1 pat).Perm (st2 pat)) (init : Row n) (q : SelQ n) :
    (evalInit st1 init q).Perm (evalInit st2 init q) :=
  finish_perm q _ (groupRows_store_congr h init q)

theorem evalValues_store_congr {st1 st2 : Store} (h : ∀ pat, (st1 pat).Perm (st2 pat)) (init : Row n) (q : SelQ n) :
    (evalValues st1 init q).Perm (evalValues st2 init q) :=
  finish_perm q _ (joinBag_perm (groupRows_store_congr h Row.empty q) (List.Perm.refl _))

end RV.C15

namespace RV.C15
open List
variable {n : Nat}

/-! ### join is associative (as lists, not only as bags) -/

def pj (x y : Row n) : Option (Row n) := if compat x y then some (merge x y) else none

theorem pj_assoc (a b c : Row n) : ((pj a b).bind fun ab => pj ab c) = ((pj b c).bind fun bc => pj a bc) := by
  have h3 := compat_three a b c
  simp only [pj]
  cases h1 : compat a b with
  | false =>
    rw [h1, Bool.false_and] at h3
    cases h2 : compat b c with
    | false => simp
    | true =>
      rw [h2, Bool.true_and] at h3
      simp [h3]
  | true =>
    rw [h1, Bool.true_and] at h3
    cases h2 : compat b c with
    | false =>
      rw [h2, Bool.false_and] at h3
      simp [← h3]
    | true =>
      rw [h2, Bool.true_and] at h3
      simp only [if_true, Option.bind_some, h3, merge_assoc]

theorem option_flatMap_filterMap {α β γ : Type} (o : Option α) (l : List β) (f : α → β → Option γ) :
    (o.toList.flatMap fun x => l.filterMap (f x)) = l.filterMap fun y => o.bind fun x => f x y := by
  cases o with
  | none => simp
  | some x => simp

theorem joinBag_assoc (A B C : List (Row n)) : joinBag (joinBag A B) C = joinBag A (joinBag B C) := by
  have e : ∀ (X Y : List (Row n)), joinBag X Y = X.flatMap fun x => Y.filterMap (pj x) := fun _ _ => rfl
  rw [e (joinBag A B) C, e A B, e A (joinBag B C), e B C, List.flatMap_assoc]
  congr 1
  funext a
  rw [filterMap_flatMap', filterMap_eq_flatMap, List.flatMap_assoc]
  congr 1
  funext b
  rw [option_flatMap_filterMap, List.filterMap_filterMap]
  congr 1
  funext c
  exact pj_assoc a b c

end RV.C15
