import RV.C15.Lemmas
/-
  Helper lemmas for C15, part 2: each store model answers `triples(pattern)` with every matching
  triple exactly once (`ExactlyOnce`), provided its indexes hold the same set of triples.
-/
namespace RV.C15

open List

theorem matches_full_iff (s p o : Term) (t : Triple) :
    Pat.matches (some s, some p, some o) t = true ↔ t = (s, p, o) := by
  obtain ⟨a, b, c⟩ := t
  simp [Pat.matches, matchPos, Prod.ext_iff, and_assoc]

theorem matches_top (t : Triple) : Pat.matches (none, none, none) t = true := by
  simp [Pat.matches, matchPos]

/-- the indexes of a `Memory` store all hold the triple set `d` -/
structure Mem.Holds (m : Mem) (d : List Triple) : Prop where
  nodup : d.Nodup
  all : m.all.Perm d
  spo : m.spo.Perm d
  pos : m.pos.Perm d
  osp : m.osp.Perm d

theorem exactlyOnce_filter_index {idx d : List Triple} (hn : d.Nodup) (hp : idx.Perm d) (pat : Pat) :
    (idx.filter pat.matches).Nodup ∧ ∀ t, t ∈ idx.filter pat.matches ↔ (t ∈ d ∧ pat.matches t = true) := by
  refine ⟨((hp.nodup_iff).2 hn).filter _, fun t => ?_⟩
  rw [List.mem_filter, hp.mem_iff]

theorem Mem.exactlyOnce {m : Mem} {d : List Triple} (h : m.Holds d) : ExactlyOnce m.triples d := by
  intro pat
  rcases pat with ⟨_ | s, _ | p, _ | o⟩
  · -- all wildcards: the per-context dump
    refine ⟨(h.all.nodup_iff).2 h.nodup, fun t => ?_⟩
    simp only [Mem.triples, h.all.mem_iff, matches_top, and_true]
  · exact exactlyOnce_filter_index h.nodup h.osp _
  · exact exactlyOnce_filter_index h.nodup h.pos _
  · exact exactlyOnce_filter_index h.nodup h.pos _
  · exact exactlyOnce_filter_index h.nodup h.spo _
  · exact exactlyOnce_filter_index h.nodup h.spo _
  · exact exactlyOnce_filter_index h.nodup h.spo _
  · -- fully bound: one dictionary look-up
    simp only [Mem.triples]
    constructor
    · split <;> simp
    · intro t
      rw [matches_full_iff]
      by_cases hm : (s, p, o) ∈ m.spo
      · have hd : (s, p, o) ∈ d := h.spo.mem_iff.1 hm
        simp only [hm, if_true, List.mem_singleton]
        constructor
        · intro e; subst e; exact ⟨hd, rfl⟩
        · exact fun ⟨_, e⟩ => e
      · have hd : (s, p, o) ∉ d := fun x => hm (h.spo.mem_iff.2 x)
        simp only [hm, if_false, List.not_mem_nil, false_iff]
        rintro ⟨h1, e⟩
        subst e
        exact hd h1

structure SMem.Holds (m : SMem) (d : List Triple) : Prop where
  nodup : d.Nodup
  spo : m.spo.Perm d
  pos : m.pos.Perm d
  osp : m.osp.Perm d

theorem SMem.exactlyOnce {m : SMem} {d : List Triple} (h : m.Holds d) : ExactlyOnce m.triples d := by
  intro pat
  rcases pat with ⟨_ | s, _ | p, _ | o⟩
  · refine ⟨(h.spo.nodup_iff).2 h.nodup, fun t => ?_⟩
    simp only [SMem.triples, h.spo.mem_iff, matches_top, and_true]
  · exact exactlyOnce_filter_index h.nodup h.osp _
  · exact exactlyOnce_filter_index h.nodup h.pos _
  · exact exactlyOnce_filter_index h.nodup h.pos _
  · exact exactlyOnce_filter_index h.nodup h.spo _
  · exact exactlyOnce_filter_index h.nodup h.spo _
  · exact exactlyOnce_filter_index h.nodup h.spo _
  · exact exactlyOnce_filter_index h.nodup h.spo _

theorem aud_exactlyOnce {st : Store} {d : List Triple} (h : ExactlyOnce st d) :
    ExactlyOnce (audTriples st) d := h

theorem graphStore_exactlyOnce {g : List Triple} (h : g.Nodup) : ExactlyOnce (graphStore g) g := by
  intro pat
  exact ⟨h.filter _, fun t => by simp [graphStore, List.mem_filter]⟩

theorem holds_iff {st : Store} {d : List Triple} (h : ExactlyOnce st d) (t : Triple) :
    holds st t = true ↔ t ∈ d := by
  obtain ⟨a, b, c⟩ := t
  simp only [holds, Bool.not_eq_true', List.isEmpty_eq_false_iff_exists_mem]
  constructor
  · rintro ⟨x, hx⟩
    have := ((h _).2 x).1 hx
    rw [matches_full_iff] at this
    obtain ⟨h1, e⟩ := this
    subst e
    exact h1
  · intro hd
    exact ⟨(a, b, c), ((h _).2 _).2 ⟨hd, (matches_full_iff a b c _).2 rfl⟩⟩

theorem aggFrom_spec (pat : Pat) :
    ∀ (ms earlier : List (Store × List Triple)),
      (∀ x ∈ ms, ExactlyOnce x.1 x.2) → (∀ x ∈ earlier, ExactlyOnce x.1 x.2) →
      (aggFrom (earlier.map (·.1)) (ms.map (·.1)) pat).Nodup ∧
      ∀ t, t ∈ aggFrom (earlier.map (·.1)) (ms.map (·.1)) pat ↔
        ((∃ x ∈ ms, t ∈ x.2) ∧ (∀ x ∈ earlier, t ∉ x.2) ∧ pat.matches t = true) := by
  intro ms
  induction ms with
  | nil =>
    intro earlier _ _
    simp [aggFrom]
  | cons m ms ih =>
    intro earlier hms hearlier
    have hm := hms m (by simp)
    have hrest : ∀ x ∈ ms, ExactlyOnce x.1 x.2 := fun x hx => hms x (by simp [hx])
    have hearlier' : ∀ x ∈ earlier ++ [m], ExactlyOnce x.1 x.2 := by
      intro x hx
      rcases List.mem_append.1 hx with h | h
      · exact hearlier x h
      · simp at h; subst h; exact hm
    have ih' := ih (earlier ++ [m]) hrest hearlier'
    simp only [List.map_append, List.map_cons, List.map_nil] at ih'
    have hskip : ∀ t, (!(earlier.map (·.1)).any fun e => holds e t) = true ↔ ∀ x ∈ earlier, t ∉ x.2 := by
      intro t
      simp only [Bool.not_eq_true', List.any_eq_false, List.mem_map, forall_exists_index, and_imp,
        forall_apply_eq_imp_iff₂]
      constructor
      · intro h x hx hin
        exact h x hx ((holds_iff (hearlier x hx) t).2 hin)
      · intro h x hx hh
        exact h x hx ((holds_iff (hearlier x hx) t).1 hh)
    simp only [List.map_cons, aggFrom]
    constructor
    · rw [List.nodup_append]
      refine ⟨(hm pat).1.filter _, ih'.1, ?_⟩
      intro a ha b hb e
      subst e
      rw [List.mem_filter] at ha
      have := ((ih'.2 a).1 hb).2.1 m (by simp)
      exact this (((hm pat).2 a).1 ha.1).1
    · intro t
      rw [List.mem_append, List.mem_filter, hskip t, (hm pat).2 t, ih'.2 t]
      constructor
      · rintro (⟨⟨h1, h2⟩, h3⟩ | ⟨⟨x, hx, hin⟩, h2, h3⟩)
        · exact ⟨⟨m, by simp, h1⟩, h3, h2⟩
        · exact ⟨⟨x, by simp [hx], hin⟩, fun y hy => h2 y (by simp [hy]), h3⟩
      · rintro ⟨⟨x, hx, hin⟩, h2, h3⟩
        by_cases hmem : t ∈ m.2
        · exact Or.inl ⟨⟨hmem, h3⟩, h2⟩
        · right
          rcases List.mem_cons.1 hx with e | hx'
          · subst e; exact absurd hin hmem
          · refine ⟨⟨x, hx', hin⟩, ?_, h3⟩
            intro y hy
            rcases List.mem_append.1 hy with h | h
            · exact h2 y h
            · simp at h; subst h; exact hmem

/-- the aggregate of member graphs holds the union of their triples, each once -/
theorem agg_exactlyOnce (ms : List (Store × List Triple)) (h : ∀ x ∈ ms, ExactlyOnce x.1 x.2)
    (d : List Triple) (hd : ∀ t, t ∈ d ↔ ∃ x ∈ ms, t ∈ x.2) :
    ExactlyOnce (aggTriples (ms.map (·.1))) d := by
  intro pat
  have := aggFrom_spec pat ms [] h (by simp)
  simp only [List.map_nil] at this
  refine ⟨this.1, fun t => ?_⟩
  rw [aggTriples, this.2 t, hd t]
  simp

/-- two stores that each answer with every matching triple exactly once, over the same set of
    triples, answer every pattern with the same bag -/
theorem exactlyOnce_perm {st1 st2 : Store} {d1 d2 : List Triple}
    (h1 : ExactlyOnce st1 d1) (h2 : ExactlyOnce st2 d2) (e : SetEq d1 d2) (pat : Pat) :
    (st1 pat).Perm (st2 pat) := by
  refine (List.perm_ext_iff_of_nodup (h1 pat).1 (h2 pat).1).2 fun t => ?_
  rw [(h1 pat).2 t, (h2 pat).2 t, e t]

end RV.C15
