import RV.C15.Lemmas
/-
  Helper lemmas for C15, part 3: the algebra over bags of mappings (join, union), renaming of
  variables, and the prepared tree (the `ctx` field of expression nodes).
-/
namespace RV.C15

open List

variable {n : Nat}

/-! ### compatibility and merge -/

theorem compat_iff (a b : Row n) :
    compat a b = true ↔ ∀ v x y, a v = some x → b v = some y → x = y := by
  simp only [compat, List.all_eq_true, List.mem_finRange, true_imp_iff]
  constructor
  · intro h v x y hx hy
    have := h v
    simp only [hx, hy, beq_iff_eq] at this
    exact this
  · intro h v
    cases hx : a v with
    | none => simp
    | some x =>
      cases hy : b v with
      | none => simp
      | some y => simpa using h v x y hx hy

theorem compat_comm (a b : Row n) : compat a b = compat b a := by
  rw [Bool.eq_iff_iff, compat_iff, compat_iff]
  constructor <;> intro h v x y hx hy <;> exact (h v y x hy hx).symm

theorem merge_comm {a b : Row n} (h : compat a b = true) : merge a b = merge b a := by
  funext v
  rw [compat_iff] at h
  simp only [merge]
  cases hx : a v with
  | none => cases hy : b v <;> simp
  | some x =>
    cases hy : b v with
    | none => simp
    | some y => simp [h v x y hx hy]

theorem compat_empty_left (a : Row n) : compat Row.empty a = true := by
  rw [compat_iff]; intro v x y hx; simp [Row.empty] at hx

theorem merge_empty_left (a : Row n) : merge Row.empty a = a := by
  funext v; simp [merge, Row.empty]

theorem merge_empty_right (a : Row n) : merge a Row.empty = a := by
  funext v; simp only [merge, Row.empty]; cases a v <;> rfl

theorem joinBag_eq (A B : List (Row n)) :
    joinBag A B = A.flatMap fun a => B.flatMap fun b =>
      (if compat a b then some (merge a b) else none).toList := by
  simp only [joinBag, filterMap_eq_flatMap]

theorem joinBag_comm (A B : List (Row n)) : (joinBag A B).Perm (joinBag B A) := by
  rw [joinBag_eq, joinBag_eq]
  refine (flatMap_swap A B _).trans ?_
  refine perm_flatMap_congr fun b _ => perm_flatMap_congr fun a _ => ?_
  rw [compat_comm a b]
  cases h : compat b a with
  | false => exact List.Perm.refl _
  | true => simp [merge_comm h]

theorem joinBag_perm {A A' B B' : List (Row n)} (hA : A.Perm A') (hB : B.Perm B') :
    (joinBag A B).Perm (joinBag A' B') := by
  unfold joinBag
  refine (hA.flatMap_right _).trans ?_
  exact perm_flatMap_congr fun a _ => hB.filterMap _

/-- the algebra only looks at a store through `evalBGP` -/
theorem Q.eval_store_congr {st1 st2 : Store} (h : ∀ pat, (st1 pat).Perm (st2 pat)) (q : Q n) :
    (q.eval st1).Perm (q.eval st2) := by
  induction q with
  | bgp ts => exact evalBGP_store_congr h ts Row.empty
  | join a b iha ihb => exact joinBag_perm iha ihb
  | union a b iha ihb => exact iha.append ihb
  | filter e q ih => exact ih.filter _
  | proj vs q ih => exact ih.map _

/-- semantics-preserving rewrites of the fragment: permuting a BGP, swapping the operands of a
    join or of a union, anywhere in the tree -/
inductive Rw : Q n → Q n → Prop
  | refl (q : Q n) : Rw q q
  | trans {a b c : Q n} : Rw a b → Rw b c → Rw a c
  | bgp {ts ts' : List (TP n)} : ts.Perm ts' → Rw (.bgp ts) (.bgp ts')
  | joinSwap (a b : Q n) : Rw (.join a b) (.join b a)
  | unionSwap (a b : Q n) : Rw (.union a b) (.union b a)
  | join {a a' b b' : Q n} : Rw a a' → Rw b b' → Rw (.join a b) (.join a' b')
  | union {a a' b b' : Q n} : Rw a a' → Rw b b' → Rw (.union a b) (.union a' b')
  | filter (e : Ex n) {q q' : Q n} : Rw q q' → Rw (.filter e q) (.filter e q')
  | proj (vs : List (Fin n)) {q q' : Q n} : Rw q q' → Rw (.proj vs q) (.proj vs q')

theorem Rw.eval_perm {st : Store} {g : List Triple} (hg : GraphLike st g) {q q' : Q n} (h : Rw q q') :
    (q.eval st).Perm (q'.eval st) := by
  induction h with
  | refl q => exact List.Perm.refl _
  | trans _ _ ih1 ih2 => exact ih1.trans ih2
  | bgp hp => exact evalBGP_graphLike_perm hg hp Row.empty
  | joinSwap a b => exact joinBag_comm _ _
  | unionSwap a b => exact List.perm_append_comm
  | join _ _ ih1 ih2 => exact joinBag_perm ih1 ih2
  | union _ _ ih1 ih2 => exact ih1.append ih2
  | filter e _ ih => exact ih.filter _
  | proj vs _ ih => exact ih.map _

/-! ### renaming of variables -/

/-- an injective renaming of the variables, with its partial inverse -/
structure Ren (n m : Nat) where
  f : Fin n → Fin m
  inv : Fin m → Option (Fin n)
  left : ∀ v, inv (f v) = some v
  right : ∀ w v, inv w = some v → f v = w

def Ren.push {n m : Nat} (ρ : Ren n m) (μ : Row n) : Row m :=
  fun w => match ρ.inv w with
    | some v => μ v
    | none => none

def Ren.pt {n m : Nat} (ρ : Ren n m) : PT n → PT m
  | .var v => .var (ρ.f v)
  | .const c => .const c

def Ren.tp {n m : Nat} (ρ : Ren n m) (t : TP n) : TP m := (ρ.pt t.1, ρ.pt t.2.1, ρ.pt t.2.2)

def Ren.ex {n m : Nat} (ρ : Ren n m) : Ex n → Ex m
  | .same a b => .same (ρ.pt a) (ρ.pt b)
  | .bound v => .bound (ρ.f v)
  | .not e => .not (ρ.ex e)
  | .and a b => .and (ρ.ex a) (ρ.ex b)
  | .or a b => .or (ρ.ex a) (ρ.ex b)

def Ren.q {n m : Nat} (ρ : Ren n m) : Q n → Q m
  | .bgp ts => .bgp (ts.map ρ.tp)
  | .join a b => .join (ρ.q a) (ρ.q b)
  | .union a b => .union (ρ.q a) (ρ.q b)
  | .filter e q => .filter (ρ.ex e) (ρ.q q)
  | .proj vs q => .proj (vs.map ρ.f) (ρ.q q)

variable {m : Nat}

theorem Ren.push_f (ρ : Ren n m) (μ : Row n) (v : Fin n) : ρ.push μ (ρ.f v) = μ v := by
  simp [Ren.push, ρ.left v]

theorem Ren.inj (ρ : Ren n m) {v v' : Fin n} (h : ρ.f v = ρ.f v') : v = v' := by
  have := ρ.left v
  rw [h, ρ.left v'] at this
  exact (Option.some.inj this).symm

theorem Ren.look_push (ρ : Ren n m) (μ : Row n) (pt : PT n) : (ρ.push μ).look (ρ.pt pt) = μ.look pt := by
  cases pt with
  | var v => exact ρ.push_f μ v
  | const c => rfl

theorem Ren.push_empty (ρ : Ren n m) : ρ.push (Row.empty : Row n) = Row.empty := by
  funext w
  simp only [Ren.push, Row.empty]
  cases ρ.inv w <;> rfl

theorem Ren.push_set (ρ : Ren n m) (μ : Row n) (v : Fin n) (t : Term) :
    ρ.push (μ.set v t) = (ρ.push μ).set (ρ.f v) t := by
  funext w
  simp only [Ren.push, Row.set]
  cases hw : ρ.inv w with
  | none =>
    have : ¬ w = ρ.f v := by
      intro e; rw [e, ρ.left v] at hw; cases hw
    simp [this]
  | some v' =>
    have hf := ρ.right w v' hw
    by_cases e : v' = v
    · subst e; simp [hf]
    · have : ¬ w = ρ.f v := by
        intro e2; rw [← hf] at e2; exact e (ρ.inj e2)
      simp [e, this]

theorem Ren.assign_push (ρ : Ren n m) (orig : Option Term) (pt : PT n) (val : Term) (c : Row n) :
    assign orig (ρ.pt pt) val (ρ.push c) = (assign orig pt val c).map ρ.push := by
  cases orig with
  | some x => rfl
  | none =>
    cases pt with
    | const k => rfl
    | var v =>
      simp only [assign, Ren.pt, ρ.push_f]
      cases hc : c v with
      | none => simp [ρ.push_set]
      | some x => by_cases h : x = val <;> simp [h]

theorem Ren.instPat_push (ρ : Ren n m) (μ : Row n) (t : TP n) :
    instPat (ρ.push μ) (ρ.tp t) = instPat μ t := by
  simp [instPat, Ren.tp, ρ.look_push]

theorem Ren.bindTriple_push (ρ : Ren n m) (μ : Row n) (t : TP n) (tr : Triple) :
    bindTriple (ρ.push μ) (ρ.tp t) tr = (bindTriple μ t tr).map ρ.push := by
  simp only [bindTriple, Ren.tp, ρ.look_push, ρ.assign_push]
  cases assign (μ.look t.1) t.1 tr.1 μ with
  | none => rfl
  | some c1 =>
    simp only [Option.map_some, Option.bind_some, ρ.assign_push]
    cases assign (μ.look t.2.1) t.2.1 tr.2.1 c1 with
    | none => rfl
    | some c2 => simp only [Option.map_some, Option.bind_some, ρ.assign_push]

theorem Ren.evalBGP_push (ρ : Ren n m) (st : Store) (ts : List (TP n)) :
    ∀ μ : Row n, evalBGP st (ρ.push μ) (ts.map ρ.tp) = (evalBGP st μ ts).map ρ.push := by
  induction ts with
  | nil => intro μ; rfl
  | cons t rest ih =>
    intro μ
    simp only [List.map_cons, evalBGP, ρ.instPat_push, List.map_flatMap]
    congr 1
    funext tr
    rw [ρ.bindTriple_push]
    cases bindTriple μ t tr with
    | none => rfl
    | some c => simp [ih c]

theorem Ren.compat_push (ρ : Ren n m) (a b : Row n) : compat (ρ.push a) (ρ.push b) = compat a b := by
  rw [Bool.eq_iff_iff, compat_iff, compat_iff]
  constructor
  · intro h v x y hx hy
    exact h (ρ.f v) x y (by rw [ρ.push_f]; exact hx) (by rw [ρ.push_f]; exact hy)
  · intro h w x y hx hy
    simp only [Ren.push] at hx hy
    cases hw : ρ.inv w with
    | none => simp [hw] at hx
    | some v =>
      simp only [hw] at hx hy
      exact h v x y hx hy

theorem Ren.merge_push (ρ : Ren n m) (a b : Row n) : merge (ρ.push a) (ρ.push b) = ρ.push (merge a b) := by
  funext w
  simp only [merge, Ren.push]
  cases ρ.inv w <;> rfl

theorem Ren.joinBag_push (ρ : Ren n m) (A B : List (Row n)) :
    joinBag (A.map ρ.push) (B.map ρ.push) = (joinBag A B).map ρ.push := by
  simp only [joinBag, List.flatMap_map, List.map_flatMap, List.filterMap_map, List.map_filterMap]
  congr 1
  funext a
  congr 1
  funext b
  simp only [Function.comp, ρ.compat_push, ρ.merge_push]
  cases compat a b <;> rfl

theorem Ren.ex_eval (ρ : Ren n m) (e : Ex n) (μ : Row n) : (ρ.ex e).eval (ρ.push μ) = e.eval μ := by
  induction e with
  | same a b => simp [Ren.ex, Ex.eval, ρ.look_push]
  | bound v => simp [Ren.ex, Ex.eval, ρ.push_f]
  | not e ih => simp [Ren.ex, Ex.eval, ih]
  | and a b iha ihb => simp [Ren.ex, Ex.eval, iha, ihb]
  | or a b iha ihb => simp [Ren.ex, Ex.eval, iha, ihb]

theorem Ren.project_push (ρ : Ren n m) (vs : List (Fin n)) (μ : Row n) :
    project (vs.map ρ.f) (ρ.push μ) = ρ.push (project vs μ) := by
  funext w
  simp only [project, Ren.push]
  cases hw : ρ.inv w with
  | none =>
    have : (vs.map ρ.f).contains w = false := by
      rw [List.contains_eq_mem]
      simp only [decide_eq_false_iff_not, List.mem_map, not_exists, not_and]
      intro v _ e
      rw [← e, ρ.left v] at hw
      cases hw
    simp
  | some v =>
    have hf := ρ.right w v hw
    have : (vs.map ρ.f).contains w = vs.contains v := by
      rw [List.contains_eq_mem, List.contains_eq_mem]
      congr 1
      apply propext
      simp only [List.mem_map]
      constructor
      · rintro ⟨v', hv', e⟩
        rw [← hf] at e
        rw [← ρ.inj e]; exact hv'
      · intro hv; exact ⟨v, hv, hf⟩
    rw [this]

theorem Ren.eval_q (ρ : Ren n m) (st : Store) (q : Q n) : (ρ.q q).eval st = (q.eval st).map ρ.push := by
  induction q with
  | bgp ts =>
    simp only [Ren.q, Q.eval]
    rw [← ρ.push_empty]
    exact ρ.evalBGP_push st ts Row.empty
  | join a b iha ihb => simp only [Ren.q, Q.eval, iha, ihb, ρ.joinBag_push]
  | union a b iha ihb => simp only [Ren.q, Q.eval, iha, ihb, List.map_append]
  | filter e q ih =>
    simp only [Ren.q, Q.eval, ih, List.filter_map]
    congr 1
    congr 1
    funext μ
    simp [Function.comp, ρ.ex_eval]
  | proj vs q ih =>
    simp only [Ren.q, Q.eval, ih, List.map_map]
    congr 1
    funext μ
    simp [Function.comp, ρ.project_push]

/-! ### the prepared tree: `Expr.eval` sets `ctx`, reads through it, and clears it -/

theorem ExS.eval_fst (e : ExS n) (c : Row n) : (e.eval c).1 = e.erase.eval c := by
  induction e with
  | same ctx a b => simp [ExS.eval, ExS.erase, Ex.eval, resolve]
  | bound ctx v => simp [ExS.eval, ExS.erase, Ex.eval]
  | not ctx e ih => simp [ExS.eval, ExS.erase, Ex.eval, ih]
  | and ctx a b iha ihb => simp [ExS.eval, ExS.erase, Ex.eval, iha, ihb]
  | or ctx a b iha ihb => simp [ExS.eval, ExS.erase, Ex.eval, iha, ihb]

/-- whatever the fields held before, after `eval` every `ctx` of the visited tree is `None` -/
theorem ExS.eval_snd (e : ExS n) (c : Row n) : (e.eval c).2 = ExS.ofEx e.erase := by
  induction e with
  | same ctx a b => simp [ExS.eval, ExS.erase, ExS.ofEx]
  | bound ctx v => simp [ExS.eval, ExS.erase, ExS.ofEx]
  | not ctx e ih => simp [ExS.eval, ExS.erase, ExS.ofEx, ih]
  | and ctx a b iha ihb => simp [ExS.eval, ExS.erase, ExS.ofEx, iha, ihb]
  | or ctx a b iha ihb => simp [ExS.eval, ExS.erase, ExS.ofEx, iha, ihb]

theorem ExS.ofEx_erase_of_clean (e : ExS n) (h : e.clean = true) : ExS.ofEx e.erase = e := by
  induction e with
  | same ctx a b => simp only [ExS.clean, Option.isNone_iff_eq_none] at h; subst h; rfl
  | bound ctx v => simp only [ExS.clean, Option.isNone_iff_eq_none] at h; subst h; rfl
  | not ctx e ih =>
    simp only [ExS.clean, Bool.and_eq_true, Option.isNone_iff_eq_none] at h
    obtain ⟨h1, h2⟩ := h; subst h1
    simp [ExS.erase, ExS.ofEx, ih h2]
  | and ctx a b iha ihb =>
    simp only [ExS.clean, Bool.and_eq_true, Option.isNone_iff_eq_none] at h
    obtain ⟨⟨h1, h2⟩, h3⟩ := h; subst h1
    simp [ExS.erase, ExS.ofEx, iha h2, ihb h3]
  | or ctx a b iha ihb =>
    simp only [ExS.clean, Bool.and_eq_true, Option.isNone_iff_eq_none] at h
    obtain ⟨⟨h1, h2⟩, h3⟩ := h; subst h1
    simp [ExS.erase, ExS.ofEx, iha h2, ihb h3]

theorem ExS.clean_ofEx (e : Ex n) : (ExS.ofEx e).clean = true := by
  induction e with
  | same a b => rfl
  | bound v => rfl
  | not e ih => simp [ExS.ofEx, ExS.clean, ih]
  | and a b iha ihb => simp [ExS.ofEx, ExS.clean, iha, ihb]
  | or a b iha ihb => simp [ExS.ofEx, ExS.clean, iha, ihb]

theorem ExS.erase_ofEx (e : Ex n) : (ExS.ofEx e).erase = e := by
  induction e with
  | same a b => rfl
  | bound v => rfl
  | not e ih => simp [ExS.ofEx, ExS.erase, ih]
  | and a b iha ihb => simp [ExS.ofEx, ExS.erase, iha, ihb]
  | or a b iha ihb => simp [ExS.ofEx, ExS.erase, iha, ihb]

theorem ExS.eval_restores (e : ExS n) (h : e.clean = true) (c : Row n) : (e.eval c).2 = e := by
  rw [ExS.eval_snd, ExS.ofEx_erase_of_clean e h]

theorem filterS_spec (e : ExS n) (h : e.clean = true) (rs : List (Row n)) :
    filterS e rs = (rs.filter fun r => e.erase.eval r == some true, e) := by
  induction rs with
  | nil => rfl
  | cons r rs ih =>
    simp only [filterS, ExS.eval_restores e h, ih, ExS.eval_fst, List.filter_cons]

theorem QS.run_snd (st : Store) (q : QS n) (h : q.clean = true) : (q.run st).2 = q := by
  induction q with
  | bgp ts => rfl
  | join a b iha ihb =>
    simp only [QS.clean, Bool.and_eq_true] at h
    simp [QS.run, iha h.1, ihb h.2]
  | union a b iha ihb =>
    simp only [QS.clean, Bool.and_eq_true] at h
    simp [QS.run, iha h.1, ihb h.2]
  | filter e q ih =>
    simp only [QS.clean, Bool.and_eq_true] at h
    simp [QS.run, ih h.2, filterS_spec e h.1]
  | proj vs q ih =>
    simp only [QS.clean] at h
    simp [QS.run, ih h]

theorem QS.run_fst_perm {st : Store} {g : List Triple} (hg : GraphLike st g) (q : QS n) (h : q.clean = true) :
    (q.run st).1.Perm (q.erase.eval st) := by
  induction q with
  | bgp ts => exact evalBGP_graphLike_perm hg (dynOrder_perm Row.empty ts) Row.empty
  | join a b iha ihb =>
    simp only [QS.clean, Bool.and_eq_true] at h
    exact joinBag_perm (iha h.1) (ihb h.2)
  | union a b iha ihb =>
    simp only [QS.clean, Bool.and_eq_true] at h
    exact (iha h.1).append (ihb h.2)
  | filter e q ih =>
    simp only [QS.clean, Bool.and_eq_true] at h
    simp only [QS.run, QS.erase, Q.eval, filterS_spec e h.1]
    exact (ih h.2).filter _
  | proj vs q ih =>
    simp only [QS.clean] at h
    exact (ih h).map _

theorem QS.clean_ofQ (q : Q n) : (QS.ofQ q).clean = true := by
  induction q with
  | bgp ts => rfl
  | join a b iha ihb => simp [QS.ofQ, QS.clean, iha, ihb]
  | union a b iha ihb => simp [QS.ofQ, QS.clean, iha, ihb]
  | filter e q ih => simp [QS.ofQ, QS.clean, ih, ExS.clean_ofEx]
  | proj vs q ih => simp [QS.ofQ, QS.clean, ih]

theorem QS.erase_ofQ (q : Q n) : (QS.ofQ q).erase = q := by
  induction q with
  | bgp ts => rfl
  | join a b iha ihb => simp [QS.ofQ, QS.erase, iha, ihb]
  | union a b iha ihb => simp [QS.ofQ, QS.erase, iha, ihb]
  | filter e q ih => simp [QS.ofQ, QS.erase, ih, ExS.erase_ofEx]
  | proj vs q ih => simp [QS.ofQ, QS.erase, ih]

theorem runMany_spec (q : QS n) (h : q.clean = true) (sts : List Store) :
    runMany q sts = (sts.map fun st => (q.run st).1, q) := by
  induction sts with
  | nil => rfl
  | cons st sts ih => simp [runMany, QS.run_snd st q h, ih]

/-- an arbitrary schedule of `Expr.eval` calls on the expression nodes of a prepared query
    (rows of different evaluations interleaved, generators abandoned half-way, …) -/
def runCalls : List (ExS n) → List (Nat × Row n) → List (Option Bool) × List (ExS n)
  | es, [] => ([], es)
  | es, (i, r) :: calls =>
    match es[i]? with
    | none => runCalls es calls
    | some e =>
      let x := e.eval r
      let rest := runCalls (es.set i x.2) calls
      (x.1 :: rest.1, rest.2)

theorem set_self_of_getElem? {α : Type} : ∀ (l : List α) (i : Nat) (e : α), l[i]? = some e → l.set i e = l
  | [], _, _, h => by simp at h
  | a :: l, 0, e, h => by simp at h; simp [h]
  | a :: l, i + 1, e, h => by
    simp only [List.getElem?_cons_succ] at h
    simp [set_self_of_getElem? l i e h]

theorem runCalls_state (es : List (ExS n)) (h : ∀ e ∈ es, e.clean = true) (calls : List (Nat × Row n)) :
    (runCalls es calls).2 = es := by
  induction calls with
  | nil => rfl
  | cons c calls ih =>
    obtain ⟨i, r⟩ := c
    simp only [runCalls]
    cases hi : es[i]? with
    | none => exact ih
    | some e =>
      have he : e ∈ es := List.mem_of_getElem? hi
      have hset : es.set i (e.eval r).2 = es := by
        rw [ExS.eval_restores e (h e he)]
        exact set_self_of_getElem? es i e hi
      simp only [hset]
      exact ih

end RV.C15
