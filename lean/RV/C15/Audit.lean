import RV.C15.Props
open RV.C15
#print axioms placeholder_true
