import RV.C15.Props
open RV.C15
#print axioms reorder_irrelevant
#print axioms reorder_irrelevant_bag
#print axioms reorderings_are_permutations
#print axioms plan_order_irrelevant
#print axioms join_comm
#print axioms join_assoc
#print axioms union_comm
#print axioms model_rewrite_invariant
#print axioms rename_equivariant
#print axioms prefix_irrelevant
#print axioms string_query_stateless
#print axioms initbindings_values
#print axioms bgp_seed_is_join
#print axioms initbindings_values_needs_no_subquery_reuse
#print axioms initbindings_values_needs_outermost_binding
#print axioms expr_eval_clears
#print axioms prepared_stateless
#print axioms prepared_base_unchanged
#print axioms prepared_repeat
#print axioms prepared_any_schedule
#print axioms store_irrelevant
#print axioms stores_exactly_once
#print axioms aggregate_without_skip_duplicates
