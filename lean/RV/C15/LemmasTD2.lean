import RV.C15.LemmasTD
/-
  Helper lemmas for C15, round g, part 2: the top-down evaluator is equivariant under every injective renaming of
  the variables (query, initBindings and pushed bindings renamed together) — as lists.
-/
namespace RV.C15

open List

variable {n m : Nat}

def Ren.p (ρ : Ren n m) : P n → P m
  | .bgp ts => .bgp (ts.map ρ.tp)
  | .join a b => .join (ρ.p a) (ρ.p b)
  | .leftJoin a b e => .leftJoin (ρ.p a) (ρ.p b) (e.map ρ.ex)
  | .union a b => .union (ρ.p a) (ρ.p b)
  | .minus a b => .minus (ρ.p a) (ρ.p b)
  | .filter e p => .filter (ρ.ex e) (ρ.p p)
  | .extend p v e => .extend (ρ.p p) (ρ.f v) (ρ.pt e)
  | .graph t p => .graph (ρ.pt t) (ρ.p p)
  | .values rows => .values (rows.map ρ.push)
  | .sub pv p => .sub (pv.map ρ.f) (ρ.p p)

theorem Ren.ptVars (ρ : Ren n m) (t : PT n) : ptVars (ρ.pt t) = (ptVars t).map ρ.f := by
  cases t <;> rfl

theorem Ren.tpVars (ρ : Ren n m) (t : TP n) : tpVars (ρ.tp t) = (tpVars t).map ρ.f := by
  simp only [RV.C15.tpVars, Ren.tp, ρ.ptVars, List.map_append]

theorem Ren.bgpVars (ρ : Ren n m) (ts : List (TP n)) : bgpVars (ts.map ρ.tp) = (bgpVars ts).map ρ.f := by
  simp only [RV.C15.bgpVars, List.flatMap_map, List.map_flatMap, ρ.tpVars]

theorem Ren.vars_p (ρ : Ren n m) (q : P n) : (ρ.p q).vars = q.vars.map ρ.f := by
  induction q with
  | bgp ts => exact ρ.bgpVars ts
  | join a b iha ihb => simp only [Ren.p, P.vars, iha, ihb, List.map_append]
  | leftJoin a b e iha ihb => simp only [Ren.p, P.vars, iha, ihb, List.map_append]
  | union a b iha ihb => simp only [Ren.p, P.vars, iha, ihb, List.map_append]
  | minus a b iha _ => simpa only [Ren.p, P.vars] using iha
  | filter e p ih => simpa only [Ren.p, P.vars] using ih
  | extend p v e ih => simp only [Ren.p, P.vars, ih, List.map_append, List.map_cons, List.map_nil]
  | graph t p ih => simp only [Ren.p, P.vars, ih, ρ.ptVars, List.map_append]
  | values rows => rfl
  | sub pv p ih => simp only [Ren.p, P.vars, ih, List.map_append]

theorem Ren.noJoin_p (ρ : Ren n m) (q : P n) : (ρ.p q).noJoin = q.noJoin := by
  induction q with
  | bgp ts => rfl
  | join a b _ _ => rfl
  | leftJoin a b e iha ihb => simp only [Ren.p, P.noJoin, iha, ihb]
  | union a b iha ihb => simp only [Ren.p, P.noJoin, iha, ihb]
  | minus a b iha ihb => simp only [Ren.p, P.noJoin, iha, ihb]
  | filter e p ih => simpa only [Ren.p, P.noJoin] using ih
  | extend p v e ih => simpa only [Ren.p, P.noJoin] using ih
  | graph t p ih => simpa only [Ren.p, P.noJoin] using ih
  | values rows => rfl
  | sub pv p ih => simpa only [Ren.p, P.noJoin] using ih

/-! ### the dynamic sort -/

theorem insertBy_map {α β : Type} (f : α → β) (le : α → α → Bool) (le' : β → β → Bool)
    (h : ∀ a b, le' (f a) (f b) = le a b) (x : α) (l : List α) :
    insertBy le' (f x) (l.map f) = (insertBy le x l).map f := by
  induction l with
  | nil => rfl
  | cons y ys ih =>
    simp only [List.map_cons, insertBy, h]
    split
    · rfl
    · simp only [List.map_cons, ih]

theorem sortBy_map {α β : Type} (f : α → β) (le : α → α → Bool) (le' : β → β → Bool)
    (h : ∀ a b, le' (f a) (f b) = le a b) (l : List α) : sortBy le' (l.map f) = (sortBy le l).map f := by
  induction l with
  | nil => rfl
  | cons x xs ih =>
    simp only [sortBy, List.map_cons, List.foldr_cons] at ih ⊢
    rw [ih]
    exact insertBy_map f le le' h x _

theorem Ren.unboundCount_push (ρ : Ren n m) (μ : Row n) (t : TP n) :
    unboundCount (ρ.push μ) (ρ.tp t) = unboundCount μ t := by
  simp only [unboundCount, Ren.tp, ρ.look_push]

theorem Ren.dynOrder_push (ρ : Ren n m) (μ : Row n) (ts : List (TP n)) :
    dynOrder (ρ.push μ) (ts.map ρ.tp) = (dynOrder μ ts).map ρ.tp := by
  unfold dynOrder
  exact sortBy_map ρ.tp _ _ (fun a b => by simp only [ρ.unboundCount_push]) ts

/-! ### forget / remember / views / tests -/

theorem Ren.contains_map (ρ : Ren n m) (vs : List (Fin n)) (v : Fin n) :
    (vs.map ρ.f).contains (ρ.f v) = vs.contains v := by
  rw [Bool.eq_iff_iff, List.contains_iff_mem, List.contains_iff_mem, List.mem_map]
  constructor
  · rintro ⟨v', hv', e⟩
    rw [← ρ.inj e]; exact hv'
  · intro hv; exact ⟨v, hv, rfl⟩

theorem Ren.forget_push (ρ : Ren n m) (init μ : Row n) (exc : List (Fin n)) (y : Row n) :
    forget (ρ.push init) (ρ.push μ) (exc.map ρ.f) (ρ.push y) = ρ.push (forget init μ exc y) := by
  funext w
  cases hw : ρ.inv w with
  | none => simp only [forget, Ren.push, hw, ite_self]
  | some v =>
    have hf := ρ.right w v hw
    subst hf
    simp only [forget, ρ.push_f, ρ.contains_map]

theorem Ren.remember_push (ρ : Ren n m) (vs : List (Fin n)) (y : Row n) :
    remember (vs.map ρ.f) (ρ.push y) = ρ.push (remember vs y) := ρ.project_push vs y

theorem Ren.thaw_push (ρ : Ren n m) (init a : Row n) : thaw (ρ.push init) (ρ.push a) = ρ.push (thaw init a) :=
  ρ.merge_push init a

theorem Ren.ebv_push (ρ : Ren n m) (e : Ex n) (init b : Row n) :
    ebv (ρ.ex e) (ρ.push init) (ρ.push b) = ebv e init b := by
  simp only [ebv, exprView, ρ.merge_push, ρ.ex_eval]

theorem Ren.ebvOpt_push (ρ : Ren n m) (e : Option (Ex n)) (init b : Row n) :
    ebvOpt (e.map ρ.ex) (ρ.push init) (ρ.push b) = ebvOpt e init b := by
  cases e with
  | none => rfl
  | some e => exact ρ.ebv_push e init b

theorem disjointDom_iff (a b : Row n) :
    disjointDom a b = true ↔ ∀ v, ¬ ((a v).isSome = true ∧ (b v).isSome = true) := by
  simp only [disjointDom, List.all_eq_true, List.mem_finRange, true_imp_iff, Bool.not_eq_true',
    Bool.and_eq_false_iff, not_and, Bool.not_eq_true]
  constructor
  · intro h v ha
    cases h v with
    | inl h1 => rw [h1] at ha; cases ha
    | inr h2 => exact h2
  · intro h v
    cases hav : (a v).isSome with
    | false => exact Or.inl rfl
    | true => exact Or.inr (h v hav)

theorem Ren.disjointDom_push (ρ : Ren n m) (a b : Row n) :
    disjointDom (ρ.push a) (ρ.push b) = disjointDom a b := by
  rw [Bool.eq_iff_iff, disjointDom_iff, disjointDom_iff]
  constructor
  · intro h v
    have := h (ρ.f v)
    simpa only [ρ.push_f] using this
  · intro h w
    cases hw : ρ.inv w with
    | none => simp [Ren.push, hw]
    | some v =>
      have := h v
      simpa only [Ren.push, hw] using this

theorem Ren.withGraphName_push (ρ : Ren n m) (t : PT n) (nm : Term) (x : Row n) :
    withGraphName (ρ.pt t) nm (ρ.push x) = (withGraphName t nm x).map ρ.push := by
  cases t with
  | const c => rfl
  | var v =>
    simp only [withGraphName, Ren.pt, ρ.push_f]
    cases x v with
    | none => simp only [Option.map_some, ρ.push_set]
    | some y => by_cases h : y = nm <;> simp [h]

/-! ### one row of `evalLeftJoin` -/

theorem Ren.ljRow_push (ρ : Ren n m) (init μ : Row n) (own av : List (Fin n)) (e : Option (Ex n))
    (B : Row n → List (Row n)) (B' : Row m → List (Row m)) (hB : ∀ ν, B' (ρ.push ν) = (B ν).map ρ.push) (x : Row n) :
    ljRow (ρ.push init) (ρ.push μ) (own.map ρ.f) (av.map ρ.f) (e.map ρ.ex) B' (ρ.push x) =
      (ljRow init μ own av e B x).map ρ.push := by
  unfold ljRow
  simp only [ρ.thaw_push, ρ.remember_push, hB, List.filter_map, List.isEmpty_map, List.any_map, Function.comp_def,
    ρ.forget_push, ρ.ebvOpt_push, List.map_map, ρ.merge_push]
  split
  · split <;> rfl
  · simp only [List.map_map, Function.comp_def]

/-! ### the evaluator -/

theorem Ren.evalTD_push (ρ : Ren n m) (ds : DSet) (init : Row n) (q : P n) :
    ∀ (g : Store) (μ : Row n),
      evalTD ds (ρ.push init) (ρ.p q) g (ρ.push μ) = (evalTD ds init q g μ).map ρ.push := by
  induction q with
  | bgp ts =>
    intro g μ
    simp only [Ren.p, evalTD, ρ.dynOrder_push]
    exact ρ.evalBGP_push g _ μ
  | join a b iha ihb =>
    intro g μ
    simp only [Ren.p, evalTD, ρ.noJoin_p, iha, ihb]
    split
    · simp only [List.flatMap_map, List.map_flatMap, ρ.thaw_push, ihb, List.map_map, Function.comp_def, ρ.merge_push]
    · exact ρ.joinBag_push _ _
  | leftJoin a b e iha ihb =>
    intro g μ
    rw [evalTD_leftJoin, Ren.p, evalTD_leftJoin, iha, List.flatMap_map, List.map_flatMap, ρ.vars_p, ρ.vars_p,
      ← List.map_append]
    congr 1
    funext x
    exact ρ.ljRow_push init μ _ _ e _ _ (fun ν => ihb g ν) x
  | union a b iha ihb =>
    intro g μ
    simp only [Ren.p, evalTD, iha, ihb, List.map_append]
  | minus a b iha ihb =>
    intro g μ
    simp only [Ren.p, evalTD, iha, ihb, ρ.vars_p, List.filter_map, List.map_map, List.all_map, Function.comp_def,
      ρ.remember_push, ρ.compat_push, ρ.disjointDom_push]
  | filter e p ih =>
    intro g μ
    simp only [Ren.p, evalTD, ih, ρ.vars_p, List.filter_map, Function.comp_def, ρ.forget_push, ρ.ebv_push]
  | extend p v e ih =>
    intro g μ
    simp only [Ren.p, evalTD, ih, ρ.vars_p, List.filterMap_map, List.map_filterMap, Function.comp_def]
    congr 1
    funext c
    have hv : (p.vars.map ρ.f ++ [ρ.f v]) = (p.vars ++ [v]).map ρ.f := by simp
    rw [hv, ρ.forget_push]
    simp only [exprView, ρ.merge_push, ρ.look_push, ρ.push_f]
    cases (merge (forget init μ (p.vars ++ [v]) c) init).look e with
    | none => rfl
    | some t =>
      simp only []
      cases merge c init v with
      | none => simp only [Option.map_some, ρ.push_set]
      | some t' => by_cases h : t' = t <;> simp [h, ρ.push_set]
  | graph t p ih =>
    intro g μ
    simp only [Ren.p, evalTD, ρ.look_push]
    cases μ.look t with
    | none =>
      simp only [ih, List.map_flatMap, List.filterMap_map, List.map_filterMap, Function.comp_def,
        ρ.withGraphName_push]
    | some nm =>
      simp only []
      cases lookupGraph ds.named nm with
      | none => rfl
      | some gs => exact ih gs μ
  | values rows =>
    intro g μ
    simp only [Ren.p, evalTD, List.filterMap_map, List.map_filterMap, Function.comp_def, ρ.compat_push, ρ.merge_push]
    congr 1
    funext r
    cases compat r μ <;> rfl
  | sub pv p ih =>
    intro g μ
    simp only [Ren.p, evalTD, ih, List.map_map]
    rw [← ρ.joinBag_push]
    simp only [List.map_map, List.map_cons, List.map_nil]
    congr 1
    apply List.map_congr_left
    intro x _
    exact ρ.project_push pv x

end RV.C15
