import RV.Base.SetList
import RV.C15.ModelIri
/-
  C15 — executable model of the parts of rdflib's SPARQL engine that the property
  "query answers do not depend on how the query is written, prepared or stored" talks about.

  rdflib/plugins/sparql/evaluate.py
    evalBGP            → `evalBGP`        (one pattern at a time under the current bindings:
                                           look the positions up, ask the store's `triples`, push,
                                           assign the unbound positions with the AlreadyBound test, recurse)
    evalPart (BGP)     → `dynOrder`       (stable sort by the number of unbound positions)
    evalJoin/_join, evalUnion, evalFilter, evalProject → `joinBag`, `Q.eval`
  rdflib/plugins/sparql/algebra.py
    reorderTriples, _knownTerms → `reorderTriples`, `knownKey`
    translatePName / Prologue.absolutize → `resolve`
  rdflib/plugins/sparql/parserutils.py
    Expr.eval (`self.ctx = ctx … finally: self.ctx = None`), CompValue._value → `ExS.eval`
  rdflib/plugins/sparql/sparql.py
    QueryContext.__init__ (initBindings seed the bindings), __getitem__, __setitem__ → `Row.look`, `assign`
  stores: Memory.triples / SimpleMemory.triples (index dispatch), AuditableStore.triples (pass-through),
    ReadOnlyGraphAggregate.triples (members in turn, a triple of an earlier member is skipped)

  Terms are naturals owned by the harness.  A solution mapping over the `n` variables of a query is a
  function `Fin n → Option Term` (extensional equality = equality of mappings, so bags of mappings are
  lists modulo `List.Perm`).  Only core imports: this file is linked into the driver.
-/
namespace RV.C15

abbrev Term := Nat
abbrev Triple := Term × Term × Term
/-- a store-level pattern: `none` = wildcard -/
abbrev Pat := Option Term × Option Term × Option Term
/-- the only way the evaluator looks at a store or graph: `triples(pattern)` -/
abbrev Store := Pat → List Triple

def matchPos (p : Option Term) (x : Term) : Bool :=
  match p with
  | none => true
  | some y => x == y

def Pat.matches (p : Pat) (t : Triple) : Bool :=
  matchPos p.1 t.1 && matchPos p.2.1 t.2.1 && matchPos p.2.2 t.2.2

/-! ### solution mappings -/

abbrev Row (n : Nat) := Fin n → Option Term

def Row.empty {n : Nat} : Row n := fun _ => none

/-- `bindings[v] = t` -/
def Row.set {n : Nat} (μ : Row n) (v : Fin n) (t : Term) : Row n :=
  fun w => if w = v then some t else μ w

/-- a position of a triple pattern -/
inductive PT (n : Nat)
  | var (v : Fin n)
  | const (c : Term)
  deriving DecidableEq, Repr

abbrev TP (n : Nat) := PT n × PT n × PT n

/-- `QueryContext.__getitem__`: a constant is itself, a variable its binding or `None` -/
def Row.look {n : Nat} (μ : Row n) : PT n → Option Term
  | .var v => μ v
  | .const c => some c

/-! ### evalBGP -/

/-- One of the three guarded assignments of `evalBGP`:
    `if _s is None: c[s] = ss` where `__setitem__` raises `AlreadyBound` (→ `none`, the triple is
    skipped) when the variable already has a different value. `orig` is the look-up made *before*
    the loop (`_s = ctx[s]`). -/
def assign {n : Nat} (orig : Option Term) (pt : PT n) (val : Term) (c : Row n) : Option (Row n) :=
  match orig with
  | some _ => some c
  | none =>
    match pt with
    | .const _ => some c
    | .var v =>
      match c v with
      | none => some (c.set v val)
      | some x => if x = val then some c else none

/-- the pattern handed to `graph.triples`: `(ctx[s], ctx[p], ctx[o])` -/
def instPat {n : Nat} (μ : Row n) (t : TP n) : Pat := (μ.look t.1, μ.look t.2.1, μ.look t.2.2)

/-- body of the `for ss, sp, so in ctx.graph.triples(...)` loop: the pushed context, or `none` -/
def bindTriple {n : Nat} (μ : Row n) (t : TP n) (tr : Triple) : Option (Row n) :=
  (assign (μ.look t.1) t.1 tr.1 μ).bind fun c1 =>
    (assign (μ.look t.2.1) t.2.1 tr.2.1 c1).bind fun c2 =>
      assign (μ.look t.2.2) t.2.2 tr.2.2 c2

def evalBGP {n : Nat} (st : Store) : Row n → List (TP n) → List (Row n)
  | μ, [] => [μ]
  | μ, t :: rest =>
    (st (instPat μ t)).flatMap fun tr =>
      match bindTriple μ t tr with
      | none => []
      | some c => evalBGP st c rest

/-! ### the two re-orderings of a basic graph pattern -/

def insertBy {α : Type} (le : α → α → Bool) (x : α) : List α → List α
  | [] => [x]
  | y :: ys => if le x y then x :: y :: ys else y :: insertBy le x ys

/-- stable insertion sort (Python's `sorted` is stable; only "is a permutation" is ever used) -/
def sortBy {α : Type} (le : α → α → Bool) (l : List α) : List α := l.foldr (insertBy le) []

def isNone' (o : Option Term) : Nat := if o.isNone then 1 else 0

/-- `len([n for n in t if ctx[n] is None])` -/
def unboundCount {n : Nat} (μ : Row n) (t : TP n) : Nat :=
  isNone' (μ.look t.1) + isNone' (μ.look t.2.1) + isNone' (μ.look t.2.2)

/-- `evalPart`, BGP branch: `sorted(part.triples, key=unbound count)` -/
def dynOrder {n : Nat} (μ : Row n) (ts : List (TP n)) : List (TP n) :=
  sortBy (fun a b => unboundCount μ a ≤ unboundCount μ b) ts

def ptVars {n : Nat} : PT n → List (Fin n)
  | .var v => [v]
  | .const _ => []

def tpVars {n : Nat} (t : TP n) : List (Fin n) := ptVars t.1 ++ ptVars t.2.1 ++ ptVars t.2.2

def bgpVars {n : Nat} (ts : List (TP n)) : List (Fin n) := ts.flatMap tpVars

/-- `_knownTerms`: (number of not-yet-known variables, total occurrence count of its variables
    (the code negates it: larger first), object is not a literal) -/
def knownKey {n : Nat} (isLit : Term → Bool) (known : List (Fin n)) (count : Fin n → Nat) (t : TP n) :
    Nat × Nat × Bool :=
  (((tpVars t).filter (fun v => !(known.contains v))).length,
   ((tpVars t).map count).foldl (· + ·) 0,
   match t.2.2 with
   | .const c => !(isLit c)
   | .var _ => true)

/-- order of the decorated pairs `(key, triple)`; ties on the key are broken by the order of the
    terms themselves, which the model leaves abstract (`tle`) -/
def decoLe {n : Nat} (tle : TP n → TP n → Bool) (a b : (Nat × Nat × Bool) × TP n) : Bool :=
  if a.1.1 < b.1.1 then true else if b.1.1 < a.1.1 then false
  else if b.1.2.1 < a.1.2.1 then true else if a.1.2.1 < b.1.2.1 then false
  else if a.1.2.2 = b.1.2.2 then tle a.2 b.2 else !a.1.2.2

/-- the `while i < len(l_)` loop of `reorderTriples`: sort the rest, keep its head, mark the variables
    of the whole top block (same first key component) as known, go on with the tail -/
def reorderLoop {n : Nat} (isLit : Term → Bool) (tle : TP n → TP n → Bool) (count : Fin n → Nat) :
    Nat → List (Fin n) → List (TP n) → List (TP n)
  | 0, _, l => l
  | fuel + 1, known, l =>
    match sortBy (decoLe tle) (l.map fun t => (knownKey isLit known count t, t)) with
    | [] => []
    | (k, h) :: tl =>
      let block := ((k, h) :: tl).takeWhile (fun x => x.1.1 == k.1)
      let known' := known ++ block.flatMap (fun x => tpVars x.2)
      h :: reorderLoop isLit tle count fuel known' (tl.map (·.2))

def reorderTriples {n : Nat} (isLit : Term → Bool) (tle : TP n → TP n → Bool) (ts : List (TP n)) :
    List (TP n) :=
  reorderLoop isLit tle (fun v => (bgpVars ts).count v) ts.length [] ts

/-- what rdflib does with the BGP of a query: `reorderTriples` at translation time (`triples`,
    `simplify`), the dynamic sort in `evalPart`, then `evalBGP` -/
def evalPartBGP {n : Nat} (isLit : Term → Bool) (tle : TP n → TP n → Bool) (st : Store) (μ : Row n)
    (ts : List (TP n)) : List (Row n) :=
  evalBGP st μ (dynOrder μ (reorderTriples isLit tle ts))

/-! ### stores -/

/-- a graph seen as a store: every matching triple, once per occurrence in the list -/
def graphStore (g : List Triple) : Store := fun pat => g.filter pat.matches

/-- `Memory`: the three nested-dict indexes, each abstracted to the list of triples it holds, and the
    per-context triple set (`__contextTriples[None]`) used for the all-wildcard pattern -/
structure Mem where
  all : List Triple
  spo : List Triple
  pos : List Triple
  osp : List Triple

/-- `Memory.triples`: dispatch on `is None` -/
def Mem.triples (m : Mem) : Store
  | (none, none, none) => m.all
  | (some s, some p, some o) => if (s, p, o) ∈ m.spo then [(s, p, o)] else []
  | (some s, p, o) => m.spo.filter (Pat.matches (some s, p, o))
  | (none, some p, o) => m.pos.filter (Pat.matches (none, some p, o))
  | (none, none, some o) => m.osp.filter (Pat.matches (none, none, some o))

/-- `SimpleMemory`: three indexes, no contexts -/
structure SMem where
  spo : List Triple
  pos : List Triple
  osp : List Triple

/-- `SimpleMemory.triples`: dispatch on `!= ANY` -/
def SMem.triples (m : SMem) : Store
  | (some s, p, o) => m.spo.filter (Pat.matches (some s, p, o))
  | (none, some p, o) => m.pos.filter (Pat.matches (none, some p, o))
  | (none, none, some o) => m.osp.filter (Pat.matches (none, none, some o))
  | (none, none, none) => m.spo

/-- `AuditableStore.triples`: hands the pattern to the wrapped store and passes the answers on -/
def audTriples (inner : Store) : Store := fun pat => inner pat

/-- `triple in graph` -/
def holds (st : Store) (t : Triple) : Bool := !(st (some t.1, some t.2.1, some t.2.2)).isEmpty

/-- `ReadOnlyGraphAggregate.triples`: the members in turn; a triple held by an earlier member is skipped -/
def aggFrom (earlier : List Store) : List Store → Store
  | [], _ => []
  | m :: ms, pat =>
    (m pat).filter (fun t => !(earlier.any fun e => holds e t)) ++ aggFrom (earlier ++ [m]) ms pat

def aggTriples (members : List Store) : Store := aggFrom [] members

/-- the hypothesis of `store_irrelevant`: `triples(pattern)` returns each matching triple of `data`
    exactly once -/
def ExactlyOnce (st : Store) (data : List Triple) : Prop :=
  ∀ pat, (st pat).Nodup ∧ ∀ t, t ∈ st pat ↔ (t ∈ data ∧ pat.matches t = true)

/-! ### bags of mappings: the algebra -/

def compat {n : Nat} (a b : Row n) : Bool :=
  (List.finRange n).all fun v =>
    match a v, b v with
    | some x, some y => x == y
    | _, _ => true

/-- `FrozenDict.merge` -/
def merge {n : Nat} (a b : Row n) : Row n :=
  fun v => match a v with
    | some x => some x
    | none => b v

/-- `_join`: `for x in a: for y in b: if x.compatible(y): yield x.merge(y)` -/
def joinBag {n : Nat} (A B : List (Row n)) : List (Row n) :=
  A.flatMap fun a => B.filterMap fun b => if compat a b then some (merge a b) else none

/-- `FrozenBindings.project` -/
def project {n : Nat} (vs : List (Fin n)) (μ : Row n) : Row n :=
  fun v => if vs.contains v then μ v else none

/-- filter expressions of the modelled fragment -/
inductive Ex (n : Nat)
  | same (a b : PT n)
  | bound (v : Fin n)
  | not (e : Ex n)
  | and (a b : Ex n)
  | or (a b : Ex n)
  deriving Repr

/-- `sameTerm`: `NotBoundError` (→ `none`) when an operand is an unbound variable -/
def sameVal (a b : Option Term) : Option Bool :=
  match a, b with
  | some x, some y => some (x == y)
  | _, _ => none

/-- `ConditionalAndExpression`: false if any operand is false, else the error if any, else true -/
def and3 (a b : Option Bool) : Option Bool :=
  match a, b with
  | some false, _ => some false
  | _, some false => some false
  | none, _ => none
  | _, none => none
  | some true, some true => some true

/-- `ConditionalOrExpression`: true if any operand is true, else the error if any, else false -/
def or3 (a b : Option Bool) : Option Bool :=
  match a, b with
  | some true, _ => some true
  | _, some true => some true
  | none, _ => none
  | _, none => none
  | some false, some false => some false

/-- value of an expression under a solution; `none` = SPARQL error -/
def Ex.eval {n : Nat} : Ex n → Row n → Option Bool
  | .same a b, μ => sameVal (μ.look a) (μ.look b)
  | .bound v, μ => some (μ v).isSome
  | .not e, μ => (e.eval μ).map (!·)
  | .and a b, μ => and3 (a.eval μ) (b.eval μ)
  | .or a b, μ => or3 (a.eval μ) (b.eval μ)

/-- the algebra of the fragment (BGP, Join, Union, Filter, Project), bottom-up over bags -/
inductive Q (n : Nat)
  | bgp (ts : List (TP n))
  | join (a b : Q n)
  | union (a b : Q n)
  | filter (e : Ex n) (q : Q n)
  | proj (vs : List (Fin n)) (q : Q n)
  deriving Repr

def Q.eval {n : Nat} (st : Store) : Q n → List (Row n)
  | .bgp ts => evalBGP st Row.empty ts
  | .join a b => joinBag (a.eval st) (b.eval st)
  | .union a b => a.eval st ++ b.eval st
  | .filter e q => (q.eval st).filter fun μ => e.eval μ == some true
  | .proj vs q => (q.eval st).map (project vs)

/-! ### the prepared query: the translated tree plus the fields evaluation writes -/

/-- expression nodes with the mutable field `ctx` that `Expr.eval` sets and clears -/
inductive ExS (n : Nat)
  | same (ctx : Option (Row n)) (a b : PT n)
  | bound (ctx : Option (Row n)) (v : Fin n)
  | not (ctx : Option (Row n)) (e : ExS n)
  | and (ctx : Option (Row n)) (a b : ExS n)
  | or (ctx : Option (Row n)) (a b : ExS n)

/-- `CompValue._value`: `value(self.ctx, val)` if `self.ctx is not None` else the raw `val`
    (a raw variable is not a term: the comparison has no value) -/
def resolve {n : Nat} (ctx : Option (Row n)) (a : PT n) : Option Term :=
  match ctx with
  | none => none
  | some c => c.look a

/-- `Expr.eval(ctx)`:  `try: self.ctx = ctx; return self._evalfn(ctx)  finally: self.ctx = None`.
    Children are reached through `self.ctx` (`CompValue.__getitem__ → _value`), and have their own
    `ctx` field set and cleared by their own `eval`.  Returns the value and the node afterwards. -/
def ExS.eval {n : Nat} : ExS n → Row n → Option Bool × ExS n
  | .same _ a b, c =>
    let cur : Option (Row n) := some c                      -- self.ctx = ctx
    (sameVal (resolve cur a) (resolve cur b), .same none a b) -- finally: self.ctx = None
  | .bound _ v, c =>
    let cur : Option (Row n) := some c
    ((cur.map fun cc => (cc v).isSome), .bound none v)
  | .not _ e, c =>
    let cur : Option (Row n) := some c
    match cur with
    | none => (none, .not none e)
    | some cc =>
      let r := e.eval cc
      (r.1.map (!·), .not none r.2)
  | .and _ a b, c =>
    let cur : Option (Row n) := some c
    match cur with
    | none => (none, .and none a b)
    | some cc =>
      let ra := a.eval cc          -- expr = e.expr
      let rb := b.eval cc          -- other = e.other   (evaluated whatever the first operand gave)
      (and3 ra.1 rb.1, .and none ra.2 rb.2)
  | .or _ a b, c =>
    let cur : Option (Row n) := some c
    match cur with
    | none => (none, .or none a b)
    | some cc =>
      let ra := a.eval cc
      let rb := b.eval cc
      (or3 ra.1 rb.1, .or none ra.2 rb.2)

/-- a freshly translated expression: every `ctx` field is `None` -/
def ExS.ofEx {n : Nat} : Ex n → ExS n
  | .same a b => .same none a b
  | .bound v => .bound none v
  | .not e => .not none (ofEx e)
  | .and a b => .and none (ofEx a) (ofEx b)
  | .or a b => .or none (ofEx a) (ofEx b)

def ExS.erase {n : Nat} : ExS n → Ex n
  | .same _ a b => .same a b
  | .bound _ v => .bound v
  | .not _ e => .not e.erase
  | .and _ a b => .and a.erase b.erase
  | .or _ a b => .or a.erase b.erase

def ExS.clean {n : Nat} : ExS n → Bool
  | .same c _ _ => c.isNone
  | .bound c _ => c.isNone
  | .not c e => c.isNone && e.clean
  | .and c a b => c.isNone && a.clean && b.clean
  | .or c a b => c.isNone && a.clean && b.clean

/-- the prepared algebra tree -/
inductive QS (n : Nat)
  | bgp (ts : List (TP n))
  | join (a b : QS n)
  | union (a b : QS n)
  | filter (e : ExS n) (q : QS n)
  | proj (vs : List (Fin n)) (q : QS n)

def QS.ofQ {n : Nat} : Q n → QS n
  | .bgp ts => .bgp ts
  | .join a b => .join (ofQ a) (ofQ b)
  | .union a b => .union (ofQ a) (ofQ b)
  | .filter e q => .filter (ExS.ofEx e) (ofQ q)
  | .proj vs q => .proj vs (ofQ q)

def QS.erase {n : Nat} : QS n → Q n
  | .bgp ts => .bgp ts
  | .join a b => .join a.erase b.erase
  | .union a b => .union a.erase b.erase
  | .filter e q => .filter e.erase q.erase
  | .proj vs q => .proj vs q.erase

def QS.clean {n : Nat} : QS n → Bool
  | .bgp _ => true
  | .join a b => a.clean && b.clean
  | .union a b => a.clean && b.clean
  | .filter e q => e.clean && q.clean
  | .proj _ q => q.clean

/-- `evalFilter`: one `Expr.eval` per solution, each leaving its marks on the shared tree -/
def filterS {n : Nat} (e : ExS n) : List (Row n) → List (Row n) × ExS n
  | [] => ([], e)
  | r :: rs =>
    let x := e.eval r
    let y := filterS x.2 rs
    (if x.1 == some true then r :: y.1 else y.1, y.2)

/-- one evaluation of a prepared query: the answers and the tree afterwards (the tree state is the `ctx` fields
    of its expression nodes and the order of the triple lists of its BGPs) -/
def QS.run {n : Nat} (st : Store) : QS n → List (Row n) × QS n
  | .bgp ts =>
    -- `evalPart`: `triples = sorted(part.triples, key=…)` builds a NEW list; `part.triples` — the order of
    -- the patterns in the prepared tree — is left as it is
    (evalBGP st Row.empty (dynOrder Row.empty ts), .bgp ts)
  | .join a b =>
    let ra := a.run st
    let rb := b.run st
    (joinBag ra.1 rb.1, .join ra.2 rb.2)
  | .union a b =>
    let ra := a.run st
    let rb := b.run st
    (ra.1 ++ rb.1, .union ra.2 rb.2)
  | .filter e q =>
    let rq := q.run st
    let rf := filterS e rq.1
    (rf.1, .filter rf.2 rq.2)
  | .proj vs q =>
    let rq := q.run st
    (rq.1.map (project vs), .proj vs rq.2)

/-- a prepared `Query` object: its prologue's base (what `IRI()` / `URI()` and relative references resolve
    against during evaluation) and the algebra tree -/
structure PQ (n : Nat) where
  base : List Nat
  tree : QS n

/-- `SPARQLProcessor.query(prepared, base=b)`: the `base` keyword is handed on to `evalQuery`, it is not written
    to the shared object (whose `prologue.base` was fixed when the query was prepared) -/
def PQ.run {n : Nat} (st : Store) (_baseArg : Option (List Nat)) (p : PQ n) : List (Row n) × PQ n :=
  let r := p.tree.run st
  (r.1, { base := p.base, tree := r.2 })

/-- evaluating the same prepared object on a sequence of stores -/
def runMany {n : Nat} : QS n → List Store → List (List (Row n)) × QS n
  | q, [] => ([], q)
  | q, st :: sts =>
    let r := q.run st
    let rest := runMany r.2 sts
    (r.1 :: rest.1, rest.2)

/-! ### initBindings against VALUES (the fragment `SELECT pv { BGP . { SELECT pv' { BGP' } } FILTER e }`) -/

structure SelQ (n : Nat) where
  ts : List (TP n)                                  -- the outermost basic graph pattern
  sub : Option (List (Fin n) × List (TP n))         -- an optional sub-select: projection, its BGP
  filt : Option (Ex n)
  proj : Option (List (Fin n))                      -- `none` = SELECT *

def domOf {n : Nat} (μ : Row n) : List (Fin n) := (List.finRange n).filter fun v => (μ v).isSome

/-- solutions of the sub-select: evaluated in a context that holds only the initBindings
    (`ctx.clean()`: `clone` re-seeds them), then projected -/
def subRows {n : Nat} (st : Store) (init : Row n) : Option (List (Fin n) × List (TP n)) → List (Row n)
  | none => [Row.empty]
  | some (pv, ts') => (evalBGP st init ts').map (project pv)

/-- the group pattern: the lazy join pushes each BGP solution into the sub-select, whose answers are
    joined with it (`evalLazyJoin`, `evalMultiset`) -/
def groupRows {n : Nat} (st : Store) (init : Row n) (q : SelQ n) : List (Row n) :=
  (evalBGP st init q.ts).flatMap fun a =>
    (subRows st init q.sub).filterMap fun s => if compat s a then some (merge s a) else none

def Ex.vars {n : Nat} : Ex n → List (Fin n)
  | .same a b => ptVars a ++ ptVars b
  | .bound v => [v]
  | .not e => e.vars
  | .and a b => a.vars ++ b.vars
  | .or a b => a.vars ++ b.vars

/-- the columns of `SELECT *` (`translate`: `_findVars` over the WHERE clause): every variable written in
    the group — patterns and filter expressions — and of a sub-select only what it projects -/
def starVars {n : Nat} (q : SelQ n) : List (Fin n) :=
  bgpVars q.ts ++ (match q.filt with | none => [] | some e => e.vars)
    ++ (match q.sub with | none => [] | some (pv, _) => pv)

def finish {n : Nat} (q : SelQ n) (star : List (Fin n)) (rows : List (Row n)) : List (Row n) :=
  let rows := match q.filt with
    | none => rows
    | some e => rows.filter fun μ => e.eval μ == some true
  rows.map (project (q.proj.getD star))

/-- `Graph.query(q, initBindings=init)` -/
def evalInit {n : Nat} (st : Store) (init : Row n) (q : SelQ n) : List (Row n) :=
  finish q (starVars q) (groupRows st init q)

/-- the same query with `VALUES (dom init) {(init)}` added to its group, no initBindings:
    the row is joined with the group's solutions, and `SELECT *` now also shows its variables -/
def evalValues {n : Nat} (st : Store) (init : Row n) (q : SelQ n) : List (Row n) :=
  finish q (starVars q ++ domOf init) (joinBag (groupRows st Row.empty q) [init])

/-! ### PName resolution (translatePName / Prologue.absolutize), before anything else -/

/-- a term as spelled in the query text; IRIs are lists of code points -/
inductive STerm
  | full (iri : List Nat)
  | pname (pfx : Nat) (loc : List Nat)
  | rel (ref : List Nat)

structure Prologue where
  base : List Nat
  prefixes : List (Nat × List Nat)

def lookupPrefix : List (Nat × List Nat) → Nat → Option (List Nat)
  | [], _ => none
  | (k, ns) :: rest, p => if k = p then some ns else lookupPrefix rest p

/-- `Prologue.bind`: a later declaration of the same prefix wins; different prefixes never disturb
    each other (also when they name the same namespace) -/
def Prologue.bind (pr : Prologue) (p : Nat) (ns : List Nat) : Prologue :=
  { pr with prefixes := (p, ns) :: pr.prefixes }

/-- `None` = "Unknown namespace prefix" -/
def resolve1 (pr : Prologue) : STerm → Option (List Nat)
  | .full iri => some iri
  | .pname p loc => (lookupPrefix pr.prefixes p).map (· ++ loc)
  | .rel r => some (Iri.absolutize pr.base r)      -- `URIRef(iri, base=self.base)`: urljoin as CPython codes it

end RV.C15
