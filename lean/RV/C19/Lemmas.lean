import RV.C19.Model
/-
  C19 helper lemmas, part 1: graph primitives, the chain predicate, and what every
  read computes on a well-formed chain.
-/
namespace RV.C19

/-! ### graph primitives: meaning in terms of membership -/

theorem value_some_mem {g : Graph} {s p o : Term} (h : value g s p = some o) : (s, p, o) ∈ g := by
  induction g with
  | nil => simp [value] at h
  | cons t g ih =>
    obtain ⟨s', p', o'⟩ := t
    simp only [value] at h
    split at h
    · next hc =>
      obtain ⟨rfl, rfl⟩ := hc
      cases h
      exact List.mem_cons_self
    · exact List.mem_cons_of_mem _ (ih h)

theorem value_none_iff {g : Graph} {s p : Term} : value g s p = none ↔ ∀ o, (s, p, o) ∉ g := by
  induction g with
  | nil => simp [value]
  | cons t g ih =>
    obtain ⟨s', p', o'⟩ := t
    simp only [value]
    split
    · next hc =>
      obtain ⟨rfl, rfl⟩ := hc
      constructor
      · intro h; cases h
      · intro h; exact absurd List.mem_cons_self (h o')
    · next hc =>
      rw [ih]
      constructor
      · intro h o hm
        rcases List.mem_cons.mp hm with e | hm
        · injection e with e1 e2
          injection e2 with e2 e3
          exact hc ⟨e1.symm, e2.symm⟩
        · exact h o hm
      · intro h o hm
        exact h o (List.mem_cons_of_mem _ hm)

/-- in a graph where `(s, p, ·)` has the unique object `x`, `Graph.value` answers `x`
    (whatever matching triple it picks) -/
theorem value_unique {g : Graph} {s p x : Term} (h : ∀ o, (s, p, o) ∈ g ↔ o = x) :
    value g s p = some x := by
  cases hv : value g s p with
  | none => exact absurd ((h x).2 rfl) (value_none_iff.mp hv x)
  | some o => rw [(h o).1 (value_some_mem hv)]

theorem value_absent {g : Graph} {s p : Term} (h : ∀ o, (s, p, o) ∉ g) : value g s p = none :=
  value_none_iff.mpr h

theorem hasSP_iff {g : Graph} {s p : Term} : hasSP g s p = true ↔ ∃ o, (s, p, o) ∈ g := by
  unfold hasSP
  cases hv : value g s p with
  | none =>
    simp only [Option.isSome_none, Bool.false_eq_true, false_iff]
    rintro ⟨o, ho⟩
    exact value_none_iff.mp hv o ho
  | some o =>
    simp only [Option.isSome_some, true_iff]
    exact ⟨o, value_some_mem hv⟩

theorem hasSP_false_iff {g : Graph} {s p : Term} : hasSP g s p = false ↔ ∀ o, (s, p, o) ∉ g := by
  rw [← Bool.not_eq_true, hasSP_iff]
  simp

@[simp] theorem mem_removeSP {g : Graph} {s p : Term} {t : Triple} :
    t ∈ removeSP g s p ↔ t ∈ g ∧ ¬(t.1 = s ∧ t.2.1 = p) := by
  simp only [removeSP, List.mem_filter, Bool.not_eq_eq_eq_not, Bool.not_true, Bool.and_eq_false_imp,
    beq_iff_eq, beq_eq_false_iff_ne, ne_eq, not_and]

@[simp] theorem mem_removeS {g : Graph} {s : Term} {t : Triple} :
    t ∈ removeS g s ↔ t ∈ g ∧ t.1 ≠ s := by
  simp [removeS]

@[simp] theorem mem_add {g : Graph} {t u : Triple} : t ∈ add g u ↔ t = u ∨ t ∈ g := by
  simp [add]

@[simp] theorem mem_gset {g : Graph} {s p o : Term} {t : Triple} :
    t ∈ gset g s p o ↔ t = (s, p, o) ∨ (t ∈ g ∧ ¬(t.1 = s ∧ t.2.1 = p)) := by
  simp [gset]

theorem nodup_add {g : Graph} {t : Triple} (h : g.Nodup) : (add g t).Nodup := nodup_sinsert h
theorem nodup_removeSP {g : Graph} {s p : Term} (h : g.Nodup) : (removeSP g s p).Nodup := h.filter _
theorem nodup_removeS {g : Graph} {s : Term} (h : g.Nodup) : (removeS g s).Nodup := h.filter _
theorem nodup_gset {g : Graph} {s p o : Term} (h : g.Nodup) : (gset g s p o).Nodup :=
  nodup_add (nodup_removeSP h)

theorem objects_of_le_one {g : Graph} {s p n : Term} (hnd : g.Nodup)
    (h : ∀ o, (s, p, o) ∈ g → o = n) :
    objects g s p = if (s, p, n) ∈ g then [n] else [] := by
  induction g with
  | nil => simp [objects]
  | cons t g ih =>
    obtain ⟨s', p', o'⟩ := t
    rw [List.nodup_cons] at hnd
    have ih' := ih hnd.2 (fun o ho => h o (List.mem_cons_of_mem _ ho))
    simp only [objects]
    split
    · next hc =>
      obtain ⟨rfl, rfl⟩ := hc
      have : o' = n := h o' List.mem_cons_self
      subst this
      rw [ih', if_neg hnd.1]
      simp
    · next hc =>
      rw [ih']
      have : ((s, p, n) ∈ (s', p', o') :: g) ↔ (s, p, n) ∈ g := by
        constructor
        · intro hm
          rcases List.mem_cons.mp hm with e | hm
          · injection e with e1 e2
            injection e2 with e2 e3
            exact absurd ⟨e1.symm, e2.symm⟩ hc
          · exact hm
        · exact List.mem_cons_of_mem _
      simp only [this]

theorem objects_unique {g : Graph} {s p n : Term} (hnd : g.Nodup) (h : ∀ o, (s, p, o) ∈ g ↔ o = n) :
    objects g s p = [n] := by
  rw [objects_of_le_one hnd (fun o ho => (h o).1 ho), if_pos ((h n).2 rfl)]

theorem objects_absent {g : Graph} {s p : Term} (h : ∀ o, (s, p, o) ∉ g) : objects g s p = [] := by
  induction g with
  | nil => simp [objects]
  | cons t g ih =>
    obtain ⟨s', p', o'⟩ := t
    simp only [objects]
    split
    · next hc =>
      obtain ⟨rfl, rfl⟩ := hc
      exact absurd List.mem_cons_self (h o')
    · exact ih (fun o ho => h o (List.mem_cons_of_mem _ ho))

/-! ### The chain predicate -/

/-- a cell together with the member it holds -/
abbrev Cell := Term × Term

/-- the first cell of a segment, or the segment's continuation `tl` if it is empty -/
def hd (tl : Option Term) : List Cell → Option Term
  | [] => tl
  | (c, _) :: _ => some c

/-- Every cell of the segment has exactly its `rdf:first` and exactly the `rdf:rest` leading to
    the next cell (`tl` after the last: `some NIL` = closed list, `none` = no rdf:rest at all). -/
def Cells (g : Graph) (tl : Option Term) : List Cell → Prop
  | [] => True
  | (c, x) :: ps =>
    c ≠ NIL ∧ (∀ o, (c, FIRST, o) ∈ g ↔ o = x) ∧ (∀ o, (c, REST, o) ∈ g ↔ some o = hd tl ps) ∧ Cells g tl ps

/-- `ps` is the chain of the collection named `h` in `g`:
    it starts at `h`, is simple, and no other node carries list triples (no orphaned cells).
    An empty collection is `ps = []`: no list triples at all. -/
structure Chain (g : Graph) (h : Term) (tl : Option Term) (ps : List Cell) : Prop where
  head : ps ≠ [] → hd tl ps = some h
  hne : h ≠ NIL
  nodup : (ps.map Prod.fst).Nodup
  cells : Cells g tl ps
  noOrphan : ∀ s p o, (s, p, o) ∈ g → p = FIRST ∨ p = REST → s ∈ ps.map Prod.fst

theorem hd_append (tl : Option Term) (a b : List Cell) : hd tl (a ++ b) = hd (hd tl b) a := by
  cases a with
  | nil => rfl
  | cons p a => obtain ⟨c, x⟩ := p; rfl

theorem cells_append {g : Graph} {tl : Option Term} {a b : List Cell} :
    Cells g tl (a ++ b) ↔ Cells g (hd tl b) a ∧ Cells g tl b := by
  induction a with
  | nil => simp [Cells]
  | cons p a ih =>
    obtain ⟨c, x⟩ := p
    simp only [List.cons_append, Cells, ih, hd_append, and_assoc]

/-- `Cells` only looks at the list triples whose subject is one of the cells -/
theorem cells_frame {g g' : Graph} {tl : Option Term} {ps : List Cell} (h : Cells g tl ps)
    (hf : ∀ c p o, c ∈ ps.map Prod.fst → (p = FIRST ∨ p = REST) → ((c, p, o) ∈ g' ↔ (c, p, o) ∈ g)) :
    Cells g' tl ps := by
  induction ps with
  | nil => trivial
  | cons q ps ih =>
    obtain ⟨c, x⟩ := q
    obtain ⟨h1, h2, h3, h4⟩ := h
    refine ⟨h1, ?_, ?_, ih h4 ?_⟩
    · intro o; rw [hf c FIRST o (by simp) (Or.inl rfl)]; exact h2 o
    · intro o; rw [hf c REST o (by simp) (Or.inr rfl)]; exact h3 o
    · intro c' p o hc hp
      exact hf c' p o (by simp only [List.map_cons, List.mem_cons]; exact Or.inr hc) hp

theorem cells_not_nil {g : Graph} {tl : Option Term} {ps : List Cell} (h : Cells g tl ps) :
    NIL ∉ ps.map Prod.fst := by
  induction ps with
  | nil => simp
  | cons q ps ih =>
    obtain ⟨c, x⟩ := q
    obtain ⟨h1, _, _, h4⟩ := h
    simp only [List.map_cons, List.mem_cons, not_or]
    exact ⟨fun e => h1 e.symm, ih h4⟩

theorem cells_drop {g : Graph} {tl : Option Term} {ps : List Cell} (h : Cells g tl ps) (k : Nat) :
    Cells g tl (ps.drop k) := by
  induction k generalizing ps with
  | zero => simpa
  | succ k ih =>
    cases ps with
    | nil => simp [Cells]
    | cons q ps =>
      obtain ⟨c, x⟩ := q
      simp only [List.drop_succ_cons]
      exact ih h.2.2.2

/-- no list triple has rdf:nil as subject -/
theorem Chain.nil_free {g : Graph} {h : Term} {tl : Option Term} {ps : List Cell} (c : Chain g h tl ps)
    {p o : Term} (hp : p = FIRST ∨ p = REST) : (NIL, p, o) ∉ g :=
  fun hm => cells_not_nil c.cells (c.noOrphan _ _ _ hm hp)

theorem Chain.value_nil {g : Graph} {h : Term} {tl : Option Term} {ps : List Cell} (c : Chain g h tl ps)
    {p : Term} (hp : p = FIRST ∨ p = REST) : value g NIL p = none :=
  value_absent (fun _ => c.nil_free hp)

/-- the head of an empty collection carries no list triple -/
theorem Chain.empty_no_triple {g : Graph} {h : Term} {tl : Option Term} (c : Chain g h tl [])
    {s p o : Term} (hp : p = FIRST ∨ p = REST) : (s, p, o) ∉ g :=
  fun hm => by simpa using c.noOrphan _ _ _ hm hp

/-! ### reads on a chain -/

theorem getContainer_none (g : Graph) (k : Nat) : getContainer g none k = none := by
  cases k <;> rfl

/-- `_get_container(k)` walks to the k-th cell, to rdf:nil for `k = len`, to `None` beyond -/
theorem getContainer_cells {g : Graph} {ps : List Cell} (hc : Cells g (some NIL) ps)
    (hnil : value g NIL REST = none) (k : Nat) :
    getContainer g (hd (some NIL) ps) k = if k ≤ ps.length then hd (some NIL) (ps.drop k) else none := by
  induction k generalizing ps with
  | zero => cases ps <;> simp [getContainer]
  | succ k ih =>
    cases ps with
    | nil => simp [hd, getContainer, hnil, getContainer_none]
    | cons q ps =>
      obtain ⟨c, x⟩ := q
      obtain ⟨_, _, h3, h4⟩ := hc
      have hv : value g c REST = hd (some NIL) ps := by
        cases hh : hd (some NIL) ps with
        | none => cases ps with
          | nil => simp [hd] at hh
          | cons q ps => obtain ⟨c', x'⟩ := q; simp [hd] at hh
        | some n => exact value_unique (fun o => by rw [h3 o, hh]; simp [eq_comm])
      have := ih h4
      simp only [List.length_cons, List.drop_succ_cons, Nat.add_le_add_iff_right]
      show getContainer g (value g c REST) k = _
      rw [hv]
      exact this

/-- the first cell of a closed segment as a term (rdf:nil for the empty one) -/
def hdN : List Cell → Term
  | [] => NIL
  | (c, _) :: _ => c

theorem hd_some_nil (ps : List Cell) : hd (some NIL) ps = some (hdN ps) := by
  cases ps with
  | nil => rfl
  | cons q ps => obtain ⟨c, x⟩ := q; rfl

theorem Chain.hdN_eq {g : Graph} {h : Term} {ps : List Cell} (c : Chain g h (some NIL) ps) (hne : ps ≠ []) :
    hdN ps = h := by
  have := c.head hne
  rw [hd_some_nil] at this
  exact Option.some.inj this

theorem cells_value_rest {g : Graph} {c x : Term} {ps : List Cell} (hc : Cells g (some NIL) ((c, x) :: ps)) :
    value g c REST = some (hdN ps) :=
  value_unique (fun o => by rw [hc.2.2.1 o, hd_some_nil]; simp)

theorem cells_value_first {g : Graph} {tl : Option Term} {c x : Term} {ps : List Cell}
    (hc : Cells g tl ((c, x) :: ps)) : value g c FIRST = some x :=
  value_unique hc.2.1

theorem Chain.getContainer {g : Graph} {h : Term} {ps : List Cell} (c : Chain g h (some NIL) ps) (k : Nat) :
    getContainer g (some h) k =
      if ps = [] then (if k = 0 then some h else none)
      else if k ≤ ps.length then some (hdN (ps.drop k)) else none := by
  by_cases hps : ps = []
  · subst hps
    simp only [if_true]
    cases k with
    | zero => rfl
    | succ k =>
      have : value g h REST = none := value_absent (fun _ => c.empty_no_triple (Or.inr rfl))
      simp [RV.C19.getContainer, this, getContainer_none]
  · rw [if_neg hps, ← c.head hps, getContainer_cells c.cells (c.value_nil (Or.inr rfl)), hd_some_nil]

/-- `c[k]` for `k ≥ 0` -/
theorem Chain.getAt {g : Graph} {h : Term} {ps : List Cell} (c : Chain g h (some NIL) ps) (k : Nat) :
    getAt g h k = match ps[k]? with
      | some q => .ok q.2
      | none => .error .indexError := by
  unfold RV.C19.getAt
  rw [c.getContainer k]
  by_cases hps : ps = []
  · subst hps
    simp only [if_true, List.getElem?_nil]
    have : value g h FIRST = none := value_absent (fun _ => c.empty_no_triple (Or.inl rfl))
    split <;> simp_all
  · rw [if_neg hps]
    by_cases hk : k < ps.length
    · rw [if_pos (Nat.le_of_lt hk), List.getElem?_eq_getElem hk]
      have hd := List.drop_eq_getElem_cons hk
      have hcd := cells_drop c.cells k
      rw [hd] at hcd
      rw [hd]
      rcases hq : ps[k] with ⟨ck, xk⟩
      rw [hq] at hcd
      simp only [hdN, cells_value_first hcd]
    · rw [List.getElem?_eq_none (Nat.le_of_not_lt hk)]
      by_cases hk' : k ≤ ps.length
      · have : k = ps.length := Nat.le_antisymm hk' (Nat.le_of_not_lt hk)
        subst this
        simp [hdN, c.value_nil (Or.inl rfl)]
      · simp [hk']

/-! #### pigeonhole: a chain has at most as many cells as the graph has triples -/

theorem length_le_of_nodup_subset {α : Type} [DecidableEq α] :
    ∀ (l m : List α), l.Nodup → (∀ a ∈ l, a ∈ m) → l.length ≤ m.length := by
  intro l
  induction l with
  | nil => intro m _ _; simp
  | cons a l ih =>
    intro m hnd hs
    rw [List.nodup_cons] at hnd
    have ha : a ∈ m := hs a List.mem_cons_self
    have h1 : l.length ≤ (m.erase a).length := by
      apply ih _ hnd.2
      intro b hb
      have hne : b ≠ a := fun e => hnd.1 (e ▸ hb)
      exact (List.mem_erase_of_ne hne).mpr (hs b (List.mem_cons_of_mem _ hb))
    rw [List.length_erase_of_mem ha] at h1
    have : 0 < m.length := List.length_pos_of_mem ha
    simp only [List.length_cons]
    omega

theorem cells_subject_mem {g : Graph} {tl : Option Term} {ps : List Cell} (hc : Cells g tl ps) :
    ∀ c ∈ ps.map Prod.fst, c ∈ g.map (fun t => t.1) := by
  induction ps with
  | nil => simp
  | cons q ps ih =>
    obtain ⟨c, x⟩ := q
    intro c' hc'
    rcases List.mem_cons.mp hc' with e | hc'
    · subst e
      exact List.mem_map.mpr ⟨_, (hc.2.1 x).2 rfl, rfl⟩
    · exact ih hc.2.2.2 c' hc'

theorem Chain.length_le {g : Graph} {h : Term} {tl : Option Term} {ps : List Cell} (c : Chain g h tl ps) :
    ps.length ≤ g.length := by
  have := length_le_of_nodup_subset _ _ c.nodup (cells_subject_mem c.cells)
  simpa using this

/-! #### `Graph.items` -/

/-- the nodes the walk will still reach after the first cell of the segment -/
def after : List Cell → List Term
  | [] => []
  | _ :: ps => ps.map Prod.fst ++ [NIL]

theorem hdN_mem_after (q : Cell) (ps : List Cell) : hdN ps ∈ after (q :: ps) := by
  cases ps with
  | nil => simp [hdN, after]
  | cons q' ps => obtain ⟨c, x⟩ := q'; simp [hdN, after]

theorem after_tail {g : Graph} {q : Cell} {ps : List Cell} {chain : List Term}
    (hc : Cells g (some NIL) (q :: ps)) (hnd : ((q :: ps).map Prod.fst).Nodup)
    (hch : ∀ c ∈ after (q :: ps), c ∉ chain) : ∀ c ∈ after ps, c ∉ hdN ps :: chain := by
  cases ps with
  | nil => simp [after]
  | cons q' ps =>
    obtain ⟨c', x'⟩ := q'
    intro c hc' hm
    have hc2 : c ∈ after (q :: (c', x') :: ps) := by
      simp only [after, List.map_cons, List.mem_append, List.mem_cons] at hc' ⊢
      rcases hc' with h | h
      · exact Or.inl (Or.inr h)
      · exact Or.inr h
    rcases List.mem_cons.mp hm with e | hm
    · simp only [hdN] at e
      subst e
      simp only [after, List.mem_append, List.mem_singleton] at hc'
      rcases hc' with h | h
      · simp only [List.map_cons, List.nodup_cons] at hnd
        exact hnd.2.1 h
      · exact hc.2.2.2.1 h
    · exact hch c hc2 hm

theorem itemsAux_cells {g : Graph} (hnilF : value g NIL FIRST = none) (hnilR : value g NIL REST = none) :
    ∀ (ps : List Cell) (f : Nat) (chain : List Term), Cells g (some NIL) ps → (ps.map Prod.fst).Nodup →
      ps.length < f → (∀ c ∈ after ps, c ∉ chain) →
      itemsAux g f (hdN ps) chain = (ps.map Prod.snd, none) := by
  intro ps
  induction ps with
  | nil =>
    intro f chain _ _ hf _
    cases f with
    | zero => omega
    | succ f => simp [itemsAux, hdN, hnilF, hnilR]
  | cons q ps ih =>
    obtain ⟨c, x⟩ := q
    intro f chain hc hnd hf hch
    cases f with
    | zero => omega
    | succ f =>
      have hnot : hdN ps ∉ chain := hch _ (hdN_mem_after _ _)
      have hnd' : (ps.map Prod.fst).Nodup := by
        simp only [List.map_cons, List.nodup_cons] at hnd; exact hnd.2
      have := ih f (hdN ps :: chain) hc.2.2.2 hnd' (by simp only [List.length_cons] at hf; omega)
        (after_tail hc hnd hch)
      show itemsAux g (f + 1) c chain = _
      simp only [itemsAux, cells_value_rest hc, cells_value_first hc, if_neg hnot, this,
        Option.toList_some, List.map_cons, List.singleton_append]

theorem Chain.items {g : Graph} {h : Term} {ps : List Cell} (c : Chain g h (some NIL) ps) :
    items g h = (ps.map Prod.snd, none) := by
  unfold RV.C19.items
  by_cases hps : ps = []
  · subst hps
    have h1 : value g h FIRST = none := value_absent (fun _ => c.empty_no_triple (Or.inl rfl))
    have h2 : value g h REST = none := value_absent (fun _ => c.empty_no_triple (Or.inr rfl))
    simp [itemsAux, h1, h2]
  · rw [← c.hdN_eq hps]
    apply itemsAux_cells (c.value_nil (Or.inl rfl)) (c.value_nil (Or.inr rfl)) ps _ _ c.cells c.nodup
    · have := c.length_le; omega
    · cases ps with
      | nil => exact absurd rfl hps
      | cons q ps =>
        obtain ⟨c0, x0⟩ := q
        intro a ha hm
        simp only [hdN, List.mem_singleton] at hm
        subst hm
        simp only [after, List.mem_append, List.mem_singleton] at ha
        rcases ha with ha | ha
        · have := c.nodup
          simp only [List.map_cons, List.nodup_cons] at this
          exact this.1 ha
        · exact c.cells.1 ha

theorem Chain.len {g : Graph} {h : Term} {ps : List Cell} (c : Chain g h (some NIL) ps) :
    len g h = .ok ps.length := by
  simp [RV.C19.len, c.items]

theorem Chain.iter {g : Graph} {h : Term} {ps : List Cell} (c : Chain g h (some NIL) ps) :
    iter g h = .ok (ps.map Prod.snd) := by
  simp [RV.C19.iter, c.items]

theorem Chain.contains {g : Graph} {h : Term} {ps : List Cell} (c : Chain g h (some NIL) ps) (x : Term) :
    contains g h x = .ok (decide (x ∈ ps.map Prod.snd)) := by
  unfold RV.C19.contains
  rw [c.items]
  by_cases hx : x ∈ ps.map Prod.snd <;> simp [hx]

/-! #### `Collection.index` -/

theorem cells_objects_rest {g : Graph} (hgnd : g.Nodup) {c x : Term} {ps : List Cell}
    (hc : Cells g (some NIL) ((c, x) :: ps)) : objects g c REST = [hdN ps] :=
  objects_unique hgnd (fun o => by rw [hc.2.2.1 o, hd_some_nil]; simp)

theorem indexAux_cells {g : Graph} (hgnd : g.Nodup) (item : Term) :
    ∀ (ps : List Cell) (c x : Term) (f i : Nat) (chain : List Term),
      Cells g (some NIL) ((c, x) :: ps) → (((c, x) :: ps).map Prod.fst).Nodup → ps.length < f →
      (∀ a ∈ after ((c, x) :: ps), a ∉ chain) →
      indexAux g item f c i chain =
        if item ∈ ((c, x) :: ps).map Prod.snd then .ok (i + List.idxOf item (((c, x) :: ps).map Prod.snd))
        else .error .valueError := by
  intro ps
  induction ps with
  | nil =>
    intro c x f i chain hc _ hf _
    cases f with
    | zero => omega
    | succ f =>
      have hobj := cells_objects_rest hgnd hc
      by_cases hx : item = x
      · subst hx
        have : (c, FIRST, item) ∈ g := (hc.2.1 item).2 rfl
        simp [indexAux, this]
      · have : (c, FIRST, item) ∉ g := fun hm => hx ((hc.2.1 item).1 hm)
        simp [indexAux, this, hobj, hdN, hx]
  | cons q ps ih =>
    obtain ⟨c', x'⟩ := q
    intro c x f i chain hc hnd hf hch
    cases f with
    | zero => omega
    | succ f =>
      have hobj := cells_objects_rest hgnd hc
      by_cases hx : item = x
      · subst hx
        have : (c, FIRST, item) ∈ g := (hc.2.1 item).2 rfl
        simp [indexAux, this]
      · have hnm : (c, FIRST, item) ∉ g := fun hm => hx ((hc.2.1 item).1 hm)
        have hnot : c' ∉ chain := hch _ (hdN_mem_after _ _)
        have hnd' : (((c', x') :: ps).map Prod.fst).Nodup := by
          simp only [List.map_cons, List.nodup_cons] at hnd ⊢; exact hnd.2
        have hih := ih c' x' f (i + 1) (c' :: chain) hc.2.2.2 hnd'
          (by simp only [List.length_cons] at hf; omega) (after_tail hc hnd hch)
        have hc'nil : c' ≠ NIL := hc.2.2.2.1
        have hb : (x == item) = false := beq_eq_false_iff_ne.mpr (fun e => hx e.symm)
        have hidx : ∀ l : List Term, List.idxOf item (x :: l) = List.idxOf item l + 1 := by
          intro l; simp [List.idxOf_cons, hb]
        simp only [indexAux, hnm, if_false, hobj, hdN, hc'nil, hnot, hih]
        simp only [List.map_cons, hidx, List.mem_cons, hx, false_or]
        split
        · congr 1; omega
        · rfl

theorem Chain.index {g : Graph} {h : Term} {ps : List Cell} (c : Chain g h (some NIL) ps) (hgnd : g.Nodup)
    (item : Term) :
    index g h item =
      if item ∈ ps.map Prod.snd then .ok (List.idxOf item (ps.map Prod.snd))
      else .error (if ps = [] then .other else .valueError) := by
  unfold RV.C19.index
  cases ps with
  | nil =>
    have h1 : (h, FIRST, item) ∉ g := c.empty_no_triple (Or.inl rfl)
    have h2 : objects g h REST = [] := objects_absent (fun _ => c.empty_no_triple (Or.inr rfl))
    simp [indexAux, h1, h2]
  | cons q ps =>
    obtain ⟨c0, x0⟩ := q
    have hh : c0 = h := c.hdN_eq (by simp)
    subst hh
    rw [indexAux_cells hgnd item ps c0 x0 _ 0 [c0] c.cells c.nodup]
    · simp
    · have := c.length_le; simp only [List.length_cons] at this; omega
    · intro a ha hm
      simp only [List.mem_singleton] at hm
      subst hm
      simp only [after, List.mem_append, List.mem_singleton] at ha
      rcases ha with ha | ha
      · have := c.nodup
        simp only [List.map_cons, List.nodup_cons] at this
        exact this.1 ha
      · exact c.cells.1 ha

/-! #### index normalisation, `__getitem__` -/

/-- what `_normalize_index` computes from the length -/
def normK (n : Nat) (key : Int) : Option Nat :=
  if key < 0 then (if key + n < 0 then none else some (key + n).toNat) else some key.toNat

theorem Chain.normIdx {g : Graph} {h : Term} {ps : List Cell} (c : Chain g h (some NIL) ps) (key : Int) :
    normIdx g h key = match normK ps.length key with
      | some k => .ok k
      | none => .error .indexError := by
  unfold RV.C19.normIdx normK
  rw [c.len]
  by_cases hk : key < 0
  · by_cases hk2 : key + (ps.length : Int) < 0 <;> simp [hk, hk2]
  · simp [hk]

theorem Chain.getItem {g : Graph} {h : Term} {ps : List Cell} (c : Chain g h (some NIL) ps) (key : Int) :
    getItem g h key = match normK ps.length key with
      | none => .error .indexError
      | some k => match ps[k]? with
        | some q => .ok q.2
        | none => .error .indexError := by
  unfold RV.C19.getItem
  rw [c.normIdx]
  cases normK ps.length key with
  | none => rfl
  | some k => exact c.getAt k

/-! #### `_end` -/

theorem endAux_cells {g : Graph} (e x : Term) :
    ∀ (pre : List Cell) (f : Nat), Cells g (some NIL) (pre ++ [(e, x)]) → pre.length < f →
      endAux g f (hdN (pre ++ [(e, x)])) = .ok e := by
  intro pre
  induction pre with
  | nil =>
    intro f hc hf
    cases f with
    | zero => omega
    | succ f =>
      have := cells_value_rest (ps := []) hc
      simp [endAux, hdN, this]
  | cons q pre ih =>
    obtain ⟨c, y⟩ := q
    intro f hc hf
    cases f with
    | zero => omega
    | succ f =>
      have hv := cells_value_rest (ps := pre ++ [(e, x)]) hc
      have hne : hdN (pre ++ [(e, x)]) ≠ NIL := by
        cases pre with
        | nil => exact hc.2.2.2.1
        | cons q' pre' => obtain ⟨c', y'⟩ := q'; exact hc.2.2.2.1
      show endAux g (f + 1) c = _
      simp only [endAux, hv, if_neg hne]
      exact ih f hc.2.2.2 (by simp only [List.length_cons] at hf; omega)

theorem Chain.endOf_nil {g : Graph} {h : Term} (c : Chain g h (some NIL) []) : endOf g h = .ok h := by
  have : value g h REST = none := value_absent (fun _ => c.empty_no_triple (Or.inr rfl))
  simp [endOf, endAux, this]

theorem Chain.endOf_snoc {g : Graph} {h : Term} {pre : List Cell} {e x : Term}
    (c : Chain g h (some NIL) (pre ++ [(e, x)])) : endOf g h = .ok e := by
  unfold endOf
  rw [← c.hdN_eq (by simp)]
  apply endAux_cells e x pre _ c.cells
  have := c.length_le
  simp only [List.length_append, List.length_cons, List.length_nil] at this
  omega

/-! #### the abstraction function on a chain -/

theorem asListAux_cells {g : Graph} :
    ∀ (ps : List Cell) (f : Nat), Cells g (some NIL) ps → ps.length < f →
      asListAux g f (hdN ps) = .ok (ps.map Prod.snd) := by
  intro ps
  induction ps with
  | nil =>
    intro f _ hf
    cases f with
    | zero => omega
    | succ f => simp [asListAux, hdN]
  | cons q ps ih =>
    obtain ⟨c, x⟩ := q
    intro f hc hf
    cases f with
    | zero => omega
    | succ f =>
      show asListAux g (f + 1) c = _
      simp only [asListAux, if_neg hc.1, cells_value_first hc, cells_value_rest hc,
        ih f hc.2.2.2 (by simp only [List.length_cons] at hf; omega), List.map_cons]

theorem Chain.asList {g : Graph} {h : Term} {ps : List Cell} (c : Chain g h (some NIL) ps) :
    asList g h = .ok (ps.map Prod.snd) := by
  unfold RV.C19.asList
  cases ps with
  | nil =>
    have h1 : hasSP g h FIRST = false := hasSP_false_iff.mpr (fun _ => c.empty_no_triple (Or.inl rfl))
    have h2 : hasSP g h REST = false := hasSP_false_iff.mpr (fun _ => c.empty_no_triple (Or.inr rfl))
    simp [h1, h2]
  | cons q ps =>
    obtain ⟨c0, x0⟩ := q
    have hh : c0 = h := c.hdN_eq (by simp)
    subst hh
    have h1 : hasSP g c0 FIRST = true := hasSP_iff.mpr ⟨x0, (c.cells.2.1 x0).2 rfl⟩
    simp only [h1, Bool.true_or, if_true]
    apply asListAux_cells _ _ c.cells
    have := c.length_le
    omega

end RV.C19
