import RV.C19.Model
namespace RV.C19
end RV.C19
