import RV.C19.Model
import RV.Base.Proto
/-
  C19 driver.  Terms are naturals owned by the harness (0 = rdf:first, 1 = rdf:rest, 2 = rdf:nil);
  blank nodes minted by the model come from 1000 upwards and never cross the protocol.
    reset h                    -> ok      (empty graph, head h)
    t s p o                    -> ok      (triple written directly into the graph)
    nop                        -> ok
    ctor x…                    -> ok | <error>     Collection(g, head, [x…])
    append x | iadd x… | set i x | del i | clear   -> ok | <error>
    len | iter | get i | index x | contains x      -> value | <error>
    foreign lo hi              -> ok      (subjects lo..hi are foreign: excluded from the footprint of `snap`)
    second h2                  -> L2=<list(Collection(g, h2))> N2=<len> F2=<the triples with a foreign subject>
    term k I|B|P cps           -> ok      (member k is the IRI / blank node / plain literal with these code points)
    term k T|G cps cps         -> ok      (typed literal lex + datatype IRI / language-tagged literal lex + tag)
    ext                        -> IT=<list(g.items(head))> N3=<c.n3() with member k written <k>>
    snap lo hi m…              -> L=<iter> N=<len> G=<c[lo]>;…;<c[hi]> I=<index m>;… C=<m in c>;… F=<status>,<#list triples> X=<other triples>
-/
open RV RV.C19 RV.Proto

structure D where
  s : St
  h : Term
  /-- subjects in this range are *foreign* (another collection's private cells, junk): left out of the footprint -/
  flo : Nat := 1
  fhi : Nat := 0
  /-- the rdflib terms of the members (harness-owned table), for the real text of `n3()` -/
  tbl : List (Nat × RTerm) := []

def D.term? (d : D) (k : Nat) : Option RTerm := (d.tbl.find? (fun e => e.1 == k)).map (·.2)

/-- a string crossing the protocol: code points joined by `,`, `-` for the empty string -/
def cps? (w : String) : Option (List Char) :=
  if w == "-" then some [] else (w.splitOn ",").mapM (fun x => x.toNat?.map Char.ofNat)

def D.isForeign (d : D) (t : Triple) : Bool := d.flo ≤ t.1 && t.1 ≤ d.fhi

def showErr : Err → String
  | .indexError => "IndexError"
  | .keyError => "KeyError"
  | .valueError => "ValueError"
  | .other => "Other"
  | .fuel => "Diverges"

def showList (xs : List Nat) : String := if xs.isEmpty then "-" else showNats xs

def showOut : Out → String
  | .unit => "ok"
  | .nat n => toString n
  | .term t => toString t
  | .list xs => showList xs
  | .bool b => if b then "T" else "F"
  | .err e => showErr e

def nats? : List String → Option (List Nat)
  | [] => some []
  | w :: ws => do let n ← w.toNat?; let ns ← nats? ws; pure (n :: ns)

/-- the independent footprint walker of the harness, mirrored (canonicalisation only; trusted) -/
def walk (g : Graph) : Nat → Term → List Term → String × List Term
  | 0, _, cells => ("cyclic", cells)
  | f + 1, cur, cells =>
    if cur = NIL then ("ok", cells)
    else if cur ∈ cells then ("cyclic", cells)
    else
      let fs := objects g cur FIRST
      let rs := objects g cur REST
      if fs.isEmpty && rs.isEmpty then ("dangling-rest", cells)
      else if fs.length ≠ 1 then (s!"cell-firsts={fs.length}", cells)
      else match rs with
        | [r] => walk g f r (cells ++ [cur])
        | _ => (s!"cell-rests={rs.length}", cells)

def footprint (g : Graph) (h : Term) : String :=
  let lt := g.filter (fun t => t.2.1 == FIRST || t.2.1 == REST)
  let (status, cells) :=
    if hasSP g h FIRST || hasSP g h REST then walk g (g.length + 2) h [] else ("ok", [])
  let orphans := (lt.filter (fun t => !(cells.contains t.1))).length
  let status := if status == "ok" && orphans > 0 then s!"orphans={orphans}" else status
  let extra := (g.filter (fun t => !(t.2.1 == FIRST || t.2.1 == REST))).map (fun t => [t.1, t.2.1, t.2.2])
  let xs := (sortBy lexLt extra).map (fun t => ".".intercalate (t.map toString))
  s!"F={status},{lt.length} X=" ++ (if xs.isEmpty then "-" else ";".intercalate xs)

def range (lo hi : Int) : List Int :=
  (List.range (hi - lo + 1).toNat).map (fun (k : Nat) => lo + Int.ofNat k)

def rd (d : D) (op : Op) : String := showOut (step d.h d.s op).2

def mutD (d : D) (op : Op) : D × String :=
  let r := step d.h d.s op
  ({ d with s := r.1 }, showOut r.2)

def stepD (d : D) : List String → D × String
  | ["reset", h] =>
    match h.toNat? with
    | some h => (⟨⟨[], 1000⟩, h, 1, 0, []⟩, "ok")
    | none => (d, "bad-op")
  | ["term", k, kind, a] =>
    match k.toNat?, cps? a with
    | some k, some a =>
      let t? : Option RTerm := if kind == "I" then some (.iri a) else if kind == "B" then some (.bnode a)
        else if kind == "P" then some (.lit a none none) else none
      match t? with
      | some t => ({ d with tbl := (k, t) :: d.tbl }, "ok")
      | none => (d, "bad-op")
    | _, _ => (d, "bad-op")
  | ["term", k, kind, a, b] =>
    match k.toNat?, cps? a, cps? b with
    | some k, some a, some b =>
      let t? : Option RTerm := if kind == "T" then some (.lit a (some b) none)
        else if kind == "G" then some (.lit a none (some b)) else none
      match t? with
      | some t => ({ d with tbl := (k, t) :: d.tbl }, "ok")
      | none => (d, "bad-op")
    | _, _, _ => (d, "bad-op")
  | ["foreign", lo, hi] =>
    match lo.toNat?, hi.toNat? with
    | some lo, some hi => ({ d with flo := lo, fhi := hi }, "ok")
    | _, _ => (d, "bad-op")
  | ["second", h2] =>
    -- another collection in the same graph, read through its own head; and the foreign triples
    match h2.toNat? with
    | some h2 =>
      let ft := (d.s.g.filter d.isForeign).map (fun t => [t.1, t.2.1, t.2.2])
      let xs := (sortBy lexLt ft).map (fun t => ".".intercalate (t.map toString))
      (d, s!"L2={showOut (step h2 d.s .iter).2} N2={showOut (step h2 d.s .len).2} " ++
            s!"G2={showOut (step h2 d.s (.getItem 0)).2};{showOut (step h2 d.s (.getItem (-1))).2} F2=" ++
            (if xs.isEmpty then "-" else ";".intercalate xs))
    | none => (d, "bad-op")
  | ["t", a, b, c] =>
    match a.toNat?, b.toNat?, c.toNat? with
    | some a, some b, some c => ({ d with s := { d.s with g := add d.s.g (a, b, c) } }, "ok")
    | _, _, _ => (d, "bad-op")
  | ["nop"] => (d, "ok")
  | "ctor" :: ws =>
    match nats? ws with
    | some xs =>
      match ctor d.s d.h xs with
      | .ok s => ({ d with s := s }, "ok")
      | .error e => (d, showErr e)
    | none => (d, "bad-op")
  | ["append", x] =>
    match x.toNat? with
    | some x => mutD d (.append x)
    | none => (d, "bad-op")
  | "iadd" :: ws =>
    match nats? ws with
    | some xs => mutD d (.extend xs)
    | none => (d, "bad-op")
  | ["set", i, x] =>
    match i.toInt?, x.toNat? with
    | some i, some x => mutD d (.setItem i x)
    | _, _ => (d, "bad-op")
  | ["del", i] =>
    match i.toInt? with
    | some i => mutD d (.delItem i)
    | none => (d, "bad-op")
  | ["clear"] => mutD d .clear
  | ["len"] => (d, rd d .len)
  | ["iter"] => (d, rd d .iter)
  | ["get", i] =>
    match i.toInt? with
    | some i => (d, rd d (.getItem i))
    | none => (d, "bad-op")
  | ["index", x] =>
    match x.toNat? with
    | some x => (d, rd d (.index x))
    | none => (d, "bad-op")
  | ["contains", x] =>
    match x.toNat? with
    | some x => (d, rd d (.contains x))
    | none => (d, "bad-op")
  | "snap" :: lo :: hi :: ws =>
    match lo.toInt?, hi.toInt?, nats? ws with
    | some lo, some hi, some ms =>
      let gs := (range lo hi).map (fun i => rd d (.getItem i))
      let is := ms.map (fun m => rd d (.index m))
      let cs := ms.map (fun m => rd d (.contains m))
      (d, s!"L={rd d .iter} N={rd d .len} G={";".intercalate gs} I={";".intercalate is} C={";".intercalate cs} "
            ++ footprint (d.s.g.filter (fun t => !d.isForeign t)) d.h)
    | _, _, _ => (d, "bad-op")
  | ["ext"] =>
    -- Graph.items(head) called directly, and Collection.n3() with member k written `<k>`
    let tok := fun k => match d.term? k with
      | some t => tokR t
      | none => ('<' :: (toString k).toList) ++ ['>']
    let t := match n3 tok d.s.g d.h with
      | .ok cs => String.ofList cs
      | .error e => showErr e
    -- the model's own reader on the model's text: must give back the members' terms
    let rb := match iter d.s.g d.h, n3 tok d.s.g d.h with
      | .ok xs, .ok cs =>
        match xs.mapM d.term? with
        | some ts => if readN3 lexR cs == some ts then "ok" else "FAIL"
        | none => "ok"
      | _, _ => "ok"
    (d, s!"IT={rd d .iter} RB={rb} N3={t}")
  | _ => (d, "bad-op")

def main : IO Unit := RV.Proto.run stepD (⟨⟨[], 1000⟩, 100, 1, 0, []⟩ : D)
