import RV.C19.Lemmas
namespace RV.C19
theorem placeholder : True := trivial
end RV.C19
