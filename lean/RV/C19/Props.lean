import RV.C19.LemmasOps
import RV.C19.LemmasTotal
import RV.C19.LemmasG
import RV.C19.LemmasN3
import RV.C19.LemmasSep4
/-
  C19 — "An RDF Collection behaves like the Python list it represents."

  Statements first (`def Statement_… : Prop`), then the theorems.

  * `WF s h` — the graph of state `s` holds a well-formed chain for the collection named `h`:
    a simple rdf:first/rdf:rest chain from `h` to rdf:nil, every cell with exactly one rdf:first
    and exactly one rdf:rest, and no other node carrying rdf:first/rdf:rest triples (no orphaned
    cells); the empty collection is `h` without list triples (`Chain`, Lemmas.lean).  `WF` also
    carries the two representation assumptions: the triple list has no duplicates (it is a set)
    and the blank-node supply is beyond every subject of the graph (`BNode()` is fresh).
  * `asList g h` — the abstraction function (strict walk, Model.lean).
  * `specStep` — the specification: what a Python list does.
-/
namespace RV.C19

/-! ### Specification: a Python list -/

/-- Python's index rule: `-n ≤ i < n` denotes a position, anything else is an IndexError -/
def pyIndex (n : Nat) (i : Int) : Option Nat :=
  if 0 ≤ i then (if i < n then some i.toNat else none)
  else if 0 ≤ i + n then some (i + n).toNat else none

def specStep (xs : List Term) : Op → List Term × Out
  | .append x => (xs ++ [x], .unit)
  | .extend ys => (xs ++ ys, .unit)
  | .setItem i x =>
    match pyIndex xs.length i with
    | some k => (xs.set k x, .unit)
    | none => (xs, .err .indexError)
  | .delItem i =>
    match pyIndex xs.length i with
    | some k => (xs.eraseIdx k, .unit)
    | none => (xs, .err .indexError)
  | .clear => ([], .unit)
  | .len => (xs, .nat xs.length)
  | .iter => (xs, .list xs)
  | .getItem i =>
    match pyIndex xs.length i with
    | some k =>
      match xs[k]? with
      | some v => (xs, .term v)
      | none => (xs, .err .indexError)
    | none => (xs, .err .indexError)
  | .index x => (xs, if x ∈ xs then .nat (xs.idxOf x) else .err .valueError)
  | .contains x => (xs, .bool (decide (x ∈ xs)))

def specRun : List Term → List Op → List Term × List Out
  | xs, [] => (xs, [])
  | xs, op :: ops => ((specRun (specStep xs op).1 ops).1, (specStep xs op).2 :: (specRun (specStep xs op).1 ops).2)

/-- Results agree when they are equal; the one tolerated difference is the *class* of the exception
    for `index()` of a missing item, which the property does not fix (it only fixes IndexError):
    on an empty collection rdflib raises `Exception("Malformed RDF Collection")`, a list ValueError. -/
def Out.agrees (model spec : Out) : Prop :=
  model = spec ∨ (spec = .err .valueError ∧ model = .err .other)

/-- pointwise agreement of two answer sequences (same length) -/
def agreeAll : List Out → List Out → Prop
  | [], [] => True
  | a :: as, b :: bs => a.agrees b ∧ agreeAll as bs
  | _, _ => False

def WF (s : St) (h : Term) : Prop := ∃ ps, Inv s h ps

/-- `c[len(c)] = x`: the one operation rdflib does not treat like a list (known finding C19-K1) -/
def isSetAtLen (n : Nat) : Op → Bool
  | .setItem i _ => i == (n : Int)
  | _ => false

/-- no operation of the history is `c[len(c)] = x` at the moment it is executed -/
def okHist : List Term → List Op → Bool
  | _, [] => true
  | xs, op :: ops => !isSetAtLen xs.length op && okHist (specStep xs op).1 ops

def isRead : Op → Bool
  | .len | .iter | .getItem _ | .index _ | .contains _ => true
  | _ => false

/-! ### Statements -/

/-- One step: from a well-formed chain denoting `xs`, every operation answers what the list answers
    (same value, IndexError exactly where the list raises it), leaves a well-formed chain, and that
    chain denotes the list after the operation. -/
def Statement_coll_refines : Prop :=
  ∀ (s : St) (h : Term) (xs : List Term) (op : Op), WF s h → asList s.g h = .ok xs →
    ((step h s op).2).agrees (specStep xs op).2 ∧ WF (step h s op).1 h ∧
      asList (step h s op).1.g h = .ok (specStep xs op).1

/-- Every history: all answers agree with the list's, and the chain stays well-formed. -/
def Statement_history_refines : Prop :=
  ∀ (ops : List Op) (s : St) (h : Term) (xs : List Term), WF s h → asList s.g h = .ok xs →
    agreeAll (run h s ops).2 (specRun xs ops).2 ∧ WF (run h s ops).1 h ∧
      asList (run h s ops).1.g h = .ok (specRun xs ops).1

/-- Reads on ANY graph — cyclic, broken, several rdf:rest — return or raise: the fuel `|g| + 2`
    of the model's walks is never exhausted, and they leave the state alone. -/
def Statement_reads_total_on_broken : Prop :=
  ∀ (s : St) (h : Term) (op : Op), isRead op = true →
    (step h s op).2 ≠ .err .fuel ∧ (step h s op).1 = s

/-- On a chain whose rdf:rest walk never ends (a cycle), the full traversals raise ValueError. -/
def Statement_cyclic_reads_raise : Prop :=
  ∀ (s : St) (h : Term), Endless s.g h →
    (step h s .len).2 = .err .valueError ∧ (step h s .iter).2 = .err .valueError ∧
      ∀ x, x ∉ (items s.g h).1 → (step h s (.contains x)).2 = .err .valueError

/-- Statements that are not rdf:first/rdf:rest triples are never added by a Collection operation,
    and one is removed only together with a discarded cell (its subject is not the head and carried
    an rdf:first): whatever else the graph says, about the head or about anything else, is untouched. -/
def Statement_coll_frame : Prop :=
  ∀ (s : St) (h : Term) (xs : List Term) (op : Op), WF s h → asList s.g h = .ok xs →
    Frame s.g (step h s op).1.g h

/-! ### Glue between the code's index normalisation and Python's rule -/

theorem pyIndex_some {n : Nat} {i : Int} {k : Nat} (h : pyIndex n i = some k) :
    normK n i = some k ∧ k < n := by
  unfold pyIndex at h
  unfold normK
  split at h
  · split at h
    · cases h
      rw [if_neg (by omega)]
      exact ⟨rfl, by omega⟩
    · cases h
  · split at h
    · cases h
      rw [if_pos (by omega), if_neg (by omega)]
      exact ⟨rfl, by omega⟩
    · cases h

theorem pyIndex_none {n : Nat} {i : Int} (h : pyIndex n i = none) :
    ∀ k, normK n i = some k → n ≤ k ∧ (k = n → i = n) := by
  unfold pyIndex at h
  unfold normK
  intro k hk
  split at h
  · split at h
    · cases h
    · rw [if_neg (by omega)] at hk
      cases hk
      exact ⟨by omega, by omega⟩
  · split at h
    · cases h
    · rw [if_pos (by omega), if_pos (by omega)] at hk
      cases hk

theorem asList_of_inv {s : St} {h : Term} {ps : List Cell} {xs : List Term} (inv : Inv s h ps)
    (ha : asList s.g h = .ok xs) : ps.map Prod.snd = xs := by
  rw [inv.chain.asList] at ha
  exact Except.ok.inj ha

/-! ### Proofs -/

theorem step_refines_frame :
    ∀ (s : St) (h : Term) (xs : List Term) (op : Op), WF s h → asList s.g h = .ok xs →
      isSetAtLen xs.length op = false →
      ((step h s op).2).agrees (specStep xs op).2 ∧ WF (step h s op).1 h ∧
        asList (step h s op).1.g h = .ok (specStep xs op).1 ∧ Frame s.g (step h s op).1.g h := by
  intro s h xs op ⟨ps, inv⟩ ha hok
  have hxs := asList_of_inv inv ha
  subst hxs
  simp only [List.length_map] at hok
  cases op with
  | append x =>
    obtain ⟨s', ps', h1, h2, hf, inv'⟩ := inv.append x
    simp only [step, h1, stOf, specStep]
    exact ⟨Or.inl rfl, ⟨ps', inv'⟩, by rw [inv'.chain.asList, h2], hf⟩
  | extend ys =>
    obtain ⟨s', ps', h1, h2, hf, inv'⟩ := inv.iadd ys
    simp only [step, h1, stOf, specStep]
    exact ⟨Or.inl rfl, ⟨ps', inv'⟩, by rw [inv'.chain.asList, h2], hf⟩
  | setItem i x =>
    simp only [step, specStep, List.length_map]
    cases hp : pyIndex ps.length i with
    | some k =>
      obtain ⟨hk, hlt⟩ := pyIndex_some hp
      obtain ⟨g', ps', h1, h2, hf, inv'⟩ := inv.setItem_ok x hk hlt
      simp only [h1, gOf]
      exact ⟨Or.inl rfl, ⟨ps', inv'⟩, by rw [inv'.chain.asList, h2], hf⟩
    | none =>
      have hne : i ≠ (ps.length : Int) := by
        simpa [isSetAtLen] using hok
      have h1 := inv.setItem_err (key := i) x (by
        intro k hk
        have := pyIndex_none hp k hk
        rcases Nat.lt_or_ge ps.length k with h | h
        · exact h
        · exact absurd (this.2 (by omega)) hne)
      simp only [h1, gOf]
      exact ⟨Or.inl rfl, ⟨ps, inv⟩, ha, frame_refl _ _⟩
  | delItem i =>
    simp only [step, specStep, List.length_map]
    cases hp : pyIndex ps.length i with
    | some k =>
      obtain ⟨hk, hlt⟩ := pyIndex_some hp
      have hres : ∃ g' ps', delItem s.g h i = .ok g' ∧ ps'.map Prod.snd = (ps.map Prod.snd).eraseIdx k ∧
          Frame s.g g' h ∧ Inv ⟨g', s.fresh⟩ h ps' := by
        cases k with
        | zero => exact inv.delItem_head hk hlt
        | succ j => exact inv.delItem_inner hk hlt
      obtain ⟨g', ps', h1, h2, hf, inv'⟩ := hres
      simp only [h1, gOf]
      exact ⟨Or.inl rfl, ⟨ps', inv'⟩, by rw [inv'.chain.asList, h2], hf⟩
    | none =>
      have h1 := inv.delItem_err (key := i) (fun k hk => (pyIndex_none hp k hk).1)
      simp only [h1, gOf]
      exact ⟨Or.inl rfl, ⟨ps, inv⟩, ha, frame_refl _ _⟩
  | clear =>
    obtain ⟨g', h1, inv', h2⟩ := inv.clear
    simp only [step, h1, gOf, specStep]
    exact ⟨Or.inl rfl, ⟨[], inv'⟩, by rw [inv'.chain.asList]; rfl,
      frame_of_iff (fun t hn => by rw [h2]; exact ⟨fun hm => hm.1, fun hm => ⟨hm, hn⟩⟩)⟩
  | len =>
    simp only [step, specStep, inv.chain.len, outOf, List.length_map]
    exact ⟨Or.inl rfl, ⟨ps, inv⟩, ha, frame_refl _ _⟩
  | iter =>
    simp only [step, specStep, inv.chain.iter, outOf]
    exact ⟨Or.inl rfl, ⟨ps, inv⟩, ha, frame_refl _ _⟩
  | getItem i =>
    simp only [step, specStep, inv.chain.getItem, List.length_map]
    cases hp : pyIndex ps.length i with
    | some k =>
      obtain ⟨hk, hlt⟩ := pyIndex_some hp
      simp only [hk, List.getElem?_map]
      cases hq : ps[k]? with
      | none => exact ⟨Or.inl rfl, ⟨ps, inv⟩, ha, frame_refl _ _⟩
      | some q => exact ⟨Or.inl rfl, ⟨ps, inv⟩, ha, frame_refl _ _⟩
    | none =>
      refine ⟨?_, ⟨ps, inv⟩, ha, frame_refl _ _⟩
      cases hn : normK ps.length i with
      | none => exact Or.inl rfl
      | some k =>
        have := (pyIndex_none hp k hn).1
        simp only [List.getElem?_eq_none this]
        exact Or.inl rfl
  | index x =>
    simp only [step, specStep, inv.chain.index inv.nodup]
    refine ⟨?_, ⟨ps, inv⟩, ha, frame_refl _ _⟩
    by_cases hx : x ∈ ps.map Prod.snd
    · simp only [hx, if_true, outOf]
      exact Or.inl rfl
    · simp only [hx, if_false, outOf]
      by_cases hps : ps = []
      · exact Or.inr ⟨rfl, by simp [hps]⟩
      · exact Or.inl (by simp [hps])
  | contains x =>
    simp only [step, specStep, inv.chain.contains, outOf]
    exact ⟨Or.inl rfl, ⟨ps, inv⟩, ha, frame_refl _ _⟩

theorem coll_refines_partial :
    ∀ (s : St) (h : Term) (xs : List Term) (op : Op), WF s h → asList s.g h = .ok xs →
      isSetAtLen xs.length op = false →
      ((step h s op).2).agrees (specStep xs op).2 ∧ WF (step h s op).1 h ∧
        asList (step h s op).1.g h = .ok (specStep xs op).1 := by
  intro s h xs op wf ha hok
  obtain ⟨h1, h2, h3, _⟩ := step_refines_frame s h xs op wf ha hok
  exact ⟨h1, h2, h3⟩

theorem coll_frame : Statement_coll_frame := by
  intro s h xs op wf ha
  cases op with
  | setItem i x =>
    -- also for the unrepaired `c[len(c)] = x`: whatever cell is found, only its rdf:first is replaced
    simp only [step]
    unfold setItem
    cases hn : normIdx s.g h i with
    | error e => exact frame_refl _ _
    | ok k =>
      cases hc : getContainer s.g (some h) k with
      | none => simp only [hc, gOf]; exact frame_refl _ _
      | some c => simp only [hc, gOf]; exact frame_of_iff (fun t hn => nonlist_gset hn (Or.inl rfl))
  | append x => exact (step_refines_frame s h xs _ wf ha rfl).2.2.2
  | extend ys => exact (step_refines_frame s h xs _ wf ha rfl).2.2.2
  | delItem i => exact (step_refines_frame s h xs _ wf ha rfl).2.2.2
  | clear => exact (step_refines_frame s h xs _ wf ha rfl).2.2.2
  | len => exact (step_refines_frame s h xs _ wf ha rfl).2.2.2
  | iter => exact (step_refines_frame s h xs _ wf ha rfl).2.2.2
  | getItem i => exact (step_refines_frame s h xs _ wf ha rfl).2.2.2
  | index x => exact (step_refines_frame s h xs _ wf ha rfl).2.2.2
  | contains x => exact (step_refines_frame s h xs _ wf ha rfl).2.2.2

theorem history_refines_partial :
    ∀ (ops : List Op) (s : St) (h : Term) (xs : List Term), WF s h → asList s.g h = .ok xs →
      okHist xs ops = true →
      agreeAll (run h s ops).2 (specRun xs ops).2 ∧ WF (run h s ops).1 h ∧
        asList (run h s ops).1.g h = .ok (specRun xs ops).1 := by
  intro ops
  induction ops with
  | nil => intro s h xs wf ha _; exact ⟨trivial, wf, ha⟩
  | cons op ops ih =>
    intro s h xs wf ha hok
    simp only [okHist, Bool.and_eq_true, Bool.not_eq_eq_eq_not, Bool.not_true] at hok
    obtain ⟨h1, h2, h3⟩ := coll_refines_partial s h xs op wf ha hok.1
    obtain ⟨h4, h5, h6⟩ := ih _ h _ h2 h3 hok.2
    exact ⟨⟨h1, h4⟩, h5, h6⟩

theorem reads_total_on_broken : Statement_reads_total_on_broken := by
  intro s h op hr
  cases op with
  | len =>
    refine ⟨?_, rfl⟩
    simp only [step]
    have := len_no_fuel s.g h
    cases hl : len s.g h with
    | ok n => simp [outOf]
    | error e => rw [hl] at this; simpa [outOf] using this
  | iter =>
    refine ⟨?_, rfl⟩
    simp only [step]
    have := iter_no_fuel s.g h
    cases hl : iter s.g h with
    | ok n => simp [outOf]
    | error e => rw [hl] at this; simpa [outOf] using this
  | getItem i =>
    refine ⟨?_, rfl⟩
    simp only [step]
    have := getItem_no_fuel s.g h i
    cases hl : getItem s.g h i with
    | ok n => simp [outOf]
    | error e => rw [hl] at this; simpa [outOf] using this
  | index x =>
    refine ⟨?_, rfl⟩
    simp only [step]
    have := index_no_fuel s.g h x
    cases hl : index s.g h x with
    | ok n => simp [outOf]
    | error e => rw [hl] at this; simpa [outOf] using this
  | contains x =>
    refine ⟨?_, rfl⟩
    simp only [step]
    have := contains_no_fuel s.g h x
    cases hl : contains s.g h x with
    | ok n => simp [outOf]
    | error e => rw [hl] at this; simpa [outOf] using this
  | append _ => simp [isRead] at hr
  | extend _ => simp [isRead] at hr
  | setItem _ _ => simp [isRead] at hr
  | delItem _ => simp [isRead] at hr
  | clear => simp [isRead] at hr

theorem cyclic_reads_raise : Statement_cyclic_reads_raise := by
  intro s h he
  have hi := items_endless he
  refine ⟨?_, ?_, ?_⟩
  · simp [step, len, hi, outOf]
  · simp [step, iter, hi, outOf]
  · intro x hx
    simp [step, contains, hi, hx, outOf]

/-- `Collection(graph, head, seq)` on a well-formed chain extends it by `seq` (`if seq: self += seq`) -/
theorem ctor_refines :
    ∀ (s : St) (h : Term) (ys xs : List Term), WF s h → asList s.g h = .ok ys →
      ∃ s', ctor s h xs = .ok s' ∧ WF s' h ∧ asList s'.g h = .ok (ys ++ xs) := by
  intro s h ys xs ⟨ps, inv⟩ ha
  have hxs := asList_of_inv inv ha
  subst hxs
  cases xs with
  | nil => exact ⟨s, rfl, ⟨ps, inv⟩, by simpa using ha⟩
  | cons x xs =>
    obtain ⟨s', ps', h1, h2, _, inv'⟩ := inv.iadd (x :: xs)
    exact ⟨s', h1, ⟨ps', inv'⟩, by rw [inv'.chain.asList, h2]⟩

/-- `c += c`: `__iadd__` reads its operand into a list before it opens the chain (fix C19-F7), so the
    operand is the list the chain denotes at that moment, and the collection doubles like a list. -/
theorem extend_self_refines :
    ∀ (s : St) (h : Term) (xs : List Term), WF s h → asList s.g h = .ok xs →
      (step h s (.extend xs)).2 = .unit ∧ WF (step h s (.extend xs)).1 h ∧
        asList (step h s (.extend xs)).1.g h = .ok (xs ++ xs) := by
  intro s h xs wf ha
  obtain ⟨h1, h2, h3⟩ := coll_refines_partial s h xs (.extend xs) wf ha rfl
  refine ⟨?_, h2, h3⟩
  rcases h1 with h1 | ⟨h1, _⟩
  · exact h1
  · simp [specStep] at h1

/-! ### The pinned `__setitem__` falsifies the full statements (known finding C19-K1) -/

def exG1 : Graph := [(100, FIRST, 10), (100, REST, NIL)]

theorem exG1_inv : Inv ⟨exG1, 1000⟩ 100 [(100, 10)] := by
  refine ⟨⟨fun _ => rfl, by decide, by simp, ⟨by decide, ?_, ?_, trivial⟩, ?_⟩, by decide, by decide, by decide, ?_⟩
  · intro o; simp [exG1, FIRST, REST]
  · intro o; simp [exG1, FIRST, REST, NIL, hd, eq_comm]
  · intro s p o hm _
    simp [exG1] at hm
    rcases hm with ⟨e, _⟩ | ⟨e, _⟩ <;> simp [e]
  · intro t ht
    simp [exG1] at ht
    rcases ht with e | e <;> simp [e]

/-- `c[1] = 11` on the one-item list `[10]`: the list raises IndexError, the model (= the code) accepts -/
theorem coll_refines_witness : ¬ Statement_coll_refines := by
  intro H
  have := (H ⟨exG1, 1000⟩ 100 [10] (.setItem 1 11) ⟨_, exG1_inv⟩ rfl).1
  revert this
  unfold Out.agrees
  decide

theorem history_refines_witness : ¬ Statement_history_refines := by
  intro H
  have := (H [.setItem 1 11] ⟨exG1, 1000⟩ 100 [10] ⟨_, exG1_inv⟩ rfl).1
  have h2 : (run 100 ⟨exG1, 1000⟩ [.setItem 1 11]).2 = [.unit] := by decide
  have h3 : (specRun [10] [.setItem 1 11]).2 = [.err .indexError] := by decide
  rw [h2, h3] at this
  have h := this.1
  revert h
  unfold Out.agrees
  decide

/-! ### Round g (d): exactly where `__setitem__` deviates from the list (C19-K1 characterised) -/

/-- `c[i] = x` answers what the list answers for every integer index except exactly `i = len(c)`. -/
def Statement_setitem_deviates_iff : Prop :=
  ∀ (s : St) (h : Term) (xs : List Term) (i : Int) (x : Term), WF s h → asList s.g h = .ok xs →
    (((step h s (.setItem i x)).2).agrees (specStep xs (.setItem i x)).2 ↔ i ≠ (xs.length : Int))

/-- What `c[len(c)] = x` does instead of raising: it is accepted, writes the single triple
    `(rdf:nil | the empty head) rdf:first x`, from then on the collection *reads* as `xs ++ [x]`
    (`Graph.items` walks through rdf:nil), and the graph no longer holds a well-formed chain. -/
def Statement_setitem_at_len_effect : Prop :=
  ∀ (s : St) (h : Term) (xs : List Term) (x : Term), WF s h → asList s.g h = .ok xs →
    (step h s (.setItem (xs.length : Int) x)).2 = .unit ∧
      (step h s (.setItem (xs.length : Int) x)).1.g = gset s.g (if xs = [] then h else NIL) FIRST x ∧
      iter (step h s (.setItem (xs.length : Int) x)).1.g h = .ok (xs ++ [x]) ∧
      ¬ WF (step h s (.setItem (xs.length : Int) x)).1 h

theorem setitem_at_len_effect : Statement_setitem_at_len_effect := by
  intro s h xs x ⟨ps, inv⟩ ha
  have hxs := asList_of_inv inv ha
  subst hxs
  obtain ⟨h1, h2, h3⟩ := inv.setItem_at_len x
  have hc : cellAtLen h ps = if ps.map Prod.snd = [] then h else NIL := by
    unfold cellAtLen
    cases ps <;> simp
  simp only [List.length_map, step, h1, gOf]
  refine ⟨trivial, by rw [hc], h2, ?_⟩
  rintro ⟨ps', inv'⟩
  exact h3 ⟨ps', inv'.chain⟩

theorem setitem_deviates_iff : Statement_setitem_deviates_iff := by
  intro s h xs i x wf ha
  constructor
  · intro hag e
    subst e
    have h1 := (setitem_at_len_effect s h xs x wf ha).1
    rw [h1] at hag
    have hp : pyIndex xs.length (xs.length : Int) = none := by
      unfold pyIndex
      rw [if_pos (by omega), if_neg (by omega)]
    simp only [specStep, hp] at hag
    rcases hag with hag | ⟨hag, _⟩ <;> cases hag
  · intro hne
    exact (coll_refines_partial s h xs (.setItem i x) wf ha (by simpa [isSetAtLen] using hne)).1

/-- non-vacuity / concrete instance: `c[1] = 11` on `[10]` reads as `[10, 11]` afterwards -/
example : iter (step 100 ⟨exG1, 1000⟩ (.setItem 1 11)).1.g 100 = .ok [10, 11] := rfl

/-! ### Round g (b): the text of `Collection.n3()` means the list -/

/-- On a well-formed chain denoting `xs`, `c.n3()` is the text `"( " + " ".join(member texts) + " )"` of
    exactly the members of `xs` in order, and a reader of N3 list syntax (`readN3`: skip blanks, stop at
    `)`, otherwise lex one term) gets `xs` back from it — for every term-level codec `tok`/`lex` that is
    self-delimiting in front of a blank (`LexOK`; the members' own `n3()` is not part of this property).
    On a cyclic chain `n3()` raises ValueError like the iteration it is built on. -/
def Statement_n3_means_list : Prop :=
  ∀ (tok : Term → List Char) (lex : List Char → Option (Term × List Char)), LexOK tok lex →
    (∀ (s : St) (h : Term) (xs : List Term), WF s h → asList s.g h = .ok xs →
      n3 tok s.g h = .ok (n3Text tok xs) ∧ readN3 lex (n3Text tok xs) = some xs) ∧
    (∀ (g : Graph) (h : Term), Endless g h → n3 tok g h = .error .valueError)

theorem n3_means_list : Statement_n3_means_list := by
  intro tok lex ok
  refine ⟨?_, ?_⟩
  · intro s h xs ⟨ps, inv⟩ ha
    have hxs := asList_of_inv inv ha
    subst hxs
    exact ⟨by simp only [n3, inv.chain.iter], readN3_n3Text ok _⟩
  · intro g h he
    simp [n3, iter, items_endless he]

/-- non-vacuity: the unary codec is self-delimiting; `( aaa a aaa )` reads back as `[2, 0, 2]`, `(  )` as `[]` -/
example : LexOK tokU lexU := lexOK_unary
example : n3Text tokU [2, 0, 2] = "( aaa a aaa )".toList := by decide
example : readN3 lexU "( aaa a aaa )".toList = some [2, 0, 2] := by decide
example : n3Text tokU [] = "(  )".toList ∧ readN3 lexU "(  )".toList = some [] := by decide

/-! ### Non-vacuity: a three-item list with a duplicate and a falsy member (12 = `Literal(0)`) -/

def exEmpty : St := ⟨[(7, 5, 100)], 1000⟩

theorem exEmpty_wf : WF exEmpty 100 := by
  refine ⟨[], ⟨fun hne => absurd rfl hne, by decide, by simp, trivial, ?_⟩, by decide, by decide, by decide, ?_⟩
  · intro s p o hm hp
    simp [exEmpty] at hm
    rcases hp with e | e <;> simp [hm.2.1, FIRST, REST] at e
  · intro t ht
    simp [exEmpty] at ht
    simp [ht, exEmpty]

def exOps : List Op :=
  [.extend [12, 10, 12], .getItem 0, .getItem (-1), .index 12, .delItem 0, .setItem (-1) 13, .append 12, .delItem 1,
   .iter, .getItem 2, .delItem (-1), .delItem 0, .len, .index 10, .clear, .index 10]

example : asList exEmpty.g 100 = .ok [] := rfl
example : okHist [] exOps = true := by decide
example : asList (run 100 exEmpty [.extend [12, 10, 12]]).1.g 100 = .ok [12, 10, 12] := rfl
example : (run 100 exEmpty exOps).2 =
    [.unit, .term 12, .term 12, .nat 0, .unit, .unit, .unit, .unit, .list [10, 12], .err .indexError, .unit, .unit,
     .nat 0, .err .other, .unit, .err .other] := by decide
example : (specRun [] exOps).2 =
    [.unit, .term 12, .term 12, .nat 0, .unit, .unit, .unit, .unit, .list [10, 12], .err .indexError, .unit, .unit,
     .nat 0, .err .valueError, .unit, .err .valueError] := by decide
/-- the unrelated triple is still there, and nothing else -/
example : (run 100 exEmpty exOps).1.g = [(7, 5, 100)] := by decide

/-! ### Round g (c): separation — a Collection among other lists in the same graph -/

/-- `F` marks *foreign* subjects: anything the collection `h` does not own — the cells of other collections,
    the private prefix of a collection sharing its tail with `h`, malformed list triples, … — provided the
    head, rdf:nil and the blank nodes still to be minted are not foreign and the part of the graph outside
    `F` (`own F g`) holds a well-formed chain for `h` (so that `WF` only has to hold for that part: the graph
    as a whole may contain any number of other lists).
    Then every operation on the whole graph answers exactly what it answers on the own part, changes the own
    part exactly as it does there, mints the same blank nodes, and leaves every foreign triple untouched. -/
def Statement_coll_separation : Prop :=
  ∀ (F : Term → Bool) (s : St) (h : Term) (op : Op),
    F h = false → F NIL = false → (∀ n, s.fresh ≤ n → F n = false) → WF ⟨own F s.g, s.fresh⟩ h →
    (step h s op).2 = (step h ⟨own F s.g, s.fresh⟩ op).2 ∧
      own F (step h s op).1.g = (step h ⟨own F s.g, s.fresh⟩ op).1.g ∧
      (step h s op).1.fresh = (step h ⟨own F s.g, s.fresh⟩ op).1.fresh ∧
      foreign F (step h s op).1.g = foreign F s.g

theorem coll_separation : Statement_coll_separation := by
  intro F s h op hh hn hfr ⟨ps, inv⟩
  exact step_sep op hh hn hfr inv

/-- Every history on a graph that also holds foreign list structure: all answers are the list's, the own part
    stays a well-formed chain denoting the list, and no foreign triple is ever added, removed or reordered. -/
def Statement_history_separation : Prop :=
  ∀ (ops : List Op) (F : Term → Bool) (s : St) (h : Term) (xs : List Term),
    F h = false → F NIL = false → (∀ n, s.fresh ≤ n → F n = false) →
    WF ⟨own F s.g, s.fresh⟩ h → asList (own F s.g) h = .ok xs →
    agreeAll (run h s ops).2 (specRun xs ops).2 ∧
      WF ⟨own F (run h s ops).1.g, (run h s ops).1.fresh⟩ h ∧
      asList (own F (run h s ops).1.g) h = .ok (specRun xs ops).1 ∧
      foreign F (run h s ops).1.g = foreign F s.g

/-- proved for the histories without `c[len(c)] = x` (C19-K1), like `history_refines_partial` -/
theorem history_separation_partial :
    ∀ (ops : List Op) (F : Term → Bool) (s : St) (h : Term) (xs : List Term),
      F h = false → F NIL = false → (∀ n, s.fresh ≤ n → F n = false) →
      WF ⟨own F s.g, s.fresh⟩ h → asList (own F s.g) h = .ok xs → okHist xs ops = true →
      agreeAll (run h s ops).2 (specRun xs ops).2 ∧
        WF ⟨own F (run h s ops).1.g, (run h s ops).1.fresh⟩ h ∧
        asList (own F (run h s ops).1.g) h = .ok (specRun xs ops).1 ∧
        foreign F (run h s ops).1.g = foreign F s.g := by
  intro ops
  induction ops with
  | nil => intro F s h xs _ _ _ wf ha _; exact ⟨trivial, wf, ha, rfl⟩
  | cons op ops ih =>
    intro F s h xs hh hn hfr wf ha hok
    simp only [okHist, Bool.and_eq_true, Bool.not_eq_eq_eq_not, Bool.not_true] at hok
    obtain ⟨e1, e2, e3, e4⟩ := coll_separation F s h op hh hn hfr wf
    obtain ⟨h1, h2, h3⟩ := coll_refines_partial ⟨own F s.g, s.fresh⟩ h xs op wf ha hok.1
    have hst : (step h ⟨own F s.g, s.fresh⟩ op).1 = ⟨own F (step h s op).1.g, (step h s op).1.fresh⟩ := by
      rw [e2, e3]
    rw [hst] at h2 h3
    have hfr' : ∀ n, (step h s op).1.fresh ≤ n → F n = false :=
      fun n hle => hfr n (Nat.le_trans (step_fresh_le h s op) hle)
    obtain ⟨h4, h5, h6, h7⟩ := ih F (step h s op).1 h _ hh hn hfr' h2 h3 hok.2
    refine ⟨⟨?_, h4⟩, h5, h6, h7.trans e4⟩
    show ((step h s op).2).agrees _
    rw [e1]
    exact h1

theorem history_separation_witness : ¬ Statement_history_separation := by
  intro H
  have := (H [.setItem 1 11] (fun _ => false) ⟨exG1, 1000⟩ 100 [10] rfl rfl (fun _ _ => rfl)
    ⟨_, exG1_inv⟩ rfl).1
  have h2 : (run 100 ⟨exG1, 1000⟩ [.setItem 1 11]).2 = [.unit] := by decide
  have h3 : (specRun [10] [.setItem 1 11]).2 = [.err .indexError] := by decide
  rw [h2, h3] at this
  have h := this.1
  revert h
  unfold Out.agrees
  decide

/-! #### two collections sharing a tail: `c1 = [10, 11, 12]` on cells 100 → 1000 → 1001, and
    `c2 = [20, 11, 12]` whose private prefix is the one cell 200, linked to `c1`'s second cell -/

def exShared : St :=
  ⟨(run 100 exEmpty [.extend [10, 11, 12]]).1.g ++ [(200, FIRST, 20), (200, REST, 1000)], 1002⟩

def exF : Term → Bool := fun t => t == 200

theorem exShared_own_wf : WF ⟨own exF exShared.g, exShared.fresh⟩ 100 ∧
    asList (own exF exShared.g) 100 = .ok [10, 11, 12] := by
  have h := history_refines_partial [.extend [10, 11, 12]] exEmpty 100 [] exEmpty_wf rfl rfl
  have e : (⟨own exF exShared.g, exShared.fresh⟩ : St) = (run 100 exEmpty [.extend [10, 11, 12]]).1 := rfl
  rw [e]
  exact ⟨h.2.1, h.2.2⟩

/-- both read as lists; the frame theorem applies to every operation through `c1` (non-vacuity of
    `coll_separation` with a foreign part that is a list prefix hanging on `c1`'s chain) -/
example : iter exShared.g 100 = .ok [10, 11, 12] ∧ iter exShared.g 200 = .ok [20, 11, 12] := ⟨rfl, rfl⟩
example : ∀ op, foreign exF (step 100 exShared op).1.g = [(200, FIRST, 20), (200, REST, 1000)] := fun op =>
  (coll_separation exF exShared 100 op rfl rfl
    (fun n hn => by
      have hn' : 1002 ≤ n := hn
      show (n == 200) = false
      exact beq_eq_false_iff_ne.mpr (fun e => by rw [e] at hn'; exact absurd hn' (by decide)))
    exShared_own_wf.1).2.2.2

/-- Two collections sharing a tail are NOT two independent Python lists: although the private prefix of
    `c2` is untouched (frame), what `c2` denotes follows the shared cells — and deleting the shared cell
    through `c1` cuts `c2` short without any error. -/
def Statement_shared_tail_independent : Prop :=
  ∀ (F : Term → Bool) (s : St) (h h2 : Term) (op : Op),
    F h = false → F NIL = false → (∀ n, s.fresh ≤ n → F n = false) → WF ⟨own F s.g, s.fresh⟩ h →
    F h2 = true → iter (step h s op).1.g h2 = iter s.g h2

theorem shared_tail_witness : ¬ Statement_shared_tail_independent := by
  intro H
  have := H exF exShared 100 200 (.delItem 1) rfl rfl
    (fun n hn => by
      have hn' : 1002 ≤ n := hn
      show (n == 200) = false
      exact beq_eq_false_iff_ne.mpr (fun e => by rw [e] at hn'; exact absurd hn' (by decide)))
    exShared_own_wf.1 rfl
  have h1 : iter (step 100 exShared (.delItem 1)).1.g 200 = .ok [20] := rfl
  have h2 : iter exShared.g 200 = .ok [20, 11, 12] := rfl
  rw [h1, h2] at this
  simp at this

/-- what the shared list reads after writes through `c1`: an append and an item assignment beyond the shared
    cell are seen through `c2` (as with shared cons cells), deleting the shared cell truncates `c2` -/
example : iter (step 100 exShared (.append 13)).1.g 200 = .ok [20, 11, 12, 13] := rfl
example : iter (step 100 exShared (.setItem 2 14)).1.g 200 = .ok [20, 11, 14] := rfl
example : iter (step 100 exShared (.setItem 0 14)).1.g 200 = .ok [20, 11, 12] := rfl
example : iter (step 100 exShared (.delItem 1)).1.g 200 = .ok [20] := rfl
example : iter (step 100 exShared (.delItem 0)).1.g 200 = .ok [20] := rfl

/-! #### a second collection that shares nothing keeps its list -/

/-- `h2` names another collection of the same graph whose cells are all foreign to `h` (its rdf:rest walk
    stays inside `F` until rdf:nil): whatever is done through `h`, `Graph.items(h2)` — hence `list`, `len`,
    membership, `n3()` of the other collection — yields exactly what it yielded before. -/
def Statement_disjoint_second_keeps_list : Prop :=
  ∀ (F : Term → Bool) (s : St) (h h2 : Term) (xs : List Term) (op : Op),
    F h = false → F NIL = false → (∀ n, s.fresh ≤ n → F n = false) →
    WF ⟨own F s.g, s.fresh⟩ h → asList (own F s.g) h = .ok xs →
    F h2 = true → (∀ c o, F c = true → (c, REST, o) ∈ s.g → F o = true ∨ o = NIL) →
    items (step h s op).1.g h2 = items s.g h2

theorem disjoint_second_keeps_list_partial :
    ∀ (F : Term → Bool) (s : St) (h h2 : Term) (xs : List Term) (op : Op),
      F h = false → F NIL = false → (∀ n, s.fresh ≤ n → F n = false) →
      WF ⟨own F s.g, s.fresh⟩ h → asList (own F s.g) h = .ok xs → isSetAtLen xs.length op = false →
      F h2 = true → (∀ c o, F c = true → (c, REST, o) ∈ s.g → F o = true ∨ o = NIL) →
      items (step h s op).1.g h2 = items s.g h2 := by
  intro F s h h2 xs op hh hn hfr wf ha hok h2F hcl
  obtain ⟨_, e2, e3, e4⟩ := coll_separation F s h op hh hn hfr wf
  obtain ⟨_, ⟨ps', inv'⟩, _⟩ := coll_refines_partial ⟨own F s.g, s.fresh⟩ h xs op wf ha hok
  obtain ⟨ps, inv⟩ := wf
  have hst : (step h ⟨own F s.g, s.fresh⟩ op).1 = ⟨own F (step h s op).1.g, (step h s op).1.fresh⟩ := by
    rw [e2, e3]
  rw [hst] at inv'
  exact items_second e4 (fun p hp => ⟨value_nil_of_own_inv hn inv hp, value_nil_of_own_inv hn inv' hp⟩) h2F hcl

/-- `c1 = [10]`, and a disjoint `c2 = [20]` on the cell 200 -/
def exDisj : St := ⟨exG1 ++ [(200, FIRST, 20), (200, REST, NIL)], 1000⟩

/-- with `c[len(c)] = x` (C19-K1) the statement is false: `c1[1] = 11` makes the unrelated `c2` read `[20, 11]` -/
theorem disjoint_second_keeps_list_witness : ¬ Statement_disjoint_second_keeps_list := by
  intro H
  have := H exF exDisj 100 200 [10] (.setItem 1 11) rfl rfl
    (fun n hn => by
      have hn' : 1000 ≤ n := hn
      show (n == 200) = false
      exact beq_eq_false_iff_ne.mpr (fun e => by rw [e] at hn'; exact absurd hn' (by decide)))
    ⟨_, exG1_inv⟩ rfl rfl
    (by
      intro c o hc hm
      have hc' : c = 200 := by simpa [exF] using hc
      subst hc'
      right
      simp [exDisj, exG1, FIRST, REST, NIL] at hm
      simpa [NIL] using hm)
  have h1 : items (step 100 exDisj (.setItem 1 11)).1.g 200 = ([20, 11], none) := rfl
  have h2 : items exDisj.g 200 = ([20], none) := rfl
  rw [h1, h2] at this
  simp at this

/-! ### `c += c'` where `c'` is another Collection object reading `c`'s own cells -/

/-- `c'` = a Collection opened on the k-th cell of `c`'s chain: the head itself (`g.collection(c.uri)`, `k = 0`),
    a tail cell, or rdf:nil (`k = len`).  It reads `xs.drop k`; and because `__iadd__` reads its operand into a
    list before it opens the chain (fix C19-F7: snapshot semantics), `c += c'` makes the list `xs ++ xs.drop k`
    (`xs ++ xs` for a second handle on the same head) and leaves a well-formed chain — it does not chase the
    cells it is adding. -/
def Statement_extend_view_refines : Prop :=
  ∀ (s : St) (h : Term) (xs : List Term) (k : Nat) (c : Term), WF s h → asList s.g h = .ok xs →
    getContainer s.g (some h) k = some c →
    iter s.g c = .ok (xs.drop k) ∧ (step h s (.extend (xs.drop k))).2 = .unit ∧
      WF (step h s (.extend (xs.drop k))).1 h ∧
      asList (step h s (.extend (xs.drop k))).1.g h = .ok (xs ++ xs.drop k)

theorem extend_view_refines : Statement_extend_view_refines := by
  intro s h xs k c wf ha hc
  obtain ⟨h1, h2, h3⟩ := coll_refines_partial s h xs (.extend (xs.drop k)) wf ha rfl
  obtain ⟨ps, inv⟩ := wf
  have hxs := asList_of_inv inv ha
  subst hxs
  refine ⟨?_, ?_, h2, h3⟩
  · simp only [iter, inv.items_view hc, List.map_drop]
  · rcases h1 with h1 | ⟨h1, _⟩
    · exact h1
    · simp [specStep] at h1

/-- on `[10, 11, 12]` (cells 100 → 1000 → 1001): a view on the second cell reads `[11, 12]` -/
example : iter (run 100 exEmpty [.extend [10, 11, 12]]).1.g 1000 = .ok [11, 12] := rfl

/-! ### Round h (1): `LexOK` discharged for rdflib's real term syntax -/

/-- `tbl` gives every member its rdflib term (IRI, blank node, plain / typed / language-tagged literal).
    With the members' real `n3()` (`tokR`: `<…>`, `_:…`, `"…"` with `\\`, `\"`, `\r` escaped, `^^<…>`, `@…`), the
    text of `c.n3()` is `n3Text tokR` of the members' terms, and the reader with the real term lexer `lexR`
    recovers exactly those terms in order — for all members satisfying `WFR` (no `>` in an IRI, no blank in a
    blank-node id or language tag, no line feed in a lexical form). -/
def Statement_n3_real_terms : Prop :=
  ∀ (tbl : Term → RTerm) (s : St) (h : Term) (xs : List Term), (∀ x ∈ xs, WFR (tbl x)) →
    WF s h → asList s.g h = .ok xs →
    n3 (fun k => tokR (tbl k)) s.g h = .ok (n3Text tokR (xs.map tbl)) ∧
      readN3 lexR (n3Text tokR (xs.map tbl)) = some (xs.map tbl)

theorem n3_real_terms : Statement_n3_real_terms := by
  intro tbl s h xs hwf ⟨ps, inv⟩ ha
  have hxs := asList_of_inv inv ha
  subst hxs
  refine ⟨?_, readN3_n3Text_on lexOK_real _ ?_⟩
  · simp only [n3, inv.chain.iter, n3Text, List.map_map]
    rfl
  · intro t ht
    obtain ⟨x, hx, rfl⟩ := List.mem_map.mp ht
    exact hwf x hx

/-- (2) `n3()` never nests: a member that is itself the head of a collection (a blank node `_:d`) is written by
    its own label and the reader returns that head; with an IRI, an escaped plain literal `a"\`, a typed and a
    language-tagged literal -/
def exTerms : List RTerm :=
  [.iri ['e'], .bnode ['d'], .lit ['a', '"', '\\'] none none, .lit ['0'] (some ['i']) none, .lit [] none (some ['e', 'n'])]

example : String.ofList (n3Text tokR exTerms) = "( <e> _:d \"a\\\"\\\\\" \"0\"^^<i> \"\"@en )" := by decide
example : readN3 lexR (n3Text tokR exTerms) = some exTerms := by decide

/-! ### Round h (3): the second collection's other reads -/

/-- Like `disjoint_second_keeps_list_partial`, for everything read through the other collection's own head:
    `len(c2)`, `list(c2)`, `x in c2`, `c2[i]` (any integer index) and `c2.n3()` answer after an operation through
    `h` exactly what they answered before. -/
theorem disjoint_second_reads_partial :
    ∀ (F : Term → Bool) (s : St) (h h2 : Term) (xs : List Term) (op : Op),
      F h = false → F NIL = false → (∀ n, s.fresh ≤ n → F n = false) →
      WF ⟨own F s.g, s.fresh⟩ h → asList (own F s.g) h = .ok xs → isSetAtLen xs.length op = false →
      F h2 = true → (∀ c o, F c = true → (c, REST, o) ∈ s.g → F o = true ∨ o = NIL) →
      len (step h s op).1.g h2 = len s.g h2 ∧ iter (step h s op).1.g h2 = iter s.g h2 ∧
        (∀ x, contains (step h s op).1.g h2 x = contains s.g h2 x) ∧
        (∀ i, getItem (step h s op).1.g h2 i = getItem s.g h2 i) ∧
        ∀ tok, n3 tok (step h s op).1.g h2 = n3 tok s.g h2 := by
  intro F s h h2 xs op hh hn hfr wf ha hok h2F hcl
  obtain ⟨_, e2, e3, e4⟩ := coll_separation F s h op hh hn hfr wf
  obtain ⟨_, ⟨ps', inv'⟩, _⟩ := coll_refines_partial ⟨own F s.g, s.fresh⟩ h xs op wf ha hok
  obtain ⟨ps, inv⟩ := wf
  have hst : (step h ⟨own F s.g, s.fresh⟩ op).1 = ⟨own F (step h s op).1.g, (step h s op).1.fresh⟩ := by
    rw [e2, e3]
  rw [hst] at inv'
  obtain ⟨h1, h2, h3, h4⟩ := reads_second e4
    (fun p hp => ⟨value_nil_of_own_inv hn inv hp, value_nil_of_own_inv hn inv' hp⟩) h2F hcl
  exact ⟨h1, h2, h3, h4, fun tok => by simp only [n3, h2]⟩

end RV.C19
