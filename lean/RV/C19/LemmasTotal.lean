import RV.C19.Lemmas
/-
  C19 helper lemmas, part 4: on ANY graph (cyclic, broken, several rdf:rest …) the reads never
  exhaust their fuel `|g| + 2`: the visited set of the cycle guard can hold at most `|g| + 1` nodes.
  So `Err.fuel` ("the Python loop does not terminate") is never the result of a read.
-/
namespace RV.C19

theorem mem_objects {g : Graph} {s p o : Term} : o ∈ objects g s p ↔ (s, p, o) ∈ g := by
  induction g with
  | nil => simp [objects]
  | cons t g ih =>
    obtain ⟨s', p', o'⟩ := t
    simp only [objects]
    split
    · next hc =>
      obtain ⟨rfl, rfl⟩ := hc
      simp [ih]
    · next hc =>
      rw [ih]
      constructor
      · exact List.mem_cons_of_mem _
      · intro hm
        rcases List.mem_cons.mp hm with e | hm
        · injection e with e1 e2
          injection e2 with e2 e3
          exact absurd ⟨e1.symm, e2.symm⟩ hc
        · exact hm

/-- the nodes a walk from `h` can ever put into its visited set -/
def cands (g : Graph) (h : Term) : List Term := h :: g.map (fun t => t.2.2)

theorem obj_mem_cands {g : Graph} {h s p o : Term} (hm : (s, p, o) ∈ g) : o ∈ cands g h :=
  List.mem_cons_of_mem _ (List.mem_map.mpr ⟨_, hm, rfl⟩)

theorem itemsAux_no_fuel {g : Graph} {h : Term} :
    ∀ (f : Nat) (l : Term) (chain : List Term), chain.Nodup → (∀ a ∈ chain, a ∈ cands g h) →
      (cands g h).length < f + chain.length → (itemsAux g f l chain).2 ≠ some .fuel := by
  intro f
  induction f with
  | zero =>
    intro l chain hnd hsub hlen
    have := length_le_of_nodup_subset chain (cands g h) hnd hsub
    omega
  | succ f ih =>
    intro l chain hnd hsub hlen
    simp only [itemsAux]
    cases hv : value g l REST with
    | none => simp
    | some n =>
      by_cases hn : n ∈ chain
      · simp [hn]
      · simp only [hn, if_false]
        apply ih n (n :: chain) (List.nodup_cons.mpr ⟨hn, hnd⟩)
        · intro a ha
          rcases List.mem_cons.mp ha with e | ha
          · exact e ▸ obj_mem_cands (value_some_mem hv)
          · exact hsub a ha
        · simp only [List.length_cons]; omega

theorem items_no_fuel (g : Graph) (h : Term) : (items g h).2 ≠ some .fuel := by
  apply itemsAux_no_fuel (h := h) _ _ _ (by simp) (by simp [cands])
  simp [cands]

theorem indexAux_no_fuel {g : Graph} {h item : Term} :
    ∀ (f : Nat) (l : Term) (i : Nat) (chain : List Term), chain.Nodup → (∀ a ∈ chain, a ∈ cands g h) →
      (cands g h).length < f + chain.length → indexAux g item f l i chain ≠ .error .fuel := by
  intro f
  induction f with
  | zero =>
    intro l i chain hnd hsub hlen
    have := length_le_of_nodup_subset chain (cands g h) hnd hsub
    omega
  | succ f ih =>
    intro l i chain hnd hsub hlen
    simp only [indexAux]
    split
    · simp
    · split
      · simp
      · next n ho =>
        split
        · simp
        · split
          · simp
          · next _ hn =>
            apply ih n (i + 1) (n :: chain) (List.nodup_cons.mpr ⟨hn, hnd⟩)
            · intro a ha
              rcases List.mem_cons.mp ha with e | ha
              · have : n ∈ objects g l REST := by rw [ho]; simp
                exact e ▸ obj_mem_cands (mem_objects.mp this)
              · exact hsub a ha
            · simp only [List.length_cons]; omega
      · simp

theorem index_no_fuel (g : Graph) (h item : Term) : index g h item ≠ .error .fuel := by
  apply indexAux_no_fuel (h := h) _ _ _ _ (by simp) (by simp [cands])
  simp [cands]

theorem len_no_fuel (g : Graph) (h : Term) : len g h ≠ .error .fuel := by
  unfold len
  have := items_no_fuel g h
  cases hi : (items g h).2 with
  | none => simp
  | some e => rw [hi] at this; simpa using this

theorem iter_no_fuel (g : Graph) (h : Term) : iter g h ≠ .error .fuel := by
  unfold iter
  have := items_no_fuel g h
  cases hi : (items g h).2 with
  | none => simp
  | some e => rw [hi] at this; simpa using this

theorem contains_no_fuel (g : Graph) (h x : Term) : contains g h x ≠ .error .fuel := by
  unfold contains
  have := items_no_fuel g h
  split
  · simp
  · cases hi : (items g h).2 with
    | none => simp
    | some e => rw [hi] at this; simpa using this

theorem getItem_no_fuel (g : Graph) (h : Term) (key : Int) : getItem g h key ≠ .error .fuel := by
  unfold getItem normIdx
  have hl := len_no_fuel g h
  split
  · next e he =>
    split at he
    · cases hlen : len g h with
      | error e' =>
        rw [hlen] at he hl
        simp only at he
        cases he
        simpa using hl
      | ok n =>
        rw [hlen] at he
        simp only at he
        split at he
        · cases he; simp
        · cases he
    · cases he
  · next k _ =>
    unfold getAt
    split
    · simp
    · split <;> simp

/-! ### a chain whose rdf:rest walk never ends (i.e. runs into a cycle) makes full traversals raise -/

/-- following rdf:rest from `h` never reaches a node without rdf:rest -/
def Endless (g : Graph) (h : Term) : Prop := ∀ k, getContainer g (some h) k ≠ none

theorem itemsAux_end_none {g : Graph} :
    ∀ (f : Nat) (l : Term) (chain : List Term), (itemsAux g f l chain).2 = none →
      ∃ k, getContainer g (some l) k = none := by
  intro f
  induction f with
  | zero => intro l chain h; simp [itemsAux] at h
  | succ f ih =>
    intro l chain h
    simp only [itemsAux] at h
    cases hv : value g l REST with
    | none => exact ⟨1, by simp [getContainer, hv]⟩
    | some n =>
      rw [hv] at h
      simp only at h
      split at h
      · simp at h
      · obtain ⟨k, hk⟩ := ih n (n :: chain) h
        exact ⟨k + 1, by simp only [getContainer, hv]; exact hk⟩

theorem itemsAux_err {g : Graph} :
    ∀ (f : Nat) (l : Term) (chain : List Term) (e : Err), (itemsAux g f l chain).2 = some e →
      e = .fuel ∨ e = .valueError := by
  intro f
  induction f with
  | zero => intro l chain e h; simp [itemsAux] at h; exact Or.inl h.symm
  | succ f ih =>
    intro l chain e h
    simp only [itemsAux] at h
    cases hv : value g l REST with
    | none => rw [hv] at h; simp at h
    | some n =>
      rw [hv] at h
      simp only at h
      split at h
      · simp at h; exact Or.inr h.symm
      · exact ih n (n :: chain) e h

theorem items_endless {g : Graph} {h : Term} (he : Endless g h) : (items g h).2 = some .valueError := by
  cases hi : (items g h).2 with
  | none =>
    obtain ⟨k, hk⟩ := itemsAux_end_none _ _ _ hi
    exact absurd hk (he k)
  | some e =>
    rcases itemsAux_err _ _ _ e hi with rfl | rfl
    · exact absurd hi (items_no_fuel g h)
    · rfl

end RV.C19
