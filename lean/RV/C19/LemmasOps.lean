import RV.C19.LemmasMut
/-
  C19 helper lemmas, part 3: each `Collection` mutation, run on a state satisfying the invariant,
  succeeds exactly when the list operation does and re-establishes the invariant for the new list.
-/
namespace RV.C19

/-- the fresh supply is beyond every subject of the graph, the head and rdf:nil -/
structure FreshOK (s : St) (h : Term) : Prop where
  h_lt : h < s.fresh
  nil_lt : NIL < s.fresh
  subj_lt : ∀ t ∈ s.g, t.1 < s.fresh

/-- the state invariant: the graph holds the chain `ps` of the collection `h` -/
structure Inv (s : St) (h : Term) (ps : List Cell) : Prop where
  chain : Chain s.g h (some NIL) ps
  nodup : s.g.Nodup
  fresh : FreshOK s h

theorem Inv.cell_lt {s : St} {h : Term} {ps : List Cell} (inv : Inv s h ps) {c : Term}
    (hc : c ∈ ps.map Prod.fst) : c < s.fresh := by
  obtain ⟨t, ht, e⟩ := List.mem_map.mp (cells_subject_mem inv.chain.cells c hc)
  exact e ▸ inv.fresh.subj_lt t ht

theorem Inv.fresh_not_cell {s : St} {h : Term} {ps : List Cell} (inv : Inv s h ps) :
    s.fresh ∉ ps.map Prod.fst := fun hm => Nat.lt_irrefl _ (inv.cell_lt hm)

theorem Inv.fresh_no_triple {s : St} {h : Term} {ps : List Cell} (inv : Inv s h ps) (p o : Term) :
    (s.fresh, p, o) ∉ s.g := fun hm => Nat.lt_irrefl _ (inv.fresh.subj_lt _ hm)

/-! ### the frame: statements that are not rdf:first / rdf:rest triples -/

def NonList (t : Triple) : Prop := t.2.1 ≠ FIRST ∧ t.2.1 ≠ REST

/-- Triples other than rdf:first/rdf:rest statements are never added; one is removed only together
    with a discarded cell: its subject is not the head and carried an rdf:first. -/
def Frame (g g' : Graph) (h : Term) : Prop :=
  ∀ t, NonList t → (t ∈ g' → t ∈ g) ∧ (t ∈ g → t ∈ g' ∨ (t.1 ≠ h ∧ ∃ o, (t.1, FIRST, o) ∈ g))

theorem frame_of_iff {g g' : Graph} {h : Term} (hi : ∀ t, NonList t → (t ∈ g' ↔ t ∈ g)) : Frame g g' h :=
  fun t hn => ⟨(hi t hn).1, fun hm => Or.inl ((hi t hn).2 hm)⟩

theorem frame_of_cell {g g' : Graph} {h c x : Term} (hc : c ≠ h) (hx : (c, FIRST, x) ∈ g)
    (hi : ∀ t, NonList t → (t ∈ g' ↔ t ∈ g ∧ t.1 ≠ c)) : Frame g g' h := by
  intro t hn
  refine ⟨fun hm => ((hi t hn).1 hm).1, fun hm => ?_⟩
  by_cases e : t.1 = c
  · exact Or.inr ⟨e ▸ hc, x, e ▸ hx⟩
  · exact Or.inl ((hi t hn).2 ⟨hm, e⟩)

theorem frame_refl (g : Graph) (h : Term) : Frame g g h := frame_of_iff (fun _ _ => Iff.rfl)

theorem frame_trans {g1 g2 g3 : Graph} {h : Term} (a : Frame g1 g2 h) (hi : ∀ t, NonList t → (t ∈ g3 ↔ t ∈ g2)) :
    Frame g1 g3 h := by
  intro t hn
  refine ⟨fun hm => (a t hn).1 ((hi t hn).1 hm), fun hm => ?_⟩
  rcases (a t hn).2 hm with h1 | h1
  · exact Or.inl ((hi t hn).2 h1)
  · exact Or.inr h1

theorem nonlist_gset {g : Graph} {s p o : Term} {t : Triple} (hn : NonList t) (hp : p = FIRST ∨ p = REST) :
    t ∈ gset g s p o ↔ t ∈ g := by
  obtain ⟨s', p', o'⟩ := t
  simp only [NonList] at hn
  rw [mem_gset]
  constructor
  · rintro (e | ⟨hm, _⟩)
    · simp only [Prod.mk.injEq] at e
      rcases hp with hp | hp
      · exact absurd (e.2.1.trans hp) hn.1
      · exact absurd (e.2.1.trans hp) hn.2
    · exact hm
  · intro hm
    refine Or.inr ⟨hm, fun e => ?_⟩
    rcases hp with hp | hp
    · exact hn.1 (e.2.trans hp)
    · exact hn.2 (e.2.trans hp)

theorem nonlist_add {g : Graph} {u t : Triple} (hn : NonList t) (hp : u.2.1 = FIRST ∨ u.2.1 = REST) :
    t ∈ add g u ↔ t ∈ g := by
  rw [mem_add]
  constructor
  · rintro (e | hm)
    · subst e
      rcases hp with hp | hp
      · exact absurd hp hn.1
      · exact absurd hp hn.2
    · exact hm
  · exact Or.inr

theorem nonlist_removeSP {g : Graph} {s p : Term} {t : Triple} (hn : NonList t) (hp : p = FIRST ∨ p = REST) :
    t ∈ removeSP g s p ↔ t ∈ g := by
  rw [mem_removeSP]
  constructor
  · exact fun hm => hm.1
  · intro hm
    refine ⟨hm, fun e => ?_⟩
    rcases hp with hp | hp
    · exact hn.1 (e.2.trans hp)
    · exact hn.2 (e.2.trans hp)

/-! ### list surgery -/

theorem split_at {α : Type} {ps : List α} {k : Nat} (hk : k < ps.length) :
    ∃ pre post, ps = pre ++ ps[k] :: post ∧ pre.length = k := by
  refine ⟨ps.take k, ps.drop (k + 1), ?_, ?_⟩
  · rw [← List.drop_eq_getElem_cons hk, List.take_append_drop]
  · rw [List.length_take]; omega

theorem drop_append_len {α : Type} (pre l : List α) (j : Nat) : (pre ++ l).drop (pre.length + j) = l.drop j := by
  induction pre with
  | nil => simp
  | cons a pre ih => simpa [Nat.add_right_comm _ 1 j] using ih

theorem getElem?_append_len {α : Type} (pre l : List α) (j : Nat) : (pre ++ l)[pre.length + j]? = l[j]? := by
  induction pre with
  | nil => simp
  | cons a pre ih => simpa [Nat.add_right_comm _ 1 j] using ih

theorem set_append_len {α : Type} (pre l : List α) (j : Nat) (a : α) :
    (pre ++ l).set (pre.length + j) a = pre ++ l.set j a := by
  induction pre with
  | nil => simp
  | cons b pre ih => simpa [Nat.add_right_comm _ 1 j] using ih

theorem eraseIdx_append_len {α : Type} (pre l : List α) (j : Nat) :
    (pre ++ l).eraseIdx (pre.length + j) = pre ++ l.eraseIdx j := by
  induction pre with
  | nil => simp
  | cons b pre ih => simpa [Nat.add_right_comm _ 1 j] using ih

/-! ### `__setitem__` -/

theorem Inv.container_at {s : St} {h : Term} {pre post : List Cell} {q : Cell}
    (inv : Inv s h (pre ++ q :: post)) (j : Nat) :
    getContainer s.g (some h) (pre.length + j) =
      if j ≤ (q :: post).length then some (hdN ((q :: post).drop j)) else none := by
  rw [inv.chain.getContainer, if_neg (by simp), drop_append_len]
  simp only [List.length_append]
  by_cases hj : j ≤ (q :: post).length
  · rw [if_pos (by omega), if_pos hj]
  · rw [if_neg (by omega), if_neg hj]

theorem Inv.setItem_ok {s : St} {h : Term} {ps : List Cell} (inv : Inv s h ps) {key : Int} {k : Nat} (v : Term)
    (hk : normK ps.length key = some k) (hlt : k < ps.length) :
    ∃ g' ps', setItem s.g h key v = .ok g' ∧ ps'.map Prod.snd = (ps.map Prod.snd).set k v ∧
      Frame s.g g' h ∧ Inv ⟨g', s.fresh⟩ h ps' := by
  obtain ⟨pre, post, hps, hlen⟩ := split_at hlt
  rcases hq : ps[k] with ⟨c, x⟩
  rw [hq] at hps
  subst hlen
  have inv' : Inv s h (pre ++ (c, x) :: post) := hps ▸ inv
  have hcont := inv'.container_at 0
  simp only [Nat.add_zero, Nat.zero_le, if_true, List.drop_zero, hdN] at hcont
  refine ⟨gset s.g c FIRST v, pre ++ (c, v) :: post, ?_, ?_,
    frame_of_iff (fun t hn => nonlist_gset hn (Or.inl rfl)), ?_, nodup_gset inv.nodup, ?_⟩
  · unfold RV.C19.setItem
    rw [inv.chain.normIdx, hk]
    simp only [hcont]
  · rw [hps]
    have := set_append_len (pre.map Prod.snd) (((c, x) :: post).map Prod.snd) 0 v
    simp only [Nat.add_zero, List.length_map, List.map_cons, List.set_cons_zero] at this
    simp only [List.map_append, List.map_cons, this]
  · exact chain_set inv'.chain (fun t => by simp)
  · refine ⟨inv.fresh.h_lt, inv.fresh.nil_lt, ?_⟩
    intro t ht
    rcases mem_gset.mp ht with e | ⟨hm, _⟩
    · subst e
      exact inv'.cell_lt (by simp)
    · exact inv.fresh.subj_lt t hm

theorem Inv.setItem_err {s : St} {h : Term} {ps : List Cell} (inv : Inv s h ps) {key : Int} (v : Term)
    (hk : ∀ k, normK ps.length key = some k → ps.length < k) :
    setItem s.g h key v = .error .indexError := by
  unfold RV.C19.setItem
  rw [inv.chain.normIdx]
  cases hn : normK ps.length key with
  | none => rfl
  | some k =>
    have hlt := hk k hn
    have := inv.chain.getContainer k
    by_cases hps : ps = []
    · subst hps
      rw [if_pos rfl, if_neg (by simp at hlt; omega)] at this
      simp only [this]
    · rw [if_neg hps, if_neg (by omega)] at this
      simp only [this]

/-! ### `__delitem__` -/

theorem freshOK_of_subset {s : St} {h : Term} {g' : Graph} (f : FreshOK s h)
    (hsub : ∀ t ∈ g', t ∈ s.g ∨ t.1 < s.fresh) : FreshOK ⟨g', s.fresh⟩ h :=
  ⟨f.h_lt, f.nil_lt, fun t ht => (hsub t ht).elim (f.subj_lt t) id⟩

theorem Inv.delItem_head {s : St} {h : Term} {ps : List Cell} (inv : Inv s h ps) {key : Int}
    (hk : normK ps.length key = some 0) (hlt : 0 < ps.length) :
    ∃ g' ps', delItem s.g h key = .ok g' ∧ ps'.map Prod.snd = (ps.map Prod.snd).eraseIdx 0 ∧
      Frame s.g g' h ∧ Inv ⟨g', s.fresh⟩ h ps' := by
  have hFR : FIRST ≠ REST := by decide
  cases ps with
  | nil => simp at hlt
  | cons q rest =>
    obtain ⟨c0, x0⟩ := q
    have hh : c0 = h := inv.chain.hdN_eq (by simp)
    subst hh
    have hgetAt := inv.chain.getAt 0
    simp only [List.getElem?_cons_zero] at hgetAt
    have hc1 := inv.chain.getContainer 1
    rw [if_neg (by simp), if_pos (by simp)] at hc1
    simp only [List.drop_succ_cons, List.drop_zero] at hc1
    have hlen := inv.chain.len
    have hc0' : getContainer s.g (some c0) 0 = some c0 := rfl
    cases rest with
    | nil =>
      refine ⟨removeSP (removeSP s.g c0 FIRST) c0 REST, [], ?_, by simp,
        frame_of_iff (fun t hn => by
          rw [nonlist_removeSP hn (Or.inr rfl), nonlist_removeSP hn (Or.inl rfl)]), ?_, ?_, ?_⟩
      · unfold RV.C19.delItem
        rw [inv.chain.normIdx, hk]
        simp only [hgetAt, hc0', hlen, hc1, hdN]
        simp
      · apply chain_del_head1 inv.chain
        intro t
        simp only [mem_removeSP]
        constructor
        · rintro ⟨⟨h1, h2⟩, h3⟩
          exact ⟨h1, fun ⟨e1, e2⟩ => e2.elim (fun e2 => h2 ⟨e1, e2⟩) (fun e2 => h3 ⟨e1, e2⟩)⟩
        · rintro ⟨h1, h2⟩
          exact ⟨⟨h1, fun ⟨e1, e2⟩ => h2 ⟨e1, Or.inl e2⟩⟩, fun ⟨e1, e2⟩ => h2 ⟨e1, Or.inr e2⟩⟩
      · exact nodup_removeSP (nodup_removeSP inv.nodup)
      · exact freshOK_of_subset inv.fresh (fun t ht => Or.inl (mem_removeSP.mp (mem_removeSP.mp ht).1).1)
    | cons q2 rest =>
      obtain ⟨nx, xn⟩ := q2
      have hcells := inv.chain.cells
      have hnd := inv.chain.nodup
      simp only [List.map_cons, List.nodup_cons, List.mem_cons, not_or] at hnd
      have hne : nx ≠ c0 := fun e => hnd.1.1 e.symm
      have hnxnil : nx ≠ NIL := hcells.2.2.2.1
      have hv1 : value s.g nx FIRST = some xn := cells_value_first hcells.2.2.2
      have hv2 : value (gset s.g c0 FIRST xn) nx REST = some (hdN rest) := by
        apply value_unique
        intro o
        rw [mem_gset]
        have := hcells.2.2.2.2.2.1 o
        rw [hd_some_nil] at this
        simp [hne, hFR, hFR.symm, this, eq_comm]
      refine ⟨removeS (gset (gset s.g c0 FIRST xn) c0 REST (hdN rest)) nx, (c0, xn) :: rest, ?_, by simp,
        frame_of_cell hne ((hcells.2.2.2.2.1 xn).2 rfl) (fun t hn => by
          rw [mem_removeS, nonlist_gset hn (Or.inr rfl), nonlist_gset hn (Or.inl rfl)]), ?_, ?_, ?_⟩
      · unfold RV.C19.delItem
        rw [inv.chain.normIdx, hk]
        simp only [hgetAt, hc0', hlen, hc1, hdN, hnxnil, hv1, hv2]
        simp
      · apply chain_del_head2 inv.chain
        intro t
        simp only [mem_removeS, mem_gset]
        constructor
        · rintro ⟨h1, h2⟩
          refine ⟨h2, ?_⟩
          rcases h1 with e | ⟨e | ⟨hm, h3⟩, h4⟩
          · exact Or.inr (Or.inl e)
          · exact Or.inl e
          · exact Or.inr (Or.inr ⟨hm, fun ⟨e1, e2⟩ => e2.elim (fun e2 => h3 ⟨e1, e2⟩) (fun e2 => h4 ⟨e1, e2⟩)⟩)
        · rintro ⟨h2, h1⟩
          refine ⟨?_, h2⟩
          rcases h1 with e | e | ⟨hm, h3⟩
          · subst e
            exact Or.inr ⟨Or.inl rfl, fun ⟨_, e2⟩ => hFR e2⟩
          · exact Or.inl e
          · exact Or.inr ⟨Or.inr ⟨hm, fun ⟨e1, e2⟩ => h3 ⟨e1, Or.inl e2⟩⟩, fun ⟨e1, e2⟩ => h3 ⟨e1, Or.inr e2⟩⟩
      · exact nodup_removeS (nodup_gset (nodup_gset inv.nodup))
      · refine freshOK_of_subset inv.fresh (fun t ht => ?_)
        simp only [mem_removeS, mem_gset] at ht
        rcases ht.1 with e | ⟨e | ⟨hm, _⟩, _⟩
        · subst e; exact Or.inr inv.fresh.h_lt
        · subst e; exact Or.inr inv.fresh.h_lt
        · exact Or.inl hm

theorem Inv.delItem_inner {s : St} {h : Term} {ps : List Cell} (inv : Inv s h ps) {key : Int} {j : Nat}
    (hk : normK ps.length key = some (j + 1)) (hlt : j + 1 < ps.length) :
    ∃ g' ps', delItem s.g h key = .ok g' ∧ ps'.map Prod.snd = (ps.map Prod.snd).eraseIdx (j + 1) ∧
      Frame s.g g' h ∧ Inv ⟨g', s.fresh⟩ h ps' := by
  have hFR : FIRST ≠ REST := by decide
  obtain ⟨pre, post, hps, hlen⟩ := split_at (Nat.lt_of_succ_lt hlt)
  rcases hq : ps[j]'(Nat.lt_of_succ_lt hlt) with ⟨p, xp⟩
  rw [hq] at hps
  subst hlen
  cases post with
  | nil =>
    rw [hps] at hlt
    simp at hlt
  | cons q2 rest =>
    obtain ⟨c, x⟩ := q2
    have inv' : Inv s h (pre ++ (p, xp) :: (c, x) :: rest) := hps ▸ inv
    have hgetAt := inv'.chain.getAt (pre.length + 1)
    rw [getElem?_append_len] at hgetAt
    simp only [List.getElem?_cons_succ, List.getElem?_cons_zero] at hgetAt
    have hc0 := inv'.container_at 0
    have hc1 := inv'.container_at 1
    have hc2 := inv'.container_at 2
    simp only [Nat.add_zero, Nat.zero_le, if_true, List.drop_zero, hdN] at hc0
    simp only [List.length_cons, Nat.le_add_left, if_true, List.drop_succ_cons, List.drop_zero, hdN] at hc1
    rw [if_pos (by simp)] at hc2
    simp only [List.drop_succ_cons, List.drop_zero] at hc2
    have hlen' := inv'.chain.len
    have hnd := nodup_split inv'.chain.nodup
    have hpc : p ≠ c := by
      have := hnd.2.1
      simp only [List.map_cons, List.mem_cons, not_or] at this
      exact this.1
    have hsnd : ((pre ++ (p, xp) :: rest).map Prod.snd) = (ps.map Prod.snd).eraseIdx (pre.length + 1) := by
      rw [hps]
      have := eraseIdx_append_len (pre.map Prod.snd) (((p, xp) :: (c, x) :: rest).map Prod.snd) 1
      simp only [List.length_map, List.map_cons, List.eraseIdx_cons_succ, List.eraseIdx_cons_zero] at this
      simp only [List.map_append, List.map_cons, this]
    have hfresh : ∀ g', (∀ t ∈ g', t = (p, REST, hdN rest) ∨ t ∈ s.g) → FreshOK ⟨g', s.fresh⟩ h := by
      intro g' hsub
      refine freshOK_of_subset inv.fresh (fun t ht => ?_)
      rcases hsub t ht with e | hm
      · subst e; exact Or.inr (inv'.cell_lt (by simp))
      · exact Or.inl hm
    have hch : c ≠ h := by
      intro e
      have hhd := inv'.chain.hdN_eq (by simp)
      have hnd' := inv'.chain.nodup
      cases pre with
      | nil =>
        simp only [List.nil_append, hdN] at hhd
        exact hpc (hhd.trans e.symm)
      | cons q0 pre0 =>
        obtain ⟨c0', x0'⟩ := q0
        simp only [List.cons_append, hdN] at hhd
        simp only [List.cons_append, List.map_cons, List.map_append, List.nodup_cons, List.mem_append,
          List.mem_cons, not_or] at hnd'
        exact hnd'.1.2.2.1 (hhd.trans e.symm)
    have hcx : (c, FIRST, x) ∈ s.g := by
      have := (cells_append.mp inv'.chain.cells).2
      exact (this.2.2.2.2.1 x).2 rfl
    by_cases hrest : rest = []
    · subst hrest
      refine ⟨removeS (gset s.g p REST NIL) c, pre ++ [(p, xp)], ?_, hsnd,
        frame_of_cell hch hcx (fun t hn => by rw [mem_removeS, nonlist_gset hn (Or.inr rfl)]), ?_, ?_, ?_⟩
      · unfold RV.C19.delItem
        rw [inv.chain.normIdx, hk]
        simp only [hgetAt, hc1, hlen', Nat.add_sub_cancel, hc0]
        simp
      · apply chain_del_inner inv'.chain
        intro t
        simp only [mem_removeS, mem_gset, hdN]
        constructor
        · rintro ⟨e | ⟨hm, h3⟩, h2⟩
          · exact Or.inl e
          · exact Or.inr ⟨hm, h2, h3⟩
        · rintro (e | ⟨hm, h2, h3⟩)
          · subst e; exact ⟨Or.inl rfl, hpc⟩
          · exact ⟨Or.inr ⟨hm, h3⟩, h2⟩
      · exact nodup_removeS (nodup_gset inv.nodup)
      · apply hfresh
        intro t ht
        simp only [mem_removeS, mem_gset] at ht
        rcases ht.1 with e | ⟨hm, _⟩
        · exact Or.inl e
        · exact Or.inr hm
    · have hnot : ¬ (pre.length + 1 + 1 = (pre ++ (p, xp) :: (c, x) :: rest).length) := by
        have : 0 < rest.length := List.length_pos_iff.mpr hrest
        simp only [List.length_append, List.length_cons]
        omega
      refine ⟨gset (removeS s.g c) p REST (hdN rest), pre ++ (p, xp) :: rest, ?_, hsnd,
        frame_of_cell hch hcx (fun t hn => by rw [nonlist_gset hn (Or.inr rfl), mem_removeS]), ?_, ?_, ?_⟩
      · unfold RV.C19.delItem
        rw [inv.chain.normIdx, hk]
        simp only [hgetAt, hc1, hlen', Nat.add_sub_cancel, hc0, hc2, hnot]
        simp
        intro hh
        omega
      · apply chain_del_inner inv'.chain
        intro t
        simp only [mem_removeS, mem_gset]
        constructor
        · rintro (e | ⟨⟨hm, h2⟩, h3⟩)
          · exact Or.inl e
          · exact Or.inr ⟨hm, h2, h3⟩
        · rintro (e | ⟨hm, h2, h3⟩)
          · exact Or.inl e
          · exact Or.inr ⟨⟨hm, h2⟩, h3⟩
      · exact nodup_gset (nodup_removeS inv.nodup)
      · apply hfresh
        intro t ht
        simp only [mem_removeS, mem_gset] at ht
        rcases ht with e | ⟨⟨hm, _⟩, _⟩
        · exact Or.inl e
        · exact Or.inr hm

theorem Inv.delItem_err {s : St} {h : Term} {ps : List Cell} (inv : Inv s h ps) {key : Int}
    (hk : ∀ k, normK ps.length key = some k → ps.length ≤ k) :
    delItem s.g h key = .error .indexError := by
  unfold RV.C19.delItem
  rw [inv.chain.normIdx]
  cases hn : normK ps.length key with
  | none => rfl
  | some k =>
    have hlt := hk k hn
    have := inv.chain.getAt k
    rw [List.getElem?_eq_none hlt] at this
    simp only [this]

/-! ### `append` -/

theorem nil_or_snoc (ps : List Cell) : ps = [] ∨ ∃ pre e x, ps = pre ++ [(e, x)] := by
  rcases List.eq_nil_or_concat ps with h | ⟨l, ⟨e, x⟩, h⟩
  · exact Or.inl h
  · exact Or.inr ⟨l, e, x, by rw [h, List.concat_eq_append]⟩

theorem cells_last_ne_nil {g : Graph} {tl : Option Term} {pre : List Cell} {e x : Term}
    (hc : Cells g tl (pre ++ [(e, x)])) : e ≠ NIL := (cells_append.mp hc).2.1

theorem Inv.append {s : St} {h : Term} {ps : List Cell} (inv : Inv s h ps) (item : Term) :
    ∃ s' ps', append s h item = .ok s' ∧ ps'.map Prod.snd = ps.map Prod.snd ++ [item] ∧
      Frame s.g s'.g h ∧ Inv s' h ps' := by
  rcases nil_or_snoc ps with hps | ⟨pre, e, x, hps⟩
  · subst hps
    have hend := inv.chain.endOf_nil
    have hno : hasSP s.g h FIRST = false :=
      hasSP_false_iff.mpr (fun _ => inv.chain.empty_no_triple (Or.inl rfl))
    refine ⟨⟨add (add s.g (h, FIRST, item)) (h, REST, NIL), s.fresh⟩, [(h, item)], ?_, by simp,
      frame_of_iff (fun t hn => by
        show t ∈ add (add s.g (h, FIRST, item)) (h, REST, NIL) ↔ _
        rw [nonlist_add hn (Or.inr rfl), nonlist_add hn (Or.inl rfl)]), ?_, ?_, ?_⟩
    · simp [RV.C19.append, hend, inv.chain.hne, hno]
    · apply chain_first inv.chain
      intro t
      simp only [mem_add, Option.some.injEq, exists_eq_left']
      constructor
      · rintro (e | e | hm)
        · exact Or.inr (Or.inl e)
        · exact Or.inl e
        · exact Or.inr (Or.inr hm)
      · rintro (e | e | hm)
        · exact Or.inr (Or.inl e)
        · exact Or.inl e
        · exact Or.inr (Or.inr hm)
    · exact nodup_add (nodup_add inv.nodup)
    · refine freshOK_of_subset inv.fresh (fun t ht => ?_)
      simp only [mem_add] at ht
      rcases ht with e | e | hm
      · subst e; exact Or.inr inv.fresh.h_lt
      · subst e; exact Or.inr inv.fresh.h_lt
      · exact Or.inl hm
  · subst hps
    have hend := inv.chain.endOf_snoc
    have hne : e ≠ NIL := cells_last_ne_nil inv.chain.cells
    have hcells := cells_append.mp inv.chain.cells
    have hyes : hasSP s.g e FIRST = true := hasSP_iff.mpr ⟨x, (hcells.2.2.1 x).2 rfl⟩
    have he_lt : e < s.fresh := inv.cell_lt (by simp)
    refine ⟨⟨add (add (gset s.g e REST s.fresh) (s.fresh, FIRST, item)) (s.fresh, REST, NIL), s.fresh + 1⟩,
      pre ++ [(e, x), (s.fresh, item)], ?_, by simp,
      frame_of_iff (fun t hn => by
        show t ∈ add (add (gset s.g e REST s.fresh) (s.fresh, FIRST, item)) (s.fresh, REST, NIL) ↔ _
        rw [nonlist_add hn (Or.inr rfl), nonlist_add hn (Or.inl rfl), nonlist_gset hn (Or.inr rfl)]),
      ?_, ?_, ?_, ?_, ?_⟩
    · simp [RV.C19.append, hend, hne, hyes]
    · apply chain_snoc inv.chain (Nat.ne_of_gt inv.fresh.nil_lt) (fun p o => inv.fresh_no_triple p o)
        inv.fresh_not_cell
      intro t
      simp only [mem_add, mem_gset, Option.some.injEq, exists_eq_left']
      constructor
      · rintro (e1 | e1 | e1 | hm)
        · exact Or.inr (Or.inr (Or.inl e1))
        · exact Or.inr (Or.inl e1)
        · exact Or.inl e1
        · exact Or.inr (Or.inr (Or.inr hm))
      · rintro (e1 | e1 | e1 | hm)
        · exact Or.inr (Or.inr (Or.inl e1))
        · exact Or.inr (Or.inl e1)
        · exact Or.inl e1
        · exact Or.inr (Or.inr (Or.inr hm))
    · exact nodup_add (nodup_add (nodup_gset inv.nodup))
    · exact Nat.lt_succ_of_lt inv.fresh.h_lt
    · exact Nat.lt_succ_of_lt inv.fresh.nil_lt
    · intro t ht
      simp only [mem_add, mem_gset] at ht
      show t.1 < s.fresh + 1
      rcases ht with e1 | e1 | e1 | ⟨hm, _⟩
      · subst e1; exact Nat.lt_succ_self _
      · subst e1; exact Nat.lt_succ_self _
      · subst e1; exact Nat.lt_succ_of_lt he_lt
      · exact Nat.lt_succ_of_lt (inv.fresh.subj_lt t hm)

/-! ### `__iadd__` -/

/-- the loop invariant of `__iadd__`: an open chain whose last cell is `e` -/
structure OInv (g : Graph) (fr : Nat) (h e : Term) (ps : List Cell) : Prop where
  chain : Chain g h none ps
  nodup : g.Nodup
  fresh : FreshOK ⟨g, fr⟩ h
  last : (ps = [] ∧ e = h) ∨ (∃ pre x, ps = pre ++ [(e, x)])

theorem iaddLoop_inv {h : Term} :
    ∀ (xs : List Term) (g : Graph) (fr : Nat) (e : Term) (ps : List Cell), OInv g fr h e ps →
      ∃ ps', ps'.map Prod.snd = ps.map Prod.snd ++ xs ∧
        (∀ t, NonList t → (t ∈ (iaddLoop g fr e xs).1 ↔ t ∈ g)) ∧
        OInv (iaddLoop g fr e xs).1 (iaddLoop g fr e xs).2.1 h (iaddLoop g fr e xs).2.2 ps' := by
  intro xs
  induction xs with
  | nil =>
    intro g fr e ps o
    exact ⟨ps, by simp, fun _ _ => Iff.rfl, o⟩
  | cons x xs ih =>
    intro g fr e ps o
    rcases o.last with ⟨hps, he⟩ | ⟨pre, y, hps⟩
    · subst hps
      subst he
      have hno : hasSP g e FIRST = false :=
        hasSP_false_iff.mpr (fun _ => o.chain.empty_no_triple (Or.inl rfl))
      have o1 : OInv (add g (e, FIRST, x)) fr e e [(e, x)] := by
        refine ⟨?_, nodup_add o.nodup, ?_, Or.inr ⟨[], x, rfl⟩⟩
        · apply chain_first o.chain
          intro t
          simp [mem_add]
        · refine ⟨o.fresh.h_lt, o.fresh.nil_lt, ?_⟩
          intro t ht
          rcases mem_add.mp ht with e1 | hm
          · subst e1; exact o.fresh.h_lt
          · exact o.fresh.subj_lt t hm
      obtain ⟨ps', h1, hfr, h2⟩ := ih _ _ _ _ o1
      refine ⟨ps', by simpa using h1, ?_, ?_⟩
      · intro t hn
        simp only [iaddLoop, hno, Bool.false_eq_true, if_false]
        rw [hfr t hn, nonlist_add hn (Or.inl rfl)]
      · simp only [iaddLoop, hno]
        exact h2
    · subst hps
      have hcells := cells_append.mp o.chain.cells
      have hyes : hasSP g e FIRST = true := hasSP_iff.mpr ⟨y, (hcells.2.2.1 y).2 rfl⟩
      have hnorest : ∀ o', (e, REST, o') ∉ g := by
        intro o' hm
        have := (hcells.2.2.2.1 o').1 hm
        simp [hd] at this
      have he_lt : e < fr := by
        obtain ⟨t, ht, e1⟩ := List.mem_map.mp (cells_subject_mem o.chain.cells e (by simp))
        exact e1 ▸ o.fresh.subj_lt t ht
      have hfr_cell : fr ∉ (pre ++ [(e, y)]).map Prod.fst := by
        intro hm
        obtain ⟨t, ht, e1⟩ := List.mem_map.mp (cells_subject_mem o.chain.cells fr hm)
        have := o.fresh.subj_lt t ht
        rw [e1] at this
        exact Nat.lt_irrefl _ this
      have o1 : OInv (add (add g (e, REST, fr)) (fr, FIRST, x)) (fr + 1) h fr (pre ++ [(e, y), (fr, x)]) := by
        refine ⟨?_, nodup_add (nodup_add o.nodup), ?_, Or.inr ⟨pre ++ [(e, y)], x, by simp⟩⟩
        · apply chain_snoc o.chain (Nat.ne_of_gt o.fresh.nil_lt)
            (fun p o' hm => Nat.lt_irrefl _ (o.fresh.subj_lt _ hm)) hfr_cell
          intro t
          simp only [mem_add, reduceCtorEq, false_and, exists_false, false_or]
          constructor
          · rintro (e1 | e1 | hm)
            · exact Or.inr (Or.inl e1)
            · exact Or.inl e1
            · refine Or.inr (Or.inr ⟨hm, fun ⟨e1, e2⟩ => ?_⟩)
              obtain ⟨s', p', o'⟩ := t
              simp only at e1 e2
              subst e1; subst e2
              exact hnorest o' hm
          · rintro (e1 | e1 | ⟨hm, _⟩)
            · exact Or.inr (Or.inl e1)
            · exact Or.inl e1
            · exact Or.inr (Or.inr hm)
        · refine ⟨Nat.lt_succ_of_lt o.fresh.h_lt, Nat.lt_succ_of_lt o.fresh.nil_lt, ?_⟩
          intro t ht
          show t.1 < fr + 1
          simp only [mem_add] at ht
          rcases ht with e1 | e1 | hm
          · subst e1; exact Nat.lt_succ_self _
          · subst e1; exact Nat.lt_succ_of_lt he_lt
          · exact Nat.lt_succ_of_lt (o.fresh.subj_lt t hm)
      obtain ⟨ps', h1, hfr, h2⟩ := ih _ _ _ _ o1
      refine ⟨ps', by simpa using h1, ?_, ?_⟩
      · intro t hn
        simp only [iaddLoop, hyes, if_true]
        rw [hfr t hn, nonlist_add hn (Or.inl rfl), nonlist_add hn (Or.inr rfl)]
      · simp only [iaddLoop, hyes, if_true]
        exact h2

theorem Inv.iadd {s : St} {h : Term} {ps : List Cell} (inv : Inv s h ps) (xs : List Term) :
    ∃ s' ps', iadd s h xs = .ok s' ∧ ps'.map Prod.snd = ps.map Prod.snd ++ xs ∧
      Frame s.g s'.g h ∧ Inv s' h ps' := by
  -- the end cell and the opened chain
  have hopen : ∃ e, endOf s.g h = .ok e ∧ e ≠ NIL ∧ OInv (removeSP s.g e REST) s.fresh h e ps := by
    rcases nil_or_snoc ps with hps | ⟨pre, e, x, hps⟩
    · subst hps
      refine ⟨h, inv.chain.endOf_nil, inv.chain.hne, ?_, nodup_removeSP inv.nodup, ?_, Or.inl ⟨rfl, rfl⟩⟩
      · apply chain_nil_tl (tl := some NIL)
        apply chain_congr inv.chain
        intro t
        simp only [mem_removeSP, and_iff_left_iff_imp]
        rintro hm ⟨e1, e2⟩
        obtain ⟨s', p', o'⟩ := t
        exact inv.chain.empty_no_triple (Or.inr e2) hm
      · exact freshOK_of_subset inv.fresh (fun t ht => Or.inl (mem_removeSP.mp ht).1)
    · subst hps
      refine ⟨e, inv.chain.endOf_snoc, cells_last_ne_nil inv.chain.cells, ?_, nodup_removeSP inv.nodup, ?_,
        Or.inr ⟨pre, x, rfl⟩⟩
      · exact chain_open inv.chain (fun t => by simp)
      · exact freshOK_of_subset inv.fresh (fun t ht => Or.inl (mem_removeSP.mp ht).1)
  obtain ⟨e, hend, hne, o⟩ := hopen
  obtain ⟨ps', h1, hfr, o'⟩ := iaddLoop_inv xs _ _ _ _ o
  generalize hr : iaddLoop (removeSP s.g e REST) s.fresh e xs = r at o' hfr
  obtain ⟨g1, fr1, e1⟩ := r
  simp only at o' hfr
  have hfr1 : ∀ t, NonList t → (t ∈ g1 ↔ t ∈ s.g) := fun t hn => by
    rw [hfr t hn, nonlist_removeSP hn (Or.inr rfl)]
  have hiadd : RV.C19.iadd s h xs = .ok ⟨if hasSP g1 e1 FIRST then add g1 (e1, REST, NIL) else g1, fr1⟩ := by
    simp [RV.C19.iadd, hend, hne, hr]
  refine ⟨_, ps', hiadd, h1, ?_⟩
  rcases o'.last with ⟨hps, he⟩ | ⟨pre, y, hps⟩
  · subst hps
    subst he
    have hno : hasSP g1 e1 FIRST = false :=
      hasSP_false_iff.mpr (fun _ => o'.chain.empty_no_triple (Or.inl rfl))
    simp only [hno]
    exact ⟨frame_of_iff hfr1, chain_nil_tl o'.chain, o'.nodup, o'.fresh⟩
  · subst hps
    have hcells := cells_append.mp o'.chain.cells
    have hyes : hasSP g1 e1 FIRST = true := hasSP_iff.mpr ⟨y, (hcells.2.2.1 y).2 rfl⟩
    simp only [hyes, if_true]
    refine ⟨frame_of_iff (fun t hn => by rw [nonlist_add hn (Or.inr rfl), hfr1 t hn]),
      chain_close o'.chain (fun t => by simp), nodup_add o'.nodup, o'.fresh.h_lt, o'.fresh.nil_lt, ?_⟩
    intro t ht
    rcases mem_add.mp ht with e2 | hm
    · subst e2
      obtain ⟨t', ht', e3⟩ := List.mem_map.mp (cells_subject_mem o'.chain.cells e1 (by simp))
      exact e3 ▸ o'.fresh.subj_lt t' ht'
    · exact o'.fresh.subj_lt t hm

/-! ### `clear` -/

theorem clearAux_none (f : Nat) (g : Graph) : clearAux f g none = .ok g := by
  cases f <;> rfl

theorem clearAux_cells :
    ∀ (todo : List Cell) (f : Nat) (g : Graph), Cells g (some NIL) todo → (todo.map Prod.fst).Nodup →
      (∀ s p o, (s, p, o) ∈ g → p = FIRST ∨ p = REST → s ∈ todo.map Prod.fst) → todo.length + 1 < f →
      ∃ g', clearAux f g (some (hdN todo)) = .ok g' ∧
        (∀ t, t ∈ g' ↔ t ∈ g ∧ t.2.1 ≠ FIRST ∧ t.2.1 ≠ REST) ∧ (g.Nodup → g'.Nodup) := by
  intro todo
  induction todo with
  | nil =>
    intro f g _ _ hno hf
    cases f with
    | zero => omega
    | succ f =>
      have hv : value g NIL REST = none := value_absent (fun o hm => by simpa using hno _ _ _ hm (Or.inr rfl))
      refine ⟨removeSP (removeSP g NIL FIRST) NIL REST, ?_, ?_, fun hnd => nodup_removeSP (nodup_removeSP hnd)⟩
      · simp [clearAux, hdN, hv, clearAux_none]
      · intro t
        obtain ⟨s', p', o'⟩ := t
        simp only [mem_removeSP]
        constructor
        · rintro ⟨⟨hm, _⟩, _⟩
          refine ⟨hm, fun e => ?_, fun e => ?_⟩
          · simpa using hno _ _ _ hm (Or.inl e)
          · simpa using hno _ _ _ hm (Or.inr e)
        · rintro ⟨hm, h1, h2⟩
          exact ⟨⟨hm, fun e => h1 e.2⟩, fun e => h2 e.2⟩
  | cons q todo ih =>
    obtain ⟨c, x⟩ := q
    intro f g hc hnd hno hf
    cases f with
    | zero => omega
    | succ f =>
      simp only [List.map_cons, List.nodup_cons] at hnd
      have hg1 : ∀ t, t ∈ removeSP (removeSP g c FIRST) c REST ↔
          t ∈ g ∧ ¬(t.1 = c ∧ (t.2.1 = FIRST ∨ t.2.1 = REST)) := by
        intro t
        simp only [mem_removeSP]
        constructor
        · rintro ⟨⟨hm, h1⟩, h2⟩
          exact ⟨hm, fun ⟨e1, e2⟩ => e2.elim (fun e2 => h1 ⟨e1, e2⟩) (fun e2 => h2 ⟨e1, e2⟩)⟩
        · rintro ⟨hm, h1⟩
          exact ⟨⟨hm, fun ⟨e1, e2⟩ => h1 ⟨e1, Or.inl e2⟩⟩, fun ⟨e1, e2⟩ => h1 ⟨e1, Or.inr e2⟩⟩
      obtain ⟨g', h1, h2, h3⟩ := ih f (removeSP (removeSP g c FIRST) c REST)
        (cells_frame hc.2.2.2 (by
          intro c' p o hc' _
          have : c' ≠ c := fun e => hnd.1 (e ▸ hc')
          rw [hg1]
          simp [this]))
        hnd.2
        (by
          intro s p o hm hp
          rw [hg1] at hm
          have := hno s p o hm.1 hp
          simp only [List.map_cons, List.mem_cons] at this
          rcases this with e | hm'
          · exact absurd ⟨e, hp⟩ hm.2
          · exact hm')
        (by simp only [List.length_cons] at hf; omega)
      refine ⟨g', ?_, ?_, fun hn => h3 (nodup_removeSP (nodup_removeSP hn))⟩
      · show clearAux (f + 1) g (some c) = _
        simp only [clearAux, cells_value_rest hc]
        exact h1
      · intro t
        rw [h2, hg1]
        constructor
        · rintro ⟨⟨hm, _⟩, h5⟩
          exact ⟨hm, h5⟩
        · rintro ⟨hm, h5⟩
          exact ⟨⟨hm, fun ⟨_, e⟩ => e.elim h5.1 h5.2⟩, h5⟩

theorem Inv.clear {s : St} {h : Term} {ps : List Cell} (inv : Inv s h ps) :
    ∃ g', clear s.g h = .ok g' ∧ Inv ⟨g', s.fresh⟩ h [] ∧
      (∀ t, t ∈ g' ↔ t ∈ s.g ∧ t.2.1 ≠ FIRST ∧ t.2.1 ≠ REST) := by
  have key : ∃ g', RV.C19.clear s.g h = .ok g' ∧
      (∀ t, t ∈ g' ↔ t ∈ s.g ∧ t.2.1 ≠ FIRST ∧ t.2.1 ≠ REST) ∧ g'.Nodup := by
    by_cases hps : ps = []
    · subst hps
      have hv : value s.g h REST = none := value_absent (fun _ => inv.chain.empty_no_triple (Or.inr rfl))
      refine ⟨removeSP (removeSP s.g h FIRST) h REST, ?_, ?_, nodup_removeSP (nodup_removeSP inv.nodup)⟩
      · simp [RV.C19.clear, clearAux, hv, clearAux_none]
      · intro t
        obtain ⟨s', p', o'⟩ := t
        simp only [mem_removeSP]
        constructor
        · rintro ⟨⟨hm, _⟩, _⟩
          exact ⟨hm, fun e => inv.chain.empty_no_triple (Or.inl e) hm,
            fun e => inv.chain.empty_no_triple (Or.inr e) hm⟩
        · rintro ⟨hm, h1, h2⟩
          exact ⟨⟨hm, fun e => h1 e.2⟩, fun e => h2 e.2⟩
    · obtain ⟨g', h1, h2, h3⟩ := clearAux_cells ps (s.g.length + 2) s.g inv.chain.cells inv.chain.nodup
        inv.chain.noOrphan (by have := inv.chain.length_le; omega)
      rw [inv.chain.hdN_eq hps] at h1
      exact ⟨g', h1, h2, h3 inv.nodup⟩
  obtain ⟨g', h1, h2, h3⟩ := key
  refine ⟨g', h1, ⟨⟨fun hne => absurd rfl hne, inv.chain.hne, by simp, trivial, ?_⟩, h3, ?_⟩, h2⟩
  · intro s' p o hm hp
    have := (h2 _).1 hm
    exact absurd hp (by simpa using this.2)
  · exact freshOK_of_subset inv.fresh (fun t ht => Or.inl ((h2 t).1 ht).1)

end RV.C19
