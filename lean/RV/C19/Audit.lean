import RV.C19.Props
open RV.C19
#print axioms coll_refines_partial
#print axioms coll_refines_witness
#print axioms history_refines_partial
#print axioms history_refines_witness
#print axioms ctor_refines
#print axioms extend_self_refines
#print axioms coll_frame
#print axioms reads_total_on_broken
#print axioms cyclic_reads_raise
#print axioms exEmpty_wf
#print axioms setitem_deviates_iff
#print axioms setitem_at_len_effect
#print axioms n3_means_list
#print axioms coll_separation
#print axioms history_separation_partial
#print axioms history_separation_witness
#print axioms exShared_own_wf
#print axioms shared_tail_witness
#print axioms disjoint_second_keeps_list_partial
#print axioms disjoint_second_keeps_list_witness
#print axioms extend_view_refines
#print axioms n3_real_terms
#print axioms disjoint_second_reads_partial
