import RV.C19.Props
open RV.C19
#print axioms placeholder
