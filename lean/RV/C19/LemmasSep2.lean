import RV.C19.LemmasSep
/-
  C19 helper lemmas, round g, part 4: separation for the mutations.  `simG F g r r'` relates the outcome `r`
  of a mutation on the whole graph to the outcome `r'` of the same mutation on the own part.
-/
namespace RV.C19

/-- same error, or: the new graph's own part is the new own graph and its foreign part is untouched -/
def simG (F : Term → Bool) (g0 : Graph) : Except Err Graph → Except Err Graph → Prop
  | .ok a, .ok b => own F a = b ∧ foreign F a = foreign F g0
  | .error e, .error e' => e = e'
  | _, _ => False

def simS (F : Term → Bool) (g0 : Graph) : Except Err St → Except Err St → Prop
  | .ok a, .ok b => own F a.g = b.g ∧ a.fresh = b.fresh ∧ foreign F a.g = foreign F g0
  | .error e, .error e' => e = e'
  | _, _ => False

theorem simG_err (F : Term → Bool) (g0 : Graph) (e : Err) : simG F g0 (.error e) (.error e) := rfl
theorem simS_err (F : Term → Bool) (g0 : Graph) (e : Err) : simS F g0 (.error e) (.error e) := rfl

theorem setItem_sim {F : Term → Bool} {g : Graph} {h : Term} (sep : Sep F g h) (key : Int) (v : Term) :
    simG F g (setItem g h key v) (setItem (own F g) h key v) := by
  unfold setItem
  rw [normIdx_own sep]
  cases normIdx g h key with
  | error e => exact simG_err _ _ _
  | ok k =>
    simp only [getC_own sep]
    cases hc : getContainer g (some h) k with
    | none => exact simG_err _ _ _
    | some c => exact ⟨own_gset _ _ _ (getC_nf sep hc), foreign_gset _ _ _ (getC_nf sep hc)⟩

theorem delItem_sim {F : Term → Bool} {g : Graph} {h : Term} (sep : Sep F g h) (key : Int) :
    simG F g (delItem g h key) (delItem (own F g) h key) := by
  unfold delItem
  rw [normIdx_own sep]
  cases normIdx g h key with
  | error e => exact simG_err _ _ _
  | ok k =>
    simp only [getAt_own sep, getC_own sep, len_own sep]
    cases getAt g h k with
    | error e => exact simG_err _ _ _
    | ok _ =>
      cases hcur : getContainer g (some h) k with
      | none => exact simG_err _ _ _
      | some cur =>
        have hcurF := getC_nf sep hcur
        cases len g h with
        | error e => exact simG_err _ _ _
        | ok n =>
          by_cases c1 : n = 1 ∧ 0 < k
          · simp only [if_pos c1]
            exact ⟨rfl, rfl⟩
          · simp only [if_neg c1]
            by_cases c2 : k = 0
            · simp only [if_pos c2]
              cases h1 : getContainer g (some h) 1 with
              | none => exact simG_err _ _ _
              | some nx =>
                have hnxF := getC_nf sep h1
                by_cases c3 : nx = NIL
                · simp only [if_pos c3]
                  exact ⟨by rw [own_removeSP, own_removeSP],
                    by rw [foreign_removeSP _ _ hcurF, foreign_removeSP _ _ hcurF]⟩
                · simp only [if_neg c3, value_own _ hnxF]
                  cases value g nx FIRST with
                  | none => exact simG_err _ _ _
                  | some f =>
                    simp only [← own_gset g FIRST f hcurF, value_own _ hnxF]
                    cases value (gset g cur FIRST f) nx REST with
                    | none => exact simG_err _ _ _
                    | some r =>
                      exact ⟨by rw [own_removeS, own_gset _ _ _ hcurF],
                        by rw [foreign_removeS _ hnxF, foreign_gset _ _ _ hcurF, foreign_gset _ _ _ hcurF]⟩
            · simp only [if_neg c2]
              by_cases c4 : k + 1 = n
              · simp only [if_pos c4]
                cases hp : getContainer g (some h) (k - 1) with
                | none => exact simG_err _ _ _
                | some prior =>
                  have hpF := getC_nf sep hp
                  exact ⟨by rw [own_removeS, own_gset _ _ _ hpF],
                    by rw [foreign_removeS _ hcurF, foreign_gset _ _ _ hpF]⟩
              · simp only [if_neg c4]
                cases hn : getContainer g (some h) (k + 1) with
                | none => exact simG_err _ _ _
                | some nx =>
                  cases hp : getContainer g (some h) (k - 1) with
                  | none => exact simG_err _ _ _
                  | some prior =>
                    have hpF := getC_nf sep hp
                    exact ⟨by rw [own_gset _ _ _ hpF, own_removeS],
                      by rw [foreign_gset _ _ _ hpF, foreign_removeS _ hcurF]⟩

/-! ### `_end`, `append`, `+=` -/

theorem endAux_own {F : Term → Bool} {g : Graph} {h : Term} (sep : Sep F g h) :
    ∀ (f : Nat) (c : Term), F c = false → endAux (own F g) f c = endAux g f c := by
  intro f
  induction f with
  | zero => intro c _; rfl
  | succ f ih =>
    intro c hc
    simp only [endAux, value_own _ hc]
    cases hv : value g c REST with
    | none => rfl
    | some r =>
      by_cases hr : r = NIL
      · simp only [if_pos hr]
      · simp only [if_neg hr]
        exact ih r (sep.closed c r hc (value_some_mem hv))

theorem endAux_nf {F : Term → Bool} {g : Graph} {h : Term} (sep : Sep F g h) :
    ∀ (f : Nat) (c e : Term), F c = false → endAux g f c = .ok e → F e = false := by
  intro f
  induction f with
  | zero => intro c e _ he; cases he
  | succ f ih =>
    intro c e hc he
    simp only [endAux] at he
    cases hv : value g c REST with
    | none => rw [hv] at he; cases he; exact hc
    | some r =>
      rw [hv] at he
      by_cases hr : r = NIL
      · simp only [if_pos hr] at he; cases he; exact hc
      · simp only [if_neg hr] at he
        exact ih r e (sep.closed c r hc (value_some_mem hv)) he

theorem endAux_mono {g : Graph} :
    ∀ (f f' : Nat) (c e : Term), f ≤ f' → endAux g f c = .ok e → endAux g f' c = .ok e := by
  intro f
  induction f with
  | zero => intro f' c e _ he; cases he
  | succ f ih =>
    intro f' c e hle he
    obtain ⟨f', rfl⟩ : ∃ k, f' = k + 1 := ⟨f' - 1, by omega⟩
    simp only [endAux] at he ⊢
    cases hv : value g c REST with
    | none => rw [hv] at he; exact he
    | some r =>
      rw [hv] at he
      by_cases hr : r = NIL
      · simp only [if_pos hr] at he ⊢; exact he
      · simp only [if_neg hr] at he ⊢
        exact ih f' r e (by omega) he

theorem endOf_of_own {F : Term → Bool} {g : Graph} {h e : Term} (sep : Sep F g h)
    (he : endOf (own F g) h = .ok e) : endOf g h = .ok e ∧ F e = false := by
  unfold endOf at he ⊢
  rw [endAux_own sep _ _ sep.head] at he
  exact ⟨endAux_mono _ _ _ _ (by have := own_length_le F g; omega) he, endAux_nf sep _ _ _ sep.head he⟩

theorem append_sim {F : Term → Bool} {g : Graph} {h e : Term} {fr : Nat} (sep : Sep F g h)
    (hfr : F fr = false) (he : endOf (own F g) h = .ok e) (item : Term) :
    simS F g (append ⟨g, fr⟩ h item) (append ⟨own F g, fr⟩ h item) := by
  obtain ⟨he', heF⟩ := endOf_of_own sep he
  unfold append
  simp only [he, he']
  by_cases c1 : e = NIL
  · simp only [if_pos c1]; exact simS_err _ _ _
  · simp only [if_neg c1, hasSP_own _ heF]
    by_cases c2 : hasSP g e FIRST = true
    · simp only [if_pos c2]
      refine ⟨?_, rfl, ?_⟩
      · rw [own_add _ (by exact hfr), own_add _ (by exact hfr), own_gset _ _ _ heF]
      · rw [foreign_add _ (by exact hfr), foreign_add _ (by exact hfr), foreign_gset _ _ _ heF]
    · simp only [if_neg c2]
      refine ⟨?_, rfl, ?_⟩
      · rw [own_add _ (by exact heF), own_add _ (by exact heF)]
      · rw [foreign_add _ (by exact heF), foreign_add _ (by exact heF)]

theorem iaddLoop_sim {F : Term → Bool} :
    ∀ (xs : List Term) (g : Graph) (fr : Nat) (e : Term), F e = false → (∀ n, fr ≤ n → F n = false) →
      own F (iaddLoop g fr e xs).1 = (iaddLoop (own F g) fr e xs).1 ∧
      (iaddLoop g fr e xs).2 = (iaddLoop (own F g) fr e xs).2 ∧
      foreign F (iaddLoop g fr e xs).1 = foreign F g ∧ F (iaddLoop g fr e xs).2.2 = false := by
  intro xs
  induction xs with
  | nil => intro g fr e he _; exact ⟨rfl, rfl, rfl, he⟩
  | cons x xs ih =>
    intro g fr e he hfr
    have hf : F fr = false := hfr fr (Nat.le_refl _)
    simp only [iaddLoop, hasSP_own _ he]
    by_cases c : hasSP g e FIRST = true
    · simp only [if_pos c]
      have := ih (add (add g (e, REST, fr)) (fr, FIRST, x)) (fr + 1) fr hf (fun n hn => hfr n (by omega))
      rw [own_add _ (by exact hf), own_add _ (by exact he)] at this
      rw [foreign_add _ (by exact hf), foreign_add _ (by exact he)] at this
      exact this
    · simp only [if_neg c]
      have := ih (add g (e, FIRST, x)) fr e he hfr
      rw [own_add _ (by exact he)] at this
      rw [foreign_add _ (by exact he)] at this
      exact this

theorem iadd_sim {F : Term → Bool} {g : Graph} {h e : Term} {fr : Nat} (sep : Sep F g h)
    (hfr : ∀ n, fr ≤ n → F n = false) (he : endOf (own F g) h = .ok e) (xs : List Term) :
    simS F g (iadd ⟨g, fr⟩ h xs) (iadd ⟨own F g, fr⟩ h xs) := by
  obtain ⟨he', heF⟩ := endOf_of_own sep he
  unfold iadd
  simp only [he, he']
  by_cases c1 : e = NIL
  · simp only [if_pos c1]; exact simS_err _ _ _
  · simp only [if_neg c1]
    obtain ⟨h1, h2, h3, h4⟩ := iaddLoop_sim xs (removeSP g e REST) fr e heF hfr
    rw [own_removeSP] at h1 h2
    rw [foreign_removeSP _ _ heF] at h3
    rw [← h1, ← h2, hasSP_own _ h4]
    by_cases c2 : hasSP (iaddLoop (removeSP g e REST) fr e xs).1 (iaddLoop (removeSP g e REST) fr e xs).2.2 FIRST = true
    · simp only [if_pos c2]
      exact ⟨own_add _ (by exact h4), rfl, by rw [foreign_add _ (by exact h4)]; exact h3⟩
    · simp only [if_neg c2]
      exact ⟨rfl, rfl, h3⟩

/-! ### `clear` -/

theorem clearAux_mono :
    ∀ (f f' : Nat) (g : Graph) (oc : Option Term) (g' : Graph), f ≤ f' → clearAux f g oc = .ok g' →
      clearAux f' g oc = .ok g' := by
  intro f
  induction f with
  | zero =>
    intro f' g oc g' _ he
    cases oc with
    | none => rw [clearAux_none] at he ⊢; exact he
    | some c => simp [clearAux] at he
  | succ f ih =>
    intro f' g oc g' hle he
    obtain ⟨f', rfl⟩ : ∃ k, f' = k + 1 := ⟨f' - 1, by omega⟩
    cases oc with
    | none => rw [clearAux_none] at he ⊢; exact he
    | some c =>
      simp only [clearAux] at he ⊢
      exact ih f' _ _ g' (by omega) he

theorem clearAux_sim {F : Term → Bool} :
    ∀ (f : Nat) (g : Graph) (oc : Option Term) (g'' : Graph),
      (∀ c o, F c = false → (c, REST, o) ∈ g → F o = false) → (∀ c, oc = some c → F c = false) →
      clearAux f (own F g) oc = .ok g'' →
      ∃ g', clearAux f g oc = .ok g' ∧ own F g' = g'' ∧ foreign F g' = foreign F g := by
  intro f
  induction f with
  | zero =>
    intro g oc g'' _ _ he
    cases oc with
    | none => rw [clearAux_none] at he; cases he; exact ⟨g, clearAux_none _ _, rfl, rfl⟩
    | some c => simp [clearAux] at he
  | succ f ih =>
    intro g oc g'' hcl hoc he
    cases oc with
    | none => rw [clearAux_none] at he; cases he; exact ⟨g, clearAux_none _ _, rfl, rfl⟩
    | some c =>
      have hc := hoc c rfl
      simp only [clearAux, value_own _ hc, ← own_removeSP] at he
      obtain ⟨g', h1, h2, h3⟩ := ih (removeSP (removeSP g c FIRST) c REST) (value g c REST) g''
        (fun a o ha hm => hcl a o ha (mem_removeSP.mp (mem_removeSP.mp hm).1).1)
        (fun o ho => hcl c o hc (value_some_mem ho)) he
      refine ⟨g', by simp only [clearAux]; exact h1, h2, ?_⟩
      rw [h3, foreign_removeSP _ _ hc, foreign_removeSP _ _ hc]

theorem clear_sim {F : Term → Bool} {g : Graph} {h : Term} {g'' : Graph} (sep : Sep F g h)
    (he : clear (own F g) h = .ok g'') :
    ∃ g', clear g h = .ok g' ∧ own F g' = g'' ∧ foreign F g' = foreign F g := by
  unfold clear at he ⊢
  have he' := clearAux_mono _ (g.length + 2) _ _ _ (by have := own_length_le F g; omega) he
  exact clearAux_sim _ g (some h) g'' sep.closed (fun c e => by cases e; exact sep.head) he'

end RV.C19
