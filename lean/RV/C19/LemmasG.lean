import RV.C19.LemmasOps
/-
  C19 helper lemmas, round g, part 1: what exactly `c[len(c)] = x` does (known finding C19-K1).
-/
namespace RV.C19

/-- `Graph.items` on a closed segment when rdf:nil itself carries an rdf:first (`vf`): the walk
    goes *through* rdf:nil and yields that object as one more item. -/
theorem itemsAux_cells_nilfirst {g : Graph} (vf : Option Term) (hnilF : value g NIL FIRST = vf)
    (hnilR : value g NIL REST = none) :
    ∀ (ps : List Cell) (f : Nat) (chain : List Term), Cells g (some NIL) ps → (ps.map Prod.fst).Nodup →
      ps.length < f → (∀ c ∈ after ps, c ∉ chain) →
      itemsAux g f (hdN ps) chain = (ps.map Prod.snd ++ vf.toList, none) := by
  intro ps
  induction ps with
  | nil =>
    intro f chain _ _ hf _
    cases f with
    | zero => omega
    | succ f => simp [itemsAux, hdN, hnilF, hnilR]
  | cons q ps ih =>
    obtain ⟨c, x⟩ := q
    intro f chain hc hnd hf hch
    cases f with
    | zero => omega
    | succ f =>
      have hnot : hdN ps ∉ chain := hch _ (hdN_mem_after _ _)
      have hnd' : (ps.map Prod.fst).Nodup := by
        simp only [List.map_cons, List.nodup_cons] at hnd; exact hnd.2
      have := ih f (hdN ps :: chain) hc.2.2.2 hnd' (by simp only [List.length_cons] at hf; omega)
        (after_tail hc hnd hch)
      show itemsAux g (f + 1) c chain = _
      simp only [itemsAux, cells_value_rest hc, cells_value_first hc, if_neg hnot, this,
        Option.toList_some, List.map_cons, List.cons_append, List.nil_append]

/-- the cell `c[len(c)] = x` writes to: the head of an empty collection, rdf:nil otherwise -/
def cellAtLen (h : Term) (ps : List Cell) : Term := if ps = [] then h else NIL

theorem length_gset_le (g : Graph) (s p o : Term) : (gset g s p o).length ≤ g.length + 1 := by
  unfold gset add sinsert removeSP
  split
  · exact Nat.le_succ_of_le (List.length_filter_le _ _)
  · simp only [List.length_append, List.length_cons, List.length_nil]
    have := List.length_filter_le (fun t : Triple => !(t.1 == s && t.2.1 == p)) g
    omega

/-- `c[len(c)] = v` is accepted, writes `(rdf:nil | empty head) rdf:first v`, after which the collection
    reads as `xs ++ [v]` although the graph no longer holds a well-formed chain for `h`. -/
theorem Inv.setItem_at_len {s : St} {h : Term} {ps : List Cell} (inv : Inv s h ps) (v : Term) :
    setItem s.g h (ps.length : Int) v = .ok (gset s.g (cellAtLen h ps) FIRST v) ∧
      iter (gset s.g (cellAtLen h ps) FIRST v) h = .ok (ps.map Prod.snd ++ [v]) ∧
      ¬ ∃ ps', Chain (gset s.g (cellAtLen h ps) FIRST v) h (some NIL) ps' := by
  have hFR : FIRST ≠ REST := by decide
  have hnk : normK ps.length (ps.length : Int) = some ps.length := by
    unfold normK
    rw [if_neg (by omega)]
    simp
  have hset : setItem s.g h (ps.length : Int) v = .ok (gset s.g (cellAtLen h ps) FIRST v) := by
    unfold RV.C19.setItem
    rw [inv.chain.normIdx, hnk]
    simp only [inv.chain.getContainer ps.length, cellAtLen]
    by_cases hps : ps = []
    · subst hps; simp
    · simp [hps, hdN]
  refine ⟨hset, ?_, ?_⟩
  · by_cases hps : ps = []
    · subst hps
      simp only [cellAtLen, if_true, List.map_nil, List.nil_append]
      have h2 : value (gset s.g h FIRST v) h REST = none := by
        apply value_absent
        intro o hm
        rw [mem_gset] at hm
        rcases hm with e | ⟨hm, _⟩
        · simp only [Prod.mk.injEq] at e; exact hFR e.2.1.symm
        · exact inv.chain.empty_no_triple (Or.inr rfl) hm
      have h1 : value (gset s.g h FIRST v) h FIRST = some v := by
        apply value_unique
        intro o
        rw [mem_gset]
        simp
      simp [RV.C19.iter, items, itemsAux, h1, h2]
    · simp only [cellAtLen, if_neg hps]
      have hnil := cells_not_nil inv.chain.cells
      have hcells : Cells (gset s.g NIL FIRST v) (some NIL) ps := by
        apply cells_frame inv.chain.cells
        intro c p o hc _
        have : c ≠ NIL := fun e => hnil (e ▸ hc)
        simp [mem_gset, this]
      have h1 : value (gset s.g NIL FIRST v) NIL FIRST = some v := by
        apply value_unique
        intro o
        rw [mem_gset]
        simp
      have h2 : value (gset s.g NIL FIRST v) NIL REST = none := by
        apply value_absent
        intro o hm
        rw [mem_gset] at hm
        rcases hm with e | ⟨hm, _⟩
        · simp only [Prod.mk.injEq] at e; exact hFR e.2.1.symm
        · exact inv.chain.nil_free (Or.inr rfl) hm
      have hit := itemsAux_cells_nilfirst (some v) h1 h2 ps ((gset s.g NIL FIRST v).length + 2) [h] hcells
        inv.chain.nodup
      have hlen : ps.length ≤ (gset s.g NIL FIRST v).length := by
        have := length_le_of_nodup_subset _ _ inv.chain.nodup (cells_subject_mem hcells)
        simpa using this
      have hit := hit (by omega) (by
        cases ps with
        | nil => exact absurd rfl hps
        | cons q ps =>
          obtain ⟨c0, x0⟩ := q
          have hh : c0 = h := inv.chain.hdN_eq (by simp)
          subst hh
          intro a ha hm
          simp only [List.mem_singleton] at hm
          subst hm
          simp only [after, List.mem_append, List.mem_singleton] at ha
          rcases ha with ha | ha
          · have := inv.chain.nodup
            simp only [List.map_cons, List.nodup_cons] at this
            exact this.1 ha
          · exact inv.chain.cells.1 ha)
      rw [inv.chain.hdN_eq hps] at hit
      simp [RV.C19.iter, items, hit]
  · rintro ⟨ps', ch'⟩
    by_cases hps : ps = []
    · subst hps
      simp only [cellAtLen, if_true] at ch'
      have hm : (h, FIRST, v) ∈ gset s.g h FIRST v := by rw [mem_gset]; exact Or.inl rfl
      have hin := ch'.noOrphan _ _ _ hm (Or.inl rfl)
      cases ps' with
      | nil => simp at hin
      | cons q ps' =>
        obtain ⟨c0, x0⟩ := q
        have hh : c0 = h := ch'.hdN_eq (by simp)
        subst hh
        have hr := (ch'.cells.2.2.1 (hdN ps')).2 (by rw [hd_some_nil])
        rw [mem_gset] at hr
        rcases hr with e | ⟨hr, _⟩
        · simp only [Prod.mk.injEq] at e; exact hFR e.2.1.symm
        · exact inv.chain.empty_no_triple (Or.inr rfl) hr
    · simp only [cellAtLen, if_neg hps] at ch'
      exact ch'.nil_free (Or.inl rfl) (o := v) (by rw [mem_gset]; exact Or.inl rfl)

/-! ### another Collection object over the same chain (`g.collection(c.uri)`, or opened on a tail cell) -/

/-- `Graph.items` started on the k-th cell of a well-formed chain (the head for `k = 0`, rdf:nil for
    `k = len`) yields the tail of the list from position `k` -/
theorem Inv.items_view {s : St} {h : Term} {ps : List Cell} (inv : Inv s h ps) {k : Nat} {c : Term}
    (hc : getContainer s.g (some h) k = some c) : items s.g c = ((ps.drop k).map Prod.snd, none) := by
  rw [inv.chain.getContainer k] at hc
  by_cases hps : ps = []
  · subst hps
    rw [if_pos rfl] at hc
    by_cases hk : k = 0
    · rw [if_pos hk] at hc
      cases hc
      simpa using inv.chain.items
    · rw [if_neg hk] at hc; cases hc
  · rw [if_neg hps] at hc
    by_cases hk : k ≤ ps.length
    · rw [if_pos hk] at hc
      cases hc
      have hcells := cells_drop inv.chain.cells k
      have hnd : ((ps.drop k).map Prod.fst).Nodup := by
        rw [List.map_drop]
        exact inv.chain.nodup.sublist (List.drop_sublist k _)
      have hlen : (ps.drop k).length ≤ s.g.length := by
        have := inv.chain.length_le
        simp only [List.length_drop]
        omega
      unfold items
      apply itemsAux_cells (inv.chain.value_nil (Or.inl rfl)) (inv.chain.value_nil (Or.inr rfl)) _ _ _ hcells hnd
        (by omega)
      generalize ps.drop k = qs at hcells hnd
      cases qs with
      | nil => simp [after]
      | cons q qs =>
        obtain ⟨c0, x0⟩ := q
        intro a ha hm
        simp only [hdN, List.mem_singleton] at hm
        subst hm
        simp only [after, List.mem_append, List.mem_singleton] at ha
        rcases ha with ha | ha
        · simp only [List.map_cons, List.nodup_cons] at hnd
          exact hnd.1 ha
        · exact hcells.1 ha
    · rw [if_neg hk] at hc; cases hc

end RV.C19
