import RV.C19.Lemmas
/-
  C19 helper lemmas, round g, part 2: the text `Collection.n3()` produces, and a reader of N3 list
  syntax (parametric in the term-level lexer) that recovers the list from it.
-/
namespace RV.C19

variable {α : Type}

/-- `" t1 t2 … tn"`: every member text preceded by one space -/
def n3Body (tok : α → List Char) : List α → List Char
  | [] => []
  | x :: xs => ' ' :: (tok x ++ n3Body tok xs)

theorem joinSp_cons (tok : α → List Char) (x : α) (xs : List α) :
    ' ' :: joinSp ((x :: xs).map tok) = n3Body tok (x :: xs) := by
  induction xs generalizing x with
  | nil => simp [joinSp, n3Body]
  | cons y ys ih =>
    have := ih y
    simp only [List.map_cons, joinSp, n3Body] at this ⊢
    rw [this]

/-- the text of `n3()`: `"(  )"` for the empty list, `"(" ++ " t1 … tn" ++ " )"` otherwise -/
theorem n3Text_eq (tok : α → List Char) (xs : List α) :
    n3Text tok xs = '(' :: (if xs = [] then [' '] else []) ++ (n3Body tok xs ++ [' ', ')']) := by
  cases xs with
  | nil => simp [n3Text, joinSp, n3Body]
  | cons x xs =>
    have := joinSp_cons tok x xs
    simp only [n3Text, List.cons_append, reduceCtorEq, if_false, List.nil_append]
    rw [← this]
    simp

/-- the term-level codec is self-delimiting in front of a blank for the terms satisfying `P`: member texts
    are non-empty, do not start with a blank, and the lexer takes exactly the member text off the front -/
def LexOKOn (P : α → Prop) (tok : α → List Char) (lex : List Char → Option (α × List Char)) : Prop :=
  ∀ x, P x → tok x ≠ [] ∧ (tok x).head? ≠ some ' ' ∧ ∀ rest, lex (tok x ++ ' ' :: rest) = some (x, ' ' :: rest)

def LexOK (tok : α → List Char) (lex : List Char → Option (α × List Char)) : Prop :=
  LexOKOn (fun _ => True) tok lex

theorem n3Body_tail_blank (tok : α → List Char) (xs : List α) :
    ∃ rest, n3Body tok xs ++ [' ', ')'] = ' ' :: rest := by
  cases xs with
  | nil => exact ⟨[')'], rfl⟩
  | cons x xs => exact ⟨_, rfl⟩

theorem n3Body_length (tok : α → List Char) (xs : List α) (hne : ∀ x ∈ xs, tok x ≠ []) :
    2 * xs.length ≤ (n3Body tok xs).length := by
  induction xs with
  | nil => simp [n3Body]
  | cons x xs ih =>
    have : 0 < (tok x).length := List.length_pos_iff.mpr (hne x List.mem_cons_self)
    have := ih (fun y hy => hne y (List.mem_cons_of_mem _ hy))
    simp only [n3Body, List.length_cons, List.length_append]
    omega

theorem readItems_body {P : α → Prop} {tok : α → List Char} {lex : List Char → Option (α × List Char)}
    (ok : LexOKOn P tok lex) :
    ∀ (xs : List α) (f : Nat), (∀ x ∈ xs, P x) → 2 * xs.length + 2 ≤ f →
      readItems lex f (n3Body tok xs ++ [' ', ')']) = some xs := by
  intro xs
  induction xs with
  | nil =>
    intro f _ hf
    obtain ⟨f, rfl⟩ : ∃ f', f = f' + 2 := ⟨f - 2, by omega⟩
    simp [n3Body, readItems]
  | cons x xs ih =>
    intro f hP hf
    obtain ⟨f, rfl⟩ : ∃ f', f = f' + 2 := ⟨f - 2, by omega⟩
    obtain ⟨hne, hhd, hlex⟩ := ok x (hP x List.mem_cons_self)
    obtain ⟨rest, hrest⟩ := n3Body_tail_blank tok xs
    have ih' := ih f (fun y hy => hP y (List.mem_cons_of_mem _ hy)) (by simp only [List.length_cons] at hf; omega)
    have h1 : (' ' :: (tok x ++ n3Body tok xs) ++ [' ', ')']) ≠ [')'] := by simp
    have h2 : tok x ++ (n3Body tok xs ++ [' ', ')']) ≠ [')'] := by
      rw [hrest]
      intro e
      have := congrArg List.length e
      have hp : 0 < (tok x).length := List.length_pos_iff.mpr hne
      simp only [List.length_append, List.length_cons, List.length_nil] at this
      omega
    have h3 : (tok x ++ (n3Body tok xs ++ [' ', ')'])).head? ≠ some ' ' := by
      cases ht : tok x with
      | nil => exact absurd ht hne
      | cons a as => rw [ht] at hhd; simpa using hhd
    have h4 : lex (tok x ++ (n3Body tok xs ++ [' ', ')'])) = some (x, n3Body tok xs ++ [' ', ')']) := by
      rw [hrest]; exact hlex rest
    show readItems lex (f + 1 + 1) (' ' :: (tok x ++ n3Body tok xs) ++ [' ', ')']) = _
    rw [readItems, if_neg h1]
    simp only [List.cons_append, List.head?_cons, if_true, List.tail_cons, List.append_assoc]
    rw [readItems, if_neg h2, if_neg h3, h4]
    simp only [ih']

/-- the reader recovers the list from the text `n3()` writes -/
theorem readN3_n3Text_on {P : α → Prop} {tok : α → List Char} {lex : List Char → Option (α × List Char)}
    (ok : LexOKOn P tok lex) (xs : List α) (hP : ∀ x ∈ xs, P x) : readN3 lex (n3Text tok xs) = some xs := by
  rw [n3Text_eq]
  have hlen := n3Body_length tok xs (fun x hx => (ok x (hP x hx)).1)
  cases xs with
  | nil => simp [readN3, n3Body, readItems]
  | cons x xs =>
    simp only [reduceCtorEq, if_false, List.cons_append, List.nil_append, readN3]
    apply readItems_body ok _ _ hP
    simp only [List.length_append, List.length_cons, List.length_nil] at hlen ⊢
    omega

theorem readN3_n3Text {tok : α → List Char} {lex : List Char → Option (α × List Char)}
    (ok : LexOK tok lex) (xs : List α) : readN3 lex (n3Text tok xs) = some xs :=
  readN3_n3Text_on ok xs (fun _ _ => trivial)

/-! a concrete self-delimiting codec (unary), to show `LexOK` is satisfiable -/

def tokU (x : Term) : List Char := List.replicate (x + 1) 'a'

def lexU : List Char → Option (Term × List Char)
  | 'a' :: cs =>
    match cs with
    | 'a' :: _ =>
      match lexU cs with
      | some (x, rest) => some (x + 1, rest)
      | none => none
    | _ => some (0, cs)
  | _ => none

theorem lexOK_unary : LexOK tokU lexU := by
  intro x _
  refine ⟨by simp [tokU], by simp [tokU, List.replicate_succ], ?_⟩
  intro rest
  induction x with
  | zero => simp [tokU, List.replicate_succ, lexU]
  | succ n ih =>
    simp only [tokU, List.replicate_succ, List.cons_append] at ih ⊢
    rw [lexU]
    simp only [ih]

/-! ### rdflib's real term syntax is self-delimiting -/

theorem untilC_append (d : Char) (a r : List Char) (ha : d ∉ a) : untilC d (a ++ d :: r) = some (a, r) := by
  induction a with
  | nil => simp [untilC]
  | cons c a ih =>
    simp only [List.mem_cons, not_or] at ha
    have hc : c ≠ d := fun e => ha.1 e.symm
    simp only [List.cons_append, untilC, if_neg hc, ih ha.2]

theorem word_append (a r : List Char) (ha : ' ' ∉ a) : word (a ++ ' ' :: r) = (a, ' ' :: r) := by
  induction a with
  | nil => simp [word]
  | cons c a ih =>
    simp only [List.mem_cons, not_or] at ha
    have hc : c ≠ ' ' := fun e => ha.1 e.symm
    simp only [List.cons_append, word, if_neg hc, ih ha.2]

theorem unesc_esc (x r : List Char) : unesc (esc x ++ '"' :: r) = some (x, r) := by
  induction x with
  | nil =>
    show unesc ('"' :: r) = _
    rw [unesc.eq_def]
    simp
  | cons c x ih =>
    by_cases h1 : c = '\\'
    · subst h1
      simp [esc, escC, unesc, ih]
    · by_cases h2 : c = '"'
      · subst h2
        simp [esc, escC, unesc, ih]
      · by_cases h3 : c = '\r'
        · subst h3
          simp [esc, escC, unesc, ih]
        · have e : esc (c :: x) ++ '"' :: r = c :: (esc x ++ '"' :: r) := by simp [esc, escC, h1, h2, h3]
          rw [e, unesc.eq_def]
          simp [h1, h2, ih]

/-- the terms whose `n3()` the model writes faithfully and the lexer reads back: no `>` in IRIs, no blank in
    blank-node ids and language tags, no line feed in a lexical form (rdflib switches to `"""…"""` then),
    not both a datatype and a language -/
def WFR : RTerm → Prop
  | .iri u => '>' ∉ u
  | .bnode id => ' ' ∉ id
  | .lit x (some d) l => '\n' ∉ x ∧ '>' ∉ d ∧ l = none
  | .lit x none (some l) => '\n' ∉ x ∧ ' ' ∉ l
  | .lit x none none => '\n' ∉ x

theorem lexOK_real : LexOKOn WFR tokR lexR := by
  intro t ht
  cases t with
  | iri u =>
    refine ⟨by simp [tokR], by simp [tokR], fun rest => ?_⟩
    have := untilC_append '>' u (' ' :: rest) ht
    simp [tokR, lexR, this]
  | bnode id =>
    refine ⟨by simp [tokR], by simp [tokR], fun rest => ?_⟩
    have := word_append id rest ht
    simp [tokR, lexR, this]
  | lit x d l =>
    cases d with
    | some d =>
      obtain ⟨_, hd, hl⟩ := ht
      subst hl
      refine ⟨by simp [tokR], by simp [tokR], fun rest => ?_⟩
      have h1 := unesc_esc x ('^' :: '^' :: '<' :: (d ++ '>' :: ' ' :: rest))
      have h2 := untilC_append '>' d (' ' :: rest) hd
      simp [tokR, lexR, h1, h2]
    | none =>
      cases l with
      | some l =>
        refine ⟨by simp [tokR], by simp [tokR], fun rest => ?_⟩
        have h1 := unesc_esc x ('@' :: (l ++ ' ' :: rest))
        have h2 := word_append l rest ht.2
        simp [tokR, lexR, h1, h2]
      | none =>
        refine ⟨by simp [tokR], by simp [tokR], fun rest => ?_⟩
        have h1 := unesc_esc x (' ' :: rest)
        simp [tokR, lexR, h1]

end RV.C19
