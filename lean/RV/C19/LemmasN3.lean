import RV.C19.Lemmas
/-
  C19 helper lemmas, round g, part 2: the text `Collection.n3()` produces, and a reader of N3 list
  syntax (parametric in the term-level lexer) that recovers the list from it.
-/
namespace RV.C19

/-- `" t1 t2 … tn"`: every member text preceded by one space -/
def n3Body (tok : Term → List Char) : List Term → List Char
  | [] => []
  | x :: xs => ' ' :: (tok x ++ n3Body tok xs)

theorem joinSp_cons (tok : Term → List Char) (x : Term) (xs : List Term) :
    ' ' :: joinSp ((x :: xs).map tok) = n3Body tok (x :: xs) := by
  induction xs generalizing x with
  | nil => simp [joinSp, n3Body]
  | cons y ys ih =>
    have := ih y
    simp only [List.map_cons, joinSp, n3Body] at this ⊢
    rw [this]

/-- the text of `n3()`: `"(  )"` for the empty list, `"(" ++ " t1 … tn" ++ " )"` otherwise -/
theorem n3Text_eq (tok : Term → List Char) (xs : List Term) :
    n3Text tok xs = '(' :: (if xs = [] then [' '] else []) ++ (n3Body tok xs ++ [' ', ')']) := by
  cases xs with
  | nil => simp [n3Text, joinSp, n3Body]
  | cons x xs =>
    have := joinSp_cons tok x xs
    simp only [n3Text, List.cons_append, reduceCtorEq, if_false, List.nil_append]
    rw [← this]
    simp

/-- A reader of the inside of an N3 list `( … )`: skips blanks, stops at the closing parenthesis, and
    otherwise lets the term-level lexer `lex` take one term off the front.  Fuel = characters left. -/
def readItems (lex : List Char → Option (Term × List Char)) : Nat → List Char → Option (List Term)
  | 0, _ => none
  | f + 1, cs =>
    if cs = [')'] then some []
    else if cs.head? = some ' ' then readItems lex f cs.tail
    else
      match lex cs with
      | none => none
      | some (x, rest) =>
        match readItems lex f rest with
        | some xs => some (x :: xs)
        | none => none

def readN3 (lex : List Char → Option (Term × List Char)) : List Char → Option (List Term)
  | '(' :: cs => readItems lex cs.length cs
  | _ => none

/-- the term-level codec is self-delimiting in front of a blank: member texts are non-empty, do not
    start with a blank, and the lexer takes exactly the member text off the front -/
def LexOK (tok : Term → List Char) (lex : List Char → Option (Term × List Char)) : Prop :=
  ∀ x, tok x ≠ [] ∧ (tok x).head? ≠ some ' ' ∧ ∀ rest, lex (tok x ++ ' ' :: rest) = some (x, ' ' :: rest)

theorem n3Body_tail_blank (tok : Term → List Char) (xs : List Term) :
    ∃ rest, n3Body tok xs ++ [' ', ')'] = ' ' :: rest := by
  cases xs with
  | nil => exact ⟨[')'], rfl⟩
  | cons x xs => exact ⟨_, rfl⟩

theorem n3Body_length (tok : Term → List Char) (hne : ∀ x, tok x ≠ []) (xs : List Term) :
    2 * xs.length ≤ (n3Body tok xs).length := by
  induction xs with
  | nil => simp [n3Body]
  | cons x xs ih =>
    have : 0 < (tok x).length := List.length_pos_iff.mpr (hne x)
    simp only [n3Body, List.length_cons, List.length_append]
    omega

theorem readItems_body {tok : Term → List Char} {lex : List Char → Option (Term × List Char)}
    (ok : LexOK tok lex) :
    ∀ (xs : List Term) (f : Nat), 2 * xs.length + 2 ≤ f →
      readItems lex f (n3Body tok xs ++ [' ', ')']) = some xs := by
  intro xs
  induction xs with
  | nil =>
    intro f hf
    obtain ⟨f, rfl⟩ : ∃ f', f = f' + 2 := ⟨f - 2, by omega⟩
    simp [n3Body, readItems]
  | cons x xs ih =>
    intro f hf
    obtain ⟨f, rfl⟩ : ∃ f', f = f' + 2 := ⟨f - 2, by omega⟩
    obtain ⟨hne, hhd, hlex⟩ := ok x
    obtain ⟨rest, hrest⟩ := n3Body_tail_blank tok xs
    have ih' := ih f (by simp only [List.length_cons] at hf; omega)
    have h1 : (' ' :: (tok x ++ n3Body tok xs) ++ [' ', ')']) ≠ [')'] := by simp
    have h2 : tok x ++ (n3Body tok xs ++ [' ', ')']) ≠ [')'] := by
      rw [hrest]
      intro e
      have := congrArg List.length e
      have hp : 0 < (tok x).length := List.length_pos_iff.mpr hne
      simp only [List.length_append, List.length_cons, List.length_nil] at this
      omega
    have h3 : (tok x ++ (n3Body tok xs ++ [' ', ')'])).head? ≠ some ' ' := by
      cases ht : tok x with
      | nil => exact absurd ht hne
      | cons a as => rw [ht] at hhd; simpa using hhd
    have h4 : lex (tok x ++ (n3Body tok xs ++ [' ', ')'])) = some (x, n3Body tok xs ++ [' ', ')']) := by
      rw [hrest]; exact hlex rest
    show readItems lex (f + 1 + 1) (' ' :: (tok x ++ n3Body tok xs) ++ [' ', ')']) = _
    rw [readItems, if_neg h1]
    simp only [List.cons_append, List.head?_cons, if_true, List.tail_cons, List.append_assoc]
    rw [readItems, if_neg h2, if_neg h3, h4]
    simp only [ih']

/-- the reader recovers the list from the text `n3()` writes -/
theorem readN3_n3Text {tok : Term → List Char} {lex : List Char → Option (Term × List Char)}
    (ok : LexOK tok lex) (xs : List Term) : readN3 lex (n3Text tok xs) = some xs := by
  rw [n3Text_eq]
  have hlen := n3Body_length tok (fun x => (ok x).1) xs
  cases xs with
  | nil => simp [readN3, n3Body, readItems]
  | cons x xs =>
    simp only [reduceCtorEq, if_false, List.cons_append, List.nil_append, readN3]
    apply readItems_body ok
    simp only [List.length_append, List.length_cons, List.length_nil] at hlen ⊢
    omega

/-! a concrete self-delimiting codec (unary), to show `LexOK` is satisfiable -/

def tokU (x : Term) : List Char := List.replicate (x + 1) 'a'

def lexU : List Char → Option (Term × List Char)
  | 'a' :: cs =>
    match cs with
    | 'a' :: _ =>
      match lexU cs with
      | some (x, rest) => some (x + 1, rest)
      | none => none
    | _ => some (0, cs)
  | _ => none

theorem lexOK_unary : LexOK tokU lexU := by
  intro x
  refine ⟨by simp [tokU], by simp [tokU, List.replicate_succ], ?_⟩
  intro rest
  induction x with
  | zero => simp [tokU, List.replicate_succ, lexU]
  | succ n ih =>
    simp only [tokU, List.replicate_succ, List.cons_append] at ih ⊢
    rw [lexU]
    simp only [ih]

end RV.C19
