import RV.C19.LemmasOps
import RV.C19.LemmasTotal
/-
  C19 helper lemmas, round g, part 3: separation.  A `Collection` only ever looks at, and writes to, the
  triples whose subject is its head, one of its cells (reached over rdf:rest), rdf:nil or a blank node it
  minted.  For any set `F` of *foreign* subjects that this walk cannot reach, every operation on the whole
  graph `g` is the operation on `own F g` (the graph without the foreign subjects' triples), and the foreign
  triples are left exactly as they were.  The foreign part may hold anything: other collections, the private
  prefix of a collection that shares its tail with this one, malformed list triples.
-/
namespace RV.C19

def own (F : Term → Bool) (g : Graph) : Graph := g.filter (fun t => !F t.1)
def foreign (F : Term → Bool) (g : Graph) : Graph := g.filter (fun t => F t.1)

theorem mem_own {F : Term → Bool} {g : Graph} {t : Triple} : t ∈ own F g ↔ t ∈ g ∧ F t.1 = false := by
  simp [own]

theorem own_cons (F : Term → Bool) (t : Triple) (g : Graph) :
    own F (t :: g) = if F t.1 = true then own F g else t :: own F g := by
  by_cases h : F t.1 = true <;> simp [own, h]

theorem own_length_le (F : Term → Bool) (g : Graph) : (own F g).length ≤ g.length :=
  List.length_filter_le _ _

theorem value_own {F : Term → Bool} {g : Graph} {s : Term} (p : Term) (hs : F s = false) :
    value (own F g) s p = value g s p := by
  induction g with
  | nil => rfl
  | cons t g ih =>
    obtain ⟨s', p', o⟩ := t
    rw [own_cons]
    by_cases hf : F s' = true
    · have hne : ¬(s' = s ∧ p' = p) := fun e => by rw [e.1, hs] at hf; cases hf
      rw [if_pos hf]
      simp only [value, if_neg hne]
      exact ih
    · rw [if_neg hf]
      simp only [value]
      split
      · rfl
      · exact ih

theorem objects_own {F : Term → Bool} {g : Graph} {s : Term} (p : Term) (hs : F s = false) :
    objects (own F g) s p = objects g s p := by
  induction g with
  | nil => rfl
  | cons t g ih =>
    obtain ⟨s', p', o⟩ := t
    rw [own_cons]
    by_cases hf : F s' = true
    · have hne : ¬(s' = s ∧ p' = p) := fun e => by rw [e.1, hs] at hf; cases hf
      rw [if_pos hf]
      simp only [objects, if_neg hne]
      exact ih
    · rw [if_neg hf]
      simp only [objects]
      split
      · rw [ih]
      · exact ih

theorem hasSP_own {F : Term → Bool} {g : Graph} {s : Term} (p : Term) (hs : F s = false) :
    hasSP (own F g) s p = hasSP g s p := by
  simp only [hasSP, value_own p hs]

/-! ### the primitives commute with the projection -/

theorem own_removeSP (F : Term → Bool) (g : Graph) (s p : Term) :
    own F (removeSP g s p) = removeSP (own F g) s p := by
  simp only [own, removeSP, List.filter_filter]
  exact List.filter_congr (fun t _ => Bool.and_comm _ _)

theorem own_removeS (F : Term → Bool) (g : Graph) (s : Term) :
    own F (removeS g s) = removeS (own F g) s := by
  simp only [own, removeS, List.filter_filter]
  exact List.filter_congr (fun t _ => Bool.and_comm _ _)

theorem own_add {F : Term → Bool} (g : Graph) {t : Triple} (ht : F t.1 = false) :
    own F (add g t) = add (own F g) t := by
  unfold add sinsert
  by_cases hm : t ∈ g
  · rw [if_pos hm, if_pos (mem_own.mpr ⟨hm, ht⟩)]
  · rw [if_neg hm, if_neg (fun h => hm (mem_own.mp h).1)]
    simp [own, List.filter_append, ht]

theorem own_gset {F : Term → Bool} (g : Graph) {s : Term} (p o : Term) (hs : F s = false) :
    own F (gset g s p o) = gset (own F g) s p o := by
  unfold gset
  rw [own_add _ (by exact hs), own_removeSP]

theorem foreign_removeSP {F : Term → Bool} (g : Graph) {s : Term} (p : Term) (hs : F s = false) :
    foreign F (removeSP g s p) = foreign F g := by
  simp only [foreign, removeSP, List.filter_filter]
  apply List.filter_congr
  intro t _
  by_cases hf : F t.1 = true
  · have : t.1 ≠ s := fun e => by rw [e, hs] at hf; cases hf
    simp [hf, this]
  · simp [hf]

theorem foreign_removeS {F : Term → Bool} (g : Graph) {s : Term} (hs : F s = false) :
    foreign F (removeS g s) = foreign F g := by
  simp only [foreign, removeS, List.filter_filter]
  apply List.filter_congr
  intro t _
  by_cases hf : F t.1 = true
  · have : t.1 ≠ s := fun e => by rw [e, hs] at hf; cases hf
    simp [hf, this]
  · simp [hf]

theorem foreign_add {F : Term → Bool} (g : Graph) {t : Triple} (ht : F t.1 = false) :
    foreign F (add g t) = foreign F g := by
  unfold add sinsert
  split
  · rfl
  · simp [foreign, List.filter_append, ht]

theorem foreign_gset {F : Term → Bool} (g : Graph) {s : Term} (p o : Term) (hs : F s = false) :
    foreign F (gset g s p o) = foreign F g := by
  unfold gset
  rw [foreign_add _ (by exact hs), foreign_removeSP _ _ hs]

/-! ### the walks never leave the own part -/

/-- the foreign subjects cannot be reached from the head over rdf:rest -/
structure Sep (F : Term → Bool) (g : Graph) (h : Term) : Prop where
  head : F h = false
  nil : F NIL = false
  closed : ∀ c o, F c = false → (c, REST, o) ∈ g → F o = false

theorem getContainer_own {F : Term → Bool} {g : Graph} {h : Term} (sep : Sep F g h) :
    ∀ (k : Nat) (oc : Option Term), (∀ c, oc = some c → F c = false) →
      getContainer (own F g) oc k = getContainer g oc k ∧
        ∀ c, getContainer g oc k = some c → F c = false := by
  intro k
  induction k with
  | zero =>
    intro oc hoc
    cases oc <;> exact ⟨rfl, by simpa [getContainer] using hoc⟩
  | succ k ih =>
    intro oc hoc
    cases oc with
    | none => exact ⟨rfl, by simp [getContainer]⟩
    | some c =>
      have hc := hoc c rfl
      simp only [getContainer, value_own REST hc]
      exact ih (value g c REST) (fun o ho => sep.closed c o hc (value_some_mem ho))

theorem itemsAux_own {F : Term → Bool} {g : Graph} {h : Term} (sep : Sep F g h) :
    ∀ (f : Nat) (l : Term) (chain : List Term), F l = false →
      itemsAux (own F g) f l chain = itemsAux g f l chain := by
  intro f
  induction f with
  | zero => intro l chain _; rfl
  | succ f ih =>
    intro l chain hl
    simp only [itemsAux, value_own _ hl]
    cases hv : value g l REST with
    | none => rfl
    | some n =>
      have hn := sep.closed l n hl (value_some_mem hv)
      simp only [ih n (n :: chain) hn]

theorem itemsAux_mono {g : Graph} :
    ∀ (f f' : Nat) (l : Term) (chain : List Term), f ≤ f' → (itemsAux g f l chain).2 ≠ some .fuel →
      itemsAux g f' l chain = itemsAux g f l chain := by
  intro f
  induction f with
  | zero => intro f' l chain _ hne; exact absurd rfl hne
  | succ f ih =>
    intro f' l chain hle hne
    obtain ⟨f', rfl⟩ : ∃ k, f' = k + 1 := ⟨f' - 1, by omega⟩
    simp only [itemsAux] at hne ⊢
    cases hv : value g l REST with
    | none => rfl
    | some n =>
      simp only [hv] at hne
      by_cases hn : n ∈ chain
      · simp only [if_pos hn]
      · simp only [if_neg hn] at hne ⊢
        rw [ih f' n (n :: chain) (by omega) hne]

theorem items_own {F : Term → Bool} {g : Graph} {h : Term} (sep : Sep F g h) :
    items (own F g) h = items g h := by
  have h1 : items (own F g) h = itemsAux g ((own F g).length + 2) h [h] := itemsAux_own sep _ _ _ sep.head
  have hnf := items_no_fuel (own F g) h
  rw [h1] at hnf
  rw [h1]
  exact (itemsAux_mono _ (g.length + 2) h [h] (by have := own_length_le F g; omega) hnf).symm

theorem len_own {F : Term → Bool} {g : Graph} {h : Term} (sep : Sep F g h) : len (own F g) h = len g h := by
  simp only [len, items_own sep]

theorem iter_own {F : Term → Bool} {g : Graph} {h : Term} (sep : Sep F g h) : iter (own F g) h = iter g h := by
  simp only [iter, items_own sep]

theorem contains_own {F : Term → Bool} {g : Graph} {h : Term} (sep : Sep F g h) (x : Term) :
    contains (own F g) h x = contains g h x := by
  simp only [contains, items_own sep]

theorem indexAux_own {F : Term → Bool} {g : Graph} {h : Term} (sep : Sep F g h) (item : Term) :
    ∀ (f : Nat) (l : Term) (i : Nat) (chain : List Term), F l = false →
      indexAux (own F g) item f l i chain = indexAux g item f l i chain := by
  intro f
  induction f with
  | zero => intro l i chain _; rfl
  | succ f ih =>
    intro l i chain hl
    have hm : ((l, FIRST, item) ∈ own F g) = ((l, FIRST, item) ∈ g) := by
      simp only [mem_own, hl, and_true]
    simp only [indexAux, hm, objects_own _ hl]
    split
    · rfl
    · split
      · rfl
      · next n hobj =>
        have hn : F n = false :=
          sep.closed l n hl (mem_objects.mp (by rw [hobj]; exact List.mem_singleton.mpr rfl))
        simp only [ih n (i + 1) (n :: chain) hn]
      · rfl

theorem indexAux_mono {g : Graph} (item : Term) :
    ∀ (f f' : Nat) (l : Term) (i : Nat) (chain : List Term), f ≤ f' →
      indexAux g item f l i chain ≠ .error .fuel →
      indexAux g item f' l i chain = indexAux g item f l i chain := by
  intro f
  induction f with
  | zero => intro f' l i chain _ hne; exact absurd rfl hne
  | succ f ih =>
    intro f' l i chain hle hne
    obtain ⟨f', rfl⟩ : ∃ k, f' = k + 1 := ⟨f' - 1, by omega⟩
    simp only [indexAux] at hne ⊢
    split
    · rfl
    · next hnm =>
      simp only [if_neg hnm] at hne
      split
      · rfl
      · next n hobj =>
        simp only [hobj] at hne
        by_cases h1 : n = NIL
        · simp only [if_pos h1]
        · by_cases h2 : n ∈ chain
          · simp only [if_neg h1, if_pos h2]
          · simp only [if_neg h1, if_neg h2] at hne ⊢
            exact ih f' n (i + 1) (n :: chain) (by omega) hne
      · rfl

theorem index_own {F : Term → Bool} {g : Graph} {h : Term} (sep : Sep F g h) (item : Term) :
    index (own F g) h item = index g h item := by
  have h1 : index (own F g) h item = indexAux g item ((own F g).length + 2) h 0 [h] :=
    indexAux_own sep item _ _ _ _ sep.head
  have hnf := index_no_fuel (own F g) h item
  rw [h1] at hnf
  rw [h1]
  exact (indexAux_mono item _ (g.length + 2) h 0 [h] (by have := own_length_le F g; omega) hnf).symm

theorem normIdx_own {F : Term → Bool} {g : Graph} {h : Term} (sep : Sep F g h) (key : Int) :
    normIdx (own F g) h key = normIdx g h key := by
  simp only [normIdx, len_own sep]

theorem getC_own {F : Term → Bool} {g : Graph} {h : Term} (sep : Sep F g h) (k : Nat) :
    getContainer (own F g) (some h) k = getContainer g (some h) k :=
  (getContainer_own sep k (some h) (fun c e => by cases e; exact sep.head)).1

theorem getC_nf {F : Term → Bool} {g : Graph} {h : Term} (sep : Sep F g h) {k : Nat} {c : Term}
    (hc : getContainer g (some h) k = some c) : F c = false :=
  (getContainer_own sep k (some h) (fun c e => by cases e; exact sep.head)).2 c hc

theorem getAt_own {F : Term → Bool} {g : Graph} {h : Term} (sep : Sep F g h) (k : Nat) :
    getAt (own F g) h k = getAt g h k := by
  unfold getAt
  rw [getC_own sep]
  cases hc : getContainer g (some h) k with
  | none => rfl
  | some c => simp only [value_own _ (getC_nf sep hc)]

theorem getItem_own {F : Term → Bool} {g : Graph} {h : Term} (sep : Sep F g h) (key : Int) :
    getItem (own F g) h key = getItem g h key := by
  unfold getItem
  rw [normIdx_own sep]
  cases normIdx g h key with
  | error e => rfl
  | ok k => exact getAt_own sep k

end RV.C19
