import RV.C19.LemmasSep2
/-
  C19 helper lemmas, round g, part 5: one step of the history on the whole graph against the same step on
  the own part; the reachability condition `Sep` follows from the invariant of the own part.
-/
namespace RV.C19

theorem cells_rest_target {g : Graph} {ps : List Cell} (hc : Cells g (some NIL) ps) {c o : Term}
    (hm : c ∈ ps.map Prod.fst) (hr : (c, REST, o) ∈ g) : o = NIL ∨ o ∈ ps.map Prod.fst := by
  induction ps with
  | nil => simp at hm
  | cons q ps ih =>
    obtain ⟨c0, x0⟩ := q
    by_cases e : c = c0
    · subst e
      have := (hc.2.2.1 o).1 hr
      rw [hd_some_nil] at this
      have ho : o = hdN ps := Option.some.inj this
      cases ps with
      | nil => exact Or.inl ho
      | cons q' ps' => obtain ⟨c1, x1⟩ := q'; right; simp [ho, hdN]
    · have hm' : c ∈ ps.map Prod.fst := by
        simp only [List.map_cons, List.mem_cons] at hm
        exact hm.resolve_left e
      rcases ih hc.2.2.2 hm' with h | h
      · exact Or.inl h
      · right; simp only [List.map_cons, List.mem_cons]; exact Or.inr h

theorem sep_of_inv {F : Term → Bool} {g : Graph} {fr : Nat} {h : Term} {ps : List Cell}
    (hh : F h = false) (hn : F NIL = false) (inv : Inv ⟨own F g, fr⟩ h ps) : Sep F g h := by
  refine ⟨hh, hn, ?_⟩
  intro c o hc hm
  have hm' : (c, REST, o) ∈ own F g := mem_own.mpr ⟨hm, hc⟩
  have hcell := inv.chain.noOrphan _ _ _ hm' (Or.inr rfl)
  rcases cells_rest_target inv.chain.cells hcell hm' with e | ho
  · rw [e]; exact hn
  · obtain ⟨t, ht, e⟩ := List.mem_map.mp (cells_subject_mem inv.chain.cells o ho)
    rw [← e]
    exact (mem_own.mp ht).2

/-- what "the same step on the own part" means for the two states and answers -/
def StepSim (F : Term → Bool) (g0 : Graph) (r r' : St × Out) : Prop :=
  r.2 = r'.2 ∧ own F r.1.g = r'.1.g ∧ r.1.fresh = r'.1.fresh ∧ foreign F r.1.g = foreign F g0

theorem gOf_sim {F : Term → Bool} {s : St} {r r' : Except Err Graph} (hs : simG F s.g r r') :
    StepSim F s.g (gOf s r) (gOf ⟨own F s.g, s.fresh⟩ r') := by
  cases r with
  | error e =>
    cases r' with
    | error e' => have : e = e' := hs; subst this; exact ⟨rfl, rfl, rfl, rfl⟩
    | ok b => exact absurd hs id
  | ok a =>
    cases r' with
    | error e' => exact absurd hs id
    | ok b => obtain ⟨h1, h2⟩ := hs; exact ⟨rfl, h1, rfl, h2⟩

theorem stOf_sim {F : Term → Bool} {s : St} {r r' : Except Err St} (hs : simS F s.g r r') :
    StepSim F s.g (stOf s r) (stOf ⟨own F s.g, s.fresh⟩ r') := by
  cases r with
  | error e =>
    cases r' with
    | error e' => have : e = e' := hs; subst this; exact ⟨rfl, rfl, rfl, rfl⟩
    | ok b => exact absurd hs id
  | ok a =>
    cases r' with
    | error e' => exact absurd hs id
    | ok b => obtain ⟨h1, h2, h3⟩ := hs; exact ⟨rfl, h1, h2, h3⟩

theorem Inv.endOf_ok {s : St} {h : Term} {ps : List Cell} (inv : Inv s h ps) : ∃ e, endOf s.g h = .ok e := by
  rcases nil_or_snoc ps with rfl | ⟨pre, e, x, rfl⟩
  · exact ⟨h, inv.chain.endOf_nil⟩
  · exact ⟨e, inv.chain.endOf_snoc⟩

theorem step_sep {F : Term → Bool} {s : St} {h : Term} {ps : List Cell} (op : Op)
    (hh : F h = false) (hn : F NIL = false) (hfr : ∀ n, s.fresh ≤ n → F n = false)
    (inv : Inv ⟨own F s.g, s.fresh⟩ h ps) :
    StepSim F s.g (step h s op) (step h ⟨own F s.g, s.fresh⟩ op) := by
  have sep : Sep F s.g h := sep_of_inv hh hn inv
  cases op with
  | append x =>
    obtain ⟨e, he⟩ := inv.endOf_ok
    exact stOf_sim (append_sim sep (hfr _ (Nat.le_refl _)) he x)
  | extend xs =>
    obtain ⟨e, he⟩ := inv.endOf_ok
    exact stOf_sim (iadd_sim sep hfr he xs)
  | setItem i x => exact gOf_sim (setItem_sim sep i x)
  | delItem i => exact gOf_sim (delItem_sim sep i)
  | clear =>
    obtain ⟨g'', h1, _, _⟩ := inv.clear
    obtain ⟨g', h2, h3, h4⟩ := clear_sim sep h1
    simp only [step]
    have h1' : clear (own F s.g) h = .ok g'' := h1
    rw [h1', h2]
    exact ⟨rfl, h3, rfl, h4⟩
  | len => exact ⟨by simp only [step, len_own sep], rfl, rfl, rfl⟩
  | iter => exact ⟨by simp only [step, iter_own sep], rfl, rfl, rfl⟩
  | getItem i => exact ⟨by simp only [step, getItem_own sep], rfl, rfl, rfl⟩
  | index x => exact ⟨by simp only [step, index_own sep], rfl, rfl, rfl⟩
  | contains x => exact ⟨by simp only [step, contains_own sep], rfl, rfl, rfl⟩

/-! the blank-node supply only grows -/

theorem iaddLoop_fresh_le : ∀ (xs : List Term) (g : Graph) (fr : Nat) (e : Term), fr ≤ (iaddLoop g fr e xs).2.1 := by
  intro xs
  induction xs with
  | nil => intro g fr e; exact Nat.le_refl _
  | cons x xs ih =>
    intro g fr e
    simp only [iaddLoop]
    split
    · exact Nat.le_trans (Nat.le_succ fr) (ih _ _ _)
    · exact ih _ _ _

theorem step_fresh_le (h : Term) (s : St) (op : Op) : s.fresh ≤ (step h s op).1.fresh := by
  cases op with
  | append x =>
    simp only [step, append]
    cases endOf s.g h with
    | error e => exact Nat.le_refl _
    | ok e =>
      simp only []
      split
      · exact Nat.le_refl _
      · split
        · exact Nat.le_succ _
        · exact Nat.le_refl _
  | extend xs =>
    simp only [step, iadd]
    cases endOf s.g h with
    | error e => exact Nat.le_refl _
    | ok e =>
      simp only []
      split
      · exact Nat.le_refl _
      · exact iaddLoop_fresh_le _ _ _ _
  | setItem i x => simp only [step, gOf]; split <;> exact Nat.le_refl _
  | delItem i => simp only [step, gOf]; split <;> exact Nat.le_refl _
  | clear => simp only [step, gOf]; split <;> exact Nat.le_refl _
  | len => exact Nat.le_refl _
  | iter => exact Nat.le_refl _
  | getItem i => exact Nat.le_refl _
  | index x => exact Nat.le_refl _
  | contains x => exact Nat.le_refl _

end RV.C19
