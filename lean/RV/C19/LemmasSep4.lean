import RV.C19.LemmasSep3
/-
  C19 helper lemmas, round g, part 6: what another collection reads depends only on the triples of the nodes
  its own walk visits.
-/
namespace RV.C19

theorem foreign_cons (F : Term → Bool) (t : Triple) (g : Graph) :
    foreign F (t :: g) = if F t.1 = true then t :: foreign F g else foreign F g := by
  by_cases h : F t.1 = true <;> simp [foreign, h]

theorem value_foreign {F : Term → Bool} {g : Graph} {s : Term} (p : Term) (hs : F s = true) :
    value (foreign F g) s p = value g s p := by
  induction g with
  | nil => rfl
  | cons t g ih =>
    obtain ⟨s', p', o⟩ := t
    rw [foreign_cons]
    by_cases hf : F s' = true
    · rw [if_pos hf]
      simp only [value]
      split
      · rfl
      · exact ih
    · have hne : ¬(s' = s ∧ p' = p) := fun e => hf (e.1 ▸ hs)
      rw [if_neg hf]
      simp only [value, if_neg hne]
      exact ih

theorem itemsAux_congr {g g' : Graph} (V : Term → Prop)
    (hv : ∀ l, V l → value g' l FIRST = value g l FIRST ∧ value g' l REST = value g l REST)
    (hcl : ∀ l n, V l → value g l REST = some n → V n) :
    ∀ (f : Nat) (l : Term) (chain : List Term), V l → itemsAux g' f l chain = itemsAux g f l chain := by
  intro f
  induction f with
  | zero => intro l chain _; rfl
  | succ f ih =>
    intro l chain hl
    simp only [itemsAux, (hv l hl).1, (hv l hl).2]
    cases hr : value g l REST with
    | none => rfl
    | some n => simp only [ih n (n :: chain) (hcl l n hl hr)]

theorem items_congr {g g' : Graph} (V : Term → Prop)
    (hv : ∀ l, V l → value g' l FIRST = value g l FIRST ∧ value g' l REST = value g l REST)
    (hcl : ∀ l n, V l → value g l REST = some n → V n) {h : Term} (hh : V h) : items g' h = items g h := by
  have h1 : items g' h = itemsAux g (g'.length + 2) h [h] := itemsAux_congr V hv hcl _ _ _ hh
  have n1 := items_no_fuel g' h
  rw [h1] at n1
  have n2 : (itemsAux g (g.length + 2) h [h]).2 ≠ some .fuel := items_no_fuel g h
  rw [h1]
  show _ = itemsAux g (g.length + 2) h [h]
  rw [← itemsAux_mono _ (max (g'.length + 2) (g.length + 2)) h [h] (Nat.le_max_left _ _) n1,
    ← itemsAux_mono _ (max (g'.length + 2) (g.length + 2)) h [h] (Nat.le_max_right _ _) n2]

/-- A second collection whose whole rdf:rest walk stays inside the foreign subjects until rdf:nil reads the
    same before and after, as long as the foreign triples are the same and rdf:nil carries no list triples. -/
theorem items_second {F : Term → Bool} {g g' : Graph} {h2 : Term} (hf : foreign F g' = foreign F g)
    (hnil : ∀ p, p = FIRST ∨ p = REST → value g NIL p = none ∧ value g' NIL p = none)
    (h2F : F h2 = true) (hcl : ∀ c o, F c = true → (c, REST, o) ∈ g → F o = true ∨ o = NIL) :
    items g' h2 = items g h2 := by
  apply items_congr (fun l => F l = true ∨ l = NIL) _ _ (Or.inl h2F)
  · intro l hl
    rcases hl with hl | rfl
    · constructor
      · rw [← value_foreign FIRST hl, hf, value_foreign FIRST hl]
      · rw [← value_foreign REST hl, hf, value_foreign REST hl]
    · exact ⟨by rw [(hnil FIRST (Or.inl rfl)).1, (hnil FIRST (Or.inl rfl)).2],
        by rw [(hnil REST (Or.inr rfl)).1, (hnil REST (Or.inr rfl)).2]⟩
  · intro l n hl hr
    rcases hl with hl | rfl
    · exact hcl l n hl (value_some_mem hr)
    · rw [(hnil REST (Or.inr rfl)).1] at hr; cases hr

theorem getContainer_congr {g g' : Graph} (V : Term → Prop)
    (hv : ∀ l, V l → value g' l FIRST = value g l FIRST ∧ value g' l REST = value g l REST)
    (hcl : ∀ l n, V l → value g l REST = some n → V n) :
    ∀ (k : Nat) (oc : Option Term), (∀ c, oc = some c → V c) →
      getContainer g' oc k = getContainer g oc k ∧ ∀ c, getContainer g oc k = some c → V c := by
  intro k
  induction k with
  | zero =>
    intro oc hoc
    cases oc <;> exact ⟨rfl, by simpa [getContainer] using hoc⟩
  | succ k ih =>
    intro oc hoc
    cases oc with
    | none => exact ⟨rfl, by simp [getContainer]⟩
    | some c =>
      have hc := hoc c rfl
      simp only [getContainer, (hv c hc).2]
      exact ih (value g c REST) (fun o ho => hcl c o hc ho)

/-- every read of the second collection that goes through `Graph.items`, `_get_container` and `Graph.value`
    (len, iteration, membership, indexing) answers the same in `g'` as in `g` -/
theorem reads_second {F : Term → Bool} {g g' : Graph} {h2 : Term} (hf : foreign F g' = foreign F g)
    (hnil : ∀ p, p = FIRST ∨ p = REST → value g NIL p = none ∧ value g' NIL p = none)
    (h2F : F h2 = true) (hcl : ∀ c o, F c = true → (c, REST, o) ∈ g → F o = true ∨ o = NIL) :
    len g' h2 = len g h2 ∧ iter g' h2 = iter g h2 ∧ (∀ x, contains g' h2 x = contains g h2 x) ∧
      ∀ i, getItem g' h2 i = getItem g h2 i := by
  have hi := items_second hf hnil h2F hcl
  have hv : ∀ l, (F l = true ∨ l = NIL) →
      value g' l FIRST = value g l FIRST ∧ value g' l REST = value g l REST := by
    intro l hl
    rcases hl with hl | rfl
    · exact ⟨by rw [← value_foreign FIRST hl, hf, value_foreign FIRST hl],
        by rw [← value_foreign REST hl, hf, value_foreign REST hl]⟩
    · exact ⟨by rw [(hnil FIRST (Or.inl rfl)).1, (hnil FIRST (Or.inl rfl)).2],
        by rw [(hnil REST (Or.inr rfl)).1, (hnil REST (Or.inr rfl)).2]⟩
  have hc : ∀ l n, (F l = true ∨ l = NIL) → value g l REST = some n → (F n = true ∨ n = NIL) := by
    intro l n hl hr
    rcases hl with hl | rfl
    · exact hcl l n hl (value_some_mem hr)
    · rw [(hnil REST (Or.inr rfl)).1] at hr; cases hr
  have hlen : len g' h2 = len g h2 := by simp only [len, hi]
  refine ⟨hlen, by simp only [iter, hi], fun x => by simp only [contains, hi], fun i => ?_⟩
  have hn : normIdx g' h2 i = normIdx g h2 i := by simp only [normIdx, hlen]
  unfold getItem
  rw [hn]
  cases normIdx g h2 i with
  | error e => rfl
  | ok k =>
    have hgc := getContainer_congr (fun l => F l = true ∨ l = NIL) hv hc k (some h2)
      (fun c e => by cases e; exact Or.inl h2F)
    simp only [getAt, hgc.1]
    cases hcc : getContainer g (some h2) k with
    | none => rfl
    | some c => simp only [(hv c (hgc.2 c hcc)).1]

theorem value_nil_of_own_inv {F : Term → Bool} {g : Graph} {fr : Nat} {h : Term} {ps : List Cell}
    (hn : F NIL = false) (inv : Inv ⟨own F g, fr⟩ h ps) {p : Term} (hp : p = FIRST ∨ p = REST) :
    value g NIL p = none := by
  rw [← value_own p hn]
  exact inv.chain.value_nil hp

end RV.C19
