import RV.C19.Lemmas
/-
  C19 helper lemmas, part 2: every mutation maps a chain to the chain of the list operation.
  The lemmas are stated for an arbitrary new graph `g'` characterised by membership, so that they
  do not depend on how `Graph.set` / `remove` / `add` are composed.
-/
set_option linter.unusedSimpArgs false
namespace RV.C19

theorem nodup_split {pre post : List Cell} {c x : Term}
    (h : ((pre ++ (c, x) :: post).map Prod.fst).Nodup) :
    c ∉ pre.map Prod.fst ∧ c ∉ post.map Prod.fst ∧ (∀ a ∈ pre.map Prod.fst, a ∉ post.map Prod.fst) ∧
      (pre.map Prod.fst).Nodup ∧ (post.map Prod.fst).Nodup := by
  simp only [List.map_append, List.map_cons, List.nodup_append, List.nodup_cons, List.mem_cons] at h
  obtain ⟨h1, ⟨h2, h3⟩, h4⟩ := h
  refine ⟨fun hm => h4 c hm c (Or.inl rfl) rfl, h2, fun a ha hb => h4 a ha a (Or.inr hb) rfl, h1, h3⟩

/-- `c[k] = v` for an existing position -/
theorem chain_set {g g' : Graph} {h : Term} {tl : Option Term} {pre post : List Cell} {c x v : Term}
    (ch : Chain g h tl (pre ++ (c, x) :: post))
    (hg : ∀ t, t ∈ g' ↔ t = (c, FIRST, v) ∨ (t ∈ g ∧ ¬(t.1 = c ∧ t.2.1 = FIRST))) :
    Chain g' h tl (pre ++ (c, v) :: post) := by
  obtain ⟨hc1, hc2, _, _, _⟩ := nodup_split ch.nodup
  have hcells := cells_append.mp ch.cells
  have hFR : FIRST ≠ REST := by decide
  refine ⟨?_, ch.hne, ?_, ?_, ?_⟩
  · intro _
    have := ch.head (by simp)
    rw [hd_append] at this ⊢
    exact this
  · simpa [List.map_append] using ch.nodup
  · refine cells_append.mpr ⟨cells_frame hcells.1 ?_, hcells.2.1, ?_, ?_, cells_frame hcells.2.2.2.2 ?_⟩
    · intro c' p o hc' _
      have : c' ≠ c := fun e => hc1 (e ▸ hc')
      simp [hg, this]
    · intro o
      rw [hg]
      simp only [Prod.mk.injEq, true_and, and_self, not_true_eq_false, and_false, or_false]
    · intro o
      rw [hg, ← hcells.2.2.2.1 o]
      simp [hFR, hFR.symm]
    · intro c' p o hc' _
      have : c' ≠ c := fun e => hc2 (e ▸ hc')
      simp [hg, this]
  · intro s p o hm hp
    rw [hg] at hm
    rcases hm with e | ⟨hm, _⟩
    · simp only [Prod.mk.injEq] at e
      simp [e.1]
    · have := ch.noOrphan s p o hm hp
      simpa [List.map_append] using this

theorem hdN_ne_nil_of_cells {g : Graph} {tl : Option Term} {q : Cell} {ps : List Cell}
    (hc : Cells g tl (q :: ps)) : hdN (q :: ps) ≠ NIL := by
  obtain ⟨c, x⟩ := q
  exact hc.1

/-- `del c[k]` for `k ≥ 1`: the cell `c` after `p` disappears, `p` is linked to what followed `c`
    (rdf:nil if `c` was the tail) -/
theorem chain_del_inner {g g' : Graph} {h : Term} {pre rest : List Cell} {p xp c x : Term}
    (ch : Chain g h (some NIL) (pre ++ (p, xp) :: (c, x) :: rest))
    (hg : ∀ t, t ∈ g' ↔ t = (p, REST, hdN rest) ∨ (t ∈ g ∧ t.1 ≠ c ∧ ¬(t.1 = p ∧ t.2.1 = REST))) :
    Chain g' h (some NIL) (pre ++ (p, xp) :: rest) := by
  obtain ⟨hp1, hp2, hd1, hn1, hn2⟩ := nodup_split ch.nodup
  have hcells := cells_append.mp ch.cells
  have hFR : FIRST ≠ REST := by decide
  simp only [List.map_cons, List.mem_cons, not_or, List.nodup_cons] at hp2 hn2 hd1
  refine ⟨?_, ch.hne, ?_, ?_, ?_⟩
  · intro _
    have := ch.head (by simp)
    rw [hd_append] at this ⊢
    exact this
  · have := ch.nodup
    simp only [List.map_append, List.map_cons, List.nodup_append, List.nodup_cons, List.mem_cons,
      not_or] at this ⊢
    refine ⟨this.1, ⟨this.2.1.1.2, this.2.1.2.2⟩, ?_⟩
    intro a ha b hb
    exact this.2.2 a ha b (by rcases hb with hb | hb; exact Or.inl hb; exact Or.inr (Or.inr hb))
  · refine cells_append.mpr ⟨cells_frame hcells.1 ?_, hcells.2.1, ?_, ?_, cells_frame hcells.2.2.2.2.2.2.2 ?_⟩
    · intro c' q o hc' _
      have h1 : c' ≠ p := fun e => hp1 (e ▸ hc')
      have h2 : c' ≠ c := fun e => (hd1 c' hc').1 e
      simp [hg, h1, h2]
    · intro o
      rw [hg, ← hcells.2.2.1 o]
      simp [hp2.1, hFR, hFR.symm]
    · intro o
      rw [hg, hd_some_nil]
      simp [eq_comm]
    · intro c' q o hc' _
      have h1 : c' ≠ p := fun e => hp2.2 (e ▸ hc')
      have h2 : c' ≠ c := fun e => hn2.1 (e ▸ hc')
      simp [hg, h1, h2]
  · intro s q o hm hq
    rw [hg] at hm
    rcases hm with e | ⟨hm, hsc, _⟩
    · simp only [Prod.mk.injEq] at e
      simp [e.1]
    · have := ch.noOrphan s q o hm hq
      simp only [List.map_append, List.map_cons, List.mem_append, List.mem_cons] at this ⊢
      rcases this with h1 | h1 | h1 | h1
      · exact Or.inl h1
      · exact Or.inr (Or.inl h1)
      · exact absurd h1 hsc
      · exact Or.inr (Or.inr h1)

/-- `del c[0]` on a list with at least two items: the head takes over the second cell -/
theorem chain_del_head2 {g g' : Graph} {h : Term} {rest : List Cell} {x nx xn : Term}
    (ch : Chain g h (some NIL) ((h, x) :: (nx, xn) :: rest))
    (hg : ∀ t, t ∈ g' ↔ t.1 ≠ nx ∧ (t = (h, FIRST, xn) ∨ t = (h, REST, hdN rest) ∨
            (t ∈ g ∧ ¬(t.1 = h ∧ (t.2.1 = FIRST ∨ t.2.1 = REST))))) :
    Chain g' h (some NIL) ((h, xn) :: rest) := by
  have hnd := ch.nodup
  simp only [List.map_cons, List.nodup_cons, List.mem_cons, not_or] at hnd
  have hcells := ch.cells
  have hFR : FIRST ≠ REST := by decide
  have hhn : h ≠ nx := hnd.1.1
  refine ⟨fun _ => rfl, ch.hne, ?_, ⟨ch.hne, ?_, ?_, cells_frame hcells.2.2.2.2.2.2 ?_⟩, ?_⟩
  · simp only [List.map_cons, List.nodup_cons]
    exact ⟨hnd.1.2, hnd.2.2⟩
  · intro o
    rw [hg]
    simp [hhn, hFR, hFR.symm]
  · intro o
    rw [hg, hd_some_nil]
    simp [hhn, eq_comm, hFR, hFR.symm]
  · intro c' q o hc' _
    have h1 : c' ≠ h := fun e => hnd.1.2 (e ▸ hc')
    have h2 : c' ≠ nx := fun e => hnd.2.1 (e ▸ hc')
    simp [hg, h1, h2]
  · intro s q o hm hq
    rw [hg] at hm
    obtain ⟨hs, hm⟩ := hm
    rcases hm with e | e | ⟨hm, _⟩
    · simp only [Prod.mk.injEq] at e; simp [e.1]
    · simp only [Prod.mk.injEq] at e; simp [e.1]
    · have := ch.noOrphan s q o hm hq
      simp only [List.map_cons, List.mem_cons] at this ⊢
      rcases this with h1 | h1 | h1
      · exact Or.inl h1
      · exact absurd h1 hs
      · exact Or.inr h1

/-- `del c[0]` on a one-item list: the head loses its two list triples -/
theorem chain_del_head1 {g g' : Graph} {h x : Term} {tl : Option Term}
    (ch : Chain g h (some NIL) [(h, x)])
    (hg : ∀ t, t ∈ g' ↔ t ∈ g ∧ ¬(t.1 = h ∧ (t.2.1 = FIRST ∨ t.2.1 = REST))) :
    Chain g' h tl [] := by
  refine ⟨fun hne => absurd rfl hne, ch.hne, by simp, trivial, ?_⟩
  intro s q o hm hq
  rw [hg] at hm
  have := ch.noOrphan s q o hm.1 hq
  simp only [List.map_cons, List.map_nil, List.mem_singleton] at this
  exact absurd ⟨this, hq⟩ hm.2

/-- a new last cell `n` (not yet in the graph) after the last cell `e` of a non-empty chain -/
theorem chain_snoc {g g' : Graph} {h : Term} {tl : Option Term} {pre : List Cell} {e x n item : Term}
    (ch : Chain g h tl (pre ++ [(e, x)]))
    (hn1 : n ≠ NIL) (hn2 : ∀ p o, (n, p, o) ∉ g) (hn3 : n ∉ (pre ++ [(e, x)]).map Prod.fst)
    (hg : ∀ t, t ∈ g' ↔ t = (e, REST, n) ∨ t = (n, FIRST, item) ∨ (∃ o, tl = some o ∧ t = (n, REST, o)) ∨
            (t ∈ g ∧ ¬(t.1 = e ∧ t.2.1 = REST))) :
    Chain g' h tl (pre ++ [(e, x), (n, item)]) := by
  obtain ⟨hp1, _, _, _, _⟩ := nodup_split ch.nodup
  have hcells := cells_append.mp ch.cells
  have hFR : FIRST ≠ REST := by decide
  simp only [List.map_append, List.map_cons, List.map_nil, List.mem_append, List.mem_singleton, not_or] at hn3
  have hne : e ≠ n := fun e' => hn3.2 e'.symm
  refine ⟨?_, ch.hne, ?_, ?_, ?_⟩
  · intro _
    have := ch.head (by simp)
    rw [hd_append] at this ⊢
    exact this
  · have := ch.nodup
    simp only [List.map_append, List.map_cons, List.map_nil, List.nodup_append, List.nodup_cons, List.mem_cons,
      List.mem_singleton, List.not_mem_nil, not_false_eq_true, List.nodup_nil, and_true, true_and,
      or_false] at this ⊢
    refine ⟨this.1, hne, ?_⟩
    intro a ha b hb
    rcases hb with hb | hb
    · exact this.2 a ha b hb
    · subst hb; exact fun e' => hn3.1 (e' ▸ ha)
  · refine cells_append.mpr ⟨cells_frame hcells.1 ?_, hcells.2.1, ?_, ?_, hn1, ?_, ?_, trivial⟩
    · intro c' q o hc' _
      have h1 : c' ≠ e := fun e' => hp1 (e' ▸ hc')
      have h2 : c' ≠ n := fun e' => hn3.1 (e' ▸ hc')
      simp [hg, h1, h2]
    · intro o
      rw [hg, ← hcells.2.2.1 o]
      simp [hne, hFR, hFR.symm]
    · intro o
      rw [hg]
      simp [hne, hd, eq_comm, hFR, hFR.symm]
    · intro o
      rw [hg]
      simp [hne, hne.symm, hn2, eq_comm, hFR, hFR.symm]
    · intro o
      rw [hg]
      cases tl with
      | none => simp [hne.symm, hn2, hd, hFR, hFR.symm]
      | some o' => simp [hne, hne.symm, hn2, hd, eq_comm, hFR, hFR.symm]
  · intro s q o hm hq
    rw [hg] at hm
    simp only [List.map_append, List.map_cons, List.map_nil, List.mem_append, List.mem_cons, List.not_mem_nil,
      or_false]
    rcases hm with e' | e' | ⟨o', _, e'⟩ | ⟨hm, _⟩
    · simp only [Prod.mk.injEq] at e'; exact Or.inr (Or.inl e'.1)
    · simp only [Prod.mk.injEq] at e'; exact Or.inr (Or.inr e'.1)
    · simp only [Prod.mk.injEq] at e'; exact Or.inr (Or.inr e'.1)
    · have := ch.noOrphan s q o hm hq
      simp only [List.map_append, List.map_cons, List.map_nil, List.mem_append, List.mem_singleton] at this
      rcases this with h1 | h1
      · exact Or.inl h1
      · exact Or.inr (Or.inl h1)

/-- the first item of an empty collection goes into the head cell -/
theorem chain_first {g g' : Graph} {h item : Term} {tl tl' : Option Term} (ch : Chain g h tl' [])
    (hg : ∀ t, t ∈ g' ↔ t = (h, FIRST, item) ∨ (∃ o, tl = some o ∧ t = (h, REST, o)) ∨ t ∈ g) :
    Chain g' h tl [(h, item)] := by
  have hFR : FIRST ≠ REST := by decide
  have hno : ∀ s p o, p = FIRST ∨ p = REST → (s, p, o) ∉ g := fun s p o hp => ch.empty_no_triple hp
  refine ⟨fun _ => rfl, ch.hne, by simp, ⟨ch.hne, ?_, ?_, trivial⟩, ?_⟩
  · intro o
    rw [hg]
    simp [hno h FIRST o (Or.inl rfl), eq_comm, hFR, hFR.symm]
  · intro o
    rw [hg]
    cases tl with
    | none => simp [hno h REST o (Or.inr rfl), hd, hFR, hFR.symm]
    | some o' => simp [hno h REST o (Or.inr rfl), hd, eq_comm, hFR, hFR.symm]
  · intro s q o hm hq
    rw [hg] at hm
    rcases hm with e | ⟨_, _, e⟩ | hm
    · simp only [Prod.mk.injEq] at e; simp [e.1]
    · simp only [Prod.mk.injEq] at e; simp [e.1]
    · exact absurd hm (hno s q o hq)

/-- removing the rdf:rest of the last cell opens the chain (`__iadd__`) -/
theorem chain_open {g g' : Graph} {h : Term} {pre : List Cell} {e x : Term}
    (ch : Chain g h (some NIL) (pre ++ [(e, x)]))
    (hg : ∀ t, t ∈ g' ↔ t ∈ g ∧ ¬(t.1 = e ∧ t.2.1 = REST)) :
    Chain g' h none (pre ++ [(e, x)]) := by
  obtain ⟨hp1, _, _, _, _⟩ := nodup_split ch.nodup
  have hcells := cells_append.mp ch.cells
  have hFR : FIRST ≠ REST := by decide
  refine ⟨?_, ch.hne, ch.nodup, ?_, ?_⟩
  · intro _
    have := ch.head (by simp)
    rw [hd_append] at this ⊢
    exact this
  · refine cells_append.mpr ⟨cells_frame hcells.1 ?_, hcells.2.1, ?_, ?_, trivial⟩
    · intro c' q o hc' _
      have h1 : c' ≠ e := fun e' => hp1 (e' ▸ hc')
      simp [hg, h1]
    · intro o
      rw [hg, ← hcells.2.2.1 o]
      simp [hFR, hFR.symm]
    · intro o
      rw [hg]
      simp [hd]
  · intro s q o hm hq
    rw [hg] at hm
    exact ch.noOrphan s q o hm.1 hq

/-- writing `rdf:rest rdf:nil` on the last cell closes an open chain -/
theorem chain_close {g g' : Graph} {h : Term} {pre : List Cell} {e x : Term}
    (ch : Chain g h none (pre ++ [(e, x)]))
    (hg : ∀ t, t ∈ g' ↔ t = (e, REST, NIL) ∨ t ∈ g) :
    Chain g' h (some NIL) (pre ++ [(e, x)]) := by
  obtain ⟨hp1, _, _, _, _⟩ := nodup_split ch.nodup
  have hcells := cells_append.mp ch.cells
  have hFR : FIRST ≠ REST := by decide
  refine ⟨?_, ch.hne, ch.nodup, ?_, ?_⟩
  · intro _
    have := ch.head (by simp)
    rw [hd_append] at this ⊢
    exact this
  · refine cells_append.mpr ⟨cells_frame hcells.1 ?_, hcells.2.1, ?_, ?_, trivial⟩
    · intro c' q o hc' _
      have h1 : c' ≠ e := fun e' => hp1 (e' ▸ hc')
      simp [hg, h1]
    · intro o
      rw [hg, ← hcells.2.2.1 o]
      simp [hFR, hFR.symm]
    · intro o
      rw [hg]
      have := hcells.2.2.2.1 o
      simp only [hd] at this
      simp [hd, this, eq_comm]
  · intro s q o hm hq
    rw [hg] at hm
    rcases hm with e' | hm
    · simp only [Prod.mk.injEq] at e'; simp [e'.1]
    · exact ch.noOrphan s q o hm hq

theorem chain_nil_tl {g : Graph} {h : Term} {tl tl' : Option Term} (ch : Chain g h tl []) : Chain g h tl' [] :=
  ⟨fun hne => absurd rfl hne, ch.hne, ch.nodup, trivial, ch.noOrphan⟩

/-- `Chain` depends on the graph only through membership -/
theorem chain_congr {g g' : Graph} {h : Term} {tl : Option Term} {ps : List Cell} (ch : Chain g h tl ps)
    (hg : ∀ t, t ∈ g' ↔ t ∈ g) : Chain g' h tl ps :=
  ⟨ch.head, ch.hne, ch.nodup, cells_frame ch.cells (fun _ _ _ _ _ => hg _),
   fun s p o hm hp => ch.noOrphan s p o ((hg _).1 hm) hp⟩

end RV.C19
